import XV.Props.C03
import XV.Props.C05
import XV.Lemmas.InvTable
import XV.Lemmas.InvBlock
import XV.Lemmas.InvList
import XV.Lemmas.InvLive
import XV.Lemmas.InvLedger
import XV.Lemmas.PlayFull
import XV.Lemmas.PlayKeysRun
import XV.Lemmas.Repost
import XV.Lemmas.WalkSkip
/-!
C02 — token conservation: supply changes only by coinbase, every token is in one place.
Theorems about the UTXO table of the L1 chain model. `sumU` is the sum of all rows of table "U";
`UNodup` says the table has one row per key (maintained by `put`/`del`).
-/
namespace XV.C02
open XV.Chain

def sumU (u : List (Ver × UItem)) : Int := (u.map (fun p => (p.2.amt : Int))).sum
def UNodup (u : List (Ver × UItem)) : Prop := (u.map (·.1)).Nodup
def amtAt (u : List (Ver × UItem)) (k : Ver) : Int := match lookup u k with | some x => x.amt | none => 0

theorem del_nodup (u : List (Ver × UItem)) (k : Ver) (h : UNodup u) : UNodup (del u k) := by
  unfold UNodup del at *
  induction u with
  | nil => simp
  | cons p r ih =>
    simp only [List.map_cons, List.nodup_cons] at h
    simp only [List.filter_cons]
    split
    · simp only [List.map_cons, List.nodup_cons]
      refine ⟨?_, ih h.2⟩
      intro hm
      obtain ⟨x, hx, he⟩ := List.mem_map.mp hm
      exact h.1 (List.mem_map.mpr ⟨x, (List.mem_filter.mp hx).1, he⟩)
    · exact ih h.2

theorem lookup_none_of_not_mem (u : List (Ver × UItem)) (k : Ver) (h : k ∉ u.map (·.1)) : lookup u k = none := by
  induction u with
  | nil => rfl
  | cons p r ih =>
    obtain ⟨a, b⟩ := p
    simp only [List.map_cons, List.mem_cons, not_or] at h
    rw [lookup_cons]
    have : ¬ a = k := fun e => h.1 e.symm
    simp [this, ih h.2]

theorem del_cons (a : Ver) (b : UItem) (r : List (Ver × UItem)) (k : Ver) :
    del ((a, b) :: r) k = if a = k then del r k else (a, b) :: del r k := by
  unfold del
  simp only [List.filter_cons]
  by_cases h : a = k <;> simp [h]

/-- removing a key removes exactly its amount from the sum -/
theorem sumU_del (u : List (Ver × UItem)) (k : Ver) (h : UNodup u) : sumU (del u k) = sumU u - amtAt u k := by
  unfold UNodup at h
  induction u with
  | nil => simp [sumU, del, amtAt]
  | cons p r ih =>
    obtain ⟨a, b⟩ := p
    simp only [List.map_cons, List.nodup_cons] at h
    have ih' := ih h.2
    rw [del_cons]
    by_cases hk : a = k
    · subst hk
      simp only [↓reduceIte]
      have hnone : lookup r a = none := lookup_none_of_not_mem r a h.1
      rw [ih']
      simp only [sumU, amtAt, List.map_cons, List.sum_cons, lookup_cons, ↓reduceIte, hnone]
      omega
    · simp only [hk, ↓reduceIte]
      simp only [sumU, List.map_cons, List.sum_cons] at ih' ⊢
      unfold amtAt at ih' ⊢
      rw [lookup_cons]
      simp only [hk, ↓reduceIte]
      omega

theorem put_nodup (u : List (Ver × UItem)) (k : Ver) (v : UItem) (h : UNodup u) : UNodup (put u k v) := by
  unfold put
  have hd := del_nodup u k h
  unfold UNodup at *
  simp only [List.map_cons, List.nodup_cons]
  refine ⟨?_, hd⟩
  intro hm
  obtain ⟨x, hx, he⟩ := List.mem_map.mp hm
  unfold del at hx
  have := (List.mem_filter.mp hx).2
  simp [he] at this

theorem sumU_put (u : List (Ver × UItem)) (k : Ver) (v : UItem) (h : UNodup u) :
    sumU (put u k v) = sumU u - amtAt u k + v.amt := by
  unfold put
  have := sumU_del u k h
  simp only [sumU, List.map_cons, List.sum_cons] at this ⊢
  omega

/-- fee part of a transaction: the outputs to the placeholder "$" -/
def feeOf (outs : List Out) : Int := ((outs.filter (fun o => o.addr == "$")).map (fun o => (o.amt : Int))).sum
/-- outputs that materialise at once -/
def paidOf (outs : List Out) : Int := ((outs.filter (fun o => !(o.addr == "$"))).map (fun o => (o.amt : Int))).sum

theorem outSum_split (outs : List Out) : (outSum outs : Int) = feeOf outs + paidOf outs := by
  have hfold : ∀ (l : List Out) (a : Nat),
      (((l.map (·.amt)).foldl (· + ·) a : Nat) : Int) = (a : Int) + ((l.map (fun o => (o.amt : Int))).sum) := by
    intro l
    induction l with
    | nil => intro a; simp
    | cons x r ih => intro a; simp only [List.map_cons, List.foldl_cons, List.sum_cons]; rw [ih]; omega
  unfold outSum feeOf paidOf
  rw [hfold]
  induction outs with
  | nil => simp
  | cons o r ih =>
    simp only [List.map_cons, List.sum_cons, List.filter_cons]
    by_cases h : (o.addr == "$") = true
    · simp only [h, ↓reduceIte, Bool.not_true, Bool.false_eq_true, List.map_cons, List.sum_cons]
      simp only [Int.natCast_zero, Int.zero_add] at ih ⊢; omega
    · simp only [h, Bool.false_eq_true, ↓reduceIte, Bool.not_false, List.map_cons, List.sum_cons]
      simp only [Int.natCast_zero, Int.zero_add] at ih ⊢; omega

/-- creating the outputs of a transaction whose output keys are fresh adds exactly the non-fee amounts to the table,
and (for a coinbase) the same amount to the total -/
theorem applyOuts_sum (t : Tx) (outs : List Out) (off : Nat) (s : St) (hn : UNodup s.U)
    (hfresh : ∀ o, off ≤ o → lookup s.U (t.id, o) = none) :
    UNodup (applyOuts t outs off s).U ∧
    sumU (applyOuts t outs off s).U = sumU s.U + paidOf outs ∧
    (applyOuts t outs off s).total = s.total + (if t.coinbase then paidOf outs else 0) := by
  induction outs generalizing off s with
  | nil => simp [applyOuts, paidOf, hn]
  | cons o r ih =>
    unfold applyOuts
    by_cases hz : (o.addr == "$" || o.amt == 0) = true
    · simp only [hz, ↓reduceIte]
      obtain ⟨i1, i2, i3⟩ := ih (off + 1) s hn (fun x hx => hfresh x (by omega))
      refine ⟨i1, ?_, ?_⟩
      · rw [i2]
        unfold paidOf
        simp only [List.filter_cons]
        by_cases hd : (o.addr == "$") = true
        · simp [hd]
        · have : o.amt = 0 := by simpa [hd] using hz
          simp [hd, this]
      · rw [i3]
        unfold paidOf
        simp only [List.filter_cons]
        by_cases hd : (o.addr == "$") = true
        · simp [hd]
        · have : o.amt = 0 := by simpa [hd] using hz
          simp [hd, this]
    · simp only [hz, Bool.false_eq_true, ↓reduceIte]
      have hnd : (o.addr == "$") = false := by
        cases h : (o.addr == "$") <;> simp_all
      have hs' : UNodup (put s.U (t.id, off) ⟨o.addr, o.amt, o.frozen⟩) := put_nodup _ _ _ hn
      obtain ⟨i1, i2, i3⟩ := ih (off + 1)
        { s with U := put s.U (t.id, off) ⟨o.addr, o.amt, o.frozen⟩,
                 total := if t.coinbase then s.total + o.amt else s.total } hs'
        (fun x hx => by
          simp only
          rw [lookup_put]
          have : ¬ (t.id, off) = (t.id, x) := by intro e; injection e with _ e2; omega
          simp [this, hfresh x (by omega)])
      refine ⟨i1, ?_, ?_⟩
      · rw [i2]
        simp only
        rw [sumU_put _ _ _ hn]
        unfold amtAt
        rw [hfresh off (Nat.le_refl _)]
        unfold paidOf
        simp only [List.filter_cons, hnd, Bool.not_false, ↓reduceIte, List.map_cons, List.sum_cons]
        omega
      · rw [i3]
        simp only
        unfold paidOf
        simp only [List.filter_cons, hnd, Bool.not_false, ↓reduceIte, List.map_cons, List.sum_cons]
        split <;> omega

/-- spending inputs that exist (pairwise distinct) removes exactly their amounts -/
theorem spend_sum (ins : List InRef) (u : List (Ver × UItem)) (hn : UNodup u)
    (hnd : (ins.map (fun r => (r.tx, r.off))).Nodup) :
    UNodup (ins.foldl (fun u r => del u (r.tx, r.off)) u) ∧
    sumU (ins.foldl (fun u r => del u (r.tx, r.off)) u) = sumU u - (ins.map (fun r => amtAt u (r.tx, r.off))).sum := by
  induction ins generalizing u with
  | nil => simp [hn]
  | cons r rest ih =>
    simp only [List.foldl_cons, List.map_cons, List.nodup_cons, List.sum_cons] at hnd ⊢
    obtain ⟨i1, i2⟩ := ih (del u (r.tx, r.off)) (del_nodup _ _ hn) hnd.2
    refine ⟨i1, ?_⟩
    rw [i2, sumU_del _ _ hn]
    have : (rest.map (fun x => amtAt (del u (r.tx, r.off)) (x.tx, x.off))) = rest.map (fun x => amtAt u (x.tx, x.off)) := by
      apply List.map_congr_left
      intro x hx
      unfold amtAt
      rw [lookup_del]
      have : ¬ (r.tx, r.off) = (x.tx, x.off) := fun e => hnd.1 (List.mem_map.mpr ⟨x, hx, e.symm⟩)
      simp [this]
    rw [this]; omega

theorem checkInputs_sum (s : St) (lh : Int) (ins : List InRef) (seen : List Ver) (acc n : Nat)
    (h : checkInputs s lh ins seen acc = .ok n) :
    (n : Int) = acc + (ins.map (fun r => amtAt s.U (r.tx, r.off))).sum := by
  induction ins generalizing seen acc with
  | nil => simp [checkInputs] at h; simp [h]
  | cons r rest ih =>
    unfold checkInputs at h
    split at h
    · simp at h
    · split at h
      · simp at h
      · rename_i u hu
        split at h
        · simp at h
        · split at h
          · simp at h
          · split at h
            · simp at h
            · have := ih _ _ h
              simp only [List.map_cons, List.sum_cons]
              unfold amtAt at this ⊢
              simp only [hu]
              omega

private theorem spend_lookup (ins : List InRef) (u : List (Ver × UItem)) (k : Ver) (h : lookup u k = none) :
    lookup (ins.foldl (fun u r => del u (r.tx, r.off)) u) k = none := by
  induction ins generalizing u with
  | nil => simpa
  | cons r rest ih =>
    simp only [List.foldl_cons]
    apply ih
    rw [lookup_del, h]; split <;> rfl

/-- **an admitted non-coinbase transaction moves tokens, it does not create or destroy them**: the table loses
exactly the fee (which is pending until the transaction is confirmed in a block), the total is untouched -/
theorem applyTx_conserves (s : St) (lh : Int) (t : Tx) (hadm : admitTx s lh t = .ok) (hn : UNodup s.U)
    (hfresh : ∀ o, lookup s.U (t.id, o) = none) (hcb : t.coinbase = false) :
    UNodup (applyTx s t).U ∧ sumU (applyTx s t).U + feeOf t.outs = sumU s.U ∧ (applyTx s t).total = s.total := by
  obtain ⟨n, hci, hbal⟩ := XV.C03.admitted_balanced s lh t hadm hcb
  obtain ⟨_, hnd, _, _⟩ := XV.C03.admit_sound s lh t hadm
  have hsum := checkInputs_sum s lh t.ins [] 0 n hci
  unfold applyTx
  obtain ⟨kU, kT, _, _, _⟩ := applyKOut_frame t t.kout 0 s
  obtain ⟨sp1, sp2⟩ := spend_sum t.ins (applyKOut t t.kout 0 s).U (by rw [kU]; exact hn) hnd
  obtain ⟨o1, o2, o3⟩ := applyOuts_sum t t.outs 0
    { applyKOut t t.kout 0 s with U := t.ins.foldl (fun u r => del u (r.tx, r.off)) (applyKOut t t.kout 0 s).U }
    sp1 (fun o _ => by
      simp only
      apply spend_lookup
      rw [kU]; exact hfresh o)
  refine ⟨o1, ?_, ?_⟩
  · rw [o2]
    simp only
    rw [sp2, kU]
    have := outSum_split t.outs
    omega
  · rw [o3]
    simp only [hcb, Bool.false_eq_true, ↓reduceIte]
    rw [kT]; omega

/-- **supply changes only by coinbase**: a coinbase transaction without inputs (genesis, award) adds exactly its
materialised outputs to the table and to the total -/
theorem applyTx_coinbase (s : St) (t : Tx) (hn : UNodup s.U) (hfresh : ∀ o, lookup s.U (t.id, o) = none)
    (hcb : t.coinbase = true) (hins : t.ins = []) :
    UNodup (applyTx s t).U ∧ sumU (applyTx s t).U = sumU s.U + paidOf t.outs ∧
    (applyTx s t).total = s.total + paidOf t.outs := by
  unfold applyTx
  obtain ⟨kU, kT, _, _, _⟩ := applyKOut_frame t t.kout 0 s
  simp only [hins, List.foldl_nil]
  obtain ⟨o1, o2, o3⟩ := applyOuts_sum t t.outs 0 (applyKOut t t.kout 0 s) (by rw [kU]; exact hn)
    (fun o _ => by rw [kU]; exact hfresh o)
  refine ⟨o1, ?_, ?_⟩
  · rw [o2, kU]
  · rw [o3, kT]; simp [hcb]

/-- paying the fees of a confirmed transaction to the proposer puts exactly the fee back into the table -/
theorem payFee_sum (t : Tx) (prop : String) (outs : List Out) (off : Nat) (s : St) (hn : UNodup s.U)
    (hfresh : ∀ o, off ≤ o → lookup s.U (t.id, o) = none) :
    UNodup (payFee t prop outs off s).U ∧ sumU (payFee t prop outs off s).U = sumU s.U + feeOf outs := by
  induction outs generalizing off s with
  | nil => simp [payFee, feeOf, hn]
  | cons o r ih =>
    unfold payFee
    by_cases hd : (o.addr == "$") = true
    · simp only [hd, ↓reduceIte]
      obtain ⟨i1, i2⟩ := ih (off + 1) { s with U := put s.U (t.id, off) ⟨prop, o.amt, 0⟩ } (put_nodup _ _ _ hn)
        (fun x hx => by
          simp only
          rw [lookup_put]
          have : ¬ (t.id, off) = (t.id, x) := by intro e; injection e with _ e2; omega
          simp [this, hfresh x (by omega)])
      refine ⟨i1, ?_⟩
      rw [i2]
      simp only
      rw [sumU_put _ _ _ hn]
      unfold amtAt
      rw [hfresh off (Nat.le_refl _)]
      unfold feeOf
      simp only [List.filter_cons, hd, ↓reduceIte, List.map_cons, List.sum_cons]
      omega
    · simp only [hd, Bool.false_eq_true, ↓reduceIte]
      obtain ⟨i1, i2⟩ := ih (off + 1) s hn (fun x hx => hfresh x (by omega))
      refine ⟨i1, ?_⟩
      rw [i2]
      unfold feeOf
      simp only [List.filter_cons, hd, Bool.false_eq_true, ↓reduceIte]

/-- **conservation across admission**: the invariant `Σ U + pending fees = total` is kept by every pool admission -/
theorem doTx_keeps_conservation (e : Env) (s : St) (lh : Int) (i : Nat) (pending : Int)
    (hn : UNodup s.U) (hfresh : ∀ o, lookup s.U ((e.tx i).id, o) = none) (hcb : (e.tx i).coinbase = false)
    (hinv : sumU s.U + pending = s.total) :
    let s' := (doTx e s lh i).1
    let pending' := if (doTx e s lh i).2 = .ok then pending + feeOf (e.tx i).outs else pending
    UNodup s'.U ∧ sumU s'.U + pending' = s'.total := by
  by_cases hok : (doTx e s lh i).2 = .ok
  · obtain ⟨_, hadm, hs'⟩ := XV.C03.doTx_ok e s lh i hok
    obtain ⟨c1, c2, c3⟩ := applyTx_conserves s lh (e.tx i) hadm hn hfresh hcb
    simp only [hok, ↓reduceIte, hs']
    exact ⟨c1, by omega⟩
  · have := XV.C05.doTx_fail_noop e s lh i hok
    simp only [hok, ↓reduceIte, this]
    exact ⟨hn, hinv⟩

-- non-vacuity of the table lemmas on a concrete table
example : sumU (put (del [((0, 0), ⟨"u0", 5, 0⟩), ((0, 1), ⟨"u1", 7, 0⟩)] (0, 0)) (3, 0) ⟨"u2", 5, 0⟩) = 12 := by decide

/-!
## Conservation over whole histories (reachable-state invariants)

What follows carries the single-transaction theorems above to histories. Outline:

* `undoTx_sum`, `undoPayFee_sum` — what undo does to `Σ U` and the total, for a transaction whose effects are present (`Applied`).
* `PoolInv` (one row per key, distinct pool ids, no pending coinbase, pending inputs spent, `Σ U + pending fees = total`)
  is kept by `doTx_PoolInv`, `playForMiner_PoolInv`, `todoBlock_conservation`; `submitAll_PoolInv` for submission histories.
* `balance_is_sum` — balances partition the table.
* `PoolLive` — the strong pool invariant (`XV.Lemmas.InvLive`), needed to *undo* pending transactions; kept by
  `doTx_PoolLive`, `playForMiner_PoolLive`, `play_PoolLive` (eviction + block); `rollback_LiveSum` (step 1 of `walk`).
  Rows of unknown origin are allowed in the table; freshness of ids is an explicit hypothesis (`Fresh`).
* `Ledger` — the reachable-state invariant (`XV.Lemmas.InvLedger`): the table is completely explained by a ghost log of
  confirmed transactions plus the pool. Freshness / causality become *consequences*. Kept by `doTx_Ledger`, `play_Ledger`,
  `playForMiner_Ledger`, `undoBlock_Ledger`, `todoBlock_Ledger`, `walk_Ledger`, starting from `Ledger_genesis`;
  `Ledger.invariants` lists what it gives (conservation, supply = confirmed coinbase outputs, no double spend on chain or
  pending, balances). `play_PoolLive_repaired` / `play_refuses_child_without_parent`: the parents hypothesis is discharged
  by the repaired `processUnconfirmTxs` (a block citing a pending transaction it does not confirm first is refused).
* `play_PoolLive_full`, `play_Ledger_full` — `play` keeps both invariants with NO block-validity hypothesis (`hdeps`, `hord`
  gone): the evicted set may meet the block (a pending overwriter confirmed without the pending pure reader of the version
  it overwrites is rolled back with the reader and applied again); the block order follows from acceptance
  (`play_block_order`, `play_block_order_kin`).
* `LedgerK` — the key-version sibling of `Ledger` over the same ghost log (`XV.Lemmas.PlayKeys`): kept by `doTx_LedgerK`,
  `play_LedgerK`, `playForMiner_LedgerK`, `undoBlock_LedgerK`, `todoBlock_LedgerK`, `walk_LedgerK` (both invariants,
  `LedgerAll`); `no_double_supersede`: no two applied transactions supersede the same version of a key, at every reachable
  state. `hundo` of `walk_Ledger` is discharged in `XV.Props.C01` (`ChainLog`, `walk_Ledger_chain_full`).
-/

-- ================================================================ undo sums (conservation carried to whole histories)

/-- sum of the amounts cited by a list of inputs -/
def insAmt (ins : List InRef) : Int := (ins.map (fun r => (r.amt : Int))).sum

/-- restoring absent, pairwise distinct inputs adds exactly their cited amounts -/
theorem restore_sum (ins : List InRef) (u : List (Ver × UItem)) (hn : UNodup u)
    (habs : ∀ r ∈ ins, lookup u (r.tx, r.off) = none)
    (hnd : (ins.map (fun r => (r.tx, r.off))).Nodup) :
    UNodup (ins.foldl (fun u r => put u (r.tx, r.off) ⟨r.addr, r.amt, r.frozen⟩) u) ∧
    sumU (ins.foldl (fun u r => put u (r.tx, r.off) ⟨r.addr, r.amt, r.frozen⟩) u) = sumU u + insAmt ins := by
  induction ins generalizing u with
  | nil => simp [hn, insAmt]
  | cons r rest ih =>
    simp only [List.map_cons, List.nodup_cons] at hnd
    simp only [List.foldl_cons]
    obtain ⟨i1, i2⟩ := ih (put u (r.tx, r.off) ⟨r.addr, r.amt, r.frozen⟩) (put_nodup _ _ _ hn)
      (fun x hx => by
        rw [lookup_put]
        have : ¬ (r.tx, r.off) = (x.tx, x.off) := fun e => hnd.1 (List.mem_map.mpr ⟨x, hx, e.symm⟩)
        simp [this, habs x (List.mem_cons_of_mem _ hx)]) hnd.2
    refine ⟨i1, ?_⟩
    rw [i2, sumU_put _ _ _ hn]
    unfold amtAt
    rw [habs r List.mem_cons_self]
    simp only [insAmt, List.map_cons, List.sum_cons]
    omega

theorem paidOf_cons_skip (o : Out) (r : List Out) (hz : (o.addr == "$" || o.amt == 0) = true) :
    paidOf (o :: r) = paidOf r := by
  unfold paidOf
  simp only [List.filter_cons]
  by_cases hd : (o.addr == "$") = true
  · simp [hd]
  · have : o.amt = 0 := by simpa [hd] using hz
    simp [hd, this]

theorem paidOf_cons_mat (o : Out) (r : List Out) (hz : ¬ (o.addr == "$" || o.amt == 0) = true) :
    paidOf (o :: r) = o.amt + paidOf r := by
  have hd : (o.addr == "$") = false := by cases h : (o.addr == "$") <;> simp_all
  unfold paidOf
  simp only [List.filter_cons, hd, Bool.not_false, ↓reduceIte, List.map_cons, List.sum_cons]

/-- removing the materialised outputs of a transaction that are rows of the table (with their amounts) removes exactly
`paidOf` from the table and, for a coinbase, from the total -/
theorem undoOuts_sum (t : Tx) (outs : List Out) (off : Nat) (s : St) (hn : UNodup s.U)
    (hrows : ∀ idx o, outs[idx]? = some o → (o.addr == "$" || o.amt == 0) = false →
      ∃ u, lookup s.U (t.id, off + idx) = some u ∧ u.amt = o.amt) :
    UNodup (undoOuts t outs off s).U ∧ sumU (undoOuts t outs off s).U = sumU s.U - paidOf outs ∧
    (undoOuts t outs off s).total = s.total - (if t.coinbase then paidOf outs else 0) := by
  induction outs generalizing off s with
  | nil => simp [undoOuts, paidOf, hn]
  | cons o r ih =>
    unfold undoOuts
    by_cases hz : (o.addr == "$" || o.amt == 0) = true
    · simp only [hz, ↓reduceIte]
      obtain ⟨i1, i2, i3⟩ := ih (off + 1) s hn (fun idx x hx hm => by
        have := hrows (idx + 1) x (by simpa using hx) hm
        have hk : off + (idx + 1) = off + 1 + idx := by omega
        rwa [hk] at this)
      rw [paidOf_cons_skip o r hz]
      exact ⟨i1, i2, i3⟩
    · simp only [hz, Bool.false_eq_true, ↓reduceIte]
      have hzf : (o.addr == "$" || o.amt == 0) = false := by simpa using hz
      obtain ⟨u0, hu0, ha0⟩ := hrows 0 o (by simp) hzf
      simp only [Nat.add_zero] at hu0
      obtain ⟨i1, i2, i3⟩ := ih (off + 1)
        { s with U := del s.U (t.id, off), total := if t.coinbase then s.total - o.amt else s.total }
        (del_nodup _ _ hn) (fun idx x hx hm => by
          have := hrows (idx + 1) x (by simpa using hx) hm
          have hk : off + (idx + 1) = off + 1 + idx := by omega
          rw [hk] at this
          simp only
          rw [lookup_del]
          have hne : ¬ (t.id, off) = (t.id, off + 1 + idx) := by intro e; injection e with _ e2; omega
          simpa [hne] using this)
      rw [paidOf_cons_mat o r hz]
      refine ⟨i1, ?_, ?_⟩
      · rw [i2]
        simp only
        rw [sumU_del _ _ hn]
        unfold amtAt
        rw [hu0]
        simp only [ha0]
        omega
      · rw [i3]
        simp only
        split <;> omega

/-- the effects of `t` are present in the table: every materialised output (not the fee placeholder, not zero) is a
row with its amount, no input is a row, the input keys are pairwise distinct and none of them is a key of `t` itself -/
structure Applied (s : St) (t : Tx) : Prop where
  outsPresent : ∀ idx o, t.outs[idx]? = some o → (o.addr == "$" || o.amt == 0) = false →
    ∃ u, lookup s.U (t.id, idx) = some u ∧ u.amt = o.amt
  insAbsent : ∀ r ∈ t.ins, lookup s.U (r.tx, r.off) = none
  insNodup : (t.ins.map (fun r => (r.tx, r.off))).Nodup
  noSelf : ∀ r ∈ t.ins, r.tx ≠ t.id

/-- **undo moves tokens back, it does not create or destroy them**: undoing a transaction whose effects are present
puts the cited input amounts back and takes the materialised outputs out; the total moves only for a coinbase -/
theorem undoTx_sum (e : Env) (s : St) (t : Tx) (hn : UNodup s.U) (ha : Applied s t) :
    UNodup (undoTx e s t).U ∧
    sumU (undoTx e s t).U = sumU s.U + insAmt t.ins - paidOf t.outs ∧
    (undoTx e s t).total = s.total - (if t.coinbase then paidOf t.outs else 0) := by
  obtain ⟨kU, kT, _, _, _⟩ := undoKOut_frame e t t.kout s
  obtain ⟨r1, r2⟩ := restore_sum t.ins (undoKOut e t t.kout s).U (by rw [kU]; exact hn)
    (fun r hr => by rw [kU]; exact ha.insAbsent r hr) ha.insNodup
  unfold undoTx
  obtain ⟨o1, o2, o3⟩ := undoOuts_sum t t.outs 0
    { undoKOut e t t.kout s with
      U := t.ins.foldl (fun u r => put u (r.tx, r.off) ⟨r.addr, r.amt, r.frozen⟩) (undoKOut e t t.kout s).U }
    r1 (fun idx o ho hm => by
      simp only [Nat.zero_add]
      have hk : (t.id, idx) ∉ t.ins.map (fun r => (r.tx, r.off)) := by
        intro hmem
        obtain ⟨r, hr, he⟩ := List.mem_map.mp hmem
        injection he with e1 _
        exact ha.noSelf r hr e1
      rw [restoreU_lookup_other _ _ _ hk, kU]
      exact ha.outsPresent idx o ho hm)
  refine ⟨o1, ?_, ?_⟩
  · rw [o2]; simp only; rw [r2, kU]
  · rw [o3]; simp only; rw [kT]

theorem feeOf_cons_fee (o : Out) (r : List Out) (hd : (o.addr == "$") = true) :
    feeOf (o :: r) = o.amt + feeOf r := by
  unfold feeOf
  simp only [List.filter_cons, hd, ↓reduceIte, List.map_cons, List.sum_cons]

theorem feeOf_cons_other (o : Out) (r : List Out) (hd : ¬ (o.addr == "$") = true) :
    feeOf (o :: r) = feeOf r := by
  unfold feeOf
  simp only [List.filter_cons, hd, Bool.false_eq_true, ↓reduceIte]

/-- taking back the fee rows of a confirmed transaction (rows of the table with their amounts) removes exactly the fee -/
theorem undoPayFee_sum (t : Tx) (outs : List Out) (off : Nat) (s : St) (hn : UNodup s.U)
    (hrows : ∀ idx o, outs[idx]? = some o → (o.addr == "$") = true →
      ∃ u, lookup s.U (t.id, off + idx) = some u ∧ u.amt = o.amt) :
    UNodup (undoPayFee t outs off s).U ∧ sumU (undoPayFee t outs off s).U = sumU s.U - feeOf outs := by
  induction outs generalizing off s with
  | nil => simp [undoPayFee, feeOf, hn]
  | cons o r ih =>
    unfold undoPayFee
    by_cases hd : (o.addr == "$") = true
    · simp only [hd, ↓reduceIte]
      obtain ⟨u0, hu0, ha0⟩ := hrows 0 o (by simp) hd
      simp only [Nat.add_zero] at hu0
      obtain ⟨i1, i2⟩ := ih (off + 1) { s with U := del s.U (t.id, off) } (del_nodup _ _ hn)
        (fun idx x hx hm => by
          have := hrows (idx + 1) x (by simpa using hx) hm
          have hk : off + (idx + 1) = off + 1 + idx := by omega
          rw [hk] at this
          simp only
          rw [lookup_del]
          have hne : ¬ (t.id, off) = (t.id, off + 1 + idx) := by intro e; injection e with _ e2; omega
          simpa [hne] using this)
      rw [feeOf_cons_fee o r hd]
      refine ⟨i1, ?_⟩
      rw [i2]
      simp only
      rw [sumU_del _ _ hn]
      unfold amtAt
      rw [hu0]
      simp only [ha0]
      omega
    · simp only [hd, Bool.false_eq_true, ↓reduceIte]
      obtain ⟨i1, i2⟩ := ih (off + 1) s hn (fun idx x hx hm => by
        have := hrows (idx + 1) x (by simpa using hx) hm
        have hk : off + (idx + 1) = off + 1 + idx := by omega
        rwa [hk] at this)
      rw [feeOf_cons_other o r hd]
      exact ⟨i1, i2⟩

/-- the effects of an admitted, applied transaction are present (ids are hashes: fresh id, no self-citation) -/
theorem applied_of_applyTx (s : St) (lh : Int) (t : Tx) (hadm : admitTx s lh t = .ok)
    (hself : ∀ r ∈ t.ins, r.tx ≠ t.id) : Applied (applyTx s t) t := by
  obtain ⟨_, hnd, _, _⟩ := XV.C03.admit_sound s lh t hadm
  refine ⟨?_, XV.C03.consume s t hself, hnd, hself⟩
  intro idx o ho hm
  rw [applyTx_lookup_idx s t idx hself, ho]
  simp only [hm, Bool.false_eq_true, ↓reduceIte]
  exact ⟨_, rfl, rfl⟩

-- non-vacuity of `undoTx_sum` / `undoPayFee_sum`: a transfer 5 -> 3 + fee 2 whose effects are present; undo gives 5 back
example :
    let t : Tx := ⟨1, false, [⟨0, 0, "u0", 5, 0, false⟩], [⟨"u1", 3, 0⟩, ⟨"u2", 0, 0⟩, ⟨"$", 2, 0⟩], [], []⟩
    let s : St := { U := [((1, 0), ⟨"u1", 3, 0⟩), ((7, 7), ⟨"x", 10, 0⟩)], total := 15 }
    (t.outs[0]? = some ⟨"u1", 3, 0⟩ ∧ lookup s.U (1, 0) = some ⟨"u1", 3, 0⟩ ∧ lookup s.U (0, 0) = none) ∧
    sumU (undoTx {} s t).U = sumU s.U + insAmt t.ins - paidOf t.outs ∧ sumU (undoTx {} s t).U = 15 := by decide

example :
    let t : Tx := ⟨1, false, [⟨0, 0, "u0", 5, 0, false⟩], [⟨"u1", 3, 0⟩, ⟨"$", 2, 0⟩], [], []⟩
    let s : St := { U := [((1, 1), ⟨"miner", 2, 0⟩), ((1, 0), ⟨"u1", 3, 0⟩)] }
    sumU (undoPayFee t t.outs 0 s).U = sumU s.U - feeOf t.outs ∧ sumU (undoPayFee t t.outs 0 s).U = 3 := by decide

-- non-vacuity of `Applied`: the state after an admitted transfer satisfies it for that transfer
example :
    let t : Tx := ⟨1, false, [⟨0, 0, "u0", 5, 0, false⟩], [⟨"u1", 3, 0⟩, ⟨"u2", 0, 0⟩, ⟨"$", 2, 0⟩], [], []⟩
    let s : St := { U := [((0, 0), ⟨"u0", 5, 0⟩)] }
    UNodup (applyTx s t).U ∧ Applied (applyTx s t) t :=
  ⟨by unfold UNodup; decide, applied_of_applyTx _ 0 _ (by decide) (by decide)⟩

-- ================================================================ the pool invariant

/-- fees of the pending transactions: not in the table until the transaction is confirmed in a block -/
def poolFees (e : Env) (pool : List Nat) : Int := (pool.map (fun i => feeOf (e.tx i).outs)).sum

theorem poolFees_append (e : Env) (a b : List Nat) : poolFees e (a ++ b) = poolFees e a + poolFees e b := by
  unfold poolFees; simp [List.sum_append]

/-- **the pool invariant**: one row per key; pool ids pairwise distinct; no pending coinbase; every token input of a
pending transaction is spent (absent from the table); and conservation `Σ U + pending fees = total` -/
structure PoolInv (e : Env) (s : St) : Prop where
  nodupU : UNodup s.U
  nodupPool : s.pool.Nodup
  nonCoinbase : ∀ i ∈ s.pool, (e.tx i).coinbase = false
  insSpent : ∀ i ∈ s.pool, ∀ r ∈ (e.tx i).ins, lookup s.U (r.tx, r.off) = none
  conservation : sumU s.U + poolFees e s.pool = s.total

/-- **`doTx` keeps the pool invariant**, admitted or refused. Hash-causality hypotheses on the submitted transaction
(ids are hashes of the content): its id is fresh — no row of the table carries it and no pending transaction cites it —
and its inputs do not cite the transaction itself. (`doTx` does not look at the coinbase flag; the node never accepts a
coinbase through `DoTx`, which is the hypothesis `hcb`.) -/
theorem doTx_PoolInv (e : Env) (s : St) (lh : Int) (i : Nat) (hinv : PoolInv e s)
    (hfresh : ∀ o, lookup s.U ((e.tx i).id, o) = none)
    (hcited : ∀ j ∈ s.pool, ∀ r ∈ (e.tx j).ins, r.tx ≠ (e.tx i).id)
    (hself : ∀ r ∈ (e.tx i).ins, r.tx ≠ (e.tx i).id)
    (hcb : (e.tx i).coinbase = false) :
    PoolInv e (doTx e s lh i).1 := by
  by_cases hok : (doTx e s lh i).2 = .ok
  · obtain ⟨hnp, hadm, hs'⟩ := XV.C03.doTx_ok e s lh i hok
    obtain ⟨c1, c2, c3⟩ := applyTx_conserves s lh (e.tx i) hadm hinv.nodupU hfresh hcb
    rw [hs']
    refine ⟨c1, ?_, ?_, ?_, ?_⟩
    · simp only [List.nodup_append, List.nodup_cons, List.not_mem_nil, not_false_eq_true, List.nodup_nil,
        and_self, List.mem_cons, or_false, true_and]
      exact ⟨hinv.nodupPool, fun a ha b hb => by subst hb; intro e2; exact hnp (e2 ▸ ha)⟩
    · intro j hj
      rcases List.mem_append.mp hj with hj | hj
      · exact hinv.nonCoinbase j hj
      · simp only [List.mem_cons, List.not_mem_nil, or_false] at hj; subst hj; exact hcb
    · intro j hj r hr
      simp only
      rcases List.mem_append.mp hj with hj | hj
      · exact XV.C03.spent_stays_spent s (e.tx i) (r.tx, r.off) (hcited j hj r hr) (hinv.insSpent j hj r hr)
      · simp only [List.mem_cons, List.not_mem_nil, or_false] at hj; subst hj
        exact XV.C03.consume s (e.tx j) hself r hr
    · simp only
      rw [poolFees_append, c3]
      have := hinv.conservation
      simp only [poolFees, List.map_cons, List.map_nil, List.sum_cons, List.sum_nil] at this ⊢
      omega
  · rw [XV.C05.doTx_fail_noop e s lh i hok]; exact hinv

-- non-vacuity: a concrete state satisfying `PoolInv` and the hypotheses of `doTx_PoolInv`, the transaction is admitted
example :
    let e : Env := { txs := [(1, ⟨1, false, [⟨0, 0, "u0", 5, 0, false⟩], [⟨"u1", 3, 0⟩, ⟨"$", 2, 0⟩], [], []⟩)] }
    let s : St := { U := [((0, 0), ⟨"u0", 5, 0⟩)], total := 5 }
    PoolInv e s ∧ (doTx e s 0 1).2 = .ok ∧ PoolInv e (doTx e s 0 1).1 ∧ (doTx e s 0 1).1.pool = [1] := by
  intro e s
  have h0 : PoolInv e s := ⟨by unfold UNodup; decide, by decide, by decide, by decide, by decide⟩
  exact ⟨h0, by decide, doTx_PoolInv e s 0 1 h0 (lookup_none_of_noid _ _ (by decide)) (by decide) (by decide) (by decide), by decide⟩

-- ================================================================ conservation through the transactions of a block

/-- paying the fee when only the fee slots are known to be free (the other outputs of the transaction are rows already) -/
theorem payFee_sum_slots (t : Tx) (prop : String) (outs : List Out) (off : Nat) (s : St) (hn : UNodup s.U)
    (hfree : ∀ idx o, outs[idx]? = some o → (o.addr == "$") = true → lookup s.U (t.id, off + idx) = none) :
    UNodup (payFee t prop outs off s).U ∧ sumU (payFee t prop outs off s).U = sumU s.U + feeOf outs := by
  induction outs generalizing off s with
  | nil => simp [payFee, feeOf, hn]
  | cons o r ih =>
    unfold payFee
    by_cases hd : (o.addr == "$") = true
    · simp only [hd, ↓reduceIte]
      have h0 := hfree 0 o (by simp) hd
      simp only [Nat.add_zero] at h0
      obtain ⟨i1, i2⟩ := ih (off + 1) { s with U := put s.U (t.id, off) ⟨prop, o.amt, 0⟩ } (put_nodup _ _ _ hn)
        (fun idx x hx hm => by
          have := hfree (idx + 1) x (by simpa using hx) hm
          have hk : off + (idx + 1) = off + 1 + idx := by omega
          rw [hk] at this
          simp only
          rw [lookup_put]
          have hne : ¬ (t.id, off) = (t.id, off + 1 + idx) := by intro e; injection e with _ e2; omega
          simpa [hne] using this)
      rw [feeOf_cons_fee o r hd]
      refine ⟨i1, ?_⟩
      rw [i2]
      simp only
      rw [sumU_put _ _ _ hn]
      simp only [amtAt, h0]
      omega
    · simp only [hd, Bool.false_eq_true, ↓reduceIte]
      obtain ⟨i1, i2⟩ := ih (off + 1) s hn (fun idx x hx hm => by
        have := hfree (idx + 1) x (by simpa using hx) hm
        have hk : off + (idx + 1) = off + 1 + idx := by omega
        rwa [hk] at this)
      rw [feeOf_cons_other o r hd]
      exact ⟨i1, i2⟩

/-- confirming a pending transaction: its fee materialises for the proposer -/
theorem confirmPool_sum (t : Tx) (prop : String) (s : St) (hn : UNodup s.U)
    (hfree : ∀ idx, feeSlot t idx = true → lookup s.U (t.id, idx) = none) :
    UNodup (payFee t prop t.outs 0 s).U ∧
    sumU (payFee t prop t.outs 0 s).U = sumU s.U + feeOf t.outs ∧ (payFee t prop t.outs 0 s).total = s.total := by
  obtain ⟨p1, p2⟩ := payFee_sum_slots t prop t.outs 0 s hn (fun idx o ho hd => by
    simp only [Nat.zero_add]; exact hfree idx (feeSlot_of_get t idx o ho hd))
  exact ⟨p1, p2, (payFee_frame t prop t.outs 0 s).2.2.1⟩

/-- confirming a transaction that was not pending (admission, application, fee payment): the difference `Σ U − total` is unchanged.
A coinbase (award) has no inputs and no fee. -/
theorem confirmNew_sum (s : St) (lh : Int) (t : Tx) (prop : String) (hadm : admitTx s lh t = .ok) (hn : UNodup s.U)
    (hfresh : ∀ o, lookup s.U (t.id, o) = none) (hself : ∀ r ∈ t.ins, r.tx ≠ t.id)
    (hcb : t.coinbase = true → t.ins = [] ∧ feeOf t.outs = 0) :
    UNodup (payFee t prop t.outs 0 (applyTx s t)).U ∧
    sumU (payFee t prop t.outs 0 (applyTx s t)).U - (payFee t prop t.outs 0 (applyTx s t)).total
      = sumU s.U - s.total := by
  have hfree : ∀ idx, feeSlot t idx = true → lookup (applyTx s t).U (t.id, idx) = none :=
    fun idx hf => applyTx_feeSlot_free s t idx hself hf (hfresh idx)
  by_cases hc : t.coinbase = true
  · obtain ⟨hins, hfee⟩ := hcb hc
    obtain ⟨a1, a2, a3⟩ := applyTx_coinbase s t hn hfresh hc hins
    obtain ⟨p1, p2, p3⟩ := confirmPool_sum t prop (applyTx s t) a1 hfree
    refine ⟨p1, ?_⟩
    rw [p2, p3, a2, a3, hfee]; omega
  · have hc' : t.coinbase = false := by simpa using hc
    obtain ⟨a1, a2, a3⟩ := applyTx_conserves s lh t hadm hn hfresh hc'
    obtain ⟨p1, p2, p3⟩ := confirmPool_sum t prop (applyTx s t) a1 hfree
    refine ⟨p1, ?_⟩
    rw [p2, p3, a3]; omega

/-- **conservation through the transactions of a block**: confirmed pending transactions move their fee from "pending" to
the table; new transactions (distinct fresh ids, no self-citation, coinbase without inputs and fee) leave `Σ U − total` alone -/
theorem blockRun_sum (e : Env) (lh : Int) (prop : String) (isPool : Nat → Bool) (txs : List Nat) (s s2 : St)
    (h : blockRun e lh prop isPool txs s s2) (hnd : txs.Nodup) (hid : ∀ i ∈ txs, (e.tx i).id = i)
    (hn : UNodup s.U)
    (hnew : ∀ i ∈ txs, isPool i = false → (∀ o, lookup s.U (i, o) = none) ∧ (∀ r ∈ (e.tx i).ins, r.tx ≠ i) ∧
      ((e.tx i).coinbase = true → (e.tx i).ins = [] ∧ feeOf (e.tx i).outs = 0))
    (hpool : ∀ i ∈ txs, isPool i = true → ∀ idx, feeSlot (e.tx i) idx = true → lookup s.U (i, idx) = none) :
    UNodup s2.U ∧ sumU s2.U - s2.total = sumU s.U - s.total + poolFees e (txs.filter isPool) := by
  induction txs generalizing s with
  | nil => simp only [blockRun] at h; subst h; simp [poolFees, hn]
  | cons i rest ih =>
    simp only [List.nodup_cons] at hnd
    have hidi := hid i List.mem_cons_self
    have hid' : ∀ j ∈ rest, (e.tx j).id = j := fun j hj => hid j (List.mem_cons_of_mem _ hj)
    have hne : ∀ j ∈ rest, ∀ x : Nat, ((j, x) : Ver).1 ≠ (e.tx i).id := by
      intro j hj x; rw [hidi]; simp only; intro e2; exact hnd.1 (e2 ▸ hj)
    unfold blockRun at h
    by_cases hp : isPool i = true
    · simp only [hp, ↓reduceIte] at h
      obtain ⟨p1, p2, p3⟩ := confirmPool_sum (e.tx i) prop s hn (fun idx hf => by
        rw [hidi]; exact hpool i List.mem_cons_self hp idx hf)
      obtain ⟨r1, r2⟩ := ih _ h hnd.2 hid' p1
        (fun j hj hjp => by
          obtain ⟨n1, n2, n3⟩ := hnew j (List.mem_cons_of_mem _ hj) hjp
          exact ⟨fun o => confirmPool_lookup_none _ _ _ _ (hne j hj o) (n1 o), n2, n3⟩)
        (fun j hj hjp idx hf => confirmPool_lookup_none _ _ _ _ (hne j hj idx)
          (hpool j (List.mem_cons_of_mem _ hj) hjp idx hf))
      refine ⟨r1, ?_⟩
      rw [r2, p2, p3]
      simp only [List.filter_cons, hp, ↓reduceIte, poolFees, List.map_cons, List.sum_cons]
      omega
    · have hp' : isPool i = false := by simpa using hp
      simp only [hp, Bool.false_eq_true, ↓reduceIte] at h
      obtain ⟨n1, n2, n3⟩ := hnew i List.mem_cons_self hp'
      obtain ⟨c1, c2⟩ := confirmNew_sum s lh (e.tx i) prop h.1 hn (by rw [hidi]; exact n1)
        (by rw [hidi]; exact n2) n3
      obtain ⟨r1, r2⟩ := ih _ h.2 hnd.2 hid' c1
        (fun j hj hjp => by
          obtain ⟨m1, m2, m3⟩ := hnew j (List.mem_cons_of_mem _ hj) hjp
          exact ⟨fun o => confirmNew_lookup_none _ _ _ _ (hne j hj o) (m1 o), m2, m3⟩)
        (fun j hj hjp idx hf => confirmNew_lookup_none _ _ _ _ (hne j hj idx)
          (hpool j (List.mem_cons_of_mem _ hj) hjp idx hf))
      refine ⟨r1, ?_⟩
      rw [r2, c2]
      simp only [List.filter_cons, hp, Bool.false_eq_true, ↓reduceIte]

theorem poolFees_split (e : Env) (pool : List Nat) (p : Nat → Bool) :
    poolFees e pool = poolFees e (pool.filter p) + poolFees e (pool.filter (fun i => !p i)) :=
  XV.InvList.sum_filter_split _ pool p

theorem poolFees_same_mem (e : Env) (l1 l2 : List Nat) (h1 : l1.Nodup) (h2 : l2.Nodup) (hm : ∀ x, x ∈ l1 ↔ x ∈ l2) :
    poolFees e l1 = poolFees e l2 :=
  XV.InvList.sum_eq_of_same_mem _ l1 l2 h1 h2 hm

/-- **`playForMiner` keeps the pool invariant.** The block is the award (a coinbase without inputs and without fee, fresh
id not cited by a pending transaction) plus a subset of the pool, ids pairwise distinct; the fees of the confirmed
transactions move from "pending" to the proposer's rows. The last two hypotheses say that fee placeholders of pending
transactions are not rows and are not cited (they follow from the stronger invariant `PoolLive`, see `PoolLive` below). -/
theorem playForMiner_PoolInv (e : Env) (s : St) (lh : Int) (b : Block) (hinv : PoolInv e s)
    (hnd : b.txs.Nodup) (hid : ∀ i ∈ b.txs, (e.tx i).id = i)
    (hsub : ∀ i ∈ b.txs, (e.tx i).coinbase = false → i ∈ s.pool)
    (haward : ∀ i ∈ b.txs, (e.tx i).coinbase = true →
      (e.tx i).ins = [] ∧ feeOf (e.tx i).outs = 0 ∧ (∀ o, lookup s.U (i, o) = none) ∧
      (∀ j ∈ s.pool, ∀ r ∈ (e.tx j).ins, r.tx ≠ i))
    (hfeefree : ∀ i ∈ b.txs, i ∈ s.pool → ∀ idx, feeSlot (e.tx i) idx = true → lookup s.U (i, idx) = none)
    (hfeecite : ∀ j ∈ s.pool, ∀ r ∈ (e.tx j).ins, r.tx ∈ b.txs → feeSlot (e.tx r.tx) r.off = false) :
    PoolInv e (playForMiner e s lh b).1 := by
  unfold playForMiner
  by_cases h1 : b.pre ≠ some s.pointer
  · rw [if_pos h1]; exact hinv
  · rw [if_neg h1]
    cases hgo : playForMiner.go e lh b b.txs s with
    | none => exact hinv
    | some s2 =>
      simp only
      have hrun := playForMiner_go_run e lh b b.txs s s2 hgo
      obtain ⟨fpool, _, _⟩ := blockRun_frame _ _ _ _ _ _ _ hrun
      obtain ⟨r1, r2⟩ := blockRun_sum e lh b.prop _ b.txs s s2 hrun hnd hid hinv.nodupU
        (fun i hi hp => by
          have hc : (e.tx i).coinbase = true := by simpa using hp
          obtain ⟨a1, a2, a3, _⟩ := haward i hi hc
          exact ⟨a3, by rw [a1]; simp, fun _ => ⟨a1, a2⟩⟩)
        (fun i hi hp idx hf => by
          have hc : (e.tx i).coinbase = false := by simpa using hp
          exact hfeefree i hi (hsub i hi hc) idx hf)
      refine ⟨r1, List.Nodup.sublist List.filter_sublist hinv.nodupPool, ?_, ?_, ?_⟩
      · intro j hj; exact hinv.nonCoinbase j (List.mem_filter.mp hj).1
      · intro j hj r hr
        have hjp := (List.mem_filter.mp hj).1
        simp only
        apply blockRun_lookup_none _ _ _ _ _ _ _ hrun hid (r.tx, r.off) _ (hinv.insSpent j hjp r hr)
        intro hm
        simp only at hm ⊢
        have hc : (e.tx r.tx).coinbase = false := by
          cases hcc : (e.tx r.tx).coinbase
          · rfl
          · exact absurd rfl ((haward r.tx hm hcc).2.2.2 j hjp r hr)
        exact ⟨by simp [hc], hfeecite j hjp r hr hm⟩
      · simp only
        have hcons := hinv.conservation
        have hsplit := poolFees_split e s.pool (fun i => b.txs.contains i)
        have hsame : poolFees e (b.txs.filter (fun i => !(e.tx i).coinbase)) =
            poolFees e (s.pool.filter (fun i => b.txs.contains i)) := by
          apply poolFees_same_mem
          · exact List.Nodup.sublist List.filter_sublist hnd
          · exact List.Nodup.sublist List.filter_sublist hinv.nodupPool
          · intro x
            simp only [List.mem_filter, Bool.not_eq_eq_eq_not, Bool.not_true, List.contains_eq_mem,
              decide_eq_true_eq]
            constructor
            · intro ⟨hx, hc⟩; exact ⟨hsub x hx hc, hx⟩
            · intro ⟨hx, hb⟩; exact ⟨hb, hinv.nonCoinbase x hx⟩
        rw [hsame] at r2
        omega

-- non-vacuity: pool = [1] (fee 2 pending); the miner's block [9 (award 7), 1]: fee paid, award added, invariant kept
example :
    let e : Env := { txs := [(1, ⟨1, false, [⟨0, 0, "u0", 5, 0, false⟩], [⟨"u1", 3, 0⟩, ⟨"$", 2, 0⟩], [], []⟩),
                             (9, ⟨9, true, [], [⟨"miner", 7, 0⟩], [], []⟩)] }
    let s : St := { U := [((1, 0), ⟨"u1", 3, 0⟩)], total := 5, pool := [1], pointer := 0 }
    let b : Block := ⟨20, some 0, 1, [9, 1], "miner"⟩
    PoolInv e s ∧ (playForMiner e s 0 b).2 = .ok ∧ PoolInv e (playForMiner e s 0 b).1 ∧
      (playForMiner e s 0 b).1.pool = [] ∧ sumU (playForMiner e s 0 b).1.U = 12 ∧ (playForMiner e s 0 b).1.total = 12 := by
  intro e s b
  have h0 : PoolInv e s := ⟨by unfold UNodup; decide, by decide, by decide, by decide, by decide⟩
  refine ⟨h0, by decide, ?_, by decide, by decide, by decide⟩
  have hff : ∀ i ∈ b.txs, i ∈ s.pool → ∀ p ∈ s.U, p.1.1 = i → feeSlot (e.tx i) p.1.2 = false := by decide
  apply playForMiner_PoolInv e s 0 b h0 (by decide) (by decide) (by decide) _
    (fun i hi hp => feeFree_of_rows _ _ _ (hff i hi hp)) (by decide)
  intro i hi hc
  have hi9 : i = 9 := by
    simp only [b, List.mem_cons, List.not_mem_nil, or_false] at hi
    rcases hi with rfl | rfl
    · rfl
    · exact absurd hc (by decide)
  subst hi9
  exact ⟨by decide, by decide, lookup_none_of_noid _ _ (by decide), by decide⟩

/-- **`todoBlock` on an empty pool keeps conservation** (`Σ U = total`): the block's transactions have pairwise distinct
fresh ids and do not cite themselves; the award has no inputs and no fee -/
theorem todoBlock_conservation (e : Env) (s s' : St) (lh : Int) (b : Block) (h : todoBlock e s lh b = some s')
    (hinv : PoolInv e s) (hempty : s.pool = [])
    (hnd : b.txs.Nodup) (hid : ∀ i ∈ b.txs, (e.tx i).id = i)
    (hfresh : ∀ i ∈ b.txs, ∀ o, lookup s.U (i, o) = none)
    (hself : ∀ i ∈ b.txs, ∀ r ∈ (e.tx i).ins, r.tx ≠ i)
    (haward : ∀ i ∈ b.txs, (e.tx i).coinbase = true → (e.tx i).ins = [] ∧ feeOf (e.tx i).outs = 0) :
    PoolInv e s' ∧ s'.pool = [] ∧ sumU s'.U = s'.total := by
  unfold todoBlock at h
  split at h
  · cases h
  · split at h
    · rename_i s2 happ
      simp only [Option.some.injEq] at h
      subst h
      have hrun := applyBlockTxs_run e lh b.prop [] b.txs s s2 happ
      obtain ⟨fpool, _, _⟩ := blockRun_frame _ _ _ _ _ _ _ hrun
      obtain ⟨r1, r2⟩ := blockRun_sum e lh b.prop _ b.txs s s2 hrun hnd hid hinv.nodupU
        (fun i hi _ => ⟨hfresh i hi, hself i hi, haward i hi⟩)
        (fun i _ hp => by simp at hp)
      have hcons := hinv.conservation
      rw [hempty] at hcons
      have hf : b.txs.filter (fun i => ([] : List Nat).contains i) = [] := by
        apply List.filter_eq_nil_iff.mpr; intro a _; simp
      rw [hf] at r2
      simp only [poolFees, List.map_nil, List.sum_nil] at hcons r2
      have hp2 : s2.pool = [] := by rw [fpool, hempty]
      have hsum : sumU s2.U = s2.total := by omega
      refine ⟨⟨r1, ?_, ?_, ?_, ?_⟩, hp2, hsum⟩
      · simp only [hp2]; exact List.nodup_nil
      · simp only [hp2]; intro i hi; cases hi
      · simp only [hp2]; intro i hi; cases hi
      · simp only [hp2, poolFees, List.map_nil, List.sum_nil]; omega
    · cases h

-- non-vacuity: a walk step applying the block [9 (award 7), 1 (5 -> 3 + fee 2)] on an empty pool
example :
    let e : Env := { txs := [(1, ⟨1, false, [⟨0, 0, "u0", 5, 0, false⟩], [⟨"u1", 3, 0⟩, ⟨"$", 2, 0⟩], [], []⟩),
                             (9, ⟨9, true, [], [⟨"miner", 7, 0⟩], [], []⟩)] }
    let s : St := { U := [((0, 0), ⟨"u0", 5, 0⟩)], total := 5 }
    let b : Block := ⟨20, some 0, 1, [9, 1], "miner"⟩
    PoolInv e s ∧ ∃ s', todoBlock e s 0 b = some s' ∧ sumU s'.U = 12 ∧ s'.total = 12 := by
  intro e s b
  refine ⟨⟨by unfold UNodup; decide, by decide, by decide, by decide, by decide⟩, ?_⟩
  cases h : todoBlock e s 0 b with
  | none => exact absurd h (by decide)
  | some s' =>
    refine ⟨s', rfl, ?_⟩
    have hs : some s' = todoBlock e s 0 b := h.symm
    have : (todoBlock e s 0 b).map (fun x => (sumU x.U, x.total)) = some (12, 12) := by decide
    rw [← hs] at this
    simp only [Option.map_some, Option.some.injEq, Prod.mk.injEq] at this
    exact this

-- ================================================================ balances partition the table

/-- balance of an address over a table: the sum of the rows it owns -/
def balanceU (u : List (Ver × UItem)) (a : String) : Int :=
  ((u.filter (fun p => p.2.addr == a)).map (fun p => (p.2.amt : Int))).sum

/-- `State.GetBalance` (frozen rows included): the sum of the unspent outputs owned by `a` -/
def balance (s : St) (a : String) : Int := balanceU s.U a

theorem balanceU_cons (p : Ver × UItem) (r : List (Ver × UItem)) (a : String) :
    balanceU (p :: r) a = (if p.2.addr = a then (p.2.amt : Int) else 0) + balanceU r a := by
  unfold balanceU
  simp only [List.filter_cons]
  by_cases h : p.2.addr = a
  · simp [h]
  · simp [h]

theorem sum_indicator (addrs : List String) (x : String) (c : Int) (hnd : addrs.Nodup) (hx : x ∈ addrs) :
    (addrs.map (fun a => if x = a then c else 0)).sum = c := by
  induction addrs with
  | nil => cases hx
  | cons a r ih =>
    simp only [List.nodup_cons] at hnd
    simp only [List.map_cons, List.sum_cons]
    by_cases hxa : x = a
    · subst hxa
      have hz : (r.map (fun a => if x = a then c else 0)).sum = 0 := by
        have : r.map (fun a => if x = a then c else 0) = r.map (fun _ => (0 : Int)) := by
          apply List.map_congr_left
          intro y hy
          have : ¬ x = y := fun e => hnd.1 (e ▸ hy)
          simp [this]
        rw [this]
        clear this ih hx hnd
        induction r with
        | nil => rfl
        | cons _ _ ih2 => simp only [List.map_cons, List.sum_cons, ih2]; omega
      simp only [↓reduceIte, hz]; omega
    · have hxr : x ∈ r := by
        rcases List.mem_cons.mp hx with h | h
        · exact absurd h hxa
        · exact h
      simp only [hxa, ↓reduceIte, ih hnd.2 hxr]; omega

theorem sum_map_add (l : List String) (f g : String → Int) :
    (l.map (fun a => f a + g a)).sum = (l.map f).sum + (l.map g).sum := by
  induction l with
  | nil => rfl
  | cons a r ih => simp only [List.map_cons, List.sum_cons, ih]; omega

theorem balanceU_is_sum (u : List (Ver × UItem)) (addrs : List String) (hnd : addrs.Nodup)
    (hall : ∀ p ∈ u, p.2.addr ∈ addrs) : (addrs.map (balanceU u)).sum = sumU u := by
  induction u with
  | nil =>
    have : addrs.map (balanceU []) = addrs.map (fun _ => (0 : Int)) := by
      apply List.map_congr_left; intro a _; rfl
    rw [this]
    simp only [sumU, List.map_nil, List.sum_nil]
    clear this hnd hall
    induction addrs with
    | nil => rfl
    | cons _ _ ih2 => simp only [List.map_cons, List.sum_cons, ih2]; omega
  | cons p r ih =>
    have hfun : addrs.map (balanceU (p :: r)) =
        addrs.map (fun a => (if p.2.addr = a then (p.2.amt : Int) else 0) + balanceU r a) := by
      apply List.map_congr_left; intro a _; exact balanceU_cons p r a
    rw [hfun, sum_map_add, sum_indicator addrs p.2.addr _ hnd (hall p List.mem_cons_self),
      ih (fun q hq => hall q (List.mem_cons_of_mem _ hq))]
    simp only [sumU, List.map_cons, List.sum_cons]

/-- **every token is in one place**: the balances of the owners partition the table — when `addrs` lists every owner
exactly once, the balances add up to the sum of all rows -/
theorem balance_is_sum (s : St) (addrs : List String) (hnd : addrs.Nodup) (hall : ∀ p ∈ s.U, p.2.addr ∈ addrs) :
    (addrs.map (balance s)).sum = sumU s.U :=
  balanceU_is_sum s.U addrs hnd hall

/-- with the pool invariant: balances + pending fees = total supply -/
theorem balance_total (e : Env) (s : St) (addrs : List String) (hinv : PoolInv e s) (hnd : addrs.Nodup)
    (hall : ∀ p ∈ s.U, p.2.addr ∈ addrs) : (addrs.map (balance s)).sum + poolFees e s.pool = s.total := by
  rw [balance_is_sum s addrs hnd hall]; exact hinv.conservation

-- non-vacuity: three rows, two owners
example :
    let s : St := { U := [((0, 0), ⟨"a", 5, 0⟩), ((0, 1), ⟨"b", 7, 0⟩), ((3, 0), ⟨"a", 1, 9⟩)] }
    (["a", "b"] : List String).Nodup ∧ (∀ p ∈ s.U, p.2.addr ∈ ["a", "b"]) ∧
    balance s "a" = 6 ∧ balance s "b" = 7 ∧ (["a", "b"].map (balance s)).sum = sumU s.U := by decide

-- ================================================================ the live invariant with sums (for eviction and roll-back)

/-- the live invariant of `XV.Lemmas.InvLive` for a list `L` of applied-but-unconfirmed transactions, with one row per
key and conservation `Σ U + fees of L = total` -/
structure LiveSum (e : Env) (s : St) (L : List Nat) : Prop where
  nodupU : UNodup s.U
  live : Live e s.U L
  conservation : sumU s.U + poolFees e L = s.total

/-- **the strong pool invariant**: `PoolInv` plus what is needed to undo pending transactions — every materialised
output of a pending transaction is a row or was spent by a pending transaction, fee slots are not rows, inputs citing
a pending transaction cite a materialised output with its amount, cited amounts are balanced, admission order -/
def PoolLive (e : Env) (s : St) : Prop := LiveSum e s s.pool

theorem PoolLive.toPoolInv {e : Env} {s : St} (h : PoolLive e s) : PoolInv e s :=
  ⟨h.nodupU, h.live.nodupL, h.live.nonCoinbase, h.live.insSpent, h.conservation⟩

/-- hash-causality of a submitted transaction: `e.tx i` has id `i`, no row of the table carries that id, no pending
transaction cites it, it does not cite itself; and it is not a coinbase -/
structure Fresh (e : Env) (s : St) (i : Nat) : Prop where
  idEq : (e.tx i).id = i
  noRow : ∀ o, lookup s.U (i, o) = none
  notCited : ∀ j ∈ s.pool, ∀ r ∈ (e.tx j).ins, r.tx ≠ i
  noSelf : ∀ r ∈ (e.tx i).ins, r.tx ≠ i
  nonCoinbase : (e.tx i).coinbase = false

theorem admitted_insAmt (s : St) (lh : Int) (t : Tx) (hadm : admitTx s lh t = .ok) (hcb : t.coinbase = false) :
    insAmt t.ins = (outSum t.outs : Int) := by
  obtain ⟨n, hci, hbal⟩ := XV.C03.admitted_balanced s lh t hadm hcb
  obtain ⟨hcur, _, _, _⟩ := XV.C03.admit_sound s lh t hadm
  have hsum := checkInputs_sum s lh t.ins [] 0 n hci
  have : t.ins.map (fun r => amtAt s.U (r.tx, r.off)) = t.ins.map (fun r => (r.amt : Int)) := by
    apply List.map_congr_left
    intro r hr
    obtain ⟨u, hu, _, hamt, _⟩ := hcur r hr
    simp only [amtAt, hu, hamt]
  rw [this] at hsum
  unfold insAmt
  rw [← hbal]; omega

/-- **`doTx` keeps the strong pool invariant** (for an admitted transaction under the causality hypotheses `Fresh`) -/
theorem doTx_PoolLive (e : Env) (s : St) (lh : Int) (i : Nat) (hinv : PoolLive e s)
    (hf : (doTx e s lh i).2 = .ok → Fresh e s i) : PoolLive e (doTx e s lh i).1 := by
  by_cases hok : (doTx e s lh i).2 = .ok
  · obtain ⟨hnp, hadm, hs'⟩ := XV.C03.doTx_ok e s lh i hok
    have hfr := hf hok
    obtain ⟨hcur, hnd, _, _⟩ := XV.C03.admit_sound s lh (e.tx i) hadm
    have hinv' := PoolLive.toPoolInv hinv
    have hP := doTx_PoolInv e s lh i hinv' (by rw [hfr.idEq]; exact hfr.noRow)
      (by rw [hfr.idEq]; exact hfr.notCited) (by rw [hfr.idEq]; exact hfr.noSelf) hfr.nonCoinbase
    have hL := applyTx_Live e s s.pool i hinv.live hnp hfr.idEq hfr.nonCoinbase hnd
      (fun r hr => by obtain ⟨u, hu, _, hamt, _⟩ := hcur r hr; exact ⟨u, hu, hamt⟩)
      (admitted_insAmt s lh (e.tx i) hadm hfr.nonCoinbase) hfr.noRow hfr.notCited hfr.noSelf
    rw [hs'] at hP ⊢
    exact ⟨hP.nodupU, hL, hP.conservation⟩
  · rw [XV.C05.doTx_fail_noop e s lh i hok]; exact hinv

/-- **undoing a live transaction that no live transaction cites keeps the invariant and conservation** -/
theorem undo_LiveSum (e : Env) (s : St) (L : List Nat) (t : Nat) (h : LiveSum e s L) (ht : t ∈ L)
    (hnc : ∀ j ∈ L, ∀ r ∈ (e.tx j).ins, r.tx ≠ t) :
    LiveSum e (undoTx e s (e.tx t)) (L.filter (fun x => x != t)) := by
  have hl := h.live
  have hidt := hl.idEq t ht
  have happ : Applied s (e.tx t) := by
    refine ⟨?_, hl.insSpent t ht, hl.insNodup t ht, by rw [hidt]; exact hl.noSelf t ht⟩
    intro idx o ho hm
    obtain ⟨hm', ha⟩ := matSlot_of_get (e.tx t) idx o ho hm
    rcases hl.outs t ht idx hm' with ⟨u, hu, hamt⟩ | ⟨j, hj, r, hr, hrt, _⟩
    · rw [hidt]; exact ⟨u, hu, by rw [hamt, ha]⟩
    · exact absurd hrt (hnc j hj r hr)
  obtain ⟨n1, n2, n3⟩ := undoTx_sum e s (e.tx t) h.nodupU happ
  refine ⟨n1, undo_Live e s L t hl ht hnc, ?_⟩
  have hsplit : poolFees e L = feeOf (e.tx t).outs + poolFees e (L.filter (fun x => x != t)) :=
    XV.InvList.sum_filter_ne _ L t hl.nodupL ht
  have hbal : insAmt (e.tx t).ins = (outSum (e.tx t).outs : Int) := hl.balanced t ht
  have hos := outSum_split (e.tx t).outs
  have hcons := h.conservation
  rw [n2, n3]
  simp only [hl.nonCoinbase t ht, Bool.false_eq_true, ↓reduceIte]
  omega

/-- **eviction / roll-back**: undoing a duplicate-free list `ev` of live transactions in an order in which every
transaction is undone after all live transactions that cite it (`hord`: nothing later in `ev` cites something earlier...
read: for `a` before `b` in `ev`, `b` does not cite `a`; `hclosed`: whoever cites a member of `ev` is in `ev`) keeps the
invariant for the remaining transactions, and conservation -/
theorem undoFold_LiveSum (e : Env) (ev : List Nat) (s : St) (L : List Nat) (h : LiveSum e s L)
    (hnd : ev.Nodup) (hsub : ∀ t ∈ ev, t ∈ L)
    (hord : ev.Pairwise (fun a b => ∀ r ∈ (e.tx b).ins, r.tx ≠ a))
    (hclosed : ∀ t ∈ ev, ∀ j ∈ L, (∃ r ∈ (e.tx j).ins, r.tx = t) → j ∈ ev) :
    LiveSum e (ev.foldl (fun st i => undoTx e st (e.tx i)) s) (L.filter (fun x => !ev.contains x)) := by
  induction ev generalizing s L with
  | nil =>
    have : L.filter (fun x => !([] : List Nat).contains x) = L := by
      apply List.filter_eq_self.mpr; intro a _; simp
    rw [this]; exact h
  | cons t rest ih =>
    simp only [List.nodup_cons] at hnd
    simp only [List.pairwise_cons] at hord
    have htL := hsub t List.mem_cons_self
    have hnc : ∀ j ∈ L, ∀ r ∈ (e.tx j).ins, r.tx ≠ t := by
      intro j hj r hr hrt
      rcases List.mem_cons.mp (hclosed t List.mem_cons_self j hj ⟨r, hr, hrt⟩) with hjt | hjr
      · exact h.live.noSelf j hj r hr (hrt.trans hjt.symm)
      · exact hord.1 j hjr r hr hrt
    have hstep := undo_LiveSum e s L t h htL hnc
    have hmem : ∀ x, x ∈ L.filter (fun x => x != t) ↔ x ∈ L ∧ x ≠ t := by
      intro x; simp only [List.mem_filter, bne_iff_ne, ne_eq]
    have := ih (undoTx e s (e.tx t)) (L.filter (fun x => x != t)) hstep hnd.2
      (fun t' ht' => (hmem t').mpr ⟨hsub t' (List.mem_cons_of_mem _ ht'), fun e2 => hnd.1 (e2 ▸ ht')⟩)
      hord.2
      (fun t' ht' j hj hc => by
        obtain ⟨hjL, hjt⟩ := (hmem j).mp hj
        rcases List.mem_cons.mp (hclosed t' (List.mem_cons_of_mem _ ht') j hjL hc) with h1 | h1
        · exact absurd h1 hjt
        · exact h1)
    simp only [List.foldl_cons]
    have hfil : (L.filter (fun x => x != t)).filter (fun x => !rest.contains x) =
        L.filter (fun x => !(t :: rest).contains x) := by
      rw [List.filter_filter]
      apply List.filter_congr
      intro x _
      by_cases hx : x = t
      · simp [hx]
      · simp [hx]
    rw [hfil] at this
    exact this

theorem LiveSum.congr {e : Env} {s s' : St} {L : List Nat} (h : LiveSum e s L) (hU : s'.U = s.U)
    (hT : s'.total = s.total) : LiveSum e s' L :=
  ⟨by rw [hU]; exact h.nodupU, by rw [hU]; exact h.live, by rw [hU, hT]; exact h.conservation⟩

/-- **the transactions of a block keep the live invariant and conservation**: confirmed live transactions leave `L` and
their fees move to the proposer; new transactions have distinct fresh ids nobody cites, do not cite themselves, a coinbase
has no inputs and no fee; the block contains the live transactions its transactions cite -/
theorem blockRun_LiveSum (e : Env) (lh : Int) (prop : String) (isPool : Nat → Bool) (txs : List Nat) (s s2 : St)
    (L : List Nat) (h : blockRun e lh prop isPool txs s s2) (hinv : LiveSum e s L)
    (hnd : txs.Nodup) (hid : ∀ i ∈ txs, (e.tx i).id = i)
    (hpool : ∀ i ∈ txs, (isPool i = true ↔ i ∈ L))
    (hnew : ∀ i ∈ txs, isPool i = false → (∀ o, lookup s.U (i, o) = none) ∧ (∀ r ∈ (e.tx i).ins, r.tx ≠ i) ∧
      ((e.tx i).coinbase = true → (e.tx i).ins = [] ∧ feeOf (e.tx i).outs = 0) ∧
      (∀ j ∈ L, ∀ r ∈ (e.tx j).ins, r.tx ≠ i))
    (hparents : ∀ i ∈ txs, ∀ r ∈ (e.tx i).ins, r.tx ∈ L → r.tx ∈ txs) :
    LiveSum e s2 (L.filter (fun x => !txs.contains x)) := by
  have hl := hinv.live
  obtain ⟨r1, r2⟩ := blockRun_sum e lh prop isPool txs s s2 h hnd hid hinv.nodupU
    (fun i hi hp => ⟨(hnew i hi hp).1, (hnew i hi hp).2.1, (hnew i hi hp).2.2.1⟩)
    (fun i hi hp idx hf => hl.feeFree i ((hpool i hi).mp hp) idx hf)
  refine ⟨r1, blockRun_Live e lh prop isPool txs s s2 L h hl hid hpool
    (fun i hi hp => (hnew i hi hp).2.2.2) hparents, ?_⟩
  have hsplit := poolFees_split e L (fun i => txs.contains i)
  have hsame : poolFees e (txs.filter isPool) = poolFees e (L.filter (fun i => txs.contains i)) := by
    apply poolFees_same_mem
    · exact List.Nodup.sublist List.filter_sublist hnd
    · exact List.Nodup.sublist List.filter_sublist hl.nodupL
    · intro x
      simp only [List.mem_filter, List.contains_eq_mem, decide_eq_true_eq]
      constructor
      · intro ⟨hx, hp⟩; exact ⟨(hpool x hx).mp hp, hx⟩
      · intro ⟨hx, hb⟩; exact ⟨hb, (hpool x hb).mpr hx⟩
  have hcons := hinv.conservation
  rw [hsame] at r2
  omega

/-- **`playForMiner` keeps the strong pool invariant.** Hypotheses: block ids pairwise distinct and `e.tx i` has id `i`;
the non-coinbase transactions of the block are pending; the award is a coinbase without inputs and fee whose id is fresh
(no row, not cited by a pending transaction); the block contains the pending transactions its transactions cite. -/
theorem playForMiner_PoolLive (e : Env) (s : St) (lh : Int) (b : Block) (hinv : PoolLive e s)
    (hnd : b.txs.Nodup) (hid : ∀ i ∈ b.txs, (e.tx i).id = i)
    (hsub : ∀ i ∈ b.txs, (e.tx i).coinbase = false → i ∈ s.pool)
    (haward : ∀ i ∈ b.txs, (e.tx i).coinbase = true →
      (e.tx i).ins = [] ∧ feeOf (e.tx i).outs = 0 ∧ (∀ o, lookup s.U (i, o) = none) ∧
      (∀ j ∈ s.pool, ∀ r ∈ (e.tx j).ins, r.tx ≠ i))
    (hparents : ∀ i ∈ b.txs, ∀ r ∈ (e.tx i).ins, r.tx ∈ s.pool → r.tx ∈ b.txs) :
    PoolLive e (playForMiner e s lh b).1 := by
  unfold playForMiner
  by_cases h1 : b.pre ≠ some s.pointer
  · rw [if_pos h1]; exact hinv
  · rw [if_neg h1]
    cases hgo : playForMiner.go e lh b b.txs s with
    | none => exact hinv
    | some s2 =>
      simp only
      have hrun := playForMiner_go_run e lh b b.txs s s2 hgo
      have := blockRun_LiveSum e lh b.prop _ b.txs s s2 s.pool hrun hinv hnd hid
        (fun i hi => by
          constructor
          · intro hp; exact hsub i hi (by simpa using hp)
          · intro hp; simp [hinv.live.nonCoinbase i hp])
        (fun i hi hp => by
          have hc : (e.tx i).coinbase = true := by simpa using hp
          obtain ⟨a1, a2, a3, a4⟩ := haward i hi hc
          exact ⟨a3, by rw [a1]; simp, fun _ => ⟨a1, a2⟩, a4⟩)
        hparents
      exact LiveSum.congr this rfl rfl

/-- **rolling the pool back** (step 1 of `walk`: every pending transaction undone, newest first): the table is back to
the confirmed state — conservation `Σ U = total`, one row per key, and no row carries the id of a rolled-back transaction -/
theorem rollback_LiveSum (e : Env) (s : St) (hinv : PoolLive e s) :
    let s0 := s.pool.reverse.foldl (fun st i => undoTx e st (e.tx i)) s
    UNodup s0.U ∧ sumU s0.U = s0.total ∧ s0.total = s.total ∧ (∀ i ∈ s.pool, ∀ o, lookup s0.U (i, o) = none) := by
  intro s0
  have hl := hinv.live
  have hnd : s.pool.reverse.Nodup := by
    unfold List.Nodup
    rw [List.pairwise_reverse]
    exact List.Pairwise.imp (fun h => fun e2 => h e2.symm) hl.nodupL
  have hord : s.pool.reverse.Pairwise (fun a b => ∀ r ∈ (e.tx b).ins, r.tx ≠ a) := by
    rw [List.pairwise_reverse]; exact hl.order
  have hfold := undoFold_LiveSum e s.pool.reverse s s.pool hinv hnd (fun t ht => List.mem_reverse.mp ht) hord
    (fun t _ j hj _ => List.mem_reverse.mpr hj)
  have hnil : s.pool.filter (fun x => !s.pool.reverse.contains x) = [] := by
    apply List.filter_eq_nil_iff.mpr; intro a ha; simp [ha]
  rw [hnil] at hfold
  have hcons := hfold.conservation
  simp only [poolFees, List.map_nil, List.sum_nil] at hcons
  have hs0 : s0 = s.pool.reverse.foldl (fun st i => undoTx e st (e.tx i)) s := rfl
  refine ⟨hfold.nodupU, by rw [hs0]; omega, ?_, ?_⟩
  · -- the total never moves: no pending coinbase
    show s0.total = s.total
    have : ∀ (l : List Nat) (st : St), (∀ i ∈ l, (e.tx i).coinbase = false) →
        (l.foldl (fun st i => undoTx e st (e.tx i)) st).total = st.total := by
      intro l
      induction l with
      | nil => intro st _; rfl
      | cons t rest ih =>
        intro st hc
        simp only [List.foldl_cons]
        rw [ih _ (fun i hi => hc i (List.mem_cons_of_mem _ hi))]
        unfold undoTx
        have hcb := hc t List.mem_cons_self
        have : ∀ (outs : List Out) (off : Nat) (x : St), (undoOuts (e.tx t) outs off x).total = x.total := by
          intro outs
          induction outs with
          | nil => intro off x; rfl
          | cons o r ih2 =>
            intro off x
            unfold undoOuts
            rw [ih2]
            split
            · rfl
            · simp [hcb]
        rw [this]
        exact (undoKOut_frame e (e.tx t) (e.tx t).kout st).2.1
    exact this _ _ (fun i hi => hl.nonCoinbase i (List.mem_reverse.mp hi))
  · -- rows of rolled-back transactions are gone
    have hgone : ∀ (ev : List Nat) (st : St) (L : List Nat), LiveSum e st L → ev.Nodup → (∀ t ∈ ev, t ∈ L) →
        ev.Pairwise (fun a b => ∀ r ∈ (e.tx b).ins, r.tx ≠ a) →
        (∀ t ∈ ev, ∀ j ∈ L, (∃ r ∈ (e.tx j).ins, r.tx = t) → j ∈ ev) →
        ∀ t ∈ ev, ∀ o, lookup (ev.foldl (fun st i => undoTx e st (e.tx i)) st).U (t, o) = none := by
      intro ev
      induction ev with
      | nil => intro _ _ _ _ _ _ _ t ht; cases ht
      | cons a rest ih =>
        intro st L hls hnd' hsub' hord' hcl' t ht o
        simp only [List.nodup_cons] at hnd'
        simp only [List.pairwise_cons] at hord'
        have haL := hsub' a List.mem_cons_self
        have hnc : ∀ j ∈ L, ∀ r ∈ (e.tx j).ins, r.tx ≠ a := by
          intro j hj r hr hrt
          rcases List.mem_cons.mp (hcl' a List.mem_cons_self j hj ⟨r, hr, hrt⟩) with hjt | hjr
          · exact hls.live.noSelf j hj r hr (hrt.trans hjt.symm)
          · exact hord'.1 j hjr r hr hrt
        simp only [List.foldl_cons]
        rcases List.mem_cons.mp ht with hta | htr
        · rw [hta]
          apply undoFold_lookup_none
          · intro t' ht' r hr he
            injection he with e1 _
            exact hord'.1 t' ht' r hr e1
          · exact undo_Live_gone e st L a hls.live haL o
        · have hmem : ∀ x, x ∈ L.filter (fun x => x != a) ↔ x ∈ L ∧ x ≠ a := by
            intro x; simp only [List.mem_filter, bne_iff_ne, ne_eq]
          exact ih (undoTx e st (e.tx a)) (L.filter (fun x => x != a)) (undo_LiveSum e st L a hls haL hnc) hnd'.2
            (fun t' ht' => (hmem t').mpr ⟨hsub' t' (List.mem_cons_of_mem _ ht'), fun e2 => hnd'.1 (e2 ▸ ht')⟩)
            hord'.2
            (fun t' ht' j hj hc => by
              obtain ⟨hjL, hjt⟩ := (hmem j).mp hj
              rcases List.mem_cons.mp (hcl' t' (List.mem_cons_of_mem _ ht') j hjL hc) with h1 | h1
              · exact absurd h1 hjt
              · exact h1)
            t htr o
    intro i hi o
    exact hgone s.pool.reverse s s.pool hinv hnd (fun t ht => List.mem_reverse.mp ht) hord
      (fun t _ j hj _ => List.mem_reverse.mpr hj) i (List.mem_reverse.mpr hi) o

theorem PoolLive_of_empty (e : Env) (s : St) (hn : UNodup s.U) (hp : s.pool = []) (hc : sumU s.U = s.total) :
    PoolLive e s := by
  unfold PoolLive
  rw [hp]
  exact ⟨hn, Live_nil e s.U, by simp only [poolFees, List.map_nil, List.sum_nil]; omega⟩

-- non-vacuity of `PoolLive`, `doTx_PoolLive`, `rollback_LiveSum`: parent 1 (5 -> 3 + fee 2) and child 2 (3 -> 2 + fee 1)
-- are admitted one after the other; the strong invariant holds; rolling both back restores Σ U = total = 5
example :
    let e : Env := { txs := [(1, ⟨1, false, [⟨0, 0, "u0", 5, 0, false⟩], [⟨"u1", 3, 0⟩, ⟨"$", 2, 0⟩], [], []⟩),
                             (2, ⟨2, false, [⟨1, 0, "u1", 3, 0, false⟩], [⟨"u2", 2, 0⟩, ⟨"$", 1, 0⟩], [], []⟩)] }
    let s : St := { U := [((0, 0), ⟨"u0", 5, 0⟩)], total := 5 }
    let s2 := (doTx e (doTx e s 0 1).1 0 2).1
    PoolLive e s ∧ PoolLive e s2 ∧ s2.pool = [1, 2] ∧ sumU s2.U = 2 ∧
      sumU (s2.pool.reverse.foldl (fun st i => undoTx e st (e.tx i)) s2).U = 5 := by
  intro e s s2
  have h0 : PoolLive e s := PoolLive_of_empty e s (by unfold UNodup; decide) rfl (by decide)
  have h1 : PoolLive e (doTx e s 0 1).1 := doTx_PoolLive e s 0 1 h0
    (fun _ => ⟨by decide, lookup_none_of_noid _ _ (by decide), by decide, by decide, by decide⟩)
  have h2 : PoolLive e s2 := doTx_PoolLive e (doTx e s 0 1).1 0 2 h1
    (fun _ => ⟨by decide, lookup_none_of_noid _ _ (by decide), by decide, by decide, by decide⟩)
  exact ⟨h0, h2, by decide, by decide, by decide⟩

/-- **`play` (PlayAndRepost) keeps the strong pool invariant**: conflicting pending transactions and their dependents are
evicted (undone newest first), the block is applied on top of the remaining pool, confirmed fees move to the proposer.
Hypotheses: block ids pairwise distinct, `e.tx i` has id `i`; the block transactions that are not pending are hash-causal
(`hnew`: no row carries the id, no self-citation, no pending transaction cites them; a coinbase has no inputs and no fee);
the block is valid on the chain alone — it contains the pending transactions its transactions cite (`hparents`) and
everything pending that its pending members depend on (`hdeps`). -/
theorem play_PoolLive (e : Env) (s : St) (lh : Int) (b : Block) (hinv : PoolLive e s)
    (hnd : b.txs.Nodup) (hid : ∀ i ∈ b.txs, (e.tx i).id = i)
    (hnew : ∀ i ∈ b.txs, i ∉ s.pool →
      (∀ o, lookup s.U (i, o) = none) ∧ (∀ r ∈ (e.tx i).ins, r.tx ≠ i) ∧
      ((e.tx i).coinbase = true → (e.tx i).ins = [] ∧ feeOf (e.tx i).outs = 0) ∧
      (∀ j ∈ s.pool, ∀ r ∈ (e.tx j).ins, r.tx ≠ i))
    (hparents : ∀ i ∈ b.txs, ∀ r ∈ (e.tx i).ins, r.tx ∈ s.pool → r.tx ∈ b.txs)
    (hdeps : ∀ c ∈ b.txs, c ∈ s.pool → ∀ p ∈ s.pool, dependsOn e s.pool c p = true → p ∈ b.txs) :
    PoolLive e (play e s lh b).1 := by
  by_cases hok : (play e s lh b).2 = .ok
  · obtain ⟨s2, happ, hshape⟩ := play_ok e s lh b hok (fun x hx => (playEvict_outside e s b hdeps x hx).2)
    rw [hshape]
    have hl := hinv.live
    -- the evicted set: pending, outside the block, closed under dependents
    have hevP : ∀ x ∈ playEvict e s b, x ∈ s.pool ∧ x ∉ b.txs := by
      apply closure_induct e s.pool (fun x => x ∈ s.pool ∧ x ∉ b.txs)
      · intro x hx
        have h1 := (List.mem_filter.mp hx).1
        have h2 := List.mem_filter.mp h1
        exact ⟨h2.1, by simpa using h2.2⟩
      · intro c hc p hp hd
        exact ⟨hc, fun hct => hp.2 (hdeps c hct hc p (dependsOn_parent_mem e s.pool c p hd) hd)⟩
    have hevC : ∀ p ∈ playEvict e s b, ∀ c ∈ s.pool, dependsOn e s.pool c p = true → c ∈ playEvict e s b :=
      closure_closed e s.pool s.pool.length _ (List.length_filter_le _ _)
    -- the undo list
    have hndr : s.pool.reverse.Nodup := by
      unfold List.Nodup
      rw [List.pairwise_reverse]
      exact List.Pairwise.imp (fun h => fun e2 => h e2.symm) hl.nodupL
    have hevmem : ∀ x, x ∈ s.pool.reverse.filter (fun i => (playEvict e s b).contains i) ↔
        x ∈ s.pool ∧ x ∈ playEvict e s b := by
      intro x; simp only [List.mem_filter, List.mem_reverse, List.contains_eq_mem, decide_eq_true_eq]
    have hL1 := undoFold_LiveSum e (s.pool.reverse.filter (fun i => (playEvict e s b).contains i)) s s.pool hinv
      (List.Nodup.sublist List.filter_sublist hndr)
      (fun t ht => ((hevmem t).mp ht).1)
      (List.Pairwise.filter _ (by rw [List.pairwise_reverse]; exact hl.order))
      (fun t ht j hj hc => by
        obtain ⟨r, hr, hrt⟩ := hc
        obtain ⟨htp, hte⟩ := (hevmem t).mp ht
        refine (hevmem j).mpr ⟨hj, hevC t hte j hj ?_⟩
        have hjt : j ≠ t := fun e2 => hl.noSelf j hj r hr (hrt.trans e2.symm)
        unfold dependsOn
        simp only [Bool.and_eq_true, Bool.or_eq_true, List.any_eq_true, bne_iff_ne, ne_eq,
          List.contains_eq_mem, decide_eq_true_eq, beq_iff_eq]
        exact ⟨⟨hjt, htp⟩, Or.inl (Or.inl ⟨r, hr, hrt⟩)⟩)
    have hL1mem : ∀ x, x ∈ s.pool.filter
        (fun x => !(s.pool.reverse.filter (fun i => (playEvict e s b).contains i)).contains x) ↔
        x ∈ s.pool ∧ x ∉ playEvict e s b := by
      intro x
      simp only [List.mem_filter, List.contains_eq_mem, List.mem_reverse, decide_eq_true_eq,
        Bool.not_eq_eq_eq_not, Bool.not_true, decide_eq_false_iff_not, not_and]
      constructor
      · intro ⟨h1, h2⟩; exact ⟨h1, h2 h1⟩
      · intro ⟨h1, h2⟩; exact ⟨h1, fun _ => h2⟩
    have hrun := applyBlockTxs_run e lh b.prop _ b.txs _ s2 happ
    have hfin := blockRun_LiveSum e lh b.prop _ b.txs (playUndone e s b) s2 _ hrun hL1 hnd hid
      (fun i hi => by
        rw [hL1mem]
        simp only [List.contains_eq_mem, List.mem_filter, decide_eq_true_eq]
        constructor
        · intro ⟨hp, _⟩; exact ⟨hp, fun he => (hevP i he).2 hi⟩
        · intro ⟨hp, _⟩; exact ⟨hp, hi⟩)
      (fun i hi hp => by
        have hnp : i ∉ s.pool := by
          intro hip
          simp only [List.contains_eq_mem, List.mem_filter, decide_eq_true_eq, hip, hi, and_self,
            decide_true, Bool.true_eq_false] at hp
        obtain ⟨n1, n2, n3, n4⟩ := hnew i hi hnp
        refine ⟨fun o => ?_, n2, n3, fun j hj => n4 j ((hL1mem j).mp hj).1⟩
        apply undoFold_lookup_none _ _ _ _ _ (n1 o)
        intro t ht r hr he
        injection he with e1 _
        exact n4 t ((hevmem t).mp ht).1 r hr e1)
      (fun i hi r hr hrL => hparents i hi r hr ((hL1mem r.tx).mp hrL).1)
    have hpool : s.pool.filter (fun i => !b.txs.contains i && !(playEvict e s b).contains i) =
        (s.pool.filter (fun x => !(s.pool.reverse.filter (fun i => (playEvict e s b).contains i)).contains x)).filter
          (fun x => !b.txs.contains x) := by
      rw [List.filter_filter]
      apply List.filter_congr
      intro x hx
      have : (s.pool.reverse.filter (fun i => (playEvict e s b).contains i)).contains x =
          (playEvict e s b).contains x := by
        by_cases hxe : x ∈ playEvict e s b
        · simp [hxe, hx]
        · simp [hxe]
      rw [this]
    unfold PoolLive
    simp only
    rw [hpool]
    exact LiveSum.congr hfin rfl rfl
  · rw [XV.C05.play_fail_noop e s lh b hok]; exact hinv

-- non-vacuity of `play_PoolLive`: pool [1, 2, 4, 5] (2 spends an output of 1). The block [9 (award), 3, 5] contains 3, which
-- spends the input of 1: 1 and its child 2 are evicted, 5 is confirmed, 4 stays pending. Σ U + fee(4) = total.
example :
    let e : Env := { txs := [
      (1, ⟨1, false, [⟨0, 0, "u0", 5, 0, false⟩], [⟨"u1", 3, 0⟩, ⟨"$", 2, 0⟩], [], []⟩),
      (2, ⟨2, false, [⟨1, 0, "u1", 3, 0, false⟩], [⟨"u2", 2, 0⟩, ⟨"$", 1, 0⟩], [], []⟩),
      (3, ⟨3, false, [⟨0, 0, "u0", 5, 0, false⟩], [⟨"u3", 5, 0⟩], [], []⟩),
      (4, ⟨4, false, [⟨0, 1, "u0", 7, 0, false⟩], [⟨"u4", 6, 0⟩, ⟨"$", 1, 0⟩], [], []⟩),
      (5, ⟨5, false, [⟨0, 2, "u0", 4, 0, false⟩], [⟨"u5", 3, 0⟩, ⟨"$", 1, 0⟩], [], []⟩),
      (9, ⟨9, true, [], [⟨"miner", 10, 0⟩], [], []⟩)] }
    let s0 : St := { U := [((0, 0), ⟨"u0", 5, 0⟩), ((0, 1), ⟨"u0", 7, 0⟩), ((0, 2), ⟨"u0", 4, 0⟩)], total := 16 }
    let s := (doTx e (doTx e (doTx e (doTx e s0 0 1).1 0 2).1 0 4).1 0 5).1
    let b : Block := ⟨20, some 0, 1, [9, 3, 5], "miner"⟩
    PoolLive e s ∧ s.pool = [1, 2, 4, 5] ∧ (play e s 0 b).2 = .ok ∧ PoolLive e (play e s 0 b).1 ∧
      (play e s 0 b).1.pool = [4] ∧ sumU (play e s 0 b).1.U = 25 ∧ (play e s 0 b).1.total = 26 := by
  intro e s0 s b
  have h0 : PoolLive e s0 := PoolLive_of_empty e s0 (by unfold UNodup; decide) rfl (by decide)
  have h1 := doTx_PoolLive e s0 0 1 h0
    (fun _ => ⟨by decide, lookup_none_of_noid _ _ (by decide), by decide, by decide, by decide⟩)
  have h2 := doTx_PoolLive e _ 0 2 h1
    (fun _ => ⟨by decide, lookup_none_of_noid _ _ (by decide), by decide, by decide, by decide⟩)
  have h3 := doTx_PoolLive e _ 0 4 h2
    (fun _ => ⟨by decide, lookup_none_of_noid _ _ (by decide), by decide, by decide, by decide⟩)
  have h4 : PoolLive e s := doTx_PoolLive e _ 0 5 h3
    (fun _ => ⟨by decide, lookup_none_of_noid _ _ (by decide), by decide, by decide, by decide⟩)
  refine ⟨h4, by decide, by decide, ?_, by decide, by decide, by decide⟩
  apply play_PoolLive e s 0 b h4 (by decide) (by decide) _ (by decide) (by decide)
  intro i hi hnp
  have hi' : i = 9 ∨ i = 3 := by
    simp only [b, List.mem_cons, List.not_mem_nil, or_false] at hi
    rcases hi with rfl | rfl | rfl
    · exact Or.inl rfl
    · exact Or.inr rfl
    · exact absurd (by decide) hnp
  rcases hi' with rfl | rfl
  · exact ⟨lookup_none_of_noid _ _ (by decide), by decide, by decide, by decide⟩
  · exact ⟨lookup_none_of_noid _ _ (by decide), by decide, by decide, by decide⟩

-- ================================================================ whole histories of submissions

/-- every admitted submission of the history is hash-causal (`Fresh`) at the moment it is admitted -/
def FreshRun (e : Env) (lh : Int) : List Nat → St → Prop
  | [], _ => True
  | i :: rest, s => ((doTx e s lh i).2 = .ok → Fresh e s i) ∧ FreshRun e lh rest (doTx e s lh i).1

/-- **the strong pool invariant holds after every history of submissions** -/
theorem submitAll_PoolLive (e : Env) (lh : Int) (subs : List Nat) (s : St) (hinv : PoolLive e s)
    (hf : FreshRun e lh subs s) : PoolLive e (XV.C03.submitAll e lh subs s) := by
  induction subs generalizing s with
  | nil => exact hinv
  | cons i rest ih => exact ih _ (doTx_PoolLive e s lh i hinv hf.1) hf.2

/-- **the pool invariant (conservation included) holds after every history of submissions** -/
theorem submitAll_PoolInv (e : Env) (lh : Int) (subs : List Nat) (s : St) (hinv : PoolInv e s)
    (hf : FreshRun e lh subs s) : PoolInv e (XV.C03.submitAll e lh subs s) := by
  induction subs generalizing s with
  | nil => exact hinv
  | cons i rest ih =>
    refine ih _ ?_ hf.2
    by_cases hok : (doTx e s lh i).2 = .ok
    · have hfr := hf.1 hok
      exact doTx_PoolInv e s lh i hinv (by rw [hfr.idEq]; exact hfr.noRow)
        (by rw [hfr.idEq]; exact hfr.notCited) (by rw [hfr.idEq]; exact hfr.noSelf) hfr.nonCoinbase
    · rw [XV.C05.doTx_fail_noop e s lh i hok]; exact hinv

theorem FreshRun.toCausalInsRun {e : Env} {lh : Int} {subs : List Nat} {s : St} (hf : FreshRun e lh subs s) :
    XV.C03.CausalInsRun e lh subs s := by
  induction subs generalizing s with
  | nil => trivial
  | cons i rest ih =>
    refine ⟨fun hok => ?_, ih hf.2⟩
    have hfr := hf.1 hok
    exact ⟨by rw [hfr.idEq]; exact hfr.notCited, by rw [hfr.idEq]; exact hfr.noSelf⟩

/-- **from a state satisfying `PoolInv`, no history of (hash-causal) submissions produces a double spend**: in the final
pool every input of a pending transaction is spent, and two distinct pending transactions — at least one admitted during
the history — have disjoint token-input sets; the final state satisfies `PoolInv` again -/
theorem PoolInv_no_double_spend (e : Env) (lh : Int) (subs : List Nat) (s : St) (hinv : PoolInv e s)
    (hf : FreshRun e lh subs s) :
    PoolInv e (XV.C03.submitAll e lh subs s) ∧
    ∀ i ∈ (XV.C03.submitAll e lh subs s).pool, ∀ j ∈ (XV.C03.submitAll e lh subs s).pool, i ≠ j →
      ¬ (i ∈ s.pool ∧ j ∈ s.pool) →
      ∀ r ∈ (e.tx i).ins, ∀ r' ∈ (e.tx j).ins, (r.tx, r.off) ≠ (r'.tx, r'.off) :=
  ⟨submitAll_PoolInv e lh subs s hinv hf,
   (XV.C03.no_double_spend_pool_tokens e lh subs s hinv.insSpent hf.toCausalInsRun).2⟩

/-- under the strong invariant *all* pairs of pending transactions are disjoint, at every time -/
theorem PoolLive_no_double_spend (e : Env) (s : St) (hinv : PoolLive e s) :
    ∀ i ∈ s.pool, ∀ j ∈ s.pool, i ≠ j →
      ∀ r ∈ (e.tx i).ins, ∀ r' ∈ (e.tx j).ins, (r.tx, r.off) ≠ (r'.tx, r'.off) :=
  hinv.live.disjoint

-- ================================================================ the ledger invariant: reachable states, no freshness hypotheses

/-- supply created by the confirmed transactions: the materialised outputs of the coinbase ones (genesis, awards) -/
def coinbasePaid (e : Env) (C : List Nat) : Int :=
  (C.map (fun i => if (e.tx i).coinbase then paidOf (e.tx i).outs else 0)).sum

/-- the ledger invariant of `XV.Lemmas.InvLedger` (ghost log: confirmed `C`, pending `P`) with sums: one row per key;
pending transactions are not coinbase; a confirmed coinbase has no inputs and no fee; non-coinbase transactions are
balanced in the amounts they cite; **conservation** `Σ U + pending fees = total`; **supply** `total = Σ coinbase outputs
of the confirmed transactions` -/
structure LedSum (e : Env) (s : St) (C P : List Nat) : Prop where
  nodupU : UNodup s.U
  led : Led e s.U C P
  poolNonCoinbase : ∀ i ∈ P, (e.tx i).coinbase = false
  awardShape : ∀ i ∈ C, (e.tx i).coinbase = true → (e.tx i).ins = [] ∧ feeOf (e.tx i).outs = 0
  balanced : ∀ i ∈ C ++ P, (e.tx i).coinbase = false → insAmt (e.tx i).ins = (outSum (e.tx i).outs : Int)
  conservation : sumU s.U + poolFees e P = s.total
  supply : s.total = coinbasePaid e C

/-- **the reachable-state invariant**: the state is explained by the confirmed log `C` and the pool -/
def Ledger (e : Env) (s : St) (C : List Nat) : Prop := LedSum e s C s.pool

theorem LedSum.congr {e : Env} {s s' : St} {C P : List Nat} (h : LedSum e s C P) (hU : s'.U = s.U)
    (hT : s'.total = s.total) : LedSum e s' C P :=
  ⟨by rw [hU]; exact h.nodupU, by rw [hU]; exact h.led, h.poolNonCoinbase, h.awardShape, h.balanced,
   by rw [hU, hT]; exact h.conservation, by rw [hT]; exact h.supply⟩

/-- the initial state (nothing applied) satisfies the invariant with an empty log -/
theorem Ledger_genesis (e : Env) : Ledger e {} [] := by
  refine ⟨by unfold UNodup; simp, Led_empty e, ?_, ?_, ?_, ?_, ?_⟩
  · intro i hi; cases hi
  · intro i hi; cases hi
  · intro i hi; cases hi
  · simp [sumU, poolFees]
  · simp [coinbasePaid]

theorem Ledger.toPoolInv {e : Env} {s : St} {C : List Nat} (h : Ledger e s C) : PoolInv e s :=
  ⟨h.nodupU, (List.nodup_append.mp h.led.nodupA).2.1, h.poolNonCoinbase,
   fun i hi => h.led.insSpent i (List.mem_append_right _ hi), h.conservation⟩

theorem coinbasePaid_append (e : Env) (a b : List Nat) : coinbasePaid e (a ++ b) = coinbasePaid e a + coinbasePaid e b := by
  unfold coinbasePaid; simp [List.sum_append]

theorem applied_of_Led (e : Env) (s : St) (C P : List Nat) (t : Nat) (hl : Led e s.U C P) (ht : t ∈ C ++ P)
    (hnc : ∀ j ∈ C ++ P, ∀ r ∈ (e.tx j).ins, r.tx ≠ t) : Applied s (e.tx t) := by
  have hidt := hl.idEq t ht
  refine ⟨?_, hl.insSpent t ht, hl.insNodup t ht, by rw [hidt]; exact hl.noSelf t ht⟩
  intro idx o ho hm
  obtain ⟨hm', ha⟩ := matSlot_of_get (e.tx t) idx o ho hm
  rcases hl.outs t ht idx (Or.inl hm') with ⟨u, hu, hamt⟩ | ⟨j, hj, r, hr, hrt, _⟩
  · rw [hidt]; exact ⟨u, hu, by rw [hamt, ha]⟩
  · exact absurd hrt (hnc j hj r hr)

/-- S1 — a pending transaction is admitted -/
theorem LedSum_addPending (e : Env) (s : St) (lh : Int) (C P : List Nat) (i : Nat) (h : LedSum e s C P)
    (hnot : i ∉ C ++ P) (hid : (e.tx i).id = i) (hcb : (e.tx i).coinbase = false)
    (hadm : admitTx s lh (e.tx i) = .ok) :
    LedSum e (applyTx s (e.tx i)) C (P ++ [i]) := by
  obtain ⟨hcur, hnd, _, _⟩ := XV.C03.admit_sound s lh (e.tx i) hadm
  have hfresh := h.led.noRow i hnot
  obtain ⟨c1, c2, c3⟩ := applyTx_conserves s lh (e.tx i) hadm h.nodupU (by rw [hid]; exact hfresh) hcb
  have hL := Led_addPending e s C P i h.led hnot hid hnd
    (fun r hr => by obtain ⟨u, hu, _, hamt, _⟩ := hcur r hr; exact ⟨u, hu, hamt⟩)
  refine ⟨c1, hL, ?_, h.awardShape, ?_, ?_, by rw [c3]; exact h.supply⟩
  · intro j hj
    rcases List.mem_append.mp hj with hj | hj
    · exact h.poolNonCoinbase j hj
    · simp only [List.mem_cons, List.not_mem_nil, or_false] at hj; rw [hj]; exact hcb
  · intro j hj hjc
    rw [← List.append_assoc] at hj
    rcases List.mem_append.mp hj with hj | hj
    · exact h.balanced j hj hjc
    · simp only [List.mem_cons, List.not_mem_nil, or_false] at hj; rw [hj]
      exact admitted_insAmt s lh (e.tx i) hadm hcb
  · rw [poolFees_append, c3]
    have := h.conservation
    simp only [poolFees, List.map_cons, List.map_nil, List.sum_cons, List.sum_nil] at this ⊢
    omega

/-- S2 — a pending transaction is confirmed: its fee moves from "pending" to the proposer's rows -/
theorem LedSum_confirmPending (e : Env) (s : St) (prop : String) (C P : List Nat) (i : Nat) (h : LedSum e s C P)
    (hi : i ∈ P) (hnp : ∀ r ∈ (e.tx i).ins, r.tx ∉ P) :
    LedSum e (payFee (e.tx i) prop (e.tx i).outs 0 s) (C ++ [i]) (P.filter (fun x => x != i)) := by
  have hl := h.led
  have hiA : i ∈ C ++ P := List.mem_append_right _ hi
  have hid := hl.idEq i hiA
  have hiC : i ∉ C := fun hc => (List.nodup_append.mp hl.nodupA).2.2 i hc i hi rfl
  have hcb := h.poolNonCoinbase i hi
  obtain ⟨p1, p2, p3⟩ := confirmPool_sum (e.tx i) prop s h.nodupU (fun idx hf => by
    rw [hid]
    cases hlk : lookup s.U (i, idx) with
    | none => rfl
    | some u =>
      rcases (hl.rows i idx u hlk).2 with hm | ⟨hc, _⟩
      · rw [feeSlot_matSlot _ _ hm] at hf; cases hf
      · exact absurd hc hiC)
  have hL := Led_confirmPending e s prop C P i hl hi hnp
  have hmemA : ∀ x, x ∈ (C ++ [i]) ++ P.filter (fun x => x != i) → x ∈ C ++ P := by
    intro x hx
    simp only [List.mem_append, List.mem_cons, List.not_mem_nil, or_false, List.mem_filter] at hx ⊢
    rcases hx with (hx | hx) | ⟨hx, _⟩
    · exact Or.inl hx
    · rw [hx]; exact Or.inr hi
    · exact Or.inr hx
  refine ⟨p1, hL, ?_, ?_, ?_, ?_, ?_⟩
  · intro j hj; exact h.poolNonCoinbase j (List.mem_filter.mp hj).1
  · intro j hj hjc
    rcases List.mem_append.mp hj with hj | hj
    · exact h.awardShape j hj hjc
    · simp only [List.mem_cons, List.not_mem_nil, or_false] at hj
      rw [hj, hcb] at hjc; cases hjc
  · intro j hj hjc; exact h.balanced j (hmemA j hj) hjc
  · have hsplit : poolFees e P = feeOf (e.tx i).outs + poolFees e (P.filter (fun x => x != i)) :=
      XV.InvList.sum_filter_ne _ P i (List.nodup_append.mp hl.nodupA).2.1 hi
    have := h.conservation
    rw [p2, p3]; omega
  · rw [p3, coinbasePaid_append, h.supply]
    simp [coinbasePaid, hcb]

theorem filter_ne_append_self (P : List Nat) (i : Nat) (hi : i ∉ P) : (P ++ [i]).filter (fun x => x != i) = P := by
  rw [List.filter_append]
  have h1 : P.filter (fun x => x != i) = P := by
    apply List.filter_eq_self.mpr
    intro a ha
    simp only [bne_iff_ne, ne_eq]
    intro e2; exact hi (e2 ▸ ha)
  rw [h1]
  simp

/-- S3 — a transaction that was not pending is confirmed (admission, application, fee payment). A coinbase has no inputs and no fee. -/
theorem LedSum_confirmNew (e : Env) (s : St) (lh : Int) (prop : String) (C P : List Nat) (i : Nat)
    (h : LedSum e s C P) (hnot : i ∉ C ++ P) (hid : (e.tx i).id = i)
    (hadm : admitTx s lh (e.tx i) = .ok)
    (hcb : (e.tx i).coinbase = true → (e.tx i).ins = [] ∧ feeOf (e.tx i).outs = 0)
    (hnp : ∀ r ∈ (e.tx i).ins, r.tx ∉ P) :
    LedSum e (payFee (e.tx i) prop (e.tx i).outs 0 (applyTx s (e.tx i))) (C ++ [i]) P := by
  obtain ⟨hcur, hnd, _, _⟩ := XV.C03.admit_sound s lh (e.tx i) hadm
  have hfresh := h.led.noRow i hnot
  have hiP : i ∉ P := fun hp => hnot (List.mem_append_right _ hp)
  have hL1 := Led_addPending e s C P i h.led hnot hid hnd
    (fun r hr => by obtain ⟨u, hu, _, hamt, _⟩ := hcur r hr; exact ⟨u, hu, hamt⟩)
  have hiA1 : i ∈ C ++ (P ++ [i]) := by simp
  have hself := hL1.noSelf i hiA1
  have hL2 := Led_confirmPending e (applyTx s (e.tx i)) prop C (P ++ [i]) i hL1 (by simp)
    (fun r hr hm => by
      rcases List.mem_append.mp hm with hm | hm
      · exact hnp r hr hm
      · simp only [List.mem_cons, List.not_mem_nil, or_false] at hm; exact hself r hr hm)
  rw [filter_ne_append_self P i hiP] at hL2
  obtain ⟨n1, n2⟩ := confirmNew_sum s lh (e.tx i) prop hadm h.nodupU (by rw [hid]; exact hfresh)
    (by rw [hid]; exact hself) hcb
  have htot : (payFee (e.tx i) prop (e.tx i).outs 0 (applyTx s (e.tx i))).total =
      s.total + (if (e.tx i).coinbase then paidOf (e.tx i).outs else 0) := by
    rw [(payFee_frame (e.tx i) prop (e.tx i).outs 0 (applyTx s (e.tx i))).2.2.1]
    by_cases hc : (e.tx i).coinbase = true
    · rw [(applyTx_coinbase s (e.tx i) h.nodupU (by rw [hid]; exact hfresh) hc (hcb hc).1).2.2]
      simp [hc]
    · have hc' : (e.tx i).coinbase = false := by simpa using hc
      rw [(applyTx_conserves s lh (e.tx i) hadm h.nodupU (by rw [hid]; exact hfresh) hc').2.2]
      simp [hc']
  refine ⟨n1, hL2, h.poolNonCoinbase, ?_, ?_, ?_, ?_⟩
  · intro j hj hjc
    rcases List.mem_append.mp hj with hj | hj
    · exact h.awardShape j hj hjc
    · simp only [List.mem_cons, List.not_mem_nil, or_false] at hj
      rw [hj] at hjc ⊢; exact hcb hjc
  · intro j hj hjc
    have : j ∈ C ++ P ∨ j = i := by
      simp only [List.mem_append, List.mem_cons, List.not_mem_nil, or_false] at hj ⊢
      rcases hj with (hj | hj) | hj
      · exact Or.inl (Or.inl hj)
      · exact Or.inr hj
      · exact Or.inl (Or.inr hj)
    rcases this with hj' | hj'
    · exact h.balanced j hj' hjc
    · rw [hj'] at hjc ⊢; exact admitted_insAmt s lh (e.tx i) hadm hjc
  · have := h.conservation
    omega
  · rw [htot, coinbasePaid_append, h.supply]
    simp [coinbasePaid]

/-- S4 — a pending transaction that nobody cites is undone -/
theorem LedSum_undoPending (e : Env) (s : St) (C P : List Nat) (t : Nat) (h : LedSum e s C P) (ht : t ∈ P)
    (hnc : ∀ j ∈ C ++ P, ∀ r ∈ (e.tx j).ins, r.tx ≠ t) :
    LedSum e (undoTx e s (e.tx t)) C (P.filter (fun x => x != t)) := by
  have hl := h.led
  have htA : t ∈ C ++ P := List.mem_append_right _ ht
  have hcb := h.poolNonCoinbase t ht
  obtain ⟨n1, n2, n3⟩ := undoTx_sum e s (e.tx t) h.nodupU (applied_of_Led e s C P t hl htA hnc)
  have hsplit : poolFees e P = feeOf (e.tx t).outs + poolFees e (P.filter (fun x => x != t)) :=
    XV.InvList.sum_filter_ne _ P t (List.nodup_append.mp hl.nodupA).2.1 ht
  have hbal := h.balanced t htA hcb
  have hos := outSum_split (e.tx t).outs
  have hcons := h.conservation
  have htot : (undoTx e s (e.tx t)).total = s.total := by
    rw [n3]; simp [hcb]
  refine ⟨n1, Led_undoPending e s C P t hl ht hnc, ?_, h.awardShape, ?_, ?_, by rw [htot]; exact h.supply⟩
  · intro j hj; exact h.poolNonCoinbase j (List.mem_filter.mp hj).1
  · intro j hj hjc
    apply h.balanced j _ hjc
    rcases List.mem_append.mp hj with hj | hj
    · exact List.mem_append_left _ hj
    · exact List.mem_append_right _ (List.mem_filter.mp hj).1
  · rw [n2, htot]; omega

theorem matSlot_false_of_feeSlot (t : Tx) (idx : Nat) (h : feeSlot t idx = true) : matSlot t idx = false := by
  cases hm : matSlot t idx
  · rfl
  · rw [feeSlot_matSlot t idx hm] at h; cases h

/-- S5 — a confirmed transaction that nobody cites is undone (the transaction, then its fee) -/
theorem LedSum_undoConfirmed (e : Env) (s : St) (C P : List Nat) (t : Nat) (h : LedSum e s C P) (ht : t ∈ C)
    (hnc : ∀ j ∈ C ++ P, ∀ r ∈ (e.tx j).ins, r.tx ≠ t) :
    LedSum e (undoPayFee (e.tx t) (e.tx t).outs 0 (undoTx e s (e.tx t))) (C.filter (fun x => x != t)) P := by
  have hl := h.led
  have htA : t ∈ C ++ P := List.mem_append_left _ ht
  have hid := hl.idEq t htA
  have hself : ∀ r ∈ (e.tx t).ins, r.tx ≠ (e.tx t).id := by rw [hid]; exact hl.noSelf t htA
  obtain ⟨n1, n2, n3⟩ := undoTx_sum e s (e.tx t) h.nodupU (applied_of_Led e s C P t hl htA hnc)
  obtain ⟨f1, f2⟩ := undoPayFee_sum (e.tx t) (e.tx t).outs 0 (undoTx e s (e.tx t)) n1
    (fun idx o ho hd => by
      simp only [Nat.zero_add]
      have hf : feeSlot (e.tx t) idx = true := feeSlot_of_get (e.tx t) idx o ho hd
      rw [undoTx_lookup_nonmat e s (e.tx t) idx hself (matSlot_false_of_feeSlot _ _ hf), hid]
      rcases hl.outs t htA idx (Or.inr ⟨ht, hf⟩) with ⟨u, hu, hamt⟩ | ⟨j, hj, r, hr, hrt, _⟩
      · refine ⟨u, hu, ?_⟩
        rw [hamt]; unfold slotAmt; rw [ho]
      · exact absurd hrt (hnc j hj r hr))
  have hft : (undoPayFee (e.tx t) (e.tx t).outs 0 (undoTx e s (e.tx t))).total = (undoTx e s (e.tx t)).total :=
    (undoPayFee_frame (e.tx t) (e.tx t).outs 0 (undoTx e s (e.tx t))).2.2.1
  have hsplit : coinbasePaid e C = (if (e.tx t).coinbase then paidOf (e.tx t).outs else 0) +
      coinbasePaid e (C.filter (fun x => x != t)) :=
    XV.InvList.sum_filter_ne _ C t (List.nodup_append.mp hl.nodupA).1 ht
  have hos := outSum_split (e.tx t).outs
  have hcons := h.conservation
  have hsup := h.supply
  refine ⟨f1, Led_undoConfirmed e s C P t hl ht hnc, h.poolNonCoinbase, ?_, ?_, ?_, ?_⟩
  · intro j hj hjc; exact h.awardShape j (List.mem_filter.mp hj).1 hjc
  · intro j hj hjc
    apply h.balanced j _ hjc
    rcases List.mem_append.mp hj with hj | hj
    · exact List.mem_append_left _ (List.mem_filter.mp hj).1
    · exact List.mem_append_right _ hj
  · rw [f2, hft, n2, n3]
    by_cases hc : (e.tx t).coinbase = true
    · obtain ⟨a1, a2⟩ := h.awardShape t ht hc
      simp only [hc, ↓reduceIte, a1, a2, insAmt, List.map_nil, List.sum_nil]
      omega
    · have hc' : (e.tx t).coinbase = false := by simpa using hc
      have hbal := h.balanced t htA hc'
      simp only [hc', Bool.false_eq_true, ↓reduceIte]
      omega
  · rw [hft, n3]
    by_cases hc : (e.tx t).coinbase = true
    · simp only [hc, ↓reduceIte] at hsplit ⊢; omega
    · have hc' : (e.tx t).coinbase = false := by simpa using hc
      simp only [hc', Bool.false_eq_true, ↓reduceIte] at hsplit ⊢; omega

/-- **`doTx` keeps the ledger invariant.** No freshness hypothesis: only that `e.tx i` has id `i`, that a confirmed
transaction is not submitted again and that no coinbase is submitted — and only for an admitted transaction. -/
theorem doTx_Ledger (e : Env) (s : St) (lh : Int) (i : Nat) (C : List Nat) (h : Ledger e s C)
    (hyp : (doTx e s lh i).2 = .ok → (e.tx i).id = i ∧ i ∉ C ∧ (e.tx i).coinbase = false) :
    Ledger e (doTx e s lh i).1 C := by
  by_cases hok : (doTx e s lh i).2 = .ok
  · obtain ⟨hnp, hadm, hs'⟩ := XV.C03.doTx_ok e s lh i hok
    obtain ⟨hid, hiC, hcb⟩ := hyp hok
    have hnot : i ∉ C ++ s.pool := by
      intro hm
      rcases List.mem_append.mp hm with hm | hm
      · exact hiC hm
      · exact hnp hm
    have := LedSum_addPending e s lh C s.pool i h hnot hid hcb hadm
    rw [hs']
    exact LedSum.congr this rfl rfl
  · rw [XV.C05.doTx_fail_noop e s lh i hok]; exact h

theorem order_weaken (e : Env) (P txs : List Nat) (h : txs.Pairwise (fun a b => ∀ r ∈ (e.tx a).ins, r.tx ≠ b)) :
    txs.Pairwise (fun a b => b ∈ P → ∀ r ∈ (e.tx a).ins, r.tx ≠ b) := by
  induction txs with
  | nil => exact List.Pairwise.nil
  | cons a r ih =>
    simp only [List.pairwise_cons] at h
    exact List.Pairwise.cons (fun b hb _ => h.1 b hb) (ih h.2)

theorem order_nil (e : Env) (txs : List Nat) :
    txs.Pairwise (fun a b => b ∈ ([] : List Nat) → ∀ r ∈ (e.tx a).ins, r.tx ≠ b) := by
  induction txs with
  | nil => exact List.Pairwise.nil
  | cons a r ih => exact List.Pairwise.cons (fun b _ hb => by cases hb) ih

/-- **the transactions of a block keep the ledger invariant**: the block's transactions join the confirmed log in block
order; the pending ones among them leave the pool. Hypotheses: ids pairwise distinct, `e.tx i` has id `i`, none already
confirmed; a new coinbase has no inputs and no fee; the block is valid on the chain alone — it contains the pending
transactions its transactions cite (`hparents`) and no transaction cites a later *pending* one of the block (`hord`). -/
theorem blockRun_LedSum (e : Env) (lh : Int) (prop : String) (isPool : Nat → Bool) (txs : List Nat) (s s2 : St)
    (C P : List Nat) (hrun : blockRun e lh prop isPool txs s s2) (h : LedSum e s C P)
    (hnd : txs.Nodup) (hid : ∀ i ∈ txs, (e.tx i).id = i)
    (hpool : ∀ i ∈ txs, (isPool i = true ↔ i ∈ P))
    (hnewC : ∀ i ∈ txs, i ∉ C)
    (haward : ∀ i ∈ txs, isPool i = false → (e.tx i).coinbase = true →
      (e.tx i).ins = [] ∧ feeOf (e.tx i).outs = 0)
    (hparents : ∀ i ∈ txs, ∀ r ∈ (e.tx i).ins, r.tx ∈ P → r.tx ∈ txs)
    (hord : txs.Pairwise (fun a b => b ∈ P → ∀ r ∈ (e.tx a).ins, r.tx ≠ b)) :
    LedSum e s2 (C ++ txs) (P.filter (fun x => !txs.contains x)) := by
  induction txs generalizing s C P with
  | nil =>
    simp only [blockRun] at hrun
    subst hrun
    have : P.filter (fun x => !([] : List Nat).contains x) = P := by
      apply List.filter_eq_self.mpr; intro a _; simp
    rw [this, List.append_nil]; exact h
  | cons i rest ih =>
    simp only [List.nodup_cons] at hnd
    simp only [List.pairwise_cons] at hord
    have hid' : ∀ j ∈ rest, (e.tx j).id = j := fun j hj => hid j (List.mem_cons_of_mem _ hj)
    have hne : ∀ j ∈ rest, j ≠ i := fun j hj e2 => hnd.1 (e2 ▸ hj)
    unfold blockRun at hrun
    by_cases hp : isPool i = true
    · have hiP : i ∈ P := (hpool i List.mem_cons_self).mp hp
      have hnp : ∀ r ∈ (e.tx i).ins, r.tx ∉ P := by
        intro r hr hrP
        rcases List.mem_cons.mp (hparents i List.mem_cons_self r hr hrP) with h1 | h1
        · exact h.led.noSelf i (List.mem_append_right _ hiP) r hr h1
        · exact hord.1 r.tx h1 hrP r hr rfl
      simp only [hp, ↓reduceIte] at hrun
      have hstep := LedSum_confirmPending e s prop C P i h hiP hnp
      have hmemP' : ∀ x, x ∈ P.filter (fun x => x != i) ↔ x ∈ P ∧ x ≠ i := by
        intro x; simp only [List.mem_filter, bne_iff_ne, ne_eq]
      have := ih _ (C ++ [i]) (P.filter (fun x => x != i)) hrun hstep hnd.2 hid'
        (fun j hj => by
          rw [hmemP', hpool j (List.mem_cons_of_mem _ hj)]
          exact ⟨fun hh => ⟨hh, hne j hj⟩, fun hh => hh.1⟩)
        (fun j hj hm => by
          rcases List.mem_append.mp hm with hm | hm
          · exact hnewC j (List.mem_cons_of_mem _ hj) hm
          · simp only [List.mem_cons, List.not_mem_nil, or_false] at hm; exact hne j hj hm)
        (fun j hj => haward j (List.mem_cons_of_mem _ hj))
        (fun j hj r hr hrP => by
          obtain ⟨h1, h2⟩ := (hmemP' r.tx).mp hrP
          rcases List.mem_cons.mp (hparents j (List.mem_cons_of_mem _ hj) r hr h1) with h3 | h3
          · exact absurd h3 h2
          · exact h3)
        (List.Pairwise.imp (R := fun a b => b ∈ P → ∀ r ∈ (e.tx a).ins, r.tx ≠ b)
          (fun hab hb => hab ((hmemP' _).mp hb).1) hord.2)
      have hfil : (P.filter (fun x => x != i)).filter (fun x => !rest.contains x) =
          P.filter (fun x => !(i :: rest).contains x) := by
        rw [List.filter_filter]
        apply List.filter_congr
        intro x _
        by_cases hx : x = i
        · simp [hx]
        · simp [hx]
      rw [hfil, List.append_assoc] at this
      exact this
    · have hp' : isPool i = false := by simpa using hp
      have hiP : i ∉ P := fun hh => hp ((hpool i List.mem_cons_self).mpr hh)
      have hnot : i ∉ C ++ P := by
        intro hm
        rcases List.mem_append.mp hm with hm | hm
        · exact hnewC i List.mem_cons_self hm
        · exact hiP hm
      have hnp : ∀ r ∈ (e.tx i).ins, r.tx ∉ P := by
        intro r hr hrP
        rcases List.mem_cons.mp (hparents i List.mem_cons_self r hr hrP) with h1 | h1
        · exact hiP (h1 ▸ hrP)
        · exact hord.1 r.tx h1 hrP r hr rfl
      simp only [hp, Bool.false_eq_true, ↓reduceIte] at hrun
      have hstep := LedSum_confirmNew e s lh prop C P i h hnot (hid i List.mem_cons_self) hrun.1
        (haward i List.mem_cons_self hp') hnp
      have := ih _ (C ++ [i]) P hrun.2 hstep hnd.2 hid'
        (fun j hj => hpool j (List.mem_cons_of_mem _ hj))
        (fun j hj hm => by
          rcases List.mem_append.mp hm with hm | hm
          · exact hnewC j (List.mem_cons_of_mem _ hj) hm
          · simp only [List.mem_cons, List.not_mem_nil, or_false] at hm; exact hne j hj hm)
        (fun j hj => haward j (List.mem_cons_of_mem _ hj))
        (fun j hj r hr hrP => by
          rcases List.mem_cons.mp (hparents j (List.mem_cons_of_mem _ hj) r hr hrP) with h3 | h3
          · exact absurd (h3 ▸ hrP) hiP
          · exact h3)
        hord.2
      have hfil : P.filter (fun x => !rest.contains x) = P.filter (fun x => !(i :: rest).contains x) := by
        apply List.filter_congr
        intro x hx
        have : x ≠ i := fun e2 => hiP (e2 ▸ hx)
        simp [this]
      rw [hfil, List.append_assoc] at this
      exact this

/-- **eviction / roll-back under the ledger invariant** (see `undoFold_LiveSum`): pending transactions are undone in an
order in which each is undone after every pending transaction that cites it; confirmed ones never cite pending ones -/
theorem undoFold_LedSum (e : Env) (ev : List Nat) (s : St) (C P : List Nat) (h : LedSum e s C P)
    (hnd : ev.Nodup) (hsub : ∀ t ∈ ev, t ∈ P)
    (hord : ev.Pairwise (fun a b => ∀ r ∈ (e.tx b).ins, r.tx ≠ a))
    (hclosed : ∀ t ∈ ev, ∀ j ∈ P, (∃ r ∈ (e.tx j).ins, r.tx = t) → j ∈ ev) :
    LedSum e (ev.foldl (fun st i => undoTx e st (e.tx i)) s) C (P.filter (fun x => !ev.contains x)) := by
  induction ev generalizing s P with
  | nil =>
    have : P.filter (fun x => !([] : List Nat).contains x) = P := by
      apply List.filter_eq_self.mpr; intro a _; simp
    rw [this]; exact h
  | cons t rest ih =>
    simp only [List.nodup_cons] at hnd
    simp only [List.pairwise_cons] at hord
    have htP := hsub t List.mem_cons_self
    have hnc : ∀ j ∈ C ++ P, ∀ r ∈ (e.tx j).ins, r.tx ≠ t := by
      intro j hj r hr hrt
      rcases List.mem_append.mp hj with hjC | hjP
      · exact (List.pairwise_append.mp h.led.order).2.2 j hjC t htP r hr hrt
      · rcases List.mem_cons.mp (hclosed t List.mem_cons_self j hjP ⟨r, hr, hrt⟩) with hjt | hjr
        · exact h.led.noSelf j hj r hr (hrt.trans hjt.symm)
        · exact hord.1 j hjr r hr hrt
    have hstep := LedSum_undoPending e s C P t h htP hnc
    have hmem : ∀ x, x ∈ P.filter (fun x => x != t) ↔ x ∈ P ∧ x ≠ t := by
      intro x; simp only [List.mem_filter, bne_iff_ne, ne_eq]
    have := ih (undoTx e s (e.tx t)) (P.filter (fun x => x != t)) hstep hnd.2
      (fun t' ht' => (hmem t').mpr ⟨hsub t' (List.mem_cons_of_mem _ ht'), fun e2 => hnd.1 (e2 ▸ ht')⟩)
      hord.2
      (fun t' ht' j hj hc => by
        obtain ⟨hjP, hjt⟩ := (hmem j).mp hj
        rcases List.mem_cons.mp (hclosed t' (List.mem_cons_of_mem _ ht') j hjP hc) with h1 | h1
        · exact absurd h1 hjt
        · exact h1)
    simp only [List.foldl_cons]
    have hfil : (P.filter (fun x => x != t)).filter (fun x => !rest.contains x) =
        P.filter (fun x => !(t :: rest).contains x) := by
      rw [List.filter_filter]
      apply List.filter_congr
      intro x _
      by_cases hx : x = t
      · simp [hx]
      · simp [hx]
    rw [hfil] at this
    exact this

/-- **`play` keeps the ledger invariant**; when the block is accepted its transactions join the confirmed log.
Hypotheses: block ids pairwise distinct, `e.tx i` has id `i`, none already confirmed; a coinbase of the block has no inputs
and no fee; the block is valid on the chain alone (`hparents`, `hord`, `hdeps`, see `blockRun_LedSum` / `play_PoolLive`).
No freshness hypothesis. -/
theorem play_Ledger (e : Env) (s : St) (lh : Int) (b : Block) (C : List Nat) (h : Ledger e s C)
    (hnd : b.txs.Nodup) (hid : ∀ i ∈ b.txs, (e.tx i).id = i) (hnewC : ∀ i ∈ b.txs, i ∉ C)
    (haward : ∀ i ∈ b.txs, i ∉ s.pool → (e.tx i).coinbase = true → (e.tx i).ins = [] ∧ feeOf (e.tx i).outs = 0)
    (hparents : ∀ i ∈ b.txs, ∀ r ∈ (e.tx i).ins, r.tx ∈ s.pool → r.tx ∈ b.txs)
    (hord : b.txs.Pairwise (fun a b => ∀ r ∈ (e.tx a).ins, r.tx ≠ b))
    (hdeps : ∀ c ∈ b.txs, c ∈ s.pool → ∀ p ∈ s.pool, dependsOn e s.pool c p = true → p ∈ b.txs) :
    Ledger e (play e s lh b).1 (if (play e s lh b).2 = .ok then C ++ b.txs else C) := by
  by_cases hok : (play e s lh b).2 = .ok
  · rw [if_pos hok]
    obtain ⟨s2, happ, hshape⟩ := play_ok e s lh b hok (fun x hx => (playEvict_outside e s b hdeps x hx).2)
    rw [hshape]
    have hl := h.led
    obtain ⟨_, hndP, _⟩ := List.nodup_append.mp hl.nodupA
    obtain ⟨_, hoP, _⟩ := List.pairwise_append.mp hl.order
    have hevP : ∀ x ∈ playEvict e s b, x ∈ s.pool ∧ x ∉ b.txs := by
      apply closure_induct e s.pool (fun x => x ∈ s.pool ∧ x ∉ b.txs)
      · intro x hx
        have h1 := (List.mem_filter.mp hx).1
        have h2 := List.mem_filter.mp h1
        exact ⟨h2.1, by simpa using h2.2⟩
      · intro c hc p hp hd
        exact ⟨hc, fun hct => hp.2 (hdeps c hct hc p (dependsOn_parent_mem e s.pool c p hd) hd)⟩
    have hevC : ∀ p ∈ playEvict e s b, ∀ c ∈ s.pool, dependsOn e s.pool c p = true → c ∈ playEvict e s b :=
      closure_closed e s.pool s.pool.length _ (List.length_filter_le _ _)
    have hndr : s.pool.reverse.Nodup := by
      unfold List.Nodup
      rw [List.pairwise_reverse]
      exact List.Pairwise.imp (fun h => fun e2 => h e2.symm) hndP
    have hevmem : ∀ x, x ∈ s.pool.reverse.filter (fun i => (playEvict e s b).contains i) ↔
        x ∈ s.pool ∧ x ∈ playEvict e s b := by
      intro x; simp only [List.mem_filter, List.mem_reverse, List.contains_eq_mem, decide_eq_true_eq]
    have hL1 := undoFold_LedSum e (s.pool.reverse.filter (fun i => (playEvict e s b).contains i)) s C s.pool h
      (List.Nodup.sublist List.filter_sublist hndr)
      (fun t ht => ((hevmem t).mp ht).1)
      (List.Pairwise.filter _ (by rw [List.pairwise_reverse]; exact hoP))
      (fun t ht j hj hc => by
        obtain ⟨r, hr, hrt⟩ := hc
        obtain ⟨htp, hte⟩ := (hevmem t).mp ht
        refine (hevmem j).mpr ⟨hj, hevC t hte j hj ?_⟩
        have hjt : j ≠ t := fun e2 => hl.noSelf j (List.mem_append_right _ hj) r hr (hrt.trans e2.symm)
        unfold dependsOn
        simp only [Bool.and_eq_true, Bool.or_eq_true, List.any_eq_true, bne_iff_ne, ne_eq,
          List.contains_eq_mem, decide_eq_true_eq, beq_iff_eq]
        exact ⟨⟨hjt, htp⟩, Or.inl (Or.inl ⟨r, hr, hrt⟩)⟩)
    have hL1mem : ∀ x, x ∈ s.pool.filter
        (fun x => !(s.pool.reverse.filter (fun i => (playEvict e s b).contains i)).contains x) ↔
        x ∈ s.pool ∧ x ∉ playEvict e s b := by
      intro x
      simp only [List.mem_filter, List.contains_eq_mem, List.mem_reverse, decide_eq_true_eq,
        Bool.not_eq_eq_eq_not, Bool.not_true, decide_eq_false_iff_not, not_and]
      constructor
      · intro ⟨h1, h2⟩; exact ⟨h1, h2 h1⟩
      · intro ⟨h1, h2⟩; exact ⟨h1, fun _ => h2⟩
    have hrun := applyBlockTxs_run e lh b.prop _ b.txs _ s2 happ
    have hfin := blockRun_LedSum e lh b.prop _ b.txs (playUndone e s b) s2 C _ hrun hL1 hnd hid
      (fun i hi => by
        rw [hL1mem]
        simp only [List.contains_eq_mem, List.mem_filter, decide_eq_true_eq]
        constructor
        · intro ⟨hp, _⟩; exact ⟨hp, fun he => (hevP i he).2 hi⟩
        · intro ⟨hp, _⟩; exact ⟨hp, hi⟩)
      hnewC
      (fun i hi hp => by
        have hnp : i ∉ s.pool := by
          intro hip
          simp only [List.contains_eq_mem, List.mem_filter, decide_eq_true_eq, hip, hi, and_self,
            decide_true, Bool.true_eq_false] at hp
        exact haward i hi hnp)
      (fun i hi r hr hrL => hparents i hi r hr ((hL1mem r.tx).mp hrL).1)
      (order_weaken e _ b.txs hord)
    have hpool : s.pool.filter (fun i => !b.txs.contains i && !(playEvict e s b).contains i) =
        (s.pool.filter (fun x => !(s.pool.reverse.filter (fun i => (playEvict e s b).contains i)).contains x)).filter
          (fun x => !b.txs.contains x) := by
      rw [List.filter_filter]
      apply List.filter_congr
      intro x hx
      have : (s.pool.reverse.filter (fun i => (playEvict e s b).contains i)).contains x =
          (playEvict e s b).contains x := by
        by_cases hxe : x ∈ playEvict e s b
        · simp [hxe, hx]
        · simp [hxe]
      rw [this]
    unfold Ledger
    simp only
    rw [hpool]
    exact LedSum.congr hfin rfl rfl
  · rw [if_neg hok, XV.C05.play_fail_noop e s lh b hok]; exact h

/-- **`playForMiner` keeps the ledger invariant** (the miner's own block: the award plus pending transactions) -/
theorem playForMiner_Ledger (e : Env) (s : St) (lh : Int) (b : Block) (C : List Nat) (h : Ledger e s C)
    (hnd : b.txs.Nodup) (hid : ∀ i ∈ b.txs, (e.tx i).id = i) (hnewC : ∀ i ∈ b.txs, i ∉ C)
    (hsub : ∀ i ∈ b.txs, (e.tx i).coinbase = false → i ∈ s.pool)
    (haward : ∀ i ∈ b.txs, (e.tx i).coinbase = true → (e.tx i).ins = [] ∧ feeOf (e.tx i).outs = 0)
    (hparents : ∀ i ∈ b.txs, ∀ r ∈ (e.tx i).ins, r.tx ∈ s.pool → r.tx ∈ b.txs)
    (hord : b.txs.Pairwise (fun a b => ∀ r ∈ (e.tx a).ins, r.tx ≠ b)) :
    Ledger e (playForMiner e s lh b).1 (if (playForMiner e s lh b).2 = .ok then C ++ b.txs else C) := by
  unfold playForMiner
  by_cases h1 : b.pre ≠ some s.pointer
  · rw [if_pos h1]; simp only [reduceCtorEq, ↓reduceIte]; exact h
  · rw [if_neg h1]
    cases hgo : playForMiner.go e lh b b.txs s with
    | none => simp only [reduceCtorEq, ↓reduceIte]; exact h
    | some s2 =>
      simp only [↓reduceIte]
      have hrun := playForMiner_go_run e lh b b.txs s s2 hgo
      have := blockRun_LedSum e lh b.prop _ b.txs s s2 C s.pool hrun h hnd hid
        (fun i hi => by
          constructor
          · intro hp; exact hsub i hi (by simpa using hp)
          · intro hp; simp [h.poolNonCoinbase i hp])
        hnewC
        (fun i hi _ hc => haward i hi hc)
        hparents (order_weaken e _ b.txs hord)
      exact LedSum.congr this rfl rfl

theorem undoFold_pool (e : Env) (rtxs : List Nat) (s : St) :
    (rtxs.foldl (fun st i => let t := e.tx i; undoPayFee t t.outs 0 (undoTx e st t)) s).pool = s.pool := by
  induction rtxs generalizing s with
  | nil => rfl
  | cons t rest ih =>
    simp only [List.foldl_cons]
    rw [ih]
    exact (undoPayFee_frame _ _ _ _).2.2.2.2.2.trans (undoTx_frame e s (e.tx t)).2.2

/-- undoing the confirmed transactions `rtxs` (newest first) that end the confirmed log, with an empty pool -/
theorem undoConfFold_LedSum (e : Env) (rtxs : List Nat) (s : St) (C0 : List Nat)
    (h : LedSum e s (C0 ++ rtxs.reverse) []) :
    LedSum e (rtxs.foldl (fun st i => let t := e.tx i; undoPayFee t t.outs 0 (undoTx e st t)) s) C0 [] := by
  induction rtxs generalizing s with
  | nil => simpa using h
  | cons t rest ih =>
    simp only [List.foldl_cons]
    apply ih
    have hC : C0 ++ (t :: rest).reverse = (C0 ++ rest.reverse) ++ [t] := by
      rw [List.reverse_cons, List.append_assoc]
    rw [hC] at h
    have hl := h.led
    have hnd : ((C0 ++ rest.reverse) ++ [t]).Nodup := by simpa using hl.nodupA
    have hord : ((C0 ++ rest.reverse) ++ [t]).Pairwise (fun a b => ∀ r ∈ (e.tx a).ins, r.tx ≠ b) := by
      simpa using hl.order
    have htX : t ∉ C0 ++ rest.reverse := fun hm => (List.nodup_append.mp hnd).2.2 t hm t (by simp) rfl
    have hnc : ∀ j ∈ ((C0 ++ rest.reverse) ++ [t]) ++ [], ∀ r ∈ (e.tx j).ins, r.tx ≠ t := by
      intro j hj r hr
      rw [List.append_nil] at hj
      rcases List.mem_append.mp hj with hj' | hj'
      · exact (List.pairwise_append.mp hord).2.2 j hj' t (by simp) r hr
      · simp only [List.mem_cons, List.not_mem_nil, or_false] at hj'
        rw [hj'] at hr
        exact hl.noSelf t (by simp) r hr
    have := LedSum_undoConfirmed e s ((C0 ++ rest.reverse) ++ [t]) [] t h (by simp) hnc
    rw [filter_ne_append_self _ t htX] at this
    exact this

/-- **undoing the tip block keeps the ledger invariant** (empty pool: `walk` rolls the pool back first): the block's
transactions leave the confirmed log -/
theorem undoBlock_Ledger (e : Env) (s : St) (b : Block) (prune : Bool) (C0 : List Nat)
    (h : Ledger e s (C0 ++ b.txs)) (hp : s.pool = []) :
    Ledger e (undoBlock e s b prune) C0 ∧ (undoBlock e s b prune).pool = [] := by
  unfold Ledger at h
  rw [hp] at h
  have hrev : C0 ++ b.txs = C0 ++ b.txs.reverse.reverse := by rw [List.reverse_reverse]
  rw [hrev] at h
  have hfold := undoConfFold_LedSum e b.txs.reverse s C0 h
  have hpool := undoFold_pool e b.txs.reverse s
  unfold undoBlock Ledger
  simp only
  rw [hpool, hp]
  exact ⟨LedSum.congr hfold rfl rfl, rfl⟩

/-- **applying a block during a walk keeps the ledger invariant** (empty pool) -/
theorem todoBlock_Ledger (e : Env) (s s' : St) (lh : Int) (b : Block) (C : List Nat)
    (hs : todoBlock e s lh b = some s') (h : Ledger e s C) (hp : s.pool = [])
    (hnd : b.txs.Nodup) (hid : ∀ i ∈ b.txs, (e.tx i).id = i) (hnewC : ∀ i ∈ b.txs, i ∉ C)
    (haward : ∀ i ∈ b.txs, (e.tx i).coinbase = true → (e.tx i).ins = [] ∧ feeOf (e.tx i).outs = 0) :
    Ledger e s' (C ++ b.txs) ∧ s'.pool = [] := by
  unfold todoBlock at hs
  split at hs
  · cases hs
  · split at hs
    · rename_i s2 happ
      simp only [Option.some.injEq] at hs
      subst hs
      have hrun := applyBlockTxs_run e lh b.prop [] b.txs s s2 happ
      obtain ⟨fpool, _, _⟩ := blockRun_frame _ _ _ _ _ _ _ hrun
      unfold Ledger at h
      rw [hp] at h
      have := blockRun_LedSum e lh b.prop _ b.txs s s2 C [] hrun h hnd hid
        (fun i _ => by simp) hnewC (fun i hi _ hc => haward i hi hc)
        (fun i _ r _ hr => by cases hr)
        (order_nil e b.txs)
      have hp2 : s2.pool = [] := by rw [fpool, hp]
      unfold Ledger
      simp only [hp2]
      simp only [List.filter_nil] at this
      exact ⟨LedSum.congr this rfl rfl, trivial⟩
    · cases hs

-- ---------------------------------------------------------------- walk

/-- the transactions of a list of blocks, in order -/
def blockTxs (e : Env) (l : List Nat) : List Nat := l.flatMap (fun bi => (e.block bi).txs)

theorem blockTxs_cons (e : Env) (bi : Nat) (l : List Nat) : blockTxs e (bi :: l) = (e.block bi).txs ++ blockTxs e l := by
  unfold blockTxs; simp

theorem blockTxs_snoc (e : Env) (bi : Nat) (l : List Nat) : blockTxs e (l ++ [bi]) = blockTxs e l ++ (e.block bi).txs := by
  unfold blockTxs; simp

theorem walk_shape (e : Env) (s : St) (lh : Int) (dest : Nat) (prune : Bool) :
    walk e s lh dest prune =
      (let s0 : St := { (s.pool.reverse.foldl (fun st i => undoTx e st (e.tx i)) s) with pool := [] }
       let ut := undoTodo e s.pointer dest
       let r1 := walk.undoAll e prune ut.1 s0
       if !r1.2 then (r1.1, false) else
       let r2 := walk.todoAll e lh ut.2 r1.1
       if !r2.2 then (r2.1, false) else
       ((repostList e s).foldl (fun st i => (doTx e st lh i).1) r2.1, true)) := by rfl

/-- step 2 of `walk`: the blocks to undo are the blocks that end the confirmed log (newest first) -/
theorem undoAll_Ledger (e : Env) (prune : Bool) (undo : List Nat) (st : St) (C0 : List Nat)
    (h : Ledger e st (C0 ++ blockTxs e undo.reverse)) (hp : st.pool = []) :
    ∃ C', Ledger e (walk.undoAll e prune undo st).1 C' ∧ (walk.undoAll e prune undo st).1.pool = [] ∧
      ((walk.undoAll e prune undo st).2 = true → C' = C0) := by
  induction undo generalizing st with
  | nil =>
    unfold walk.undoAll
    exact ⟨C0, by simpa [blockTxs] using h, hp, fun _ => rfl⟩
  | cons bi rest ih =>
    unfold walk.undoAll
    simp only
    split
    · exact ⟨_, h, hp, by simp⟩
    · rw [List.reverse_cons, blockTxs_snoc, ← List.append_assoc] at h
      obtain ⟨h1, h2⟩ := undoBlock_Ledger e st (e.block bi) prune _ h hp
      exact ih _ h1 h2

/-- step 3 of `walk`: the blocks to apply carry transactions with pairwise distinct ids not yet confirmed, a coinbase has
no inputs and no fee (that no transaction cites a later one of its block follows from admission here: the pool is empty) -/
theorem todoAll_Ledger (e : Env) (lh : Int) (todo : List Nat) (st : St) (C : List Nat)
    (h : Ledger e st C) (hp : st.pool = [])
    (hnd : (C ++ blockTxs e todo).Nodup)
    (hblk : ∀ bi ∈ todo, (∀ i ∈ (e.block bi).txs, (e.tx i).id = i) ∧
      (∀ i ∈ (e.block bi).txs, (e.tx i).coinbase = true → (e.tx i).ins = [] ∧ feeOf (e.tx i).outs = 0)) :
    ∃ C', Ledger e (walk.todoAll e lh todo st).1 C' ∧ (walk.todoAll e lh todo st).1.pool = [] ∧
      ((walk.todoAll e lh todo st).2 = true → C' = C ++ blockTxs e todo) := by
  induction todo generalizing st C with
  | nil =>
    unfold walk.todoAll
    exact ⟨C, h, hp, fun _ => by simp [blockTxs]⟩
  | cons bi rest ih =>
    unfold walk.todoAll
    rw [blockTxs_cons] at hnd ⊢
    obtain ⟨b1, b2⟩ := hblk bi List.mem_cons_self
    cases htb : todoBlock e st lh (e.block bi) with
    | none => exact ⟨C, h, hp, by simp⟩
    | some st' =>
      simp only
      obtain ⟨hndC, hndR, hdis⟩ := List.nodup_append.mp hnd
      obtain ⟨t1, t2⟩ := todoBlock_Ledger e st st' lh (e.block bi) C htb h hp
        (List.nodup_append.mp hndR).1 b1
        (fun i hi hc => hdis i hc i (List.mem_append_left _ hi) rfl) b2
      obtain ⟨C', c1, c2, c3⟩ := ih st' (C ++ (e.block bi).txs) t1 t2 (by rw [List.append_assoc]; exact hnd)
        (fun bj hbj => hblk bj (List.mem_cons_of_mem _ hbj))
      exact ⟨C', c1, c2, fun hok => by rw [c3 hok, List.append_assoc]⟩

/-- step 4 of `walk`: the rolled-back pool is re-submitted. A transaction that is confirmed on the new chain is not
re-admitted, because its inputs are spent — provided it has an input at all (`hyp`, third part) -/
theorem readmit_Ledger (e : Env) (lh : Int) (pool : List Nat) (st : St) (C : List Nat) (h : Ledger e st C)
    (hyp : ∀ i ∈ pool, (e.tx i).id = i ∧ (e.tx i).coinbase = false ∧ (i ∈ C → (e.tx i).ins ≠ [])) :
    Ledger e (pool.foldl (fun st i => (doTx e st lh i).1) st) C := by
  induction pool generalizing st with
  | nil => exact h
  | cons i rest ih =>
    simp only [List.foldl_cons]
    apply ih _ _ (fun j hj => hyp j (List.mem_cons_of_mem _ hj))
    apply doTx_Ledger e st lh i C h
    intro hok
    obtain ⟨y1, y2, y3⟩ := hyp i List.mem_cons_self
    refine ⟨y1, ?_, y2⟩
    intro hiC
    obtain ⟨r, hr⟩ := List.exists_mem_of_ne_nil _ (y3 hiC)
    obtain ⟨_, hadm, _⟩ := XV.C03.doTx_ok e st lh i hok
    obtain ⟨u, hu, _⟩ := (XV.C03.admit_sound st lh (e.tx i) hadm).1 r hr
    rw [h.led.insSpent i (List.mem_append_left _ hiC) r hr] at hu
    cases hu

/-- **the block part of `walk` (roll-back of the pool, undo loop, apply loop: `walkCore`) keeps the ledger invariant**,
whatever its outcome: the pool is rolled back, the blocks that end the confirmed log are undone (`hundo` ties the ghost log
to the blocks `walk` undoes), the blocks of the new branch are applied (`hnd`, `hblk`: distinct ids not confirmed below the
fork, award shape). The pool is empty afterwards. -/
theorem walkCore_Ledger (e : Env) (s : St) (lh : Int) (dest : Nat) (prune : Bool) (C C0 : List Nat) (h : Ledger e s C)
    (hundo : C = C0 ++ blockTxs e (undoTodo e s.pointer dest).1.reverse)
    (hnd : (C0 ++ blockTxs e (undoTodo e s.pointer dest).2).Nodup)
    (hblk : ∀ bi ∈ (undoTodo e s.pointer dest).2, (∀ i ∈ (e.block bi).txs, (e.tx i).id = i) ∧
      (∀ i ∈ (e.block bi).txs, (e.tx i).coinbase = true → (e.tx i).ins = [] ∧ feeOf (e.tx i).outs = 0)) :
    ∃ C', Ledger e (XV.Crash.walkCore e s lh dest prune).1 C' ∧
      ((XV.Crash.walkCore e s lh dest prune).2 = true → C' = C0 ++ blockTxs e (undoTodo e s.pointer dest).2) := by
  unfold XV.Crash.walkCore XV.Crash.rolledBack
  simp only
  -- step 1: roll the pool back
  have hl := h.led
  obtain ⟨_, hndP, _⟩ := List.nodup_append.mp hl.nodupA
  obtain ⟨_, hoP, _⟩ := List.pairwise_append.mp hl.order
  have hndr : s.pool.reverse.Nodup := by
    unfold List.Nodup
    rw [List.pairwise_reverse]
    exact List.Pairwise.imp (fun h => fun e2 => h e2.symm) hndP
  have hfold := undoFold_LedSum e s.pool.reverse s C s.pool h hndr (fun t ht => List.mem_reverse.mp ht)
    (by rw [List.pairwise_reverse]; exact hoP) (fun t _ j hj _ => List.mem_reverse.mpr hj)
  have hnil : s.pool.filter (fun x => !s.pool.reverse.contains x) = [] := by
    apply List.filter_eq_nil_iff.mpr; intro a ha; simp [ha]
  rw [hnil] at hfold
  have h0 : Ledger e { (s.pool.reverse.foldl (fun st i => undoTx e st (e.tx i)) s) with pool := [] }
      (C0 ++ blockTxs e (undoTodo e s.pointer dest).1.reverse) := by
    rw [← hundo]; exact LedSum.congr hfold rfl rfl
  -- step 2: undo blocks
  obtain ⟨C1, u1, u2, u3⟩ := undoAll_Ledger e prune (undoTodo e s.pointer dest).1 _ C0 h0 rfl
  cases hr1 : (walk.undoAll e prune (undoTodo e s.pointer dest).1
      { (s.pool.reverse.foldl (fun st i => undoTx e st (e.tx i)) s) with pool := [] }).2 with
  | false => exact ⟨C1, by simpa [hr1] using u1, by simp [hr1]⟩
  | true =>
    simp only [hr1, Bool.not_true, Bool.false_eq_true, ↓reduceIte]
    have hC1 := u3 hr1
    rw [hC1] at u1
    -- step 3: apply blocks
    obtain ⟨C2, t1, _, t3⟩ := todoAll_Ledger e lh (undoTodo e s.pointer dest).2 _ C0 u1 u2 hnd hblk
    exact ⟨C2, t1, t3⟩

/-- **`walk` with ANY re-admission list `L` taken from the old pool keeps the ledger invariant** — the form of which
every walk theorem below is an instance (`walk e` re-admits `repostList e s`, `walk (e.withSkip l)` the old pool without
`l`).
`hre`: a re-submitted transaction that the new branch confirms has a token input (then its re-admission is refused: the
input is spent). -/
theorem walkL_Ledger (e : Env) (s : St) (lh : Int) (dest : Nat) (prune : Bool) (C C0 : List Nat) (h : Ledger e s C)
    (hundo : C = C0 ++ blockTxs e (undoTodo e s.pointer dest).1.reverse)
    (hnd : (C0 ++ blockTxs e (undoTodo e s.pointer dest).2).Nodup)
    (hblk : ∀ bi ∈ (undoTodo e s.pointer dest).2, (∀ i ∈ (e.block bi).txs, (e.tx i).id = i) ∧
      (∀ i ∈ (e.block bi).txs, (e.tx i).coinbase = true → (e.tx i).ins = [] ∧ feeOf (e.tx i).outs = 0))
    (L : List Nat) (hL : ∀ i ∈ L, i ∈ s.pool)
    (hre : ∀ i ∈ L, i ∈ C0 ++ blockTxs e (undoTodo e s.pointer dest).2 → (e.tx i).ins ≠ []) :
    ∃ C', Ledger e (if (XV.Crash.walkCore e s lh dest prune).2 = true then
          (L.foldl (fun st i => (doTx e st lh i).1) (XV.Crash.walkCore e s lh dest prune).1, true)
        else ((XV.Crash.walkCore e s lh dest prune).1, false)).1 C' ∧
      ((if (XV.Crash.walkCore e s lh dest prune).2 = true then
          (L.foldl (fun st i => (doTx e st lh i).1) (XV.Crash.walkCore e s lh dest prune).1, true)
        else ((XV.Crash.walkCore e s lh dest prune).1, false)).2 = true →
        C' = C0 ++ blockTxs e (undoTodo e s.pointer dest).2) := by
  obtain ⟨C', c1, c2⟩ := walkCore_Ledger e s lh dest prune C C0 h hundo hnd hblk
  by_cases hok : (XV.Crash.walkCore e s lh dest prune).2 = true
  · rw [if_pos hok]
    have hC := c2 hok
    rw [hC] at c1
    refine ⟨_, readmit_Ledger e lh L _ _ c1 ?_, fun _ => rfl⟩
    intro i hi
    exact ⟨h.led.idEq i (List.mem_append_right _ (hL i hi)), h.poolNonCoinbase i (hL i hi), hre i hi⟩
  · rw [if_neg hok]
    exact ⟨C', c1, fun hf => by cases hf⟩

/-- **`walk` keeps the ledger invariant**, whatever its outcome (refused undo, failing block, success) — the general form
with the dynamic hypothesis `hre`: the pool is rolled back, the blocks that end the confirmed log are undone (`hundo` ties
the ghost log to the blocks `walk` undoes), the blocks of the new branch are applied (`hnd`, `hblk`: distinct ids not
confirmed below the fork, award shape), and the rolled-back transactions of `repostList e s` (the old pool without
`e.skipRepost`; restated from `s.pool` after the repair of `recoverUnconfirmedTx`) are re-submitted (`hre`: a re-submitted
transaction that the new branch confirms has an input). `walk_Ledger` below discharges `hre` from what the ledger
guarantees of the skip list. -/
theorem walk_Ledger_hre (e : Env) (s : St) (lh : Int) (dest : Nat) (prune : Bool) (C C0 : List Nat) (h : Ledger e s C)
    (hundo : C = C0 ++ blockTxs e (undoTodo e s.pointer dest).1.reverse)
    (hnd : (C0 ++ blockTxs e (undoTodo e s.pointer dest).2).Nodup)
    (hblk : ∀ bi ∈ (undoTodo e s.pointer dest).2, (∀ i ∈ (e.block bi).txs, (e.tx i).id = i) ∧
      (∀ i ∈ (e.block bi).txs, (e.tx i).coinbase = true → (e.tx i).ins = [] ∧ feeOf (e.tx i).outs = 0))
    (hre : ∀ i ∈ repostList e s, i ∈ C0 ++ blockTxs e (undoTodo e s.pointer dest).2 → (e.tx i).ins ≠ []) :
    ∃ C', Ledger e (walk e s lh dest prune).1 C' ∧
      ((walk e s lh dest prune).2 = true → C' = C0 ++ blockTxs e (undoTodo e s.pointer dest).2) := by
  rw [XV.Crash.walk_eq_core]
  exact walkL_Ledger e s lh dest prune C C0 h hundo hnd hblk (repostList e s) (repostList_subset e s) hre

/-- **`walk` keeps the ledger invariant — no hypothesis on the re-submitted transactions.** After the repair of
`recoverUnconfirmedTx` the rolled-back transactions that the ledger records as confirmed on the chain walked to are not
re-submitted; `hskip` (`SkipsConfirmed`, guaranteed by the driver's `walkEnv`) states that of the environment, and the
former hypothesis `hre` ("a pending transaction that the new branch confirms has an input") is gone: no re-submitted
transaction is confirmed on the new branch. (Statement change: the re-admitted pool is `repostList e s`, see `walk`.) -/
theorem walk_Ledger (e : Env) (s : St) (lh : Int) (dest : Nat) (prune : Bool) (C C0 : List Nat) (h : Ledger e s C)
    (hundo : C = C0 ++ blockTxs e (undoTodo e s.pointer dest).1.reverse)
    (hnd : (C0 ++ blockTxs e (undoTodo e s.pointer dest).2).Nodup)
    (hblk : ∀ bi ∈ (undoTodo e s.pointer dest).2, (∀ i ∈ (e.block bi).txs, (e.tx i).id = i) ∧
      (∀ i ∈ (e.block bi).txs, (e.tx i).coinbase = true → (e.tx i).ins = [] ∧ feeOf (e.tx i).outs = 0))
    (hskip : SkipsConfirmed e s (C0 ++ blockTxs e (undoTodo e s.pointer dest).2)) :
    ∃ C', Ledger e (walk e s lh dest prune).1 C' ∧
      ((walk e s lh dest prune).2 = true → C' = C0 ++ blockTxs e (undoTodo e s.pointer dest).2) :=
  walk_Ledger_hre e s lh dest prune C C0 h hundo hnd hblk (fun i hi hc => absurd hc (hskip.not_confirmed i hi))

/-- **the same with the skip list supplied for this walk** (`e.withSkip l`: the environment of the walk is `e` with the
list `l` the ledger supplies; the invariant is stated in the fixed environment `e` — it does not read the skip list):
if `l` names every pending transaction that the new branch confirms, the walk keeps the ledger invariant. This is the
form a history uses, where every walk comes with its own list. -/
theorem walk_Ledger_withSkip (e : Env) (l : List Nat) (s : St) (lh : Int) (dest : Nat) (prune : Bool) (C C0 : List Nat)
    (h : Ledger e s C)
    (hundo : C = C0 ++ blockTxs e (undoTodo e s.pointer dest).1.reverse)
    (hnd : (C0 ++ blockTxs e (undoTodo e s.pointer dest).2).Nodup)
    (hblk : ∀ bi ∈ (undoTodo e s.pointer dest).2, (∀ i ∈ (e.block bi).txs, (e.tx i).id = i) ∧
      (∀ i ∈ (e.block bi).txs, (e.tx i).coinbase = true → (e.tx i).ins = [] ∧ feeOf (e.tx i).outs = 0))
    (hskip : ∀ i ∈ s.pool, i ∈ C0 ++ blockTxs e (undoTodo e s.pointer dest).2 → i ∈ l) :
    ∃ C', Ledger e (walk (e.withSkip l) s lh dest prune).1 C' ∧
      ((walk (e.withSkip l) s lh dest prune).2 = true → C' = C0 ++ blockTxs e (undoTodo e s.pointer dest).2) := by
  rw [XV.Crash.walk_withSkip]
  apply walkL_Ledger e s lh dest prune C C0 h hundo hnd hblk _ (fun i hi => (List.mem_filter.mp hi).1)
  intro i hi hc
  obtain ⟨hp, hn⟩ := List.mem_filter.mp hi
  have : i ∈ l := hskip i hp hc
  simp [this] at hn

/-- what the ledger invariant gives at every reachable state: one row per key; conservation; the total is the supply
created by the confirmed coinbase transactions; every input of an applied transaction — confirmed or pending — is spent;
two distinct applied transactions never share a token input; and balances + pending fees = supply -/
theorem Ledger.invariants {e : Env} {s : St} {C : List Nat} (h : Ledger e s C) :
    UNodup s.U ∧ sumU s.U + poolFees e s.pool = s.total ∧ s.total = coinbasePaid e C ∧
    (∀ i ∈ C ++ s.pool, ∀ r ∈ (e.tx i).ins, lookup s.U (r.tx, r.off) = none) ∧
    (∀ i ∈ C ++ s.pool, ∀ j ∈ C ++ s.pool, i ≠ j →
      ∀ r ∈ (e.tx i).ins, ∀ r' ∈ (e.tx j).ins, (r.tx, r.off) ≠ (r'.tx, r'.off)) ∧
    (∀ addrs : List String, addrs.Nodup → (∀ p ∈ s.U, p.2.addr ∈ addrs) →
      (addrs.map (balance s)).sum + poolFees e s.pool = coinbasePaid e C) := by
  refine ⟨h.nodupU, h.conservation, h.supply, h.led.insSpent, h.led.disjoint, ?_⟩
  intro addrs hnd hall
  rw [balance_is_sum s addrs hnd hall, h.conservation, h.supply]

-- non-vacuity of the ledger theorems: a whole history from the empty state.
--   block 10 = [100 (genesis coinbase 16)]; submissions 1 (16 -> 10 + 4 + fee 2) and 2 (child of 1: 10 -> 9 + fee 1);
--   block 11 = [9 (award 10), 1] confirms 1; then a walk to the sibling block 12 = [8 (award 10), 3] where 3 spends the
--   same output as 1: the pool is rolled back, block 11 undone, block 12 applied, 2 is not re-admitted.
-- The invariant holds after every step with the ghost logs [100], [100, 9, 1], [100, 8, 3].
example :
    let e : Env := {
      txs := [
        (100, ⟨100, true, [], [⟨"u0", 16, 0⟩], [], []⟩),
        (1, ⟨1, false, [⟨100, 0, "u0", 16, 0, false⟩], [⟨"u1", 10, 0⟩, ⟨"u0", 4, 0⟩, ⟨"$", 2, 0⟩], [], []⟩),
        (2, ⟨2, false, [⟨1, 0, "u1", 10, 0, false⟩], [⟨"u2", 9, 0⟩, ⟨"$", 1, 0⟩], [], []⟩),
        (3, ⟨3, false, [⟨100, 0, "u0", 16, 0, false⟩], [⟨"u3", 16, 0⟩], [], []⟩),
        (9, ⟨9, true, [], [⟨"miner", 10, 0⟩], [], []⟩),
        (8, ⟨8, true, [], [⟨"miner2", 10, 0⟩], [], []⟩)],
      blocks := [
        (10, ⟨10, some 0, 0, [100], "g"⟩),
        (11, ⟨11, some 10, 1, [9, 1], "miner"⟩),
        (12, ⟨12, some 10, 1, [8, 3], "miner2"⟩)] }
    let s1 : St := { U := [((100, 0), ⟨"u0", 16, 0⟩)], total := 16, pointer := 10 }
    let s2 : St := { U := [((1, 1), ⟨"u0", 4, 0⟩), ((1, 0), ⟨"u1", 10, 0⟩)], total := 16, pointer := 10, pool := [1] }
    let s3 : St := { U := [((2, 0), ⟨"u2", 9, 0⟩), ((1, 1), ⟨"u0", 4, 0⟩)], total := 16, pointer := 10, pool := [1, 2] }
    let s4 : St := { U := [((1, 2), ⟨"miner", 2, 0⟩), ((9, 0), ⟨"miner", 10, 0⟩), ((2, 0), ⟨"u2", 9, 0⟩),
                           ((1, 1), ⟨"u0", 4, 0⟩)], total := 26, pointer := 11, pool := [2] }
    let s5 : St := { U := [((3, 0), ⟨"u3", 16, 0⟩), ((8, 0), ⟨"miner2", 10, 0⟩)], total := 26, pointer := 12 }
    play e {} 0 (e.block 10) = (s1, .ok) ∧ doTx e s1 0 1 = (s2, .ok) ∧ doTx e s2 0 2 = (s3, .ok) ∧
    play e s3 0 (e.block 11) = (s4, .ok) ∧ walk e s4 0 12 false = (s5, true) ∧
    Ledger e s1 [100] ∧ Ledger e s3 [100] ∧ Ledger e s4 [100, 9, 1] ∧ Ledger e s5 [100, 8, 3] ∧
    sumU s4.U + poolFees e s4.pool = 26 ∧ sumU s5.U = 26 := by
  intro e s1 s2 s3 s4 s5
  have e1 : play e {} 0 (e.block 10) = (s1, .ok) := by rfl
  have e2 : doTx e s1 0 1 = (s2, .ok) := by rfl
  have e3 : doTx e s2 0 2 = (s3, .ok) := by rfl
  have e4 : play e s3 0 (e.block 11) = (s4, .ok) := by rfl
  have e5 : walk e s4 0 12 false = (s5, true) := by rfl
  have h1 : Ledger e s1 [100] := by
    have := play_Ledger e {} 0 (e.block 10) [] (Ledger_genesis e) (by decide) (by decide) (by decide) (by decide)
      (by decide) (by decide) (by decide)
    rw [e1] at this
    exact this
  have h2 : Ledger e s2 [100] := by
    have := doTx_Ledger e s1 0 1 [100] h1 (fun _ => by decide)
    rw [e2] at this
    exact this
  have h3 : Ledger e s3 [100] := by
    have := doTx_Ledger e s2 0 2 [100] h2 (fun _ => by decide)
    rw [e3] at this
    exact this
  have h4 : Ledger e s4 [100, 9, 1] := by
    have := play_Ledger e s3 0 (e.block 11) [100] h3 (by decide) (by decide) (by decide) (by decide)
      (by decide) (by decide) (by decide)
    rw [e4] at this
    exact this
  have h5 : Ledger e s5 [100, 8, 3] := by
    obtain ⟨C', c1, c2⟩ := walk_Ledger e s4 0 12 false [100, 9, 1] [100] h4 (by decide) (by decide) (by decide)
      (by decide)
    rw [e5] at c1 c2
    rw [c2 rfl] at c1
    exact c1
  exact ⟨e1, e2, e3, e4, e5, h1, h3, h4, h5, by decide, by decide⟩

-- ================================================================ the block-validity hypotheses are necessary

/-- the statement one would like: `play` followed by a `walk` keeps conservation under the hash-causality hypotheses of
`play_PoolLive` alone — *without* the block-validity hypotheses `hparents` / `hdeps` (the block contains the pending
transactions its transactions cite / depend on). It WAS false of the code as found: `PlayAndRepost` accepted a block that
confirms a pending child without its pending parent (or spends a pending output from outside the pool), and the next pool
roll-back then "un-spent" the parent's input while the child's outputs stayed — tokens counted twice. Reproduced on the
real code (corpus/C02/block-confirms-child-without-pending-parent.ops) and repaired there (`processUnconfirmTxs` refuses
such a block); `play` follows the repaired code (`parentMissing`). -/
theorem play_parents_in_block (e : Env) (s : St) (lh : Int) (b : Block) (hok : (play e s lh b).2 = .ok) :
    ∀ i ∈ b.txs, ∀ r ∈ (e.tx i).ins, r.tx ∈ s.pool → r.tx ∈ b.txs := by
  intro i hi r hr hp
  have hpm := play_ok_parents e s lh b hok
  obtain ⟨pre, post, hsplit⟩ := List.append_of_mem hi
  have := parentMissing_false e s.pool [] b.txs hpm pre i post hsplit r.tx
    (by unfold refTxs; exact List.mem_append_left _ (List.mem_map.mpr ⟨r, hr, rfl⟩)) hp
  rw [hsplit]
  simp only [List.nil_append] at this
  exact List.mem_append_left _ this

/-- `play` keeps the strong pool invariant with no hypothesis on the parents of the block's transactions: a block that
cites a pending transaction it does not itself confirm first is refused (and a refused block changes nothing) -/
theorem play_PoolLive_repaired (e : Env) (s : St) (lh : Int) (b : Block) (hinv : PoolLive e s)
    (hnd : b.txs.Nodup) (hid : ∀ i ∈ b.txs, (e.tx i).id = i)
    (hnew : ∀ i ∈ b.txs, i ∉ s.pool →
      (∀ o, lookup s.U (i, o) = none) ∧ (∀ r ∈ (e.tx i).ins, r.tx ≠ i) ∧
      ((e.tx i).coinbase = true → (e.tx i).ins = [] ∧ feeOf (e.tx i).outs = 0) ∧
      (∀ j ∈ s.pool, ∀ r ∈ (e.tx j).ins, r.tx ≠ i))
    (hdeps : ∀ c ∈ b.txs, c ∈ s.pool → ∀ p ∈ s.pool, dependsOn e s.pool c p = true → p ∈ b.txs) :
    PoolLive e (play e s lh b).1 := by
  by_cases hok : (play e s lh b).2 = .ok
  · exact play_PoolLive e s lh b hinv hnd hid hnew (play_parents_in_block e s lh b hok) hdeps
  · rw [XV.C05.play_fail_noop e s lh b hok]; exact hinv

/-- `play` keeps the reachable-state invariant `Ledger` with no hypothesis on the parents of the block's transactions -/
theorem play_Ledger_repaired (e : Env) (s : St) (lh : Int) (b : Block) (C : List Nat) (h : Ledger e s C)
    (hnd : b.txs.Nodup) (hid : ∀ i ∈ b.txs, (e.tx i).id = i) (hnewC : ∀ i ∈ b.txs, i ∉ C)
    (haward : ∀ i ∈ b.txs, i ∉ s.pool → (e.tx i).coinbase = true → (e.tx i).ins = [] ∧ feeOf (e.tx i).outs = 0)
    (hord : b.txs.Pairwise (fun a b => ∀ r ∈ (e.tx a).ins, r.tx ≠ b))
    (hdeps : ∀ c ∈ b.txs, c ∈ s.pool → ∀ p ∈ s.pool, dependsOn e s.pool c p = true → p ∈ b.txs) :
    Ledger e (play e s lh b).1 (if (play e s lh b).2 = .ok then C ++ b.txs else C) := by
  by_cases hok : (play e s lh b).2 = .ok
  · exact play_Ledger e s lh b C h hnd hid hnewC haward (play_parents_in_block e s lh b hok) hord hdeps
  · rw [if_neg hok, XV.C05.play_fail_noop e s lh b hok]; exact h

/-- the witness that refuted conservation for the code as found — pool [1, 2] with 2 spending an output of 1, block
[9 (award), 2] confirming the child alone — is now refused, and nothing changes -/
theorem play_refuses_child_without_parent :
    let e : Env := { txs := [
      (1, ⟨1, false, [⟨0, 0, "u0", 5, 0, false⟩], [⟨"u1", 3, 0⟩, ⟨"$", 2, 0⟩], [], []⟩),
      (2, ⟨2, false, [⟨1, 0, "u1", 3, 0, false⟩], [⟨"u2", 2, 0⟩, ⟨"$", 1, 0⟩], [], []⟩),
      (9, ⟨9, true, [], [⟨"miner", 10, 0⟩], [], []⟩)] }
    let s0 : St := { U := [((0, 0), ⟨"u0", 5, 0⟩)], total := 5 }
    let s2 := (doTx e (doTx e s0 0 1).1 0 2).1
    (play e s2 0 ⟨20, some 0, 1, [9, 2], "miner"⟩).2 = .utxo ∧ (play e s2 0 ⟨20, some 0, 1, [9, 1, 2], "miner"⟩).2 = .ok := by
  decide

-- ================================================================ corollaries in terms of `PoolInv`

/-- `play` keeps `PoolInv` (conservation included) — from the strong invariant, see `play_PoolLive` for the hypotheses -/
theorem play_PoolInv (e : Env) (s : St) (lh : Int) (b : Block) (hinv : PoolLive e s)
    (hnd : b.txs.Nodup) (hid : ∀ i ∈ b.txs, (e.tx i).id = i)
    (hnew : ∀ i ∈ b.txs, i ∉ s.pool →
      (∀ o, lookup s.U (i, o) = none) ∧ (∀ r ∈ (e.tx i).ins, r.tx ≠ i) ∧
      ((e.tx i).coinbase = true → (e.tx i).ins = [] ∧ feeOf (e.tx i).outs = 0) ∧
      (∀ j ∈ s.pool, ∀ r ∈ (e.tx j).ins, r.tx ≠ i))
    (hparents : ∀ i ∈ b.txs, ∀ r ∈ (e.tx i).ins, r.tx ∈ s.pool → r.tx ∈ b.txs)
    (hdeps : ∀ c ∈ b.txs, c ∈ s.pool → ∀ p ∈ s.pool, dependsOn e s.pool c p = true → p ∈ b.txs) :
    PoolInv e (play e s lh b).1 :=
  (play_PoolLive e s lh b hinv hnd hid hnew hparents hdeps).toPoolInv

/-- `walk` keeps `PoolInv` (conservation included), whatever its outcome — from the ledger invariant, see `walk_Ledger` -/
theorem walk_PoolInv (e : Env) (s : St) (lh : Int) (dest : Nat) (prune : Bool) (C C0 : List Nat) (h : Ledger e s C)
    (hundo : C = C0 ++ blockTxs e (undoTodo e s.pointer dest).1.reverse)
    (hnd : (C0 ++ blockTxs e (undoTodo e s.pointer dest).2).Nodup)
    (hblk : ∀ bi ∈ (undoTodo e s.pointer dest).2, (∀ i ∈ (e.block bi).txs, (e.tx i).id = i) ∧
      (∀ i ∈ (e.block bi).txs, (e.tx i).coinbase = true → (e.tx i).ins = [] ∧ feeOf (e.tx i).outs = 0))
    (hskip : SkipsConfirmed e s (C0 ++ blockTxs e (undoTodo e s.pointer dest).2)) :
    PoolInv e (walk e s lh dest prune).1 := by
  obtain ⟨C', c1, _⟩ := walk_Ledger e s lh dest prune C C0 h hundo hnd hblk hskip
  exact c1.toPoolInv

-- non-vacuity of `playForMiner_Ledger` / `playForMiner_PoolLive`: the miner packs the award and both pending transactions
-- (parent before child); the pool empties, the fees 2 + 1 and the award 10 go to the miner, Σ U = total = 26
example :
    let e : Env := {
      txs := [
        (100, ⟨100, true, [], [⟨"u0", 16, 0⟩], [], []⟩),
        (1, ⟨1, false, [⟨100, 0, "u0", 16, 0, false⟩], [⟨"u1", 10, 0⟩, ⟨"u0", 4, 0⟩, ⟨"$", 2, 0⟩], [], []⟩),
        (2, ⟨2, false, [⟨1, 0, "u1", 10, 0, false⟩], [⟨"u2", 9, 0⟩, ⟨"$", 1, 0⟩], [], []⟩),
        (9, ⟨9, true, [], [⟨"miner", 10, 0⟩], [], []⟩)],
      blocks := [(10, ⟨10, some 0, 0, [100], "g"⟩), (11, ⟨11, some 10, 1, [9, 1, 2], "miner"⟩)] }
    let s1 : St := { U := [((100, 0), ⟨"u0", 16, 0⟩)], total := 16, pointer := 10 }
    let s2 : St := { U := [((1, 1), ⟨"u0", 4, 0⟩), ((1, 0), ⟨"u1", 10, 0⟩)], total := 16, pointer := 10, pool := [1] }
    let s3 : St := { U := [((2, 0), ⟨"u2", 9, 0⟩), ((1, 1), ⟨"u0", 4, 0⟩)], total := 16, pointer := 10, pool := [1, 2] }
    play e {} 0 (e.block 10) = (s1, .ok) ∧ doTx e s1 0 1 = (s2, .ok) ∧ doTx e s2 0 2 = (s3, .ok) ∧
    (playForMiner e s3 0 (e.block 11)).2 = .ok ∧
    Ledger e s3 [100] ∧ PoolLive e s3 ∧ Ledger e (playForMiner e s3 0 (e.block 11)).1 [100, 9, 1, 2] ∧
    PoolLive e (playForMiner e s3 0 (e.block 11)).1 ∧
    (playForMiner e s3 0 (e.block 11)).1.pool = [] ∧ sumU (playForMiner e s3 0 (e.block 11)).1.U = 26 ∧
    (playForMiner e s3 0 (e.block 11)).1.total = 26 := by
  intro e s1 s2 s3
  have e1 : play e {} 0 (e.block 10) = (s1, .ok) := by rfl
  have e2 : doTx e s1 0 1 = (s2, .ok) := by rfl
  have e3 : doTx e s2 0 2 = (s3, .ok) := by rfl
  have hok : (playForMiner e s3 0 (e.block 11)).2 = .ok := by decide
  have h1 : Ledger e s1 [100] := by
    have := play_Ledger e {} 0 (e.block 10) [] (Ledger_genesis e) (by decide) (by decide) (by decide) (by decide)
      (by decide) (by decide) (by decide)
    rw [e1] at this
    exact this
  have h2 : Ledger e s2 [100] := by
    have := doTx_Ledger e s1 0 1 [100] h1 (fun _ => by decide)
    rw [e2] at this
    exact this
  have h3 : Ledger e s3 [100] := by
    have := doTx_Ledger e s2 0 2 [100] h2 (fun _ => by decide)
    rw [e3] at this
    exact this
  have h4 : Ledger e (playForMiner e s3 0 (e.block 11)).1 [100, 9, 1, 2] := by
    have := playForMiner_Ledger e s3 0 (e.block 11) [100] h3 (by decide) (by decide) (by decide) (by decide)
      (by decide) (by decide) (by decide)
    rw [if_pos hok] at this
    exact this
  -- the same through the pool-only invariant (rows of unknown origin allowed, explicit freshness hypotheses)
  have p1 : PoolLive e s1 := PoolLive_of_empty e s1 (by unfold UNodup; decide) rfl (by decide)
  have p2 : PoolLive e s2 := by
    have := doTx_PoolLive e s1 0 1 p1
      (fun _ => ⟨by decide, lookup_none_of_noid _ _ (by decide), by decide, by decide, by decide⟩)
    rw [e2] at this
    exact this
  have p3 : PoolLive e s3 := by
    have := doTx_PoolLive e s2 0 2 p2
      (fun _ => ⟨by decide, lookup_none_of_noid _ _ (by decide), by decide, by decide, by decide⟩)
    rw [e3] at this
    exact this
  have p4 : PoolLive e (playForMiner e s3 0 (e.block 11)).1 := by
    apply playForMiner_PoolLive e s3 0 (e.block 11) p3 (by decide) (by decide) (by decide) _ (by decide)
    intro i hi hc
    have hi9 : i = 9 := by
      have hi' : i = 9 ∨ i = 1 ∨ i = 2 := by simpa [e, Env.block, lookup] using hi
      rcases hi' with rfl | rfl | rfl
      · rfl
      · exact absurd hc (by decide)
      · exact absurd hc (by decide)
    subst hi9
    exact ⟨by decide, by decide, lookup_none_of_noid _ _ (by decide), by decide⟩
  exact ⟨e1, e2, e3, hok, h3, p3, h4, p4, by decide, by decide, by decide⟩

/-- `doTx_Ledger` with "a confirmed transaction is not submitted again" replaced by "the transaction has an input": a
confirmed transaction with an input is refused, because its inputs are spent -/
theorem doTx_Ledger_of_inputs (e : Env) (s : St) (lh : Int) (i : Nat) (C : List Nat) (h : Ledger e s C)
    (hyp : (doTx e s lh i).2 = .ok → (e.tx i).id = i ∧ (i ∈ C → (e.tx i).ins ≠ []) ∧ (e.tx i).coinbase = false) :
    Ledger e (doTx e s lh i).1 C := by
  apply doTx_Ledger e s lh i C h
  intro hok
  obtain ⟨y1, y3, y2⟩ := hyp hok
  refine ⟨y1, ?_, y2⟩
  intro hiC
  obtain ⟨r, hr⟩ := List.exists_mem_of_ne_nil _ (y3 hiC)
  obtain ⟨_, hadm, _⟩ := XV.C03.doTx_ok e s lh i hok
  obtain ⟨u, hu, _⟩ := (XV.C03.admit_sound s lh (e.tx i) hadm).1 r hr
  rw [h.led.insSpent i (List.mem_append_left _ hiC) r hr] at hu
  cases hu

/-- the ledger invariant implies the strong pool invariant: the two developments agree on the pool -/
theorem Ledger.toPoolLive {e : Env} {s : St} {C : List Nat} (h : Ledger e s C) : PoolLive e s := by
  have hl := h.led
  obtain ⟨_, hndP, hCP⟩ := List.nodup_append.mp hl.nodupA
  obtain ⟨_, hoP, hoCP⟩ := List.pairwise_append.mp hl.order
  have hP : ∀ i ∈ s.pool, i ∈ C ++ s.pool := fun i hi => List.mem_append_right _ hi
  have hnotC : ∀ i ∈ s.pool, i ∉ C := fun i hi hc => hCP i hc i hi rfl
  have hmat : ∀ i ∈ s.pool, ∀ idx, liveSlot e C i idx → matSlot (e.tx i) idx = true := by
    intro i hi idx hlv
    rcases hlv with hm | ⟨hc, _⟩
    · exact hm
    · exact absurd hc (hnotC i hi)
  refine ⟨h.nodupU, ⟨hndP, fun i hi => hl.idEq i (hP i hi), h.poolNonCoinbase, fun i hi => hl.insNodup i (hP i hi),
    fun i hi => hl.noSelf i (hP i hi), fun i hi => h.balanced i (hP i hi) (h.poolNonCoinbase i hi), hoP,
    ?_, fun i hi => hl.insSpent i (hP i hi), fun i hi j hj => hl.disjoint i (hP i hi) j (hP j hj), ?_, ?_⟩,
    h.conservation⟩
  · intro i hi idx hm
    rcases hl.outs i (hP i hi) idx (Or.inl hm) with hpres | ⟨j, hj, r, hr, hrt, hro⟩
    · exact Or.inl hpres
    · right
      rcases List.mem_append.mp hj with hjC | hjP
      · exact absurd hrt (hoCP j hjC i hi r hr)
      · exact ⟨j, hjP, r, hr, hrt, hro⟩
  · intro j hj r hr hrP
    obtain ⟨_, c2, c3⟩ := hl.cites j (hP j hj) r hr
    exact ⟨hmat r.tx hrP r.off c2, c3⟩
  · intro i hi idx u hu
    exact hmat i hi idx (hl.rows i idx u hu).2

-- ================================================================ `play` with no block-validity hypothesis at all

/-- **`play` keeps the strong pool invariant — no hypothesis on what the block brings.** `hdeps` of
`play_PoolLive_repaired` is gone: the evicted set may meet the block. The case it excluded: the block confirms a pending
overwriter `W` of a key version without the pending pure reader `R` of that version; `R` conflicts and is evicted, `W` (a
dependent of `R` in the pool graph) is rolled back with it, and `applyBlockTxs` applies `W` again. For the block run such a
`W` is a *new* transaction: after the eviction no row carries its id (`undoFold_Live_gone`), no transaction that stays
pending cites it (whoever cites an evicted transaction is evicted, `playEvict_cited`), and it is admitted by `admitTx` on
the rolled-back state — or `play` fails and changes nothing. Remaining hypotheses: block ids pairwise distinct, `e.tx i` has
id `i`, and the hash-causality of the block transactions that are not pending (`hnew`). -/
theorem play_PoolLive_full (e : Env) (s : St) (lh : Int) (b : Block) (hinv : PoolLive e s)
    (hnd : b.txs.Nodup) (hid : ∀ i ∈ b.txs, (e.tx i).id = i)
    (hnew : ∀ i ∈ b.txs, i ∉ s.pool →
      (∀ o, lookup s.U (i, o) = none) ∧ (∀ r ∈ (e.tx i).ins, r.tx ≠ i) ∧
      ((e.tx i).coinbase = true → (e.tx i).ins = [] ∧ feeOf (e.tx i).outs = 0) ∧
      (∀ j ∈ s.pool, ∀ r ∈ (e.tx j).ins, r.tx ≠ i)) :
    PoolLive e (play e s lh b).1 := by
  by_cases hok : (play e s lh b).2 = .ok
  · obtain ⟨s2, happ, hshape⟩ := play_ok_raw e s lh b hok
    rw [hshape]
    have hl := hinv.live
    have hparents := play_parents_in_block e s lh b hok
    have hevP := playEvict_sub_pool e s b
    -- the undo list
    have hndr : s.pool.reverse.Nodup := by
      unfold List.Nodup
      rw [List.pairwise_reverse]
      exact List.Pairwise.imp (fun h => fun e2 => h e2.symm) hl.nodupL
    have hevmem : ∀ x, x ∈ s.pool.reverse.filter (fun i => (playEvict e s b).contains i) ↔
        x ∈ s.pool ∧ x ∈ playEvict e s b := by
      intro x; simp only [List.mem_filter, List.mem_reverse, List.contains_eq_mem, decide_eq_true_eq]
    have hevnd := List.Nodup.sublist (List.filter_sublist (p := fun i => (playEvict e s b).contains i)) hndr
    have hevord : (s.pool.reverse.filter (fun i => (playEvict e s b).contains i)).Pairwise
        (fun a b => ∀ r ∈ (e.tx b).ins, r.tx ≠ a) :=
      List.Pairwise.filter _ (by rw [List.pairwise_reverse]; exact hl.order)
    have hevcl : ∀ t ∈ s.pool.reverse.filter (fun i => (playEvict e s b).contains i), ∀ j ∈ s.pool,
        (∃ r ∈ (e.tx j).ins, r.tx = t) → j ∈ s.pool.reverse.filter (fun i => (playEvict e s b).contains i) := by
      intro t ht j hj hc
      obtain ⟨r, hr, hrt⟩ := hc
      obtain ⟨_, hte⟩ := (hevmem t).mp ht
      have hjt : j ≠ t := fun e2 => hl.noSelf j hj r hr (hrt.trans e2.symm)
      exact (hevmem j).mpr ⟨hj, playEvict_cited e s b t hte j hj hjt r hr hrt⟩
    have hL1 := undoFold_LiveSum e (s.pool.reverse.filter (fun i => (playEvict e s b).contains i)) s s.pool hinv
      hevnd (fun t ht => ((hevmem t).mp ht).1) hevord hevcl
    have hgone := undoFold_Live_gone e (s.pool.reverse.filter (fun i => (playEvict e s b).contains i)) s s.pool hl
      hevnd (fun t ht => ((hevmem t).mp ht).1) hevord hevcl
    have hL1mem : ∀ x, x ∈ s.pool.filter
        (fun x => !(s.pool.reverse.filter (fun i => (playEvict e s b).contains i)).contains x) ↔
        x ∈ s.pool ∧ x ∉ playEvict e s b := by
      intro x
      simp only [List.mem_filter, List.contains_eq_mem, List.mem_reverse, decide_eq_true_eq,
        Bool.not_eq_eq_eq_not, Bool.not_true, decide_eq_false_iff_not, not_and]
      constructor
      · intro ⟨h1, h2⟩; exact ⟨h1, h2 h1⟩
      · intro ⟨h1, h2⟩; exact ⟨h1, fun _ => h2⟩
    have hisPool : ∀ i, ((s.pool.filter (fun i => b.txs.contains i)).filter
        (fun i => !(playEvict e s b).contains i)).contains i = true ↔
        (i ∈ s.pool ∧ i ∈ b.txs) ∧ i ∉ playEvict e s b := by
      intro i
      simp only [List.contains_eq_mem, List.mem_filter, decide_eq_true_eq, Bool.not_eq_eq_eq_not, Bool.not_true,
        decide_eq_false_iff_not]
    have hrun := applyBlockTxs_run e lh b.prop _ b.txs _ s2 happ
    have hfin := blockRun_LiveSum e lh b.prop _ b.txs (playUndone e s b) s2 _ hrun hL1 hnd hid
      (fun i hi => by
        rw [hL1mem, hisPool]
        exact ⟨fun hh => ⟨hh.1.1, hh.2⟩, fun hh => ⟨⟨hh.1, hi⟩, hh.2⟩⟩)
      (fun i hi hp => by
        have hnot : ¬ ((i ∈ s.pool ∧ i ∈ b.txs) ∧ i ∉ playEvict e s b) := by
          intro hh
          rw [(hisPool i).mpr hh] at hp
          cases hp
        by_cases hip : i ∈ s.pool
        · -- a pending member of the block that was rolled back with an evicted transaction: applied again
          have hie : i ∈ playEvict e s b := by
            by_cases hie : i ∈ playEvict e s b
            · exact hie
            · exact absurd ⟨⟨hip, hi⟩, hie⟩ hnot
          refine ⟨fun o => hgone i ((hevmem i).mpr ⟨hip, hie⟩) o, hl.noSelf i hip, ?_, ?_⟩
          · intro hc; rw [hl.nonCoinbase i hip] at hc; cases hc
          · intro j hj r hr hri
            obtain ⟨hjp, hje⟩ := (hL1mem j).mp hj
            have hji : j ≠ i := fun e2 => hje (e2 ▸ hie)
            exact hje (playEvict_cited e s b i hie j hjp hji r hr hri)
        · obtain ⟨n1, n2, n3, n4⟩ := hnew i hi hip
          refine ⟨fun o => ?_, n2, n3, fun j hj => n4 j ((hL1mem j).mp hj).1⟩
          apply undoFold_lookup_none _ _ _ _ _ (n1 o)
          intro t ht r hr he
          injection he with e1 _
          exact n4 t ((hevmem t).mp ht).1 r hr e1)
      (fun i hi r hr hrL => hparents i hi r hr ((hL1mem r.tx).mp hrL).1)
    have hpool : s.pool.filter (fun i => !b.txs.contains i && !(playEvict e s b).contains i) =
        (s.pool.filter (fun x => !(s.pool.reverse.filter (fun i => (playEvict e s b).contains i)).contains x)).filter
          (fun x => !b.txs.contains x) := by
      rw [List.filter_filter]
      apply List.filter_congr
      intro x hx
      have : (s.pool.reverse.filter (fun i => (playEvict e s b).contains i)).contains x =
          (playEvict e s b).contains x := by
        by_cases hxe : x ∈ playEvict e s b
        · simp [hxe, hx]
        · simp [hxe]
      rw [this]
    unfold PoolLive
    simp only
    rw [hpool]
    exact LiveSum.congr hfin rfl rfl
  · rw [XV.C05.play_fail_noop e s lh b hok]; exact hinv

/-- `play` keeps `PoolInv` (conservation `Σ U + pending fees = total` included) with no block-validity hypothesis -/
theorem play_PoolInv_full (e : Env) (s : St) (lh : Int) (b : Block) (hinv : PoolLive e s)
    (hnd : b.txs.Nodup) (hid : ∀ i ∈ b.txs, (e.tx i).id = i)
    (hnew : ∀ i ∈ b.txs, i ∉ s.pool →
      (∀ o, lookup s.U (i, o) = none) ∧ (∀ r ∈ (e.tx i).ins, r.tx ≠ i) ∧
      ((e.tx i).coinbase = true → (e.tx i).ins = [] ∧ feeOf (e.tx i).outs = 0) ∧
      (∀ j ∈ s.pool, ∀ r ∈ (e.tx j).ins, r.tx ≠ i)) :
    PoolInv e (play e s lh b).1 :=
  (play_PoolLive_full e s lh b hinv hnd hid hnew).toPoolInv

/-- **`play` keeps the reachable-state invariant `Ledger` — neither `hdeps` nor `hord`.** Both block-validity hypotheses
of `play_Ledger_repaired` are discharged by the acceptance of the block: the evicted set may meet the block (a pending
member rolled back with an evicted transaction is not logged any more, `Led.noRow`, and joins the confirmed log through
admission like a new transaction), and the block order is a consequence of `parentMissing` (`play_order_pending_ins`: no
transaction of an accepted block cites a *pending* transaction that stands later; a citation of a later transaction that
is not pending is refused by admission, see `play_block_order`). Remaining hypotheses: block ids pairwise distinct,
`e.tx i` has id `i`, none already confirmed, a coinbase of the block has no inputs and no fee. -/
theorem play_Ledger_full (e : Env) (s : St) (lh : Int) (b : Block) (C : List Nat) (h : Ledger e s C)
    (hnd : b.txs.Nodup) (hid : ∀ i ∈ b.txs, (e.tx i).id = i) (hnewC : ∀ i ∈ b.txs, i ∉ C)
    (haward : ∀ i ∈ b.txs, i ∉ s.pool → (e.tx i).coinbase = true → (e.tx i).ins = [] ∧ feeOf (e.tx i).outs = 0) :
    Ledger e (play e s lh b).1 (if (play e s lh b).2 = .ok then C ++ b.txs else C) := by
  by_cases hok : (play e s lh b).2 = .ok
  · rw [if_pos hok]
    obtain ⟨s2, happ, hshape⟩ := play_ok_raw e s lh b hok
    rw [hshape]
    have hl := h.led
    have hparents := play_parents_in_block e s lh b hok
    have hordP := play_order_pending_ins e s lh b hok hnd
    obtain ⟨_, hndP, _⟩ := List.nodup_append.mp hl.nodupA
    obtain ⟨_, hoP, _⟩ := List.pairwise_append.mp hl.order
    have hndr : s.pool.reverse.Nodup := by
      unfold List.Nodup
      rw [List.pairwise_reverse]
      exact List.Pairwise.imp (fun h => fun e2 => h e2.symm) hndP
    have hevmem : ∀ x, x ∈ s.pool.reverse.filter (fun i => (playEvict e s b).contains i) ↔
        x ∈ s.pool ∧ x ∈ playEvict e s b := by
      intro x; simp only [List.mem_filter, List.mem_reverse, List.contains_eq_mem, decide_eq_true_eq]
    have hL1 := undoFold_LedSum e (s.pool.reverse.filter (fun i => (playEvict e s b).contains i)) s C s.pool h
      (List.Nodup.sublist List.filter_sublist hndr)
      (fun t ht => ((hevmem t).mp ht).1)
      (List.Pairwise.filter _ (by rw [List.pairwise_reverse]; exact hoP))
      (fun t ht j hj hc => by
        obtain ⟨r, hr, hrt⟩ := hc
        obtain ⟨_, hte⟩ := (hevmem t).mp ht
        have hjt : j ≠ t := fun e2 => hl.noSelf j (List.mem_append_right _ hj) r hr (hrt.trans e2.symm)
        exact (hevmem j).mpr ⟨hj, playEvict_cited e s b t hte j hj hjt r hr hrt⟩)
    have hL1mem : ∀ x, x ∈ s.pool.filter
        (fun x => !(s.pool.reverse.filter (fun i => (playEvict e s b).contains i)).contains x) ↔
        x ∈ s.pool ∧ x ∉ playEvict e s b := by
      intro x
      simp only [List.mem_filter, List.contains_eq_mem, List.mem_reverse, decide_eq_true_eq,
        Bool.not_eq_eq_eq_not, Bool.not_true, decide_eq_false_iff_not, not_and]
      constructor
      · intro ⟨h1, h2⟩; exact ⟨h1, h2 h1⟩
      · intro ⟨h1, h2⟩; exact ⟨h1, fun _ => h2⟩
    have hisPool : ∀ i, ((s.pool.filter (fun i => b.txs.contains i)).filter
        (fun i => !(playEvict e s b).contains i)).contains i = true ↔
        (i ∈ s.pool ∧ i ∈ b.txs) ∧ i ∉ playEvict e s b := by
      intro i
      simp only [List.contains_eq_mem, List.mem_filter, decide_eq_true_eq, Bool.not_eq_eq_eq_not, Bool.not_true,
        decide_eq_false_iff_not]
    have hrun := applyBlockTxs_run e lh b.prop _ b.txs _ s2 happ
    have hfin := blockRun_LedSum e lh b.prop _ b.txs (playUndone e s b) s2 C _ hrun hL1 hnd hid
      (fun i hi => by
        rw [hL1mem, hisPool]
        exact ⟨fun hh => ⟨hh.1.1, hh.2⟩, fun hh => ⟨⟨hh.1, hi⟩, hh.2⟩⟩)
      hnewC
      (fun i hi _ hc => by
        by_cases hip : i ∈ s.pool
        · rw [h.poolNonCoinbase i hip] at hc; cases hc
        · exact haward i hi hip hc)
      (fun i hi r hr hrL => hparents i hi r hr ((hL1mem r.tx).mp hrL).1)
      (List.Pairwise.imp (fun hab hb => hab ((hL1mem _).mp hb).1) hordP)
    have hpool : s.pool.filter (fun i => !b.txs.contains i && !(playEvict e s b).contains i) =
        (s.pool.filter (fun x => !(s.pool.reverse.filter (fun i => (playEvict e s b).contains i)).contains x)).filter
          (fun x => !b.txs.contains x) := by
      rw [List.filter_filter]
      apply List.filter_congr
      intro x hx
      have : (s.pool.reverse.filter (fun i => (playEvict e s b).contains i)).contains x =
          (playEvict e s b).contains x := by
        by_cases hxe : x ∈ playEvict e s b
        · simp [hxe, hx]
        · simp [hxe]
      rw [this]
    unfold Ledger
    simp only
    rw [hpool]
    exact LedSum.congr hfin rfl rfl
  · rw [if_neg hok, XV.C05.play_fail_noop e s lh b hok]; exact h

-- ================================================================ the block order is a consequence of acceptance

/-- under the ledger invariant, **the transactions of a block that runs cite nothing that is not logged yet**: for `a`
before `c` in the block, `c` neither confirmed nor pending, `a` does not spend an output of `c`. A pending `a` cites logged
transactions only (`Led.cites`); a new `a` is admitted against a table every row of which belongs to a logged transaction
(`Led.rows`), and `c` is not logged when `a` is admitted. -/
theorem blockRun_LedSum_order (e : Env) (lh : Int) (prop : String) (isPool : Nat → Bool) (txs : List Nat) (s s2 : St)
    (C P : List Nat) (hrun : blockRun e lh prop isPool txs s s2) (h : LedSum e s C P)
    (hnd : txs.Nodup) (hid : ∀ i ∈ txs, (e.tx i).id = i)
    (hpool : ∀ i ∈ txs, (isPool i = true ↔ i ∈ P))
    (hnewC : ∀ i ∈ txs, i ∉ C)
    (haward : ∀ i ∈ txs, isPool i = false → (e.tx i).coinbase = true →
      (e.tx i).ins = [] ∧ feeOf (e.tx i).outs = 0)
    (hparents : ∀ i ∈ txs, ∀ r ∈ (e.tx i).ins, r.tx ∈ P → r.tx ∈ txs)
    (hord : txs.Pairwise (fun a b => b ∈ P → ∀ r ∈ (e.tx a).ins, r.tx ≠ b)) :
    txs.Pairwise (fun a c => c ∉ C → c ∉ P → ∀ r ∈ (e.tx a).ins, r.tx ≠ c) := by
  induction txs generalizing s C P with
  | nil => exact List.Pairwise.nil
  | cons i rest ih =>
    simp only [List.nodup_cons] at hnd
    simp only [List.pairwise_cons] at hord
    have hid' : ∀ j ∈ rest, (e.tx j).id = j := fun j hj => hid j (List.mem_cons_of_mem _ hj)
    have hne : ∀ j ∈ rest, j ≠ i := fun j hj e2 => hnd.1 (e2 ▸ hj)
    unfold blockRun at hrun
    by_cases hp : isPool i = true
    · have hiP : i ∈ P := (hpool i List.mem_cons_self).mp hp
      have hnp : ∀ r ∈ (e.tx i).ins, r.tx ∉ P := by
        intro r hr hrP
        rcases List.mem_cons.mp (hparents i List.mem_cons_self r hr hrP) with h1 | h1
        · exact h.led.noSelf i (List.mem_append_right _ hiP) r hr h1
        · exact hord.1 r.tx h1 hrP r hr rfl
      simp only [hp, ↓reduceIte] at hrun
      have hstep := LedSum_confirmPending e s prop C P i h hiP hnp
      have hmemP' : ∀ x, x ∈ P.filter (fun x => x != i) ↔ x ∈ P ∧ x ≠ i := by
        intro x; simp only [List.mem_filter, bne_iff_ne, ne_eq]
      have hrec := ih _ (C ++ [i]) (P.filter (fun x => x != i)) hrun hstep hnd.2 hid'
        (fun j hj => by
          rw [hmemP', hpool j (List.mem_cons_of_mem _ hj)]
          exact ⟨fun hh => ⟨hh, hne j hj⟩, fun hh => hh.1⟩)
        (fun j hj hm => by
          rcases List.mem_append.mp hm with hm | hm
          · exact hnewC j (List.mem_cons_of_mem _ hj) hm
          · simp only [List.mem_cons, List.not_mem_nil, or_false] at hm; exact hne j hj hm)
        (fun j hj => haward j (List.mem_cons_of_mem _ hj))
        (fun j hj r hr hrP => by
          obtain ⟨h1, h2⟩ := (hmemP' r.tx).mp hrP
          rcases List.mem_cons.mp (hparents j (List.mem_cons_of_mem _ hj) r hr h1) with h3 | h3
          · exact absurd h3 h2
          · exact h3)
        (List.Pairwise.imp (R := fun a b => b ∈ P → ∀ r ∈ (e.tx a).ins, r.tx ≠ b)
          (fun hab hb => hab ((hmemP' _).mp hb).1) hord.2)
      apply List.Pairwise.cons
      · intro c _ hcC hcP r hr e2
        have := (h.led.cites i (List.mem_append_right _ hiP) r hr).1
        rw [e2] at this
        rcases List.mem_append.mp this with h1 | h1
        · exact hcC h1
        · exact hcP h1
      · apply List.Pairwise.imp_of_mem _ hrec
        intro a c _ hc hac hcC hcP
        apply hac
        · intro hm
          rcases List.mem_append.mp hm with hm | hm
          · exact hcC hm
          · simp only [List.mem_cons, List.not_mem_nil, or_false] at hm; exact hne c hc hm
        · intro hm; exact hcP ((hmemP' c).mp hm).1
    · have hp' : isPool i = false := by simpa using hp
      have hiP : i ∉ P := fun hh => hp ((hpool i List.mem_cons_self).mpr hh)
      have hnot : i ∉ C ++ P := by
        intro hm
        rcases List.mem_append.mp hm with hm | hm
        · exact hnewC i List.mem_cons_self hm
        · exact hiP hm
      have hnp : ∀ r ∈ (e.tx i).ins, r.tx ∉ P := by
        intro r hr hrP
        rcases List.mem_cons.mp (hparents i List.mem_cons_self r hr hrP) with h1 | h1
        · exact hiP (h1 ▸ hrP)
        · exact hord.1 r.tx h1 hrP r hr rfl
      simp only [hp, Bool.false_eq_true, ↓reduceIte] at hrun
      have hstep := LedSum_confirmNew e s lh prop C P i h hnot (hid i List.mem_cons_self) hrun.1
        (haward i List.mem_cons_self hp') hnp
      have hrec := ih _ (C ++ [i]) P hrun.2 hstep hnd.2 hid'
        (fun j hj => hpool j (List.mem_cons_of_mem _ hj))
        (fun j hj hm => by
          rcases List.mem_append.mp hm with hm | hm
          · exact hnewC j (List.mem_cons_of_mem _ hj) hm
          · simp only [List.mem_cons, List.not_mem_nil, or_false] at hm; exact hne j hj hm)
        (fun j hj => haward j (List.mem_cons_of_mem _ hj))
        (fun j hj r hr hrP => by
          rcases List.mem_cons.mp (hparents j (List.mem_cons_of_mem _ hj) r hr hrP) with h3 | h3
          · exact absurd (h3 ▸ hrP) hiP
          · exact h3)
        hord.2
      apply List.Pairwise.cons
      · intro c _ hcC hcP r hr e2
        obtain ⟨u, hu, _⟩ := (XV.C03.admit_sound s lh (e.tx i) hrun.1).1 r hr
        have := (h.led.rows r.tx r.off u hu).1
        rw [e2] at this
        rcases List.mem_append.mp this with h1 | h1
        · exact hcC h1
        · exact hcP h1
      · apply List.Pairwise.imp_of_mem _ hrec
        intro a c _ hc hac hcC hcP
        apply hac _ hcP
        intro hm
        rcases List.mem_append.mp hm with hm | hm
        · exact hcC hm
        · simp only [List.mem_cons, List.not_mem_nil, or_false] at hm; exact hne c hc hm

/-- **the block order `hord` of `play_Ledger_repaired` follows from acceptance**: in a block accepted by `play` from a
state satisfying the ledger invariant, no transaction spends an output of a transaction that stands later in the block.
A citation of a later *pending* transaction is refused by `parentMissing` (`play_order_pending_ins`); a citation of a later
transaction that is *not pending* makes `admitTx` fail in `applyBlockTxs` — the output is not in the table yet, because
every row of the table belongs to a logged transaction (`blockRun_LedSum_order`). For key reads the first half holds
unconditionally (`play_order_pending_kin`: no transaction of an accepted block read a key version written by a pending
transaction that stands later); the second half needs the key tables explained by the log, see `play_block_order_kin`. -/
theorem play_block_order (e : Env) (s : St) (lh : Int) (b : Block) (C : List Nat) (h : Ledger e s C)
    (hok : (play e s lh b).2 = .ok)
    (hnd : b.txs.Nodup) (hid : ∀ i ∈ b.txs, (e.tx i).id = i) (hnewC : ∀ i ∈ b.txs, i ∉ C)
    (haward : ∀ i ∈ b.txs, i ∉ s.pool → (e.tx i).coinbase = true → (e.tx i).ins = [] ∧ feeOf (e.tx i).outs = 0) :
    b.txs.Pairwise (fun a c => ∀ r ∈ (e.tx a).ins, r.tx ≠ c) := by
  obtain ⟨s2, happ, _⟩ := play_ok_raw e s lh b hok
  have hl := h.led
  have hparents := play_parents_in_block e s lh b hok
  have hordP := play_order_pending_ins e s lh b hok hnd
  obtain ⟨_, hndP, _⟩ := List.nodup_append.mp hl.nodupA
  obtain ⟨_, hoP, _⟩ := List.pairwise_append.mp hl.order
  have hndr : s.pool.reverse.Nodup := by
    unfold List.Nodup
    rw [List.pairwise_reverse]
    exact List.Pairwise.imp (fun h => fun e2 => h e2.symm) hndP
  have hevmem : ∀ x, x ∈ s.pool.reverse.filter (fun i => (playEvict e s b).contains i) ↔
      x ∈ s.pool ∧ x ∈ playEvict e s b := by
    intro x; simp only [List.mem_filter, List.mem_reverse, List.contains_eq_mem, decide_eq_true_eq]
  have hL1 := undoFold_LedSum e (s.pool.reverse.filter (fun i => (playEvict e s b).contains i)) s C s.pool h
    (List.Nodup.sublist List.filter_sublist hndr)
    (fun t ht => ((hevmem t).mp ht).1)
    (List.Pairwise.filter _ (by rw [List.pairwise_reverse]; exact hoP))
    (fun t ht j hj hc => by
      obtain ⟨r, hr, hrt⟩ := hc
      obtain ⟨_, hte⟩ := (hevmem t).mp ht
      have hjt : j ≠ t := fun e2 => hl.noSelf j (List.mem_append_right _ hj) r hr (hrt.trans e2.symm)
      exact (hevmem j).mpr ⟨hj, playEvict_cited e s b t hte j hj hjt r hr hrt⟩)
  have hL1mem : ∀ x, x ∈ s.pool.filter
      (fun x => !(s.pool.reverse.filter (fun i => (playEvict e s b).contains i)).contains x) ↔
      x ∈ s.pool ∧ x ∉ playEvict e s b := by
    intro x
    simp only [List.mem_filter, List.contains_eq_mem, List.mem_reverse, decide_eq_true_eq,
      Bool.not_eq_eq_eq_not, Bool.not_true, decide_eq_false_iff_not, not_and]
    constructor
    · intro ⟨h1, h2⟩; exact ⟨h1, h2 h1⟩
    · intro ⟨h1, h2⟩; exact ⟨h1, fun _ => h2⟩
  have hisPool : ∀ i, ((s.pool.filter (fun i => b.txs.contains i)).filter
      (fun i => !(playEvict e s b).contains i)).contains i = true ↔
      (i ∈ s.pool ∧ i ∈ b.txs) ∧ i ∉ playEvict e s b := by
    intro i
    simp only [List.contains_eq_mem, List.mem_filter, decide_eq_true_eq, Bool.not_eq_eq_eq_not, Bool.not_true,
      decide_eq_false_iff_not]
  have hrun := applyBlockTxs_run e lh b.prop _ b.txs _ s2 happ
  have hfin := blockRun_LedSum_order e lh b.prop _ b.txs (playUndone e s b) s2 C _ hrun hL1 hnd hid
    (fun i hi => by
      rw [hL1mem, hisPool]
      exact ⟨fun hh => ⟨hh.1.1, hh.2⟩, fun hh => ⟨⟨hh.1, hi⟩, hh.2⟩⟩)
    hnewC
    (fun i hi _ hc => by
      by_cases hip : i ∈ s.pool
      · rw [h.poolNonCoinbase i hip] at hc; cases hc
      · exact haward i hi hip hc)
    (fun i hi r hr hrL => hparents i hi r hr ((hL1mem r.tx).mp hrL).1)
    (List.Pairwise.imp (fun hab hb => hab ((hL1mem _).mp hb).1) hordP)
  -- a later transaction of the block is pending (refused by the guard) or not logged (refused by admission)
  have hboth : b.txs.Pairwise (fun a c => (c ∈ s.pool → ∀ r ∈ (e.tx a).ins, r.tx ≠ c) ∧
      (c ∉ C → c ∉ s.pool.filter
        (fun x => !(s.pool.reverse.filter (fun i => (playEvict e s b).contains i)).contains x) →
        ∀ r ∈ (e.tx a).ins, r.tx ≠ c)) := List.Pairwise.and hordP hfin
  apply List.Pairwise.imp_of_mem _ hboth
  intro a c _ hc hac r hr
  by_cases hcp : c ∈ s.pool
  · exact hac.1 hcp r hr
  · exact hac.2 (hnewC c hc) (fun hm => hcp ((hL1mem c).mp hm).1) r hr

-- non-vacuity of `play_PoolLive_full` / `play_Ledger_full` on the case `hdeps` excluded. Pool [1, 2, 3, 4]: 1 only READS
-- key "k" (never written), 2 reads the same version and WRITES "k", 3 spends an output of 2, 4 is independent. The block
-- 11 = [9 (award), 2] confirms the overwriter 2 without the reader 1: `hdeps` fails (2 depends on 1 in the pool graph);
-- 1 conflicts and is evicted, 2 and its child 3 are rolled back with it, 2 is applied again from the block, 4 stays
-- pending. Both invariants hold afterwards: Σ U + fee(4) = 25 + 1 = total = 26, ghost log [100, 9, 2].
example :
    let e : Env := {
      txs := [
        (100, ⟨100, true, [], [⟨"u0", 5, 0⟩, ⟨"u0", 7, 0⟩, ⟨"u0", 4, 0⟩], [], []⟩),
        (1, ⟨1, false, [⟨100, 0, "u0", 5, 0, false⟩], [⟨"u1", 4, 0⟩, ⟨"$", 1, 0⟩], [⟨"k", none⟩], []⟩),
        (2, ⟨2, false, [⟨100, 1, "u0", 7, 0, false⟩], [⟨"u2", 6, 0⟩, ⟨"$", 1, 0⟩], [⟨"k", none⟩], [⟨"k", "a", false⟩]⟩),
        (3, ⟨3, false, [⟨2, 0, "u2", 6, 0, false⟩], [⟨"u3", 6, 0⟩], [], []⟩),
        (4, ⟨4, false, [⟨100, 2, "u0", 4, 0, false⟩], [⟨"u4", 3, 0⟩, ⟨"$", 1, 0⟩], [], []⟩),
        (9, ⟨9, true, [], [⟨"miner", 10, 0⟩], [], []⟩)],
      blocks := [(10, ⟨10, some 0, 0, [100], "g"⟩), (11, ⟨11, some 10, 1, [9, 2], "miner"⟩)] }
    let s1 := (play e {} 0 (e.block 10)).1
    let s := (doTx e (doTx e (doTx e (doTx e s1 0 1).1 0 2).1 0 3).1 0 4).1
    s.pool = [1, 2, 3, 4] ∧ (play e s 0 (e.block 11)).2 = .ok ∧
    ¬ (∀ c ∈ (e.block 11).txs, c ∈ s.pool → ∀ p ∈ s.pool, dependsOn e s.pool c p = true → p ∈ (e.block 11).txs) ∧
    playEvict e s (e.block 11) = [1, 2, 3] ∧
    PoolLive e s ∧ PoolLive e (play e s 0 (e.block 11)).1 ∧
    Ledger e s [100] ∧ Ledger e (play e s 0 (e.block 11)).1 [100, 9, 2] ∧
    (play e s 0 (e.block 11)).1.pool = [4] ∧ sumU (play e s 0 (e.block 11)).1.U = 25 ∧
    (play e s 0 (e.block 11)).1.total = 26 ∧ curVer (play e s 0 (e.block 11)).1 "k" = some (2, 0) ∧
    (e.block 11).txs.Pairwise (fun a c => ∀ r ∈ (e.tx a).ins, r.tx ≠ c) := by
  intro e s1 s
  have hok : (play e s 0 (e.block 11)).2 = .ok := by decide
  have g1 : Ledger e s1 [100] := by
    have := play_Ledger_full e {} 0 (e.block 10) [] (Ledger_genesis e) (by decide) (by decide) (by decide) (by decide)
    rw [if_pos (by decide)] at this
    exact this
  have g2 := doTx_Ledger e s1 0 1 [100] g1 (fun _ => by decide)
  have g3 := doTx_Ledger e _ 0 2 [100] g2 (fun _ => by decide)
  have g4 := doTx_Ledger e _ 0 3 [100] g3 (fun _ => by decide)
  have g5 : Ledger e s [100] := doTx_Ledger e _ 0 4 [100] g4 (fun _ => by decide)
  have g6 : Ledger e (play e s 0 (e.block 11)).1 [100, 9, 2] := by
    have := play_Ledger_full e s 0 (e.block 11) [100] g5 (by decide) (by decide) (by decide) (by decide)
    rw [if_pos hok] at this
    exact this
  have p5 : PoolLive e s := g5.toPoolLive
  have p6 : PoolLive e (play e s 0 (e.block 11)).1 := by
    apply play_PoolLive_full e s 0 (e.block 11) p5 (by decide) (by decide)
    intro i hi hnp
    have hi9 : i = 9 := by
      have hi' : i = 9 ∨ i = 2 := by simpa [e, Env.block, lookup] using hi
      rcases hi' with rfl | rfl
      · rfl
      · exact absurd (by decide) hnp
    subst hi9
    exact ⟨lookup_none_of_noid _ _ (by decide), by decide, by decide, by decide⟩
  exact ⟨by decide, hok, by decide, by decide, p5, p6, g5, g6, by decide, by decide, by decide, by decide,
    play_block_order e s 0 (e.block 11) [100] g5 hok (by decide) (by decide) (by decide) (by decide)⟩

-- the two refusals behind `play_block_order`, on concrete blocks over the confirmed state [100] with pool [6]:
-- [9, 5, 6] cites the later PENDING transaction 6 (refused by the guard, `.utxo` before anything is touched);
-- [9, 7, 8] cites the later transaction 8 that is NOT pending (refused by admission: the output is not there yet);
-- both orders [9, 6, 5] and [9, 8, 7] are accepted.
example :
    let e : Env := {
      txs := [
        (100, ⟨100, true, [], [⟨"u0", 5, 0⟩, ⟨"u0", 7, 0⟩], [], []⟩),
        (6, ⟨6, false, [⟨100, 0, "u0", 5, 0, false⟩], [⟨"u6", 5, 0⟩], [], []⟩),
        (5, ⟨5, false, [⟨6, 0, "u6", 5, 0, false⟩], [⟨"u5", 5, 0⟩], [], []⟩),
        (8, ⟨8, false, [⟨100, 1, "u0", 7, 0, false⟩], [⟨"u8", 7, 0⟩], [], []⟩),
        (7, ⟨7, false, [⟨8, 0, "u8", 7, 0, false⟩], [⟨"u7", 7, 0⟩], [], []⟩),
        (9, ⟨9, true, [], [⟨"miner", 10, 0⟩], [], []⟩)],
      blocks := [(10, ⟨10, some 0, 0, [100], "g"⟩)] }
    let s := (doTx e (play e {} 0 (e.block 10)).1 0 6).1
    s.pool = [6] ∧
    (play e s 0 ⟨11, some 10, 1, [9, 5, 6], "miner"⟩).2 = .utxo ∧ parentMissing e s.pool [] [9, 5, 6] = true ∧
    (play e s 0 ⟨11, some 10, 1, [9, 7, 8], "miner"⟩).2 = .utxo ∧ parentMissing e s.pool [] [9, 7, 8] = false ∧
    (play e s 0 ⟨11, some 10, 1, [9, 6, 5], "miner"⟩).2 = .ok ∧
    (play e s 0 ⟨11, some 10, 1, [9, 8, 7], "miner"⟩).2 = .ok := by decide

-- ================================================================ key versions: no double supersede at any reachable state

/-- **the key-version sibling of `Ledger`**, over the same ghost log: the key tables are completely explained by the
confirmed log `C` followed by the pool (`LedK`, `XV.Lemmas.PlayKeys`) — every current version and every delete marker
was written by an applied transaction, every version written by an applied transaction is current or was superseded by an
applied transaction, a superseded version is not current, and **no two applied transactions supersede the same version
of a key** (a transaction supersedes version `v` of key `k` when it reads `k@v` and writes `k`, `XV.C03.supersedes`). -/
def LedgerK (e : Env) (s : St) (C : List Nat) : Prop := LedK e s (C ++ s.pool)

/-- both reachable-state invariants over one ghost log -/
def LedgerAll (e : Env) (s : St) (C : List Nat) : Prop := Ledger e s C ∧ LedgerK e s C

theorem LedgerK_genesis (e : Env) : LedgerK e {} [] := LedK_empty e {} rfl rfl

theorem LedgerAll_genesis (e : Env) : LedgerAll e {} [] := ⟨Ledger_genesis e, LedgerK_genesis e⟩

/-- **no double supersede**: what the key ledger invariant gives at every reachable state — two distinct applied
transactions (confirmed or pending) never supersede the same version of a key; a version superseded by an applied
transaction is not current (it cannot be read, nor superseded again, by a transaction admitted now); every current
version was written by an applied transaction -/
theorem no_double_supersede {e : Env} {s : St} {C : List Nat} (h : LedgerK e s C) :
    (∀ i ∈ C ++ s.pool, ∀ j ∈ C ++ s.pool, i ≠ j →
      ∀ k v, XV.C03.supersedes (e.tx i) k v → ¬ XV.C03.supersedes (e.tx j) k v) ∧
    (∀ i ∈ C ++ s.pool, ∀ k v, XV.C03.supersedes (e.tx i) k v → curVer s k ≠ v) ∧
    (∀ k v, curVer s k = some v → v.1 ∈ C ++ s.pool) :=
  ⟨h.disjointK, h.versGone, fun k v hv => (h.curLogged k v hv).1⟩

/-- everything both invariants give at a reachable state, in one statement (`Ledger.invariants` and `no_double_supersede`) -/
theorem LedgerAll.invariants {e : Env} {s : St} {C : List Nat} (h : LedgerAll e s C) :
    UNodup s.U ∧ sumU s.U + poolFees e s.pool = s.total ∧ s.total = coinbasePaid e C ∧
    (∀ i ∈ C ++ s.pool, ∀ r ∈ (e.tx i).ins, lookup s.U (r.tx, r.off) = none) ∧
    (∀ i ∈ C ++ s.pool, ∀ j ∈ C ++ s.pool, i ≠ j →
      (∀ r ∈ (e.tx i).ins, ∀ r' ∈ (e.tx j).ins, (r.tx, r.off) ≠ (r'.tx, r'.off)) ∧
      (∀ k v, XV.C03.supersedes (e.tx i) k v → ¬ XV.C03.supersedes (e.tx j) k v)) ∧
    (∀ i ∈ C ++ s.pool, ∀ k v, XV.C03.supersedes (e.tx i) k v → curVer s k ≠ v) := by
  obtain ⟨a1, a2, a3, a4, a5, _⟩ := h.1.invariants
  obtain ⟨b1, b2, _⟩ := no_double_supersede h.2
  exact ⟨a1, a2, a3, a4, fun i hi j hj hij => ⟨a5 i hi j hj hij, b1 i hi j hj hij⟩, b2⟩

/-- **`doTx` keeps the key ledger invariant.** No causality hypothesis (`XV.C03.Causal` of `no_double_spend_pool` is a
consequence here): only that `e.tx i` has id `i`, that a confirmed transaction is not submitted again and that the
transaction writes each key once — and only for an admitted transaction. -/
theorem doTx_LedgerK (e : Env) (s : St) (lh : Int) (i : Nat) (C : List Nat) (h : LedgerK e s C)
    (hyp : (doTx e s lh i).2 = .ok → (e.tx i).id = i ∧ i ∉ C ∧ ((e.tx i).kout.map (·.key)).Nodup) :
    LedgerK e (doTx e s lh i).1 C := by
  by_cases hok : (doTx e s lh i).2 = .ok
  · obtain ⟨hnp, hadm, hs'⟩ := XV.C03.doTx_ok e s lh i hok
    obtain ⟨hid, hiC, hkw⟩ := hyp hok
    obtain ⟨_, _, hread, hwr⟩ := XV.C03.admit_sound s lh (e.tx i) hadm
    have hnot : i ∉ C ++ s.pool := by
      intro hm
      rcases List.mem_append.mp hm with hm | hm
      · exact hiC hm
      · exact hnp hm
    have := LedK_add e s (C ++ s.pool) i h hnot hid hkw hread hwr
    rw [hs']
    unfold LedgerK
    simp only
    rw [← List.append_assoc]
    exact LedK.congr this rfl rfl
  · rw [XV.C05.doTx_fail_noop e s lh i hok]; exact h

/-- **`play` keeps the key ledger invariant**, with no block-validity hypothesis (see `play_LedK`): block ids pairwise
distinct, `e.tx i` has id `i`, none already confirmed, one write per key -/
theorem play_LedgerK (e : Env) (s : St) (lh : Int) (b : Block) (C : List Nat) (h : LedgerK e s C)
    (hnd : b.txs.Nodup) (hid : ∀ i ∈ b.txs, (e.tx i).id = i) (hnewC : ∀ i ∈ b.txs, i ∉ C)
    (hkw : ∀ i ∈ b.txs, ((e.tx i).kout.map (·.key)).Nodup) :
    LedgerK e (play e s lh b).1 (if (play e s lh b).2 = .ok then C ++ b.txs else C) :=
  (play_LedK e s lh b C h hnd hid hnewC hkw).1

/-- **the block order for key reads follows from acceptance** (the key half of `play_block_order`): in a block accepted
by `play` from a state satisfying the key ledger invariant, no transaction read a key version written by a transaction
that stands later in the block. A read of a version of a later *pending* transaction is refused by `parentMissing`
(`play_order_pending_kin`, unconditional); a read of a version of a later transaction that is *not pending* makes
`admitTx` fail (`verifyRW`): the version is not current, because every current version was written by a logged
transaction. -/
theorem play_block_order_kin (e : Env) (s : St) (lh : Int) (b : Block) (C : List Nat) (h : LedgerK e s C)
    (hok : (play e s lh b).2 = .ok)
    (hnd : b.txs.Nodup) (hid : ∀ i ∈ b.txs, (e.tx i).id = i) (hnewC : ∀ i ∈ b.txs, i ∉ C)
    (hkw : ∀ i ∈ b.txs, ((e.tx i).kout.map (·.key)).Nodup) :
    b.txs.Pairwise (fun a c => ∀ ki ∈ (e.tx a).kin, ∀ v, ki.ver = some v → v.1 ≠ c) := by
  apply List.Pairwise.imp _ ((play_LedK e s lh b C h hnd hid hnewC hkw).2 hok)
  intro a c hac ki hki v hv hvc
  exact hac ⟨ki, hki, v, hv, hvc⟩

/-- **`playForMiner` keeps the key ledger invariant** (the miner's own block: the award plus pending transactions, packed
in an order in which no transaction read a version written by a later one, with the pending writers of what they read) -/
theorem playForMiner_LedgerK (e : Env) (s : St) (lh : Int) (b : Block) (C : List Nat) (h : LedgerK e s C)
    (hnd : b.txs.Nodup) (hid : ∀ i ∈ b.txs, (e.tx i).id = i) (hnewC : ∀ i ∈ b.txs, i ∉ C)
    (hsub : ∀ i ∈ b.txs, (e.tx i).coinbase = false → i ∈ s.pool)
    (hpnc : ∀ i ∈ s.pool, (e.tx i).coinbase = false)
    (hkw : ∀ i ∈ b.txs, ((e.tx i).kout.map (·.key)).Nodup)
    (hparents : ∀ i ∈ b.txs, ∀ p ∈ s.pool, citesK e i p → p ∈ b.txs)
    (hord : b.txs.Pairwise (fun a c => ¬ citesK e a c)) :
    LedgerK e (playForMiner e s lh b).1 (if (playForMiner e s lh b).2 = .ok then C ++ b.txs else C) := by
  unfold playForMiner
  by_cases h1 : b.pre ≠ some s.pointer
  · rw [if_pos h1]; simp only [reduceCtorEq, ↓reduceIte]; exact h
  · rw [if_neg h1]
    cases hgo : playForMiner.go e lh b b.txs s with
    | none => simp only [reduceCtorEq, ↓reduceIte]; exact h
    | some s2 =>
      simp only [↓reduceIte]
      have hrun := playForMiner_go_run e lh b b.txs s s2 hgo
      have := (blockRun_LedK e lh b.prop _ b.txs s s2 C s.pool hrun h hnd hid
        (fun i hi => by
          constructor
          · intro hp; exact hsub i hi (by simpa using hp)
          · intro hp; simp [hpnc i hp])
        hnewC
        (fun i hi _ => hkw i hi)
        hparents (List.Pairwise.imp (S := fun a c => c ∈ s.pool → ¬ citesK e a c) (fun hab _ => hab) hord)).1
      exact LedK.congr this rfl rfl

/-- **undoing the tip block keeps the key ledger invariant** (empty pool) -/
theorem undoBlock_LedgerK (e : Env) (s : St) (b : Block) (prune : Bool) (C0 : List Nat)
    (h : LedgerK e s (C0 ++ b.txs)) (hp : s.pool = []) :
    LedgerK e (undoBlock e s b prune) C0 ∧ (undoBlock e s b prune).pool = [] := by
  unfold LedgerK at h
  rw [hp, List.append_nil] at h
  have hrev : C0 ++ b.txs = C0 ++ b.txs.reverse.reverse := by rw [List.reverse_reverse]
  rw [hrev] at h
  have hfold := undoConfFold_LedK e b.txs.reverse s C0 h
  have hpool := undoFold_pool e b.txs.reverse s
  unfold undoBlock LedgerK
  simp only
  rw [hpool, hp, List.append_nil]
  exact ⟨LedK.congr hfold rfl rfl, rfl⟩

/-- **applying a block during a walk keeps the key ledger invariant** (empty pool) -/
theorem todoBlock_LedgerK (e : Env) (s s' : St) (lh : Int) (b : Block) (C : List Nat)
    (hs : todoBlock e s lh b = some s') (h : LedgerK e s C) (hp : s.pool = [])
    (hnd : b.txs.Nodup) (hid : ∀ i ∈ b.txs, (e.tx i).id = i) (hnewC : ∀ i ∈ b.txs, i ∉ C)
    (hkw : ∀ i ∈ b.txs, ((e.tx i).kout.map (·.key)).Nodup) :
    LedgerK e s' (C ++ b.txs) ∧ s'.pool = [] := by
  unfold todoBlock at hs
  split at hs
  · cases hs
  · split at hs
    · rename_i s2 happ
      simp only [Option.some.injEq] at hs
      subst hs
      have hrun := applyBlockTxs_run e lh b.prop [] b.txs s s2 happ
      obtain ⟨fpool, _, _⟩ := blockRun_frame _ _ _ _ _ _ _ hrun
      unfold LedgerK at h
      rw [hp] at h
      have := (blockRun_LedK e lh b.prop _ b.txs s s2 C [] hrun h hnd hid
        (fun i _ => by simp) hnewC (fun i hi _ => hkw i hi)
        (fun i _ p hpm _ => by cases hpm)
        (List.Pairwise.imp_of_mem (R := fun _ _ => True) (fun _ _ _ hb => by cases hb)
          (List.pairwise_of_forall (fun _ _ => trivial)))).1
      have hp2 : s2.pool = [] := by rw [fpool, hp]
      unfold LedgerK
      simp only [hp2]
      simp only [List.filter_nil] at this
      exact ⟨LedK.congr this rfl rfl, trivial⟩
    · cases hs

/-- a confirmed transaction that has a token input is not admitted again: its inputs are spent -/
theorem Ledger.not_confirmed_of_admitted {e : Env} {s : St} {C : List Nat} (h : Ledger e s C) (lh : Int) (i : Nat)
    (hok : (doTx e s lh i).2 = .ok) (hins : i ∈ C → (e.tx i).ins ≠ []) : i ∉ C := by
  intro hiC
  obtain ⟨r, hr⟩ := List.exists_mem_of_ne_nil _ (hins hiC)
  obtain ⟨_, hadm, _⟩ := XV.C03.doTx_ok e s lh i hok
  obtain ⟨u, hu, _⟩ := (XV.C03.admit_sound s lh (e.tx i) hadm).1 r hr
  rw [h.led.insSpent i (List.mem_append_left _ hiC) r hr] at hu
  cases hu

/-- a confirmed transaction that writes a key is not admitted again: it superseded the version it read, which is
therefore not current -/
theorem LedgerK.not_confirmed_of_admitted {e : Env} {s : St} {C : List Nat} (h : LedgerK e s C) (lh : Int) (i : Nat)
    (hok : (doTx e s lh i).2 = .ok) (hw : i ∈ C → (e.tx i).kout ≠ []) : i ∉ C := by
  intro hiC
  obtain ⟨ko, hko⟩ := List.exists_mem_of_ne_nil _ (hw hiC)
  obtain ⟨_, hadm, _⟩ := XV.C03.doTx_ok e s lh i hok
  obtain ⟨_, _, hread, hwr⟩ := XV.C03.admit_sound s lh (e.tx i) hadm
  obtain ⟨ki, hki, hkk⟩ := hwr ko hko
  have hs : XV.C03.supersedes (e.tx i) ko.key ki.ver := ⟨⟨ko, hko, rfl⟩, ki, hki, hkk, rfl⟩
  exact h.versGone i (List.mem_append_left _ hiC) ko.key ki.ver hs (by rw [← hkk]; exact hread ki hki)

/-- under both invariants a confirmed transaction with a token input or a key write is not admitted again -/
theorem LedgerAll.not_confirmed_of_admitted {e : Env} {s : St} {C : List Nat} (h : LedgerAll e s C) (lh : Int) (i : Nat)
    (hok : (doTx e s lh i).2 = .ok) (hw : i ∈ C → (e.tx i).ins ≠ [] ∨ (e.tx i).kout ≠ []) : i ∉ C := by
  intro hiC
  rcases hw hiC with h1 | h1
  · exact h.1.not_confirmed_of_admitted lh i hok (fun _ => h1) hiC
  · exact h.2.not_confirmed_of_admitted lh i hok (fun _ => h1) hiC

/-- `doTx` keeps both invariants; "a confirmed transaction is not submitted again" is only needed for a transaction
that has neither a token input nor a key write (any other confirmed transaction is refused by admission) -/
theorem doTx_LedgerAll (e : Env) (s : St) (lh : Int) (i : Nat) (C : List Nat) (h : LedgerAll e s C)
    (hyp : (doTx e s lh i).2 = .ok → (e.tx i).id = i ∧ (i ∈ C → (e.tx i).ins ≠ [] ∨ (e.tx i).kout ≠ []) ∧
      (e.tx i).coinbase = false ∧ ((e.tx i).kout.map (·.key)).Nodup) :
    LedgerAll e (doTx e s lh i).1 C :=
  ⟨doTx_Ledger e s lh i C h.1 (fun hok =>
     ⟨(hyp hok).1, h.not_confirmed_of_admitted lh i hok (hyp hok).2.1, (hyp hok).2.2.1⟩),
   doTx_LedgerK e s lh i C h.2 (fun hok =>
     ⟨(hyp hok).1, h.not_confirmed_of_admitted lh i hok (hyp hok).2.1, (hyp hok).2.2.2⟩)⟩

/-- `play` keeps both invariants, with no block-validity hypothesis -/
theorem play_LedgerAll (e : Env) (s : St) (lh : Int) (b : Block) (C : List Nat) (h : LedgerAll e s C)
    (hnd : b.txs.Nodup) (hid : ∀ i ∈ b.txs, (e.tx i).id = i) (hnewC : ∀ i ∈ b.txs, i ∉ C)
    (haward : ∀ i ∈ b.txs, i ∉ s.pool → (e.tx i).coinbase = true → (e.tx i).ins = [] ∧ feeOf (e.tx i).outs = 0)
    (hkw : ∀ i ∈ b.txs, ((e.tx i).kout.map (·.key)).Nodup) :
    LedgerAll e (play e s lh b).1 (if (play e s lh b).2 = .ok then C ++ b.txs else C) :=
  ⟨play_Ledger_full e s lh b C h.1 hnd hid hnewC haward, play_LedgerK e s lh b C h.2 hnd hid hnewC hkw⟩

theorem undoAll_LedgerAll (e : Env) (prune : Bool) (undo : List Nat) (st : St) (C0 : List Nat)
    (h : LedgerAll e st (C0 ++ blockTxs e undo.reverse)) (hp : st.pool = []) :
    ∃ C', LedgerAll e (walk.undoAll e prune undo st).1 C' ∧ (walk.undoAll e prune undo st).1.pool = [] ∧
      ((walk.undoAll e prune undo st).2 = true → C' = C0) := by
  induction undo generalizing st with
  | nil =>
    unfold walk.undoAll
    exact ⟨C0, by simpa [blockTxs] using h, hp, fun _ => rfl⟩
  | cons bi rest ih =>
    unfold walk.undoAll
    simp only
    split
    · exact ⟨_, h, hp, by simp⟩
    · rw [List.reverse_cons, blockTxs_snoc, ← List.append_assoc] at h
      obtain ⟨h1, h2⟩ := undoBlock_Ledger e st (e.block bi) prune _ h.1 hp
      obtain ⟨k1, _⟩ := undoBlock_LedgerK e st (e.block bi) prune _ h.2 hp
      exact ih _ ⟨h1, k1⟩ h2

theorem todoAll_LedgerAll (e : Env) (lh : Int) (todo : List Nat) (st : St) (C : List Nat)
    (h : LedgerAll e st C) (hp : st.pool = [])
    (hnd : (C ++ blockTxs e todo).Nodup)
    (hblk : ∀ bi ∈ todo, (∀ i ∈ (e.block bi).txs, (e.tx i).id = i) ∧
      (∀ i ∈ (e.block bi).txs, (e.tx i).coinbase = true → (e.tx i).ins = [] ∧ feeOf (e.tx i).outs = 0) ∧
      (∀ i ∈ (e.block bi).txs, ((e.tx i).kout.map (·.key)).Nodup)) :
    ∃ C', LedgerAll e (walk.todoAll e lh todo st).1 C' ∧ (walk.todoAll e lh todo st).1.pool = [] ∧
      ((walk.todoAll e lh todo st).2 = true → C' = C ++ blockTxs e todo) := by
  induction todo generalizing st C with
  | nil =>
    unfold walk.todoAll
    exact ⟨C, h, hp, fun _ => by simp [blockTxs]⟩
  | cons bi rest ih =>
    unfold walk.todoAll
    rw [blockTxs_cons] at hnd ⊢
    obtain ⟨b1, b2, b3⟩ := hblk bi List.mem_cons_self
    cases htb : todoBlock e st lh (e.block bi) with
    | none => exact ⟨C, h, hp, by simp⟩
    | some st' =>
      simp only
      obtain ⟨hndC, hndR, hdis⟩ := List.nodup_append.mp hnd
      have hnewC : ∀ i ∈ (e.block bi).txs, i ∉ C := fun i hi hc => hdis i hc i (List.mem_append_left _ hi) rfl
      obtain ⟨t1, t2⟩ := todoBlock_Ledger e st st' lh (e.block bi) C htb h.1 hp
        (List.nodup_append.mp hndR).1 b1 hnewC b2
      obtain ⟨k1, _⟩ := todoBlock_LedgerK e st st' lh (e.block bi) C htb h.2 hp
        (List.nodup_append.mp hndR).1 b1 hnewC b3
      obtain ⟨C', c1, c2, c3⟩ := ih st' (C ++ (e.block bi).txs) ⟨t1, k1⟩ t2 (by rw [List.append_assoc]; exact hnd)
        (fun bj hbj => hblk bj (List.mem_cons_of_mem _ hbj))
      exact ⟨C', c1, c2, fun hok => by rw [c3 hok, List.append_assoc]⟩

theorem readmit_LedgerAll (e : Env) (lh : Int) (pool : List Nat) (st : St) (C : List Nat) (h : LedgerAll e st C)
    (hyp : ∀ i ∈ pool, (e.tx i).id = i ∧ (i ∈ C → (e.tx i).ins ≠ [] ∨ (e.tx i).kout ≠ []) ∧
      (e.tx i).coinbase = false ∧ ((e.tx i).kout.map (·.key)).Nodup) :
    LedgerAll e (pool.foldl (fun st i => (doTx e st lh i).1) st) C := by
  induction pool generalizing st with
  | nil => exact h
  | cons i rest ih =>
    simp only [List.foldl_cons]
    apply ih _ _ (fun j hj => hyp j (List.mem_cons_of_mem _ hj))
    exact doTx_LedgerAll e st lh i C h (fun _ => hyp i List.mem_cons_self)

/-- **the block part of `walk` (`walkCore`) keeps both ledger invariants, over one ghost log**, whatever its outcome:
`walkCore_Ledger` with the key tables. The pool is rolled back newest first (nobody read a version written later, so each
transaction is undone after its readers), the blocks that end the confirmed log are undone, the blocks of the new branch
are applied (`hblk` now also asks one write per key). -/
theorem walkCore_LedgerAll (e : Env) (s : St) (lh : Int) (dest : Nat) (prune : Bool) (C C0 : List Nat)
    (h : LedgerAll e s C)
    (hundo : C = C0 ++ blockTxs e (undoTodo e s.pointer dest).1.reverse)
    (hnd : (C0 ++ blockTxs e (undoTodo e s.pointer dest).2).Nodup)
    (hblk : ∀ bi ∈ (undoTodo e s.pointer dest).2, (∀ i ∈ (e.block bi).txs, (e.tx i).id = i) ∧
      (∀ i ∈ (e.block bi).txs, (e.tx i).coinbase = true → (e.tx i).ins = [] ∧ feeOf (e.tx i).outs = 0) ∧
      (∀ i ∈ (e.block bi).txs, ((e.tx i).kout.map (·.key)).Nodup)) :
    ∃ C', LedgerAll e (XV.Crash.walkCore e s lh dest prune).1 C' ∧
      ((XV.Crash.walkCore e s lh dest prune).2 = true → C' = C0 ++ blockTxs e (undoTodo e s.pointer dest).2) := by
  unfold XV.Crash.walkCore XV.Crash.rolledBack
  simp only
  -- step 1: roll the pool back
  have hl := h.1.led
  have hk := h.2
  obtain ⟨_, hndP, hCP⟩ := List.nodup_append.mp hl.nodupA
  obtain ⟨_, hoP, _⟩ := List.pairwise_append.mp hl.order
  obtain ⟨_, hkP, hkCP⟩ := List.pairwise_append.mp hk.orderK
  have hndr : s.pool.reverse.Nodup := by
    unfold List.Nodup
    rw [List.pairwise_reverse]
    exact List.Pairwise.imp (fun h => fun e2 => h e2.symm) hndP
  have hfold := undoFold_LedSum e s.pool.reverse s C s.pool h.1 hndr (fun t ht => List.mem_reverse.mp ht)
    (by rw [List.pairwise_reverse]; exact hoP) (fun t _ j hj _ => List.mem_reverse.mpr hj)
  have hnil : s.pool.filter (fun x => !s.pool.reverse.contains x) = [] := by
    apply List.filter_eq_nil_iff.mpr; intro a ha; simp [ha]
  rw [hnil] at hfold
  have hfoldK := undoFold_LedK e s.pool.reverse s (C ++ s.pool) hk hndr
    (fun t ht => List.mem_append_right _ (List.mem_reverse.mp ht))
    (by rw [List.pairwise_reverse]; exact hkP)
    (fun t ht j hj hc => by
      rcases List.mem_append.mp hj with hjC | hjP
      · exact absurd hc (hkCP j hjC t (List.mem_reverse.mp ht))
      · exact List.mem_reverse.mpr hjP)
  have hfilA : (C ++ s.pool).filter (fun x => !s.pool.reverse.contains x) = C ++ [] := by
    rw [List.filter_append, hnil]
    congr 1
    apply List.filter_eq_self.mpr
    intro a ha
    have hap : a ∉ s.pool := fun hm => hCP a ha a hm rfl
    simp [hap]
  rw [hfilA] at hfoldK
  have h0 : LedgerAll e { (s.pool.reverse.foldl (fun st i => undoTx e st (e.tx i)) s) with pool := [] }
      (C0 ++ blockTxs e (undoTodo e s.pointer dest).1.reverse) := by
    rw [← hundo]; exact ⟨LedSum.congr hfold rfl rfl, LedK.congr hfoldK rfl rfl⟩
  -- step 2: undo blocks
  obtain ⟨C1, u1, u2, u3⟩ := undoAll_LedgerAll e prune (undoTodo e s.pointer dest).1 _ C0 h0 rfl
  cases hr1 : (walk.undoAll e prune (undoTodo e s.pointer dest).1
      { (s.pool.reverse.foldl (fun st i => undoTx e st (e.tx i)) s) with pool := [] }).2 with
  | false => exact ⟨C1, by simpa [hr1] using u1, by simp [hr1]⟩
  | true =>
    simp only [hr1, Bool.not_true, Bool.false_eq_true, ↓reduceIte]
    have hC1 := u3 hr1
    rw [hC1] at u1
    -- step 3: apply blocks
    obtain ⟨C2, t1, _, t3⟩ := todoAll_LedgerAll e lh (undoTodo e s.pointer dest).2 _ C0 u1 u2 hnd hblk
    exact ⟨C2, t1, t3⟩

/-- **`walk` with ANY re-admission list `L` taken from the old pool keeps both ledger invariants** (see `walkL_Ledger`).
`hre` is weaker than there: a re-submitted transaction that the new branch confirms has a token input OR writes a key —
either way admission refuses it on re-submission (its input is spent / the version it read was superseded by itself). -/
theorem walkL_LedgerAll (e : Env) (s : St) (lh : Int) (dest : Nat) (prune : Bool) (C C0 : List Nat)
    (h : LedgerAll e s C)
    (hundo : C = C0 ++ blockTxs e (undoTodo e s.pointer dest).1.reverse)
    (hnd : (C0 ++ blockTxs e (undoTodo e s.pointer dest).2).Nodup)
    (hblk : ∀ bi ∈ (undoTodo e s.pointer dest).2, (∀ i ∈ (e.block bi).txs, (e.tx i).id = i) ∧
      (∀ i ∈ (e.block bi).txs, (e.tx i).coinbase = true → (e.tx i).ins = [] ∧ feeOf (e.tx i).outs = 0) ∧
      (∀ i ∈ (e.block bi).txs, ((e.tx i).kout.map (·.key)).Nodup))
    (L : List Nat) (hL : ∀ i ∈ L, i ∈ s.pool)
    (hre : ∀ i ∈ L, i ∈ C0 ++ blockTxs e (undoTodo e s.pointer dest).2 →
      (e.tx i).ins ≠ [] ∨ (e.tx i).kout ≠ []) :
    ∃ C', LedgerAll e (if (XV.Crash.walkCore e s lh dest prune).2 = true then
          (L.foldl (fun st i => (doTx e st lh i).1) (XV.Crash.walkCore e s lh dest prune).1, true)
        else ((XV.Crash.walkCore e s lh dest prune).1, false)).1 C' ∧
      ((if (XV.Crash.walkCore e s lh dest prune).2 = true then
          (L.foldl (fun st i => (doTx e st lh i).1) (XV.Crash.walkCore e s lh dest prune).1, true)
        else ((XV.Crash.walkCore e s lh dest prune).1, false)).2 = true →
        C' = C0 ++ blockTxs e (undoTodo e s.pointer dest).2) := by
  obtain ⟨C', c1, c2⟩ := walkCore_LedgerAll e s lh dest prune C C0 h hundo hnd hblk
  by_cases hok : (XV.Crash.walkCore e s lh dest prune).2 = true
  · rw [if_pos hok]
    have hC := c2 hok
    rw [hC] at c1
    refine ⟨_, readmit_LedgerAll e lh L _ _ c1 ?_, fun _ => rfl⟩
    intro i hi
    have hip := hL i hi
    exact ⟨h.1.led.idEq i (List.mem_append_right _ hip), hre i hi, h.1.poolNonCoinbase i hip,
      (h.2.wf i (List.mem_append_right _ hip)).koutNodup⟩
  · rw [if_neg hok]
    exact ⟨C', c1, fun hf => by cases hf⟩

/-- **`walk` keeps both ledger invariants, over one ghost log**, whatever its outcome: `walk_Ledger_hre` with the key
tables; the rolled-back transactions of `repostList e s` (the old pool without `e.skipRepost`; restated from `s.pool`
after the repair of `recoverUnconfirmedTx`) are re-submitted. General form with the dynamic hypothesis `hre`, which is
weaker than in `walk_Ledger_hre`: a re-submitted transaction that the new branch confirms has a token input OR writes a
key. What is left out is exactly the witness of `XV.C01.walk_Ledger_needs_skip`: a transaction that spends nothing and
writes nothing is re-admitted although the new branch confirmed it — unless the skip list names it, see `walk_LedgerK`
below. -/
theorem walk_LedgerK_hre (e : Env) (s : St) (lh : Int) (dest : Nat) (prune : Bool) (C C0 : List Nat)
    (h : LedgerAll e s C)
    (hundo : C = C0 ++ blockTxs e (undoTodo e s.pointer dest).1.reverse)
    (hnd : (C0 ++ blockTxs e (undoTodo e s.pointer dest).2).Nodup)
    (hblk : ∀ bi ∈ (undoTodo e s.pointer dest).2, (∀ i ∈ (e.block bi).txs, (e.tx i).id = i) ∧
      (∀ i ∈ (e.block bi).txs, (e.tx i).coinbase = true → (e.tx i).ins = [] ∧ feeOf (e.tx i).outs = 0) ∧
      (∀ i ∈ (e.block bi).txs, ((e.tx i).kout.map (·.key)).Nodup))
    (hre : ∀ i ∈ repostList e s, i ∈ C0 ++ blockTxs e (undoTodo e s.pointer dest).2 →
      (e.tx i).ins ≠ [] ∨ (e.tx i).kout ≠ []) :
    ∃ C', LedgerAll e (walk e s lh dest prune).1 C' ∧
      ((walk e s lh dest prune).2 = true → C' = C0 ++ blockTxs e (undoTodo e s.pointer dest).2) := by
  rw [XV.Crash.walk_eq_core]
  exact walkL_LedgerAll e s lh dest prune C C0 h hundo hnd hblk (repostList e s) (repostList_subset e s) hre

/-- **`walk` keeps both ledger invariants — no hypothesis on the re-submitted transactions**: `walk_LedgerK_hre` with `hre`
discharged by what the ledger guarantees of the skip list (`hskip`, see `walk_Ledger`). In particular the pure reader
confirmed by the branch walked to (the witness of `XV.C01.walk_Ledger_needs_skip`) is no longer re-admitted. -/
theorem walk_LedgerK (e : Env) (s : St) (lh : Int) (dest : Nat) (prune : Bool) (C C0 : List Nat)
    (h : LedgerAll e s C)
    (hundo : C = C0 ++ blockTxs e (undoTodo e s.pointer dest).1.reverse)
    (hnd : (C0 ++ blockTxs e (undoTodo e s.pointer dest).2).Nodup)
    (hblk : ∀ bi ∈ (undoTodo e s.pointer dest).2, (∀ i ∈ (e.block bi).txs, (e.tx i).id = i) ∧
      (∀ i ∈ (e.block bi).txs, (e.tx i).coinbase = true → (e.tx i).ins = [] ∧ feeOf (e.tx i).outs = 0) ∧
      (∀ i ∈ (e.block bi).txs, ((e.tx i).kout.map (·.key)).Nodup))
    (hskip : SkipsConfirmed e s (C0 ++ blockTxs e (undoTodo e s.pointer dest).2)) :
    ∃ C', LedgerAll e (walk e s lh dest prune).1 C' ∧
      ((walk e s lh dest prune).2 = true → C' = C0 ++ blockTxs e (undoTodo e s.pointer dest).2) :=
  walk_LedgerK_hre e s lh dest prune C C0 h hundo hnd hblk (fun i hi hc => absurd hc (hskip.not_confirmed i hi))

/-- **the same with the skip list supplied for this walk** (see `walk_Ledger_withSkip`) -/
theorem walk_LedgerK_withSkip (e : Env) (l : List Nat) (s : St) (lh : Int) (dest : Nat) (prune : Bool)
    (C C0 : List Nat) (h : LedgerAll e s C)
    (hundo : C = C0 ++ blockTxs e (undoTodo e s.pointer dest).1.reverse)
    (hnd : (C0 ++ blockTxs e (undoTodo e s.pointer dest).2).Nodup)
    (hblk : ∀ bi ∈ (undoTodo e s.pointer dest).2, (∀ i ∈ (e.block bi).txs, (e.tx i).id = i) ∧
      (∀ i ∈ (e.block bi).txs, (e.tx i).coinbase = true → (e.tx i).ins = [] ∧ feeOf (e.tx i).outs = 0) ∧
      (∀ i ∈ (e.block bi).txs, ((e.tx i).kout.map (·.key)).Nodup))
    (hskip : ∀ i ∈ s.pool, i ∈ C0 ++ blockTxs e (undoTodo e s.pointer dest).2 → i ∈ l) :
    ∃ C', LedgerAll e (walk (e.withSkip l) s lh dest prune).1 C' ∧
      ((walk (e.withSkip l) s lh dest prune).2 = true → C' = C0 ++ blockTxs e (undoTodo e s.pointer dest).2) := by
  rw [XV.Crash.walk_withSkip]
  apply walkL_LedgerAll e s lh dest prune C C0 h hundo hnd hblk _ (fun i hi => (List.mem_filter.mp hi).1)
  intro i hi hc
  obtain ⟨hp, hn⟩ := List.mem_filter.mp hi
  have : i ∈ l := hskip i hp hc
  simp [this] at hn

-- non-vacuity of the key ledger theorems: a whole history with key reads and writes. Transaction 1 only READS "k" (never
-- written), 2 reads the same version and WRITES "k", 3 spends an output of 2, 4 is independent, 5 reads "k" at the
-- version written by 2 and writes it again (no tokens). Blocks: 10 = [100 (genesis)], 11 = [9 (award), 2] on 10 — the
-- overwriter without its pending reader: 1 is evicted, 2 and 3 are rolled back, 2 is applied again —, 12 = [8 (award), 1]
-- on 10 (a sibling of 11), 13 = [9, 1, 2] on 10 (what the miner would pack).
--   submissions 1 2 3 4, block 11 played (pool [4]), submission 5 (pool [4, 5]: 2 superseded "k"@never-written, 5
--   supersedes "k"@(2,0)), then a walk to 12: pool rolled back, block 11 undone ("k" never written again), block 12
--   applied, 4 re-admitted, 5 refused (the version it read is gone). Both invariants hold after every step, over the
--   ghost logs [100], [100, 9, 2], [100, 8, 1].
private def kEnv : Env := {
  txs := [
    (100, ⟨100, true, [], [⟨"u0", 5, 0⟩, ⟨"u0", 7, 0⟩, ⟨"u0", 4, 0⟩], [], []⟩),
    (1, ⟨1, false, [⟨100, 0, "u0", 5, 0, false⟩], [⟨"u1", 4, 0⟩, ⟨"$", 1, 0⟩], [⟨"k", none⟩], []⟩),
    (2, ⟨2, false, [⟨100, 1, "u0", 7, 0, false⟩], [⟨"u2", 6, 0⟩, ⟨"$", 1, 0⟩], [⟨"k", none⟩], [⟨"k", "a", false⟩]⟩),
    (3, ⟨3, false, [⟨2, 0, "u2", 6, 0, false⟩], [⟨"u3", 6, 0⟩], [], []⟩),
    (4, ⟨4, false, [⟨100, 2, "u0", 4, 0, false⟩], [⟨"u4", 3, 0⟩, ⟨"$", 1, 0⟩], [], []⟩),
    (5, ⟨5, false, [], [], [⟨"k", some (2, 0)⟩], [⟨"k", "b", false⟩]⟩),
    (9, ⟨9, true, [], [⟨"miner", 10, 0⟩], [], []⟩),
    (8, ⟨8, true, [], [⟨"miner2", 10, 0⟩], [], []⟩)],
  blocks := [(10, ⟨10, some 0, 0, [100], "g"⟩), (11, ⟨11, some 10, 1, [9, 2], "miner"⟩),
             (12, ⟨12, some 10, 1, [8, 1], "miner2"⟩), (13, ⟨13, some 10, 1, [9, 1, 2], "miner"⟩),
             (14, ⟨14, some 10, 1, [8, 2, 5], "miner2"⟩)] }

private def kS1 : St := (play kEnv {} 0 (kEnv.block 10)).1
private def kS4 : St := (doTx kEnv (doTx kEnv (doTx kEnv (doTx kEnv kS1 0 1).1 0 2).1 0 3).1 0 4).1
private def kS5 : St := (play kEnv kS4 0 (kEnv.block 11)).1
private def kS6 : St := (doTx kEnv kS5 0 5).1
private def kS7 : St := (walk kEnv kS6 0 12 false).1

private theorem kS1_all : LedgerAll kEnv kS1 [100] := by
  have := play_LedgerAll kEnv {} 0 (kEnv.block 10) [] (LedgerAll_genesis kEnv) (by decide) (by decide) (by decide)
    (by decide) (by decide)
  rw [if_pos (by decide)] at this
  exact this

private theorem kS4_all : LedgerAll kEnv kS4 [100] := by
  have g2 := doTx_LedgerAll kEnv kS1 0 1 [100] kS1_all (fun _ => by decide)
  have g3 := doTx_LedgerAll kEnv _ 0 2 [100] g2 (fun _ => by decide)
  have g4 := doTx_LedgerAll kEnv _ 0 3 [100] g3 (fun _ => by decide)
  exact doTx_LedgerAll kEnv _ 0 4 [100] g4 (fun _ => by decide)

private theorem kS5_ok : (play kEnv kS4 0 (kEnv.block 11)).2 = .ok := by decide

private theorem kS5_all : LedgerAll kEnv kS5 [100, 9, 2] := by
  have := play_LedgerAll kEnv kS4 0 (kEnv.block 11) [100] kS4_all (by decide) (by decide) (by decide) (by decide)
    (by decide)
  rw [if_pos kS5_ok] at this
  exact this

private theorem kS6_all : LedgerAll kEnv kS6 [100, 9, 2] :=
  doTx_LedgerAll kEnv kS5 0 5 [100, 9, 2] kS5_all (fun _ => by decide)

private theorem kS7_ok : (walk kEnv kS6 0 12 false).2 = true := by decide

private theorem kS7_all : LedgerAll kEnv kS7 [100, 8, 1] := by
  obtain ⟨C', c1, c2⟩ := walk_LedgerK kEnv kS6 0 12 false [100, 9, 2] [100] kS6_all (by decide) (by decide) (by decide)
    (by decide)
  have hC : C' = [100, 8, 1] := (c2 kS7_ok).trans (by decide)
  rw [hC] at c1
  exact c1

example :
    kS4.pool = [1, 2, 3, 4] ∧ (play kEnv kS4 0 (kEnv.block 11)).2 = .ok ∧ kS5.pool = [4] ∧ kS6.pool = [4, 5] ∧
    (walk kEnv kS6 0 12 false).2 = true ∧ kS7.pool = [4] ∧ kS7.pointer = 12 ∧
    LedgerAll kEnv kS4 [100] ∧ LedgerAll kEnv kS5 [100, 9, 2] ∧ LedgerAll kEnv kS6 [100, 9, 2] ∧
    LedgerAll kEnv kS7 [100, 8, 1] ∧
    XV.C03.supersedes (kEnv.tx 2) "k" none ∧ XV.C03.supersedes (kEnv.tx 5) "k" (some (2, 0)) ∧
    curVer kS4 "k" = some (2, 0) ∧ curVer kS6 "k" = some (5, 0) ∧ curVer kS7 "k" = none :=
  ⟨by decide, kS5_ok, by decide, by decide, kS7_ok, by decide, by decide, kS4_all, kS5_all, kS6_all, kS7_all,
   ⟨⟨_, List.mem_cons_self, rfl⟩, ⟨_, List.mem_cons_self, rfl, rfl⟩⟩,
   ⟨⟨_, List.mem_cons_self, rfl⟩, ⟨_, List.mem_cons_self, rfl, rfl⟩⟩, by decide, by decide, by decide⟩

-- `play_block_order_kin` on the accepted block 11, and `no_double_supersede` at the state with two superseding writers
example : (kEnv.block 11).txs.Pairwise (fun a c => ∀ ki ∈ (kEnv.tx a).kin, ∀ v, ki.ver = some v → v.1 ≠ c) :=
  play_block_order_kin kEnv kS4 0 (kEnv.block 11) [100] kS4_all.2 kS5_ok (by decide) (by decide) (by decide) (by decide)

example : ∀ k v, XV.C03.supersedes (kEnv.tx 2) k v → ¬ XV.C03.supersedes (kEnv.tx 5) k v :=
  (no_double_supersede kS6_all.2).1 2 (by decide) 5 (by decide) (by decide)

-- `LedgerAll.invariants` at the state with pool [4, 5]: conservation and the key facts from one hypothesis
example : sumU kS6.U + poolFees kEnv kS6.pool = kS6.total ∧ kS6.total = 26 ∧
    (∀ k v, XV.C03.supersedes (kEnv.tx 2) k v → curVer kS6 k ≠ v) :=
  ⟨(LedgerAll.invariants kS6_all).2.1, by decide, (LedgerAll.invariants kS6_all).2.2.2.2.2 2 (by decide)⟩

-- the weaker `hre` of `walk_LedgerK_hre` at work (default environment, nothing skipped): from the same state (pointer 11, pool [4, 5]) a walk to the sibling block
-- 14 = [8 (award), 2, 5], which confirms the pending transaction 5. Transaction 5 has NO token input, but it writes "k": on
-- re-submission it is refused (the version "k"@(2,0) it read is superseded — by itself), the pool ends as [4].
private theorem kS8_ok : (walk kEnv kS6 0 14 false).2 = true := by decide

example :
    (walk kEnv kS6 0 14 false).2 = true ∧ (walk kEnv kS6 0 14 false).1.pool = [4] ∧ (kEnv.tx 5).ins = [] ∧
    LedgerAll kEnv (walk kEnv kS6 0 14 false).1 [100, 8, 2, 5] ∧
    curVer (walk kEnv kS6 0 14 false).1 "k" = some (5, 0) := by
  have g : LedgerAll kEnv (walk kEnv kS6 0 14 false).1 [100, 8, 2, 5] := by
    obtain ⟨C', c1, c2⟩ := walk_LedgerK_hre kEnv kS6 0 14 false [100, 9, 2] [100] kS6_all (by decide) (by decide)
      (by decide) (by decide)
    have hC : C' = [100, 8, 2, 5] := (c2 kS8_ok).trans (by decide)
    rw [hC] at c1
    exact c1
  exact ⟨kS8_ok, by decide, by decide, g, by decide⟩

-- the same walk with the skip list the ledger supplies for it ([5]: block 14 confirms the pending transaction 5): 5 is not
-- even re-submitted; same result, by `walk_LedgerK_withSkip` — no hypothesis on the transactions
example :
    (walk (kEnv.withSkip [5]) kS6 0 14 false).2 = true ∧ (walk (kEnv.withSkip [5]) kS6 0 14 false).1.pool = [4] ∧
    repostList (kEnv.withSkip [5]) kS6 = [4] ∧
    LedgerAll kEnv (walk (kEnv.withSkip [5]) kS6 0 14 false).1 [100, 8, 2, 5] := by
  have g : LedgerAll kEnv (walk (kEnv.withSkip [5]) kS6 0 14 false).1 [100, 8, 2, 5] := by
    obtain ⟨C', c1, c2⟩ := walk_LedgerK_withSkip kEnv [5] kS6 0 14 false [100, 9, 2] [100] kS6_all (by decide)
      (by decide) (by decide) (by decide)
    have hC : C' = [100, 8, 2, 5] := (c2 (by decide)).trans (by decide)
    rw [hC] at c1
    exact c1
  exact ⟨by decide, by decide, by decide, g⟩

-- non-vacuity of `playForMiner_LedgerK`: from the pool [1, 2] the miner packs block 13 = [9, 1, 2] (reader before overwriter)
private def kM2 : St := (doTx kEnv (doTx kEnv kS1 0 1).1 0 2).1

private theorem kM2_all : LedgerK kEnv kM2 [100] := by
  have g2 := doTx_LedgerK kEnv kS1 0 1 [100] kS1_all.2 (fun _ => by decide)
  exact doTx_LedgerK kEnv _ 0 2 [100] g2 (fun _ => by decide)

private theorem kM2_ok : (playForMiner kEnv kM2 0 (kEnv.block 13)).2 = .ok := by decide

example :
    kM2.pool = [1, 2] ∧ (playForMiner kEnv kM2 0 (kEnv.block 13)).2 = .ok ∧ LedgerK kEnv kM2 [100] ∧
    LedgerK kEnv (playForMiner kEnv kM2 0 (kEnv.block 13)).1 [100, 9, 1, 2] ∧
    curVer (playForMiner kEnv kM2 0 (kEnv.block 13)).1 "k" = some (2, 0) := by
  have g4 : LedgerK kEnv (playForMiner kEnv kM2 0 (kEnv.block 13)).1 [100, 9, 1, 2] := by
    have := playForMiner_LedgerK kEnv kM2 0 (kEnv.block 13) [100] kM2_all (by decide) (by decide) (by decide)
      (by decide) (by decide) (by decide) (by decide) (by decide)
    rw [if_pos kM2_ok] at this
    exact this
  exact ⟨by decide, kM2_ok, kM2_all, g4, by decide⟩

end XV.C02
