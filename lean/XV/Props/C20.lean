import XV.Model.Crc32
import XV.Model.Msg
import XV.Model.Dispatch
/-!
C20 — p2p messages decode to what was sent, corruption is detected, dispatch is exact.
-/
namespace XV.C20
open XV.Crc32

/-! ## CRC-32: every burst of ≤ 32 bits is detected -/

private theorem mask_xor (a b : Bool) : mask (a != b) = mask a ^^^ mask b := by
  cases a <;> cases b <;> simp [mask]

/-- GF(2)-linearity of the register update in (register, message bit). -/
theorem crc_linear (s t : BitVec 32) (a b : Bool) :
    step (s ^^^ t) (a != b) = step s a ^^^ step t b := by
  unfold step
  have h : ((s ^^^ t).getLsbD 0 != (a != b)) = ((s.getLsbD 0 != a) != (t.getLsbD 0 != b)) := by
    rw [BitVec.getLsbD_xor]
    cases s.getLsbD 0 <;> cases t.getLsbD 0 <;> cases a <;> cases b <;> rfl
  rw [h, mask_xor, BitVec.ushiftRight_xor_distrib]
  ac_rfl

/-- linearity lifted to whole bit strings of equal length -/
theorem run_linear (p e : List Bool) (hlen : p.length = e.length) (s t : BitVec 32) :
    run (s ^^^ t) (xorBits p e) = run s p ^^^ run t e := by
  induction p generalizing e s t with
  | nil =>
    cases e with
    | nil => simp [run, xorBits]
    | cons _ _ => simp at hlen
  | cons a p ih =>
    cases e with
    | nil => simp at hlen
    | cons b e =>
      have hl : p.length = e.length := by simpa using hlen
      have := ih e hl (step s a) (step t b)
      simp only [run, xorBits, List.zipWith_cons_cons, List.foldl_cons] at this ⊢
      rw [crc_linear]; exact this

private theorem poly_top : poly.getLsbD 31 = true := by decide

private theorem step_top (s : BitVec 32) (b : Bool) :
    (step s b).getLsbD 31 = (s.getLsbD 0 != b) := by
  unfold step
  rw [BitVec.getLsbD_xor, BitVec.getLsbD_ushiftRight]
  have : s.getLsbD (1 + 31) = false := by
    apply BitVec.getLsbD_of_ge; omega
  rw [this]
  cases (s.getLsbD 0 != b) <;> simp [mask, poly_top]

/-- The zero-bit step has an explicit inverse … -/
theorem zero_step_inverse (s : BitVec 32) : zeroStepInv (step s false) = s := by
  have htop := step_top s false
  simp only [Bool.bne_false] at htop
  unfold zeroStepInv
  simp only [htop]
  have hx : step s false ^^^ mask (s.getLsbD 0) = s >>> 1 := by
    unfold step
    simp only [Bool.bne_false]
    rw [BitVec.xor_assoc, BitVec.xor_self, BitVec.xor_zero]
  rw [hx]
  apply BitVec.eq_of_getLsbD_eq
  intro i hi
  rw [BitVec.getLsbD_or, BitVec.getLsbD_shiftLeft, BitVec.getLsbD_ushiftRight]
  by_cases h0 : i = 0
  · subst h0
    cases s.getLsbD 0 <;> simp
  · have h1 : ¬ i < 1 := by omega
    have h2 : 1 + (i - 1) = i := by omega
    cases hc : s.getLsbD 0 <;> simp [hi, h1, h2] <;> omega

/-- … hence it is injective: feeding zero bits never merges two register values. -/
theorem zero_step_injective (s t : BitVec 32) (h : step s false = step t false) : s = t := by
  rw [← zero_step_inverse s, ← zero_step_inverse t, h]

/-! ### a non-zero burst of ≤ 32 bits leaves a non-zero register -/

/-- bits `32-k … 31` of `s` are zero -/
private def TopZero (k : Nat) (s : BitVec 32) : Prop := ∀ i, 32 - k ≤ i → i < 32 → s.getLsbD i = false

private theorem topZero_of_zero (k : Nat) : TopZero k 0#32 := by
  intro i _ _; simp

/-- if the top `k+1` bits after a step are zero, no feedback happened and the top `k` bits before were zero -/
private theorem step_topZero (k : Nat) (hk : k + 1 ≤ 32) (s : BitVec 32) (b : Bool)
    (h : TopZero (k + 1) (step s b)) : TopZero k s ∧ s.getLsbD 0 = b := by
  have hfb : (s.getLsbD 0 != b) = false := by
    rw [← step_top]; exact h 31 (by omega) (by omega)
  have hs : step s b = s >>> 1 := by
    unfold step; rw [hfb]; simp [mask]
  refine ⟨?_, by simpa using hfb⟩
  intro i hlo hi
  by_cases h0 : i = 0
  · omega
  · have := h (i - 1) (by omega) (by omega)
    rw [hs, BitVec.getLsbD_ushiftRight] at this
    have h2 : 1 + (i - 1) = i := by omega
    rwa [h2] at this

private theorem step_zero_false : step 0#32 false = 0#32 := by decide

private theorem run_topZero (bits : List Bool) (k : Nat) (s : BitVec 32) (hk : k + bits.length ≤ 32)
    (h : TopZero (k + bits.length) (run s bits)) :
    TopZero k s ∧ (s = 0#32 → ∀ b ∈ bits, b = false) := by
  induction bits generalizing k s with
  | nil => exact ⟨by simpa [run] using h, by simp⟩
  | cons b bs ih =>
    have hk' : (k + 1) + bs.length ≤ 32 := by simp at hk; omega
    have h' : TopZero ((k + 1) + bs.length) (run (step s b) bs) := by
      have e : (k + 1) + bs.length = k + (b :: bs).length := by simp; omega
      rw [e]; simpa [run] using h
    obtain ⟨h1, h2⟩ := ih (k + 1) (step s b) hk' h'
    obtain ⟨h3, h4⟩ := step_topZero k (by omega) s b h1
    refine ⟨h3, ?_⟩
    intro hs0 x hx
    subst hs0
    have hb : b = false := by rw [← h4]; simp
    subst hb
    rcases List.mem_cons.mp hx with hx | hx
    · exact hx
    · exact h2 step_zero_false x hx

/-- The map "first ≤ 32 bits ↦ register" has trivial kernel: a burst of at most 32 bits fed into the
zero register leaves it zero only if every bit of the burst is zero. -/
theorem burst_state_nonzero (burst : List Bool) (hlen : burst.length ≤ 32) (hnz : true ∈ burst) :
    run 0#32 burst ≠ 0#32 := by
  intro h
  have ht : TopZero (0 + burst.length) (run 0#32 burst) := by rw [h]; exact topZero_of_zero _
  have := (run_topZero burst 0 0#32 (by omega) ht).2 rfl true hnz
  exact absurd this (by decide)

private theorem run_zeros_zero (n : Nat) : run 0#32 (List.replicate n false) = 0#32 := by
  induction n with
  | zero => rfl
  | succ n ih => simpa [run, List.replicate_succ, step_zero_false] using ih

private theorem run_zeros_ne (n : Nat) (s : BitVec 32) (hs : s ≠ 0#32) :
    run s (List.replicate n false) ≠ 0#32 := by
  induction n generalizing s with
  | zero => simpa [run] using hs
  | succ n ih =>
    simp only [run, List.replicate_succ, List.foldl_cons]
    apply ih
    intro h0
    apply hs
    apply zero_step_injective
    rw [h0, step_zero_false]

private theorem run_append (s : BitVec 32) (xs ys : List Bool) : run s (xs ++ ys) = run (run s xs) ys := by
  simp [run, List.foldl_append]

/-- an error pattern confined to at most 32 consecutive bit positions, not all zero -/
def IsBurst (e : List Bool) : Prop :=
  ∃ (pre : Nat) (burst : List Bool) (suf : Nat),
    e = List.replicate pre false ++ burst ++ List.replicate suf false ∧ burst.length ≤ 32 ∧ true ∈ burst

/-- **Headline.** For every payload `p` (any length) and every error pattern `e` of the same length
that is non-zero and confined to ≤ 32 consecutive bits (any position), the CRC-32 of the corrupted
payload differs from the CRC-32 of the payload. -/
theorem crc_detects_bursts (p e : List Bool) (hlen : p.length = e.length) (hb : IsBurst e) :
    crcBits (xorBits p e) ≠ crcBits p := by
  obtain ⟨pre, burst, suf, he, hbl, hnz⟩ := hb
  have hE : run 0#32 e ≠ 0#32 := by
    rw [he, run_append, run_append, run_zeros_zero]
    exact run_zeros_ne suf _ (burst_state_nonzero burst hbl hnz)
  intro h
  unfold crcBits at h
  have h' : run init (xorBits p e) = run init p := by
    have := congrArg (fun x => ~~~ x) h
    simpa using this
  have hl := run_linear p e hlen init 0#32
  rw [BitVec.xor_zero, h'] at hl
  apply hE
  have : run init p ^^^ run init p = run init p ^^^ (run init p ^^^ run 0#32 e) :=
    congrArg (fun x => run init p ^^^ x) hl
  rw [BitVec.xor_self, ← BitVec.xor_assoc, BitVec.xor_self, BitVec.zero_xor] at this
  exact this.symm

/-- Single-bit flips are the 1-bit case: flipping any one bit of any payload changes the CRC. -/
theorem crc_detects_single_bit_flip (p : List Bool) (i : Nat) (hi : i < p.length) :
    crcBits (p.set i (!p[i])) ≠ crcBits p := by
  let e := List.replicate i false ++ [true] ++ List.replicate (p.length - i - 1) false
  have hel : p.length = e.length := by simp [e]; omega
  have hb : IsBurst e := ⟨i, [true], p.length - i - 1, rfl, by simp, by simp⟩
  have hx : xorBits p e = p.set i (!p[i]) := by
    apply List.ext_getElem
    · simp [xorBits, e]; omega
    · intro n h1 h2
      simp only [xorBits, List.getElem_zipWith, List.getElem_set]
      have hn : n < p.length := by simpa [xorBits, ← hel] using h1
      by_cases hni : i = n
      · subst hni
        simp [e, List.getElem_append_right]
      · simp only [hni, if_false]
        have : e[n]'(by rw [← hel]; exact hn) = false := by
          simp only [e]
          by_cases hlt : n < i
          · rw [List.getElem_append_left (by simp; omega), List.getElem_append_left (by simpa using hlt)]
            simp
          · rw [List.getElem_append_right (by simp; omega)]
            simp
        rw [this]; simp
  rw [← hx]
  exact crc_detects_bursts p e hel hb

/-! ### the same on byte strings (what `crc32.ChecksumIEEE` is applied to) -/

private theorem byteBits_length (b : Byte) : (byteBits b).length = 8 := rfl

private theorem byteBits_xor (a b : Byte) : byteBits (a ^^^ b) = xorBits (byteBits a) (byteBits b) := by
  simp [byteBits, xorBits]

private theorem xorBits_append (a b c d : List Bool) (h : a.length = c.length) :
    xorBits (a ++ b) (c ++ d) = xorBits a c ++ xorBits b d := by
  unfold xorBits
  exact List.zipWith_append h

/-- the bits of a bytewise xor are the bitwise xor of the bits -/
theorem bytesBits_xor (p e : List Byte) (h : p.length = e.length) :
    bytesBits (xorBytes p e) = xorBits (bytesBits p) (bytesBits e) := by
  induction p generalizing e with
  | nil => cases e <;> simp_all [bytesBits, xorBytes, xorBits]
  | cons a p ih =>
    cases e with
    | nil => simp at h
    | cons b e =>
      have hl : p.length = e.length := by simpa using h
      have := ih e hl
      simp only [bytesBits, xorBytes, List.zipWith_cons_cons, List.flatMap_cons] at this ⊢
      rw [xorBits_append _ _ _ _ (by simp [byteBits_length]), this, byteBits_xor]

theorem bytesBits_length (p : List Byte) : (bytesBits p).length = 8 * p.length := by
  induction p with
  | nil => rfl
  | cons a p ih =>
    simp only [bytesBits, List.flatMap_cons, List.length_append] at ih ⊢
    rw [ih, byteBits_length, List.length_cons]; omega

/-- **Headline, byte form.** `crc32` is what `crc32.ChecksumIEEE` computes; `e` is the error pattern as
bytes (xor-ed into the payload), its bits confined to ≤ 32 consecutive positions. -/
theorem crc32_detects_bursts (p e : List Byte) (hlen : p.length = e.length) (hb : IsBurst (bytesBits e)) :
    crc32 (xorBytes p e) ≠ crc32 p := by
  unfold crc32
  rw [bytesBits_xor p e hlen]
  exact crc_detects_bursts _ _ (by rw [bytesBits_length, bytesBits_length, hlen]) hb

/-- the driver's byte-at-a-time evaluation is the same function -/
theorem crc32Fast_eq (bs : List Byte) : crc32Fast bs = crc32 bs := by
  unfold crc32Fast crc32 crcBits bytesBits
  congr 1
  generalize init = s
  induction bs generalizing s with
  | nil => rfl
  | cons b bs ih => simp only [List.foldl_cons, List.flatMap_cons, run_append]; exact ih _

-- non-vacuity / tightness: 32 is sharp — the 33-bit generator polynomial pattern goes unnoticed …
example : crcBits (xorBits (List.replicate 40 false)
      ([true] ++ (List.range 32).map (fun i => poly.getLsbD i) ++ List.replicate 7 false))
    = crcBits (List.replicate 40 false) := by decide
-- … while a concrete 32-bit burst meets the hypotheses of the theorem
example : IsBurst ([false, false] ++ ([true] ++ List.replicate 30 false ++ [true]) ++ [false]) :=
  ⟨2, [true] ++ List.replicate 30 false ++ [true], 1, by decide, by decide, by decide⟩
set_option maxRecDepth 8192 in
example : crc32 [0x31#8, 0x32#8, 0x33#8, 0x34#8, 0x35#8, 0x36#8, 0x37#8, 0x38#8, 0x39#8] = 0xCBF43926#32 := by decide

/-! ## messages: what was sent is what is decoded; corruption is rejected before decoding -/
section Messages
open XV.Msg

private theorem applyOpt_keeps (m : Msg) (o : Opt) :
    (applyOpt m o).info = m.info ∧ (applyOpt m o).header.enableCompress = m.header.enableCompress := by
  cases o <;> exact ⟨rfl, rfl⟩

private theorem applyOpts_keeps (opts : List Opt) (m : Msg) :
    (opts.foldl applyOpt m).info = m.info ∧
    (opts.foldl applyOpt m).header.enableCompress = m.header.enableCompress := by
  induction opts generalizing m with
  | nil => exact ⟨rfl, rfl⟩
  | cons o os ih =>
    obtain ⟨h1, h2⟩ := ih (applyOpt m o)
    obtain ⟨h3, h4⟩ := applyOpt_keeps m o
    exact ⟨by simpa [h3] using h1, by simpa [h4] using h2⟩

/-- The wire (proto.Marshal / Unmarshal of the envelope) only turns an empty `MsgInfo` into a nil one;
`Unmarshal` reads the payload bytes through `GetMsgInfo()`-style accessors, so it cannot tell. -/
theorem wire_transparent {α : Type} (C : Codec α) (m : Msg) : unmarshal C (wire m) = unmarshal C m := by
  have hb : (wire m).bytes = m.bytes := by
    unfold wire Msg.bytes
    cases hm : m.info with
    | none => rfl
    | some b => cases b <;> rfl
  have hh : (wire m).header = m.header := rfl
  unfold unmarshal verifyChecksum decompress
  rw [hb, hh]

/-- every message built by `NewMessage` carries the checksum of its own encoded payload -/
theorem newMessage_checksum_ok {α : Type} (C : Codec α) (typ : Nat) (logid : Str) (payload : Option α)
    (opts : List Opt) : verifyChecksum (newMessage C typ logid payload opts) = true := by
  simp [newMessage, verifyChecksum, checksum, Msg.bytes]

private theorem decompress_of_compress {α : Type} (C : Codec α) (hC : C.Lawful) (m fm : Msg)
    (h : m.header.enableCompress = false) (hi : fm.info = (compress C m).info)
    (hc : fm.header.enableCompress = (compress C m).header.enableCompress) :
    decompress C fm = some m.bytes := by
  unfold decompress
  unfold compress at hi hc
  by_cases hlen : m.bytes.length = 0
  · simp only [hlen, if_true] at hi hc
    simp [hc, h, Msg.bytes, hi]
  · simp only [hlen, if_false, h, Bool.false_eq_true] at hi hc
    simp [hc, Msg.bytes, hi, hC.decompress_compress]

/-- what the receiver computes from a built message: the protobuf decoding of the marshalled payload
(of the empty byte string for a nil message) -/
theorem unmarshal_newMessage {α : Type} (C : Codec α) (hC : C.Lawful) (typ : Nat) (logid : Str)
    (payload : Option α) (opts : List Opt) :
    unmarshal C (newMessage C typ logid payload opts) =
      (match C.unmarshal ((payload.map C.marshal).getD []) with
       | none => .error .unmarshal
       | some a => .ok a) := by
  have hv := newMessage_checksum_ok C typ logid payload opts
  unfold unmarshal
  rw [hv]
  simp only [Bool.not_true, Bool.false_eq_true, if_false]
  obtain ⟨hinfo, hcomp⟩ := applyOpts_keeps opts
    { header := { version := version3, logid := logid, sender := [], bcname := defaultChain, typ := typ,
                  checksum := 0#32, errorType := errorNone, enableCompress := false },
      info := payload.map C.marshal }
  have hd := decompress_of_compress C hC _ (newMessage C typ logid payload opts) hcomp rfl rfl
  rw [hd]
  simp only [Msg.bytes, hinfo]
  cases C.unmarshal ((payload.map C.marshal).getD []) <;> rfl

/-- **In-process round trip**: for every type, log id, payload (also one that marshals to zero
bytes) and option list, decoding the built message returns the payload. -/
theorem roundtrip_inproc {α : Type} (C : Codec α) (hC : C.Lawful) (typ : Nat) (logid : Str) (a : α)
    (opts : List Opt) : unmarshal C (newMessage C typ logid (some a) opts) = .ok a := by
  rw [unmarshal_newMessage C hC]
  simp [hC.unmarshal_marshal]

/-- **Round trip over the wire**: `unmarshal (wire (newMessage typ p opts)) = p`. -/
theorem roundtrip {α : Type} (C : Codec α) (hC : C.Lawful) (typ : Nat) (logid : Str) (a : α)
    (opts : List Opt) : unmarshal C (wire (newMessage C typ logid (some a) opts)) = .ok a := by
  rw [wire_transparent]; exact roundtrip_inproc C hC typ logid a opts

/-- a nil message travels as the empty byte string: the receiver decodes the all-default value
(whatever protobuf makes of zero bytes), it does not fail in `Decompress` -/
theorem roundtrip_nil {α : Type} (C : Codec α) (hC : C.Lawful) (typ : Nat) (logid : Str) (opts : List Opt)
    (dflt : α) (hd : C.unmarshal [] = some dflt) :
    unmarshal C (wire (newMessage C typ logid none opts)) = .ok dflt := by
  rw [wire_transparent, unmarshal_newMessage C hC]
  simp [hd]

/-- The checksum is verified before anything is decompressed or decoded: a message whose checksum
does not verify is never delivered, whatever the codec would make of its bytes. -/
theorem corruption_detected {α : Type} (C : Codec α) (m : Msg) (h : verifyChecksum m = false) :
    unmarshal C m = .error .checksum := by
  simp [unmarshal, h]

/-- Any burst of ≤ 32 bits (any position, any payload length) in the encoded payload of a message with a
valid checksum — in particular of every message built by `newMessage` — is rejected, not delivered. -/
theorem burst_corruption_rejected {α : Type} (C : Codec α) (m : Msg) (e : Bytes)
    (hok : verifyChecksum m = true) (hlen : m.bytes.length = e.length) (hb : IsBurst (bytesBits e)) :
    unmarshal C { m with info := some (xorBytes m.bytes e) } = .error .checksum := by
  apply corruption_detected
  have hne := crc32_detects_bursts m.bytes e hlen hb
  have hsum : crc32 m.bytes = m.header.checksum := by simpa [verifyChecksum] using hok
  simp only [verifyChecksum, Msg.bytes, Option.getD_some]
  rw [← hsum]
  simpa [Msg.bytes] using hne

/-- `GetRespMessageType` on the tables regenerated from message.go and network.pb.go: every message
type `T` for which the enum has a `T_RES` is mapped to it. -/
theorem resp_type_map : ∀ p ∈ XV.Gen.resPairsByName, getRespMessageType p.1 = p.2 := by decide

/-- distinct requests never share a response type, and a response type is never its own request -/
theorem resp_type_injective_on_requests :
    ∀ p ∈ XV.Gen.resPairsByName, ∀ q ∈ XV.Gen.resPairsByName,
      getRespMessageType p.1 = getRespMessageType q.1 → p.1 = q.1 := by decide

/-- outside the table the answer is the next enum value -/
theorem resp_type_default (t : Nat) (h : XV.Gen.requestToResponse.lookup t = none) :
    getRespMessageType t = t + XV.Gen.respDefaultOffset := by
  simp [getRespMessageType, h]

-- non-vacuity: a lawful codec exists (identity), the table is not empty, a message with a payload
example : (⟨id, some, id, some⟩ : Codec Bytes).Lawful := ⟨fun _ => rfl, fun _ => rfl⟩
example : XV.Gen.resPairsByName.length ≥ 5 := by decide
example : (match unmarshal ⟨id, some, id, some⟩ (wire (newMessage ⟨id, some, id, some⟩ 3 [] (some [1#8, 2#8]) [.bcName ['a']])) with
    | .ok a => a == [1#8, 2#8]
    | .error _ => false) = true := by decide

end Messages

/-! ## dispatcher: exact delivery, de-duplication window, lock discipline -/
section Dispatcher
open XV.Dispatch

/-- invariant of every reachable subscriber table -/
def Inv (st : State) : Prop :=
  st.subs.Nodup ∧ ∀ s ∈ st.subs, s.typ ≠ typeNone ∧ s.typ ∈ st.types

theorem inv_init : Inv Dispatch.init := by simp [Inv, Dispatch.init]

private theorem inv_register (st : State) (s : Sub) (h : Inv st) : Inv (register st s).1 := by
  obtain ⟨hnd, hall⟩ := h
  unfold register
  by_cases h1 : s.typ = typeNone
  · simp only [h1, if_true]; exact ⟨hnd, hall⟩
  · simp only [h1, if_false]
    have hsub : ∀ t ∈ st.types, t ∈ (if s.typ ∈ st.types then st.types else s.typ :: st.types) := by
      intro t ht; split
      · exact ht
      · exact List.mem_cons_of_mem _ ht
    have hs : s.typ ∈ (if s.typ ∈ st.types then st.types else s.typ :: st.types) := by
      split
      · assumption
      · exact List.mem_cons_self
    by_cases h2 : s ∈ st.subs
    · simp only [h2, if_true]
      exact ⟨hnd, fun x hx => ⟨(hall x hx).1, hsub _ (hall x hx).2⟩⟩
    · simp only [h2, if_false]
      refine ⟨?_, ?_⟩
      · apply List.nodup_append.mpr
        refine ⟨hnd, by simp, ?_⟩
        intro a ha b hb
        have : b = s := by simpa using hb
        subst this
        intro hab; subst hab; exact h2 ha
      · intro x hx
        rcases List.mem_append.mp hx with hx | hx
        · exact ⟨(hall x hx).1, hsub _ (hall x hx).2⟩
        · have : x = s := by simpa using hx
          subst this
          exact ⟨h1, hs⟩

private theorem inv_unregister (st : State) (s : Sub) (h : Inv st) : Inv (unregister st s).1 := by
  obtain ⟨hnd, hall⟩ := h
  unfold unregister
  by_cases h1 : s.typ = typeNone
  · simp only [h1, if_true]; exact ⟨hnd, hall⟩
  · simp only [h1, if_false]
    by_cases h2 : s.typ ∉ st.types
    · simp only [h2, not_false_eq_true, if_true]; exact ⟨hnd, hall⟩
    · simp only [h2, if_false]
      by_cases h3 : s ∉ st.subs
      · simp only [h3, not_false_eq_true, if_true]; exact ⟨hnd, hall⟩
      · simp only [h3, if_false]
        exact ⟨hnd.filter _, fun x hx => hall x (List.mem_filter.mp hx).1⟩

private theorem dispatch_subs (st : State) (m : MsgId) (hs : Bool) :
    (dispatch st m hs).1.subs = st.subs ∧ (dispatch st m hs).1.types = st.types ∧
    (dispatch st m hs).1.now = st.now := by
  unfold dispatch
  split
  · exact ⟨rfl, rfl, rfl⟩
  · split
    · exact ⟨rfl, rfl, rfl⟩
    · split <;> exact ⟨rfl, rfl, rfl⟩

private theorem inv_applyOp (st : State) (op : Op) (h : Inv st) : Inv (applyOp st op) := by
  cases op with
  | register s => exact inv_register st s h
  | unregister s => exact inv_unregister st s h
  | dispatch m hs =>
    obtain ⟨h1, h2, _⟩ := dispatch_subs st m hs
    simp only [applyOp, Inv, h1, h2]; exact h
  | tick ms => exact h

/-- the invariant holds after every history -/
theorem inv_runOps (ops : List Op) (st : State) (h : Inv st) : Inv (runOps st ops) := by
  induction ops generalizing st with
  | nil => exact h
  | cons op ops ih => exact ih _ (inv_applyOp st op h)

/-- what a history says about subscriber `s`: its last effective Register / UnRegister decides -/
def regUpd (s : Sub) (acc : Bool) : Op → Bool
  | .register s' => if s' = s ∧ s.typ ≠ typeNone then true else acc
  | .unregister s' => if s' = s then false else acc
  | _ => acc

private theorem table_step (st : State) (h : Inv st) (s : Sub) (op : Op) :
    decide (s ∈ (applyOp st op).subs) = regUpd s (decide (s ∈ st.subs)) op := by
  obtain ⟨_, hall⟩ := h
  cases op with
  | register s' =>
    simp only [applyOp, regUpd, register]
    by_cases h1 : s'.typ = typeNone
    · simp only [h1, if_true]
      by_cases hss : s' = s
      · subst hss; simp [h1]
      · simp [hss]
    · simp only [h1, if_false]
      by_cases h2 : s' ∈ st.subs
      · simp only [h2, if_true]
        by_cases hss : s' = s
        · subst hss; simp [h1, h2]
        · simp [hss]
      · simp only [h2, if_false]
        by_cases hss : s' = s
        · subst hss; simp [h1]
        · have : ¬ s = s' := fun h => hss h.symm
          simp [hss, this]
  | unregister s' =>
    simp only [applyOp, regUpd, unregister]
    by_cases hss : s' = s
    · subst hss
      simp only [if_true]
      by_cases h1 : s'.typ = typeNone
      · simp only [h1, if_true]
        have : s' ∉ st.subs := fun hm => (hall _ hm).1 h1
        simp [this]
      · simp only [h1, if_false]
        by_cases h2 : s'.typ ∉ st.types
        · simp only [h2, not_false_eq_true, if_true]
          have : s' ∉ st.subs := fun hm => h2 (hall _ hm).2
          simp [this]
        · simp only [h2, if_false]
          by_cases h3 : s' ∉ st.subs
          · simp [h3]
          · simp [h3]
    · simp only [hss, if_false]
      by_cases h1 : s'.typ = typeNone
      · simp [h1]
      · simp only [h1, if_false]
        by_cases h2 : s'.typ ∉ st.types
        · simp [h2]
        · simp only [h2, if_false]
          by_cases h3 : s' ∉ st.subs
          · simp [h3]
          · have : ¬ s = s' := fun h => hss h.symm
            simp [h3, this]
  | dispatch m hs => simp only [applyOp, regUpd, (dispatch_subs st m hs).1]
  | tick ms => rfl

/-- **The table is exact**: after any history, `s` is in the table iff its last effective
Register/UnRegister in the history was a Register. -/
theorem table_exact (ops : List Op) (st : State) (h : Inv st) (s : Sub) :
    s ∈ (runOps st ops).subs ↔ ops.foldl (regUpd s) (decide (s ∈ st.subs)) = true := by
  induction ops generalizing st with
  | nil => simp [runOps]
  | cons op ops ih =>
    have := ih (applyOp st op) (inv_applyOp st op h)
    simp only [runOps, List.foldl_cons] at this ⊢
    rw [this, table_step st h s op]

/-- **Exact delivery.** After any history of Register / UnRegister / Dispatch / clock ticks, a message
that is not a repeat of a handled one and whose type has a table entry is handed to a duplicate-free
list of subscribers, namely exactly those whose last effective (un)registration was a Register,
whose type is the message's and whose chain / sender filters match — and to no other. -/
theorem dispatch_exact (ops : List Op) (m : MsgId)
    (hh : isHandled (runOps init ops) (msgKey m) = false) (ht : m.typ ∈ (runOps init ops).types) :
    (dispatch (runOps init ops) m true).2.1 = .ok ∧
    (dispatch (runOps init ops) m true).2.2.Nodup ∧
    ∀ s, s ∈ (dispatch (runOps init ops) m true).2.2 ↔
      (ops.foldl (regUpd s) false = true ∧ s.typ = m.typ ∧ sub_matches s m = true) := by
  have hinv := inv_runOps ops Dispatch.init inv_init
  have hd : dispatch (runOps init ops) m true =
      (maskHandled (runOps init ops) (msgKey m), .ok, targets (runOps init ops) m) := by
    simp [dispatch, hh, ht]
  rw [hd]
  refine ⟨rfl, hinv.1.filter _, fun s => ?_⟩
  have ht : s ∈ (runOps Dispatch.init ops).subs ↔ ops.foldl (regUpd s) false = true := by
    have := table_exact ops Dispatch.init inv_init s
    rwa [show decide (s ∈ Dispatch.init.subs) = false from by simp [Dispatch.init]] at this
  simp only [targets, List.mem_filter, decide_eq_true_eq, Bool.and_eq_true, Bool.decide_and]
  rw [ht]

/-- what `Dispatch` answers otherwise: nothing is delivered and nothing is remembered -/
theorem dispatch_rejects (st : State) (m : MsgId) (hh : isHandled st (msgKey m) = false) :
    dispatch st m false = (st, .streamNil, []) ∧
    (m.typ ∉ st.types → dispatch st m true = (st, .notRegister, [])) := by
  constructor
  · simp [dispatch, hh]
  · intro ht; simp [dispatch, hh, ht]

/-! ### the de-duplication window -/

private theorem register_frame (st : State) (s : Sub) :
    (register st s).1.handled = st.handled ∧ (register st s).1.now = st.now ∧
    ∀ t ∈ st.types, t ∈ (register st s).1.types := by
  unfold register
  by_cases h1 : s.typ = typeNone
  · simp [h1]
  · by_cases h2 : s ∈ st.subs <;> by_cases h3 : s.typ ∈ st.types <;> simp [h1, h2, h3] <;>
      (intro t ht; exact Or.inr ht)

private theorem unregister_frame (st : State) (s : Sub) :
    (unregister st s).1.handled = st.handled ∧ (unregister st s).1.now = st.now ∧
    (unregister st s).1.types = st.types := by
  unfold unregister
  by_cases h1 : s.typ = typeNone
  · simp [h1]
  · by_cases h2 : s.typ ∈ st.types <;> by_cases h3 : s ∈ st.subs <;> simp [h1, h2, h3]

private theorem applyOp_now (st : State) (op : Op) : st.now ≤ (applyOp st op).now := by
  cases op with
  | register s => simp only [applyOp, (register_frame st s).2.1]; exact Nat.le_refl _
  | unregister s => simp only [applyOp, (unregister_frame st s).2.1]; exact Nat.le_refl _
  | dispatch m hs => rw [show (applyOp st (.dispatch m hs)).now = st.now from (dispatch_subs st m hs).2.2]; exact Nat.le_refl _
  | tick ms => simp [applyOp, tick]

private theorem applyOp_handled_regs (st : State) (op : Op)
    (h : ∀ m hs, op ≠ .dispatch m hs) : (applyOp st op).handled = st.handled := by
  cases op with
  | register s => exact (register_frame st s).1
  | unregister s => exact (unregister_frame st s).1
  | dispatch m hs => exact absurd rfl (h m hs)
  | tick ms => rfl

/-- the handled entry of key `k` written at time `t0` is still there (or renewed) after any history -/
private theorem handled_persists (k : Str) (t0 : Nat) (ops : List Op) (st : State)
    (hq : t0 ≤ st.now ∧ ∃ e, (k, e) ∈ st.handled ∧ t0 + window ≤ e) :
    t0 ≤ (runOps st ops).now ∧ ∃ e, (k, e) ∈ (runOps st ops).handled ∧ t0 + window ≤ e := by
  induction ops generalizing st with
  | nil => exact hq
  | cons op ops ih =>
    apply ih
    obtain ⟨hn, e, he, hw⟩ := hq
    refine ⟨Nat.le_trans hn (applyOp_now st op), ?_⟩
    by_cases hd : ∀ m hs, op ≠ .dispatch m hs
    · rw [applyOp_handled_regs st op hd]; exact ⟨e, he, hw⟩
    · have : ∃ m hs, op = .dispatch m hs := by
        cases op with
        | dispatch m hs => exact ⟨m, hs, rfl⟩
        | register s => exact absurd (fun _ _ h => Op.noConfusion h) hd
        | unregister s => exact absurd (fun _ _ h => Op.noConfusion h) hd
        | tick ms => exact absurd (fun _ _ h => Op.noConfusion h) hd
      obtain ⟨m, hs, rfl⟩ := this
      simp only [applyOp, dispatch]
      split
      · exact ⟨e, he, hw⟩
      · split
        · exact ⟨e, he, hw⟩
        · split
          · exact ⟨e, he, hw⟩
          · by_cases hk : msgKey m = k
            · exact ⟨st.now + window, by simp [maskHandled, hk], by omega⟩
            · refine ⟨e, ?_, hw⟩
              simp only [maskHandled, List.mem_cons, List.mem_filter]
              right
              exact ⟨he, by simpa using fun h => hk h.symm⟩

/-- **Repeats inside the window are dropped.** Once a message has been handled, every message with
the same key dispatched while the clock has not advanced by more than the window — after any
intervening registrations, unregistrations and dispatches — is handed to nobody (and `Dispatch`
still answers nil). -/
theorem repeat_dropped (st : State) (m m' : MsgId) (ops : List Op) (hs : Bool)
    (hh : isHandled st (msgKey m) = false) (ht : m.typ ∈ st.types) (hk : msgKey m' = msgKey m)
    (hw : (runOps (dispatch st m true).1 ops).now ≤ st.now + window) :
    dispatch (runOps (dispatch st m true).1 ops) m' hs = (runOps (dispatch st m true).1 ops, .ok, []) := by
  have hd : (dispatch st m true).1 = maskHandled st (msgKey m) := by simp [dispatch, hh, ht]
  rw [hd] at hw ⊢
  obtain ⟨_, e, he, hwe⟩ := handled_persists (msgKey m) st.now ops (maskHandled st (msgKey m))
    ⟨by simp [maskHandled], st.now + window, by simp [maskHandled], Nat.le_refl _⟩
  have : isHandled (runOps (maskHandled st (msgKey m)) ops) (msgKey m') = true := by
    simp only [isHandled, List.any_eq_true]
    exact ⟨(msgKey m, e), he, by simp [hk]; omega⟩
  simp [dispatch, this]

private theorem handled_bounded (k : Str) (T : Nat) (ops : List Op) (st : State)
    (hno : ∀ op ∈ ops, ∀ m hs, op = Op.dispatch m hs → msgKey m ≠ k)
    (hb : ∀ e, (k, e) ∈ st.handled → e ≤ T) :
    ∀ e, (k, e) ∈ (runOps st ops).handled → e ≤ T := by
  induction ops generalizing st with
  | nil => exact hb
  | cons op ops ih =>
    apply ih _ (fun o ho => hno o (List.mem_cons_of_mem _ ho))
    intro e he
    cases op with
    | register s => rw [applyOp_handled_regs st _ (fun _ _ h => Op.noConfusion h)] at he; exact hb e he
    | unregister s => rw [applyOp_handled_regs st _ (fun _ _ h => Op.noConfusion h)] at he; exact hb e he
    | tick ms => exact hb e he
    | dispatch m hs =>
      have hne := hno _ List.mem_cons_self m hs rfl
      simp only [applyOp, dispatch] at he
      split at he
      · exact hb e he
      · split at he
        · exact hb e he
        · split at he
          · exact hb e he
          · simp only [maskHandled, List.mem_cons, List.mem_filter, Prod.mk.injEq] at he
            rcases he with ⟨hk, _⟩ | ⟨he, _⟩
            · exact absurd hk.symm hne
            · exact hb e he

private theorem types_mono (t : Nat) (ops : List Op) (st : State) (h : t ∈ st.types) :
    t ∈ (runOps st ops).types := by
  induction ops generalizing st with
  | nil => exact h
  | cons op ops ih =>
    apply ih
    cases op with
    | register s => exact (register_frame st s).2.2 t h
    | unregister s => simp only [applyOp, (unregister_frame st s).2.2]; exact h
    | dispatch m hs => rw [show (applyOp st (.dispatch m hs)).types = st.types from (dispatch_subs st m hs).2.1]; exact h
    | tick ms => exact h


private theorem register_types (st : State) (s : Sub) (t : Nat) :
    t ∈ (register st s).1.types ↔ t ∈ st.types ∨ (s.typ = t ∧ t ≠ typeNone) := by
  unfold register
  by_cases h1 : s.typ = typeNone
  · simp only [h1, if_true]
    constructor
    · exact Or.inl
    · rintro (h | ⟨h, h'⟩)
      · exact h
      · exact absurd h.symm h'
  · have key : t ∈ (if s.typ ∈ st.types then st.types else s.typ :: st.types) ↔
        t ∈ st.types ∨ (s.typ = t ∧ t ≠ typeNone) := by
      by_cases h3 : s.typ ∈ st.types
      · simp only [h3, if_true]
        constructor
        · exact Or.inl
        · rintro (h | ⟨h, _⟩)
          · exact h
          · exact h ▸ h3
      · simp only [h3, if_false, List.mem_cons]
        constructor
        · rintro (h | h)
          · exact Or.inr ⟨h.symm, by rw [h]; exact h1⟩
          · exact Or.inl h
        · rintro (h | ⟨h, _⟩)
          · exact Or.inr h
          · exact Or.inl h.symm
    by_cases h2 : s ∈ st.subs
    · simp only [h1, h2, if_true, if_false]; exact key
    · simp only [h1, h2, if_false]; exact key

/-- a type has a table entry iff some subscriber of that type (other than `MSG_TYPE_NONE`) was ever
passed to `Register` — entries are never removed, not even when the last subscriber unregisters -/
theorem types_exact (ops : List Op) (st : State) (t : Nat) :
    t ∈ (runOps st ops).types ↔ t ∈ st.types ∨ ∃ s, Op.register s ∈ ops ∧ s.typ = t ∧ t ≠ typeNone := by
  induction ops generalizing st with
  | nil => simp [runOps]
  | cons op ops ih =>
    have := ih (applyOp st op)
    simp only [runOps, List.foldl_cons] at this ⊢
    rw [this]
    cases op with
    | register s =>
      simp only [applyOp, register_types, List.mem_cons]
      constructor
      · rintro ((h | ⟨h1, h2⟩) | ⟨s', hs', h⟩)
        · exact Or.inl h
        · exact Or.inr ⟨s, Or.inl rfl, h1, h2⟩
        · exact Or.inr ⟨s', Or.inr hs', h⟩
      · rintro (h | ⟨s', hs' | hs', h⟩)
        · exact Or.inl (Or.inl h)
        · have : s' = s := by simpa using hs'
          subst this
          exact Or.inl (Or.inr h)
        · exact Or.inr ⟨s', hs', h⟩
    | unregister s =>
      simp only [applyOp, (unregister_frame st s).2.2, List.mem_cons]
      constructor
      · rintro (h | ⟨s', hs', h⟩)
        · exact Or.inl h
        · exact Or.inr ⟨s', Or.inr hs', h⟩
      · rintro (h | ⟨s', hs' | hs', h⟩)
        · exact Or.inl h
        · exact absurd hs' (by simp)
        · exact Or.inr ⟨s', hs', h⟩
    | dispatch m hs =>
      simp only [applyOp, (dispatch_subs st m hs).2.1, List.mem_cons]
      constructor
      · rintro (h | ⟨s', hs', h⟩)
        · exact Or.inl h
        · exact Or.inr ⟨s', Or.inr hs', h⟩
      · rintro (h | ⟨s', hs' | hs', h⟩)
        · exact Or.inl h
        · exact absurd hs' (by simp)
        · exact Or.inr ⟨s', hs', h⟩
    | tick ms =>
      simp only [applyOp, tick, List.mem_cons]
      constructor
      · rintro (h | ⟨s', hs', h⟩)
        · exact Or.inl h
        · exact Or.inr ⟨s', Or.inr hs', h⟩
      · rintro (h | ⟨s', hs' | hs', h⟩)
        · exact Or.inl h
        · exact absurd hs' (by simp)
        · exact Or.inr ⟨s', hs', h⟩

/-- **Repeats after the window are delivered again.** If no message with the same key was dispatched
in between and the clock has advanced by more than the window, the message is handed (again) to
exactly the subscribers then registered and matching. -/
theorem repeat_redelivered (st : State) (m : MsgId) (ops : List Op)
    (hh : isHandled st (msgKey m) = false) (ht : m.typ ∈ st.types)
    (hno : ∀ op ∈ ops, ∀ m' hs, op = Op.dispatch m' hs → msgKey m' ≠ msgKey m)
    (hw : st.now + window < (runOps (dispatch st m true).1 ops).now) :
    dispatch (runOps (dispatch st m true).1 ops) m true =
      (maskHandled (runOps (dispatch st m true).1 ops) (msgKey m), .ok,
       targets (runOps (dispatch st m true).1 ops) m) := by
  have hd : (dispatch st m true).1 = maskHandled st (msgKey m) := by simp [dispatch, hh, ht]
  rw [hd] at hw ⊢
  have hb := handled_bounded (msgKey m) (st.now + window) ops (maskHandled st (msgKey m)) hno (by
    intro e he
    simp only [maskHandled, List.mem_cons, List.mem_filter, Prod.mk.injEq] at he
    rcases he with ⟨_, he⟩ | ⟨_, hne⟩
    · omega
    · simp at hne)
  have hnot : isHandled (runOps (maskHandled st (msgKey m)) ops) (msgKey m) = false := by
    rw [Bool.eq_false_iff]
    intro h
    simp only [isHandled, List.any_eq_true, decide_eq_true_eq] at h
    obtain ⟨⟨k, e⟩, he, hk, hle⟩ := h
    simp only at hk hle
    subst hk
    have := hb e he
    omega
  have htyp : m.typ ∈ (runOps (maskHandled st (msgKey m)) ops).types :=
    types_mono m.typ ops _ (by simpa [maskHandled] using ht)
  simp [dispatch, hnot, htyp]

/-! ### the de-duplication key tells all messages apart -/

private theorem colon_split (l1 l2 x y : Str) (h1 : ':' ∉ l1) (h2 : ':' ∉ l2)
    (h : l1 ++ ':' :: x = l2 ++ ':' :: y) : l1 = l2 ∧ x = y := by
  induction l1 generalizing l2 with
  | nil =>
    cases l2 with
    | nil => simpa using h
    | cons b l2 =>
      simp only [List.nil_append, List.cons_append, List.cons.injEq] at h
      exact absurd (by rw [← h.1]; exact List.mem_cons_self) h2
  | cons a l1 ih =>
    cases l2 with
    | nil =>
      simp only [List.nil_append, List.cons_append, List.cons.injEq] at h
      exact absurd (by rw [h.1]; exact List.mem_cons_self) h1
    | cons b l2 =>
      simp only [List.cons_append, List.cons.injEq] at h
      obtain ⟨hab, ht⟩ := h
      have := ih l2 (fun hm => h1 (List.mem_cons_of_mem _ hm)) (fun hm => h2 (List.mem_cons_of_mem _ hm)) ht
      exact ⟨by rw [hab, this.1], this.2⟩

private theorem toDigits_inj (a b : Nat) (h : Nat.toDigits 10 a = Nat.toDigits 10 b) : a = b := by
  have := congrArg (fun l => Nat.ofDigitChars 10 l 0) h
  simpa [Nat.ofDigitChars_ten_toDigits] using this

private theorem colon_not_in_digits (n : Nat) : ':' ∉ Nat.toDigits 10 n := by
  intro h
  have := Nat.isDigit_of_mem_toDigits (by decide) (by decide) h
  exact absurd this (by decide)

private theorem encField_inj (f f' r r' : Str)
    (h : encField true f ++ r = encField true f' ++ r') : f = f' ∧ r = r' := by
  simp only [encField, if_true, List.append_assoc, List.cons_append] at h
  obtain ⟨hd, ht⟩ := colon_split _ _ _ _ (colon_not_in_digits _) (colon_not_in_digits _) h
  exact List.append_inj ht (toDigits_inj _ _ hd)

/-- the regenerated shape of `MessageKey`: the five header fields, each length-prefixed -/
theorem key_shape : XV.Gen.messageKeyFields = ["String,Type", "Bcname", "From", "Logid", "%d,DataCheckSum"] ∧
    XV.Gen.messageKeyLengthPrefixed = true := by decide

private theorem msgKey_eq (m : MsgId) : msgKey m =
    encField true (typeName m.typ) ++ (encField true m.bc ++ (encField true m.sender ++
      (encField true m.logid ++ (encField true (Nat.toDigits 10 m.sum) ++ [])))) := by
  unfold msgKey
  rw [key_shape.1, key_shape.2]
  simp [List.flatMap_cons, keyField]

private theorem mem_of_lookup {α : Type} (a : Nat) (l : List (Nat × α)) (v : α) (h : l.lookup a = some v) :
    (a, v) ∈ l := by
  induction l with
  | nil => simp at h
  | cons p l ih =>
    obtain ⟨k, w⟩ := p
    simp only [List.lookup_cons] at h
    by_cases hk : a == k
    · simp only [hk] at h
      have : a = k := by simpa using hk
      simp_all
    · simp only [hk] at h
      exact List.mem_cons_of_mem _ (ih h)

private theorem names_distinct : ∀ p ∈ XV.Gen.msgTypeNames, ∀ q ∈ XV.Gen.msgTypeNames,
    p.2.toList = q.2.toList → p.1 = q.1 := by decide

private theorem names_not_numbers : ∀ p ∈ XV.Gen.msgTypeNames, ∃ c ∈ p.2.toList, c.isDigit = false := by decide

private theorem typeName_inj (a b : Nat) (h : typeName a = typeName b) : a = b := by
  unfold typeName at h
  cases ha : XV.Gen.msgTypeNames.lookup a with
  | none =>
    cases hb : XV.Gen.msgTypeNames.lookup b with
    | none => simp only [ha, hb] at h; exact toDigits_inj _ _ h
    | some nb =>
      simp only [ha, hb] at h
      obtain ⟨c, hc, hd⟩ := names_not_numbers _ (mem_of_lookup _ _ _ hb)
      have := Nat.isDigit_of_mem_toDigits (b := 10) (n := a) (by decide) (by decide) (by rw [h]; exact hc)
      simp [hd] at this
  | some na =>
    cases hb : XV.Gen.msgTypeNames.lookup b with
    | none =>
      simp only [ha, hb] at h
      obtain ⟨c, hc, hd⟩ := names_not_numbers _ (mem_of_lookup _ _ _ ha)
      have := Nat.isDigit_of_mem_toDigits (b := 10) (n := b) (by decide) (by decide) (by rw [← h]; exact hc)
      simp [hd] at this
    | some nb =>
      simp only [ha, hb] at h
      exact names_distinct _ (mem_of_lookup _ _ _ ha) _ (mem_of_lookup _ _ _ hb) h

/-- **The de-duplication key is injective**: two messages have the same key only if type, chain,
sender, log id and checksum all coincide (given the regenerated shape of `MessageKey`: every field
preceded by its length; the final double SHA-256 is assumed collision free). -/
theorem msgKey_injective (m m' : MsgId) (h : msgKey m = msgKey m') : m = m' := by
  rw [msgKey_eq, msgKey_eq] at h
  obtain ⟨h1, h⟩ := encField_inj _ _ _ _ h
  obtain ⟨h2, h⟩ := encField_inj _ _ _ _ h
  obtain ⟨h3, h⟩ := encField_inj _ _ _ _ h
  obtain ⟨h4, h⟩ := encField_inj _ _ _ _ h
  obtain ⟨h5, _⟩ := encField_inj _ _ _ _ h
  cases m; cases m'
  simp only [MsgId.mk.injEq]
  exact ⟨typeName_inj _ _ h1, h2, h3, h4, toDigits_inj _ _ h5⟩

private theorem handled_origin (ops : List Op) (st : State) (k : Str) (e : Nat)
    (h : (k, e) ∈ (runOps st ops).handled) :
    (∃ e', (k, e') ∈ st.handled) ∨ ∃ m hs, Op.dispatch m hs ∈ ops ∧ msgKey m = k := by
  induction ops generalizing st with
  | nil => exact Or.inl ⟨e, h⟩
  | cons op ops ih =>
    rcases ih (applyOp st op) h with ⟨e', he'⟩ | ⟨m, hs, hm, hk⟩
    · cases op with
      | register s => rw [applyOp_handled_regs st _ (fun _ _ h => Op.noConfusion h)] at he'; exact Or.inl ⟨e', he'⟩
      | unregister s => rw [applyOp_handled_regs st _ (fun _ _ h => Op.noConfusion h)] at he'; exact Or.inl ⟨e', he'⟩
      | tick ms => exact Or.inl ⟨e', he'⟩
      | dispatch m hs =>
        simp only [applyOp, dispatch] at he'
        split at he'
        · exact Or.inl ⟨e', he'⟩
        · split at he'
          · exact Or.inl ⟨e', he'⟩
          · split at he'
            · exact Or.inl ⟨e', he'⟩
            · simp only [maskHandled, List.mem_cons, List.mem_filter, Prod.mk.injEq] at he'
              rcases he' with ⟨hk, _⟩ | ⟨he', _⟩
              · exact Or.inr ⟨m, hs, List.mem_cons_self, hk.symm⟩
              · exact Or.inl ⟨e', he'⟩
    · exact Or.inr ⟨m, hs, List.mem_cons_of_mem _ hm, hk⟩

/-- **Only repeats are dropped.** After any history, a message is treated as already handled only if
that very message (same type, chain, sender, log id and checksum) was dispatched earlier in the
history — a different message is never mistaken for a repeat. -/
theorem dedup_only_repeats (ops : List Op) (m : MsgId)
    (h : isHandled (runOps Dispatch.init ops) (msgKey m) = true) : ∃ hs, Op.dispatch m hs ∈ ops := by
  simp only [isHandled, List.any_eq_true, decide_eq_true_eq] at h
  obtain ⟨⟨k, e⟩, he, hk, _⟩ := h
  simp only at hk
  rcases handled_origin ops Dispatch.init k e he with ⟨e', he'⟩ | ⟨m', hs, hm, hk'⟩
  · simp [Dispatch.init] at he'
  · have : m' = m := msgKey_injective _ _ (by rw [hk', hk])
    exact ⟨hs, this ▸ hm⟩

-- the two messages that shared a key before the repair (chain "ab" + sender "c" / chain "a" + sender "bc")
example : msgKey ⟨3, ['a', 'b'], ['c'], ['L'], 7⟩ ≠ msgKey ⟨3, ['a'], ['b', 'c'], ['L'], 7⟩ := by decide

/-! ### a Register / UnRegister in flight with a Dispatch (oracle of op `dmut`)

In the model a request is atomic, so a Dispatch with a mutation in flight is one of the two orders.  These statements say
that the two orders differ ONLY in the subscriber the mutation names: every other subscriber is a target of the message
the same number of times (0 or 1) in both, the unregistered one is no target afterwards, the fresh one at most once. -/

private theorem count_filter_ne (p : Sub → Bool) (v s : Sub) (hne : s ≠ v) (l : List Sub) :
    ((l.filter (fun x => decide (x ≠ v))).filter p).count s = (l.filter p).count s := by
  unfold List.count
  simp only [List.countP_filter]
  apply List.countP_congr
  intro x _
  by_cases hx : x = v
  · subst hx
    have : ¬ x = s := fun h => hne h.symm
    simp [this]
  · simp [hx]

private theorem count_filter_snoc (p : Sub → Bool) (f s : Sub) (hne : s ≠ f) (l : List Sub) :
    ((l ++ [f]).filter p).count s = (l.filter p).count s := by
  rw [List.filter_append, List.count_append]
  have : ([f].filter p).count s = 0 := by
    apply List.count_eq_zero.mpr
    intro hm
    have := (List.mem_filter.mp hm).1
    simp at this
    exact hne this
  omega

private theorem unregister_subs (st : State) (v : Sub) :
    (unregister st v).1.subs = st.subs ∨ (unregister st v).1.subs = st.subs.filter (fun x => decide (x ≠ v)) := by
  unfold unregister
  split
  · exact Or.inl rfl
  · split
    · exact Or.inl rfl
    · split
      · exact Or.inl rfl
      · exact Or.inr rfl

private theorem register_subs (st : State) (f : Sub) :
    (register st f).1.subs = st.subs ∨ (register st f).1.subs = st.subs ++ [f] := by
  unfold register
  split
  · exact Or.inl rfl
  · simp only
    split
    · exact Or.inl rfl
    · exact Or.inr rfl

/-- an UnRegister of `v` changes, for any message, the target count of no other subscriber -/
theorem targets_unregister_other (st : State) (v s : Sub) (m : MsgId) (hne : s ≠ v) :
    (targets (unregister st v).1 m).count s = (targets st m).count s := by
  unfold targets
  rcases unregister_subs st v with h | h
  · rw [h]
  · rw [h]; exact count_filter_ne _ v s hne st.subs

/-- a Register of `f` changes, for any message, the target count of no other subscriber -/
theorem targets_register_other (st : State) (f s : Sub) (m : MsgId) (hne : s ≠ f) :
    (targets (register st f).1 m).count s = (targets st m).count s := by
  unfold targets
  rcases register_subs st f with h | h
  · rw [h]
  · rw [h]; exact count_filter_snoc _ f s hne st.subs

/-- after an UnRegister of `v` (whatever it answered, table invariant given) `v` is a target of no message …
unless the UnRegister was refused for its type: then the table never held it -/
theorem targets_unregistered_gone (st : State) (h : Inv st) (v : Sub) (m : MsgId) :
    v ∉ targets (unregister st v).1 m := by
  intro hv
  have hsub : v ∈ (unregister st v).1.subs := (List.mem_filter.mp hv).1
  unfold unregister at hsub
  split at hsub
  · rename_i ht; exact (h.2 v hsub).1 ht
  · split at hsub
    · rename_i ht; exact ht (h.2 v hsub).2
    · split at hsub
      · rename_i hn; exact hn hsub
      · simp at hsub

/-- no subscriber is a target of one message twice, in any reachable table -/
theorem targets_nodup (st : State) (h : Inv st) (m : MsgId) : (targets st m).Nodup := h.1.filter _

/-- **a Dispatch with an UnRegister of `v` and a Register of `f` in flight**: whichever of them the dispatch comes
after, every subscriber other than `v` and `f` is handed the message exactly as often as with no mutation at all (once if
it is registered and matches, never otherwise) -/
theorem dispatch_mutation_in_flight (st : State) (v f s : Sub) (m : MsgId) (hv : s ≠ v) (hf : s ≠ f) :
    (targets (unregister st v).1 m).count s = (targets st m).count s ∧
    (targets (register st f).1 m).count s = (targets st m).count s ∧
    (targets (register (unregister st v).1 f).1 m).count s = (targets st m).count s :=
  ⟨targets_unregister_other st v s m hv, targets_register_other st f s m hf,
    (targets_register_other _ f s m hf).trans (targets_unregister_other st v s m hv)⟩

-- non-vacuity: four subscribers, the second unregistered, a fifth registered: the other three stay targets, once each
example :
    let sb (i : Nat) : Sub := ⟨i, 3, [], []⟩
    let st := runOps Dispatch.init [.register (sb 0), .register (sb 1), .register (sb 2), .register (sb 3)]
    let m : MsgId := ⟨3, ['x'], ['p'], ['L'], 1⟩
    targets st m = [sb 0, sb 1, sb 2, sb 3] ∧
    targets (register (unregister st (sb 1)).1 (sb 4)).1 m = [sb 0, sb 2, sb 3, sb 4] := by decide

/-! ### lock discipline of the subscriber table -/

/-- Every access to `d.mc` in a method of `dispatcher` (regenerated from dispatcher.go on every run)
happens while `d.mu` is held. -/
theorem mc_accesses_locked : ∀ a ∈ XV.Gen.mcAccesses, a.2.2 = true := by decide

-- non-vacuity
example : XV.Gen.mcAccesses.length ≥ 8 := by decide
example : Inv { subs := [⟨1, 3, [], []⟩, ⟨2, 3, ['x'], []⟩], types := [3], handled := [], now := 0 } := by
  simp [Inv, typeNone]
-- a history in which a message is delivered to two of three subscribers, dropped on repeat, re-delivered after the window
example :
    let s1 : Sub := ⟨1, 3, [], []⟩
    let s2 : Sub := ⟨2, 3, ['x'], []⟩
    let s3 : Sub := ⟨3, 3, ['y'], []⟩
    let m : MsgId := ⟨3, ['x'], ['p'], ['L'], 1⟩
    let st := runOps Dispatch.init [.register s1, .register s2, .register s3, .register s1, .unregister s3, .register s3]
    (dispatch st m true).2.2 = [s1, s2] ∧
    (dispatch (runOps (dispatch st m true).1 [.tick 3000]) m true).2.2 = [] ∧
    (dispatch (runOps (dispatch st m true).1 [.tick 3001]) m true).2.2 = [s1, s2] := by decide

end Dispatcher

end XV.C20
