import XV.Model.Crc32
/-!
C20 — p2p messages decode to what was sent, corruption is detected, dispatch is exact.
-/
namespace XV.C20
open XV.Crc32

/-! ## CRC-32: every burst of ≤ 32 bits is detected -/

private theorem mask_xor (a b : Bool) : mask (a != b) = mask a ^^^ mask b := by
  cases a <;> cases b <;> simp [mask]

/-- GF(2)-linearity of the register update in (register, message bit). -/
theorem crc_linear (s t : BitVec 32) (a b : Bool) :
    step (s ^^^ t) (a != b) = step s a ^^^ step t b := by
  unfold step
  have h : ((s ^^^ t).getLsbD 0 != (a != b)) = ((s.getLsbD 0 != a) != (t.getLsbD 0 != b)) := by
    rw [BitVec.getLsbD_xor]
    cases s.getLsbD 0 <;> cases t.getLsbD 0 <;> cases a <;> cases b <;> rfl
  rw [h, mask_xor, BitVec.ushiftRight_xor_distrib]
  ac_rfl

/-- linearity lifted to whole bit strings of equal length -/
theorem run_linear (p e : List Bool) (hlen : p.length = e.length) (s t : BitVec 32) :
    run (s ^^^ t) (xorBits p e) = run s p ^^^ run t e := by
  induction p generalizing e s t with
  | nil =>
    cases e with
    | nil => simp [run, xorBits]
    | cons _ _ => simp at hlen
  | cons a p ih =>
    cases e with
    | nil => simp at hlen
    | cons b e =>
      have hl : p.length = e.length := by simpa using hlen
      have := ih e hl (step s a) (step t b)
      simp only [run, xorBits, List.zipWith_cons_cons, List.foldl_cons] at this ⊢
      rw [crc_linear]; exact this

private theorem poly_top : poly.getLsbD 31 = true := by decide

private theorem step_top (s : BitVec 32) (b : Bool) :
    (step s b).getLsbD 31 = (s.getLsbD 0 != b) := by
  unfold step
  rw [BitVec.getLsbD_xor, BitVec.getLsbD_ushiftRight]
  have : s.getLsbD (1 + 31) = false := by
    apply BitVec.getLsbD_of_ge; omega
  rw [this]
  cases (s.getLsbD 0 != b) <;> simp [mask, poly_top]

/-- The zero-bit step has an explicit inverse … -/
theorem zero_step_inverse (s : BitVec 32) : zeroStepInv (step s false) = s := by
  have htop := step_top s false
  simp only [Bool.bne_false] at htop
  unfold zeroStepInv
  simp only [htop]
  have hx : step s false ^^^ mask (s.getLsbD 0) = s >>> 1 := by
    unfold step
    simp only [Bool.bne_false]
    rw [BitVec.xor_assoc, BitVec.xor_self, BitVec.xor_zero]
  rw [hx]
  apply BitVec.eq_of_getLsbD_eq
  intro i hi
  rw [BitVec.getLsbD_or, BitVec.getLsbD_shiftLeft, BitVec.getLsbD_ushiftRight]
  by_cases h0 : i = 0
  · subst h0
    cases s.getLsbD 0 <;> simp
  · have h1 : ¬ i < 1 := by omega
    have h2 : 1 + (i - 1) = i := by omega
    cases hc : s.getLsbD 0 <;> simp [hi, h1, h2] <;> omega

/-- … hence it is injective: feeding zero bits never merges two register values. -/
theorem zero_step_injective (s t : BitVec 32) (h : step s false = step t false) : s = t := by
  rw [← zero_step_inverse s, ← zero_step_inverse t, h]

/-! ### a non-zero burst of ≤ 32 bits leaves a non-zero register -/

/-- bits `32-k … 31` of `s` are zero -/
private def TopZero (k : Nat) (s : BitVec 32) : Prop := ∀ i, 32 - k ≤ i → i < 32 → s.getLsbD i = false

private theorem topZero_of_zero (k : Nat) : TopZero k 0#32 := by
  intro i _ _; simp

private theorem eq_zero_of_topZero (s : BitVec 32) (h : TopZero 32 s) : s = 0#32 := by
  apply BitVec.eq_of_getLsbD_eq
  intro i hi
  rw [h i (by omega) hi]; simp

/-- if the top `k+1` bits after a step are zero, no feedback happened and the top `k` bits before were zero -/
private theorem step_topZero (k : Nat) (hk : k + 1 ≤ 32) (s : BitVec 32) (b : Bool)
    (h : TopZero (k + 1) (step s b)) : TopZero k s ∧ s.getLsbD 0 = b := by
  have hfb : (s.getLsbD 0 != b) = false := by
    rw [← step_top]; exact h 31 (by omega) (by omega)
  have hs : step s b = s >>> 1 := by
    unfold step; rw [hfb]; simp [mask]
  refine ⟨?_, by simpa using hfb⟩
  intro i hlo hi
  by_cases h0 : i = 0
  · omega
  · have := h (i - 1) (by omega) (by omega)
    rw [hs, BitVec.getLsbD_ushiftRight] at this
    have h2 : 1 + (i - 1) = i := by omega
    rwa [h2] at this

private theorem step_zero_false : step 0#32 false = 0#32 := by decide

private theorem run_topZero (bits : List Bool) (k : Nat) (s : BitVec 32) (hk : k + bits.length ≤ 32)
    (h : TopZero (k + bits.length) (run s bits)) :
    TopZero k s ∧ (s = 0#32 → ∀ b ∈ bits, b = false) := by
  induction bits generalizing k s with
  | nil => exact ⟨by simpa [run] using h, by simp⟩
  | cons b bs ih =>
    have hk' : (k + 1) + bs.length ≤ 32 := by simp at hk; omega
    have h' : TopZero ((k + 1) + bs.length) (run (step s b) bs) := by
      have e : (k + 1) + bs.length = k + (b :: bs).length := by simp; omega
      rw [e]; simpa [run] using h
    obtain ⟨h1, h2⟩ := ih (k + 1) (step s b) hk' h'
    obtain ⟨h3, h4⟩ := step_topZero k (by omega) s b h1
    refine ⟨h3, ?_⟩
    intro hs0 x hx
    subst hs0
    have hb : b = false := by rw [← h4]; simp
    subst hb
    rcases List.mem_cons.mp hx with hx | hx
    · exact hx
    · exact h2 step_zero_false x hx

/-- The map "first ≤ 32 bits ↦ register" has trivial kernel: a burst of at most 32 bits fed into the
zero register leaves it zero only if every bit of the burst is zero. -/
theorem burst_state_nonzero (burst : List Bool) (hlen : burst.length ≤ 32) (hnz : true ∈ burst) :
    run 0#32 burst ≠ 0#32 := by
  intro h
  have ht : TopZero (0 + burst.length) (run 0#32 burst) := by rw [h]; exact topZero_of_zero _
  have := (run_topZero burst 0 0#32 (by omega) ht).2 rfl true hnz
  exact absurd this (by decide)

private theorem run_zeros_zero (n : Nat) : run 0#32 (List.replicate n false) = 0#32 := by
  induction n with
  | zero => rfl
  | succ n ih => simpa [run, List.replicate_succ, step_zero_false] using ih

private theorem run_zeros_ne (n : Nat) (s : BitVec 32) (hs : s ≠ 0#32) :
    run s (List.replicate n false) ≠ 0#32 := by
  induction n generalizing s with
  | zero => simpa [run] using hs
  | succ n ih =>
    simp only [run, List.replicate_succ, List.foldl_cons]
    apply ih
    intro h0
    apply hs
    apply zero_step_injective
    rw [h0, step_zero_false]

private theorem run_append (s : BitVec 32) (xs ys : List Bool) : run s (xs ++ ys) = run (run s xs) ys := by
  simp [run, List.foldl_append]

/-- an error pattern confined to at most 32 consecutive bit positions, not all zero -/
def IsBurst (e : List Bool) : Prop :=
  ∃ (pre : Nat) (burst : List Bool) (suf : Nat),
    e = List.replicate pre false ++ burst ++ List.replicate suf false ∧ burst.length ≤ 32 ∧ true ∈ burst

/-- **Headline.** For every payload `p` (any length) and every error pattern `e` of the same length
that is non-zero and confined to ≤ 32 consecutive bits (any position), the CRC-32 of the corrupted
payload differs from the CRC-32 of the payload. -/
theorem crc_detects_bursts (p e : List Bool) (hlen : p.length = e.length) (hb : IsBurst e) :
    crcBits (xorBits p e) ≠ crcBits p := by
  obtain ⟨pre, burst, suf, he, hbl, hnz⟩ := hb
  have hE : run 0#32 e ≠ 0#32 := by
    rw [he, run_append, run_append, run_zeros_zero]
    exact run_zeros_ne suf _ (burst_state_nonzero burst hbl hnz)
  intro h
  unfold crcBits at h
  have h' : run init (xorBits p e) = run init p := by
    have := congrArg (fun x => ~~~ x) h
    simpa using this
  have hl := run_linear p e hlen init 0#32
  rw [BitVec.xor_zero, h'] at hl
  apply hE
  have : run init p ^^^ run init p = run init p ^^^ (run init p ^^^ run 0#32 e) :=
    congrArg (fun x => run init p ^^^ x) hl
  rw [BitVec.xor_self, ← BitVec.xor_assoc, BitVec.xor_self, BitVec.zero_xor] at this
  exact this.symm

end XV.C20
