import XV.Lemmas.IrrevHist
import XV.Lemmas.CrashHistory
/-!
C17 over whole HISTORIES — the statement the property quantifies over: any list of operations (`XV.C01.HOp`: submissions,
peers' blocks, the node's own blocks, walks across forks with or without the prune flag, each with its ledger height and
skip list), of any length, from ANY start state; all by induction over the operation list. `Props/C17.lean` has the
per-operation facts; the operation-level lemmas used here are in `Lemmas/IrrevHist.lean`.

1. WHICH blocks a history applies, and what that does to the irreversible height. `appliedBlocks e s ops` (executable) lists
   the blocks the history applies, in order: an accepted `play` / `playForMiner` its block, a walk the blocks its apply loop
   got through (also when the walk fails later), refused operations and submissions nothing; `appliedHeights` their heights.
   `irrev_history`: without pruning walks the irreversible height after the history is the update rule folded over exactly
   these heights. `irrev_history_closed` / `irrev_history_is_max`: window w > 0, start at 0: it IS
   max(0, max over applied blocks of (height − w)). `irrev_history_window_zero`: window 0 — it stays put, under every
   operation, pruning walks included. `irrev_history_nonneg`.
2. Monotone. `irrev_history_mono`: for every split `ops = pre ++ post` of a history without pruning walks the height after
   `pre` is at most the height after `pre ++ post`. `irrev_lowered_only_by_prune` / `irrev_history_lowered_has_prune`: an
   operation (a history) that lowers it is (contains) a pruning walk; and a pruning walk does lower it (`example` below), so
   the exclusion is necessary.
3. The chain. `walk_chain_shape`: after a non-pruning walk — completed, refused at the irreversible height after any number
   of undone blocks, or stopped at a refused block — old chain = `U ++ K`, new chain = `T ++ K`, all of `U` strictly above
   the irreversible height, `T` the applied blocks. `walk_keeps_irreversible`, and for histories
   `irreversible_block_stays` / `irreversible_blocks_grow`: a block that is on the pointer's chain at some moment with
   height ≤ the irreversible height of that moment is on the pointer's chain after any further operations. Hypothesis: `TreeOK e`
   only (parents strictly lower, registered blocks known under their ids — static, decidable, part of `EnvOK` of C01);
   NOTHING is asked of the start state, of the transactions, of the destinations (unregistered destinations, chains that do
   not meet, walks through a root are all covered). `TreeOK` is needed: `example` at the end.
4. Restart (`XV.Crash`: `Node`, `recover`, `crashStates`). `restart_quiescent`, `restart_same_future`: restarting a node whose
   state is synchronised with its ledger changes nothing — the irreversible height is a row of the persisted state table, the
   window a field of the chain configuration `e` that `recover` neither writes nor returns — so everything that follows is
   computed from the same height with the same window. `restart_is_walk_step`: otherwise the restart is one non-pruning walk
   of the history type, so 1–3 cover histories with restarts. `crash_point_restart_irrev`: at EVERY crash point of every
   non-pruning operation (before its first write group, after each of them) the recovered irreversible height is ≥ the
   height before the operation; `crash_history_restart_irrev` the same along a history; `crash_point_keeps_irreversible`,
   `crash_history_restart_safe`: and the block the persisted pointer names — before and after the restart — still has every
   irreversible block on its chain.
-/
namespace XV.C17
open XV.Chain XV.C01 XV.Crash

-- ================================================================== histories

/-- the history contains no pruning walk -/
def NoPrune (ops : List HOp) : Prop := ∀ op ∈ ops, isPrune op = false

instance (ops : List HOp) : Decidable (NoPrune ops) := by unfold NoPrune; exact inferInstance

/-- **the blocks a history applies, in order** (executable): per operation `opApplied` — an accepted `play` /
`playForMiner` contributes its block, a walk the blocks its apply loop got through (also when the walk fails later),
everything else nothing — each operation evaluated in the state the history has reached -/
def appliedBlocks (e : Env) : St → List HOp → List Nat
  | _, [] => []
  | s, op :: rest => opApplied e s op ++ appliedBlocks e (hstep e s op) rest

/-- the heights of the blocks a history applies, in order -/
def appliedHeights (e : Env) (s : St) (ops : List HOp) : List Int := heightsOf e (appliedBlocks e s ops)

/-- max(0, max over `hs` of (h − w)) -/
def maxBelow (w : Int) (hs : List Int) : Int := hs.foldl (fun m h => max m (h - w)) 0

/-- the irreversible part of the pointer's chain: the blocks on it at or below the irreversible height -/
def irrevBlocks (e : Env) (s : St) : List Nat :=
  (chainOf e s.pointer).filter (fun b => decide (((e.block b).height : Int) ≤ s.irrev))

theorem hrun_nil (e : Env) (s : St) : hrun e s [] = s := rfl

theorem hrun_cons (e : Env) (s : St) (op : HOp) (rest : List HOp) : hrun e s (op :: rest) = hrun e (hstep e s op) rest := rfl

theorem hrun_append (e : Env) (s : St) (pre post : List HOp) : hrun e s (pre ++ post) = hrun e (hrun e s pre) post := by
  unfold hrun; rw [List.foldl_append]

theorem appliedBlocks_nil (e : Env) (s : St) : appliedBlocks e s [] = [] := rfl

theorem appliedBlocks_cons (e : Env) (s : St) (op : HOp) (rest : List HOp) :
    appliedBlocks e s (op :: rest) = opApplied e s op ++ appliedBlocks e (hstep e s op) rest := rfl

theorem appliedBlocks_append (e : Env) (pre post : List HOp) : ∀ s,
    appliedBlocks e s (pre ++ post) = appliedBlocks e s pre ++ appliedBlocks e (hrun e s pre) post := by
  induction pre with
  | nil => intro s; rfl
  | cons op rest ih =>
    intro s
    rw [List.cons_append, appliedBlocks_cons, appliedBlocks_cons, ih, hrun_cons, List.append_assoc]

theorem noPrune_cons (op : HOp) (rest : List HOp) : NoPrune (op :: rest) ↔ isPrune op = false ∧ NoPrune rest := by
  unfold NoPrune
  exact ⟨fun h => ⟨h op List.mem_cons_self, fun o ho => h o (List.mem_cons_of_mem _ ho)⟩,
    fun h o ho => by
      rcases List.mem_cons.mp ho with rfl | ho
      · exact h.1
      · exact h.2 o ho⟩

theorem noPrune_append (pre post : List HOp) : NoPrune (pre ++ post) ↔ NoPrune pre ∧ NoPrune post := by
  unfold NoPrune
  exact ⟨fun h => ⟨fun o ho => h o (List.mem_append_left _ ho), fun o ho => h o (List.mem_append_right _ ho)⟩,
    fun h o ho => by
      rcases List.mem_append.mp ho with ho | ho
      · exact h.1 o ho
      · exact h.2 o ho⟩

-- ================================================================== 1. the irreversible height of a history

/-- **the irreversible height after ANY history without pruning walks** is the update rule
`Meta.UpdateNextIrreversibleBlockHeight` folded over the heights of exactly the blocks the history applied, in the order it
applied them, started from the height the history started with. Any start state, any environment, any window. -/
theorem irrev_history (e : Env) (s : St) (ops : List HOp) (hnp : NoPrune ops) :
    (hrun e s ops).irrev = (appliedHeights e s ops).foldl (nextIrrev e.window) s.irrev := by
  induction ops generalizing s with
  | nil => rfl
  | cons op rest ih =>
    obtain ⟨h1, h2⟩ := (noPrune_cons op rest).mp hnp
    rw [hrun_cons, ih _ h2, hstep_irrev e s op h1]
    unfold appliedHeights
    rw [appliedBlocks_cons, heightsOf_append, List.foldl_append]

/-- **window w > 0, started at 0: the irreversible height IS max(0, max over the applied blocks of (height − w))**, in closed
form -/
theorem irrev_history_closed (e : Env) (s : St) (ops : List HOp) (hw : 0 < e.window) (h0 : s.irrev = 0)
    (hnp : NoPrune ops) : (hrun e s ops).irrev = maxBelow e.window (appliedHeights e s ops) := by
  rw [irrev_history e s ops hnp, h0]
  have : nextIrrev e.window = fun m h => max m (h - e.window) := by
    funext m h
    exact nextIrrev_eq_max e.window m h hw
  rw [this]
  rfl

/-- the same read as "least upper bound that is attained" (`irrev_is_max`): the height is ≥ 0 and ≥ every (height − w) of
an applied block, and it is 0 or equal to one of them -/
theorem irrev_history_is_max (e : Env) (s : St) (ops : List HOp) (hw : 0 < e.window) (h0 : s.irrev = 0)
    (hnp : NoPrune ops) :
    0 ≤ (hrun e s ops).irrev ∧ (∀ h ∈ appliedHeights e s ops, h - e.window ≤ (hrun e s ops).irrev) ∧
    ((hrun e s ops).irrev = 0 ∨ ∃ h ∈ appliedHeights e s ops, (hrun e s ops).irrev = h - e.window) := by
  rw [irrev_history e s ops hnp, h0]
  exact irrev_is_max e.window hw (appliedHeights e s ops) 0

/-- from any start value the height is the maximum of that value and every (height − w) of an applied block -/
theorem irrev_history_is_max_from (e : Env) (s : St) (ops : List HOp) (hw : 0 < e.window) (hnp : NoPrune ops) :
    s.irrev ≤ (hrun e s ops).irrev ∧ (∀ h ∈ appliedHeights e s ops, h - e.window ≤ (hrun e s ops).irrev) ∧
    ((hrun e s ops).irrev = s.irrev ∨ ∃ h ∈ appliedHeights e s ops, (hrun e s ops).irrev = h - e.window) := by
  rw [irrev_history e s ops hnp]
  exact irrev_is_max e.window hw (appliedHeights e s ops) s.irrev

/-- **window 0: the irreversible height stays put** — under EVERY history, pruning walks included (no hypothesis on the
operations): with window 0 neither update rule moves it, so a chain configured without a slide window never gets an
irreversible block from the state machine -/
theorem irrev_history_window_zero (e : Env) (s : St) (ops : List HOp) (hw : e.window ≤ 0) :
    (hrun e s ops).irrev = s.irrev := by
  induction ops generalizing s with
  | nil => rfl
  | cons op rest ih => rw [hrun_cons, ih, hstep_irrev_window_le_zero e hw s op]

/-- floored at zero: started at a height ≥ 0 a history without pruning walks never makes it negative -/
theorem irrev_history_nonneg (e : Env) (s : St) (ops : List HOp) (h0 : 0 ≤ s.irrev) (hnp : NoPrune ops) :
    0 ≤ (hrun e s ops).irrev := by
  rw [irrev_history e s ops hnp]
  exact Int.le_trans h0 (foldl_nextIrrev_mono _ _ _)

/-- the undo loop of a walk — with or without the prune flag — never makes a non-negative height negative -/
theorem undoAll_irrev_nonneg (e : Env) (prune : Bool) (l : List Nat) : ∀ st : St, 0 ≤ st.irrev →
    0 ≤ (walk.undoAll e prune l st).1.irrev := by
  induction l with
  | nil => intro st h; exact h
  | cons bi rest ih =>
    intro st h
    rw [undoAll_cons]
    split
    · exact h
    · apply ih
      cases prune with
      | false => rw [undoBlock_irrev]; exact h
      | true => rw [undoBlock_prune_irrev]; exact nextIrrevPrune_nonneg _ _ _ h

/-- **floored at zero under EVERY operation, pruning walks included**: the pruning rule floors at zero as well -/
theorem hstep_irrev_nonneg (e : Env) (s : St) (op : HOp) (h0 : 0 ≤ s.irrev) : 0 ≤ (hstep e s op).irrev := by
  cases hp : isPrune op with
  | false => exact Int.le_trans h0 (hstep_irrev_mono e s op hp)
  | true =>
    cases op with
    | submit lh i => cases hp
    | play lh bi => cases hp
    | playMiner lh bi => cases hp
    | walk lh dest prune skip =>
      show 0 ≤ (walk (e.withSkip skip) s lh dest prune).1.irrev
      rw [(walk_withSkip_pointer_irrev e skip s lh dest prune).2]
      have hu : 0 ≤ (walk.undoAll e prune (undoTodo e s.pointer dest).1 (rolledBack e s)).1.irrev :=
        undoAll_irrev_nonneg e prune _ _ (by rw [rolledBack_irrev]; exact h0)
      unfold walkCore
      simp only
      split
      · exact hu
      · exact Int.le_trans hu (todoAll_irrev_le e lh _ _)

/-- **the irreversible height is never negative, in any history at all** (pruning walks included; start ≥ 0) -/
theorem irrev_history_nonneg_all (e : Env) (ops : List HOp) : ∀ s : St, 0 ≤ s.irrev → 0 ≤ (hrun e s ops).irrev := by
  induction ops with
  | nil => intro s h; exact h
  | cons op rest ih => intro s h; rw [hrun_cons]; exact ih _ (hstep_irrev_nonneg e s op h)

-- ================================================================== 2. monotone

/-- a history whose operations after `pre` contain no pruning walk never lowers the height reached after `pre` -/
theorem irrev_history_mono_suffix (e : Env) (s : St) (pre post : List HOp) (hnp : NoPrune post) :
    (hrun e s pre).irrev ≤ (hrun e s (pre ++ post)).irrev := by
  rw [hrun_append, irrev_history e _ post hnp]
  exact foldl_nextIrrev_mono _ _ _

/-- **monotone along every history**: for every history without pruning walks and every split `ops = pre ++ post`, the
irreversible height after `pre` is at most the height after the whole history — whatever forks are played, undone or
replayed in `post`, whichever of its operations are refused or fail half way -/
theorem irrev_history_mono (e : Env) (s : St) (pre post : List HOp) (hnp : NoPrune (pre ++ post)) :
    (hrun e s pre).irrev ≤ (hrun e s (pre ++ post)).irrev :=
  irrev_history_mono_suffix e s pre post ((noPrune_append pre post).mp hnp).2

/-- **only a pruning walk can lower the irreversible height**: an operation after which it is lower than before is a walk
with the prune flag -/
theorem irrev_lowered_only_by_prune (e : Env) (s : St) (op : HOp) (h : (hstep e s op).irrev < s.irrev) :
    ∃ lh dest skip, op = .walk lh dest true skip := by
  cases hp : isPrune op with
  | false =>
    have := hstep_irrev_mono e s op hp
    omega
  | true =>
    cases op with
    | submit lh i => cases hp
    | play lh bi => cases hp
    | playMiner lh bi => cases hp
    | walk lh dest prune skip =>
      have : prune = true := hp
      subst this
      exact ⟨lh, dest, skip, rfl⟩

/-- a history after which the irreversible height is lower than at its start contains a pruning walk -/
theorem irrev_history_lowered_has_prune (e : Env) (s : St) (ops : List HOp) (h : (hrun e s ops).irrev < s.irrev) :
    ∃ lh dest skip, HOp.walk lh dest true skip ∈ ops := by
  cases hd : decide (NoPrune ops) with
  | true =>
    have hnp : NoPrune ops := by simpa using hd
    have := irrev_history_mono_suffix e s [] ops hnp
    rw [hrun_nil, List.nil_append] at this
    omega
  | false =>
    have hnp : ¬ NoPrune ops := by simpa using hd
    unfold NoPrune at hnp
    have : ∃ op ∈ ops, isPrune op = true := by
      cases hex : decide (∃ op ∈ ops, isPrune op = true) with
      | true => simpa using hex
      | false =>
        exfalso
        apply hnp
        intro op hop
        have hne : ¬ ∃ op ∈ ops, isPrune op = true := by simpa using hex
        cases hq : isPrune op with
        | false => rfl
        | true => exact absurd ⟨op, hop, hq⟩ hne
    obtain ⟨op, hop, hq⟩ := this
    cases op with
    | submit lh i => cases hq
    | play lh bi => cases hq
    | playMiner lh bi => cases hq
    | walk lh dest prune skip =>
      have : prune = true := hq
      subst this
      exact ⟨lh, dest, skip, hop⟩

-- ================================================================== 3. the chain never loses an irreversible block

/-- **the pointer's chain after a non-pruning walk, in EVERY outcome** (completed; undo refused at the irreversible height
after any number of undone blocks — the pointer then names the block the undo was refused at; a block refused after any
number of applied blocks — the pointer names the last block applied): the old chain is `U ++ K`, the new chain `T ++ K`,
where `U` (the blocks really undone: the part of the old chain above the kept part) lies strictly above the irreversible
height the walk started with, and — whenever something is kept — `T` is the list of blocks the walk applied, newest first -/
theorem walk_chain_shape (e : Env) (ht : TreeOK e) (s : St) (lh : Int) (dest : Nat) (skip : List Nat) :
    ∃ U T K, chainOf e s.pointer = U ++ K ∧
      chainOf e (walk (e.withSkip skip) s lh dest false).1.pointer = T ++ K ∧
      (∀ x ∈ U, s.irrev < ((e.block x).height : Int)) ∧
      (K ≠ [] → T = (walkApplied e s lh dest false).reverse) :=
  walk_chain e ht s lh dest skip

/-- **no walk without the prune flag ever ends with the state machine on a chain that excludes a block at or below the
irreversible height** — successful or not: every block of the old chain at or below the irreversible height is on the chain
the walk ends on, and is still at or below the (new) irreversible height -/
theorem walk_keeps_irreversible (e : Env) (ht : TreeOK e) (s : St) (lh : Int) (dest : Nat) (skip : List Nat) (b : Nat)
    (hb : b ∈ chainOf e s.pointer) (hh : ((e.block b).height : Int) ≤ s.irrev) :
    b ∈ chainOf e (walk (e.withSkip skip) s lh dest false).1.pointer ∧
    ((e.block b).height : Int) ≤ (walk (e.withSkip skip) s lh dest false).1.irrev :=
  ⟨hstep_keeps_irreversible e ht s (.walk lh dest false skip) rfl b hb hh,
    Int.le_trans hh (hstep_irrev_mono e s (.walk lh dest false skip) rfl)⟩

/-- the same over any further operations -/
theorem irreversible_block_stays_from (e : Env) (ht : TreeOK e) (ops : List HOp) : ∀ (s : St), NoPrune ops → ∀ (b : Nat),
    b ∈ chainOf e s.pointer → ((e.block b).height : Int) ≤ s.irrev →
    b ∈ chainOf e (hrun e s ops).pointer ∧ ((e.block b).height : Int) ≤ (hrun e s ops).irrev := by
  induction ops with
  | nil => intro s _ b hb hh; exact ⟨hb, hh⟩
  | cons op rest ih =>
    intro s hnp b hb hh
    obtain ⟨h1, h2⟩ := (noPrune_cons op rest).mp hnp
    rw [hrun_cons]
    exact ih _ h2 b (hstep_keeps_irreversible e ht s op h1 b hb hh)
      (Int.le_trans hh (hstep_irrev_mono e s op h1))

/-- **a block at or below the irreversible height never leaves the pointer's chain.** For every history without pruning
walks, from ANY start state, and every split `pre ++ post` of it: a block that is on the pointer's chain after `pre` with a
height at or below the irreversible height of that moment is on the pointer's chain after `pre ++ post` (and still at or
below the irreversible height) — whatever forks `post` plays, walks to, is refused on, or fails half way through. -/
theorem irreversible_block_stays (e : Env) (ht : TreeOK e) (s : St) (pre post : List HOp) (hnp : NoPrune (pre ++ post))
    (b : Nat) (hb : b ∈ chainOf e (hrun e s pre).pointer)
    (hh : ((e.block b).height : Int) ≤ (hrun e s pre).irrev) :
    b ∈ chainOf e (hrun e s (pre ++ post)).pointer ∧ ((e.block b).height : Int) ≤ (hrun e s (pre ++ post)).irrev := by
  rw [hrun_append]
  exact irreversible_block_stays_from e ht post _ ((noPrune_append pre post).mp hnp).2 b hb hh

/-- the same as a statement about sets: the irreversible part of the pointer's chain only grows along a history -/
theorem irreversible_blocks_grow (e : Env) (ht : TreeOK e) (s : St) (pre post : List HOp) (hnp : NoPrune (pre ++ post)) :
    irrevBlocks e (hrun e s pre) ⊆ irrevBlocks e (hrun e s (pre ++ post)) := by
  intro b hb
  unfold irrevBlocks at hb ⊢
  obtain ⟨h1, h2⟩ := List.mem_filter.mp hb
  obtain ⟨a, c⟩ := irreversible_block_stays e ht s pre post hnp b h1 (by simpa using h2)
  exact List.mem_filter.mpr ⟨a, by simpa using c⟩

/-- under the environment conditions of the C01 closing induction (which contain `TreeOK`) -/
theorem irreversible_block_stays_of_envOK (e : Env) (g : St) (he : EnvOK e g) (s : St) (pre post : List HOp)
    (hnp : NoPrune (pre ++ post)) (b : Nat) (hb : b ∈ chainOf e (hrun e s pre).pointer)
    (hh : ((e.block b).height : Int) ≤ (hrun e s pre).irrev) :
    b ∈ chainOf e (hrun e s (pre ++ post)).pointer :=
  (irreversible_block_stays e (treeOK_of_envOK e g he) s pre post hnp b hb hh).1

-- ================================================================== 4. restart

/-- **restart at a quiescent moment** (the state is synchronised with the ledger): nothing is written — the node, and with
it the persisted irreversible height, is what it was -/
theorem restart_quiescent (e : Env) (n : Node) (hq : n.s.pointer = n.l.tip) :
    recover e n = (n, true) ∧ (recover e n).1.s.irrev = n.s.irrev := by
  have : recover e n = (n, true) := by unfold recover; rw [if_pos hq]
  exact ⟨this, by rw [this]⟩

/-- **window and height survive a restart**: the irreversible height is a row of the persisted state table, the window a
field of the chain configuration `e`, which `recover` neither writes nor returns. So after a restart at a quiescent moment
every continuation runs exactly as it would have without the restart: each later irreversible height is computed from the
same height with the same window. -/
theorem restart_same_future (e : Env) (n : Node) (hq : n.s.pointer = n.l.tip) (ops : List Op) :
    run e (recover e n).1 ops = run e n ops := by
  rw [(restart_quiescent e n hq).1]

/-- a restart at any other moment is ONE operation of the history type: the non-pruning walk to the ledger tip (so every
statement of sections 1–3 covers histories with restarts in them) -/
theorem restart_is_walk_step (e : Env) (n : Node) (hq : n.s.pointer ≠ n.l.tip) :
    (recover e n).1.s = hstep e n.s (.walk (lh n) n.l.tip false e.skipRepost) := by
  unfold recover
  rw [if_neg hq]
  rfl

/-- a restart never lowers the irreversible height -/
theorem restart_irrev_mono (e : Env) (x : Node) : x.s.irrev ≤ (recover e x).1.s.irrev := by
  unfold recover
  split
  · exact Int.le_refl _
  · exact walk_irrev_mono e x.s (lh x) x.l.tip

/-- a restart keeps every irreversible block on the chain of the pointer -/
theorem restart_keeps_irreversible (e : Env) (ht : TreeOK e) (x : Node) (b : Nat)
    (hb : b ∈ chainOf e x.s.pointer) (hh : ((e.block b).height : Int) ≤ x.s.irrev) :
    b ∈ chainOf e (recover e x).1.s.pointer := by
  by_cases hq : x.s.pointer = x.l.tip
  · rw [(restart_quiescent e x hq).1]; exact hb
  · rw [restart_is_walk_step e x hq]
    exact hstep_keeps_irreversible e ht x.s _ rfl b hb hh

/-- the node at a crash point of one operation: before its first write group, or after any of them -/
def crashPoints (e : Env) (m : Node) (op : Op) : List Node := m :: opTrace e m op

/-- **at EVERY crash point of every non-pruning operation the recovered irreversible height is ≥ the height before the
operation** (and so is the height found on disk); `m` is any node, in particular any node a history reaches -/
theorem crash_point_restart_irrev (e : Env) (m : Node) (op : Op) (hpf : PruneFree [op])
    (x : Node) (hx : x ∈ crashPoints e m op) :
    m.s.irrev ≤ x.s.irrev ∧ x.s.irrev ≤ (runOp e m op).s.irrev ∧ m.s.irrev ≤ (recover e x).1.s.irrev := by
  have hmem : x ∈ crashStates e m [op] := by
    unfold crashStates crashPoints at *
    rcases List.mem_cons.mp hx with rfl | hx
    · exact List.mem_cons_self
    · exact List.mem_cons_of_mem _ (List.mem_append_left _ hx)
  obtain ⟨a, b⟩ := crashStates_irrev_bounds e [op] m hpf x hmem
  exact ⟨a, b, Int.le_trans a (restart_irrev_mono e x)⟩

/-- **along a history without pruning walks**: whatever write group is the last one on disk when the process dies, the
irreversible height found on disk, and the one after the restart, are ≥ the height the history started with, and the
height found on disk is ≤ the one the uninterrupted run ends with -/
theorem crash_history_restart_irrev (e : Env) (n : Node) (ops : List Op) (hpf : PruneFree ops)
    (x : Node) (hx : x ∈ crashStates e n ops) :
    n.s.irrev ≤ x.s.irrev ∧ x.s.irrev ≤ (run e n ops).s.irrev ∧ n.s.irrev ≤ (recover e x).1.s.irrev := by
  obtain ⟨a, b⟩ := crashStates_irrev_bounds e ops n hpf x hx
  exact ⟨a, b, Int.le_trans a (restart_irrev_mono e x)⟩

/-- **at every crash point of every non-pruning operation the persisted pointer names a block whose chain still contains
every irreversible block** of the chain before the operation -/
theorem crash_point_keeps_irreversible (e : Env) (ht : TreeOK e) (m : Node) (op : Op) (hpf : PruneFree [op]) (b : Nat)
    (hb : b ∈ chainOf e m.s.pointer) (hh : ((e.block b).height : Int) ≤ m.s.irrev)
    (x : Node) (hx : x ∈ crashPoints e m op) :
    b ∈ chainOf e x.s.pointer ∧ ((e.block b).height : Int) ≤ x.s.irrev := by
  refine ⟨?_, Int.le_trans hh (crash_point_restart_irrev e m op hpf x hx).1⟩
  unfold crashPoints at hx
  rcases List.mem_cons.mp hx with rfl | hx
  · exact hb
  · cases op with
    | submit i =>
      have : x = runOp e m (.submit i) := by simpa [opTrace] using hx
      rw [this]
      exact hstep_keeps_irreversible e ht m.s (.submit (lh m) i) rfl b hb hh
    | confirm c =>
      have : x = runOp e m (.confirm c) := by simpa [opTrace] using hx
      rw [this]; exact hb
    | play c =>
      have : x = runOp e m (.play c) := by simpa [opTrace] using hx
      rw [this]
      exact hstep_keeps_irreversible e ht m.s (.play (lh m) c) rfl b hb hh
    | playMiner c =>
      have : x = runOp e m (.playMiner c) := by simpa [opTrace] using hx
      rw [this]
      exact hstep_keeps_irreversible e ht m.s (.playMiner (lh m) c) rfl b hb hh
    | walk dest prune =>
      have hp : prune = false := hpf.1
      subst hp
      unfold opTrace at hx
      obtain ⟨s', hs', rfl⟩ := List.mem_map.mp hx
      exact walkTrace_keeps_irreversible e ht m.s (lh m) dest b hb hh s' hs'
    | truncate d =>
      have : x = runOp e m (.truncate d) := by simpa [opTrace] using hx
      rw [this]; exact hb

/-- `PruneFree` of a history, operation by operation -/
theorem pruneFree_cons (op : Op) (rest : List Op) (h : PruneFree (op :: rest)) : PruneFree [op] ∧ PruneFree rest := by
  cases op with
  | walk dest prune => exact ⟨⟨h.1, trivial⟩, h.2⟩
  | submit i => exact ⟨trivial, h⟩
  | confirm b => exact ⟨trivial, h⟩
  | play b => exact ⟨trivial, h⟩
  | playMiner b => exact ⟨trivial, h⟩
  | truncate d => exact ⟨trivial, h⟩

/-- the irreversible blocks of the start of a history are on the chain of the pointer in every crash state of it -/
theorem crash_history_keeps_irreversible (e : Env) (ht : TreeOK e) (ops : List Op) : ∀ (n : Node), PruneFree ops →
    ∀ (b : Nat), b ∈ chainOf e n.s.pointer → ((e.block b).height : Int) ≤ n.s.irrev →
    ∀ x ∈ crashStates e n ops, b ∈ chainOf e x.s.pointer ∧ ((e.block b).height : Int) ≤ x.s.irrev := by
  induction ops with
  | nil =>
    intro n _ b hb hh x hx
    simp only [crashStates, List.mem_cons, List.not_mem_nil, or_false] at hx
    rw [hx]; exact ⟨hb, hh⟩
  | cons op rest ih =>
    intro n hpf b hb hh x hx
    obtain ⟨h1, h2⟩ := pruneFree_cons op rest hpf
    unfold crashStates at hx
    rcases List.mem_cons.mp hx with rfl | hx
    · exact ⟨hb, hh⟩
    · rcases List.mem_append.mp hx with hx | hx
      · exact crash_point_keeps_irreversible e ht n op h1 b hb hh x (List.mem_cons_of_mem _ hx)
      · obtain ⟨a, c⟩ := crash_point_keeps_irreversible e ht n op h1 b hb hh (runOp e n op)
          (List.mem_cons_of_mem _ (runOp_mem_opTrace e n op))
        exact ih (runOp e n op) h2 b a c x hx

/-- **a crash anywhere in a history, followed by the restart, loses no irreversible block**: for every history without
pruning walks, every crash point `x` of it and every block `b` that was on the pointer's chain at or below the irreversible
height when the history started: `b` is on the chain of the block the recovered state points at, and the recovered
irreversible height is still ≥ the height of `b` -/
theorem crash_history_restart_safe (e : Env) (ht : TreeOK e) (n : Node) (ops : List Op) (hpf : PruneFree ops) (b : Nat)
    (hb : b ∈ chainOf e n.s.pointer) (hh : ((e.block b).height : Int) ≤ n.s.irrev)
    (x : Node) (hx : x ∈ crashStates e n ops) :
    b ∈ chainOf e (recover e x).1.s.pointer ∧ ((e.block b).height : Int) ≤ (recover e x).1.s.irrev := by
  obtain ⟨a, c⟩ := crash_history_keeps_irreversible e ht ops n hpf b hb hh x hx
  exact ⟨restart_keeps_irreversible e ht x b a c, Int.le_trans c (restart_irrev_mono e x)⟩

-- ================================================================== the hypotheses can be met; the exclusions are needed

/-- every block carries one coinbase transaction of its own -/
private def fkTx (i : Nat) : Nat × Tx := (i, ⟨i, true, [], [⟨"m", 10, 0⟩], [], []⟩)

/-- a tree with two forks, window 2. Trunk 0 ← 1 ← 2 ← 3 ← 4 (heights 0..4); a fork of depth 4 on block 1
(12 ← 13 ← 14 ← 15, heights 2..5) and a fork of depth 3 on block 2 (23 ← 24 ← 25, heights 3..5) -/
private def fkEnv : Env := {
  txs := [fkTx 101, fkTx 102, fkTx 103, fkTx 104, fkTx 112, fkTx 113, fkTx 114, fkTx 115, fkTx 123, fkTx 124, fkTx 125],
  blocks := [(0, ⟨0, none, 0, [], "g"⟩),
    (1, ⟨1, some 0, 1, [101], "m"⟩), (2, ⟨2, some 1, 2, [102], "m"⟩), (3, ⟨3, some 2, 3, [103], "m"⟩),
    (4, ⟨4, some 3, 4, [104], "m"⟩),
    (12, ⟨12, some 1, 2, [112], "m"⟩), (13, ⟨13, some 12, 3, [113], "m"⟩), (14, ⟨14, some 13, 4, [114], "m"⟩),
    (15, ⟨15, some 14, 5, [115], "m"⟩),
    (23, ⟨23, some 2, 3, [123], "m"⟩), (24, ⟨24, some 23, 4, [124], "m"⟩), (25, ⟨25, some 24, 5, [125], "m"⟩)],
  window := 2 }

/-- the trunk is played (irreversible height 2); a walk to the deep fork on block 1 must cross block 2 and is REFUSED after
undoing 4 and 3 (the node is left on block 2); a block that does not extend the tip is refused; the node walks back to 4; it
walks to the fork on block 2 (undo 4, 3; apply 23, 24, 25: irreversible height 3); a walk back to 4 must cross block 23 and
is refused after undoing 25 and 24 (node on 23); the node packs block 24 itself and walks to 25 again -/
private def fkOps : List HOp := [
  .play 0 1, .play 0 2, .play 0 3, .play 0 4, .walk 0 15, .play 0 12, .walk 0 4, .walk 0 25, .walk 0 4,
  .playMiner 0 24, .walk 0 25]

-- `TreeOK` is decidable and holds for this tree (forks of depth 4 and 3)
example : TreeOK fkEnv := by decide
example : NoPrune fkOps := by decide
-- what the history does: pointer and irreversible height after each operation, the blocks it applies
example : (List.range (fkOps.length + 1)).map (fun k =>
      ((hrun fkEnv {} (fkOps.take k)).pointer, (hrun fkEnv {} (fkOps.take k)).irrev)) =
    [(0, 0), (1, 0), (2, 0), (3, 1), (4, 2), (2, 2), (2, 2), (4, 2), (25, 3), (23, 3), (24, 3), (25, 3)] := by decide
example : appliedBlocks fkEnv {} fkOps = [1, 2, 3, 4, 3, 4, 23, 24, 25, 24, 25] ∧
    appliedHeights fkEnv {} fkOps = [1, 2, 3, 4, 3, 4, 3, 4, 5, 4, 5] := by decide
-- the theorems applied to it
example : (hrun fkEnv {} fkOps).irrev = maxBelow 2 [1, 2, 3, 4, 3, 4, 3, 4, 5, 4, 5] :=
  irrev_history_closed fkEnv {} fkOps (by decide) rfl (by decide)
example : maxBelow 2 [1, 2, 3, 4, 3, 4, 3, 4, 5, 4, 5] = 3 := by decide
-- after the first four operations block 2 (height 2) is irreversible; it is on the chain after every longer prefix
example : 2 ∈ irrevBlocks fkEnv (hrun fkEnv {} (fkOps.take 4)) := by decide
example : ∀ k, 2 ∈ chainOf fkEnv (hrun fkEnv {} (fkOps.take 4 ++ (fkOps.drop 4).take k)).pointer := fun k =>
  (irreversible_block_stays fkEnv (by decide) {} (fkOps.take 4) ((fkOps.drop 4).take k)
    (fun op hop => by
      have h : NoPrune fkOps := by decide
      rcases List.mem_append.mp hop with h1 | h1
      · exact h op (List.mem_of_mem_take h1)
      · exact h op (List.mem_of_mem_drop (List.mem_of_mem_take h1)))
    2 (by decide) (by decide)).1
example : irrevBlocks fkEnv (hrun fkEnv {} fkOps) = [23, 2, 1, 0] := by decide
-- the two refused walks, seen through `walk_chain_shape`: blocks undone, blocks kept
example : chainOf fkEnv (hrun fkEnv {} (fkOps.take 4)).pointer = [4, 3] ++ [2, 1, 0] ∧
    chainOf fkEnv (hrun fkEnv {} (fkOps.take 5)).pointer = [] ++ [2, 1, 0] ∧
    (walk fkEnv (hrun fkEnv {} (fkOps.take 4)) 0 15 false).2 = false := by decide

-- **a PRUNING walk lowers the irreversible height** (why `NoPrune` is asked): from block 25 (irreversible height 3) the
-- pruning walk to block 4 undoes 25, 24, 23 (the height drops to 1 at block 23) and applies 3 and 4: it ends at 2 < 3, and
-- block 23, irreversible before, is no longer on the chain
example : (hrun fkEnv {} fkOps).irrev = 3 ∧ (hstep fkEnv (hrun fkEnv {} fkOps) (.walk 0 4 true)).irrev = 2 ∧
    23 ∈ irrevBlocks fkEnv (hrun fkEnv {} fkOps) ∧
    23 ∉ chainOf fkEnv (hstep fkEnv (hrun fkEnv {} fkOps) (.walk 0 4 true)).pointer := by decide

-- window 0 on the same tree and history: the height never moves, pruning walk included
example : (hrun { fkEnv with window := 0 } {} (fkOps ++ [.walk 0 4 true])).irrev = 0 :=
  irrev_history_window_zero _ _ _ (by decide)

-- **`TreeOK` is needed**: a block registered under the key 2 that calls itself 7 (window 1). Playing 1 and "2" leaves the
-- pointer at 7, whose chain is [7]: block 1, irreversible by then, is not on it.
private def badEnv : Env := {
  txs := [fkTx 101, fkTx 102],
  blocks := [(0, ⟨0, none, 0, [], "g"⟩), (1, ⟨1, some 0, 1, [101], "m"⟩), (2, ⟨7, some 1, 2, [102], "m"⟩)],
  window := 1 }
example : ¬ TreeOK badEnv ∧
    1 ∈ chainOf badEnv (hrun badEnv {} [.play 0 1]).pointer ∧
    ((badEnv.block 1).height : Int) ≤ (hrun badEnv {} [.play 0 1, .play 0 2]).irrev ∧
    1 ∉ chainOf badEnv (hrun badEnv {} [.play 0 1, .play 0 2]).pointer := by decide

-- restart and crash points. The node has played the trunk (pointer 4, irreversible height 2); its ledger has meanwhile
-- switched to the fork on block 2 (tip 25). History: a walk to the deep fork on block 1 (refused at block 2, after the write
-- groups that undo 4 and 3), then the synchronising walk to 25. What is on disk after each write group — pointer and
-- irreversible height — and what the restart makes of it:
private def fkNode : Node :=
  { l := { tip := 25, trunkHeight := 5 }, s := hrun fkEnv {} [.play 0 1, .play 0 2, .play 0 3, .play 0 4] }
private def fkCrashOps : List Op := [.walk 15 false, .walk 25 false]

example : PruneFree fkCrashOps ∧
    (crashStates fkEnv fkNode fkCrashOps).map (fun x => (x.s.pointer, x.s.irrev)) =
      [(4, 2), (4, 2), (3, 2), (2, 2), (2, 2), (2, 2), (23, 2), (24, 2), (25, 3), (25, 3)] ∧
    ∀ x ∈ crashStates fkEnv fkNode fkCrashOps,
      (recover fkEnv x).2 = true ∧ (recover fkEnv x).1.s.pointer = 25 ∧ (recover fkEnv x).1.s.irrev = 3 := by decide
-- the theorem applied: block 2, irreversible at the start, is on the recovered chain whatever the crash point
example : ∀ x ∈ crashStates fkEnv fkNode fkCrashOps, 2 ∈ chainOf fkEnv (recover fkEnv x).1.s.pointer :=
  fun x hx => (crash_history_restart_safe fkEnv (by decide) fkNode fkCrashOps (by decide) 2 (by decide) (by decide) x hx).1
-- a restart at a quiescent moment (the last crash state: pointer = ledger tip) writes nothing
example : recover fkEnv (run fkEnv fkNode fkCrashOps) = (run fkEnv fkNode fkCrashOps, true) :=
  (restart_quiescent fkEnv _ (by decide)).1

-- ================================================================== 5. requests in flight at once

/-- **Two requests in flight at once**, as the check `walkrace` schedules them on the real node: the second request is started
while the first is inside the state-machine lock (or about to take it), and the goroutines in which successful walks submit again
what they rolled back run after both requests have returned. One at a time that is a HISTORY: the two requests (a walk
carries the whole pool as its skip list - it resubmits nothing itself) followed by the resubmissions. The node
must end in the state of one of the two orders: -/
def raceOrders (a b : HOp) (resub : List HOp) : List (List HOp) := [a :: b :: resub, b :: a :: resub]

theorem race_noPrune (a b : HOp) (resub : List HOp) (ha : isPrune a = false) (hb : isPrune b = false)
    (hr : NoPrune resub) : ∀ ops ∈ raceOrders a b resub, NoPrune ops := by
  intro ops hops
  simp only [raceOrders, List.mem_cons, List.not_mem_nil, or_false] at hops
  rcases hops with rfl | rfl
  · exact (noPrune_cons _ _).mpr ⟨ha, (noPrune_cons _ _).mpr ⟨hb, hr⟩⟩
  · exact (noPrune_cons _ _).mpr ⟨hb, (noPrune_cons _ _).mpr ⟨ha, hr⟩⟩

/-- whichever of the two orders the node's state equals, the irreversible height is not below the height before the race -/
theorem race_irrev_mono (e : Env) (s : St) (pre : List HOp) (a b : HOp) (resub : List HOp) (ha : isPrune a = false)
    (hb : isPrune b = false) (hr : NoPrune resub) :
    ∀ ops ∈ raceOrders a b resub, (hrun e s pre).irrev ≤ (hrun e s (pre ++ ops)).irrev :=
  fun ops hops => irrev_history_mono_suffix e s pre ops (race_noPrune a b resub ha hb hr ops hops)

/-- **in either order a block that was irreversible before the race is on the state machine's chain after it** (and still at
or below the irreversible height) -/
theorem race_keeps_irreversible (e : Env) (ht : TreeOK e) (s : St) (pre : List HOp) (a b : HOp) (resub : List HOp)
    (ha : isPrune a = false) (hb : isPrune b = false) (hr : NoPrune resub) (x : Nat)
    (hx : x ∈ chainOf e (hrun e s pre).pointer) (hh : ((e.block x).height : Int) ≤ (hrun e s pre).irrev) :
    ∀ ops ∈ raceOrders a b resub,
      x ∈ chainOf e (hrun e s (pre ++ ops)).pointer ∧ ((e.block x).height : Int) ≤ (hrun e s (pre ++ ops)).irrev := by
  intro ops hops
  rw [hrun_append]
  exact irreversible_block_stays_from e ht ops _ (race_noPrune a b resub ha hb hr ops hops) x hx hh

/-- **what the request that ran first made irreversible binds the one that waited for the lock**: a block that is on the chain
the first request leaves the state machine on, at or below the irreversible height of that moment, is on the chain after the
second request and all resubmissions - the second request must plan from the block the first one left, not from the block it
saw when it was called (`example` below: a walk that plans from the tip it read before it got the lock loses such a block) -/
theorem race_first_binds_second (e : Env) (ht : TreeOK e) (s : St) (first second : HOp) (resub : List HOp)
    (h2 : isPrune second = false) (hr : NoPrune resub) (x : Nat)
    (hx : x ∈ chainOf e (hstep e s first).pointer) (hh : ((e.block x).height : Int) ≤ (hstep e s first).irrev) :
    x ∈ chainOf e (hrun e s (first :: second :: resub)).pointer ∧
    ((e.block x).height : Int) ≤ (hrun e s (first :: second :: resub)).irrev := by
  rw [hrun_cons]
  exact irreversible_block_stays_from e ht (second :: resub) _ ((noPrune_cons _ _).mpr ⟨h2, hr⟩) x hx hh

-- the node has played 1 and 2 (window 2, irreversible height 0); a walk to 25 (fork on block 2, heights 3..5) and a walk to
-- 4 (trunk, heights 3, 4) are requested at once. Walk 25 first: it makes block 23 irreversible (height 3 = 5 - 2), the walk to
-- 4 undoes 25 and 24 and is refused at 23. Walk 4 first: the walk to 25 undoes 4 and 3 (both above the height 2) and succeeds.
private def fkRaceStart : St := hrun fkEnv {} [.play 0 1, .play 0 2]
example : (raceOrders (.walk 0 25) (.walk 0 4) []).map (fun ops =>
      ((hrun fkEnv fkRaceStart ops).pointer, (hrun fkEnv fkRaceStart ops).irrev)) = [(23, 3), (25, 3)] := by decide
example : ∀ ops ∈ raceOrders (.walk 0 25) (.walk 0 4) [], 23 ∈ chainOf fkEnv (hrun fkEnv fkRaceStart ops).pointer := by decide
-- the theorem applied: block 23 is irreversible once the walk to 25 has run, so it is on the chain after the walk to 4
example : 23 ∈ chainOf fkEnv (hrun fkEnv fkRaceStart [.walk 0 25, .walk 0 4]).pointer :=
  (race_first_binds_second fkEnv (by decide) fkRaceStart (.walk 0 25) (.walk 0 4) [] rfl (by decide) 23 (by decide) (by decide)).1
-- **a walk that plans from the tip it read BEFORE it got the lock** (the walk to 4 was called while the node was at block 2
-- and computes its undo / todo lists from block 2 although the walk to 25 has run meanwhile): nothing to undo, 3 and 4 are
-- applied, the walk reports success at block 4 with irreversible height 3 - block 23 (height 3) is not on that chain, and the
-- state is that of neither order
example :
    let stale := walk fkEnv { hstep fkEnv fkRaceStart (.walk 0 25) with pointer := fkRaceStart.pointer } 0 4 false
    stale.2 = true ∧ stale.1.pointer = 4 ∧ stale.1.irrev = 3 ∧
    23 ∈ irrevBlocks fkEnv (hstep fkEnv fkRaceStart (.walk 0 25)) ∧ 23 ∉ chainOf fkEnv stale.1.pointer ∧
    ∀ ops ∈ raceOrders (.walk 0 25) (.walk 0 4) [], (hrun fkEnv fkRaceStart ops).pointer ≠ stale.1.pointer := by decide

-- `irrev_history_nonneg_all` on the fork history followed by a pruning walk (which does lower the height: 3 → 2)
example : 0 ≤ (hrun fkEnv {} (fkOps ++ [.walk 0 4 true])).irrev :=
  irrev_history_nonneg_all fkEnv _ {} (by decide)

end XV.C17
