import XV.Model.TdElect
/-!
C16, tdpos with vote-based re-election: "a block is accepted only from the producer entitled at the block's
own timestamp", the proposers of a term being ELECTED from the ballots recorded on the chain.

* the election is a function of the recorded ballots alone: it does not depend on the order in which the Go
  map of candidates is enumerated (`topK_perm`);
* the elected are `proposer_num` candidates with a positive count, each outranking every eligible candidate
  left out (`elected_outrank`, `elect_length`, `tallies_mem`);
* a storage fault or an undecodable record on ANY key the count needs leaves the election without result
  (`topK_vote_fault`, `topK_corrupt_vote`, ...), and a block that needs this election is refused
  (`check_new_term_fault_rejects`): an unreadable ballot record is never counted as "no votes";
* `check_accept_iff`, `check_at_most_one_producer`: accepted iff the proposer is the elected one of the slot.
-/
namespace XV.C16
open XV.TdElect

theorem before_trans (a b c : Tally) (h₁ : before a b = true) (h₂ : before b c = true) : before a c = true := by
  simp only [before, Bool.or_eq_true, Bool.and_eq_true, decide_eq_true_eq] at *
  omega

theorem before_total (a b : Tally) : (before a b || before b a) = true := by
  simp only [before, Bool.or_eq_true, Bool.and_eq_true, decide_eq_true_eq]
  omega

theorem before_antisymm (a b : Tally) (h₁ : before a b = true) (h₂ : before b a = true) : a = b := by
  simp only [before, Bool.or_eq_true, Bool.and_eq_true, decide_eq_true_eq] at *
  cases a; cases b
  simp only [Tally.mk.injEq] at *
  omega

theorem insertT_perm (t : Tally) : ∀ l : List Tally, (insertT t l).Perm (t :: l)
  | [] => List.Perm.refl _
  | x :: xs => by
    unfold insertT
    split
    · exact List.Perm.refl _
    · exact ((insertT_perm t xs).cons x).trans (List.Perm.swap t x xs)

theorem sortT_perm : ∀ l : List Tally, (sortT l).Perm l
  | [] => List.Perm.refl _
  | x :: xs => (insertT_perm x (sortT xs)).trans ((sortT_perm xs).cons x)

theorem mem_sortT {t : Tally} {l : List Tally} : t ∈ sortT l ↔ t ∈ l := (sortT_perm l).mem_iff

theorem insertT_pairwise (t : Tally) : ∀ l : List Tally, l.Pairwise (fun a b => before a b = true) →
    (insertT t l).Pairwise (fun a b => before a b = true)
  | [], _ => by simp [insertT]
  | x :: xs, h => by
    unfold insertT
    have hx := List.pairwise_cons.mp h
    split
    · rename_i htx
      refine List.pairwise_cons.mpr ⟨?_, h⟩
      intro y hy
      rcases List.mem_cons.mp hy with rfl | hy
      · exact htx
      · exact before_trans t x y htx (hx.1 y hy)
    · rename_i htx
      have hxt : before x t = true := by
        have := before_total t x
        simp only [Bool.or_eq_true] at this
        rcases this with h | h
        · exact absurd h htx
        · exact h
      refine List.pairwise_cons.mpr ⟨?_, insertT_pairwise t xs hx.2⟩
      intro y hy
      rcases List.mem_cons.mp ((insertT_perm t xs).mem_iff.mp hy) with rfl | hy
      · exact hxt
      · exact hx.1 y hy

theorem sorted_pairwise : ∀ ts : List Tally, (sortT ts).Pairwise (fun a b => before a b = true)
  | [] => List.Pairwise.nil
  | x :: xs => insertT_pairwise x (sortT xs) (sorted_pairwise xs)

/-- **Every elected candidate outranks every eligible candidate that was left out** (more ballots, or the same
number and the larger address). -/
theorem elected_outrank (pn : Nat) (ts : List Tally) (t u : Tally)
    (ht : t ∈ (sortT ts).take pn) (hu : u ∈ ts) (hnu : u ∉ (sortT ts).take pn) :
    before t u = true := by
  have hs := sorted_pairwise ts
  rw [← List.take_append_drop pn (sortT ts), List.pairwise_append] at hs
  have hu' : u ∈ sortT ts := mem_sortT.mpr hu
  rw [← List.take_append_drop pn (sortT ts), List.mem_append] at hu'
  rcases hu' with h | h
  · exact absurd h hnu
  · exact hs.2.2 t ht u h

/-- exactly `proposer_num` proposers are elected when that many candidates are eligible -/
theorem elect_length (pn : Nat) (ts : List Tally) (h : pn ≤ ts.length) : (elect pn ts).length = pn := by
  simp [elect, (sortT_perm ts).length_eq, h]

/-- the elected are eligible candidates -/
theorem elect_mem (pn : Nat) (ts : List Tally) (a : Nat) (h : a ∈ elect pn ts) : ∃ t ∈ ts, t.addr = a := by
  simp only [elect, List.mem_map] at h
  obtain ⟨t, ht, rfl⟩ := h
  exact ⟨t, mem_sortT.mp (List.mem_of_mem_take ht), rfl⟩

/-- **The election does not depend on the enumeration order** of the candidates. -/
theorem elect_perm (pn : Nat) (ts ts' : List Tally) (h : ts.Perm ts') : elect pn ts = elect pn ts' := by
  have hp : (sortT ts).Perm (sortT ts') := (sortT_perm ts).trans (h.trans (sortT_perm ts').symm)
  have : sortT ts = sortT ts' :=
    List.Perm.eq_of_pairwise (le := fun a b => before a b = true)
      (fun a b _ _ h₁ h₂ => before_antisymm a b h₁ h₂) (sorted_pairwise ts) (sorted_pairwise ts') hp
  simp [elect, this]

theorem tallies_perm (f : Fault) (l l' : List (Nat × VRec)) (h : l.Perm l') :
    (tallies f l = .err ∧ tallies f l' = .err) ∨
      (∃ ts ts', tallies f l = .ok ts ∧ tallies f l' = .ok ts' ∧ ts.Perm ts') := by
  have hany : l.any (fun c => tally f c == .err) = l'.any (fun c => tally f c == .err) := by
    rw [Bool.eq_iff_iff]
    simp only [List.any_eq_true]
    constructor
    · rintro ⟨x, hx, hp⟩; exact ⟨x, h.mem_iff.mp hx, hp⟩
    · rintro ⟨x, hx, hp⟩; exact ⟨x, h.mem_iff.mpr hx, hp⟩
  unfold tallies
  rw [← hany]
  cases hb : l.any (fun c => tally f c == .err) with
  | true => left; simp
  | false =>
    right
    exact ⟨l.filterMap (fun c => pick (tally f c)), l'.filterMap (fun c => pick (tally f c)), by simp, by simp,
      h.filterMap _⟩

/-- **`calTopKNominator` is a function of the recorded ballots**: whatever order Go's map iteration visits
the candidates in, the result is the same. -/
theorem topK_perm (init : List Nat) (pn : Nat) (f : Fault) (l l' : List (Nat × VRec)) (h : l.Perm l') :
    topK init pn f (.cands l) = topK init pn f (.cands l') := by
  unfold topK
  split
  · rfl
  · rcases tallies_perm f l l' h with ⟨h1, h2⟩ | ⟨ts, ts', h1, h2, hp⟩
    · simp [h1, h2]
    · simp only [h1, h2, hp.length_eq, elect_perm pn ts ts' hp]

theorem tally_some (f : Fault) (c : Nat × VRec) (t : Tally) :
    tally f c = .ok (some t) ↔
      ¬ (f = .snapshot ∨ f = .vote c.1) ∧ ∃ bs, c.2 = .ballots bs ∧ 0 < bs.sum ∧ t = ⟨c.1, bs.sum⟩ := by
  unfold tally
  by_cases hf : f = .snapshot ∨ f = .vote c.1
  · simp [hf]
  · simp only [hf, if_false, not_false_eq_true, true_and]
    cases hv : c.2 with
    | absent => simp
    | corrupt => simp
    | ballots bs =>
      by_cases hs : bs.sum ≤ 0
      · simp only [hs, if_true, VRec.ballots.injEq, exists_eq_left']
        constructor
        · intro h; cases h
        · rintro ⟨h, -⟩; omega
      · simp only [hs, if_false, Res.ok.injEq, Option.some.injEq, VRec.ballots.injEq, exists_eq_left']
        constructor
        · intro h; exact ⟨by omega, h.symm⟩
        · rintro ⟨-, h⟩; exact h.symm

/-- who takes part in the count: exactly the candidates with a decodable vote record of positive total -/
theorem tallies_mem (f : Fault) (l : List (Nat × VRec)) (ts : List Tally) (h : tallies f l = .ok ts) (t : Tally) :
    t ∈ ts ↔ ∃ bs, (t.addr, VRec.ballots bs) ∈ l ∧ t.ballots = bs.sum ∧ 0 < bs.sum := by
  unfold tallies at h
  split at h
  · cases h
  · rename_i hany
    simp only [Res.ok.injEq] at h
    subst h
    have hg : ∀ c : Nat × VRec, pick (tally f c) = some t ↔ tally f c = .ok (some t) := by
      intro c
      cases htc : tally f c with
      | err => simp [pick]
      | ok o => cases o <;> simp [pick]
    simp only [List.mem_filterMap, hg, tally_some]
    constructor
    · rintro ⟨c, hc, -, bs, hv, hpos, rfl⟩
      refine ⟨bs, ?_, rfl, hpos⟩
      have : c = (c.1, VRec.ballots bs) := by rw [← hv]
      rw [this] at hc
      exact hc
    · rintro ⟨bs, hmem, hb, hpos⟩
      refine ⟨(t.addr, VRec.ballots bs), hmem, ?_, bs, rfl, hpos, ?_⟩
      · intro hf
        apply hany
        simp only [List.any_eq_true]
        exact ⟨_, hmem, by simp [tally, hf]⟩
      · cases t
        simp_all

/-! ### faults and undecodable records -/

theorem tallies_err_of_mem (f : Fault) (l : List (Nat × VRec)) (c : Nat × VRec) (hc : c ∈ l)
    (he : tally f c = .err) : tallies f l = .err := by
  unfold tallies
  have : l.any (fun c => tally f c == .err) = true := by
    simp only [List.any_eq_true]
    exact ⟨c, hc, by simp [he]⟩
  simp [this]

/-- **An unreadable ballot record is not "no votes"**: if reading the vote key of a nominated candidate
fails, the election has no result - whatever the other records say. -/
theorem topK_vote_fault (init : List Nat) (pn : Nat) (l : List (Nat × VRec)) (c : Nat) (v : VRec)
    (hc : (c, v) ∈ l) : topK init pn (.vote c) (.cands l) = .err := by
  unfold topK
  have : tallies (.vote c) l = .err := tallies_err_of_mem _ l (c, v) hc (by simp [tally])
  simp [this]

/-- ... nor is a vote record that does not decode -/
theorem topK_corrupt_vote (init : List Nat) (pn : Nat) (f : Fault) (l : List (Nat × VRec)) (c : Nat)
    (hc : (c, VRec.corrupt) ∈ l) : topK init pn f (.cands l) = .err := by
  unfold topK
  split
  · rfl
  · have : tallies f l = .err := tallies_err_of_mem _ l (c, .corrupt) hc (by
      unfold tally; split <;> rfl)
    simp [this]

theorem topK_nominate_fault (init : List Nat) (pn : Nat) (r : NRec) : topK init pn .nominate r = .err := by
  simp [topK]

theorem topK_snapshot_fault (init : List Nat) (pn : Nat) (r : NRec) : topK init pn .snapshot r = .err := by
  simp [topK]

theorem topK_corrupt_nominate (init : List Nat) (pn : Nat) (f : Fault) : topK init pn f .corrupt = .err := by
  unfold topK; split <;> rfl

/-- what a successful election returns: the initial proposers (no record / too few eligible candidates) or the
`proposer_num` best of the count -/
theorem topK_ok (init : List Nat) (pn : Nat) (f : Fault) (r : NRec) (vals : List Nat)
    (h : topK init pn f r = .ok vals) :
    (r = .absent ∧ vals = init) ∨
      ∃ l ts, r = .cands l ∧ tallies f l = .ok ts ∧
        ((ts.length < pn ∧ vals = init) ∨ (pn ≤ ts.length ∧ vals = elect pn ts)) := by
  unfold topK at h
  split at h
  · cases h
  · cases r with
    | absent => left; simp only [Res.ok.injEq] at h; exact ⟨rfl, h.symm⟩
    | corrupt => cases h
    | cands l =>
      right
      simp only at h
      cases ht : tallies f l with
      | err => simp [ht] at h
      | ok ts =>
        simp only [ht] at h
        refine ⟨l, ts, rfl, ht, ?_⟩
        by_cases hl : ts.length < pn
        · simp only [hl, if_true, Res.ok.injEq] at h; exact Or.inl ⟨hl, h.symm⟩
        · simp only [hl, if_false, Res.ok.injEq] at h; exact Or.inr ⟨by omega, h.symm⟩

/-! ### the producer check -/

/-- **tdpos with elections: accepted iff the proposer is the elected one of the slot.** -/
theorem check_accept_iff (c : Chain) (f : Fault) (h term pos bp proposer : Nat) :
    check c f h term pos bp proposer = .accept ↔
      1 ≤ term ∧ bp < c.bn ∧ pos < c.pn ∧
        ∃ vals, calOld c f h term = .ok vals ∧ vals[pos]? = some proposer := by
  unfold check
  by_cases hs : term < 1 ∨ bp ≥ c.bn ∨ pos ≥ c.pn
  · simp only [hs, if_true]
    constructor
    · intro h; cases h
    · rintro ⟨h1, h2, h3, -⟩; omega
  · simp only [hs, if_false]
    have hs' : 1 ≤ term ∧ bp < c.bn ∧ pos < c.pn := by omega
    cases hc : calOld c f h term with
    | err => simp
    | ok vals =>
      simp only [Res.ok.injEq, exists_eq_left']
      cases hv : vals[pos]? with
      | none => simp
      | some v =>
        by_cases hp : v = proposer
        · simp [hp, hs']
        · simp only [hp, if_false, Option.some.injEq, and_false]
          constructor
          · intro h; cases h
          · intro h; exact h.elim

/-- at most one producer per slot -/
theorem check_at_most_one_producer (c : Chain) (f : Fault) (h term pos bp p q : Nat)
    (hp : check c f h term pos bp p = .accept) (hq : check c f h term pos bp q = .accept) : p = q := by
  obtain ⟨-, -, -, vals, h1, h2⟩ := (check_accept_iff ..).mp hp
  obtain ⟨-, -, -, vals', h1', h2'⟩ := (check_accept_iff ..).mp hq
  rw [h1] at h1'
  cases h1'
  rw [h2] at h2'
  exact Option.some.inj h2'

/-- **A block that opens a new term is refused while the ballots of a nominated candidate cannot be read.**
(`h ≥ tip`: the block is not below the ledger tip; its term differs from the tip's, so the proposers of the
new term have to be elected now, from the snapshot of block `tip - 3`.) -/
theorem check_new_term_fault_rejects (c : Chain) (h term pos bp proposer cand : Nat) (v : VRec)
    (l : List (Nat × VRec)) (hh : c.start + 3 ≤ h) (htip : c.tip ≤ h) (hst : c.start + 3 ≤ c.tip)
    (hterm : c.terms[c.tip]? ≠ some term)
    (hrec : recordAt c.snaps (c.tip - 3) = .cands l) (hc : (cand, v) ∈ l) :
    check c (.vote cand) h term pos bp proposer ≠ .accept := by
  intro hacc
  obtain ⟨-, -, -, vals, h1, -⟩ := (check_accept_iff ..).mp hacc
  unfold calOld at h1
  have h1' : ¬ h < c.start + 3 := by omega
  have h2' : ¬ h < c.tip := by omega
  have h3' : (c.terms[c.tip]? == some term) = false := by simpa using hterm
  simp only [h1', h2', h3', if_false] at h1
  unfold calTopK at h1
  have h4' : ¬ c.tip < c.start + 3 := by omega
  simp only [h4', if_false, hrec, topK_vote_fault c.init c.pn l cand v hc] at h1
  cases h1

/-- the same for any fault on the nominate key or on the snapshot itself, and for undecodable records -/
theorem check_new_term_no_election_rejects (c : Chain) (f : Fault) (h term pos bp proposer : Nat)
    (hh : c.start + 3 ≤ h) (htip : c.tip ≤ h) (hst : c.start + 3 ≤ c.tip)
    (hterm : c.terms[c.tip]? ≠ some term)
    (herr : topK c.init c.pn f (recordAt c.snaps (c.tip - 3)) = .err) :
    check c f h term pos bp proposer ≠ .accept := by
  intro hacc
  obtain ⟨-, -, -, vals, h1, -⟩ := (check_accept_iff ..).mp hacc
  unfold calOld at h1
  have h1' : ¬ h < c.start + 3 := by omega
  have h2' : ¬ h < c.tip := by omega
  have h3' : (c.terms[c.tip]? == some term) = false := by simpa using hterm
  simp only [h1', h2', h3', if_false] at h1
  unfold calTopK at h1
  have h4' : ¬ c.tip < c.start + 3 := by omega
  simp only [h4', if_false, herr] at h1
  cases h1

/-! ### the full clause, and where the code falls short of it (known finding `tdpos-accept-backdated-term`) -/

/-- the proposers the chain's own history names for a block on top of the tip stamped in `term`: those of the
tip's term if it continues it; those the term was opened under if the ledger already holds a block of it; a
fresh election from the tip if the block opens the term -/
def entitledSet (c : Chain) (term : Nat) : Res (List Nat) :=
  if c.terms[c.tip]? == some term then calHis c .none c.tip
  else
    match (List.range (c.tip + 1)).find? (fun j => decide (c.start ≤ j) && (c.terms[j]? == some term)) with
    | some j => calHis c .none j
    | none => calTopK c .none c.tip

/-- full strength: every accepted block on top of the tip comes from the proposer its term's own election names -/
def accepted_is_entitled_statement : Prop :=
  ∀ (c : Chain) (h term pos bp p : Nat), c.start + 3 ≤ h → c.tip ≤ h →
    check c .none h term pos bp p = .accept → ∃ vals, entitledSet c term = .ok vals ∧ vals[pos]? = some p

private def chBack : Chain :=
  ⟨1, [0, 1], 2, 2, [0, 1, 1, 1, 1, 2], [(1, .cands [(2, .ballots [5]), (3, .ballots [4])])]⟩

/-- **false of the code as it is**: blocks 1..4 are term 1 (initial proposers 0, 1), block 5 opened term 2 and
the ballots recorded in block 1 elect 2, 3.  A block on top of the tip stamped in slot (term 1, pos 0) - the slot
of proposer 0 - is accepted from 2: `CalOldProposers` elects anew from the tip instead of looking term 1 up. -/
theorem accepted_is_entitled_counterexample : ¬ accepted_is_entitled_statement := by
  intro h
  obtain ⟨vals, h1, h2⟩ := h chBack 6 1 0 0 2 (by decide) (by decide) (by decide)
  have he : entitledSet chBack 1 = .ok [0, 1] := by decide
  rw [he] at h1
  cases h1
  revert h2
  decide

/-- **true whenever the block's term is the tip's or is not yet on the ledger** (the block continues the
current term or opens a new one) - the missing hypothesis is exactly "the block is not stamped in a term that
is over". -/
theorem accepted_is_entitled_partial (c : Chain) (h term pos bp p : Nat) (hh : c.start + 3 ≤ h)
    (htip : c.tip ≤ h)
    (hterm : c.terms[c.tip]? = some term ∨
      (List.range (c.tip + 1)).find? (fun j => decide (c.start ≤ j) && (c.terms[j]? == some term)) = none)
    (hacc : check c .none h term pos bp p = .accept) :
    ∃ vals, entitledSet c term = .ok vals ∧ vals[pos]? = some p := by
  obtain ⟨-, -, -, vals, h1, h2⟩ := (check_accept_iff ..).mp hacc
  refine ⟨vals, ?_, h2⟩
  unfold calOld at h1
  have h1' : ¬ h < c.start + 3 := by omega
  have h2' : ¬ h < c.tip := by omega
  simp only [h1', h2', if_false] at h1
  unfold entitledSet
  by_cases ht : c.terms[c.tip]? = some term
  · have : (c.terms[c.tip]? == some term) = true := by simp [ht]
    simp only [this, if_true] at h1 ⊢
    exact h1
  · have hb : (c.terms[c.tip]? == some term) = false := by simpa using ht
    simp only [hb] at h1 ⊢
    rcases hterm with h | h
    · exact absurd h ht
    · simp only [h]
      exact h1

/-! non-vacuity: two proposers; candidates 2 (5 ballots), 3 (4) and 0 (1) recorded in block 1; ledger of five
blocks of term 1; a block of height 5 in term 2 opens the new term under the snapshot of block 1. -/
private def chEx : Chain :=
  ⟨1, [0, 1], 2, 2, [0, 1, 1, 1, 1], [(1, .cands [(2, .ballots [5]), (3, .ballots [4]), (0, .ballots [1])])]⟩
example : calOld chEx .none 5 2 = .ok [2, 3] := by decide
example : check chEx .none 5 2 0 0 2 = .accept := by decide
example : check chEx .none 5 2 1 0 3 = .accept := by decide
example : check chEx .none 5 2 0 0 0 = .reject := by decide
/-- candidate 2's ballots unreadable: nobody is accepted - neither 2 nor the runner-up 3 -/
example : check chEx (.vote 2) 5 2 0 0 2 = .reject := by decide
example : check chEx (.vote 2) 5 2 0 0 3 = .reject := by decide
/-- inside term 1 the initial proposers stay in force -/
example : check chEx .none 5 1 0 0 0 = .accept := by decide
/-- ties are broken by address, larger first -/
example : elect 2 [⟨0, 4⟩, ⟨2, 4⟩, ⟨3, 4⟩] = [3, 2] := by decide

end XV.C16
