import XV.Model.Plug
/-!
C16, the dispatch clause behind every plugin clause: a block is judged by the consensus IN FORCE - the last
upgrade that took effect on the chain - and by no retired one, however often the node was restarted and in
whatever order the stored upgrade history (a JSON object read into a Go map) happens to be enumerated.
-/
namespace XV.C16
open XV.Plug

theorem lookup_perm {s s' : Stored} (h : s.Perm s') (hn : (s.map Prod.fst).Nodup) (i : Nat) :
    lookup s i = lookup s' i := by
  induction h with
  | nil => rfl
  | cons x _ ih =>
    simp only [List.map_cons, List.nodup_cons] at hn
    simp only [lookup, ih hn.2]
  | swap x y l =>
    simp only [List.map_cons, List.nodup_cons, List.mem_cons, not_or] at hn
    simp only [lookup]
    by_cases hx : x.1 = i <;> by_cases hy : y.1 = i <;> simp [hx, hy]
    exact absurd (hy.trans hx.symm) hn.1.1
  | trans h₁ _ ih₁ ih₂ =>
    have hn' := (List.Perm.nodup_iff (h₁.map Prod.fst)).mp hn
    rw [ih₁ hn, ih₂ hn']

theorem restoreFrom_congr (s s' : Stored) (h : ∀ i, lookup s i = lookup s' i) :
    ∀ n i, restoreFrom s i n = restoreFrom s' i n := by
  intro n
  induction n with
  | zero => intro i; rfl
  | succ n ih => intro i; simp only [restoreFrom, h i, ih (i + 1)]

/-- **The order of the stored history does not matter**: two enumerations of the same map restore the same
list of instances. -/
theorem restore_perm {s s' : Stored} (h : s.Perm s') (hn : (s.map Prod.fst).Nodup) : restore s = restore s' := by
  unfold restore
  rw [h.length_eq]
  exact restoreFrom_congr s s' (lookup_perm h hn) _ _

theorem lookup_enumFrom : ∀ (ks : List Kind) (o j : Nat), lookup (enumFrom o ks) (o + j) = ks[j]? := by
  intro ks
  induction ks with
  | nil => intro o j; simp [enumFrom, lookup]
  | cons k ks ih =>
    intro o j
    cases j with
    | zero => simp [enumFrom, lookup]
    | succ j =>
      have : ¬ o = o + (j + 1) := by omega
      simp only [enumFrom, lookup, this, if_false, List.getElem?_cons_succ]
      have := ih (o + 1) j
      rwa [show o + 1 + j = o + (j + 1) by omega] at this

theorem restoreFrom_of_lookup (s : Stored) : ∀ (ks : List Kind) (o : Nat),
    (∀ j, j < ks.length → lookup s (o + j) = ks[j]?) → restoreFrom s o ks.length = ks := by
  intro ks
  induction ks with
  | nil => intro o _; rfl
  | cons k ks ih =>
    intro o h
    have h0 := h 0 (by simp)
    simp only [Nat.add_zero, List.getElem?_cons_zero] at h0
    simp only [List.length_cons, restoreFrom, h0]
    rw [ih (o + 1)]
    · rfl
    · intro j hj
      have := h (j + 1) (by simp; omega)
      rwa [show o + (j + 1) = o + 1 + j by omega, List.getElem?_cons_succ] at this

theorem enumFrom_length : ∀ (ks : List Kind) (o : Nat), (enumFrom o ks).length = ks.length := by
  intro ks
  induction ks with
  | nil => intro o; rfl
  | cons k ks ih => intro o; simp [enumFrom, ih]

theorem enumFrom_keys : ∀ (ks : List Kind) (o : Nat), (enumFrom o ks).map Prod.fst = List.range' o ks.length := by
  intro ks
  induction ks with
  | nil => intro o; rfl
  | cons k ks ih => intro o; simp [enumFrom, ih, List.range'_succ]

theorem enumFrom_append : ∀ (ks : List Kind) (o : Nat) (k : Kind),
    enumFrom o (ks ++ [k]) = enumFrom o ks ++ [(o + ks.length, k)] := by
  intro ks
  induction ks with
  | nil => intro o k; simp [enumFrom]
  | cons x ks ih => intro o k; simp [enumFrom, ih]; omega

/-- restoring a stored history gives back the history, in order -/
theorem restore_enum (ks : List Kind) : restore (enumFrom 0 ks) = ks := by
  unfold restore
  rw [enumFrom_length]
  apply restoreFrom_of_lookup
  intro j _
  have := lookup_enumFrom ks 0 j
  simpa using this

/-- **Restart in any map order**: whatever order the stored pairs are enumerated in, the restored list of
instances is the history in index order - so its last element, the consensus in force, is the latest upgrade. -/
theorem restore_any_order (ks : List Kind) (s : Stored) (h : s.Perm (enumFrom 0 ks)) : restore s = ks := by
  have hn : ((enumFrom 0 ks).map Prod.fst).Nodup := by
    rw [enumFrom_keys]; exact List.nodup_range'
  rw [← restore_enum ks]
  exact (restore_perm h.symm hn).symm

/-- what holds of every node state reachable by upgrades and restarts -/
structure Inv (g : Kind) (h : List Kind) (n : Node) : Prop where
  gen : n.genesis = g
  live : n.live = h
  stored : (n.stored = [] ∧ h = [g]) ∨ (n.stored = enumFrom 0 h ∧ h ≠ [])

theorem inv_boot (g : Kind) : Inv g [g] (boot g []) := ⟨rfl, rfl, Or.inl ⟨rfl, rfl⟩⟩

theorem inv_restart (g : Kind) (h : List Kind) (n : Node) (hi : Inv g h n) : Inv g h (restart n) := by
  obtain ⟨hg, hl, hs⟩ := hi
  refine ⟨hg, ?_, hs⟩
  rcases hs with ⟨h1, h2⟩ | ⟨h1, h2⟩
  · simp [restart, boot, h1, hg, h2]
  · have hne : (enumFrom 0 h).isEmpty = false := by
      cases h with
      | nil => exact absurd rfl h2
      | cons a t => rfl
    simp [restart, boot, h1, hne, restore_enum]

theorem inv_upgrade (g : Kind) (h : List Kind) (n : Node) (k : Kind) (hi : Inv g h n) :
    Inv g (if refuses (enumFrom 0 h) k then h else h ++ [k]) (upgrade n k) := by
  obtain ⟨hg, hl, hs⟩ := hi
  have hc : (if n.stored.isEmpty then [(0, n.genesis)] else n.stored) = enumFrom 0 h := by
    rcases hs with ⟨h1, h2⟩ | ⟨h1, h2⟩
    · simp [h1, h2, hg, enumFrom]
    · cases h with
      | nil => exact absurd rfl h2
      | cons a t => simp [h1, enumFrom]
  unfold upgrade
  simp only [hc]
  by_cases hr : refuses (enumFrom 0 h) k
  · simp only [hr, if_true]
    exact ⟨hg, hl, hs⟩
  · simp only [hr]
    refine ⟨hg, by simp [hl], Or.inr ⟨?_, by simp⟩⟩
    simp [enumFrom_append, enumFrom_length]

/-- **The instances a node holds are the chain's effective upgrade history**, after any sequence of live
upgrades and restarts. -/
theorem run_inv (g : Kind) (evs : List Ev) : Inv g (effective g evs) (run g evs) := by
  unfold effective run
  suffices H : ∀ (evs : List Ev) (h : List Kind) (n : Node), Inv g h n →
      Inv g (evs.foldl (fun (h : List Kind) e =>
        match e with
        | .restart => h
        | .up k => if refuses (enumFrom 0 h) k then h else h ++ [k]) h) (evs.foldl apply n) from
    H evs [g] _ (inv_boot g)
  intro evs
  induction evs with
  | nil => intro h n hi; exact hi
  | cons e es ih =>
    intro h n hi
    simp only [List.foldl_cons]
    apply ih
    cases e with
    | up k => exact inv_upgrade g h n k hi
    | restart => exact inv_restart g h n hi

theorem run_live (g : Kind) (evs : List Ev) : (run g evs).live = effective g evs := (run_inv g evs).live

/-- **Restarts never change the consensus in force.** -/
theorem restart_keeps_in_force (g : Kind) (evs : List Ev) :
    inForce (restart (run g evs)) = inForce (run g evs) := by
  have h1 := run_inv g evs
  have h2 := inv_restart g _ _ h1
  simp [inForce, h1.live, h2.live]

/-- ... not even when the stored history comes back from the map in another order -/
theorem restart_any_order_keeps_in_force (g : Kind) (evs : List Ev) (s : Stored)
    (hs : (run g evs).stored ≠ []) (hp : s.Perm (run g evs).stored) :
    (boot g s).live = (run g evs).live := by
  have h1 := run_inv g evs
  rcases h1.stored with ⟨h, _⟩ | ⟨h, _⟩
  · exact absurd h hs
  · rw [h] at hp hs
    have hne : s.isEmpty = false := by
      cases s with
      | nil => exact absurd hp.symm.eq_nil hs
      | cons a t => rfl
    simp [boot, hne, restore_any_order _ s hp, h1.live]

/-- **Only the consensus in force decides**: the block is accepted iff it passes `CheckMinerMatch` of the
latest upgrade that took effect. -/
theorem plug_accept_iff (g : Kind) (evs : List Ev) (sat : Kind → Bool) :
    check (run g evs) sat = true ↔ ∃ k, (effective g evs).getLast? = some k ∧ sat k = true := by
  unfold check inForce
  rw [run_live]
  cases (effective g evs).getLast? with
  | none => simp
  | some k => simp

/-- a block that satisfies only retired instances is refused -/
theorem plug_rejects_retired (g : Kind) (evs : List Ev) (sat : Kind → Bool) (k : Kind)
    (hk : (effective g evs).getLast? = some k) (hs : sat k = false) : check (run g evs) sat = false := by
  cases h : check (run g evs) sat with
  | false => rfl
  | true =>
    obtain ⟨k', h1, h2⟩ := (plug_accept_iff g evs sat).mp h
    rw [hk] at h1
    cases h1
    rw [hs] at h2
    cases h2

/-! non-vacuity: single → pow, restart: pow is in force; a block only the single instance accepts is refused;
the stored pairs in reverse order restore the same list -/
private def kS : Kind := ⟨0, 0⟩
private def kP : Kind := ⟨1, 0⟩
example : (run kS [.up kP, .restart]).live = [kS, kP] := by decide
example : check (run kS [.up kP, .restart]) (fun k => k = kS) = false := by decide
example : check (run kS [.up kP, .restart]) (fun k => k = kP) = true := by decide
example : restore [(1, kP), (0, kS)] = [kS, kP] := by decide
/-- an upgrade to the configuration already in force is refused, going back to an earlier one is not -/
example : effective kS [.up kS] = [kS] := by decide
example : effective kS [.up kP, .up kS] = [kS, kP, kS] := by decide
/-- another configuration of a name already used is refused -/
example : effective kS [.up kP, .up ⟨0, 1⟩] = [kS, kP] := by decide

end XV.C16
