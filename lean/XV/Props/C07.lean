import XV.Model.Schema
import XV.Model.SigLogic
/-!
C07 — transaction integrity and authorisation: nothing is spent or invoked unsigned.

Part 1 (encodings): the signing digest and the id of a v3 transaction are injective encodings
of every semantic field (generic codec theorem + the schema regenerated from the Go source).
The v1/v2 JSON-stream digest is *not* injective (known finding `txdigest-v1v2-not-injective`,
format frozen): `digest_binds_fields_statement` is refuted, `digest_binds_fields_partial` is v3.
Part 2 (decision logic): acceptance implies valid signatures of the initiator and of every listed
signer and an authorised owner for every spent output.
-/
namespace XV.C07
open XV.Enc XV.Schema

/-! ## Part 1 — encodings -/

/-- **Generic**: an encoder assembled from the framing primitives (fixed-width words,
length-prefixed bytes, counted loops, pairs) can be decoded, hence is injective. -/
theorem enc_injective {α : Type} (c : Codec α) (r₁ r₂ : α) (h₁ : c.valid r₁) (h₂ : c.valid r₂)
    (h : c.enc r₁ = c.enc r₂) : r₁ = r₂ := c.inj r₁ r₂ h₁ h₂ h

/-- The write sequence extracted from today's `txDigestHashV2` is the one `cDigest`/`cId` implement
(dropping `enc.Encode(tx.Desc)`, reordering or un-framing a field breaks this). -/
theorem gen_v3_is_model : XV.Gen.txDigestV3 = modelV3 := by decide

/-- Every value of the extracted v3 schema is framed, every loop counted, no value-dependent omission. -/
theorem v3_well_delimited : wellDelimited XV.Gen.txDigestV3 = true := by decide

/-- Every field of the `Transaction` message (and sub-messages, from the .pb.go struct tags) is
written into the signing digest, except the explicit exclusion list (ids, signatures, receive
time, ModifyBlock). -/
theorem v3_covers :
    covers (digestItems XV.Gen.txDigestV3) (semanticFields XV.Gen.txFields excludedFromDigest) = true := by decide

/-- The id additionally covers the three signature fields. -/
theorem id_covers_signatures :
    covers XV.Gen.txDigestV3 (semanticFields XV.Gen.txFields excludedFromId) = true := by decide

/-- the exclusion lists name existing fields only (no stale exclusions), and the digest writes no
signature field -/
theorem exclusions_exact :
    excludedFromDigest.all (fun f => XV.Gen.txFields.contains f) = true ∧
    excludedFromDigest.all (fun f => !(paths (digestItems XV.Gen.txDigestV3)).contains f) = true := by decide

/-- size bound under which lengths fit the 8-byte prefix (any real message) -/
def Core.valid (c : Core) : Prop := cDigest.valid c
def Tx.valid (t : Tx) : Prop := cId.valid t

/-- **Two v3 transactions that differ in a covered field never share a digest pre-image.** -/
theorem digest_binds_fields_partial (t₁ t₂ : Tx) (h₁ : Core.valid t₁.core) (h₂ : Core.valid t₂.core)
    (h : digestPre t₁ = digestPre t₂) : t₁.core = t₂.core :=
  cDigest.inj _ _ h₁ h₂ h

/-- The id pre-image binds every covered field *and* every signature. -/
theorem id_binds_fields_and_signatures (t₁ t₂ : Tx) (h₁ : Tx.valid t₁) (h₂ : Tx.valid t₂)
    (h : idPre t₁ = idPre t₂) : t₁.core = t₂.core ∧ t₁.signs = t₂.signs := by
  have := cId.inj _ _ h₁ h₂ h
  rw [this]; exact ⟨rfl, rfl⟩

/-- Signatures are excluded from the signing digest (so they can be attached after signing). -/
theorem digest_ignores_signatures (t : Tx) (s : Signs) : digestPre { t with signs := s } = digestPre t := rfl

/-- Under "no collision between the two pre-images", equal digests mean equal covered fields. -/
theorem digest_hash_binds_fields (H : Bytes → Bytes) (t₁ t₂ : Tx) (h₁ : Core.valid t₁.core) (h₂ : Core.valid t₂.core)
    (hnc : H (digestPre t₁) = H (digestPre t₂) → digestPre t₁ = digestPre t₂)
    (h : H (digestPre t₁) = H (digestPre t₂)) : t₁.core = t₂.core :=
  digest_binds_fields_partial t₁ t₂ h₁ h₂ (hnc h)

/-! ### v1 / v2: the JSON stream is not injective (known finding K1) -/

/-- The extracted v1/v2 schema is not well delimited: values are omitted depending on their
content and loops are not counted. -/
theorem v1_not_well_delimited : wellDelimited XV.Gen.txDigestV1 = false := by decide

/-- The modelled guards of the input loop are the extracted ones. -/
theorem gen_v1_inputs_guards : XV.Gen.txDigestV1.take 5 = [
    ⟨"TxInputs[].RefTxid", .json, ["len(TxInputs[].RefTxid)>0"], ["TxInputs"]⟩,
    ⟨"TxInputs[].RefOffset", .json, [], ["TxInputs"]⟩,
    ⟨"TxInputs[].FromAddr", .json, ["len(TxInputs[].FromAddr)>0"], ["TxInputs"]⟩,
    ⟨"TxInputs[].Amount", .json, ["len(TxInputs[].Amount)>0"], ["TxInputs"]⟩,
    ⟨"TxInputs[].FrozenHeight", .json, [], ["TxInputs"]⟩] := by decide

/-- the property at full strength, for the v1/v2 stream -/
def digest_binds_fields_statement : Prop :=
  ∀ (i₁ i₂ : List In1) (rest : List Tok), v1Stream i₁ rest = v1Stream i₂ rest → i₁ = i₂

/-- **Collision witness**: an input spending `FromAddr = X` with empty `Amount` and one with empty
`FromAddr` and `Amount = X` have the same v1/v2 digest pre-image, whatever the other fields. -/
theorem digest_binds_fields_counterexample : ¬ digest_binds_fields_statement := by
  intro h
  have := h [⟨[1], 0, [7], [], 0⟩] [⟨[1], 0, [], [7], 0⟩] [] (by decide)
  revert this
  decide

/-- a second shape: the input loop is not counted, so an input can be split in two -/
theorem v1_loop_uncounted_collision :
    v1Stream [⟨[1], 0, [], [], 5⟩, ⟨[], 6, [], [], 7⟩] [] = v1Stream [⟨[1], 0, [], [], 5⟩] [Tok.num 6, Tok.num 7] := by decide

/-- `HDInfo` enters the stream only from version 2 on: a version-1 transaction's digest and id
do not cover it (known finding `txdigest-v1-omits-hdinfo`, format frozen). -/
theorem v1_hdinfo_only_from_v2 :
    (XV.Gen.txDigestV1.filter (fun i => i.path == "HDInfo")).map (·.conds) = [["Version>=2"]] := by decide

/-! ## Part 2 — decision logic -/

open XV.SigLogic

/-- a verified id is justified: an address has a valid signature entry, an account's rule is
satisfied by the listed signers -/
def Justified (e : Env) (t : SigLogic.Tx) : Name → Prop
  | .ak a => signedBy t a
  | .account n => e.acctOk n t.authRequire = true
  | .invalid => False

private theorem authLoop_inv (e : Env) (t : SigLogic.Tx) (ps : List (AuthReq × Sig)) (v v' : List Name)
    (hps : ∀ p ∈ ps, p.2 ∈ t.authRequireSigns) (hx : t.xuper = none)
    (hv : ∀ x ∈ v, Justified e t x) (h : authLoop ps v = some v') :
    (∀ x ∈ v', Justified e t x) ∧ (∀ x ∈ v, x ∈ v') ∧ ∀ p ∈ ps, Name.ak p.1.addr ∈ v' := by
  induction ps generalizing v with
  | nil => simp [authLoop] at h; subst h; exact ⟨hv, fun _ h => h, by simp⟩
  | cons p ps ih =>
    obtain ⟨r, s⟩ := p
    unfold authLoop at h
    by_cases hc : v.contains (Name.ak r.addr) = true
    · simp only [hc, if_true] at h
      obtain ⟨a, b, c⟩ := ih v (fun q hq => hps q (by simp [hq])) hv h
      refine ⟨a, b, ?_⟩
      intro q hq
      rcases List.mem_cons.mp hq with rfl | hq
      · exact b _ (by simpa using hc)
      · exact c q hq
    · simp only [hc] at h
      by_cases hi : identifyAK r.addr s = true
      · simp only [hi, if_true] at h
        have hs : s ∈ t.authRequireSigns := hps (r, s) (by simp)
        have hj : ∀ x ∈ Name.ak r.addr :: v, Justified e t x := by
          intro x hx'
          rcases List.mem_cons.mp hx' with rfl | hx'
          · simp only [identifyAK, Bool.and_eq_true, beq_iff_eq] at hi
            exact Or.inl ⟨s, by simp [hs], hi.1, hi.2⟩
          · exact hv x hx'
        obtain ⟨a, b, c⟩ := ih _ (fun q hq => hps q (by simp [hq])) hj h
        refine ⟨a, fun x hx' => b x (by simp [hx']), ?_⟩
        intro q hq
        rcases List.mem_cons.mp hq with rfl | hq
        · exact b _ (by simp)
        · exact c q hq
      · simp [hi] at h

private theorem initAcctLoop_inv (e : Env) (t : SigLogic.Tx) (ss : List Sig) (v : List Name) (u : List AuthReq) (n : Nat)
    (res : List Name × List AuthReq) (hss : ∀ s ∈ ss, s ∈ t.initiatorSigns)
    (hv : ∀ x ∈ v, Justified e t x) (h : initAcctLoop ss v u n = some res) :
    (∀ x ∈ res.1, Justified e t x) ∧ (∀ s ∈ ss, ∃ a, s.keyAddr = some a ∧ s.sigOk = true) ∧
    ∀ w ∈ res.2, w ∈ u ∨ (w.prefixAcct = some n ∧ ∃ s ∈ ss, s.keyAddr = some w.addr) := by
  induction ss generalizing v u with
  | nil => simp [initAcctLoop] at h; subst h; exact ⟨hv, by simp, fun w hw => Or.inl hw⟩
  | cons s ss ih =>
    unfold initAcctLoop at h
    cases hk : s.keyAddr with
    | none => simp [hk] at h
    | some a =>
      simp only [hk] at h
      by_cases hs : s.sigOk = true
      · simp only [hs, if_true] at h
        have hj : ∀ x ∈ Name.ak a :: v, Justified e t x := by
          intro x hx
          rcases List.mem_cons.mp hx with rfl | hx
          · exact Or.inl ⟨s, by simp [hss s (by simp)], hk, hs⟩
          · exact hv x hx
        obtain ⟨p, q, r⟩ := ih _ _ (fun s' hs' => hss s' (by simp [hs'])) hj h
        refine ⟨p, ?_, ?_⟩
        · intro s' hs'
          rcases List.mem_cons.mp hs' with rfl | hs'
          · exact ⟨a, hk, hs⟩
          · exact q s' hs'
        · intro w hw
          rcases r w hw with hu | ⟨h1, s', hs', h2⟩
          · rcases List.mem_append.mp hu with hu | hu
            · exact Or.inl hu
            · simp at hu; subst hu
              exact Or.inr ⟨rfl, s, by simp, hk⟩
          · exact Or.inr ⟨h1, s', by simp [hs'], h2⟩
      · simp [hs] at h

private theorem mem_zip_of_mem_left {α β : Type} (l₁ : List α) (l₂ : List β) (hl : l₁.length = l₂.length) (x : α)
    (hx : x ∈ l₁) : ∃ y, (x, y) ∈ l₁.zip l₂ := by
  induction l₁ generalizing l₂ with
  | nil => simp at hx
  | cons a l₁ ih =>
    cases l₂ with
    | nil => simp at hl
    | cons b l₂ =>
      rcases List.mem_cons.mp hx with rfl | hx
      · exact ⟨b, by simp⟩
      · obtain ⟨y, hy⟩ := ih l₂ (by simpa using hl) hx
        exact ⟨y, by simp [hy]⟩

private theorem foldl_addrs_mem (rs : List AuthReq) (acc : List Name) :
    (∀ x ∈ acc, x ∈ rs.foldl (fun acc r => if acc.contains (Name.ak r.addr) then acc else acc ++ [Name.ak r.addr]) acc) ∧
    ∀ r ∈ rs, Name.ak r.addr ∈ rs.foldl (fun acc r => if acc.contains (Name.ak r.addr) then acc else acc ++ [Name.ak r.addr]) acc := by
  induction rs generalizing acc with
  | nil => simp
  | cons r rs ih =>
    simp only [List.foldl_cons]
    by_cases hc : acc.contains (Name.ak r.addr) = true
    · simp only [hc, if_true]
      obtain ⟨a, b⟩ := ih acc
      refine ⟨a, ?_⟩
      intro r' hr'
      rcases List.mem_cons.mp hr' with rfl | hr'
      · exact a _ (by simpa using hc)
      · exact b r' hr'
    · simp only [hc]
      obtain ⟨a, b⟩ := ih (acc ++ [Name.ak r.addr])
      refine ⟨fun x hx => a x (by simp [hx]), ?_⟩
      intro r' hr'
      rcases List.mem_cons.mp hr' with rfl | hr'
      · exact a _ (by simp)
      · exact b r' hr'

private theorem eq_singleton_of_mem_of_length_le_one {α : Type} (l : List α) (k : α) (hl : l.length ≤ 1) (hk : k ∈ l) :
    l = [k] := by
  cases l with
  | nil => simp at hk
  | cons a l =>
    cases l with
    | nil => simp at hk; subst hk; rfl
    | cons b l => simp at hl

private theorem xuper_inv (e : Env) (t : SigLogic.Tx) (x : XSign) (v : List Name) (hx : t.xuper = some x)
    (h : verifyXuperSign t x = some v) :
    (∀ n ∈ v, ∃ a, n = Name.ak a ∧ signedBy t a) ∧ t.initiator ∈ v ∧ ∀ r ∈ t.authRequire, Name.ak r.addr ∈ v := by
  unfold verifyXuperSign verifyXuperSignWith xuperAddrs at h
  simp only at h
  split at h
  · simp at h
  · rename_i hlen
    split at h
    · simp at h
    · split at h
      · rename_i hall
        split at h
        · simp at h
        · rename_i hmulti
          split at h
          · rename_i hsig
            simp only [Option.some.injEq] at h
            subst h
            obtain ⟨m1, m2⟩ := foldl_addrs_mem t.authRequire [t.initiator]
            refine ⟨?_, m1 _ (by simp), m2⟩
            intro n hn
            have hl : (t.authRequire.foldl (fun acc r => if acc.contains (Name.ak r.addr) then acc else acc ++ [Name.ak r.addr]) [t.initiator]).length
                = x.keyAddrs.length := by simpa using hlen
            obtain ⟨k, hk⟩ := mem_zip_of_mem_left _ _ hl n hn
            have := List.all_eq_true.mp hall (n, k) hk
            cases n with
            | ak a =>
              cases k with
              | none => simp at this
              | some k' =>
                simp only [beq_iff_eq] at this
                subst this
                have hmem : some a ∈ x.keyAddrs := (List.of_mem_zip hk).2
                refine ⟨a, rfl, Or.inr ⟨x, hx, hsig, ?_⟩⟩
                cases hm : x.multi with
                | true => exact Or.inl ⟨rfl, hmem⟩
                | false =>
                  refine Or.inr ⟨rfl, ?_⟩
                  have hle : x.keyAddrs.length ≤ 1 := by
                    simp only [hm, Bool.true_and, Bool.not_false, Bool.and_true, decide_eq_true_eq] at hmulti
                    omega
                  exact eq_singleton_of_mem_of_length_le_one _ _ hle hmem
            | account _ => simp at this
            | invalid => simp at this
          · simp at h
      · simp at h

private theorem utxoLoop_inv (e : Env) (t : SigLogic.Tx) (ex : Input → Bool) (ins : List Input) (v : List Name)
    (hv : ∀ x ∈ v, Justified e t x) (h : utxoLoop e t.authRequire ex ins v = true) :
    ∀ i ∈ ins, ex i = false → Justified e t i.owner := by
  induction ins generalizing v with
  | nil => simp
  | cons i ins ih =>
    unfold utxoLoop at h
    intro j hj hb
    by_cases hc : ex i = true
    · simp only [hc, if_true] at h
      rcases List.mem_cons.mp hj with rfl | hj
      · rw [hc] at hb; cases hb
      · exact ih v hv h j hj hb
    · simp only [hc] at h
      by_cases hm : v.contains i.owner = true
      · simp only [hm, if_true] at h
        rcases List.mem_cons.mp hj with rfl | hj
        · exact hv _ (by simpa using hm)
        · exact ih v hv h j hj hb
      · simp only [hm] at h
        cases ho : i.owner with
        | ak a => simp [ho] at h
        | invalid => simp [ho] at h
        | account n =>
          simp only [ho] at h
          by_cases ha : (e.acctExists n && e.acctOk n t.authRequire) = true
          · simp only [ha, if_true] at h
            have hok : e.acctOk n t.authRequire = true := by
              simp only [Bool.and_eq_true] at ha; exact ha.2
            have hv' : ∀ x ∈ Name.account n :: v, Justified e t x := by
              intro x hx
              rcases List.mem_cons.mp hx with rfl | hx
              · exact hok
              · exact hv x hx
            rcases List.mem_cons.mp hj with rfl | hj
            · rw [ho]; exact hok
            · exact ih _ hv' h j hj hb
          · simp [ha] at h

/-- what the signature stage establishes about the ids it reports as verified -/
private theorem sigs_inv (e : Env) (t : SigLogic.Tx) (v : List Name) (hvs : verifySignatures e t = some v) :
    (∀ x ∈ v, Justified e t x) ∧ (∀ a, t.initiator = .ak a → signedBy t a) ∧
    (∀ n, t.initiator = .account n → t.xuper = none ∧
      (∀ s ∈ t.initiatorSigns, ∃ a, s.keyAddr = some a ∧ s.sigOk = true) ∧
      ∃ uris, e.acctOk n uris = true ∧ ∀ w ∈ uris, w.prefixAcct = some n ∧ ∃ s ∈ t.initiatorSigns, s.keyAddr = some w.addr) ∧
    t.initiator ≠ .invalid ∧
    ∀ r ∈ t.authRequire, Name.ak r.addr ∈ v := by
  unfold verifySignatures at hvs
  cases hx : t.xuper with
  | some x =>
    simp only [hx] at hvs
    obtain ⟨a, b, c⟩ := xuper_inv e t x v hx hvs
    refine ⟨?_, ?_, ?_, ?_, c⟩
    · intro n hn; obtain ⟨ad, rfl, hs⟩ := a n hn; exact hs
    · intro ad had; obtain ⟨ad', h1, hs⟩ := a _ b; rw [had] at h1; cases h1; exact hs
    · intro n hn; obtain ⟨ad', h1, _⟩ := a _ b; rw [hn] at h1; cases h1
    · intro hinv; obtain ⟨ad', h1, _⟩ := a _ b; rw [hinv] at h1; cases h1
  | none =>
    simp only [hx] at hvs
    split at hvs
    · simp at hvs
    · rename_i hlen
      simp only [Bool.or_eq_true, decide_eq_true_eq, bne_iff_ne, ne_eq, not_or, Decidable.not_not] at hlen
      have hzip : ∀ p ∈ t.authRequire.zip t.authRequireSigns, p.2 ∈ t.authRequireSigns :=
        fun p hp => (List.of_mem_zip hp).2
      have hcov : ∀ v' : List Name, (∀ p ∈ t.authRequire.zip t.authRequireSigns, Name.ak p.1.addr ∈ v') →
          ∀ r ∈ t.authRequire, Name.ak r.addr ∈ v' := by
        intro v' hp r hr
        obtain ⟨s, hs⟩ := mem_zip_of_mem_left _ _ hlen.2 r hr
        exact hp (r, s) hs
      cases hi : t.initiator with
      | invalid => simp [hi] at hvs
      | ak a =>
        simp only [hi] at hvs
        cases hss : t.initiatorSigns with
        | nil => simp [hss] at hvs
        | cons s ss =>
          simp only [hss] at hvs
          by_cases hid : identifyAK a s = true
          · simp only [hid, if_true] at hvs
            have hsa : signedBy t a := by
              simp only [identifyAK, Bool.and_eq_true, beq_iff_eq] at hid
              exact Or.inl ⟨s, by simp [hss], hid.1, hid.2⟩
            obtain ⟨p, q, r⟩ := authLoop_inv e t _ [Name.ak a] v hzip hx
              (show ∀ x ∈ ([Name.ak a] : List Name), Justified e t x from by
                intro x hx'; simp at hx'; subst hx'; exact hsa) hvs
            exact ⟨p, (fun a' ha' => by cases ha'; exact hsa), (by intro n hn; cases hn), (by simp), hcov v r⟩
          · simp [hid] at hvs
      | account n =>
        simp only [hi] at hvs
        cases hl : initAcctLoop t.initiatorSigns [] [] n with
        | none => simp [hl] at hvs
        | some res =>
          simp only [hl] at hvs
          by_cases hacct : e.acctOk n res.2 = true
          · simp only [hacct, if_true] at hvs
            obtain ⟨p0, p1, p2⟩ := initAcctLoop_inv e t _ [] [] n res (fun s hs => hs) (by simp) hl
            obtain ⟨p, q, r⟩ := authLoop_inv e t _ res.1 v hzip hx p0 hvs
            refine ⟨p, (by intro a ha; cases ha), ?_, (by simp), hcov v r⟩
            intro n' hn'
            cases hn'
            refine ⟨rfl, p1, res.2, hacct, ?_⟩
            intro w hw
            rcases p2 w hw with hu | hu
            · simp at hu
            · exact hu
          · simp [hacct] at hvs

/-- **Acceptance implies signatures and ownership.**  If the verification accepts, then the id
is the hash of the content; an address initiator has a valid signature over the digest under a
key hashing to it (an account initiator: every initiator signature verifies under its own key
and the account's rule accepts those signers); every `AuthRequire` entry's address has a valid
signature; and the owner of every spent output that is not contract-justified is an address with
a valid signature or an account whose rule the listed signers satisfy. -/
theorem accept_implies_signed_with (ex : SigLogic.Tx → Input → Bool) (e : Env) (t : SigLogic.Tx)
    (h : verifyTxWith ex e t = true) :
    t.txidOk = true ∧
    (∀ a, t.initiator = .ak a → signedBy t a) ∧
    (∀ n, t.initiator = .account n → t.xuper = none ∧
        (∀ s ∈ t.initiatorSigns, ∃ a, s.keyAddr = some a ∧ s.sigOk = true) ∧
        ∃ uris, e.acctOk n uris = true ∧ ∀ w ∈ uris, w.prefixAcct = some n ∧ ∃ s ∈ t.initiatorSigns, s.keyAddr = some w.addr) ∧
    t.initiator ≠ .invalid ∧
    (∀ r ∈ t.authRequire, signedBy t r.addr) ∧
    (∀ i ∈ t.inputs, ex t i = false → Justified e t i.owner) := by
  unfold verifyTxWith at h
  simp only [Bool.and_eq_true] at h
  obtain ⟨htx, h⟩ := h
  cases hvs : verifySignatures e t with
  | none => simp [hvs] at h
  | some v =>
    simp only [hvs] at h
    -- what the signature stage establishes
    have key := sigs_inv e t v hvs
    obtain ⟨k1, k2, k2', k3, k4⟩ := key
    refine ⟨htx, k2, k2', k3, ?_, utxoLoop_inv e t (ex t) t.inputs v k1 h⟩
    intro r hr
    exact k1 _ (k4 r hr)

/-- the exemption rule of the code: an input is left to the re-execution check iff the transaction
declares a contract input with the same owner, txid and offset -/
theorem byContract_iff (cins : List Input) (i : Input) :
    byContract cins i = true ↔ ∃ c ∈ cins, c.owner = i.owner ∧ c.txid = i.txid ∧ c.offset = i.offset := by
  simp [byContract, sameUtxo, and_assoc]

/-- **Acceptance implies signatures and ownership** (`ImmediateVerifyTx` up to
`verifyUTXOPermission`): see `accept_implies_signed_with`; the inputs not covered by the owner
check are exactly those declared, with their owner, as spent by the contract execution. -/
theorem accept_implies_signed (e : Env) (t : SigLogic.Tx) (h : verifyTx e t = true) :
    t.txidOk = true ∧
    (∀ a, t.initiator = .ak a → signedBy t a) ∧
    (∀ n, t.initiator = .account n → t.xuper = none ∧
        (∀ s ∈ t.initiatorSigns, ∃ a, s.keyAddr = some a ∧ s.sigOk = true) ∧
        ∃ uris, e.acctOk n uris = true ∧ ∀ w ∈ uris, w.prefixAcct = some n ∧ ∃ s ∈ t.initiatorSigns, s.keyAddr = some w.addr) ∧
    t.initiator ≠ .invalid ∧
    (∀ r ∈ t.authRequire, signedBy t r.addr) ∧
    (∀ i ∈ t.inputs, byContract t.contractInputs i = false → Justified e t i.owner) :=
  accept_implies_signed_with _ e t h

/-- Hence a transaction in which some listed signer's entry does not verify (wrong key, signature
over another digest, removed) and no other entry of that address does, is rejected. -/
theorem unsigned_signer_rejected (e : Env) (t : SigLogic.Tx) (r : AuthReq) (hr : r ∈ t.authRequire)
    (hno : ¬ signedBy t r.addr) : verifyTx e t = false := by
  apply Bool.eq_false_iff.mpr
  intro h
  exact hno ((accept_implies_signed e t h).2.2.2.2.1 r hr)

/-- …and one whose spent output belongs to an address that did not sign is rejected. -/
theorem unsigned_owner_rejected (e : Env) (t : SigLogic.Tx) (i : Input) (a : Addr) (hi : i ∈ t.inputs)
    (hb : byContract t.contractInputs i = false) (ho : i.owner = .ak a) (hno : ¬ signedBy t a) : verifyTx e t = false := by
  apply Bool.eq_false_iff.mpr
  intro h
  have := (accept_implies_signed e t h).2.2.2.2.2 i hi hb
  rw [ho] at this
  exact hno this

/-- a changed id (or changed content under the old id) is rejected -/
theorem txid_mismatch_rejected (e : Env) (t : SigLogic.Tx) (h : t.txidOk = false) : verifyTx e t = false := by
  simp [verifyTx, verifyTxWith, h]

/-- the property at full strength for the signature area: every signature entry of an accepted
transaction is a valid one (so that altering or adding any entry yields rejection) -/
def signature_mutation_rejected_statement : Prop :=
  ∀ (e : Env) (t : SigLogic.Tx), verifyTx e t = true → ∀ s ∈ t.initiatorSigns ++ t.authRequireSigns, s.sigOk = true

/-- False of the code as it is (known finding `signature-area-malleable`): for an address initiator
only the first initiator entry is read, beside a XuperSign no classic entry is read, and the entry
of an already verified address is skipped — such entries may be garbage; signatures are in the id
but not in the digest, so with a recomputed id the altered transaction is accepted. -/
theorem signature_mutation_rejected_counterexample : ¬ signature_mutation_rejected_statement := by
  intro h
  have := h ⟨fun _ _ => true, fun _ => true, fun _ _ => true⟩
    { txidOk := true, initiator := .ak 1, initiatorSigns := [⟨some 1, true⟩, ⟨none, false⟩], authRequire := [],
      authRequireSigns := [], xuper := none, inputs := [{ owner := .ak 1 }] } (by decide) ⟨none, false⟩ (by simp)
  simp at this

/-- What does hold: a mutation that leaves the initiator, a listed signer or the owner of a spent
output without any valid entry is rejected. -/
theorem signature_mutation_rejected_partial (e : Env) (t : SigLogic.Tx)
    (h : (∃ a, t.initiator = .ak a ∧ ¬ signedBy t a) ∨ (∃ r ∈ t.authRequire, ¬ signedBy t r.addr) ∨
         (∃ i ∈ t.inputs, ∃ a, byContract t.contractInputs i = false ∧ i.owner = .ak a ∧ ¬ signedBy t a)) :
    verifyTx e t = false := by
  rcases h with ⟨a, ha, hno⟩ | ⟨r, hr, hno⟩ | ⟨i, hi, a, hb, ho, hno⟩
  · apply Bool.eq_false_iff.mpr
    intro hv
    exact hno ((accept_implies_signed e t hv).2.1 a ha)
  · exact unsigned_signer_rejected e t r hr hno
  · exact unsigned_owner_rejected e t i a hi hb ho hno

/-! ## Part 3 — outputs spent by the contract code the transaction carries

The third way an output may be spent: the contract execution the transaction carries spends it.
Such an input is exempted from the owner check, and `verifyTxRWSets` re-executes the carried code
over exactly the declared inputs.  The theorems say that this exemption cannot be used for an
output whose owner is not a payer of a `Transfer` the code itself makes — *because* the exemption
is keyed by owner, txid and offset (`exemption_needs_owner`: keyed by txid and offset alone, a
victim's output passes as the contract's). -/

private theorem selectUtxo_spec (p : Name) (a : Nat) (ins : List Input) (s : Nat) (tk : List Input) (tot : Nat)
    (left : List Input) (h : selectUtxo p a ins s = some (tk, tot, left)) :
    (∀ i ∈ tk, i.owner = p) ∧ tk ++ left = ins := by
  induction ins generalizing s tk tot left with
  | nil => simp [selectUtxo] at h
  | cons i rest ih =>
    unfold selectUtxo at h
    split at h
    · cases h
    · rename_i ho
      have ho' : i.owner = p := by simpa using ho
      split at h
      · simp only [Option.some.injEq, Prod.mk.injEq] at h
        obtain ⟨rfl, _, rfl⟩ := h
        exact ⟨by simp [ho'], rfl⟩
      · cases hr : selectUtxo p a rest (s + i.amount) with
        | none => simp [hr] at h
        | some r =>
          obtain ⟨tk', tot', left'⟩ := r
          simp only [hr, Option.some.injEq, Prod.mk.injEq] at h
          obtain ⟨rfl, _, rfl⟩ := h
          obtain ⟨a1, a2⟩ := ih _ _ _ _ hr
          refine ⟨?_, by simp [a2]⟩
          intro j hj
          rcases List.mem_cons.mp hj with rfl | hj
          · exact ho'
          · exact a1 j hj

/-- **What a re-execution can spend and pay.**  Whatever inputs the sandbox is given, the code
spends only outputs of the payers of its own transfers (the reader refuses any other owner), takes
them from the front of what it was given, and pays only the recipients it names or the payers. -/
theorem runTransfers_spec (code : List Transfer) (avail ins : List Input) (outs : List Output)
    (h : runTransfers code avail = some (ins, outs)) :
    (∀ i ∈ ins, ∃ tr ∈ code, i.owner = tr.payer) ∧ (∃ left, ins ++ left = avail) ∧
    (∀ o ∈ outs, ∃ tr ∈ code, o.to = tr.to ∨ o.to = tr.payer) := by
  induction code generalizing avail ins outs with
  | nil =>
    simp only [runTransfers, Option.some.injEq, Prod.mk.injEq] at h
    obtain ⟨rfl, rfl⟩ := h
    exact ⟨by simp, ⟨avail, by simp⟩, by simp⟩
  | cons tr trs ih =>
    unfold runTransfers at h
    split at h
    · cases h
    · cases hs : selectUtxo tr.payer tr.amount.toNat avail 0 with
      | none => simp [hs] at h
      | some r =>
        obtain ⟨tk, tot, left⟩ := r
        simp only [hs] at h
        cases hr : runTransfers trs left with
        | none => simp [hr] at h
        | some r' =>
          obtain ⟨ins', outs'⟩ := r'
          simp only [hr, Option.some.injEq, Prod.mk.injEq] at h
          obtain ⟨rfl, rfl⟩ := h
          obtain ⟨s1, s2⟩ := selectUtxo_spec _ _ _ _ _ _ _ hs
          obtain ⟨r1, ⟨left', r2⟩, r3⟩ := ih _ _ _ hr
          refine ⟨?_, ⟨left', by rw [List.append_assoc, r2, s2]⟩, ?_⟩
          · intro i hi
            rcases List.mem_append.mp hi with hi | hi
            · exact ⟨tr, by simp, s1 i hi⟩
            · obtain ⟨tr', h1, h2⟩ := r1 i hi
              exact ⟨tr', by simp [h1], h2⟩
          · intro o ho
            rcases List.mem_append.mp ho with ho | ho
            · rcases List.mem_cons.mp ho with rfl | ho
              · exact ⟨tr, by simp, Or.inl rfl⟩
              · split at ho
                · simp at ho; subst ho; exact ⟨tr, by simp, Or.inr rfl⟩
                · simp at ho
            · obtain ⟨tr', h1, h2⟩ := r3 o ho
              exact ⟨tr', by simp [h1], h2⟩

/-- **Every spent output is authorised.**  If a transaction carrying contract code is accepted,
then re-executing the code over the declared inputs spends and pays exactly what is declared, the
declared payments are outputs of the transaction, every declared input is an input of the
transaction, and every input of the transaction belongs to an address with a valid signature, to
an account whose rule the signers satisfy, or — same owner, same txid, same offset — is one of the
outputs the code itself spends, from its payer, in that re-execution. -/
theorem contract_spend_authorised (e : Env) (code : List Transfer) (t : SigLogic.Tx)
    (h : verifyTxC (fun t => byContract t.contractInputs) e code t = true) :
    runTransfers code t.contractInputs = some (t.contractInputs, t.contractOutputs) ∧
    subOutputs t.contractOutputs t.outputs = true ∧
    (∀ c ∈ t.contractInputs, ∃ i ∈ t.inputs, i.txid = c.txid ∧ i.offset = c.offset) ∧
    ∀ i ∈ t.inputs, Justified e t i.owner ∨
      ((∃ c ∈ t.contractInputs, c.owner = i.owner ∧ c.txid = i.txid ∧ c.offset = i.offset) ∧
       ∃ tr ∈ code, tr.payer = i.owner) := by
  unfold verifyTxC at h
  simp only [Bool.and_eq_true] at h
  obtain ⟨hv, hc⟩ := h
  unfold verifyContract at hc
  simp only [Bool.and_eq_true] at hc
  obtain ⟨heff, hre⟩ := hc
  cases hr : runTransfers code t.contractInputs with
  | none => simp [hr] at hre
  | some r =>
    obtain ⟨ins, outs⟩ := r
    simp only [hr, Bool.and_eq_true, beq_iff_eq] at hre
    obtain ⟨rfl, rfl⟩ := hre
    obtain ⟨r1, _, _⟩ := runTransfers_spec _ _ _ _ hr
    unfold effective at heff
    simp only [Bool.and_eq_true, List.all_eq_true, List.any_eq_true, beq_iff_eq] at heff
    obtain ⟨⟨⟨_, _⟩, hin⟩, hsub⟩ := heff
    refine ⟨rfl, hsub, ?_, ?_⟩
    · intro c hc'
      obtain ⟨i, hi, h1, h2⟩ := hin c hc'
      exact ⟨i, hi, h1, h2⟩
    · intro i hi
      by_cases hb : byContract t.contractInputs i = true
      · right
        obtain ⟨c, hc', h1, h2, h3⟩ := (byContract_iff _ _).mp hb
        refine ⟨⟨c, hc', h1, h2, h3⟩, ?_⟩
        obtain ⟨tr, htr, hp⟩ := r1 c hc'
        exact ⟨tr, htr, by rw [← hp, h1]⟩
      · left
        exact (accept_implies_signed_with _ e t hv).2.2.2.2.2 i hi (by simpa using hb)

/-- the clause of the property: no output is spent unless its owner signed (directly or through
its account) or the carried code spends it from that owner -/
def contract_spend_authorised_statement (ex : SigLogic.Tx → Input → Bool) : Prop :=
  ∀ (e : Env) (code : List Transfer) (t : SigLogic.Tx), verifyTxC ex e code t = true →
    ∀ i ∈ t.inputs, Justified e t i.owner ∨ ∃ tr ∈ code, tr.payer = i.owner

theorem contract_spend_authorised_full :
    contract_spend_authorised_statement (fun t => byContract t.contractInputs) := by
  intro e code t h i hi
  rcases (contract_spend_authorised e code t h).2.2.2 i hi with hj | ⟨_, hp⟩
  · exact Or.inl hj
  · exact Or.inr hp

/-- Hence the transaction of the forged-view attack — the victim's output `(a, T, k)` in the inputs,
`(contract, T, k)` declared to the re-execution, the victim not among the signers, the code paying
only out of other pockets — is rejected. -/
theorem unsigned_owner_rejected_contract (e : Env) (code : List Transfer) (t : SigLogic.Tx) (i : Input) (a : Addr)
    (hi : i ∈ t.inputs) (ho : i.owner = .ak a) (hno : ¬ signedBy t a) (hcode : ∀ tr ∈ code, tr.payer ≠ .ak a) :
    verifyTxC (fun t => byContract t.contractInputs) e code t = false := by
  apply Bool.eq_false_iff.mpr
  intro h
  rcases contract_spend_authorised_full e code t h i hi with hj | ⟨tr, htr, hp⟩
  · rw [ho] at hj; exact hno hj
  · exact hcode tr htr (by rw [hp, ho])

/-- **No code, no exemption.**  A transaction that carries no contract request cannot use the
contract exemption at all: if it is accepted, the owner of every spent output signed (directly or
through its account). -/
theorem no_code_no_exemption (e : Env) (t : SigLogic.Tx)
    (h : verifyTxNoCode (fun t => byContract t.contractInputs) e t = true) :
    ∀ i ∈ t.inputs, Justified e t i.owner := by
  unfold verifyTxNoCode at h
  simp only [Bool.and_eq_true, List.isEmpty_iff] at h
  obtain ⟨⟨hv, hc⟩, _⟩ := h
  intro i hi
  exact (accept_implies_signed_with _ e t hv).2.2.2.2.2 i hi (by simp [byContract, hc])

/-- an exemption keyed by the output reference alone (txid, offset), as `isContractUtxoEffective`
compares -/
def byRefOnly (cins : List Input) (i : Input) : Bool := cins.any (fun c => c.txid == i.txid && c.offset == i.offset)

private def vault : Name := .ak 999
private def envAcl : Env := ⟨fun n uris => uris.any (fun u => u.prefixAcct == some n && u.addr == n), fun n => n < 8, fun _ _ => true⟩

/-- the forged-view attack: address 0 signs; the only input is address 6's output (txid 1, offset 0);
the execution was shown that output as the vault's -/
private def forged : SigLogic.Tx :=
  { txidOk := true, initiator := .ak 0, initiatorSigns := [⟨some 0, true⟩], authRequire := [], authRequireSigns := [],
    xuper := none, inputs := [⟨.ak 6, 1, 0, 100⟩], outputs := [⟨100, .ak 0⟩],
    contractInputs := [⟨vault, 1, 0, 100⟩], contractOutputs := [⟨100, .ak 0⟩] }

/-- **The owner must be part of the exemption key**: were contract-justified inputs matched by txid
and offset only, the forged-view transaction would be accepted although address 6 never signed and
the code pays out of the vault only. -/
theorem exemption_needs_owner : ¬ contract_spend_authorised_statement (fun t => byRefOnly t.contractInputs) := by
  intro h
  have hacc : verifyTxC (fun t => byRefOnly t.contractInputs) envAcl [⟨vault, .ak 0, 100⟩] forged = true := by decide
  rcases h envAcl [⟨vault, .ak 0, 100⟩] forged hacc ⟨.ak 6, 1, 0, 100⟩ (by simp [forged]) with hj | ⟨tr, htr, hp⟩
  · rcases hj with ⟨s, hs, hk, _⟩ | ⟨x, hx, _⟩
    · simp [forged] at hs; subst hs; simp at hk
    · simp [forged] at hx
  · simp at htr; subst htr; simp [vault] at hp

/-! ## Part 4 — the aggregated form, the access-control tables, the two results of the verification,
the entry `Chain.SubmitTx` -/

/-- the aggregated form as the code was found: the slot took a signature of ANY scheme.  The
initiator signs alone with a plain ECDSA signature (checked against the first key only), lists
another address with its public key — and that address counts as verified, its output is spent. -/
private def loneSigner : SigLogic.Tx :=
  { txidOk := true, initiator := .ak 0, initiatorSigns := [], authRequire := [⟨none, 1⟩], authRequireSigns := [],
    xuper := some { keyAddrs := [some 0, some 1], sigOk := true, multi := false }, inputs := [{ owner := .ak 1 }] }

theorem xuper_any_scheme_as_found :
    verifyXuperSignWith false loneSigner { keyAddrs := [some 0, some 1], sigOk := true, multi := false } = some [.ak 0, .ak 1] ∧
    ¬ signedBy loneSigner 1 := by
  refine ⟨by decide, ?_⟩
  intro h
  rcases h with ⟨s, hs, _⟩ | ⟨x, hx, _, h | h⟩
  · simp [loneSigner] at hs
  · simp only [loneSigner, Option.some.injEq] at hx
    subst hx
    simp at h
  · simp only [loneSigner, Option.some.injEq] at hx
    subst hx
    simp at h

/-- the repaired code refuses it (several addresses demand a multi-signature) -/
theorem xuper_lone_signer_rejected (e : Env) : verifyTx e loneSigner = false := by
  simp [verifyTx, verifyTxWith, verifySignatures, verifyXuperSign, verifyXuperSignWith, xuperAddrs, loneSigner]

/-- `utxoLoopV` is `utxoLoop` handing on the ids -/
theorem utxoLoopV_isSome (e : Env) (auth : List AuthReq) (ex : Input → Bool) (ins : List Input) (v : List Name) :
    (utxoLoopV e auth ex ins v).isSome = utxoLoop e auth ex ins v := by
  induction ins generalizing v with
  | nil => simp [utxoLoopV, utxoLoop]
  | cons i ins ih =>
    unfold utxoLoopV utxoLoop
    by_cases hc : ex i = true
    · simp only [hc, if_true]; exact ih v
    · simp only [hc]
      by_cases hm : v.contains i.owner = true
      · simp only [hm, if_true]; exact ih v
      · simp only [hm]
        cases ho : i.owner with
        | ak a => simp
        | invalid => simp
        | account n =>
          simp only
          by_cases ha : (e.acctExists n && e.acctOk n auth) = true
          · simp only [ha, if_true]; exact ih _
          · simp [ha]

private theorem utxoLoopV_inv (e : Env) (t : SigLogic.Tx) (ex : Input → Bool) (ins : List Input) (v v' : List Name)
    (hv : ∀ x ∈ v, Justified e t x) (h : utxoLoopV e t.authRequire ex ins v = some v') : ∀ x ∈ v', Justified e t x := by
  induction ins generalizing v with
  | nil => simp [utxoLoopV] at h; subst h; exact hv
  | cons i ins ih =>
    unfold utxoLoopV at h
    by_cases hc : ex i = true
    · simp only [hc, if_true] at h; exact ih v hv h
    · simp only [hc] at h
      by_cases hm : v.contains i.owner = true
      · simp only [hm, if_true] at h; exact ih v hv h
      · simp only [hm] at h
        cases ho : i.owner with
        | ak a => simp [ho] at h
        | invalid => simp [ho] at h
        | account n =>
          simp only [ho] at h
          by_cases ha : (e.acctExists n && e.acctOk n t.authRequire) = true
          · simp only [ha, if_true] at h
            have hok : e.acctOk n t.authRequire = true := by
              simp only [Bool.and_eq_true] at ha; exact ha.2
            refine ih _ ?_ h
            intro x hx
            rcases List.mem_cons.mp hx with rfl | hx
            · exact hok
            · exact hv x hx
          · simp [ha] at h

/-- the account that decides over a write into an access-control table has its rule satisfied by
the listed signers; a method rule of a contract without confirmed owner cannot be written -/
def AclOwnerOk (e : Env) (t : SigLogic.Tx) : AclWrite → Prop
  | .account n => e.acctOk n t.authRequire = true
  | .method (some n) => e.acctOk n t.authRequire = true
  | .method none => False

private theorem rwPermLoop_inv (e : Env) (t : SigLogic.Tx) (ws : List AclWrite) (v : List Name)
    (hv : ∀ x ∈ v, Justified e t x) (h : rwPermLoop e t.authRequire ws v = true) : ∀ w ∈ ws, AclOwnerOk e t w := by
  induction ws generalizing v with
  | nil => simp
  | cons w ws ih =>
    have step : ∀ n : Nat, (if v.contains (Name.account n) then rwPermLoop e t.authRequire ws v
          else if e.acctOk n t.authRequire then rwPermLoop e t.authRequire ws (Name.account n :: v) else false) = true →
        e.acctOk n t.authRequire = true ∧ ∀ w' ∈ ws, AclOwnerOk e t w' := by
      intro n h
      by_cases hc : v.contains (Name.account n) = true
      · simp only [hc, if_true] at h
        have hj : Justified e t (Name.account n) := hv _ (by simpa using hc)
        exact ⟨hj, ih v hv h⟩
      · simp only [hc] at h
        by_cases ha : e.acctOk n t.authRequire = true
        · simp only [ha, if_true] at h
          refine ⟨ha, ih _ ?_ h⟩
          intro x hx
          rcases List.mem_cons.mp hx with rfl | hx
          · exact ha
          · exact hv x hx
        · simp [ha] at h
    intro w' hw'
    cases w with
    | account n =>
      simp only [rwPermLoop] at h
      obtain ⟨a, b⟩ := step n h
      rcases List.mem_cons.mp hw' with rfl | hw'
      · exact a
      · exact b w' hw'
    | method o =>
      cases o with
      | none => simp [rwPermLoop] at h
      | some n =>
        simp only [rwPermLoop] at h
        obtain ⟨a, b⟩ := step n h
        rcases List.mem_cons.mp hw' with rfl | hw'
        · exact a
        · exact b w' hw'

/-- **No stage refuses ⇒ signed, owned, and every rule change by its owner.**  (`verifyTx` is the
part up to `verifyUTXOPermission`, see `accept_implies_signed` for what it yields.) -/
theorem no_refusal_implies_authorised (e : Env) (t : SigLogic.Tx) (h : firstRefusal e t = none) :
    verifyTx e t = true ∧ (∀ m ∈ t.calls, e.methodOk m (users t) = true) ∧
    (t.hasRequests = true → ∀ w ∈ t.aclWrites, AclOwnerOk e t w) := by
  unfold firstRefusal at h
  by_cases htx : t.txidOk = true
  · simp only [htx, Bool.not_true, Bool.false_eq_true, if_false] at h
    cases hvs : verifySignatures e t with
    | none => simp [hvs] at h
    | some v =>
      simp only [hvs] at h
      cases hu : utxoLoopV e t.authRequire (byContract t.contractInputs) t.inputs v with
      | none => simp [hu] at h
      | some v' =>
        simp only [hu] at h
        have hloop : utxoLoop e t.authRequire (byContract t.contractInputs) t.inputs v = true := by
          rw [← utxoLoopV_isSome, hu]; rfl
        have hmp : methodPerm e t = true := by
          by_cases hm : methodPerm e t = true
          · exact hm
          · simp [hm] at h
        simp only [hmp, Bool.not_true, Bool.false_eq_true, if_false] at h
        refine ⟨by simp [verifyTx, verifyTxWith, htx, hvs, hloop], ?_, ?_⟩
        · intro m hm
          exact List.all_eq_true.mp hmp m hm
        intro hreq
        have hrw : rwPermLoop e t.authRequire t.aclWrites v' = true := by
          by_cases hr : rwPermLoop e t.authRequire t.aclWrites v' = true
          · exact hr
          · simp [hreq, hr] at h
        exact rwPermLoop_inv e t _ v' (utxoLoopV_inv e t _ _ v v' (sigs_inv e t v hvs).1 hu) hrw
  · simp [htx] at h

/-- **The two results agree.**  Whatever a refusing stage's own error value is, `State.VerifyTx`
answers `(true, nil)` or `(false, error)`: every stage's error is replaced by a fixed one, and the
refusal of a transaction that relies on a marked one carries an error. -/
theorem verdict_consistent (relies : Bool) (e : Env) (t : SigLogic.Tx) :
    (stateVerifyTx relies e t).ok = !(stateVerifyTx relies e t).err := by
  unfold stateVerifyTx stateVerifyTxWith immediateVerify immediateVerifyWith
  cases firstRefusal e t <;> cases relies <;> simp

theorem own_errors_irrelevant (own : Stage → Bool) (e : Env) (t : SigLogic.Tx) :
    immediateVerifyWith (fun _ => false) own e t = immediateVerify e t := by
  unfold immediateVerify immediateVerifyWith
  cases firstRefusal e t <;> simp

/-- hence the entry `Chain.SubmitTx`, which looks at the error only, takes into the pool exactly what is accepted -/
theorem submit_iff_accepted (relies : Bool) (e : Env) (t : SigLogic.Tx) (spendable : Bool) :
    submitTx relies e t spendable = ((stateVerifyTx relies e t).ok && spendable) := by
  unfold submitTx submitOf
  rw [verdict_consistent]

theorem accepted_iff_no_refusal (relies : Bool) (e : Env) (t : SigLogic.Tx) :
    (stateVerifyTx relies e t).ok = true ↔ firstRefusal e t = none := by
  unfold stateVerifyTx stateVerifyTxWith immediateVerify immediateVerifyWith
  cases firstRefusal e t <;> cases relies <;> simp

/-- **What `Chain.SubmitTx` takes into the pool is signed and authorised**, on marked chains too. -/
theorem pooled_implies_authorised (relies : Bool) (e : Env) (t : SigLogic.Tx) (spendable : Bool)
    (h : submitTx relies e t spendable = true) :
    verifyTx e t = true ∧ (∀ m ∈ t.calls, e.methodOk m (users t) = true) ∧
    (t.hasRequests = true → ∀ w ∈ t.aclWrites, AclOwnerOk e t w) := by
  rw [submit_iff_accepted, Bool.and_eq_true] at h
  exact no_refusal_implies_authorised e t ((accepted_iff_no_refusal relies e t).mp h.1)

/-- a rule change whose owning account's rule the listed signers do not satisfy does not reach the pool -/
theorem acl_change_without_owner_not_pooled (relies : Bool) (e : Env) (t : SigLogic.Tx) (spendable : Bool)
    (hreq : t.hasRequests = true) (w : AclWrite) (hw : w ∈ t.aclWrites) (hno : ¬ AclOwnerOk e t w) :
    submitTx relies e t spendable = false := by
  apply Bool.eq_false_iff.mpr
  intro h
  exact hno ((pooled_implies_authorised relies e t spendable h).2.2 hreq w hw)

/-- a call of a method whose rule the users (address initiator + listed signers) do not satisfy does
not reach the pool -/
theorem guarded_call_without_rule_not_pooled (relies : Bool) (e : Env) (t : SigLogic.Tx) (spendable : Bool)
    (m : Nat) (hm : m ∈ t.calls) (hno : e.methodOk m (users t) = false) : submitTx relies e t spendable = false := by
  apply Bool.eq_false_iff.mpr
  intro h
  have := (pooled_implies_authorised relies e t spendable h).2.1 m hm
  rw [hno] at this
  cases this

/-- Why the fixed errors matter: if ONE stage's own error value were handed on (`return ok, err`)
and that stage refuses without an error of its own — a rule that is simply not satisfied — the
verification says `false`, yet `Chain.SubmitTx` takes the transaction into the pool. -/
theorem stage_error_handed_on_pools_refused (handsOn own : Stage → Bool) (e : Env) (t : SigLogic.Tx) (s : Stage)
    (hs : firstRefusal e t = some s) (h1 : handsOn s = true) (h2 : own s = false) :
    (immediateVerifyWith handsOn own e t).ok = false ∧ submitOf (immediateVerifyWith handsOn own e t) true = true := by
  simp [immediateVerifyWith, submitOf, hs, h1, h2]

/-- the statement "what `Chain.SubmitTx` takes into the pool, the verification accepted" for the code as
found (a refusal by the marked-transaction check carried no error) -/
def pooled_was_accepted_statement (markedErr : Bool) : Prop :=
  ∀ (relies : Bool) (e : Env) (t : SigLogic.Tx),
    submitOf (stateVerifyTxWith markedErr relies (immediateVerify e t)) true = true → verifyTx e t = true

private def thief : SigLogic.Tx :=
  { txidOk := true, initiator := .ak 0, initiatorSigns := [⟨some 0, true⟩], authRequire := [], authRequireSigns := [],
    xuper := none, inputs := [{ owner := .ak 5 }] }

/-- False of the code as found: a transaction that spends an unsigned owner's output of a marked
transaction was refused without error and taken into the pool. -/
theorem pooled_was_accepted_as_found : ¬ pooled_was_accepted_statement false := by
  intro h
  have := h true ⟨fun _ _ => true, fun _ => true, fun _ _ => true⟩ thief (by decide)
  revert this
  decide

theorem pooled_was_accepted_repaired : pooled_was_accepted_statement true := by
  intro relies e t h
  exact (pooled_implies_authorised relies e t true (by simpa [submitTx, stateVerifyTx] using h)).1

/-! ## non-vacuity -/

/-- the code as it is rejects the forged-view transaction … -/
example : verifyTxC (fun t => byContract t.contractInputs) envAcl [⟨vault, .ak 0, 100⟩] forged = false := by decide
/-- … and accepts the honest withdrawal (two vault outputs of 100, 150 paid, 50 back to the vault,
an own output of the signer and an output of the account he controls spent alongside) -/
example : verifyTxC (fun t => byContract t.contractInputs) envAcl [⟨vault, .ak 0, 150⟩]
    { txidOk := true, initiator := .ak 0, initiatorSigns := [⟨some 0, true⟩], authRequire := [⟨some 2, 2⟩],
      authRequireSigns := [⟨some 2, true⟩], xuper := none,
      inputs := [⟨.ak 0, 20, 3, 50⟩, ⟨vault, 1, 0, 100⟩, ⟨.account 2, 7, 0, 5⟩, ⟨vault, 2, 1, 100⟩],
      outputs := [⟨150, .ak 0⟩, ⟨50, vault⟩, ⟨55, .ak 5⟩],
      contractInputs := [⟨vault, 1, 0, 100⟩, ⟨vault, 2, 1, 100⟩], contractOutputs := [⟨150, .ak 0⟩, ⟨50, vault⟩] } = true := by decide
example : runTransfers [⟨vault, .ak 0, 120⟩, ⟨vault, .ak 0, 100⟩] [⟨vault, 1, 0, 100⟩, ⟨vault, 2, 1, 100⟩, ⟨vault, 3, 0, 100⟩] =
    some ([⟨vault, 1, 0, 100⟩, ⟨vault, 2, 1, 100⟩, ⟨vault, 3, 0, 100⟩], [⟨120, .ak 0⟩, ⟨80, vault⟩, ⟨100, .ak 0⟩]) := by decide

private def w8 (n : Nat) : W8 := ⟨be8 n, be8_length n⟩

private def tx0 : Schema.Tx :=
  { core := { inputs := [⟨[1, 2], w8 0, [65], [9], w8 0⟩], outputs := [⟨[5], [66], w8 0⟩], desc := [100], coinbase := w8 0,
              nonce := [1], timestamp := w8 7, version := w8 3, autogen := w8 0, inputsExt := [], outputsExt := [],
              requests := [⟨[1], [2], [3], [([4], [5])], [⟨w8 0, w8 10⟩], []⟩], initiator := [65], authRequire := [[65]],
              hdPublicKey := [], hdOriginalHash := [] },
    signs := ⟨[⟨[80], [83]⟩], [⟨[80], [83]⟩], [], []⟩ }

set_option maxRecDepth 20000 in
example : digestPre tx0 ≠ digestPre { tx0 with core := { tx0.core with desc := [101] } } := by decide

private def env0 : Env := ⟨fun _ _ => true, fun _ => true, fun _ _ => true⟩
private def stx : SigLogic.Tx :=
  { txidOk := true, initiator := .ak 1, initiatorSigns := [⟨some 1, true⟩], authRequire := [⟨none, 2⟩],
    authRequireSigns := [⟨some 2, true⟩], xuper := none, inputs := [{ owner := .ak 2 }, { owner := .account 7 }] }
example : verifyTx env0 stx = true := by decide
example : verifyTx env0 { stx with authRequireSigns := [⟨some 3, true⟩] } = false := by decide

/-- the chain of the `sx` lines: accounts 0..3 are controlled by addresses 0..3, other names are open -/
private def envX : Env :=
  ⟨fun n uris => if n < 4 then uris.any (fun u => u.prefixAcct == some n && u.addr == n) else true, fun n => n < 4,
   fun m us => m != 1 || us.any (fun u => u.prefixAcct == none && u.addr == 3)⟩
private def ruleChange (auth : List AuthReq) (sigs : List Sig) : SigLogic.Tx :=
  { txidOk := true, initiator := .ak 0, initiatorSigns := [⟨some 0, true⟩], authRequire := auth, authRequireSigns := sigs,
    xuper := none, inputs := [{ owner := .ak 0 }], hasRequests := true, aclWrites := [.account 1] }
-- the owner's key signs below its account: the rule change reaches the pool; a stranger's does not, marked chain or not
example : submitTx false envX (ruleChange [⟨some 1, 1⟩] [⟨some 1, true⟩]) true = true := by decide
example : firstRefusal envX (ruleChange [] []) = some .rwperm := by decide
example : submitTx true envX (ruleChange [] []) true = false := by decide
example : (stateVerifyTx true envX (ruleChange [] [])) = ⟨false, true⟩ := by decide
-- method 1 is guarded by address 3: its call by address 0 alone is refused at the method stage, with address 3 listed it passes
example : firstRefusal envX { ruleChange [] [] with aclWrites := [], calls := [1] } = some .method := by decide
example : firstRefusal envX { ruleChange [⟨none, 3⟩] [⟨some 3, true⟩] with aclWrites := [], calls := [1] } = none := by decide
-- a multi-signature of both listed keys is accepted in the aggregated form
example : verifyTx envX { loneSigner with xuper := some { keyAddrs := [some 0, some 1], sigOk := true, multi := true } } = true := by decide

end XV.C07
