import XV.Model.BftMatch
import XV.Props.C14
/-!
C14 (second engine `bftmatch`) — the certificate of a block must come from the
validator set IN FORCE FOR THE CERTIFIED VIEW.

`XV.C14` proves what `CheckProposal` demands of a certificate for a GIVEN validator
list.  This file proves which list xpoa / tdpos `CheckMinerMatch` hand to it, for
every history of validator-set changes: the list is the one recorded for the
certified view (xpoa: snapshot of block `view - 4`; tdpos: snapshot 3 blocks before
the first block of the predecessor's term); the sets of other views — the block's
own view, the tip state — never enter the verdict; acceptance needs a quorum of
distinct valid members OF THAT SET; members of other sets never help.
-/
namespace XV.C14b
open XV.Safety XV.BftMatch

/-! ### the recorded history -/

/-- An edit contained in a block above `b` is invisible in the snapshot of block `b`. -/
theorem recordedAt_later_edit (es₁ es₂ : List Edit) (e : Edit) (b : Nat) (h : b < e.height) :
    recordedAt (es₁ ++ e :: es₂) b = recordedAt (es₁ ++ es₂) b := by
  induction es₁ with
  | nil =>
    have hn : ¬ e.height ≤ b := by omega
    simp only [List.nil_append, recordedAt, hn, if_false]
    cases recordedAt es₂ b <;> rfl
  | cons x xs ih =>
    simp only [List.cons_append, recordedAt, ih]

/-- The snapshot of block `b` holds the set of the last edit not above `b`. -/
theorem recordedAt_last_edit (es : List Edit) (e : Edit) (b : Nat) (h : e.height ≤ b) :
    recordedAt (es ++ [e]) b = some e.set := by
  induction es with
  | nil => simp [recordedAt, h]
  | cons x xs ih => simp [recordedAt, ih]

/-! ### generic facts about the certificate check against an optional validator list -/

theorem matchQC_accept {vals? : Option (List Nat)} {es : List Entry} (h : matchQC vals? es = true) :
    ∃ vals, vals? = some vals ∧ checkProposal vals es = .accept := by
  unfold matchQC at h
  cases vals? with
  | none => simp at h
  | some vals => exact ⟨vals, rfl, by simpa using h⟩

/-- acceptance ⇒ quorum of distinct valid members of the list (collector counted: see `XV.C14`) -/
theorem matchQC_needs_quorum {vals? : Option (List Nat)} {es : List Entry} (h : matchQC vals? es = true) :
    ∃ vals, vals? = some vals ∧
      vals.length - (vals.length - 1) / 3 ≤ (validMembers vals es).length + 1 := by
  obtain ⟨vals, hv, hacc⟩ := matchQC_accept h
  refine ⟨vals, hv, ?_⟩
  by_cases hn : 1 ≤ vals.length
  · exact XV.C14.qc_needs_quorum_partial vals es hn hacc
  · omega

theorem matchQC_needs_quorum_no_collector_entry {vals? : Option (List Nat)} {es : List Entry} (collector : Nat)
    (hc : ∀ e ∈ es, e.addr ≠ collector) (h : matchQC vals? es = true) :
    ∃ vals, vals? = some vals ∧ quorum vals.length ≤ (validMembersBut collector vals es).length := by
  obtain ⟨vals, hv, hacc⟩ := matchQC_accept h
  refine ⟨vals, hv, ?_⟩
  by_cases hn : 1 ≤ vals.length
  · exact XV.C14.qc_needs_quorum_no_collector_entry collector vals es hn hc hacc
  · unfold quorum; omega

/-- Entries of non-members are skipped by the loop: dropping ALL of them changes nothing. -/
theorem countLoop_filter_members (vals : List Nat) (es : List Entry) (seen : List Nat) :
    countLoop vals (es.filter (fun e => vals.contains e.addr)) seen = countLoop vals es seen := by
  induction es generalizing seen with
  | nil => rfl
  | cons e es ih =>
    by_cases hm : vals.contains e.addr = true
    · simp only [List.filter_cons, hm, if_true]
      unfold countLoop
      simp only [ih]
    · have hm'' : e.addr ∉ vals := by simpa using hm
      have hf : List.filter (fun e => vals.contains e.addr) (e :: es) =
          List.filter (fun e => vals.contains e.addr) es := by
        simp [hm'']
      rw [hf, ih]
      conv => rhs; unfold countLoop
      simp [hm'']

theorem checkProposal_filter_members (vals : List Nat) (es : List Entry) :
    checkProposal vals (es.filter (fun e => vals.contains e.addr)) = checkProposal vals es := by
  unfold checkProposal
  rw [countLoop_filter_members]

/-- With at least two validators an empty count never reaches the threshold. -/
theorem checkProposal_nil_rejects (vals : List Nat) (hn : 2 ≤ vals.length) :
    checkProposal vals [] ≠ .accept := by
  unfold checkProposal
  simp only [countLoop, List.length_nil]
  have h := XV.C14.threshold_value 0 vals.length (by omega)
  by_cases ht : XV.Gen.calVotesThreshold ((0 : Nat) : Int) (vals.length : Int) = true
  · have := h.mp ht
    omega
  · have ht' : XV.Gen.calVotesThreshold (0 : Int) (vals.length : Int) = false := by simpa using ht
    simp [ht']

/-! ### xpoa -/

/-- `match_uses_certified_view`: the verdict on the justify certificate depends on the chain
only through the validator set in force for the CERTIFIED view: two chains that agree on that
set (and differ in the set of every other view — the block's own view, the tip state, the
initial set …) give the same verdict. -/
theorem match_uses_certified_view (c c' : Chain) (view preBits : Nat) (es : List Entry)
    (hv : xpoaValidatorsAt c view preBits = xpoaValidatorsAt c' view preBits) :
    xpoaMatchQC c view preBits es = xpoaMatchQC c' view preBits es := by
  unfold xpoaMatchQC
  rw [hv]

/-- … made concrete: an edit contained in any block above `view - 4` (above `marker - 3` for a
predecessor re-done after a rollback) does not change the verdict.  In particular the edit in
block `view - 3`, which is what distinguishes the set of the block's OWN view `view + 1` from the
set of the certified view, is irrelevant: the new members cannot certify for the old view. -/
theorem match_ignores_later_edits (start tip : Nat) (init : List Nat) (es₁ es₂ : List Edit) (e : Edit)
    (view preBits : Nat) (ents : List Entry)
    (h : (if preBits = 0 then view - 1 else preBits) - 3 < e.height) :
    xpoaMatchQC ⟨start, tip, init, es₁ ++ e :: es₂⟩ view preBits ents =
      xpoaMatchQC ⟨start, tip, init, es₁ ++ es₂⟩ view preBits ents := by
  apply match_uses_certified_view
  unfold xpoaValidatorsAt xpoaGetValidates
  simp only [recordedAt_later_edit es₁ es₂ e _ h]

/-- The whole BFT half of xpoa `CheckMinerMatch`: the set of the block's own view enters only
through the slot position of the proposer (its length); the certificate verdict is the one of
the certified view. -/
theorem checkMinerMatch_uses_certified_view (c c' : Chain) (preBits : Nat) (b : Cand) (j : Justify)
    (hj : b.justify = some j) (hstart : c.start = c'.start)
    (hown : (xpoaValidatorsAt c b.height b.ownBits).map List.length =
            (xpoaValidatorsAt c' b.height b.ownBits).map List.length)
    (hv : xpoaValidatorsAt c j.view preBits = xpoaValidatorsAt c' j.view preBits) :
    xpoaCheckMinerMatch c preBits b = xpoaCheckMinerMatch c' preBits b := by
  unfold xpoaCheckMinerMatch
  rw [hj, hstart]
  have hq := match_uses_certified_view c c' j.view preBits j.es hv
  cases h1 : xpoaValidatorsAt c b.height b.ownBits <;>
    cases h2 : xpoaValidatorsAt c' b.height b.ownBits <;> simp [h1, h2] at hown ⊢
  simp [hown, hq]

/-- `match_needs_quorum_of_view_set`: an accepted certificate carries valid signatures over
the certified id of a quorum of distinct members OF THE SET IN FORCE FOR THE CERTIFIED VIEW
(`validMembers vals es` = distinct addresses of `vals` with a verifying entry; the `+ 1` is
the collector, counted by the code — known finding `collector-counted`). -/
theorem match_needs_quorum_of_view_set (c : Chain) (view preBits : Nat) (es : List Entry)
    (h : xpoaMatchQC c view preBits es = true) :
    ∃ vals, xpoaValidatorsAt c view preBits = some vals ∧
      vals.length - (vals.length - 1) / 3 ≤ (validMembers vals es).length + 1 :=
  matchQC_needs_quorum h

/-- Full-strength statement: the quorum is reached by members of the view's set other than the
collector. -/
def match_needs_quorum_of_view_set_statement : Prop :=
  ∀ (c : Chain) (view preBits collector : Nat) (es : List Entry) (vals : List Nat),
    xpoaMatchQC c view preBits es = true → xpoaValidatorsAt c view preBits = some vals → collector ∈ vals →
    quorum vals.length ≤ (validMembersBut collector vals es).length

/-- Refuted for the faithful model exactly as in `XV.C14` (known finding `collector-counted`):
after the set {0,1,2,3} became effective, collector 0 certifies view 8 with its own signature
plus one other member's. -/
theorem match_needs_quorum_of_view_set_counterexample : ¬ match_needs_quorum_of_view_set_statement := by
  intro h
  have := h ⟨1, 8, [7, 8, 9], [⟨3, [0, 1, 2, 3]⟩]⟩ 8 0 0 [⟨0, true⟩, ⟨1, true⟩] [0, 1, 2, 3]
    (by decide) (by decide) (by decide)
  revert this
  decide

/-- With the collector's own entry absent the full quorum of OTHER members of the view's set is implied. -/
theorem match_needs_quorum_of_view_set_no_collector_entry (c : Chain) (view preBits collector : Nat)
    (es : List Entry) (hc : ∀ e ∈ es, e.addr ≠ collector) (h : xpoaMatchQC c view preBits es = true) :
    ∃ vals, xpoaValidatorsAt c view preBits = some vals ∧
      quorum vals.length ≤ (validMembersBut collector vals es).length :=
  matchQC_needs_quorum_no_collector_entry collector hc h

/-- `CheckMinerMatch` (repaired) accepts a block above StartHeight only with a justify that
certifies the PREDECESSOR under its true view number, and that passes the certificate check for
that view. -/
theorem checkMinerMatch_certifies_predecessor (c : Chain) (preBits : Nat) (b : Cand)
    (hs : c.start < b.height) (h : xpoaCheckMinerMatch c preBits b = true) :
    ∃ j, b.justify = some j ∧ j.cert = b.height - 1 ∧ j.view = b.height - 1 ∧
      xpoaMatchQC c (b.height - 1) preBits j.es = true := by
  unfold xpoaCheckMinerMatch at h
  split at h
  · simp at h
  · split at h
    · simp at h
    · split at h
      · omega
      · split at h
        · simp at h
        · rename_i j hj
          split at h
          · simp at h
          · rename_i hb
            have h1 : j.cert = b.height - 1 := by omega
            have h2 : j.view = b.height - 1 := by omega
            exact ⟨j, hj, h1, h2, by rw [← h2]; exact h⟩

/-- Full form of the property at the block level: an accepted block above StartHeight carries
valid signatures over the certified id of a quorum of distinct members of the validator set in
force for the TRUE view of the certified block (`j.cert`, the height of the block whose id is
certified) — not for whatever view number the certificate declares. -/
theorem checkMinerMatch_needs_quorum_of_true_view_set (c : Chain) (preBits : Nat) (b : Cand)
    (hs : c.start < b.height) (h : xpoaCheckMinerMatch c preBits b = true) :
    ∃ j vals, b.justify = some j ∧ xpoaValidatorsAt c j.cert preBits = some vals ∧
      vals.length - (vals.length - 1) / 3 ≤ (validMembers vals j.es).length + 1 := by
  obtain ⟨j, hj, h1, _, hq⟩ := checkMinerMatch_certifies_predecessor c preBits b hs h
  obtain ⟨vals, hv, hb⟩ := match_needs_quorum_of_view_set c (b.height - 1) preBits j.es hq
  exact ⟨j, vals, hj, by rw [h1]; exact hv, hb⟩

/-- The statement above for the code AS FOUND (declared view trusted). -/
def unbound_needs_quorum_of_true_view_set_statement : Prop :=
  ∀ (c : Chain) (preBits : Nat) (b : Cand), c.start < b.height → xpoaCheckMinerMatchUnbound c preBits b = true →
    ∃ j vals, b.justify = some j ∧ xpoaValidatorsAt c j.cert preBits = some vals ∧
      vals.length - (vals.length - 1) / 3 ≤ (validMembers vals j.es).length + 1

/-- … is false (reproduced on the real code, repaired by `fix: xpoa CheckMinerMatch rejects a
justify that does not certify the previous block`): initial set {0,1,2,3} replaced by {4,5,6,7} in
block 3; block 11 certifies block 10 (new set in force) but declares view 1 and carries the
signatures of the removed validators 1 and 2 — accepted. -/
theorem declared_view_selects_set_counterexample : ¬ unbound_needs_quorum_of_true_view_set_statement := by
  intro h
  obtain ⟨j, vals, hj, hv, hb⟩ := h ⟨1, 10, [0, 1, 2, 3], [⟨3, [4, 5, 6, 7]⟩]⟩ 0
    ⟨11, 0, 0, some ⟨10, 1, [⟨1, true⟩, ⟨2, true⟩]⟩⟩ (by decide) (by decide)
  simp only [Option.some.injEq] at hj
  subst hj
  have hv' : vals = [4, 5, 6, 7] := by
    have : xpoaValidatorsAt ⟨1, 10, [0, 1, 2, 3], [⟨3, [4, 5, 6, 7]⟩]⟩ 10 0 = some [4, 5, 6, 7] := by decide
    rw [this] at hv
    exact (Option.some.inj hv).symm
  subst hv'
  revert hb
  decide

/-- `other_set_never_helps`: an entry of an address that is not a member of the set in force for
the certified view (a member of the old / the new / any other set, whatever its signature) does
not change the verdict. -/
theorem other_set_never_helps (c : Chain) (view preBits : Nat) (vals : List Nat)
    (hv : xpoaValidatorsAt c view preBits = some vals) (es₁ es₂ : List Entry) (x : Entry) (hx : x.addr ∉ vals) :
    xpoaMatchQC c view preBits (es₁ ++ x :: es₂) = xpoaMatchQC c view preBits (es₁ ++ es₂) := by
  unfold xpoaMatchQC matchQC
  rw [hv]
  simp only [XV.C14.nonmember_irrelevant vals es₁ es₂ x (by simpa using hx)]

/-- … for all of them at once: the verdict is the verdict on the entries of the view's members. -/
theorem other_set_entries_dropped (c : Chain) (view preBits : Nat) (vals : List Nat)
    (hv : xpoaValidatorsAt c view preBits = some vals) (es : List Entry) :
    xpoaMatchQC c view preBits (es.filter (fun e => vals.contains e.addr)) = xpoaMatchQC c view preBits es := by
  unfold xpoaMatchQC matchQC
  rw [hv]
  simp only [checkProposal_filter_members]

/-- A certificate signed ONLY by addresses outside the view's set (e.g. a full quorum of the
members added by the edit, for a view still governed by the old set) is rejected, whenever the
view's set has at least two members. -/
theorem other_set_alone_rejected (c : Chain) (view preBits : Nat) (vals : List Nat)
    (hv : xpoaValidatorsAt c view preBits = some vals) (hn : 2 ≤ vals.length)
    (es : List Entry) (hall : ∀ e ∈ es, e.addr ∉ vals) :
    xpoaMatchQC c view preBits es = false := by
  rw [← other_set_entries_dropped c view preBits vals hv es]
  have : es.filter (fun e => vals.contains e.addr) = [] := by
    apply List.filter_eq_nil_iff.mpr
    intro e he
    simpa using hall e he
  rw [this]
  unfold xpoaMatchQC matchQC
  rw [hv]
  simpa using checkProposal_nil_rejects vals hn

/-- The set in force for a view governed by the edit: after an edit in block `E` (the last one not
above `view - 4`) the certified view's set is the edited one. -/
theorem xpoa_edit_in_force (start tip : Nat) (init : List Nat) (es : List Edit) (e : Edit) (view : Nat)
    (h4 : 5 ≤ view) (hs : start + 4 ≤ view) (ht : view ≤ tip + 4) (he : e.height + 4 ≤ view) :
    xpoaValidatorsAt ⟨start, tip, init, es ++ [e]⟩ view 0 = some e.set := by
  unfold xpoaValidatorsAt xpoaGetValidates
  have h1 : ¬ (view - 1 ≤ 3) := by omega
  have h2 : ¬ (view - 1 < start + 3) := by omega
  have h3 : ¬ (tip < view - 1 - 3) := by omega
  simp only [h1, h2, h3, if_false, if_true]
  rw [recordedAt_last_edit es e _ (by omega)]
  rfl

/-- … and the views up to `E + 3` are still governed by the previous history. -/
theorem xpoa_edit_not_yet_in_force (start tip : Nat) (init : List Nat) (es : List Edit) (e : Edit) (view : Nat)
    (he : view < e.height + 4) :
    xpoaValidatorsAt ⟨start, tip, init, es ++ [e]⟩ view 0 = xpoaValidatorsAt ⟨start, tip, init, es⟩ view 0 := by
  unfold xpoaValidatorsAt xpoaGetValidates
  by_cases h1 : view - 1 ≤ 3
  · simp only [h1, if_true]
  · have := recordedAt_later_edit es [] e (view - 1 - 3) (by omega)
    simp only [List.append_nil] at this
    simp only [this, if_true]

/-! ### tdpos -/

/-- tdpos: the certificate verdict is a function of the PREDECESSOR's height, term and storage
only (`tdMatchQC` does not take the candidate): the block's own height, timestamp and storage
cannot select the set.  Two ledgers that agree on the predecessor's proposers give the same verdict. -/
theorem td_match_uses_certified_view (c c' : TdChain) (preHeight preTerm preBits : Nat) (es : List Entry)
    (hv : tdValidatorsAt c preHeight preTerm preBits = tdValidatorsAt c' preHeight preTerm preBits) :
    tdMatchQC c preHeight preTerm preBits es = tdMatchQC c' preHeight preTerm preBits es := by
  unfold tdMatchQC
  rw [hv]

theorem tdTopK_later_edit (start : Nat) (init : List Nat) (es₁ es₂ : List Edit) (e : Edit) (terms : List Nat) (t : Nat)
    (h : t - 3 < e.height) :
    tdTopK ⟨start, init, es₁ ++ e :: es₂, terms⟩ t = tdTopK ⟨start, init, es₁ ++ es₂, terms⟩ t := by
  unfold tdTopK
  simp only [TdChain.tip]
  rw [recordedAt_later_edit es₁ es₂ e _ h]
  rfl

/-- tdpos: for a predecessor that is a ledger block carrying its term, an edit recorded above
block `F - 4` (`F` = first block of the predecessor's term; the term was opened under the
snapshot of block `F - 4`) does not change the verdict: the proposers elected for the NEXT term
cannot certify a block of this term. -/
theorem td_match_ignores_later_edits (start : Nat) (init : List Nat) (es₁ es₂ : List Edit) (e : Edit) (terms : List Nat)
    (preHeight preTerm preBits : Nat) (ents : List Entry)
    (hpre : preHeight < terms.length) (hterm : terms[preHeight]? = some preTerm)
    (h : firstOfTerm terms start preHeight - 1 - 3 < e.height) :
    tdMatchQC ⟨start, init, es₁ ++ e :: es₂, terms⟩ preHeight preTerm preBits ents =
      tdMatchQC ⟨start, init, es₁ ++ es₂, terms⟩ preHeight preTerm preBits ents := by
  apply td_match_uses_certified_view
  have key := tdTopK_later_edit start init es₁ es₂ e terms _ h
  unfold tdValidatorsAt
  by_cases h1 : preHeight < start + 3
  · simp [h1]
  · by_cases h2 : preHeight < terms.length - 1
    · simp only [h1, h2, if_false, if_true, TdChain.tip, tdHis]
      exact key
    · have htip : terms.length - 1 = preHeight := by omega
      simp only [h1, if_false, htip, hterm, beq_self_eq_true, if_true, TdChain.tip, tdHis, Nat.lt_irrefl]
      exact key

/-- tdpos, one set per term: the block that OPENS a term (candidate above the tip, new term) is
admitted under the same proposer list that later certifies its view and schedules the rest of the
term (historical lookup), whatever was recorded in between: `tdValidatorsAt` for the opening block
`F = tip + 1` on the ledger `terms` equals `tdValidatorsAt` for view `F` once `F` is in the ledger. -/
theorem td_one_set_per_term (start : Nat) (init : List Nat) (edits : List Edit) (terms : List Nat) (t : Nat)
    (hne : terms ≠ []) (hstart : start ≤ terms.length) (hnew : ∀ x ∈ terms, x ≠ t) :
    tdValidatorsAt ⟨start, init, edits, terms ++ [t]⟩ terms.length t 0 =
      tdValidatorsAt ⟨start, init, edits, terms⟩ terms.length t 0 := by
  have hlen : 0 < terms.length := List.length_pos_iff.mpr hne
  -- the first block of term t on the extended ledger is the new block
  have hfirst : firstOfTerm (terms ++ [t]) start terms.length = terms.length := by
    unfold firstOfTerm
    have hlast : (terms ++ [t])[terms.length]? = some t := by simp
    rw [hlast]
    have : (List.range (terms.length + 1)).find?
        (fun i => decide (start ≤ i) && ((terms ++ [t])[i]? == some t)) = some terms.length := by
      rw [List.find?_eq_some_iff_append]
      refine ⟨by simp [hstart], List.range terms.length, [], by simp [List.range_succ], ?_⟩
      intro i hi
      have hi' : i < terms.length := by simpa using hi
      have hget : (terms ++ [t])[i]? = some terms[i] := by
        rw [List.getElem?_append_left hi']; simp [hi']
      have hne' : terms[i] ≠ t := hnew _ (List.getElem_mem hi')
      simp [hget, hne']
    rw [this]; rfl
  unfold tdValidatorsAt
  by_cases h1 : terms.length < start + 3
  · simp [h1]
  · have htipL : (⟨start, init, edits, terms ++ [t]⟩ : TdChain).tip = terms.length := by simp [TdChain.tip]
    have htipR : (⟨start, init, edits, terms⟩ : TdChain).tip = terms.length - 1 := by simp [TdChain.tip]
    have hlastR : terms[terms.length - 1]? ≠ some t := by
      intro hx
      have hlt : terms.length - 1 < terms.length := by omega
      rw [List.getElem?_eq_getElem hlt] at hx
      exact hnew _ (List.getElem_mem hlt) (Option.some.inj hx)
    have hlastL : (terms ++ [t])[terms.length]? = some t := by simp
    simp only [h1, if_false, htipL, htipR, Nat.lt_irrefl, hlastL, beq_self_eq_true, if_true, tdHis, hfirst]
    have h2 : ¬ (terms.length < terms.length - 1) := by omega
    have h3 : (terms[terms.length - 1]? == some t) = false := by simpa using hlastR
    simp only [h2, if_false, h3, Bool.false_eq_true]
    unfold tdTopK
    simp only [TdChain.tip, List.length_append, List.length_singleton]
    by_cases h4 : terms.length - 1 < start + 3
    · simp [h4]
    · have h6 : ¬ (terms.length - 1 < terms.length - 1 - 3) := by omega
      simp [h4, h6]
      omega

/-- … which fails for the historical lookup of the code as found (reproduced on the real code and
repaired by `fix: tdpos calHisValidators …`): initial proposers {0,1}, {10,11} recorded in block 3,
block 6 opens term 2 — admitted under {0,1} (snapshot of block 2), while the lookup for view 6
answered {10,11} (snapshot of block 3) as soon as block 6 was in the ledger. -/
theorem td_one_set_per_term_as_found_counterexample :
    tdValidatorsAt ⟨1, [0, 1], [⟨3, [10, 11]⟩], [0, 1, 1, 1, 1, 1]⟩ 6 2 0 = some [0, 1] ∧
      tdHisAsFound ⟨1, [0, 1], [⟨3, [10, 11]⟩], [0, 1, 1, 1, 1, 1, 2]⟩ 6 = some [10, 11] ∧
      tdValidatorsAt ⟨1, [0, 1], [⟨3, [10, 11]⟩], [0, 1, 1, 1, 1, 1, 2]⟩ 6 2 0 = some [0, 1] := by decide

theorem td_match_needs_quorum_of_view_set (c : TdChain) (preHeight preTerm preBits : Nat) (es : List Entry)
    (h : tdMatchQC c preHeight preTerm preBits es = true) :
    ∃ vals, tdValidatorsAt c preHeight preTerm preBits = some vals ∧
      vals.length - (vals.length - 1) / 3 ≤ (validMembers vals es).length + 1 :=
  matchQC_needs_quorum h

theorem td_match_needs_quorum_of_view_set_no_collector_entry (c : TdChain) (preHeight preTerm preBits collector : Nat)
    (es : List Entry) (hc : ∀ e ∈ es, e.addr ≠ collector) (h : tdMatchQC c preHeight preTerm preBits es = true) :
    ∃ vals, tdValidatorsAt c preHeight preTerm preBits = some vals ∧
      quorum vals.length ≤ (validMembersBut collector vals es).length :=
  matchQC_needs_quorum_no_collector_entry collector hc h

theorem td_other_set_never_helps (c : TdChain) (preHeight preTerm preBits : Nat) (vals : List Nat)
    (hv : tdValidatorsAt c preHeight preTerm preBits = some vals) (es₁ es₂ : List Entry) (x : Entry) (hx : x.addr ∉ vals) :
    tdMatchQC c preHeight preTerm preBits (es₁ ++ x :: es₂) = tdMatchQC c preHeight preTerm preBits (es₁ ++ es₂) := by
  unfold tdMatchQC matchQC
  rw [hv]
  simp only [XV.C14.nonmember_irrelevant vals es₁ es₂ x (by simpa using hx)]

theorem td_other_set_alone_rejected (c : TdChain) (preHeight preTerm preBits : Nat) (vals : List Nat)
    (hv : tdValidatorsAt c preHeight preTerm preBits = some vals) (hn : 2 ≤ vals.length)
    (es : List Entry) (hall : ∀ e ∈ es, e.addr ∉ vals) :
    tdMatchQC c preHeight preTerm preBits es = false := by
  have hnil : es.filter (fun e => vals.contains e.addr) = [] := by
    apply List.filter_eq_nil_iff.mpr
    intro e he
    simpa using hall e he
  have hp : checkProposal vals es ≠ .accept := by
    rw [← checkProposal_filter_members, hnil]
    exact checkProposal_nil_rejects vals hn
  unfold tdMatchQC matchQC
  rw [hv]
  simp [hp]

/-- tdpos `CheckMinerMatch` (repaired): an accepted block above StartHeight certifies its
predecessor, with a quorum of distinct valid members of the proposers of the PREDECESSOR's term. -/
theorem td_checkMinerMatch_needs_quorum_of_true_view_set (c : TdChain) (preTerm preBits term : Nat) (b : Cand)
    (hs : c.start < b.height) (h : tdCheckMinerMatch c preTerm preBits term b = true) :
    ∃ j vals, b.justify = some j ∧ j.cert = b.height - 1 ∧ j.view = b.height - 1 ∧
      tdValidatorsAt c j.cert preTerm preBits = some vals ∧
      vals.length - (vals.length - 1) / 3 ≤ (validMembers vals j.es).length + 1 := by
  unfold tdCheckMinerMatch at h
  split at h
  · simp at h
  · split at h
    · simp at h
    · split at h
      · omega
      · split at h
        · simp at h
        · rename_i j hj
          split at h
          · simp at h
          · rename_i hb
            have h1 : j.cert = b.height - 1 := by omega
            have h2 : j.view = b.height - 1 := by omega
            obtain ⟨vals, hv, hq⟩ := td_match_needs_quorum_of_view_set c (b.height - 1) preTerm preBits j.es h
            exact ⟨j, vals, hj, h1, h2, by rw [h1]; exact hv, hq⟩

/-- For the code AS FOUND the certificate could name an ancestor: terms 0,1,1,1,1,1,2 — block 6 opens
term 2 with the proposers {10,11} recorded in block 1; block 7 certifies block 5 (term 1, proposers
{0,1}) with the signature of 11 alone — accepted (reproduced on the real code, repaired by `fix: tdpos
CheckMinerMatch rejects a justify that does not certify the previous block`). -/
theorem td_ancestor_certified_by_next_term_counterexample :
    tdCheckMinerMatchUnbound ⟨1, [0, 1], [⟨1, [10, 11]⟩], [0, 1, 1, 1, 1, 1, 2]⟩ 2 0 2
        ⟨7, 0, 0, some ⟨5, 6, [⟨11, true⟩]⟩⟩ = true ∧
      tdValidatorsAt ⟨1, [0, 1], [⟨1, [10, 11]⟩], [0, 1, 1, 1, 1, 1, 2]⟩ 5 1 0 = some [0, 1] ∧
      tdCheckMinerMatch ⟨1, [0, 1], [⟨1, [10, 11]⟩], [0, 1, 1, 1, 1, 1, 2]⟩ 2 0 2
        ⟨7, 0, 0, some ⟨5, 6, [⟨11, true⟩]⟩⟩ = false := by decide

/-- Completeness of the loop: when no entry claiming a member's address is invalid, the loop does
not abort and counts every member that has an entry. -/
theorem countLoop_complete (vals : List Nat) (es : List Entry) (seen : List Nat)
    (hvalid : ∀ e ∈ es, e.addr ∈ vals → e.valid = true) :
    ∃ out, countLoop vals es seen = some out ∧ (∀ a ∈ seen, a ∈ out) ∧
      (∀ e ∈ es, e.addr ∈ vals → e.addr ∈ out) := by
  induction es generalizing seen with
  | nil => exact ⟨seen, rfl, fun a ha => ha, by simp⟩
  | cons e es ih =>
    have hrest : ∀ e' ∈ es, e'.addr ∈ vals → e'.valid = true :=
      fun e' he' => hvalid e' (List.mem_cons_of_mem _ he')
    unfold countLoop
    by_cases hm : e.addr ∈ vals
    · have hv : e.valid = true := hvalid e List.mem_cons_self hm
      by_cases hs : e.addr ∈ seen
      · obtain ⟨out, ho, h1, h2⟩ := ih seen hrest
        refine ⟨out, by simp [hm, hv, hs, ho], h1, ?_⟩
        intro e' he' hm'
        rcases List.mem_cons.mp he' with h | h
        · subst h; exact h1 _ hs
        · exact h2 e' h hm'
      · obtain ⟨out, ho, h1, h2⟩ := ih (e.addr :: seen) hrest
        refine ⟨out, by simp [hm, hv, hs, ho], fun a ha => h1 a (List.mem_cons_of_mem _ ha), ?_⟩
        intro e' he' hm'
        rcases List.mem_cons.mp he' with h | h
        · subst h; exact h1 _ List.mem_cons_self
        · exact h2 e' h hm'
    · obtain ⟨out, ho, h1, h2⟩ := ih seen hrest
      refine ⟨out, by simp [hm, ho], h1, ?_⟩
      intro e' he' hm'
      rcases List.mem_cons.mp he' with h | h
      · subst h; exact absurd hm' hm
      · exact h2 e' h hm'

/-- A genuine quorum is accepted: if no entry claiming a member's address is invalid and `q` lists
distinct members that each have an entry, with `|q| + 1 ≥ n - ⌊(n-1)/3⌋`, the certificate passes —
whatever entries of non-members (members of other sets) accompany them. -/
theorem genuine_quorum_accepted (vals : List Nat) (es : List Entry) (q : List Nat) (hn : 1 ≤ vals.length)
    (hvalid : ∀ e ∈ es, e.addr ∈ vals → e.valid = true)
    (hq : q.Nodup) (hqm : ∀ a ∈ q, a ∈ vals ∧ ∃ e ∈ es, e.addr = a)
    (hcount : vals.length - (vals.length - 1) / 3 ≤ q.length + 1) :
    checkProposal vals es = .accept := by
  obtain ⟨out, ho, _, h2⟩ := countLoop_complete vals es [] hvalid
  have hsub : q ⊆ out := by
    intro a ha
    obtain ⟨hav, e, he, hea⟩ := hqm a ha
    have := h2 e he (by rw [hea]; exact hav)
    rwa [hea] at this
  have hlen : q.length ≤ out.length := List.Nodup.length_le_of_subset hq hsub
  unfold checkProposal
  rw [ho]
  have ht : XV.Gen.calVotesThreshold (out.length : Int) (vals.length : Int) = true :=
    (XV.C14.threshold_value out.length vals.length hn).mpr (by omega)
  simp [ht]

/-- … at the level of xpoa `CheckMinerMatch`'s certificate check: a genuine quorum of the set in
force for the certified view is accepted (the counterpart of the oracle key `genuine-quorum-rejected`). -/
theorem match_accepts_genuine_quorum (c : Chain) (view preBits : Nat) (vals : List Nat)
    (hv : xpoaValidatorsAt c view preBits = some vals) (hn : 1 ≤ vals.length) (es : List Entry) (q : List Nat)
    (hvalid : ∀ e ∈ es, e.addr ∈ vals → e.valid = true)
    (hq : q.Nodup) (hqm : ∀ a ∈ q, a ∈ vals ∧ ∃ e ∈ es, e.addr = a)
    (hcount : vals.length - (vals.length - 1) / 3 ≤ q.length + 1) :
    xpoaMatchQC c view preBits es = true := by
  unfold xpoaMatchQC matchQC
  rw [hv]
  simp [genuine_quorum_accepted vals es q hn hvalid hq hqm hcount]

theorem td_match_accepts_genuine_quorum (c : TdChain) (preHeight preTerm preBits : Nat) (vals : List Nat)
    (hv : tdValidatorsAt c preHeight preTerm preBits = some vals) (hn : 1 ≤ vals.length) (es : List Entry) (q : List Nat)
    (hvalid : ∀ e ∈ es, e.addr ∈ vals → e.valid = true)
    (hq : q.Nodup) (hqm : ∀ a ∈ q, a ∈ vals ∧ ∃ e ∈ es, e.addr = a)
    (hcount : vals.length - (vals.length - 1) / 3 ≤ q.length + 1) :
    tdMatchQC c preHeight preTerm preBits es = true := by
  unfold tdMatchQC matchQC
  rw [hv]
  simp [genuine_quorum_accepted vals es q hn hvalid hq hqm hcount]

/-! ### rollback markers -/

/-- A rollback marker the ledger cannot resolve (its snapshot block `marker - 3` is above the tip) leaves NO
validator set in force for the view: there is no fallback to the initial or any other set. -/
theorem xpoa_unresolved_marker_no_set (c : Chain) (view bits : Nat) (hv : 3 < view - 1) (hb : bits ≠ 0)
    (hs : c.start + 3 ≤ bits) (ht : c.tip + 3 < bits) : xpoaValidatorsAt c view bits = none := by
  unfold xpoaValidatorsAt xpoaGetValidates
  rw [if_neg (by omega), if_neg hb, if_neg (by omega), if_pos (by omega)]

/-- Hence no certificate - of the initial set, of the set the node holds in memory, of the set the view would
have without the marker - is accepted for a block whose rollback marker cannot be resolved ... -/
theorem xpoa_unresolved_marker_rejects (c : Chain) (view preBits : Nat) (es : List Entry) (hv : 3 < view - 1)
    (hb : preBits ≠ 0) (hs : c.start + 3 ≤ preBits) (ht : c.tip + 3 < preBits) : xpoaMatchQC c view preBits es = false := by
  unfold xpoaMatchQC
  rw [xpoa_unresolved_marker_no_set c view preBits hv hb hs ht]
  rfl

/-- ... and `CheckMinerMatch` refuses every block above StartHeight built on such a predecessor, as it refuses
every block whose OWN marker cannot be resolved (no proposer can be computed). -/
theorem xpoa_checkMinerMatch_unresolved_marker_rejects (c : Chain) (preBits : Nat) (b : Cand) (hh : c.start < b.height)
    (hv : 3 < b.height - 1 - 1) (hb : preBits ≠ 0) (hs : c.start + 3 ≤ preBits) (ht : c.tip + 3 < preBits) :
    xpoaCheckMinerMatch c preBits b = false := by
  unfold xpoaCheckMinerMatch
  split
  · rfl
  · split
    · rfl
    · rw [if_neg (by omega)]
      split
      · rfl
      · rename_i j _
        split
        · rfl
        · rename_i hj
          have hjv : j.view = b.height - 1 := by omega
          rw [hjv]
          exact xpoa_unresolved_marker_rejects c _ preBits j.es hv hb hs ht

theorem xpoa_checkMinerMatch_own_marker_unresolved_rejects (c : Chain) (preBits : Nat) (b : Cand)
    (hv : 3 < b.height - 1) (hb : b.ownBits ≠ 0) (hs : c.start + 3 ≤ b.ownBits) (ht : c.tip + 3 < b.ownBits) :
    xpoaCheckMinerMatch c preBits b = false := by
  unfold xpoaCheckMinerMatch
  rw [xpoa_unresolved_marker_no_set c b.height b.ownBits hv hb hs ht]

/-! ### non-vacuity: the boundary is observable -/

-- chain: initial set {0,1,2,3}; block 3 contains the edit to {4,5,6,7}; tip 6.  The candidate of height 7 certifies
-- view 6, still governed by the old set (the edit governs views ≥ 7), while the block's own view 7 has the new set.
example : xpoaValidatorsAt ⟨1, 6, [0, 1, 2, 3], [⟨3, [4, 5, 6, 7]⟩]⟩ 6 0 = some [0, 1, 2, 3] ∧
    xpoaValidatorsAt ⟨1, 6, [0, 1, 2, 3], [⟨3, [4, 5, 6, 7]⟩]⟩ 7 0 = some [4, 5, 6, 7] := by decide
-- the genuine old-set quorum is accepted, the new-set quorum is rejected …
example : xpoaMatchQC ⟨1, 6, [0, 1, 2, 3], [⟨3, [4, 5, 6, 7]⟩]⟩ 6 0 [⟨1, true⟩, ⟨2, true⟩] = true ∧
    xpoaMatchQC ⟨1, 6, [0, 1, 2, 3], [⟨3, [4, 5, 6, 7]⟩]⟩ 6 0 [⟨5, true⟩, ⟨6, true⟩, ⟨7, true⟩] = false := by decide
-- … and a check that used the block's own view (the seeded slip) would decide both the other way round
example : matchQC (xpoaValidatorsAt ⟨1, 6, [0, 1, 2, 3], [⟨3, [4, 5, 6, 7]⟩]⟩ 7 0) [⟨1, true⟩, ⟨2, true⟩] = false ∧
    matchQC (xpoaValidatorsAt ⟨1, 6, [0, 1, 2, 3], [⟨3, [4, 5, 6, 7]⟩]⟩ 7 0) [⟨5, true⟩, ⟨6, true⟩, ⟨7, true⟩] = true := by decide
-- the whole check on that candidate (proposer at position 1 of the new set, certificate of the old set)
example : xpoaCheckMinerMatch ⟨1, 6, [0, 1, 2, 3], [⟨3, [4, 5, 6, 7]⟩]⟩ 0 ⟨7, 0, 1, some ⟨6, 6, [⟨1, true⟩, ⟨2, true⟩]⟩⟩ = true := by decide
-- tdpos: terms 0,1,1,1,1,1,2,2 — block 6 opens term 2, whose proposers are the top-K of block 2; an edit in block 2
-- governs term 2 (certificates for views 6, 7), not view 5
example : tdValidatorsAt ⟨1, [0, 1, 2], [⟨2, [4, 5, 6]⟩], [0, 1, 1, 1, 1, 1, 2, 2]⟩ 5 1 0 = some [0, 1, 2] ∧
    tdValidatorsAt ⟨1, [0, 1, 2], [⟨2, [4, 5, 6]⟩], [0, 1, 1, 1, 1, 1, 2, 2]⟩ 6 2 0 = some [4, 5, 6] ∧
    tdValidatorsAt ⟨1, [0, 1, 2], [⟨2, [4, 5, 6]⟩], [0, 1, 1, 1, 1, 1, 2, 2]⟩ 7 2 0 = some [4, 5, 6] := by decide

-- the initial set is {0,1}; since the edit in block 1 the set is {0,2,3,4}; tip 4.  Block 5 carries the marker 1000:
-- the candidate 6 is refused with the removed validator's signature (a quorum of the INITIAL set) as with a quorum of
-- the set in force without the marker; with the last resolvable marker (tip + 3) the latter is accepted
example : xpoaCheckMinerMatch ⟨1, 5, [0, 1], [⟨1, [0, 2, 3, 4]⟩]⟩ 1000 ⟨6, 0, 0, some ⟨5, 5, [⟨1, true⟩]⟩⟩ = false ∧
    xpoaCheckMinerMatch ⟨1, 5, [0, 1], [⟨1, [0, 2, 3, 4]⟩]⟩ 1000 ⟨6, 0, 0, some ⟨5, 5, [⟨2, true⟩, ⟨3, true⟩]⟩⟩ = false ∧
    xpoaCheckMinerMatch ⟨1, 5, [0, 1], [⟨1, [0, 2, 3, 4]⟩]⟩ 8 ⟨6, 0, 0, some ⟨5, 5, [⟨2, true⟩, ⟨3, true⟩]⟩⟩ = true ∧
    xpoaCheckMinerMatch ⟨1, 5, [0, 1], [⟨1, [0, 2, 3, 4]⟩]⟩ 9 ⟨6, 0, 0, some ⟨5, 5, [⟨2, true⟩, ⟨3, true⟩]⟩⟩ = false := by decide

/-! ## storage faults during the lookup (wave 6) -/

/-- a lookup during which a read failed leaves no validator set: no certificate is accepted, whatever set the record
or any fallback (initial, tip state) holds and whoever signed -/
theorem read_fault_nothing_accepted (s : Option (List Nat)) (es : List Entry) :
    matchQC (faultedLookup true s) es = false := by
  simp [faultedLookup, matchQC]

/-- without a failed read the lookup is the plain one -/
theorem no_read_fault_plain_lookup (s : Option (List Nat)) (es : List Entry) :
    matchQC (faultedLookup false s) es = matchQC s es := by
  simp [faultedLookup]

end XV.C14b
