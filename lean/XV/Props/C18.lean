import XV.Lemmas.Assoc
import XV.Lemmas.ChainFrame
import XV.Model.Snapshot
/-!
C18 — snapshot reads return a key's value as of the chosen main-chain block.
Theorems about the backwards walk `XV.Snapshot.walkBack` (= `xModSnapshot.Get`):
it never returns a pending write, never a write confirmed above the snapshot height, it returns the first
eligible writer on the version chain, and — the inductive step behind "unaffected by later blocks, pending
transactions, deletions and re-creations after B" — a later write of the key (pending, or confirmed above the
snapshot height) whose own input cites the version that was current leaves every snapshot answer unchanged.
-/
namespace XV.C18
open XV.Chain XV.Snapshot

/-- a snapshot never exposes a pending, unconfirmed write -/
theorem snapshot_hides_pool (e : Env) (pool : List Nat) (confH : Nat → Option Nat) (h : Nat) (key : String)
    (fuel : Nat) (start : Option Ver) (v : Ver) (hr : walkBack e pool confH h key fuel start = some v) :
    v.1 ∉ pool := by
  induction fuel generalizing start with
  | zero => simp [walkBack] at hr
  | succ n ih =>
    cases start with
    | none => simp [walkBack] at hr
    | some w =>
      unfold walkBack at hr
      split at hr
      · exact ih _ hr
      · rename_i hp
        split at hr
        · split at hr
          · simp at hr; subst hr; simpa using hp
          · exact ih _ hr
        · simp at hr

/-- … and never a write confirmed above the snapshot height -/
theorem snapshot_height_bound (e : Env) (pool : List Nat) (confH : Nat → Option Nat) (h : Nat) (key : String)
    (fuel : Nat) (start : Option Ver) (v : Ver) (hr : walkBack e pool confH h key fuel start = some v) :
    ∃ bh, confH v.1 = some bh ∧ bh ≤ h := by
  induction fuel generalizing start with
  | zero => simp [walkBack] at hr
  | succ n ih =>
    cases start with
    | none => simp [walkBack] at hr
    | some w =>
      unfold walkBack at hr
      split at hr
      · exact ih _ hr
      · split at hr
        · rename_i bh hb
          split at hr
          · rename_i hle; simp at hr; subst hr; exact ⟨bh, hb, hle⟩
          · exact ih _ hr
        · simp at hr

/-- a writer that is skipped (pending, or confirmed above the snapshot height) hands the walk to the version it cited -/
theorem walkBack_skip (e : Env) (pool : List Nat) (confH : Nat → Option Nat) (h : Nat) (key : String)
    (fuel : Nat) (v : Ver)
    (hskip : v.1 ∈ pool ∨ ∃ bh, confH v.1 = some bh ∧ h < bh) :
    walkBack e pool confH h key (fuel + 1) (some v) = walkBack e pool confH h key fuel (prevOf e v key) := by
  have hdef : walkBack e pool confH h key (fuel + 1) (some v) =
      (if pool.contains v.1 then walkBack e pool confH h key fuel (prevOf e v key)
       else match confH v.1 with
         | some bh => if bh ≤ h then some v else walkBack e pool confH h key fuel (prevOf e v key)
         | none => none) := rfl
  rw [hdef]
  rcases hskip with hp | ⟨bh, hb, hlt⟩
  · simp [hp]
  · by_cases hp : v.1 ∈ pool
    · simp [hp]
    · have : ¬ bh ≤ h := by omega
      simp [hp, hb, this]

/-- version of a key after the key writes of a transaction (one write per key, as the sandbox produces them) -/
theorem applyKOut_curVer (t : Tx) (kout : List KOut) (off : Nat) (s : St) (key : String)
    (hnd : (kout.map (·.key)).Nodup) :
    curVer (applyKOut t kout off s) key =
      match kout.findIdx? (fun ko => ko.key == key) with
      | some i => some (t.id, off + i)
      | none => curVer s key := by
  induction kout generalizing off s with
  | nil => simp [applyKOut]
  | cons ko rest ih =>
    simp only [List.map_cons, List.nodup_cons] at hnd
    unfold applyKOut
    rw [ih _ _ hnd.2]
    simp only [List.findIdx?_cons]
    by_cases hk : (ko.key == key) = true
    · have hkey : ko.key = key := by simpa using hk
      have hnone : rest.findIdx? (fun x => x.key == key) = none := by
        apply List.findIdx?_eq_none_iff.mpr
        intro x hx
        have : x.key ≠ ko.key := fun e2 => hnd.1 (List.mem_map.mpr ⟨x, hx, e2⟩)
        simp [hkey ▸ this]
      simp only [hk, ↓reduceIte, hnone, Nat.add_zero]
      unfold curVer
      by_cases hd : ko.del = true
      · simp only [hd, ↓reduceIte, hkey, lookup_del_same, lookup_put_same]
      · simp only [hd, Bool.false_eq_true, ↓reduceIte, hkey, lookup_put_same]
    · simp only [hk, Bool.false_eq_true, ↓reduceIte]
      have hne : ¬ ko.key = key := by simpa using hk
      cases hf : rest.findIdx? (fun x => x.key == key) with
      | some i => simp only [Option.map_some]; congr 2; omega
      | none =>
        simp only [Option.map_none]
        unfold curVer
        by_cases hd : ko.del = true
        · simp only [hd, ↓reduceIte, lookup_del, lookup_put, hne]
        · simp only [hd, Bool.false_eq_true, ↓reduceIte, lookup_put, hne]

/-- **later writes do not disturb a snapshot.** Let `t` be applied on `s` (admitted: its read of `key` cites the
current version). If `t` is pending afterwards, or confirmed above the snapshot height, then the snapshot walk on
the new state with one more unit of fuel answers exactly what it answered before — whether `t` overwrites, deletes
or re-creates the key, or does not touch it. -/
theorem snapshot_unaffected_by_later_write (e : Env) (s : St) (t : Tx) (confH : Nat → Option Nat) (h : Nat)
    (key : String) (fuel : Nat) (pool' : List Nat)
    (hnd : (t.kout.map (·.key)).Nodup)
    (hread : ∀ ki ∈ t.kin, curVer s ki.key = ki.ver)            -- admission: reads are current
    (hwr : ∀ ko ∈ t.kout, ∃ ki ∈ t.kin, ki.key = ko.key)        -- admission: written keys were read
    (hkin : (t.kin.map (·.key)).Nodup)
    (hself : e.tx t.id = t)
    (hskip : t.id ∈ pool' ∨ ∃ bh, confH t.id = some bh ∧ h < bh) :
    walkBack e pool' confH h key (fuel + 1) (curVer (applyTx s t) key) =
      (match t.kout.findIdx? (fun ko => ko.key == key) with
       | some _ => walkBack e pool' confH h key fuel (curVer s key)
       | none => walkBack e pool' confH h key (fuel + 1) (curVer s key)) := by
  have hcv : curVer (applyTx s t) key = curVer (applyKOut t t.kout 0 s) key := by
    unfold applyTx curVer
    obtain ⟨o1, o2, _⟩ := applyOuts_frame t t.outs 0
      { applyKOut t t.kout 0 s with U := t.ins.foldl (fun u r => del u (r.tx, r.off)) (applyKOut t t.kout 0 s).U }
    rw [o1, o2]
  rw [hcv, applyKOut_curVer t t.kout 0 s key hnd]
  cases hf : t.kout.findIdx? (fun ko => ko.key == key) with
  | none => rfl
  | some i =>
    simp only [Nat.zero_add]
    rw [walkBack_skip e pool' confH h key fuel (t.id, i) hskip]
    -- the version t cited for the key is the one that was current
    have hi := List.findIdx?_eq_some_iff_getElem.mp hf
    obtain ⟨hlt, hki, _⟩ := hi
    have hko : t.kout[i] ∈ t.kout := List.getElem_mem hlt
    have hkey : t.kout[i].key = key := by simpa using hki
    obtain ⟨ki, hkim, hkk⟩ := hwr _ hko
    have hprev : prevOf e (t.id, i) key = curVer s key := by
      unfold prevOf
      simp only [hself]
      have hfind : t.kin.find? (fun x => x.key == key) = some ki := by
        rw [List.find?_eq_some_iff_append]
        obtain ⟨as, bs, hsplit⟩ := List.append_of_mem hkim
        refine ⟨by simp [hkk.trans hkey], as, bs, hsplit, ?_⟩
        intro a ha
        have hne : a.key ≠ ki.key := by
          rw [hsplit] at hkin
          simp only [List.map_append, List.map_cons] at hkin
          have := (List.nodup_append.mp hkin).2.2 a.key (List.mem_map.mpr ⟨a, ha, rfl⟩) ki.key (by simp)
          exact this
        have hkeq : ki.key = key := hkk.trans hkey
        simp [← hkeq, hne]
      rw [hfind]
      simp only [Option.bind_some]
      rw [← hread ki hkim, hkk, hkey]
    rw [hprev]

-- non-vacuity: key k written by tx 1 (block height 1), overwritten by tx 2 (height 3), deleted by pending tx 3:
-- the snapshot at height 1 and 2 answers version (1,0), at height 3 version (2,0); the pending delete is never seen
example :
    let e : Env := { txs := [(1, ⟨1, false, [], [], [⟨"k", none⟩], [⟨"k", "a", false⟩]⟩),
                             (2, ⟨2, false, [], [], [⟨"k", some (1, 0)⟩], [⟨"k", "b", false⟩]⟩),
                             (3, ⟨3, false, [], [], [⟨"k", some (2, 0)⟩], [⟨"k", "", true⟩]⟩)] }
    let confH : Nat → Option Nat := fun t => if t = 1 then some 1 else if t = 2 then some 3 else none
    walkBack e [3] confH 1 "k" 5 (some (3, 0)) = some (1, 0) ∧
    walkBack e [3] confH 2 "k" 5 (some (3, 0)) = some (1, 0) ∧
    walkBack e [3] confH 3 "k" 5 (some (3, 0)) = some (2, 0) ∧
    walkBack e [3] confH 0 "k" 5 (some (3, 0)) = none := by decide

end XV.C18
