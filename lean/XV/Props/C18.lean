import XV.Lemmas.Assoc
import XV.Lemmas.ChainFrame
import XV.Model.Snapshot
import XV.Lemmas.SnapRun
/-!
C18 — snapshot reads return a key's value as of the chosen main-chain block.
Theorems about the backwards walk `XV.Snapshot.walkBack` (= `xModSnapshot.Get`):
it never returns a pending write, never a write confirmed above the snapshot height, it returns the first
eligible writer on the version chain, and — the inductive step behind "unaffected by later blocks, pending
transactions, deletions and re-creations after B" — a later write of the key (pending, or confirmed above the
snapshot height) whose own input cites the version that was current leaves every snapshot answer unchanged.
-/
namespace XV.C18
open XV.Chain XV.Snapshot

/-- a snapshot never exposes a pending, unconfirmed write -/
theorem snapshot_hides_pool (e : Env) (pool : List Nat) (confH : Nat → Option Nat) (h : Nat) (key : String)
    (fuel : Nat) (start : Option Ver) (v : Ver) (hr : walkBack e pool confH h key fuel start = some v) :
    v.1 ∉ pool := by
  induction fuel generalizing start with
  | zero => simp [walkBack] at hr
  | succ n ih =>
    cases start with
    | none => simp [walkBack] at hr
    | some w =>
      unfold walkBack at hr
      split at hr
      · exact ih _ hr
      · rename_i hp
        split at hr
        · split at hr
          · simp at hr; subst hr; simpa using hp
          · exact ih _ hr
        · simp at hr

/-- … and never a write confirmed above the snapshot height -/
theorem snapshot_height_bound (e : Env) (pool : List Nat) (confH : Nat → Option Nat) (h : Nat) (key : String)
    (fuel : Nat) (start : Option Ver) (v : Ver) (hr : walkBack e pool confH h key fuel start = some v) :
    ∃ bh, confH v.1 = some bh ∧ bh ≤ h := by
  induction fuel generalizing start with
  | zero => simp [walkBack] at hr
  | succ n ih =>
    cases start with
    | none => simp [walkBack] at hr
    | some w =>
      unfold walkBack at hr
      split at hr
      · exact ih _ hr
      · split at hr
        · rename_i bh hb
          split at hr
          · rename_i hle; simp at hr; subst hr; exact ⟨bh, hb, hle⟩
          · exact ih _ hr
        · simp at hr

/-- a writer that is skipped (pending, or confirmed above the snapshot height) hands the walk to the version it cited -/
theorem walkBack_skip (e : Env) (pool : List Nat) (confH : Nat → Option Nat) (h : Nat) (key : String)
    (fuel : Nat) (v : Ver)
    (hskip : v.1 ∈ pool ∨ ∃ bh, confH v.1 = some bh ∧ h < bh) :
    walkBack e pool confH h key (fuel + 1) (some v) = walkBack e pool confH h key fuel (prevOf e v key) := by
  have hdef : walkBack e pool confH h key (fuel + 1) (some v) =
      (if pool.contains v.1 then walkBack e pool confH h key fuel (prevOf e v key)
       else match confH v.1 with
         | some bh => if bh ≤ h then some v else walkBack e pool confH h key fuel (prevOf e v key)
         | none => none) := rfl
  rw [hdef]
  rcases hskip with hp | ⟨bh, hb, hlt⟩
  · simp [hp]
  · by_cases hp : v.1 ∈ pool
    · simp [hp]
    · have : ¬ bh ≤ h := by omega
      simp [hp, hb, this]

/-- version of a key after the key writes of a transaction (one write per key, as the sandbox produces them) -/
theorem applyKOut_curVer (t : Tx) (kout : List KOut) (off : Nat) (s : St) (key : String)
    (hnd : (kout.map (·.key)).Nodup) :
    curVer (applyKOut t kout off s) key =
      match kout.findIdx? (fun ko => ko.key == key) with
      | some i => some (t.id, off + i)
      | none => curVer s key := by
  induction kout generalizing off s with
  | nil => simp [applyKOut]
  | cons ko rest ih =>
    simp only [List.map_cons, List.nodup_cons] at hnd
    unfold applyKOut
    rw [ih _ _ hnd.2]
    simp only [List.findIdx?_cons]
    by_cases hk : (ko.key == key) = true
    · have hkey : ko.key = key := by simpa using hk
      have hnone : rest.findIdx? (fun x => x.key == key) = none := by
        apply List.findIdx?_eq_none_iff.mpr
        intro x hx
        have : x.key ≠ ko.key := fun e2 => hnd.1 (List.mem_map.mpr ⟨x, hx, e2⟩)
        simp [hkey ▸ this]
      simp only [hk, ↓reduceIte, hnone, Nat.add_zero]
      unfold curVer
      by_cases hd : ko.del = true
      · simp only [hd, ↓reduceIte, hkey, lookup_del_same, lookup_put_same]
      · simp only [hd, Bool.false_eq_true, ↓reduceIte, hkey, lookup_put_same]
    · simp only [hk, Bool.false_eq_true, ↓reduceIte]
      have hne : ¬ ko.key = key := by simpa using hk
      cases hf : rest.findIdx? (fun x => x.key == key) with
      | some i => simp only [Option.map_some]; congr 2; omega
      | none =>
        simp only [Option.map_none]
        unfold curVer
        by_cases hd : ko.del = true
        · simp only [hd, ↓reduceIte, lookup_del, lookup_put, hne]
        · simp only [hd, Bool.false_eq_true, ↓reduceIte, lookup_put, hne]

/-- **later writes do not disturb a snapshot.** Let `t` be applied on `s` (admitted: its read of `key` cites the
current version). If `t` is pending afterwards, or confirmed above the snapshot height, then the snapshot walk on
the new state with one more unit of fuel answers exactly what it answered before — whether `t` overwrites, deletes
or re-creates the key, or does not touch it. -/
theorem snapshot_unaffected_by_later_write (e : Env) (s : St) (t : Tx) (confH : Nat → Option Nat) (h : Nat)
    (key : String) (fuel : Nat) (pool' : List Nat)
    (hnd : (t.kout.map (·.key)).Nodup)
    (hread : ∀ ki ∈ t.kin, curVer s ki.key = ki.ver)            -- admission: reads are current
    (hwr : ∀ ko ∈ t.kout, ∃ ki ∈ t.kin, ki.key = ko.key)        -- admission: written keys were read
    (hkin : (t.kin.map (·.key)).Nodup)
    (hself : e.tx t.id = t)
    (hskip : t.id ∈ pool' ∨ ∃ bh, confH t.id = some bh ∧ h < bh) :
    walkBack e pool' confH h key (fuel + 1) (curVer (applyTx s t) key) =
      (match t.kout.findIdx? (fun ko => ko.key == key) with
       | some _ => walkBack e pool' confH h key fuel (curVer s key)
       | none => walkBack e pool' confH h key (fuel + 1) (curVer s key)) := by
  have hcv : curVer (applyTx s t) key = curVer (applyKOut t t.kout 0 s) key := by
    unfold applyTx curVer
    obtain ⟨o1, o2, _⟩ := applyOuts_frame t t.outs 0
      { applyKOut t t.kout 0 s with U := t.ins.foldl (fun u r => del u (r.tx, r.off)) (applyKOut t t.kout 0 s).U }
    rw [o1, o2]
  rw [hcv, applyKOut_curVer t t.kout 0 s key hnd]
  cases hf : t.kout.findIdx? (fun ko => ko.key == key) with
  | none => rfl
  | some i =>
    simp only [Nat.zero_add]
    rw [walkBack_skip e pool' confH h key fuel (t.id, i) hskip]
    -- the version t cited for the key is the one that was current
    have hi := List.findIdx?_eq_some_iff_getElem.mp hf
    obtain ⟨hlt, hki, _⟩ := hi
    have hko : t.kout[i] ∈ t.kout := List.getElem_mem hlt
    have hkey : t.kout[i].key = key := by simpa using hki
    obtain ⟨ki, hkim, hkk⟩ := hwr _ hko
    have hprev : prevOf e (t.id, i) key = curVer s key := by
      unfold prevOf
      simp only [hself]
      have hfind : t.kin.find? (fun x => x.key == key) = some ki := by
        rw [List.find?_eq_some_iff_append]
        obtain ⟨as, bs, hsplit⟩ := List.append_of_mem hkim
        refine ⟨by simp [hkk.trans hkey], as, bs, hsplit, ?_⟩
        intro a ha
        have hne : a.key ≠ ki.key := by
          rw [hsplit] at hkin
          simp only [List.map_append, List.map_cons] at hkin
          have := (List.nodup_append.mp hkin).2.2 a.key (List.mem_map.mpr ⟨a, ha, rfl⟩) ki.key (by simp)
          exact this
        have hkeq : ki.key = key := hkk.trans hkey
        simp [← hkeq, hne]
      rw [hfind]
      simp only [Option.bind_some]
      rw [← hread ki hkim, hkk, hkey]
    rw [hprev]

-- non-vacuity: key k written by tx 1 (block height 1), overwritten by tx 2 (height 3), deleted by pending tx 3:
-- the snapshot at height 1 and 2 answers version (1,0), at height 3 version (2,0); the pending delete is never seen
example :
    let e : Env := { txs := [(1, ⟨1, false, [], [], [⟨"k", none⟩], [⟨"k", "a", false⟩]⟩),
                             (2, ⟨2, false, [], [], [⟨"k", some (1, 0)⟩], [⟨"k", "b", false⟩]⟩),
                             (3, ⟨3, false, [], [], [⟨"k", some (2, 0)⟩], [⟨"k", "", true⟩]⟩)] }
    let confH : Nat → Option Nat := fun t => if t = 1 then some 1 else if t = 2 then some 3 else none
    walkBack e [3] confH 1 "k" 5 (some (3, 0)) = some (1, 0) ∧
    walkBack e [3] confH 2 "k" 5 (some (3, 0)) = some (1, 0) ∧
    walkBack e [3] confH 3 "k" 5 (some (3, 0)) = some (2, 0) ∧
    walkBack e [3] confH 0 "k" 5 (some (3, 0)) = none := by decide

-- ================================================================== the closing induction over whole histories

/-- **a snapshot taken at block B returns what the live reader returned when B was the tip.**
`s`: the state at main-chain block B (height `hB`), empty pool; every version it shows was written by a transaction
that `confH` (the ledger's transaction → block height table) confirms at or below `hB`. On top of it: ANY sequence of
further blocks `bs` (`Extends`: each applied by `todoBlock`, or by `play` on an empty pool), whose transactions
`confH` confirms above `hB`; then ANY sequence of submissions (`Pends`: `doTx`, admitted or refused), the pending
transactions being unknown to `confH`. The environment knows every transaction under its id (`EnvIds`).
Then for EVERY key — created, overwritten, deleted, re-created, written several times in one block or in one
transaction, with pending writes on top — the snapshot read at height `hB` on the final state `s'` is exactly the
live read `curVer s key` of then, for every fuel ≥ (number of later transactions, confirmed or pending, that write
the key) + 1. -/
theorem snapshot_at_block_eq_live_then (e : Env) (hids : EnvIds e) (s s1 s' : St) (confH : Nat → Option Nat)
    (hB : Nat) (bs : List Block)
    (hpool : s.pool = [])
    (hconf : ∀ key v, curVer s key = some v → ∃ bh, confH v.1 = some bh ∧ bh ≤ hB)
    (hext : Extends e s bs s1)
    (hhigh : ∀ b ∈ bs, ∀ i ∈ b.txs, ∃ bh, confH i = some bh ∧ hB < bh)
    (hpend : Pends e s1 s')
    (hfresh : ∀ i ∈ s'.pool, confH i = none)
    (key : String) (fuel : Nat) (hfuel : nWrites e (blocksTxs bs ++ s'.pool) key + 1 ≤ fuel) :
    snapshotGet e s' confH hB key fuel = curVer s key := by
  obtain ⟨r1, r2, r3⟩ := hext.run
  obtain ⟨l, p1, p2, p3⟩ := hpend.run
  rw [r3, hpool, List.nil_append] at p1
  rw [r2] at p2 p3
  have hrun : RunV e (blocksTxs bs ++ l) (curVer s) := (RunV_append e _ _ _).mpr ⟨r1, p2⟩
  unfold snapshotGet
  rw [p3, ← runV_append, p1]
  rw [p1] at hfresh hfuel
  apply walkBack_run e hids l confH hB key (curVer s) (blocksTxs bs ++ l) _ hrun _ fuel hfuel
  · intro v hv
    obtain ⟨bh, hb, hle⟩ := hconf key v hv
    refine ⟨fun hm => ?_, bh, hb, hle⟩
    rw [hfresh _ hm] at hb; cases hb
  · intro i hi _
    rcases List.mem_append.mp hi with hi | hi
    · obtain ⟨b, hb, hib⟩ := (mem_blocksTxs bs i).mp hi
      exact Or.inr (hhigh b hb i hib)
    · exact Or.inl hi

/-- the same with the coarse fuel bound: total number of later transactions (confirmed and pending) + 1 -/
theorem snapshot_at_block_eq_live_then_total (e : Env) (hids : EnvIds e) (s s1 s' : St)
    (confH : Nat → Option Nat) (hB : Nat) (bs : List Block)
    (hpool : s.pool = [])
    (hconf : ∀ key v, curVer s key = some v → ∃ bh, confH v.1 = some bh ∧ bh ≤ hB)
    (hext : Extends e s bs s1)
    (hhigh : ∀ b ∈ bs, ∀ i ∈ b.txs, ∃ bh, confH i = some bh ∧ hB < bh)
    (hpend : Pends e s1 s')
    (hfresh : ∀ i ∈ s'.pool, confH i = none)
    (key : String) (fuel : Nat) (hfuel : (blocksTxs bs).length + s'.pool.length + 1 ≤ fuel) :
    snapshotGet e s' confH hB key fuel = curVer s key := by
  apply snapshot_at_block_eq_live_then e hids s s1 s' confH hB bs hpool hconf hext hhigh hpend hfresh key fuel
  have := nWrites_le e (blocksTxs bs ++ s'.pool) key
  rw [List.length_append] at this
  omega

/-- **the tip snapshot never exposes pending, unconfirmed writes**: with B the current tip (no further block), the
snapshot at the tip height on the state with any pending transactions applied reads every key as the state
without the pool's effects does -/
theorem tip_snapshot_hides_pending (e : Env) (hids : EnvIds e) (s s' : St) (confH : Nat → Option Nat) (hB : Nat)
    (hpool : s.pool = [])
    (hconf : ∀ key v, curVer s key = some v → ∃ bh, confH v.1 = some bh ∧ bh ≤ hB)
    (hpend : Pends e s s')
    (hfresh : ∀ i ∈ s'.pool, confH i = none)
    (key : String) (fuel : Nat) (hfuel : nWrites e s'.pool key + 1 ≤ fuel) :
    snapshotGet e s' confH hB key fuel = curVer s key :=
  snapshot_at_block_eq_live_then e hids s s s' confH hB [] hpool hconf (Extends.refl s)
    (fun _ hb => by cases hb) hpend hfresh key fuel (by simpa [blocksTxs] using hfuel)

-- ------------------------------------------------------------------ a history with deletions and re-creations
-- key "k": created by tx 1 (block 1, height 1); block 2 (height 2) = tx 2 deletes it, tx 3 re-creates it, tx 4
-- overwrites it (three writes of one key inside one block); block 3 (height 3) = tx 5 deletes it; block 4 (height 4) =
-- tx 6, which re-creates AND overwrites it inside one transaction (versions (6,0), (6,1)), and creates "j";
-- pending: tx 7 deletes "k" again, tx 8 overwrites "j", tx 9 (refused: stale read of "k").
private def hEnv : Env := {
  txs := [
    (1, ⟨1, false, [], [], [⟨"k", none⟩], [⟨"k", "a", false⟩]⟩),
    (2, ⟨2, false, [], [], [⟨"k", some (1, 0)⟩], [⟨"k", "", true⟩]⟩),
    (3, ⟨3, false, [], [], [⟨"k", some (2, 0)⟩], [⟨"k", "b", false⟩]⟩),
    (4, ⟨4, false, [], [], [⟨"k", some (3, 0)⟩], [⟨"k", "c", false⟩]⟩),
    (5, ⟨5, false, [], [], [⟨"k", some (4, 0)⟩], [⟨"k", "", true⟩]⟩),
    (6, ⟨6, false, [], [], [⟨"k", some (5, 0)⟩, ⟨"j", none⟩], [⟨"k", "d", false⟩, ⟨"j", "x", false⟩, ⟨"k", "e", false⟩]⟩),
    (7, ⟨7, false, [], [], [⟨"k", some (6, 2)⟩], [⟨"k", "", true⟩]⟩),
    (8, ⟨8, false, [], [], [⟨"j", some (6, 1)⟩], [⟨"j", "y", false⟩]⟩),
    (9, ⟨9, false, [], [], [⟨"k", some (6, 2)⟩], [⟨"k", "z", false⟩]⟩)],
  blocks := [(1, ⟨1, some 0, 1, [1], "m"⟩), (2, ⟨2, some 1, 2, [2, 3, 4], "m"⟩), (3, ⟨3, some 2, 3, [5], "m"⟩),
             (4, ⟨4, some 3, 4, [6], "m"⟩)] }
/-- transaction → height of its block on the chain 1 ← 2 ← 3 ← 4 -/
private def hConf : Nat → Option Nat := fun i =>
  if i = 1 then some 1 else if i = 2 ∨ i = 3 ∨ i = 4 then some 2 else if i = 5 then some 3 else
  if i = 6 then some 4 else none
/-- the state at block n -/
private def hAt (n : Nat) : St := ((List.range n).foldl (fun st i => (play hEnv st 0 (hEnv.block (i + 1))).1) {})
/-- the node: at block 4, transactions 7, 8, 9 submitted -/
private def hNode : St := [7, 8, 9].foldl (fun st i => (doTx hEnv st 0 i).1) (hAt 4)

-- the live reads, block by block: created, (deleted, re-created,) overwritten, deleted, re-created; the node itself
-- shows the pending delete
example : curVer (hAt 0) "k" = none ∧ curVer (hAt 1) "k" = some (1, 0) ∧ curVer (hAt 2) "k" = some (4, 0) ∧
    curVer (hAt 3) "k" = some (5, 0) ∧ curVer (hAt 4) "k" = some (6, 2) ∧ curVer hNode "k" = some (7, 0) ∧
    curVer (hAt 3) "j" = none ∧ curVer (hAt 4) "j" = some (6, 1) ∧ curVer hNode "j" = some (8, 0) ∧
    hNode.pool = [7, 8] ∧ (hAt 2).ZU = [("k", (4, 0))] ∧ (hAt 3).ZU = [] ∧ (hAt 3).ZD = [("k", (5, 0))] := by decide

-- the snapshot at every height on the final node (pending delete on top) returns exactly the version that was live
-- at that block — computed on the model …
example : ∀ h ∈ [0, 1, 2, 3, 4], ∀ key ∈ ["k", "j"],
    snapshotGet hEnv hNode hConf h key 8 = curVer (hAt h) key := by decide

-- … and the hypotheses of `snapshot_at_block_eq_live_then` hold for B = block 2 (height 2), two further blocks and the
-- three submissions: the theorem applies (non-vacuity) and gives the same answer
private theorem hExt : Extends hEnv (hAt 2) [hEnv.block 3, hEnv.block 4] (hAt 4) :=
  Extends.play (bs := [hEnv.block 3]) 0 (hEnv.block 4)
    (Extends.play (bs := []) 0 (hEnv.block 3) (Extends.refl (hAt 2)) (by decide) (by decide)) (by decide) (by decide)

example : snapshotGet hEnv hNode hConf 2 "k" 4 = some (4, 0) :=
  snapshot_at_block_eq_live_then hEnv (by decide) (hAt 2) (hAt 4) hNode hConf 2 [hEnv.block 3, hEnv.block 4]
    (by decide) (confirmed_of_rows _ _ _ (by decide)) hExt (by decide) (pends_foldl hEnv 0 [7, 8, 9] (hAt 4))
    (by decide) "k" 4 (by decide)

-- the fuel bound is sharp: three later transactions write "k" (5, 6, 7), fuel 3 is not enough
example : nWrites hEnv (blocksTxs [hEnv.block 3, hEnv.block 4] ++ hNode.pool) "k" = 3 ∧
    snapshotGet hEnv hNode hConf 2 "k" 3 = none := by decide

-- the tip snapshot hides the pending delete of "k" and the pending overwrite of "j"
example : snapshotGet hEnv hNode hConf 4 "k" 2 = some (6, 2) ∧ snapshotGet hEnv hNode hConf 4 "j" 2 = some (6, 1) :=
  ⟨tip_snapshot_hides_pending hEnv (by decide) (hAt 4) hNode hConf 4 (by decide) (confirmed_of_rows _ _ _ (by decide))
      (pends_foldl hEnv 0 [7, 8, 9] (hAt 4)) (by decide) "k" 2 (by decide),
   tip_snapshot_hides_pending hEnv (by decide) (hAt 4) hNode hConf 4 (by decide) (confirmed_of_rows _ _ _ (by decide))
      (pends_foldl hEnv 0 [7, 8, 9] (hAt 4)) (by decide) "j" 2 (by decide)⟩

end XV.C18
