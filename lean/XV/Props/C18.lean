import XV.Lemmas.Assoc
import XV.Lemmas.ChainFrame
import XV.Model.Snapshot
import XV.Lemmas.SnapWalk
import XV.Lemmas.SnapLedger
import XV.Lemmas.SnapEvolve
/-!
C18 — snapshot reads return a key's value as of the chosen main-chain block.

The walk. Theorems about the backwards walk `XV.Snapshot.walkBack` (= `xModSnapshot.Get`): it never returns a pending
write (`snapshot_hides_pool`), never a write confirmed above the snapshot height (`snapshot_height_bound`), it hands
over along the cited versions (`walkBack_skip`), and a later write of the key (pending, or confirmed above the
snapshot height) whose own input cites the version that was current leaves every snapshot answer unchanged
(`snapshot_unaffected_by_later_write`, the inductive step).

The closing induction (Lemmas/SnapView.lean `walkBack_run`, SnapRun.lean). `snapshot_at_block_eq_live_then`: on top
of the state at block B, after ANY sequence of further blocks (`todoBlock`, `play` on an empty pool) and ANY
submissions (`doTx`), the snapshot at B's height reads every key exactly as the live reader did when B was the tip;
explicit fuel bound (later writers of the key + 1; `_total`: all later transactions + 1, and the bound is sharp).
`tip_snapshot_hides_pending`. No "one write per key" assumption: the version a transaction leaves is that of its
last write of the key.

The version-chain invariant `VChain` (Lemmas/SnapVChain.lean): `vchain_empty`, `vchain_doTx`, `vchain_todoBlock`,
`vchain_play`, `vchain_undoTx_pending`, `vchain_undoTx_confirmed`, `vchain_canonical` (every replayed chain);
`snapshot_first_eligible` (what a snapshot returns on a state with the invariant); `snapshot_at_block_of_vchain`
(the main theorem from the invariant at B, nothing assumed about pending transactions); `key_writer_once` (a
transaction that writes a key is admitted at most once in a history).

Every block up to the tip (Lemmas/SnapChain.lean): `snapshot_every_block` — for every split of a replayed chain, with
the height table `confOf` of the chain; `snapshot_every_block_ledger` — with the table the ledger model of C04 keeps
(`ledgerConfH`, Lemmas/SnapLedger.lean), through C04's invariant `c_trunk`.

`snapshot_canonical_form`: every node whose state is, key by key, "canonical chain state + pool applied in order" has
the snapshot property at every block of its chain — the form C01 maintains.

Reorganisations (Lemmas/SnapWalk.lean, through C01 `walk_canonical`): `snapshot_after_walk`,
`snapshot_after_walk_ledger`, `snapshot_on_canonical_node`, `snapshot_common_ancestor_stable`.

What is false: `snapshot_any_branch_statement` — a height table that reports, for a transaction confirmed on two
branches, the block of the OTHER branch (`snapshot_any_branch_counterexample`, witness replayable on the
implementation); `snapshot_any_branch_partial` names the missing hypothesis, which C04 `c_trunk` provides.

Mixed histories (Lemmas/SnapEvolve.lean): `snapshot_at_block_eq_live_then_mixed`, `snapshot_at_block_of_vchain_mixed` —
submissions, `todoBlock`, `play` on ANY pool when nothing is evicted (`NoEvict`), `playForMiner`, in any order.

Not covered here: `play` on a non-empty pool that EVICTS conflicting pending transactions between B and the read. It
needs the commutation of independent transactions, as in C01; once it is shown to keep the canonical form,
`snapshot_canonical_form` applies.
-/
namespace XV.C18
open XV.Chain XV.Snapshot

/-- a snapshot never exposes a pending, unconfirmed write -/
theorem snapshot_hides_pool (e : Env) (pool : List Nat) (confH : Nat → Option Nat) (h : Nat) (key : String)
    (fuel : Nat) (start : Option Ver) (v : Ver) (hr : walkBack e pool confH h key fuel start = some v) :
    v.1 ∉ pool := by
  induction fuel generalizing start with
  | zero => simp [walkBack] at hr
  | succ n ih =>
    cases start with
    | none => simp [walkBack] at hr
    | some w =>
      unfold walkBack at hr
      split at hr
      · exact ih _ hr
      · rename_i hp
        split at hr
        · split at hr
          · simp at hr; subst hr; simpa using hp
          · exact ih _ hr
        · simp at hr

/-- … and never a write confirmed above the snapshot height -/
theorem snapshot_height_bound (e : Env) (pool : List Nat) (confH : Nat → Option Nat) (h : Nat) (key : String)
    (fuel : Nat) (start : Option Ver) (v : Ver) (hr : walkBack e pool confH h key fuel start = some v) :
    ∃ bh, confH v.1 = some bh ∧ bh ≤ h := by
  induction fuel generalizing start with
  | zero => simp [walkBack] at hr
  | succ n ih =>
    cases start with
    | none => simp [walkBack] at hr
    | some w =>
      unfold walkBack at hr
      split at hr
      · exact ih _ hr
      · split at hr
        · rename_i bh hb
          split at hr
          · rename_i hle; simp at hr; subst hr; exact ⟨bh, hb, hle⟩
          · exact ih _ hr
        · simp at hr

/-- a writer that is skipped (pending, or confirmed above the snapshot height) hands the walk to the version it cited -/
theorem walkBack_skip (e : Env) (pool : List Nat) (confH : Nat → Option Nat) (h : Nat) (key : String)
    (fuel : Nat) (v : Ver)
    (hskip : v.1 ∈ pool ∨ ∃ bh, confH v.1 = some bh ∧ h < bh) :
    walkBack e pool confH h key (fuel + 1) (some v) = walkBack e pool confH h key fuel (prevOf e v key) := by
  have hdef : walkBack e pool confH h key (fuel + 1) (some v) =
      (if pool.contains v.1 then walkBack e pool confH h key fuel (prevOf e v key)
       else match confH v.1 with
         | some bh => if bh ≤ h then some v else walkBack e pool confH h key fuel (prevOf e v key)
         | none => none) := rfl
  rw [hdef]
  rcases hskip with hp | ⟨bh, hb, hlt⟩
  · simp [hp]
  · by_cases hp : v.1 ∈ pool
    · simp [hp]
    · have : ¬ bh ≤ h := by omega
      simp [hp, hb, this]

/-- version of a key after the key writes of a transaction (one write per key, as the sandbox produces them) -/
theorem applyKOut_curVer (t : Tx) (kout : List KOut) (off : Nat) (s : St) (key : String)
    (hnd : (kout.map (·.key)).Nodup) :
    curVer (applyKOut t kout off s) key =
      match kout.findIdx? (fun ko => ko.key == key) with
      | some i => some (t.id, off + i)
      | none => curVer s key := by
  induction kout generalizing off s with
  | nil => simp [applyKOut]
  | cons ko rest ih =>
    simp only [List.map_cons, List.nodup_cons] at hnd
    unfold applyKOut
    rw [ih _ _ hnd.2]
    simp only [List.findIdx?_cons]
    by_cases hk : (ko.key == key) = true
    · have hkey : ko.key = key := by simpa using hk
      have hnone : rest.findIdx? (fun x => x.key == key) = none := by
        apply List.findIdx?_eq_none_iff.mpr
        intro x hx
        have : x.key ≠ ko.key := fun e2 => hnd.1 (List.mem_map.mpr ⟨x, hx, e2⟩)
        simp [hkey ▸ this]
      simp only [hk, ↓reduceIte, hnone, Nat.add_zero]
      unfold curVer
      by_cases hd : ko.del = true
      · simp only [hd, ↓reduceIte, hkey, lookup_del_same, lookup_put_same]
      · simp only [hd, Bool.false_eq_true, ↓reduceIte, hkey, lookup_put_same]
    · simp only [hk, Bool.false_eq_true, ↓reduceIte]
      have hne : ¬ ko.key = key := by simpa using hk
      cases hf : rest.findIdx? (fun x => x.key == key) with
      | some i => simp only [Option.map_some]; congr 2; omega
      | none =>
        simp only [Option.map_none]
        unfold curVer
        by_cases hd : ko.del = true
        · simp only [hd, ↓reduceIte, lookup_del, lookup_put, hne]
        · simp only [hd, Bool.false_eq_true, ↓reduceIte, lookup_put, hne]

/-- **later writes do not disturb a snapshot.** Let `t` be applied on `s` (admitted: its read of `key` cites the
current version). If `t` is pending afterwards, or confirmed above the snapshot height, then the snapshot walk on
the new state with one more unit of fuel answers exactly what it answered before — whether `t` overwrites, deletes
or re-creates the key, or does not touch it. -/
theorem snapshot_unaffected_by_later_write (e : Env) (s : St) (t : Tx) (confH : Nat → Option Nat) (h : Nat)
    (key : String) (fuel : Nat) (pool' : List Nat)
    (hnd : (t.kout.map (·.key)).Nodup)
    (hread : ∀ ki ∈ t.kin, curVer s ki.key = ki.ver)            -- admission: reads are current
    (hwr : ∀ ko ∈ t.kout, ∃ ki ∈ t.kin, ki.key = ko.key)        -- admission: written keys were read
    (hkin : (t.kin.map (·.key)).Nodup)
    (hself : e.tx t.id = t)
    (hskip : t.id ∈ pool' ∨ ∃ bh, confH t.id = some bh ∧ h < bh) :
    walkBack e pool' confH h key (fuel + 1) (curVer (applyTx s t) key) =
      (match t.kout.findIdx? (fun ko => ko.key == key) with
       | some _ => walkBack e pool' confH h key fuel (curVer s key)
       | none => walkBack e pool' confH h key (fuel + 1) (curVer s key)) := by
  have hcv : curVer (applyTx s t) key = curVer (applyKOut t t.kout 0 s) key := by
    unfold applyTx curVer
    obtain ⟨o1, o2, _⟩ := applyOuts_frame t t.outs 0
      { applyKOut t t.kout 0 s with U := t.ins.foldl (fun u r => del u (r.tx, r.off)) (applyKOut t t.kout 0 s).U }
    rw [o1, o2]
  rw [hcv, applyKOut_curVer t t.kout 0 s key hnd]
  cases hf : t.kout.findIdx? (fun ko => ko.key == key) with
  | none => rfl
  | some i =>
    simp only [Nat.zero_add]
    rw [walkBack_skip e pool' confH h key fuel (t.id, i) hskip]
    -- the version t cited for the key is the one that was current
    have hi := List.findIdx?_eq_some_iff_getElem.mp hf
    obtain ⟨hlt, hki, _⟩ := hi
    have hko : t.kout[i] ∈ t.kout := List.getElem_mem hlt
    have hkey : t.kout[i].key = key := by simpa using hki
    obtain ⟨ki, hkim, hkk⟩ := hwr _ hko
    have hprev : prevOf e (t.id, i) key = curVer s key := by
      unfold prevOf
      simp only [hself]
      have hfind : t.kin.find? (fun x => x.key == key) = some ki := by
        rw [List.find?_eq_some_iff_append]
        obtain ⟨as, bs, hsplit⟩ := List.append_of_mem hkim
        refine ⟨by simp [hkk.trans hkey], as, bs, hsplit, ?_⟩
        intro a ha
        have hne : a.key ≠ ki.key := by
          rw [hsplit] at hkin
          simp only [List.map_append, List.map_cons] at hkin
          have := (List.nodup_append.mp hkin).2.2 a.key (List.mem_map.mpr ⟨a, ha, rfl⟩) ki.key (by simp)
          exact this
        have hkeq : ki.key = key := hkk.trans hkey
        simp [← hkeq, hne]
      rw [hfind]
      simp only [Option.bind_some]
      rw [← hread ki hkim, hkk, hkey]
    rw [hprev]

-- non-vacuity: key k written by tx 1 (block height 1), overwritten by tx 2 (height 3), deleted by pending tx 3:
-- the snapshot at height 1 and 2 answers version (1,0), at height 3 version (2,0); the pending delete is never seen
example :
    let e : Env := { txs := [(1, ⟨1, false, [], [], [⟨"k", none⟩], [⟨"k", "a", false⟩]⟩),
                             (2, ⟨2, false, [], [], [⟨"k", some (1, 0)⟩], [⟨"k", "b", false⟩]⟩),
                             (3, ⟨3, false, [], [], [⟨"k", some (2, 0)⟩], [⟨"k", "", true⟩]⟩)] }
    let confH : Nat → Option Nat := fun t => if t = 1 then some 1 else if t = 2 then some 3 else none
    walkBack e [3] confH 1 "k" 5 (some (3, 0)) = some (1, 0) ∧
    walkBack e [3] confH 2 "k" 5 (some (3, 0)) = some (1, 0) ∧
    walkBack e [3] confH 3 "k" 5 (some (3, 0)) = some (2, 0) ∧
    walkBack e [3] confH 0 "k" 5 (some (3, 0)) = none := by decide

-- ================================================================== the closing induction over whole histories

/-- **a snapshot taken at block B returns what the live reader returned when B was the tip.**
`s`: the state at main-chain block B (height `hB`), empty pool; every version it shows was written by a transaction
that `confH` (the ledger's transaction → block height table) confirms at or below `hB`. On top of it: ANY sequence of
further blocks `bs` (`Extends`: each applied by `todoBlock`, or by `play` on an empty pool), whose transactions
`confH` confirms above `hB`; then ANY sequence of submissions (`Pends`: `doTx`, admitted or refused), the pending
transactions being unknown to `confH`. The environment knows every transaction under its id (`EnvIds`).
Then for EVERY key — created, overwritten, deleted, re-created, written several times in one block or in one
transaction, with pending writes on top — the snapshot read at height `hB` on the final state `s'` is exactly the
live read `curVer s key` of then, for every fuel ≥ (number of later transactions, confirmed or pending, that write
the key) + 1. -/
theorem snapshot_at_block_eq_live_then (e : Env) (hids : EnvIds e) (s s1 s' : St) (confH : Nat → Option Nat)
    (hB : Nat) (bs : List Block)
    (hpool : s.pool = [])
    (hconf : ∀ key v, curVer s key = some v → ∃ bh, confH v.1 = some bh ∧ bh ≤ hB)
    (hext : Extends e s bs s1)
    (hhigh : ∀ b ∈ bs, ∀ i ∈ b.txs, ∃ bh, confH i = some bh ∧ hB < bh)
    (hpend : Pends e s1 s')
    (hfresh : ∀ i ∈ s'.pool, confH i = none)
    (key : String) (fuel : Nat) (hfuel : nWrites e (blocksTxs bs ++ s'.pool) key + 1 ≤ fuel) :
    snapshotGet e s' confH hB key fuel = curVer s key := by
  obtain ⟨r1, r2, r3⟩ := hext.run
  obtain ⟨l, p1, p2, p3⟩ := hpend.run
  rw [r3, hpool, List.nil_append] at p1
  rw [r2] at p2 p3
  have hrun : RunV e (blocksTxs bs ++ l) (curVer s) := (RunV_append e _ _ _).mpr ⟨r1, p2⟩
  unfold snapshotGet
  rw [p3, ← runV_append, p1]
  rw [p1] at hfresh hfuel
  apply walkBack_run e hids l confH hB key (curVer s) (blocksTxs bs ++ l) _ hrun _ fuel hfuel
  · intro v hv
    obtain ⟨bh, hb, hle⟩ := hconf key v hv
    refine ⟨fun hm => ?_, bh, hb, hle⟩
    rw [hfresh _ hm] at hb; cases hb
  · intro i hi _
    rcases List.mem_append.mp hi with hi | hi
    · obtain ⟨b, hb, hib⟩ := (mem_blocksTxs bs i).mp hi
      exact Or.inr (hhigh b hb i hib)
    · exact Or.inl hi

/-- the same with the coarse fuel bound: total number of later transactions (confirmed and pending) + 1 -/
theorem snapshot_at_block_eq_live_then_total (e : Env) (hids : EnvIds e) (s s1 s' : St)
    (confH : Nat → Option Nat) (hB : Nat) (bs : List Block)
    (hpool : s.pool = [])
    (hconf : ∀ key v, curVer s key = some v → ∃ bh, confH v.1 = some bh ∧ bh ≤ hB)
    (hext : Extends e s bs s1)
    (hhigh : ∀ b ∈ bs, ∀ i ∈ b.txs, ∃ bh, confH i = some bh ∧ hB < bh)
    (hpend : Pends e s1 s')
    (hfresh : ∀ i ∈ s'.pool, confH i = none)
    (key : String) (fuel : Nat) (hfuel : (blocksTxs bs).length + s'.pool.length + 1 ≤ fuel) :
    snapshotGet e s' confH hB key fuel = curVer s key := by
  apply snapshot_at_block_eq_live_then e hids s s1 s' confH hB bs hpool hconf hext hhigh hpend hfresh key fuel
  have := nWrites_le e (blocksTxs bs ++ s'.pool) key
  rw [List.length_append] at this
  omega

/-- **the tip snapshot never exposes pending, unconfirmed writes**: with B the current tip (no further block), the
snapshot at the tip height on the state with any pending transactions applied reads every key as the state
without the pool's effects does -/
theorem tip_snapshot_hides_pending (e : Env) (hids : EnvIds e) (s s' : St) (confH : Nat → Option Nat) (hB : Nat)
    (hpool : s.pool = [])
    (hconf : ∀ key v, curVer s key = some v → ∃ bh, confH v.1 = some bh ∧ bh ≤ hB)
    (hpend : Pends e s s')
    (hfresh : ∀ i ∈ s'.pool, confH i = none)
    (key : String) (fuel : Nat) (hfuel : nWrites e s'.pool key + 1 ≤ fuel) :
    snapshotGet e s' confH hB key fuel = curVer s key :=
  snapshot_at_block_eq_live_then e hids s s s' confH hB [] hpool hconf (Extends.refl s)
    (fun _ hb => by cases hb) hpend hfresh key fuel (by simpa [blocksTxs] using hfuel)

-- ------------------------------------------------------------------ a history with deletions and re-creations
-- key "k": created by tx 1 (block 1, height 1); block 2 (height 2) = tx 2 deletes it, tx 3 re-creates it, tx 4
-- overwrites it (three writes of one key inside one block); block 3 (height 3) = tx 5 deletes it; block 4 (height 4) =
-- tx 6, which re-creates AND overwrites it inside one transaction (versions (6,0), (6,1)), and creates "j";
-- pending: tx 7 deletes "k" again, tx 8 overwrites "j", tx 9 (refused: stale read of "k").
private def hEnv : Env := {
  txs := [
    (1, ⟨1, false, [], [], [⟨"k", none⟩], [⟨"k", "a", false⟩]⟩),
    (2, ⟨2, false, [], [], [⟨"k", some (1, 0)⟩], [⟨"k", "", true⟩]⟩),
    (3, ⟨3, false, [], [], [⟨"k", some (2, 0)⟩], [⟨"k", "b", false⟩]⟩),
    (4, ⟨4, false, [], [], [⟨"k", some (3, 0)⟩], [⟨"k", "c", false⟩]⟩),
    (5, ⟨5, false, [], [], [⟨"k", some (4, 0)⟩], [⟨"k", "", true⟩]⟩),
    (6, ⟨6, false, [], [], [⟨"k", some (5, 0)⟩, ⟨"j", none⟩], [⟨"k", "d", false⟩, ⟨"j", "x", false⟩, ⟨"k", "e", false⟩]⟩),
    (7, ⟨7, false, [], [], [⟨"k", some (6, 2)⟩], [⟨"k", "", true⟩]⟩),
    (8, ⟨8, false, [], [], [⟨"j", some (6, 1)⟩], [⟨"j", "y", false⟩]⟩),
    (9, ⟨9, false, [], [], [⟨"k", some (6, 2)⟩], [⟨"k", "z", false⟩]⟩)],
  blocks := [(1, ⟨1, some 0, 1, [1], "m"⟩), (2, ⟨2, some 1, 2, [2, 3, 4], "m"⟩), (3, ⟨3, some 2, 3, [5], "m"⟩),
             (4, ⟨4, some 3, 4, [6], "m"⟩)] }
/-- transaction → height of its block on the chain 1 ← 2 ← 3 ← 4 -/
private def hConf : Nat → Option Nat := fun i =>
  if i = 1 then some 1 else if i = 2 ∨ i = 3 ∨ i = 4 then some 2 else if i = 5 then some 3 else
  if i = 6 then some 4 else none
/-- the state at block n -/
private def hAt (n : Nat) : St := ((List.range n).foldl (fun st i => (play hEnv st 0 (hEnv.block (i + 1))).1) {})
/-- the node: at block 4, transactions 7, 8, 9 submitted -/
private def hNode : St := [7, 8, 9].foldl (fun st i => (doTx hEnv st 0 i).1) (hAt 4)

-- the live reads, block by block: created, (deleted, re-created,) overwritten, deleted, re-created; the node itself
-- shows the pending delete
example : curVer (hAt 0) "k" = none ∧ curVer (hAt 1) "k" = some (1, 0) ∧ curVer (hAt 2) "k" = some (4, 0) ∧
    curVer (hAt 3) "k" = some (5, 0) ∧ curVer (hAt 4) "k" = some (6, 2) ∧ curVer hNode "k" = some (7, 0) ∧
    curVer (hAt 3) "j" = none ∧ curVer (hAt 4) "j" = some (6, 1) ∧ curVer hNode "j" = some (8, 0) ∧
    hNode.pool = [7, 8] ∧ (hAt 2).ZU = [("k", (4, 0))] ∧ (hAt 3).ZU = [] ∧ (hAt 3).ZD = [("k", (5, 0))] := by decide

-- the snapshot at every height on the final node (pending delete on top) returns exactly the version that was live
-- at that block — computed on the model …
example : ∀ h ∈ [0, 1, 2, 3, 4], ∀ key ∈ ["k", "j"],
    snapshotGet hEnv hNode hConf h key 8 = curVer (hAt h) key := by decide

-- … and the hypotheses of `snapshot_at_block_eq_live_then` hold for B = block 2 (height 2), two further blocks and the
-- three submissions: the theorem applies (non-vacuity) and gives the same answer
private theorem hExt : Extends hEnv (hAt 2) [hEnv.block 3, hEnv.block 4] (hAt 4) :=
  Extends.play (bs := [hEnv.block 3]) 0 (hEnv.block 4)
    (Extends.play (bs := []) 0 (hEnv.block 3) (Extends.refl (hAt 2)) (by decide) (by decide)) (by decide) (by decide)

example : snapshotGet hEnv hNode hConf 2 "k" 4 = some (4, 0) :=
  snapshot_at_block_eq_live_then hEnv (by decide) (hAt 2) (hAt 4) hNode hConf 2 [hEnv.block 3, hEnv.block 4]
    (by decide) (confirmed_of_rows _ _ _ (by decide)) hExt (by decide) (pends_foldl hEnv 0 [7, 8, 9] (hAt 4))
    (by decide) "k" 4 (by decide)

example : snapshotGet hEnv hNode hConf 2 "k" 5 = some (4, 0) :=
  snapshot_at_block_eq_live_then_total hEnv (by decide) (hAt 2) (hAt 4) hNode hConf 2 [hEnv.block 3, hEnv.block 4]
    (by decide) (confirmed_of_rows _ _ _ (by decide)) hExt (by decide) (pends_foldl hEnv 0 [7, 8, 9] (hAt 4))
    (by decide) "k" 5 (by decide)

-- the fuel bound is sharp: three later transactions write "k" (5, 6, 7), fuel 3 is not enough
example : nWrites hEnv (blocksTxs [hEnv.block 3, hEnv.block 4] ++ hNode.pool) "k" = 3 ∧
    snapshotGet hEnv hNode hConf 2 "k" 3 = none := by decide

-- the tip snapshot hides the pending delete of "k" and the pending overwrite of "j"
example : snapshotGet hEnv hNode hConf 4 "k" 2 = some (6, 2) ∧ snapshotGet hEnv hNode hConf 4 "j" 2 = some (6, 1) :=
  ⟨tip_snapshot_hides_pending hEnv (by decide) (hAt 4) hNode hConf 4 (by decide) (confirmed_of_rows _ _ _ (by decide))
      (pends_foldl hEnv 0 [7, 8, 9] (hAt 4)) (by decide) "k" 2 (by decide),
   tip_snapshot_hides_pending hEnv (by decide) (hAt 4) hNode hConf 4 (by decide) (confirmed_of_rows _ _ _ (by decide))
      (pends_foldl hEnv 0 [7, 8, 9] (hAt 4)) (by decide) "j" 2 (by decide)⟩

-- ================================================================== the version-chain invariant

/-- **the version-chain invariant holds in the empty state** (`VChain`, Lemmas/SnapVChain.lean: for every key the
chain from the current version along `prevOf` is a finite list of real writes of that key, its writers distinct,
first pending ones in reverse pool order, then confirmed ones with non-increasing confirmation height) -/
theorem vchain_empty (e : Env) (s : St) (confH : Nat → Option Nat) (h1 : s.ZU = []) (h2 : s.ZD = []) :
    VChain e s confH :=
  vchain_of_empty e s confH h1 h2

/-- **… is kept by a submission** (`doTx`: the transaction, if admitted — every read cites the current version —
is applied and becomes the newest pending writer), for a transaction the ledger does not hold -/
theorem vchain_doTx (e : Env) (hids : EnvIds e) (s : St) (confH : Nat → Option Nat) (lh : Int) (i : Nat)
    (h : VChain e s confH) (hfresh : confH i = none) : VChain e (doTx e s lh i).1 confH :=
  vchain_doTx' e hids s confH lh i h hfresh

/-- **… is kept by a block applied on an empty pool** (`todoBlock`): its transactions, distinct and new to the
ledger, are recorded at the block's height, which is at least every height the ledger knows -/
theorem vchain_todoBlock (e : Env) (hids : EnvIds e) (s s' : St) (confH : Nat → Option Nat) (lh : Int) (b : Block)
    (h : VChain e s confH) (hp : s.pool = []) (ht : todoBlock e s lh b = some s') (hnd : b.txs.Nodup)
    (hfresh : ∀ i ∈ b.txs, confH i = none) (htop : ∀ j bh, confH j = some bh → bh ≤ b.height) :
    VChain e s' (fun j => if j ∈ b.txs then some b.height else confH j) :=
  vchain_todoBlock' e hids s s' confH lh b h hp ht hnd hfresh htop

/-- the same for `play` (`PlayAndRepost`) on an empty pool -/
theorem vchain_play (e : Env) (hids : EnvIds e) (s : St) (confH : Nat → Option Nat) (lh : Int) (b : Block)
    (h : VChain e s confH) (hp : s.pool = []) (hok : (play e s lh b).2 = .ok) (hnd : b.txs.Nodup)
    (hfresh : ∀ i ∈ b.txs, confH i = none) (htop : ∀ j bh, confH j = some bh → bh ≤ b.height) :
    VChain e (play e s lh b).1 (fun j => if j ∈ b.txs then some b.height else confH j) :=
  vchain_todoBlock' e hids s _ confH lh b h hp (XV.C01.play_eq_todoBlock e s lh b hp hok).1 hnd hfresh htop

/-- **… is kept by `undoTx` of the newest writer, pending**: `t` is the last transaction of the pool and holds the
current version of every key it writes (one write per key; `UndoSafe`, Lemmas/UndoObs.lean, holds right after the
application) -/
theorem vchain_undoTx_pending (e : Env) (s : St) (confH : Nat → Option Nat) (t : Tx) (pool0 : List Nat)
    (h : VChain e s confH) (hpool : s.pool = pool0 ++ [t.id]) (hself : e.tx t.id = t)
    (hnd : XV.C01.koutDistinct t) (hsafe : UndoSafe s t)
    (hnewest : ∀ ko ∈ t.kout, ∃ o, curVer s ko.key = some (t.id, o)) :
    VChain e { undoTx e s t with pool := pool0 } confH :=
  vchain_undo_pending e s confH t pool0 h hpool hself hnd hsafe hnewest

/-- **… and by `undoTx` of the newest writer, confirmed** (a block being undone on an empty pool, newest
transaction first): the ledger forgets the transaction -/
theorem vchain_undoTx_confirmed (e : Env) (s : St) (confH : Nat → Option Nat) (t : Tx)
    (h : VChain e s confH) (hpool : s.pool = []) (hself : e.tx t.id = t)
    (hnd : XV.C01.koutDistinct t) (hsafe : UndoSafe s t)
    (hnewest : ∀ ko ∈ t.kout, ∃ o, curVer s ko.key = some (t.id, o)) :
    VChain e (undoTx e s t) (fun j => if j = t.id then none else confH j) :=
  vchain_undo_confirmed e s confH t h hpool hself hnd hsafe hnewest

/-- **the invariant holds on every replayed chain**: from a base state without keys, blocks (ids, oldest first) with
strictly increasing heights, no transaction twice in a block or on the chain, the transactions of the chain, in
order, each citing the current version of what it reads and reading what it writes (`RunV`, the key half of
admission; C01 `ChainValid` implies it: `chainValid_run`); the height table is `confOf` of the chain -/
theorem vchain_canonical (e : Env) (hids : EnvIds e) (g : St) (hg : ∀ key, curVer g key = none) (hgp : g.pool = [])
    (chain : List Nat) (hvalid : RunV e (chainTxs e chain) (curVer g)) (honce : TxOnce e chain)
    (htx : ∀ b ∈ chain, (e.block b).txs.Nodup)
    (hup : chain.Pairwise (fun x y => (e.block x).height < (e.block y).height)) :
    VChain e (replayChain e chain g) (confOf e chain) := by
  have := vchain_replayChain e hids g hg hgp chain.reverse
  rw [List.reverse_reverse] at this
  exact (this hvalid honce (fun b hb => htx b (List.mem_reverse.mp hb)) (List.pairwise_reverse.mpr hup)).1

/-- **what a snapshot returns on a state with the invariant**: the key's version chain is a finite list `l`, and for
every fuel ≥ its length + 1 the snapshot at height `h` is the first link whose writer is not pending and is
confirmed at or below `h` (none if there is no such link) -/
theorem snapshot_first_eligible (e : Env) (s : St) (confH : Nat → Option Nat) (hv : VChain e s confH) (h : Nat)
    (key : String) :
    ∃ l, Links e key (curVer s key) l ∧ ∀ fuel, l.length + 1 ≤ fuel →
      snapshotGet e s confH h key fuel = l.find? (fun v => !s.pool.contains v.1 && confLe confH h v.1) := by
  obtain ⟨l, hl, ho⟩ := hv key
  refine ⟨l, hl, fun fuel hf => ?_⟩
  apply walkBack_links e s.pool confH h key _ l hl _ fuel hf
  intro v hv'
  exact ho.mem_cases v.1 (List.mem_map.mpr ⟨v, hv', rfl⟩)

/-- **the main theorem from the invariant.** The hypothesis "every version the state at B shows is confirmed at or
below `hB`" of `snapshot_at_block_eq_live_then` follows from the invariant at B (`confH0`: the height table when B was
the tip, no height above `hB`; the final table `confH` extends it), and so does its hypothesis on the pending
transactions: the writer of a version that is current at B can never be admitted again (`no_rewrite`), so NOTHING is
assumed about what is pending -/
theorem snapshot_at_block_of_vchain (e : Env) (hids : EnvIds e) (s s1 s' : St) (confH0 confH : Nat → Option Nat)
    (hB : Nat) (bs : List Block)
    (hpool : s.pool = []) (hv : VChain e s confH0) (htop : ∀ i bh, confH0 i = some bh → bh ≤ hB)
    (hgrow : ∀ i bh, confH0 i = some bh → confH i = some bh)
    (hext : Extends e s bs s1)
    (hhigh : ∀ b ∈ bs, ∀ i ∈ b.txs, ∃ bh, confH i = some bh ∧ hB < bh)
    (hpend : Pends e s1 s')
    (key : String) (fuel : Nat) (hfuel : nWrites e (blocksTxs bs ++ s'.pool) key + 1 ≤ fuel) :
    snapshotGet e s' confH hB key fuel = curVer s key := by
  obtain ⟨r1, r2, r3⟩ := hext.run
  obtain ⟨l, p1, p2, p3⟩ := hpend.run
  rw [r3, hpool, List.nil_append] at p1
  rw [r2] at p2 p3
  have hrun : RunV e (blocksTxs bs ++ l) (curVer s) := (RunV_append e _ _ _).mpr ⟨r1, p2⟩
  unfold snapshotGet
  rw [p3, ← runV_append, p1]
  rw [p1] at hfuel
  apply walkBack_run e hids l confH hB key (curVer s) (blocksTxs bs ++ l) _ hrun _ fuel hfuel
  · intro v hcv
    obtain ⟨bh, h1, h2⟩ := vchain_confirmed_le e s confH0 hB hv hpool htop key v hcv
    obtain ⟨lk, hl, _⟩ := hv key
    rw [hcv] at hl
    obtain ⟨l', rfl, _, _⟩ := hl.head
    have := no_rewrite e hids key v l' (curVer s) (blocksTxs bs ++ l) hcv hl hrun
    exact ⟨fun hm => this (List.mem_append_right _ hm), bh, hgrow _ _ h1, h2⟩
  · intro i hi _
    rcases List.mem_append.mp hi with hi | hi
    · obtain ⟨b, hb, hib⟩ := (mem_blocksTxs bs i).mp hi
      exact Or.inr (hhigh b hb i hib)
    · exact Or.inl hi

/-- **a transaction that writes a key is admitted at most once in a history**: in a run of admitted transactions
(`RunV`: every read cites the current version, every written key is read) from a state without keys, a transaction
that writes some key does not occur again after its first occurrence — its chain would have to shrink back. This
is what makes the snapshot theorems free of assumptions about repeated or re-submitted transactions. -/
theorem key_writer_once (e : Env) (hids : EnvIds e) (g : St) (hg : ∀ key, curVer g key = none) (A B : List Nat) (i : Nat)
    (key : String) (hrun : RunV e (A ++ i :: B) (curVer g)) (hw : writesKey e key i = true) : i ∉ B :=
  writer_once e hids key (curVer g) [] (by rw [hg key]; exact Links.nil) A B i hrun hw

-- non-vacuity, on the history above: the invariant holds on the replay of the whole chain, at block 2 (where the
-- ledger knows no height above 2), and survives the submissions; undoing the newest pending writer (8) keeps it
private theorem hV4 : VChain hEnv (replayChain hEnv [1, 2, 3, 4] {}) (confOf hEnv [1, 2, 3, 4]) :=
  vchain_canonical hEnv (by decide) {} (fun _ => rfl) rfl [1, 2, 3, 4] (by decide) (by decide) (by decide) (by decide)
private theorem hV2 : VChain hEnv (replayChain hEnv [1, 2] {}) (confOf hEnv [1, 2]) :=
  vchain_canonical hEnv (by decide) {} (fun _ => rfl) rfl [1, 2] (by decide) (by decide) (by decide) (by decide)
private def hNode' : St := [7, 8, 9].foldl (fun st i => (doTx hEnv st 0 i).1) (replayChain hEnv [1, 2, 3, 4] {})
private theorem hVNode : VChain hEnv hNode' (confOf hEnv [1, 2, 3, 4]) :=
  vchain_pends hEnv (by decide) _ _ _ (pends_foldl hEnv 0 [7, 8, 9] _) (by decide) hV4

example : VChain hEnv (({} : St)) (fun _ => none) := vchain_empty hEnv {} _ rfl rfl
example : hNode'.pool = [7] ++ [(hEnv.tx 8).id] ∧ hEnv.tx (hEnv.tx 8).id = hEnv.tx 8 ∧
    XV.C01.koutDistinct (hEnv.tx 8) ∧ UndoSafe hNode' (hEnv.tx 8) ∧
    (∀ ko ∈ (hEnv.tx 8).kout, curVer hNode' ko.key = some ((hEnv.tx 8).id, 0)) := by
  refine ⟨by decide, by decide, by decide, ?_, by decide⟩
  unfold UndoSafe; decide
example : VChain hEnv { undoTx hEnv hNode' (hEnv.tx 8) with pool := [7] } (confOf hEnv [1, 2, 3, 4]) :=
  vchain_undoTx_pending hEnv hNode' _ (hEnv.tx 8) [7] hVNode (by decide) (by decide) (by decide)
    (by unfold UndoSafe; decide) (fun ko hko => ⟨0, by revert ko; decide⟩)
-- a submission, a block applied by `todoBlock` / `play`, and the undo of the newest confirmed writer (5, the delete in block 3)
example : VChain hEnv (doTx hEnv (replayChain hEnv [1, 2, 3, 4] {}) 0 7).1 (confOf hEnv [1, 2, 3, 4]) :=
  vchain_doTx hEnv (by decide) _ _ 0 7 hV4 (by decide)
example : VChain hEnv ((todoBlock hEnv (replayChain hEnv [1, 2] {}) 0 (hEnv.block 3)).getD default)
    (fun j => if j ∈ (hEnv.block 3).txs then some (hEnv.block 3).height else confOf hEnv [1, 2] j) := by
  have hs : (todoBlock hEnv (replayChain hEnv [1, 2] {}) 0 (hEnv.block 3)).isSome = true := by decide
  cases ht : todoBlock hEnv (replayChain hEnv [1, 2] {}) 0 (hEnv.block 3) with
  | none => rw [ht] at hs; cases hs
  | some s' =>
    exact vchain_todoBlock hEnv (by decide) _ s' _ 0 (hEnv.block 3) hV2 rfl ht (by decide) (by decide)
      (confOf_le hEnv [1, 2] _ (by decide))
example : VChain hEnv (play hEnv (replayChain hEnv [1, 2] {}) 0 (hEnv.block 3)).1
    (fun j => if j ∈ (hEnv.block 3).txs then some (hEnv.block 3).height else confOf hEnv [1, 2] j) :=
  vchain_play hEnv (by decide) _ _ 0 (hEnv.block 3) hV2 rfl (by decide) (by decide) (by decide)
    (confOf_le hEnv [1, 2] _ (by decide))
example : VChain hEnv (undoTx hEnv (replayChain hEnv [1, 2, 3] {}) (hEnv.tx 5))
    (fun j => if j = (hEnv.tx 5).id then none else confOf hEnv [1, 2, 3] j) :=
  vchain_undoTx_confirmed hEnv _ _ (hEnv.tx 5)
    (vchain_canonical hEnv (by decide) {} (fun _ => rfl) rfl [1, 2, 3] (by decide) (by decide) (by decide) (by decide))
    rfl (by decide) (by decide) (by unfold UndoSafe; decide) (fun ko hko => ⟨0, by revert ko; decide⟩)
example : curVer (replayChain hEnv [1, 2, 3] {}) "k" = some (5, 0) ∧
    curVer (undoTx hEnv (replayChain hEnv [1, 2, 3] {}) (hEnv.tx 5)) "k" = some (4, 0) := by decide
-- `snapshot_at_block_of_vchain` for B = block 2: the invariant at B (`hV2`), two more blocks, three submissions
private def hS4 : St := (todoBlock hEnv ((todoBlock hEnv (replayChain hEnv [1, 2] {}) 0 (hEnv.block 3)).getD default) 0
  (hEnv.block 4)).getD default
example : snapshotGet hEnv ([7, 8, 9].foldl (fun st i => (doTx hEnv st 0 i).1) hS4) (confOf hEnv ([1, 2] ++ [3, 4])) 2 "k" 4 =
    curVer (replayChain hEnv [1, 2] {}) "k" :=
  snapshot_at_block_of_vchain hEnv (by decide) (replayChain hEnv [1, 2] {}) hS4 _ (confOf hEnv [1, 2])
    (confOf hEnv ([1, 2] ++ [3, 4])) 2 [hEnv.block 3, hEnv.block 4] rfl hV2 (confOf_le hEnv [1, 2] 2 (by decide))
    (fun i bh h => confOf_prefix hEnv [1, 2] [3, 4] i bh h)
    (Extends.todo' (bs := [hEnv.block 3]) 0 (hEnv.block 4)
      (Extends.todo' (bs := []) 0 (hEnv.block 3) (Extends.refl _) (by decide)) (by decide))
    (by decide) (pends_foldl hEnv 0 [7, 8, 9] hS4) "k" 4 (by decide)
example : RunV hEnv ([1, 2, 3] ++ 4 :: [5, 6, 7, 8]) (curVer ({} : St)) ∧ writesKey hEnv "k" 4 = true ∧
    ¬ RunV hEnv ([1, 2, 3] ++ 4 :: [5, 4]) (curVer ({} : St)) := by decide
example : 4 ∉ [5, 6, 7, 8] := key_writer_once hEnv (by decide) {} (fun _ => rfl) [1, 2, 3] [5, 6, 7, 8] 4 "k" (by decide) (by decide)
example : ∃ l, Links hEnv "k" (curVer hNode' "k") l ∧ ∀ fuel, l.length + 1 ≤ fuel →
    snapshotGet hEnv hNode' (confOf hEnv [1, 2, 3, 4]) 2 "k" fuel =
      l.find? (fun v => !hNode'.pool.contains v.1 && confLe (confOf hEnv [1, 2, 3, 4]) 2 v.1) :=
  snapshot_first_eligible hEnv hNode' _ hVNode 2 "k"
-- the chain of "k" on the node, newest first: pending delete, double write of tx 6, delete, overwrite, re-creation,
-- delete, creation — and the snapshot at each height is the first eligible link
example : Links hEnv "k" (curVer hNode' "k") [(7, 0), (6, 2), (5, 0), (4, 0), (3, 0), (2, 0), (1, 0)] :=
  Links.cons _ _ (by decide) (Links.cons _ _ (by decide) (Links.cons _ _ (by decide)
    (Links.cons _ _ (by decide) (Links.cons _ _ (by decide) (Links.cons _ _ (by decide)
      (Links.cons _ _ (by decide) Links.nil))))))
example : ∀ h ∈ [0, 1, 2, 3, 4], snapshotGet hEnv hNode' (confOf hEnv [1, 2, 3, 4]) h "k" 8 =
    [(7, 0), (6, 2), (5, 0), (4, 0), (3, 0), (2, 0), (1, 0)].find?
      (fun v => !hNode'.pool.contains v.1 && confLe (confOf hEnv [1, 2, 3, 4]) h v.1) := by decide
example : ∀ i bh, confOf hEnv [1, 2] i = some bh → bh ≤ 2 := confOf_le hEnv [1, 2] 2 (by decide)

-- ================================================================== mixed histories: non-empty pools, mined blocks

/-- **the main theorem for mixed histories** (`Evolves`, Lemmas/SnapEvolve.lean): on top of the state at block B, in ANY
order, submissions (`doTx`), blocks applied by `todoBlock`, blocks played by `play` (`PlayAndRepost`) on ANY pool as long
as no pending transaction outside the block conflicts with it (`NoEvict`: nothing is evicted — in particular on an
empty pool; the pending transactions of the block are confirmed where they are), and blocks mined by `playForMiner`
(only the generated transactions are applied). `L` = the transactions applied, in order. The snapshot at B's height
on the final state reads every key as the live reader did at B, for every fuel ≥ (writers of the key in `L`) + 1. -/
theorem snapshot_at_block_eq_live_then_mixed (e : Env) (hids : EnvIds e) (s s' : St) (confH : Nat → Option Nat)
    (hB : Nat) (bs : List Block) (L : List Nat)
    (hconf : ∀ key v, curVer s key = some v → ∃ bh, confH v.1 = some bh ∧ bh ≤ hB)
    (hev : Evolves e s bs L s')
    (hhigh : ∀ b ∈ bs, ∀ i ∈ b.txs, ∃ bh, confH i = some bh ∧ hB < bh)
    (hfresh : ∀ i ∈ s'.pool, confH i = none)
    (key : String) (fuel : Nat) (hfuel : nWrites e L key + 1 ≤ fuel) :
    snapshotGet e s' confH hB key fuel = curVer s key := by
  obtain ⟨r1, r2, r3, _⟩ := hev.run
  unfold snapshotGet
  rw [r2]
  apply walkBack_run e hids s'.pool confH hB key (curVer s) L _ r1 _ fuel hfuel
  · intro v hv
    obtain ⟨bh, hb, hle⟩ := hconf key v hv
    refine ⟨fun hm => ?_, bh, hb, hle⟩
    rw [hfresh _ hm] at hb; cases hb
  · intro i hi _
    rcases r3 i hi with h1 | h1
    · exact Or.inl h1
    · obtain ⟨b, hb, hib⟩ := (mem_blocksTxs bs i).mp h1
      exact Or.inr (hhigh b hb i hib)

/-- the same from the version-chain invariant at B (empty pool there): nothing is assumed about what is pending at
the end -/
theorem snapshot_at_block_of_vchain_mixed (e : Env) (hids : EnvIds e) (s s' : St) (confH0 confH : Nat → Option Nat)
    (hB : Nat) (bs : List Block) (L : List Nat)
    (hpool : s.pool = []) (hv : VChain e s confH0) (htop : ∀ i bh, confH0 i = some bh → bh ≤ hB)
    (hgrow : ∀ i bh, confH0 i = some bh → confH i = some bh)
    (hev : Evolves e s bs L s')
    (hhigh : ∀ b ∈ bs, ∀ i ∈ b.txs, ∃ bh, confH i = some bh ∧ hB < bh)
    (key : String) (fuel : Nat) (hfuel : nWrites e L key + 1 ≤ fuel) :
    snapshotGet e s' confH hB key fuel = curVer s key := by
  obtain ⟨r1, r2, r3, r4⟩ := hev.run
  unfold snapshotGet
  rw [r2]
  apply walkBack_run e hids s'.pool confH hB key (curVer s) L _ r1 _ fuel hfuel
  · intro v hcv
    obtain ⟨bh, h1, h2⟩ := vchain_confirmed_le e s confH0 hB hv hpool htop key v hcv
    obtain ⟨lk, hl, _⟩ := hv key
    rw [hcv] at hl
    obtain ⟨l', rfl, _, _⟩ := hl.head
    have hn := no_rewrite e hids key v l' (curVer s) L hcv hl r1
    refine ⟨fun hm => ?_, bh, hgrow _ _ h1, h2⟩
    rcases r4 _ hm with h3 | h3
    · rw [hpool] at h3; cases h3
    · exact hn h3
  · intro i hi _
    rcases r3 i hi with h1 | h1
    · exact Or.inl h1
    · obtain ⟨b, hb, hib⟩ := (mem_blocksTxs bs i).mp h1
      exact Or.inr (hhigh b hb i hib)

-- non-vacuity: block 1 = tx 1 (creates "k"); tx 2 (overwrites "k") and tx 3 (creates "j") are submitted; the node MINES
-- block 2 = award 10 (writes "r") + tx 2, tx 3 stays pending; tx 4 (deletes "k") is submitted; block 3 = award 11 + tx 4 +
-- tx 5 (re-creates "k", not seen before) arrives and is PLAYED on the pool [3, 4] (no conflict with tx 3); tx 6 (overwrites
-- "k") is submitted. The snapshots at heights 1, 2, 3 on the final node read "k" as it was live at blocks 1, 2, 3.
private def mEnv : Env := {
  txs := [
    (1, ⟨1, false, [], [], [⟨"k", none⟩], [⟨"k", "a", false⟩]⟩),
    (2, ⟨2, false, [], [], [⟨"k", some (1, 0)⟩], [⟨"k", "b", false⟩]⟩),
    (3, ⟨3, false, [], [], [⟨"j", none⟩], [⟨"j", "x", false⟩]⟩),
    (4, ⟨4, false, [], [], [⟨"k", some (2, 0)⟩], [⟨"k", "", true⟩]⟩),
    (5, ⟨5, false, [], [], [⟨"k", some (4, 0)⟩], [⟨"k", "c", false⟩]⟩),
    (6, ⟨6, false, [], [], [⟨"k", some (5, 0)⟩], [⟨"k", "d", false⟩]⟩),
    (10, ⟨10, true, [], [⟨"miner", 5, 0⟩], [⟨"r", none⟩], [⟨"r", "1", false⟩]⟩),
    (11, ⟨11, true, [], [⟨"miner", 5, 0⟩], [⟨"r", some (10, 0)⟩], [⟨"r", "2", false⟩]⟩)],
  blocks := [(1, ⟨1, some 0, 1, [1], "miner"⟩), (2, ⟨2, some 1, 2, [10, 2], "miner"⟩),
             (3, ⟨3, some 2, 3, [11, 4, 5], "miner"⟩)] }
private def mConf : Nat → Option Nat := fun i =>
  if i = 1 then some 1 else if i = 10 ∨ i = 2 then some 2 else if i = 11 ∨ i = 4 ∨ i = 5 then some 3 else none
private def m1 : St := (play mEnv {} 0 (mEnv.block 1)).1
private def m1p : St := (doTx mEnv (doTx mEnv m1 0 2).1 0 3).1
private def m2 : St := (playForMiner mEnv m1p 0 (mEnv.block 2)).1
private def m2p : St := (doTx mEnv m2 0 4).1
private def m3 : St := (play mEnv m2p 0 (mEnv.block 3)).1
private def m3p : St := (doTx mEnv m3 0 6).1

example : m1.pool = [] ∧ m1p.pool = [2, 3] ∧ (playForMiner mEnv m1p 0 (mEnv.block 2)).2 = .ok ∧ m2.pool = [3] ∧
    m2p.pool = [3, 4] ∧ NoEvict mEnv m2p (mEnv.block 3) ∧ (play mEnv m2p 0 (mEnv.block 3)).2 = .ok ∧ m3.pool = [3] ∧
    m3p.pool = [3, 6] ∧ curVer m1 "k" = some (1, 0) ∧ curVer m2 "k" = some (2, 0) ∧ curVer m3 "k" = some (5, 0) ∧
    curVer m3p "k" = some (6, 0) ∧ curVer m3p "j" = some (3, 0) ∧ curVer m3p "r" = some (11, 0) := by decide
example : snapshotGet mEnv m3p mConf 1 "k" 9 = curVer m1 "k" ∧ snapshotGet mEnv m3p mConf 2 "k" 9 = curVer m2 "k" ∧
    snapshotGet mEnv m3p mConf 3 "k" 9 = curVer m3 "k" ∧ snapshotGet mEnv m3p mConf 3 "j" 9 = none ∧
    snapshotGet mEnv m3p mConf 1 "r" 9 = none ∧ snapshotGet mEnv m3p mConf 2 "r" 9 = some (10, 0) := by decide
example : snapshotGet mEnv m3p mConf 1 "k" 9 = curVer m1 "k" := by
  have hev := Evolves.submit (e := mEnv) 0 6 (Evolves.play 0 (mEnv.block 3) (Evolves.submit 0 4
    (Evolves.mine 0 (mEnv.block 2) (Evolves.submit 0 3 (Evolves.submit 0 2 (Evolves.refl m1))) (by decide)))
    (by decide) (by decide))
  exact snapshot_at_block_eq_live_then_mixed mEnv (by decide) m1 _ mConf 1 _ _ (confirmed_of_rows _ _ _ (by decide)) hev
    (by decide) (by decide) "k" 9 (by decide)
example : snapshotGet mEnv m3p mConf 1 "k" 9 = curVer m1 "k" := by
  have hev := Evolves.submit (e := mEnv) 0 6 (Evolves.play 0 (mEnv.block 3) (Evolves.submit 0 4
    (Evolves.mine 0 (mEnv.block 2) (Evolves.submit 0 3 (Evolves.submit 0 2 (Evolves.refl m1))) (by decide)))
    (by decide) (by decide))
  have hv1 : VChain mEnv m1 (fun j => if j ∈ (mEnv.block 1).txs then some (mEnv.block 1).height else none) :=
    vchain_play mEnv (by decide) {} (fun _ => none) 0 (mEnv.block 1) (vchain_empty mEnv {} _ rfl rfl) rfl (by decide)
      (by decide) (by decide) (fun j bh h => by cases h)
  exact snapshot_at_block_of_vchain_mixed mEnv (by decide) m1 _ _ mConf 1 _ _ (by decide) hv1
    (fun i bh h => by
      by_cases hi : i ∈ (mEnv.block 1).txs
      · simp only [hi, ↓reduceIte, Option.some.injEq] at h; rw [← h]; decide
      · simp only [hi, ↓reduceIte] at h; cases h)
    (fun i bh h => by
      by_cases hi : i ∈ (mEnv.block 1).txs
      · simp only [hi, ↓reduceIte, Option.some.injEq] at h
        have : i = 1 := by simpa [mEnv, Env.block, lookup] using hi
        subst this; rw [← h]; decide
      · simp only [hi, ↓reduceIte] at h; cases h)
    hev (by decide) "k" 9 (by decide)

-- ================================================================== every block up to the tip

/-- **for every block B up to the current tip**: on the replay of the chain `l1 ++ l2` (block ids, oldest first; any
split, i.e. any B = last block of `l1`, and any height `hB` from B's up to below the next block's) from a base state
without keys, with ANY sequence of submissions on top, the snapshot at `hB` — the ledger's height table being `confOf`
of the chain — reads every key as the replay of `l1` alone does. The only hypothesis on the history: its
transactions, in order, each cite the current version of what they read and read what they write (`RunV`, the key
half of admission; implied by C01 `ChainValid`). Nothing is assumed about repeated or pending transactions: a writer of a
key sits only once in such a history (`writer_once`). -/
theorem snapshot_every_block (e : Env) (hids : EnvIds e) (g : St) (l1 l2 : List Nat) (hB : Nat) (S : St)
    (hg : ∀ key, curVer g key = none) (hgp : g.pool = [])
    (hvalid : RunV e (chainTxs e (l1 ++ l2)) (curVer g))
    (hlow : ∀ b ∈ l1, (e.block b).height ≤ hB) (hhigh : ∀ b ∈ l2, hB < (e.block b).height)
    (hpend : Pends e (replayChain e (l1 ++ l2) g) S)
    (key : String) (fuel : Nat) (hfuel : nWrites e (chainTxs e l2 ++ S.pool) key + 1 ≤ fuel) :
    snapshotGet e S (confOf e (l1 ++ l2)) hB key fuel = curVer (replayChain e l1 g) key := by
  obtain ⟨l, p1, p2, p3⟩ := hpend.run
  rw [XV.C01.replayChain_pool, hgp, List.nil_append] at p1
  rw [p1] at hfuel
  exact snapshot_chain_confOf e hids g l1 l2 hB l S key hg hvalid hlow hhigh p1 p2 p3 fuel hfuel

-- non-vacuity: the history above, split after block 2 — and the theorem gives the computed answer
example : snapshotGet hEnv hNode' (confOf hEnv ([1, 2] ++ [3, 4])) 2 "k" 4 = curVer (replayChain hEnv [1, 2] {}) "k" :=
  snapshot_every_block hEnv (by decide) {} [1, 2] [3, 4] 2 hNode' (fun _ => rfl) rfl (by decide) (by decide) (by decide)
    (pends_foldl hEnv 0 [7, 8, 9] _) "k" 4 (by decide)
example : curVer (replayChain hEnv [1, 2] {}) "k" = some (4, 0) ∧ hNode'.pool = [7, 8] := by decide

/-- **… with the height table the ledger keeps.** `ledgerConfH l` = the confirmed table of the ledger model of C04
(transaction → the `Blockid` stored with it) composed with block → height — what `xModSnapshot.Get` consults. If the
ledger satisfies C04's invariant (`LedgerInv`, kept by every `ConfirmBlock`: `confirm_inv`) and stores the blocks of
the chain as main-chain blocks with the same transactions and heights (`LedgerMatches`), the snapshot at any block
of the chain is the live read of then — whatever side branches the ledger holds, and whichever of them confirmed the
same transactions before. -/
theorem snapshot_every_block_ledger (e : Env) (hids : EnvIds e) (g : St) (l1 l2 : List Nat) (hB : Nat) (S : St)
    (l : XV.Ledger.L) (I : XV.Ledger.LedgerInv l) (hm : LedgerMatches l e (l1 ++ l2))
    (hg : ∀ key, curVer g key = none) (hgp : g.pool = [])
    (hvalid : RunV e (chainTxs e (l1 ++ l2)) (curVer g))
    (hlow : ∀ b ∈ l1, (e.block b).height ≤ hB) (hhigh : ∀ b ∈ l2, hB < (e.block b).height)
    (hpend : Pends e (replayChain e (l1 ++ l2) g) S)
    (key : String) (fuel : Nat) (hfuel : nWrites e (chainTxs e l2 ++ S.pool) key + 1 ≤ fuel) :
    snapshotGet e S (ledgerConfH l) hB key fuel = curVer (replayChain e l1 g) key := by
  obtain ⟨pl, p1, p2, p3⟩ := hpend.run
  rw [XV.C01.replayChain_pool, hgp, List.nil_append] at p1
  rw [p1] at hfuel
  exact snapshot_chain_core e hids g l1 l2 _ hB pl S hg hvalid (ledgerConfH_main l e _ I hm) hlow hhigh p1 p2 p3
    key fuel hfuel

/-- **every node in canonical form has the snapshot property at every block of its chain.** If the state shows, key
by key, the replay of its chain `l1 ++ l2` from a base state without keys with its pool applied in order, chain and pool
being runs of admitted transactions, then the snapshot at any split of the chain reads every key as the replay of `l1`
does. This is the form C01 maintains (`walk_invariant`, `doTx_keeps_pool_form`, `play_invariant`); any further operation
shown to keep it (`play` on a non-empty pool, `playForMiner`) inherits the snapshot property from here. -/
theorem snapshot_canonical_form (e : Env) (hids : EnvIds e) (g : St) (l1 l2 : List Nat) (hB : Nat) (s : St)
    (hg : ∀ key, curVer g key = none)
    (hvalid : RunV e (chainTxs e (l1 ++ l2)) (curVer g))
    (hlow : ∀ b ∈ l1, (e.block b).height ≤ hB) (hhigh : ∀ b ∈ l2, hB < (e.block b).height)
    (hprun : RunV e s.pool (curVer (replayChain e (l1 ++ l2) g)))
    (hs : ∀ key, curVer s key = curVer (applyPool e s.pool (replayChain e (l1 ++ l2) g)) key)
    (key : String) (fuel : Nat) (hfuel : nWrites e (chainTxs e l2 ++ s.pool) key + 1 ≤ fuel) :
    snapshotGet e s (confOf e (l1 ++ l2)) hB key fuel = curVer (replayChain e l1 g) key :=
  snapshot_chain_confOf e hids g l1 l2 hB s.pool s key hg hvalid hlow hhigh rfl hprun
    (funext fun k => by rw [hs k, applyPool_view]) fuel hfuel

example : snapshotGet hEnv hNode' (confOf hEnv ([1, 2, 3] ++ [4])) 3 "k" 3 = curVer (replayChain hEnv [1, 2, 3] {}) "k" :=
  snapshot_canonical_form hEnv (by decide) {} [1, 2, 3] [4] 3 hNode' (fun _ => rfl) (by decide) (by decide) (by decide)
    (by decide)
    (fun key => curVer_congr_tables _ _ key
      (by rw [show hNode'.ZU = (applyPool hEnv hNode'.pool (replayChain hEnv ([1, 2, 3] ++ [4]) {})).ZU by decide])
      (by rw [show hNode'.ZD = (applyPool hEnv hNode'.pool (replayChain hEnv ([1, 2, 3] ++ [4]) {})).ZD by decide]))
    "k" 3 (by decide)

-- ================================================================== reorganisations

/-- **after a reorganisation the snapshot at any block of the new main chain — in particular at the common ancestor of
the two branches — still equals the live read at that block.** Hypotheses of C01 `walk_canonical` (block tree with
parent links strictly down in height; base state `g` well-formed, without keys; the old tip's chain and
the old pool valid; the node in canonical form), the destination chain valid and without repeated transactions,
`B` any block on it; the height table is `confOf` of the destination chain (the new main chain). Nothing is assumed
about the transactions the walk re-submits. The walk may undo and apply any number of blocks, prune or not.
Applies to the result of a previous walk as well (walk to another branch and back). -/
theorem snapshot_after_walk (e : Env) (hids : EnvIds e) (s : St) (lh : Int) (dest : Nat) (prune : Bool) (g : St)
    (hpl : ParentLower e) (hok : (walk e s lh dest prune).2 = true) (hinv : KVInv e g)
    (hg : ∀ key, curVer g key = none)
    (hchain : XV.C01.ChainValid e (ancestors e (e.blocks.length + 1) s.pointer).reverse g)
    (hpool : XV.C01.PoolValid e s.pool (XV.C01.canon e g s.pointer))
    (hs : TRefines s (applyPool e s.pool (XV.C01.canon e g s.pointer)))
    (hdchain : XV.C01.ChainValid e (ancestors e (e.blocks.length + 1) dest).reverse g)
    (honce : TxOnce e (ancestors e (e.blocks.length + 1) dest))
    (B : Nat) (hB : B ∈ ancestors e (e.blocks.length + 1) dest)
    (key : String) (fuel : Nat)
    (hfuel : (chainTxs e (ancestors e (e.blocks.length + 1) dest).reverse).length +
      (walk e s lh dest prune).1.pool.length + 1 ≤ fuel) :
    snapshotGet e (walk e s lh dest prune).1 (confOf e (ancestors e (e.blocks.length + 1) dest))
      (e.block B).height key fuel = curVer (XV.C01.canon e g B) key :=
  snapshot_walk_core e hids s lh dest prune g hpl hok hinv hg hchain hpool hs hdchain honce B hB key fuel hfuel

/-- **… with the height table the ledger keeps**: `ledgerConfH l` for a ledger that satisfies C04's invariant and stores
the destination chain as its main chain (`LedgerMatches`) — no assumption on repeated transactions, C04 `c_trunk`
says what is needed -/
theorem snapshot_after_walk_ledger (e : Env) (hids : EnvIds e) (s : St) (lh : Int) (dest : Nat) (prune : Bool) (g : St)
    (l : XV.Ledger.L) (I : XV.Ledger.LedgerInv l)
    (hm : LedgerMatches l e (ancestors e (e.blocks.length + 1) dest))
    (hpl : ParentLower e) (hok : (walk e s lh dest prune).2 = true) (hinv : KVInv e g)
    (hg : ∀ key, curVer g key = none)
    (hchain : XV.C01.ChainValid e (ancestors e (e.blocks.length + 1) s.pointer).reverse g)
    (hpool : XV.C01.PoolValid e s.pool (XV.C01.canon e g s.pointer))
    (hs : TRefines s (applyPool e s.pool (XV.C01.canon e g s.pointer)))
    (hdchain : XV.C01.ChainValid e (ancestors e (e.blocks.length + 1) dest).reverse g)
    (B : Nat) (hB : B ∈ ancestors e (e.blocks.length + 1) dest)
    (key : String) (fuel : Nat)
    (hfuel : (chainTxs e (ancestors e (e.blocks.length + 1) dest).reverse).length +
      (walk e s lh dest prune).1.pool.length + 1 ≤ fuel) :
    snapshotGet e (walk e s lh dest prune).1 (ledgerConfH l) (e.block B).height key fuel =
      curVer (XV.C01.canon e g B) key :=
  snapshot_walk_gen e hids s lh dest prune g _ hpl hok hinv hg hchain hpool hs hdchain
    (ledgerConfH_main l e _ I hm) B hB key fuel hfuel

/-- the same without a walk: on a node in canonical form the snapshot at any block `B` of the tip's chain is the
live read of the canonical state of `B` -/
theorem snapshot_on_canonical_node (e : Env) (hids : EnvIds e) (s : St) (g : St) (hpl : ParentLower e)
    (hg : ∀ key, curVer g key = none)
    (hchain : XV.C01.ChainValid e (ancestors e (e.blocks.length + 1) s.pointer).reverse g)
    (hpool : XV.C01.PoolValid e s.pool (XV.C01.canon e g s.pointer))
    (hs : TRefines s (applyPool e s.pool (XV.C01.canon e g s.pointer)))
    (honce : TxOnce e (ancestors e (e.blocks.length + 1) s.pointer))
    (B : Nat) (hB : B ∈ ancestors e (e.blocks.length + 1) s.pointer)
    (key : String) (fuel : Nat)
    (hfuel : (chainTxs e (ancestors e (e.blocks.length + 1) s.pointer).reverse).length + s.pool.length + 1 ≤ fuel) :
    snapshotGet e s (confOf e (ancestors e (e.blocks.length + 1) s.pointer)) (e.block B).height key fuel =
      curVer (XV.C01.canon e g B) key :=
  snapshot_canonical_core e hids s g hpl hg hchain hpool hs honce B hB key fuel hfuel

/-- **a snapshot at a common ancestor does not change across a reorganisation**: for `B` on the chain of the old tip
and of the destination, the snapshot at `B` before the walk (height table of the old main chain) and after it
(height table of the new one) are the same — the live read of the canonical state of `B` -/
theorem snapshot_common_ancestor_stable (e : Env) (hids : EnvIds e) (s : St) (lh : Int) (dest : Nat) (prune : Bool)
    (g : St) (hpl : ParentLower e) (hok : (walk e s lh dest prune).2 = true) (hinv : KVInv e g)
    (hg : ∀ key, curVer g key = none)
    (hchain : XV.C01.ChainValid e (ancestors e (e.blocks.length + 1) s.pointer).reverse g)
    (hpool : XV.C01.PoolValid e s.pool (XV.C01.canon e g s.pointer))
    (hs : TRefines s (applyPool e s.pool (XV.C01.canon e g s.pointer)))
    (hdchain : XV.C01.ChainValid e (ancestors e (e.blocks.length + 1) dest).reverse g)
    (honce : TxOnce e (ancestors e (e.blocks.length + 1) s.pointer))
    (honce' : TxOnce e (ancestors e (e.blocks.length + 1) dest))
    (B : Nat) (hB : B ∈ ancestors e (e.blocks.length + 1) s.pointer)
    (hB' : B ∈ ancestors e (e.blocks.length + 1) dest)
    (key : String) (fuel : Nat)
    (hfuel : (chainTxs e (ancestors e (e.blocks.length + 1) s.pointer).reverse).length + s.pool.length + 1 ≤ fuel)
    (hfuel' : (chainTxs e (ancestors e (e.blocks.length + 1) dest).reverse).length +
      (walk e s lh dest prune).1.pool.length + 1 ≤ fuel) :
    snapshotGet e (walk e s lh dest prune).1 (confOf e (ancestors e (e.blocks.length + 1) dest))
        (e.block B).height key fuel =
      snapshotGet e s (confOf e (ancestors e (e.blocks.length + 1) s.pointer)) (e.block B).height key fuel := by
  rw [snapshot_after_walk e hids s lh dest prune g hpl hok hinv hg hchain hpool hs hdchain honce' B hB' key fuel hfuel',
    snapshot_on_canonical_node e hids s g hpl hg hchain hpool hs honce B hB key fuel hfuel]

-- non-vacuity: blocks 1 ← 2 ← 3 (branch A: "k" created, overwritten, deleted) and 1 ← 4 ← 5 ← 6 (branch B: "k" deleted,
-- re-created, overwritten); the node is at block 3 with transactions 40 (re-creates "k") and 41 (creates "j") pending,
-- walks to block 6 (40 cannot be re-submitted, 41 is), and back to block 3
private def rEnv : Env := {
  txs := [
    (10, ⟨10, false, [], [], [⟨"k", none⟩], [⟨"k", "a", false⟩]⟩),
    (20, ⟨20, false, [], [], [⟨"k", some (10, 0)⟩], [⟨"k", "b", false⟩]⟩),
    (21, ⟨21, false, [], [], [⟨"k", some (20, 0)⟩], [⟨"k", "", true⟩]⟩),
    (30, ⟨30, false, [], [], [⟨"k", some (10, 0)⟩], [⟨"k", "", true⟩]⟩),
    (31, ⟨31, false, [], [], [⟨"k", some (30, 0)⟩], [⟨"k", "c", false⟩]⟩),
    (32, ⟨32, false, [], [], [⟨"k", some (31, 0)⟩], [⟨"k", "d", false⟩]⟩),
    (40, ⟨40, false, [], [], [⟨"k", some (21, 0)⟩], [⟨"k", "e", false⟩]⟩),
    (41, ⟨41, false, [], [], [⟨"j", none⟩], [⟨"j", "x", false⟩]⟩)],
  blocks := [(1, ⟨1, none, 0, [10], "m"⟩), (2, ⟨2, some 1, 1, [20], "m"⟩), (3, ⟨3, some 2, 2, [21], "m"⟩),
             (4, ⟨4, some 1, 1, [30], "m"⟩), (5, ⟨5, some 4, 2, [31], "m"⟩), (6, ⟨6, some 5, 3, [32], "m"⟩)] }
private def rNode : St := { applyPool rEnv [40, 41] (XV.C01.canon rEnv {} 3) with pool := [40, 41] }
private def rThere : St := (walk rEnv rNode 0 6 false).1
private def rBack : St := (walk rEnv rThere 0 3 false).1

example : rNode.pointer = 3 ∧ curVer rNode "k" = some (40, 0) ∧ (walk rEnv rNode 0 6 false).2 = true ∧
    rThere.pointer = 6 ∧ rThere.pool = [41] ∧ curVer rThere "k" = some (32, 0) ∧ curVer rThere "j" = some (41, 0) ∧
    (walk rEnv rThere 0 3 false).2 = true ∧ rBack.pointer = 3 ∧ rBack.pool = [41] ∧
    curVer rBack "k" = some (21, 0) := by decide
-- computed: after the walk the snapshots along the new main chain 1 ← 4 ← 5 ← 6 are the live reads of then (block 4
-- holds the delete marker), the pending "j" is never seen; after walking back, those along 1 ← 2 ← 3
example : ∀ p ∈ [(1, some (10, 0)), (4, some (30, 0)), (5, some (31, 0)), (6, some (32, 0))],
    snapshotGet rEnv rThere (confOf rEnv (ancestors rEnv 7 6)) (rEnv.block p.1).height "k" 9 = p.2 ∧
    curVer (XV.C01.canon rEnv {} p.1) "k" = p.2 ∧
    snapshotGet rEnv rThere (confOf rEnv (ancestors rEnv 7 6)) (rEnv.block p.1).height "j" 9 = none := by decide
example : ∀ p ∈ [(1, some (10, 0)), (2, some (20, 0)), (3, some (21, 0))],
    snapshotGet rEnv rBack (confOf rEnv (ancestors rEnv 7 3)) (rEnv.block p.1).height "k" 9 = p.2 ∧
    curVer (XV.C01.canon rEnv {} p.1) "k" = p.2 := by decide
-- and the hypotheses of `snapshot_after_walk` / `snapshot_common_ancestor_stable` hold for B = block 1, the common ancestor
private theorem rPL : ParentLower rEnv := parentLower_of_blocks _ (by decide)
private theorem rHs : TRefines rNode (applyPool rEnv rNode.pool (XV.C01.canon rEnv {} rNode.pointer)) :=
  (TRefines.refl _).of_tables ⟨rfl, rfl, rfl, rfl⟩ ⟨rfl, rfl, rfl, rfl⟩
example : snapshotGet rEnv rThere (confOf rEnv (ancestors rEnv 7 6)) 0 "k" 9 = curVer (XV.C01.canon rEnv {} 1) "k" :=
  snapshot_after_walk rEnv (by decide) rNode 0 6 false {} rPL (by decide) (KVInv_empty rEnv {} rfl rfl)
    (fun _ => rfl) (chainValid_of_ok _ _ _ (by decide)) (poolValid_of_ok _ _ _ (by decide)) rHs
    (chainValid_of_ok _ _ _ (by decide)) (by decide) 1 (by decide) "k" 9 (by decide)
example : snapshotGet rEnv rNode (confOf rEnv (ancestors rEnv 7 3)) 1 "k" 9 = curVer (XV.C01.canon rEnv {} 2) "k" :=
  snapshot_on_canonical_node rEnv (by decide) rNode {} rPL (fun _ => rfl) (chainValid_of_ok _ _ _ (by decide))
    (poolValid_of_ok _ _ _ (by decide)) rHs (by decide) 2 (by decide) "k" 9 (by decide)
example : snapshotGet rEnv rThere (confOf rEnv (ancestors rEnv 7 6)) 0 "k" 9 =
    snapshotGet rEnv rNode (confOf rEnv (ancestors rEnv 7 3)) 0 "k" 9 :=
  snapshot_common_ancestor_stable rEnv (by decide) rNode 0 6 false {} rPL (by decide) (KVInv_empty rEnv {} rfl rfl)
    (fun _ => rfl) (chainValid_of_ok _ _ _ (by decide)) (poolValid_of_ok _ _ _ (by decide)) rHs
    (chainValid_of_ok _ _ _ (by decide)) (by decide) (by decide) 1 (by decide) (by decide)
    "k" 9 (by decide) (by decide)

-- the same tree in the ledger model of C04: branch A confirmed first (trunk 1 ← 2 ← 3), then branch B, which takes over
-- at block 6 (trunk switch); the ledger's table after the switch serves the snapshot at the common ancestor
private def rLedger : XV.Ledger.L :=
  (XV.Ledger.confirm (XV.Ledger.confirm (XV.Ledger.confirm (XV.Ledger.confirm (XV.Ledger.confirm
    (XV.Ledger.genesis 1 [10]) 2 1 [(20, false)]).1 3 2 [(21, false)]).1 4 1 [(30, false)]).1 5 4 [(31, false)]).1 6 5
    [(32, false)]).1
private theorem rLedgerInv : XV.Ledger.LedgerInv rLedger :=
  XV.C04.confirm_inv _ 6 5 [(32, false)] (XV.C04.confirm_inv _ 5 4 [(31, false)] (XV.C04.confirm_inv _ 4 1 [(30, false)]
    (XV.C04.confirm_inv _ 3 2 [(21, false)] (XV.C04.confirm_inv _ 2 1 [(20, false)] (XV.C04.genesis_inv 1 [10])
      (by decide) (by decide)) (by decide) (by decide)) (by decide) (by decide)) (by decide) (by decide))
    (by decide) (by decide)
example : rLedger.tip = 6 ∧ ledgerConfH rLedger 10 = some 0 ∧ ledgerConfH rLedger 30 = some 1 ∧
    ledgerConfH rLedger 20 = some 1 ∧ ledgerConfH rLedger 32 = some 3 := by decide
example : snapshotGet rEnv rThere (ledgerConfH rLedger) 0 "k" 9 = curVer (XV.C01.canon rEnv {} 1) "k" :=
  snapshot_after_walk_ledger rEnv (by decide) rNode 0 6 false {} rLedger rLedgerInv (by unfold LedgerMatches; decide)
    rPL (by decide) (KVInv_empty rEnv {} rfl rfl) (fun _ => rfl) (chainValid_of_ok _ _ _ (by decide))
    (poolValid_of_ok _ _ _ (by decide)) rHs (chainValid_of_ok _ _ _ (by decide)) 1 (by decide) "k" 9 (by decide)

-- ================================================================== what is NOT true: a height table of another branch

/-- the chain theorem (`snapshot_every_block`, no pending transactions) with the height table only required to give
every transaction of the chain the height of SOME block of the block tree that contains it — not necessarily the
block on the chain the snapshot is taken on -/
def snapshot_any_branch_statement : Prop :=
  ∀ (e : Env) (g : St) (l1 l2 : List Nat) (confH : Nat → Option Nat) (hB : Nat) (key : String) (fuel : Nat),
    EnvIds e → g.ZU = [] → g.ZD = [] → g.pool = [] →
    RunV e (chainTxs e (l1 ++ l2)) (curVer g) → TxOnce e (l1 ++ l2) →
    (∀ b ∈ l1, (e.block b).height ≤ hB) → (∀ b ∈ l2, hB < (e.block b).height) →
    (∀ i ∈ chainTxs e (l1 ++ l2), ∃ p ∈ e.blocks, i ∈ p.2.txs ∧ confH i = some p.2.height) →
    nWrites e (chainTxs e l2) key + 1 ≤ fuel →
    snapshotGet e (replayChain e (l1 ++ l2) g) confH hB key fuel = curVer (replayChain e l1 g) key

-- the witness: transaction 1 (creates "k") sits in block 2 (branch A: 0 ← 2, height 1) AND in block 4 (branch B:
-- 0 ← 3 ← 4, height 2; block 3 is empty). The node is on branch B. If the ledger answered "transaction 1 → height 1"
-- (the block of the other branch), the snapshot at block 3 (height 1) would return version (1,0), although "k" did
-- not exist when block 3 was the tip. In the ledger model of C04 this cannot happen: `c_trunk` (a transaction of a
-- main-chain block is mapped to that block; `correctTxsBlockid` on a trunk switch, no overwrite by a side-branch
-- confirmation) — see `snapshot_every_block_ledger` and the example below it on exactly this tree.
-- TO REPLAY ON THE IMPLEMENTATION: confirm the same key-writing transaction in two sibling branches at different
-- heights, in both orders (the lower one first as trunk, then the higher branch takes over; and the higher branch
-- first, the lower one arriving later as a side branch), then read the key through `CreateSnapshot(B).Get` at the
-- main-chain block between the two heights: `xModSnapshot.Get` must see the transaction at the main-chain height.
private def bEnv : Env := {
  txs := [(1, ⟨1, false, [], [], [⟨"k", none⟩], [⟨"k", "a", false⟩]⟩)],
  blocks := [(0, ⟨0, none, 0, [], "m"⟩), (2, ⟨2, some 0, 1, [1], "m"⟩), (3, ⟨3, some 0, 1, [], "m"⟩),
             (4, ⟨4, some 3, 2, [1], "m"⟩)] }

/-- **the statement is false**: a height table that reports the block of another branch makes a snapshot expose a write
that did not exist at the snapshot block -/
theorem snapshot_any_branch_counterexample : ¬ snapshot_any_branch_statement := by
  intro h
  have := h bEnv {} [0, 3] [4] (fun i => if i = 1 then some 1 else none) 1 "k" 2 (by decide) rfl rfl rfl
    (by decide) (by decide) (by decide) (by decide) (by decide) (by decide)
  revert this
  decide

example : snapshotGet bEnv (replayChain bEnv [0, 3, 4] {}) (fun i => if i = 1 then some 1 else none) 1 "k" 2 = some (1, 0) ∧
    curVer (replayChain bEnv [0, 3] {}) "k" = none ∧
    snapshotGet bEnv (replayChain bEnv [0, 3, 4] {}) (confOf bEnv [0, 3, 4]) 1 "k" 2 = none := by decide

-- the same tree in the ledger model of C04, both arrival orders: block 2 first (trunk), then 3 and 4 (trunk switch,
-- `correctTxsBlockid`) — and 3, 4 first, block 2 arriving as a side branch. Either way the confirmed table maps
-- transaction 1 to block 4 and the snapshot at height 1 does not see "k"
private def bLedgerA : XV.Ledger.L :=
  (XV.Ledger.confirm (XV.Ledger.confirm (XV.Ledger.confirm (XV.Ledger.genesis 0 []) 2 0 [(1, false)]).1 3 0 []).1 4 3
    [(1, false)]).1
private def bLedgerB : XV.Ledger.L :=
  (XV.Ledger.confirm (XV.Ledger.confirm (XV.Ledger.confirm (XV.Ledger.genesis 0 []) 3 0 []).1 4 3 [(1, false)]).1 2 0
    [(1, false)]).1
private theorem bInvA : XV.Ledger.LedgerInv bLedgerA :=
  XV.C04.confirm_inv _ 4 3 [(1, false)]
    (XV.C04.confirm_inv _ 3 0 [] (XV.C04.confirm_inv _ 2 0 [(1, false)] (XV.C04.genesis_inv 0 []) (by decide) (by decide))
      (by decide) (by decide)) (by decide) (by decide)
private theorem bInvB : XV.Ledger.LedgerInv bLedgerB :=
  XV.C04.confirm_inv _ 2 0 [(1, false)]
    (XV.C04.confirm_inv _ 4 3 [(1, false)] (XV.C04.confirm_inv _ 3 0 [] (XV.C04.genesis_inv 0 []) (by decide) (by decide))
      (by decide) (by decide)) (by decide) (by decide)
example : bLedgerA.tip = 4 ∧ bLedgerB.tip = 4 ∧ ledgerConfH bLedgerA 1 = some 2 ∧ ledgerConfH bLedgerB 1 = some 2 ∧
    lookup bLedgerA.C 1 = some 4 ∧ lookup bLedgerB.C 1 = some 4 := by decide
example : snapshotGet bEnv (replayChain bEnv ([0, 3] ++ [4]) {}) (ledgerConfH bLedgerA) 1 "k" 2 =
    curVer (replayChain bEnv [0, 3] {}) "k" :=
  snapshot_every_block_ledger bEnv (by decide) {} [0, 3] [4] 1 _ bLedgerA bInvA (by unfold LedgerMatches; decide)
    (fun _ => rfl) rfl (by decide) (by decide) (by decide) (Pends.refl _) "k" 2 (by decide)
example : snapshotGet bEnv (replayChain bEnv ([0, 3] ++ [4]) {}) (ledgerConfH bLedgerB) 1 "k" 2 =
    curVer (replayChain bEnv [0, 3] {}) "k" :=
  snapshot_every_block_ledger bEnv (by decide) {} [0, 3] [4] 1 _ bLedgerB bInvB (by unfold LedgerMatches; decide)
    (fun _ => rfl) rfl (by decide) (by decide) (by decide) (Pends.refl _) "k" 2 (by decide)

/-- the strongest true version: the missing hypothesis is `hmain` — the height table reports, for every transaction
of the chain, the height of its block ON THAT CHAIN (the main chain); C04 `c_trunk` provides it for the ledger's own
table (`ledgerConfH_main`) -/
theorem snapshot_any_branch_partial (e : Env) (g : St) (l1 l2 : List Nat) (confH : Nat → Option Nat) (hB : Nat)
    (key : String) (fuel : Nat)
    (hids : EnvIds e) (h1 : g.ZU = []) (h2 : g.ZD = []) (_h3 : g.pool = [])
    (hrun : RunV e (chainTxs e (l1 ++ l2)) (curVer g)) (_honce : TxOnce e (l1 ++ l2))
    (hlow : ∀ b ∈ l1, (e.block b).height ≤ hB) (hhigh : ∀ b ∈ l2, hB < (e.block b).height)
    (_hsome : ∀ i ∈ chainTxs e (l1 ++ l2), ∃ p ∈ e.blocks, i ∈ p.2.txs ∧ confH i = some p.2.height)
    (hmain : ∀ b ∈ l1 ++ l2, ∀ i ∈ (e.block b).txs, confH i = some (e.block b).height)
    (hfuel : nWrites e (chainTxs e l2) key + 1 ≤ fuel) :
    snapshotGet e (replayChain e (l1 ++ l2) g) confH hB key fuel = curVer (replayChain e l1 g) key := by
  have hg : ∀ k, curVer g k = none := fun k => by unfold curVer; rw [h1, h2]; rfl
  have hp : (replayChain e (l1 ++ l2) g).pool = [] := by rw [XV.C01.replayChain_pool, _h3]
  exact snapshot_chain_core e hids g l1 l2 confH hB [] _ hg hrun hmain hlow hhigh hp trivial rfl
    key fuel (by simpa using hfuel)

example : snapshotGet bEnv (replayChain bEnv ([0, 3] ++ [4]) {}) (confOf bEnv [0, 3, 4]) 1 "k" 2 =
    curVer (replayChain bEnv [0, 3] {}) "k" :=
  snapshot_any_branch_partial bEnv {} [0, 3] [4] (confOf bEnv [0, 3, 4]) 1 "k" 2 (by decide) rfl rfl rfl (by decide)
    (by decide) (by decide) (by decide) (by decide) (by decide) (by decide)

end XV.C18
