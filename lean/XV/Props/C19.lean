import XV.Model.GovToken
import XV.Lemmas.GovToken
import XV.Lemmas.GovStake
/-!
# C19 — governance tokens are conserved; locks bind and only lock/unlock changes them

All theorems are about `XV.GovToken` (the model of the REPAIRED `$govern_token` contract together with the
`$proposal` / `$timer_task` contracts and the `$tdpos` election contract that lock and release tokens) and quantify
over every genesis predistribution `pre` (duplicates allowed), every world state or every history `cs : List Call` of
Init / Transfer / Lock / UnLock (by any caller) / Propose / Vote / Thaw / timer callbacks / new blocks /
nominateCandidate / revokeNominate / voteCandidate / revokeVote (any initiator, candidate, co-signature, named block
height), and all `Int` amounts.
-/
namespace XV.C19
open XV.GovToken

/-- the world a chain starts with: empty buckets, contract built with predistribution `pre` -/
def genesis (pre : List (Acct × Int)) : World := { pre := pre }

/-! ## conservation -/

/-- After ANY history, once initialised, the recorded total supply equals the sum of all balances. -/
theorem supply_conserved (pre : List (Acct × Int)) (cs : List Call) :
    (run (genesis pre) cs).gov.distributed = true →
      (run (genesis pre) cs).gov.supply = some (sumTot (run (genesis pre) cs).gov.bal) :=
  (run_good cs (genesis pre) (good_new pre)).2.sum

/-- … and that total supply is the one fixed at initialisation: the sum of the genesis quotas.
No history changes it, so the sum of all balances is that constant. -/
theorem supply_fixed_at_init (pre : List (Acct × Int)) (cs : List Call) :
    (run (genesis pre) cs).gov.distributed = true →
      (run (genesis pre) cs).gov.supply = some (quotaSum pre) ∧
        sumTot (run (genesis pre) cs).gov.bal = quotaSum pre := by
  intro hd
  have hg := (run_good cs (genesis pre) (good_new pre)).2
  have h1 := hg.sum hd
  have h2 := hg.genesis hd
  refine ⟨h2, ?_⟩
  rw [h1] at h2
  exact Option.some.inj h2

/-- Before initialisation nobody holds tokens (so nothing can be transferred or locked). -/
theorem no_balance_before_init (pre : List (Acct × Int)) (cs : List Call) :
    (run (genesis pre) cs).gov.distributed = false → (run (genesis pre) cs).gov.bal = [] :=
  (run_good cs (genesis pre) (good_new pre)).2.empty

/-- A successful transfer moves exactly `n` from sender to receiver (nothing if they coincide), touches no
other balance and no locked amount of anyone — in every state, reachable or not. -/
theorem transfer_moves_exactly {g g' : Gov} {s t : Acct} {n : Int} (h : transfer g s t n = some g') :
    (∀ x, totalOf g' x = totalOf g x + (if x = t then n else 0) - (if x = s then n else 0)) ∧
      (∀ x τ, lockedOf g' x τ = lockedOf g x τ) ∧ sumTot g'.bal = sumTot g.bal ∧ g'.supply = g.supply := by
  refine ⟨transfer_totalOf h, transfer_lockedOf h, ?_, ?_⟩
  · obtain ⟨sb, hs, _, _, _, rfl⟩ := transfer_some h
    exact xferBal_sum hs
  · obtain ⟨sb, hs, _, _, _, rfl⟩ := transfer_some h
    rfl

/-- A transfer to oneself is balance-neutral. -/
theorem self_transfer_neutral {g g' : Gov} {a : Acct} {n : Int} (h : transfer g a a n = some g') :
    ∀ x, totalOf g' x = totalOf g x ∧ ∀ τ, lockedOf g' x τ = lockedOf g x τ := by
  intro x
  refine ⟨?_, fun τ => transfer_lockedOf h x τ⟩
  rw [transfer_totalOf h x]
  split <;> omega

/-! ## locked amounts change only through lock / unlock on that account -/

/-- The calls that may change `locked a τ`: a Lock/UnLock naming `a` and `τ` coming from a permitted contract;
the proposal contract locking/unlocking the initiator's own ordinary tokens (Propose, Vote, Thaw by `a`); the
timer callbacks releasing ordinary tokens of an account that has a recorded proposal lock; the election contract
locking/unlocking the INITIATOR's own tdpos tokens (nominate, revokeNominate, vote, revokeVote by `a` — never the
candidate's).  Init, Transfer (to, from or between anybody) and new blocks never do. -/
def mayTouchLock (w : World) : Call → Acct → LockType → Prop
  | .init, _, _ => False
  | .transfer _ _ _, _, _ => False
  | .lock c a _ τ, x, σ => c.mayLock = true ∧ x = a ∧ τ = some σ
  | .unlock c a _ τ, x, σ => c.mayLock = true ∧ x = a ∧ τ = some σ
  | .propose a _ _ _ _, x, σ => x = a ∧ σ = .ordinary
  | .vote a _ _, x, σ => x = a ∧ σ = .ordinary
  | .thaw a _, x, σ => x = a ∧ σ = .ordinary
  | .timer _, x, σ => σ = .ordinary ∧ lockScanCovers x = true ∧ ∃ pid amt, ((pid, x), amt) ∈ w.locks
  | .checkVote c _, x, σ =>
    c = .timer ∧ σ = .ordinary ∧ lockScanCovers x = true ∧ ∃ pid amt, ((pid, x), amt) ∈ w.locks
  | .trigger c _, x, σ =>
    c = .timer ∧ σ = .ordinary ∧ lockScanCovers x = true ∧ ∃ pid amt, ((pid, x), amt) ∈ w.locks
  | .newBlock, _, _ => False
  | .nominate i _ _ _ _, x, σ => x = i ∧ σ = .tdpos
  | .revokeNominate i _ _, x, σ => x = i ∧ σ = .tdpos
  | .tdVote i _ _ _, x, σ => x = i ∧ σ = .tdpos
  | .tdRevokeVote i _ _ _, x, σ => x = i ∧ σ = .tdpos

/-- In EVERY state, for every call: if the locked amount of `(a, τ)` differs afterwards, the call was a
lock/unlock operation on `a` for `τ` (directly, or issued by the proposal contract on behalf of `a`). -/
theorem locks_only_by_lock_unlock (w : World) (c : Call) (a : Acct) (τ : LockType) :
    lockedOf (step w c).gov a τ ≠ lockedOf w.gov a τ → mayTouchLock w c a τ := by
  intro hne
  unfold step at hne
  cases hs : step? w c with
  | none => rw [hs] at hne; exact absurd rfl hne
  | some w' =>
    rw [hs, Option.getD_some] at hne
    cases c with
    | init =>
      simp only [step?, Option.map_eq_some_iff] at hs
      obtain ⟨g, hi, rfl⟩ := hs
      exact absurd (init_lockedOf hi a τ) hne
    | transfer s t n =>
      simp only [step?, Option.map_eq_some_iff] at hs
      obtain ⟨g, hi, rfl⟩ := hs
      exact absurd (transfer_lockedOf hi a τ) hne
    | lock c x n ty =>
      simp only [step?, Option.map_eq_some_iff] at hs
      obtain ⟨g, hi, rfl⟩ := hs
      have := lock_lockedOf hi a τ
      obtain ⟨_, _, _, hc, _⟩ := lock_some hi
      by_cases hx : a = x ∧ ty = some τ
      · exact ⟨hc, hx.1, hx.2⟩
      · rw [if_neg hx] at this; exact absurd this hne
    | unlock c x n ty =>
      simp only [step?, Option.map_eq_some_iff] at hs
      obtain ⟨g, hi, rfl⟩ := hs
      have := unlock_lockedOf hi a τ
      obtain ⟨_, _, _, hc, _⟩ := unlock_some hi
      by_cases hx : a = x ∧ ty = some τ
      · exact ⟨hc, hx.1, hx.2⟩
      · rw [if_neg hx] at this; exact absurd this hne
    | propose x pct stop trig ok =>
      simp only [step?, Option.map_eq_some_iff] at hs
      obtain ⟨⟨w1, pid⟩, hi, rfl⟩ := hs
      obtain ⟨g, hl, hgov, _⟩ := propose_some hi
      have := lock_lockedOf hl a τ
      simp only at hne
      rw [hgov] at hne
      by_cases hx : a = x ∧ some LockType.ordinary = some τ
      · exact ⟨hx.1, (Option.some.inj hx.2).symm⟩
      · rw [if_neg hx] at this; exact absurd this hne
    | vote x pid n =>
      simp only [step?] at hs
      obtain ⟨g, hl, hgov, _⟩ := vote_some hs
      have := lock_lockedOf hl a τ
      rw [hgov] at hne
      by_cases hx : a = x ∧ some LockType.ordinary = some τ
      · exact ⟨hx.1, (Option.some.inj hx.2).symm⟩
      · rw [if_neg hx] at this; exact absurd this hne
    | thaw x pid =>
      simp only [step?] at hs
      obtain ⟨amt, g, _, hl, hgov, _⟩ := thaw_some hs
      have := unlock_lockedOf hl a τ
      rw [hgov] at hne
      by_cases hx : a = x ∧ some LockType.ordinary = some τ
      · exact ⟨hx.1, (Option.some.inj hx.2).symm⟩
      · rw [if_neg hx] at this; exact absurd this hne
    | timer hgt =>
      simp only [step?, Option.some.injEq] at hs
      subst hs
      exact (releases_timerDo w hgt).only a τ hne
    | checkVote c pid =>
      simp only [step?] at hs
      split at hs
      · rename_i hc
        simp only [Option.some.injEq] at hs
        subst hs
        exact ⟨hc, (releases_checkVote w pid).only a τ hne⟩
      · contradiction
    | trigger c pid =>
      simp only [step?] at hs
      split at hs
      · rename_i hc
        simp only [Option.some.injEq] at hs
        subst hs
        exact ⟨hc, (releases_trigger w pid).only a τ hne⟩
      · contradiction
    | newBlock =>
      simp only [step?, Option.some.injEq] at hs
      subst hs
      exact absurd rfl hne
    | nominate i cd n auth hgt =>
      simp only [step?] at hs
      obtain ⟨s, g, _, _, _, hl, _, rfl⟩ := nominate_some hs
      have := lock_lockedOf hl a τ
      by_cases hx : a = i ∧ some LockType.tdpos = some τ
      · exact ⟨hx.1, (Option.some.inj hx.2).symm⟩
      · rw [if_neg hx] at this; exact absurd this hne
    | revokeNominate i cd hgt =>
      simp only [step?] at hs
      obtain ⟨s, ballot, g, _, _, hl, rfl⟩ := revokeNominate_some hs
      have := unlock_lockedOf hl a τ
      by_cases hx : a = i ∧ some LockType.tdpos = some τ
      · exact ⟨hx.1, (Option.some.inj hx.2).symm⟩
      · rw [if_neg hx] at this; exact absurd this hne
    | tdVote i cd n hgt =>
      simp only [step?] at hs
      obtain ⟨s, g, _, _, hl, _, rfl⟩ := tdVote_some hs
      have := lock_lockedOf hl a τ
      by_cases hx : a = i ∧ some LockType.tdpos = some τ
      · exact ⟨hx.1, (Option.some.inj hx.2).symm⟩
      · rw [if_neg hx] at this; exact absurd this hne
    | tdRevokeVote i cd n hgt =>
      simp only [step?] at hs
      obtain ⟨s, g, vm, v, _, _, hl, _, _, _, rfl⟩ := tdRevokeVote_some hs
      have := unlock_lockedOf hl a τ
      by_cases hx : a = i ∧ some LockType.tdpos = some τ
      · exact ⟨hx.1, (Option.some.inj hx.2).symm⟩
      · rw [if_neg hx] at this; exact absurd this hne

/-- A successful Lock raises exactly `locked a τ` by exactly `n ≥ 0`, within the balance; nothing else moves. -/
theorem lock_exact {g g' : Gov} {c : Caller} {a : Acct} {n : Int} {τ : LockType}
    (h : lock g c a n (some τ) = some g') :
    0 ≤ n ∧ lockedOf g' a τ = lockedOf g a τ + n ∧ lockedOf g' a τ ≤ totalOf g' a ∧
      (∀ x σ, (x ≠ a ∨ σ ≠ τ) → lockedOf g' x σ = lockedOf g x σ) ∧ ∀ x, totalOf g' x = totalOf g x := by
  obtain ⟨ty, b, hty, _, hb, hn, hle, _⟩ := lock_some h
  have hl := lock_lockedOf h
  have ht := lock_totalOf h
  cases Option.some.inj hty
  refine ⟨hn, ?_, ?_, ?_, ht⟩
  · rw [hl a τ, if_pos ⟨rfl, rfl⟩]
  · rw [hl a τ, if_pos ⟨rfl, rfl⟩, ht a, lockedOf_eq, totalOf_eq, recOf_of_aget hb]; omega
  · intro x σ hx
    rw [hl x σ, if_neg]
    intro ⟨h1, h2⟩
    cases hx with
    | inl hx => exact hx h1
    | inr hx => exact hx (Option.some.inj h2).symm

/-- A successful UnLock lowers exactly `locked a τ` by exactly `n`, with `0 ≤ n ≤ locked a τ`. -/
theorem unlock_exact {g g' : Gov} {c : Caller} {a : Acct} {n : Int} {τ : LockType}
    (h : unlock g c a n (some τ) = some g') :
    0 ≤ n ∧ n ≤ lockedOf g a τ ∧ lockedOf g' a τ = lockedOf g a τ - n ∧
      (∀ x σ, (x ≠ a ∨ σ ≠ τ) → lockedOf g' x σ = lockedOf g x σ) ∧ ∀ x, totalOf g' x = totalOf g x := by
  obtain ⟨ty, b, hty, _, hb, hn, hle, _⟩ := unlock_some h
  have hl := unlock_lockedOf h
  cases Option.some.inj hty
  refine ⟨hn, ?_, ?_, ?_, unlock_totalOf h⟩
  · rw [lockedOf_eq, recOf_of_aget hb]; exact hle
  · rw [hl a τ, if_pos ⟨rfl, rfl⟩]
  · intro x σ hx
    rw [hl x σ, if_neg]
    intro ⟨h1, h2⟩
    cases hx with
    | inl hx => exact hx h1
    | inr hx => exact hx (Option.some.inj h2).symm

/-- Propose locks exactly 1000 ordinary tokens of the proposer, Vote exactly the voted amount of the voter,
Thaw releases exactly the amount recorded for the proposer; balances do not move. -/
theorem proposal_calls_lock_exactly (w : World) :
    (∀ a pct stop trig ok w' pid, propose w a pct stop trig ok = some (w', pid) →
        lockedOf w'.gov a .ordinary = lockedOf w.gov a .ordinary + 1000 ∧ ∀ x, totalOf w'.gov x = totalOf w.gov x) ∧
    (∀ a pid n w', vote w a pid n = some w' →
        lockedOf w'.gov a .ordinary = lockedOf w.gov a .ordinary + n ∧ ∀ x, totalOf w'.gov x = totalOf w.gov x) ∧
    (∀ a pid w', thaw w a pid = some w' → ∃ amt, aget w.locks (pid, a) = some amt ∧
        lockedOf w'.gov a .ordinary = lockedOf w.gov a .ordinary - amt ∧ ∀ x, totalOf w'.gov x = totalOf w.gov x) := by
  refine ⟨?_, ?_, ?_⟩
  · intro a pct stop trig ok w' pid h
    obtain ⟨g, hl, hgov, _⟩ := propose_some h
    rw [hgov]
    exact ⟨(lock_exact hl).2.1, (lock_exact hl).2.2.2.2⟩
  · intro a pid n w' h
    obtain ⟨g, hl, hgov, _⟩ := vote_some h
    rw [hgov]
    exact ⟨(lock_exact hl).2.1, (lock_exact hl).2.2.2.2⟩
  · intro a pid w' h
    obtain ⟨amt, g, hamt, hl, hgov, _⟩ := thaw_some h
    rw [hgov]
    exact ⟨amt, hamt, (unlock_exact hl).2.2.1, (unlock_exact hl).2.2.2.2⟩

/-- The election contract locks and unlocks the tokens of the transaction's INITIATOR, tdpos type, and nobody
else's — whoever the candidate is (third-party nominations included) and whatever block the call names:
nominateCandidate locks exactly the deposit, revokeNominate releases exactly the deposit the named snapshot records
for (candidate, initiator), voteCandidate locks exactly the ballots, revokeVote releases exactly the ballots
(at most what the snapshot records).  Balances do not move. -/
theorem tdpos_calls_lock_initiator (w : World) :
    (∀ i c n auth h w', nominate w i c n auth h = some w' →
        0 < n ∧ lockedOf w'.gov i .tdpos = lockedOf w.gov i .tdpos + n ∧
        (∀ x σ, (x ≠ i ∨ σ ≠ .tdpos) → lockedOf w'.gov x σ = lockedOf w.gov x σ) ∧
        ∀ x, totalOf w'.gov x = totalOf w.gov x) ∧
    (∀ i c h w', revokeNominate w i c h = some w' → ∃ s ballot, tdSnapAt w h = some s ∧
        aget s.nom c = some (i, ballot) ∧ lockedOf w'.gov i .tdpos = lockedOf w.gov i .tdpos - ballot ∧
        (∀ x σ, (x ≠ i ∨ σ ≠ .tdpos) → lockedOf w'.gov x σ = lockedOf w.gov x σ) ∧
        ∀ x, totalOf w'.gov x = totalOf w.gov x) ∧
    (∀ i c n h w', tdVote w i c n h = some w' →
        0 < n ∧ lockedOf w'.gov i .tdpos = lockedOf w.gov i .tdpos + n ∧
        (∀ x σ, (x ≠ i ∨ σ ≠ .tdpos) → lockedOf w'.gov x σ = lockedOf w.gov x σ) ∧
        ∀ x, totalOf w'.gov x = totalOf w.gov x) ∧
    (∀ i c n h w', tdRevokeVote w i c n h = some w' → ∃ s vm v, tdSnapAt w h = some s ∧
        aget s.votes c = some vm ∧ aget vm i = some v ∧ 0 < n ∧ n ≤ v ∧
        lockedOf w'.gov i .tdpos = lockedOf w.gov i .tdpos - n ∧
        (∀ x σ, (x ≠ i ∨ σ ≠ .tdpos) → lockedOf w'.gov x σ = lockedOf w.gov x σ) ∧
        ∀ x, totalOf w'.gov x = totalOf w.gov x) := by
  refine ⟨?_, ?_, ?_, ?_⟩
  · intro i c n auth h w' hh
    obtain ⟨s, g, _, hn, _, hl, _, rfl⟩ := nominate_some hh
    exact ⟨hn, (lock_exact hl).2.1, (lock_exact hl).2.2.2.1, (lock_exact hl).2.2.2.2⟩
  · intro i c h w' hh
    obtain ⟨s, ballot, g, hs, hc, hl, rfl⟩ := revokeNominate_some hh
    exact ⟨s, ballot, hs, hc, (unlock_exact hl).2.2.1, (unlock_exact hl).2.2.2.1, (unlock_exact hl).2.2.2.2⟩
  · intro i c n h w' hh
    obtain ⟨s, g, _, hn, hl, _, rfl⟩ := tdVote_some hh
    exact ⟨hn, (lock_exact hl).2.1, (lock_exact hl).2.2.2.1, (lock_exact hl).2.2.2.2⟩
  · intro i c n h w' hh
    obtain ⟨s, g, vm, v, hs, hn, hl, hvm, hv, hle, rfl⟩ := tdRevokeVote_some hh
    exact ⟨s, vm, v, hs, hvm, hv, hn, hle, (unlock_exact hl).2.2.1, (unlock_exact hl).2.2.2.1, (unlock_exact hl).2.2.2.2⟩

/-- Withdrawing a nomination made by a third party (initiator ≠ candidate) leaves every locked amount and the
balance of the CANDIDATE untouched: the deposit goes back to the nominator who locked it. -/
theorem revoke_third_party_leaves_candidate {w w' : World} {i c : Acct} {h : Int} (hic : c ≠ i)
    (hh : revokeNominate w i c h = some w') :
    (∀ σ, lockedOf w'.gov c σ = lockedOf w.gov c σ) ∧ totalOf w'.gov c = totalOf w.gov c := by
  obtain ⟨s, ballot, _, _, _, hrest, htot⟩ := (tdpos_calls_lock_initiator w).2.1 i c h w' hh
  exact ⟨fun σ => hrest c σ (Or.inl hic), htot c⟩

/-- The timer callbacks (CheckVoteResult / Trigger through `$timer_task.Do`) never move a balance, never touch a
tdpos lock and never raise a lock. -/
theorem timer_only_releases (w : World) (h : Int) (x : Acct) :
    totalOf (step w (.timer h)).gov x = totalOf w.gov x ∧
      lockedOf (step w (.timer h)).gov x .tdpos = lockedOf w.gov x .tdpos ∧
      lockedOf (step w (.timer h)).gov x .ordinary ≤ lockedOf w.gov x .ordinary := by
  have r := releases_timerDo w h
  have e : step w (.timer h) = timerDo w h := rfl
  rw [e]
  refine ⟨r.total x, ?_, r.le x .ordinary⟩
  apply Classical.byContradiction
  intro hne
  have := (r.only x .tdpos hne).1
  contradiction

/-- Histories: if no call of a history is one that may touch `locked a τ`, the locked amount at the end is the one
at the start. In particular no sequence of Init and Transfer calls (by, to and between anybody, any amounts) and of
lock/unlock/proposal calls on OTHER accounts ever changes it. -/
theorem locks_unchanged_without_lock_calls (a : Acct) (τ : LockType) (cs : List Call) :
    ∀ (w : World), (∀ c ∈ cs, ∀ w', ¬ mayTouchLock w' c a τ) →
      lockedOf (run w cs).gov a τ = lockedOf w.gov a τ := by
  induction cs with
  | nil => intro w _; rfl
  | cons c r ih =>
    intro w h
    have h1 : lockedOf (step w c).gov a τ = lockedOf w.gov a τ := by
      apply Classical.byContradiction
      intro hne
      exact h c List.mem_cons_self w (locks_only_by_lock_unlock w c a τ hne)
    have h2 := ih (step w c) (fun c' hc' => h c' (List.mem_cons_of_mem _ hc'))
    show lockedOf (run (step w c) r).gov a τ = _
    rw [h2, h1]

/-- What the model says about the release scan of `unlockGovernTokensForProposal` (observed on the real code,
corpus/C19/lowercase-account-not-released.ops): the timer callbacks never release anything of an account whose
name lies outside the scanned key range. -/
theorem release_skips_unscanned_accounts (w : World) (h : Int) (a : Acct) (τ : LockType)
    (hs : lockScanCovers a = false) : lockedOf (step w (.timer h)).gov a τ = lockedOf w.gov a τ := by
  apply Classical.byContradiction
  intro hne
  have := (locks_only_by_lock_unlock w (.timer h) a τ hne).2.1
  rw [hs] at this
  contradiction

/-! ## locks bind -/

/-- A transfer succeeds only if, for EVERY lock type, total − locked ≥ amount before; afterwards the sender's
balance is still at least every one of its locked amounts (also when sending to itself). In every state. -/
theorem locks_bind {g g' : Gov} {s t : Acct} {n : Int} (h : transfer g s t n = some g') :
    0 ≤ n ∧ (∀ τ, totalOf g s - lockedOf g s τ ≥ n) ∧ ∀ τ, totalOf g' s ≥ lockedOf g' s τ := by
  obtain ⟨sb, hs, hn, ho, ht, _⟩ := transfer_some h
  have hbefore : ∀ τ, totalOf g s - lockedOf g s τ ≥ n := by
    intro τ
    rw [totalOf_eq, lockedOf_eq, recOf_of_aget hs]
    cases τ <;> simp only [Bal.locked] <;> omega
  refine ⟨hn, hbefore, fun τ => ?_⟩
  rw [transfer_lockedOf h s τ, transfer_totalOf h s, if_pos rfl]
  have := hbefore τ
  split <;> omega

/-- In every reachable state every locked amount of every account lies between 0 and its balance
(no negative locks, no negative balances, no balance below a lock) — whatever the callers did. -/
theorem locks_within_balance (pre : List (Acct × Int)) (cs : List Call) (a : Acct) (τ : LockType) :
    0 ≤ lockedOf (run (genesis pre) cs).gov a τ ∧
      lockedOf (run (genesis pre) cs).gov a τ ≤ totalOf (run (genesis pre) cs).gov a := by
  have := (run_good cs (genesis pre) (good_new pre)).2.locks a
  rw [lockedOf_eq, totalOf_eq]
  simp only [RecOK] at this
  cases τ <;> simp only [Bal.locked] <;> omega

/-! ## stakes bind: what is staked on an open proposal, a nomination or a ballot stays locked -/

/-- the full statement: after ANY history every account has at least its open stakes locked, per lock type -/
def stakes_stay_locked_statement : Prop :=
  ∀ (pre : List (Acct × Int)) (cs : List Call) (a : Acct),
    stakeOrd (run (genesis pre) cs).props (run (genesis pre) cs).locks a ≤ lockedOf (run (genesis pre) cs).gov a .ordinary ∧
      stakeTd (run (genesis pre) cs).td a ≤ lockedOf (run (genesis pre) cs).gov a .tdpos

/-- Stakes bind, for every history in which (1) no raw UnLock arrives from `$proposal` / `$tdpos` / `$xpos` outside the
modelled methods and (2) every election call names a block whose snapshot is the committed state: the ordinary lock
of every account covers its records on the proposals that are still open (voting, or passed and not yet executed),
its tdpos lock covers its nomination deposits plus its ballots.  In particular a proposal that PASSES releases
nothing before its trigger runs, a trigger releases nothing staked elsewhere, and a withdrawal releases nothing but
the withdrawn stake. -/
theorem stakes_stay_locked_partial (pre : List (Acct × Int)) (cs : List Call)
    (hd : disciplinedRun (genesis pre) cs = true) (a : Acct) :
    stakeOrd (run (genesis pre) cs).props (run (genesis pre) cs).locks a ≤ lockedOf (run (genesis pre) cs).gov a .ordinary ∧
      stakeTd (run (genesis pre) cs).td a ≤ lockedOf (run (genesis pre) cs).gov a .tdpos :=
  ⟨(run_staked cs (staked_new pre) hd).ord a, (run_staked cs (staked_new pre) hd).td a⟩

/-- CheckVoteResult touches the token bucket only when it REJECTS the proposal: a proposal that passes keeps every
stake locked until its trigger runs. -/
theorem check_vote_releases_only_on_reject (w : World) (pid : Nat) (h : (checkVote w pid).gov ≠ w.gov) :
    ∃ p, aget w.props pid = some p ∧ p.status = .voting ∧
      aget (checkVote w pid).props pid = some { p with status := .rejected } := by
  cases hp : aget w.props pid with
  | none => exfalso; apply h; simp [checkVote, hp]
  | some p =>
    by_cases hs : p.status = .voting
    · cases hsup : w.gov.supply with
      | none => exfalso; apply h; simp [checkVote, hp, hs, hsup]
      | some sup =>
        by_cases hlt : p.votes < sup * p.pct / 100
        · refine ⟨p, rfl, hs, ?_⟩
          simp [checkVote, hp, hs, hsup, hlt, aget_aput]
        · exfalso; apply h; simp [checkVote, hp, hs, hsup, hlt]
    · exfalso; apply h; simp [checkVote, hp, hs]

/-- A release (CheckVoteResult rejecting, Trigger executing) lowers the ordinary lock of an account by at most the
records that account holds on THAT proposal: it never eats what the account has staked on another proposal. -/
theorem release_bounded_by_own_records (w : World) (pid : Nat) (hn : ∀ e ∈ w.locks, 0 ≤ e.2) (x : Acct) :
    lockedOf w.gov x .ordinary - recSum pid x w.locks ≤ lockedOf (trigger w pid).gov x .ordinary ∧
      lockedOf w.gov x .ordinary - recSum pid x w.locks ≤ lockedOf (checkVote w pid).gov x .ordinary := by
  have h0 := recSum_nonneg pid x hn
  have hrel : lockedOf w.gov x .ordinary - recSum pid x w.locks ≤ lockedOf (unlockAll w.gov pid w.locks) x .ordinary :=
    unlockAll_cover pid x w.locks hn w.gov _ (by omega)
  constructor
  · unfold trigger
    split
    · omega
    · split
      · omega
      · exact hrel
  · unfold checkVote
    split
    · omega
    · split
      · omega
      · split
        · omega
        · split
          · exact hrel
          · show _ ≤ lockedOf w.gov x .ordinary
            omega

/-- one disciplined call keeps the books covered, in every state where they are -/
theorem stakes_stay_locked_step (w : World) (c : Call) (hs : Staked w) (hd : disciplined w c = true) :
    Staked (step w c) :=
  step_staked hs hd

/-- the hypothesis on election calls is what a client gets that names the tip right after a new block -/
theorem fresh_after_new_block (w : World) : freshAt (sealBlock w) (sealBlock w).tip = true := by
  have hlen : (sealBlock w).tdSnaps.length = w.tdSnaps.length + 1 := by simp [sealBlock]
  have htip : ((sealBlock w).tip : Int) = (w.tdSnaps.length : Int) + 3 := by
    simp only [World.tip, tdBaseTip, hlen]; omega
  unfold freshAt tdSnapAt
  rw [htip]
  have h1 : ¬ ((w.tdSnaps.length : Int) + 3 ≤ tdStartHeight ∨ (w.tdSnaps.length : Int) + 3 > (w.tdSnaps.length : Int) + 3) := by
    simp only [tdStartHeight]; omega
  have h2 : ¬ ((w.tdSnaps.length : Int) + 3 ≤ (tdBaseTip : Int)) := by simp only [tdBaseTip]; omega
  have h3 : ((w.tdSnaps.length : Int) + 3 - (tdBaseTip : Int) - 1).toNat = w.tdSnaps.length := by
    simp only [tdBaseTip]; omega
  rw [if_neg h1, if_neg h2, h3]
  simp [sealBlock]

/-- The code as it is breaks the full statement: the election methods read their records from the snapshot of the
block the CALLER names. Account 1 nominates itself (500) and votes (500), withdraws the nomination in block 5, then
sends the withdrawal again naming block 4, whose snapshot still holds the nomination: another 500 are unlocked, the
500 ballots stay on the books with nothing locked
(corpus/C19/open-stake-unlocked-stale-snapshot.ops replays this on the real contract). -/
theorem stakes_stay_locked_counterexample : ¬ stakes_stay_locked_statement := by
  intro h
  have := (h [(0, 3000), (1, 1500)]
    [.init, .newBlock, .nominate 1 1 500 false 3, .newBlock, .tdVote 1 1 500 4, .newBlock, .revokeNominate 1 1 5,
     .revokeNominate 1 1 4] 1).2
  revert this
  decide

/-! ## restricted callers -/

/-- Lock and UnLock do nothing unless the caller is `$proposal`, `$tdpos` or `$xpos`; an invalid lock type is
rejected too. -/
theorem lock_restricted_callers (w : World) (c : Caller) (a : Acct) (n : Int) (τ : Option LockType)
    (hc : c ≠ .proposal ∧ c ≠ .tdpos ∧ c ≠ .xpos) :
    lock w.gov c a n τ = none ∧ unlock w.gov c a n τ = none ∧
      step w (.lock c a n τ) = w ∧ step w (.unlock c a n τ) = w := by
  have hm : c.mayLock = false := by
    cases c <;> simp_all [Caller.mayLock]
  have h1 : lock w.gov c a n τ = none := by simp [lock, hm]
  have h2 : unlock w.gov c a n τ = none := by simp [unlock, hm]
  refine ⟨h1, h2, ?_, ?_⟩
  · simp [step, step?, h1]
  · simp [step, step?, h2]

/-- … and they reject an invalid lock type for every caller. -/
theorem lock_invalid_type_rejected (g : Gov) (c : Caller) (a : Acct) (n : Int) :
    lock g c a n none = none ∧ unlock g c a n none = none := by
  constructor
  · unfold lock; split <;> rfl
  · unfold unlock
    split
    · rfl
    · split
      · rfl
      · split <;> rfl

/-- CheckVoteResult and Trigger (which release locks) do nothing unless called by `$timer_task`. -/
theorem callbacks_restricted (w : World) (c : Caller) (pid : Nat) (hc : c ≠ .timer) :
    step w (.checkVote c pid) = w ∧ step w (.trigger c pid) = w := by
  simp [step, step?, hc]

/-! ## non-vacuity: the hypotheses are met by reachable, non-trivial states -/

/-- a history with a duplicated genesis address, a lock by `$proposal`, transfers into a locked account, to
oneself and to a fresh account, a proposal, a vote, a rejected over-unlock and an outsider's lock attempt -/
def demo : List Call :=
  [.init, .lock .proposal 1 400 (some .ordinary), .transfer 0 1 1, .transfer 0 0 100, .transfer 0 7 50,
   .propose 0 51 5 9 true, .vote 1 1 1, .unlock .proposal 1 500 (some .ordinary), .lock .other 0 1 (some .tdpos),
   .transfer 1 0 2]

example : (run (genesis [(0, 2000), (1, 400), (0, 500)]) demo).gov.distributed = true := by decide

example : (run (genesis [(0, 2000), (1, 400), (0, 500)]) demo).gov.supply = some 2900 := by decide

example : lockedOf (run (genesis [(0, 2000), (1, 400), (0, 500)]) demo).gov 1 .ordinary = 401 ∧
    totalOf (run (genesis [(0, 2000), (1, 400), (0, 500)]) demo).gov 1 = 401 ∧
    lockedOf (run (genesis [(0, 2000), (1, 400), (0, 500)]) demo).gov 0 .ordinary = 1000 ∧
    totalOf (run (genesis [(0, 2000), (1, 400), (0, 500)]) demo).gov 0 = 2449 ∧
    totalOf (run (genesis [(0, 2000), (1, 400), (0, 500)]) demo).gov 7 = 50 := by decide

/-- a transfer that the lock forbids is rejected, the same transfer succeeds once the lock is released -/
example : transfer (run (genesis [(0, 10)]) [.init, .lock .tdpos 0 6 (some .tdpos)]).gov 0 1 5 = none ∧
    (transfer (run (genesis [(0, 10)]) [.init, .lock .tdpos 0 6 (some .tdpos), .unlock .tdpos 0 6 (some .tdpos)]).gov
      0 1 5).isSome = true := by decide

/-- a rejected proposal releases the locks of scanned accounts through the timer -/
example : lockedOf (run (genesis [(0, 3000), (1, 1500)])
      [.init, .propose 0 51 5 9 true, .vote 1 1 500, .timer 5]).gov 1 .ordinary = 0 ∧
    lockedOf (run (genesis [(0, 3000), (1, 1500)]) [.init, .propose 0 51 5 9 true, .vote 1 1 500]).gov 1 .ordinary = 500 := by
  decide

/-- a disciplined history with a third-party nomination (1 nominates 0, co-signed), the candidate's own ballots, a
proposal that passes and is executed while its proposer stakes on a second one, and the withdrawals -/
def demoStakes : List Call :=
  [.init, .newBlock, .nominate 1 0 500 true 3, .newBlock, .tdVote 0 0 600 4, .propose 1 51 5 9 true, .vote 0 1 2805,
   .timer 5, .propose 1 60 20 0 true, .timer 9, .newBlock, .revokeNominate 1 0 5, .newBlock, .tdRevokeVote 0 0 100 6,
   .transfer 0 1 100]

example : disciplinedRun (genesis [(0, 3000), (1, 2500)]) demoStakes = true := by decide

/-- … in which the books and the locks are non-trivial at the end: the candidate keeps 500 ballots locked, the
withdrawn deposit of the nominator is free again, the second proposal's deposit is still locked -/
example : stakeTd (run (genesis [(0, 3000), (1, 2500)]) demoStakes).td 0 = 500 ∧
    lockedOf (run (genesis [(0, 3000), (1, 2500)]) demoStakes).gov 0 .tdpos = 500 ∧
    lockedOf (run (genesis [(0, 3000), (1, 2500)]) demoStakes).gov 1 .tdpos = 0 ∧
    stakeOrd (run (genesis [(0, 3000), (1, 2500)]) demoStakes).props (run (genesis [(0, 3000), (1, 2500)]) demoStakes).locks 1 = 1000 ∧
    lockedOf (run (genesis [(0, 3000), (1, 2500)]) demoStakes).gov 1 .ordinary = 1000 ∧
    lockedOf (run (genesis [(0, 3000), (1, 2500)]) demoStakes).gov 0 .ordinary = 0 := by decide

/-- the withdrawal of the third-party nomination gave the deposit back to the nominator (1) and left the candidate's
(0) 600 locked ballots alone -/
example : lockedOf (run (genesis [(0, 3000), (1, 1500)])
      [.init, .newBlock, .nominate 1 0 500 true 3, .newBlock, .tdVote 0 0 600 4, .newBlock, .revokeNominate 1 0 5]).gov 0 .tdpos = 600 ∧
    lockedOf (run (genesis [(0, 3000), (1, 1500)])
      [.init, .newBlock, .nominate 1 0 500 true 3, .newBlock, .tdVote 0 0 600 4, .newBlock, .revokeNominate 1 0 5]).gov 1 .tdpos = 0 := by
  decide

/-! ## why the read-then-write order matters: the ORIGINAL TransferGovernTokens

`transferLegacy` is the code before the two `fix:` commits: the receiver's new record is a fresh object carrying
over only the old total, and the receiver is read BEFORE the sender is written. The full statements are refuted for
it by the inputs that were replayed on the unrepaired implementation (corpus/C19). -/

def transferLegacy (g : Gov) (s t : Acct) (n : Int) : Option Gov :=
  if n < 0 then none
  else
    match aget g.bal s with
    | none => none
    | some sb =>
      if sb.total - sb.ord < n ∨ sb.total - sb.tdp < n then none
      else
        let rnew : Bal := ⟨n + ((aget g.bal t).map (·.total)).getD 0, 0, 0⟩
        some { g with bal := aput (aput g.bal s { sb with total := sb.total - n }) t rnew }

def legacy_conserves_statement : Prop :=
  ∀ g s t n g', transferLegacy g s t n = some g' → sumTot g'.bal = sumTot g.bal

def legacy_keeps_locks_statement : Prop :=
  ∀ g s t n g' x τ, transferLegacy g s t n = some g' → lockedOf g' x τ = lockedOf g x τ

/-- A→A 100 turns 999 into 1099 -/
theorem legacy_conserves_counterexample : ¬ legacy_conserves_statement := by
  intro h
  have := h { bal := [(0, ⟨999, 0, 0⟩)] } 0 0 100 _ rfl
  revert this
  decide

/-- a 1-token transfer to B zeroes B's 400 locked -/
theorem legacy_keeps_locks_counterexample : ¬ legacy_keeps_locks_statement := by
  intro h
  have := h { bal := [(0, ⟨1000, 0, 0⟩), (1, ⟨400, 400, 0⟩)] } 0 1 1 _ 1 .ordinary rfl
  revert this
  decide

/-! ## wave 6: pre-executed transactions held and submitted later on a node (`Node`) -/

/-- an accepted held transaction has the effect of its call made on the state it is committed to -/
theorem accepted_is_the_call_made_now (n n' : Node) (h : Held) (hacc : n.accept h = some n') :
    step? n.live h.call = some n'.live := by
  unfold Node.accept at hacc
  split at hacc
  · exact absurd hacc (by simp)
  · cases hs : step? n.live h.call with
    | none => simp [hs] at hacc
    | some w => simp [hs] at hacc; subst hacc; rfl

/-- a held transaction that read a key written since its pre-execution is refused -/
theorem stale_held_refused (n : Node) (h : Held) (hc : conflicts (footprint h.call) (n.log.drop h.seen) = true) :
    n.accept h = none := by
  unfold Node.accept
  simp [hc]

/-- two transfers to the same account computed on the same state: whichever is accepted first, the other is refused -/
theorem transfers_to_same_account_clash (s₁ s₂ t : Acct) (a b : Int) (log : List (List Key)) :
    conflicts (footprint (.transfer s₂ t b)) ((log ++ [footprint (.transfer s₁ t a)]).drop log.length) = true := by
  simp [conflicts, footprint, Key.clash]

/-- two proposals computed on the same state clash (both take the next proposal id) -/
theorem proposals_on_same_state_clash (a₁ a₂ : Acct) (p₁ s₁ t₁ p₂ s₂ t₂ : Int) (o₁ o₂ : Bool) (log : List (List Key)) :
    conflicts (footprint (.propose a₂ p₂ s₂ t₂ o₂)) ((log ++ [footprint (.propose a₁ p₁ s₁ t₁ o₁)]).drop log.length) = true := by
  simp [conflicts, footprint, Key.clash]

/-- pending (accepted, not yet packed) transactions do not change what a balance query at the tip answers -/
theorem query_ignores_pending (n n' : Node) (h : Held) (a : Acct) (hacc : n.accept h = some n') :
    n'.queryBalance a = n.queryBalance a := by
  unfold Node.accept at hacc
  split at hacc
  · exact absurd hacc (by simp)
  · cases hs : step? n.live h.call with
    | none => simp [hs] at hacc
    | some w => simp [hs] at hacc; subst hacc; rfl

/-- after a block the query answers the live balance -/
theorem query_after_pack (n : Node) (a : Acct) :
    n.pack.queryBalance a = (aget n.pack.live.gov.bal a).map (·.total) := by
  simp [Node.pack, Node.queryBalance]

end XV.C19
