import XV.Model.Pool
import XV.Lemmas.Assoc
import XV.Lemmas.ChainFrame
namespace XV.C13
open XV.Chain XV.Pool
end XV.C13
