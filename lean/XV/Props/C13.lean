import XV.Model.Pool
import XV.Lemmas.Pool
import XV.Lemmas.PoolGraph
import XV.Lemmas.PoolSwap
import XV.Lemmas.PoolAdmit
/-!
C13 — blocks a node produces from its own pool are valid everywhere and replay to the producer's state; the pool
order puts every transaction after its producers and before any overwriter of a key version it only read.

Theorems about `XV.Pool` (model of `Tx.SortUnconfirmedTx` + `TopSortDFS` with Go's map iteration order as an explicit
argument) over the L1 chain model `XV.Chain` (`admitTx` / `applyTx`):

* the order: every order `TopSortDFS` returns — any graph, any iteration order — lists every node exactly once and
  respects every edge; acyclic graphs are always sorted (the fuel of the model suffices, no false cycle report);
* the graph: it contains the producer → consumer edges and the reader → overwriter edges, and nothing else;
* replay: a pool admitted one by one in some order is admissible, with the same final tables, in every order that
  respects the edges (commutation of independent admissions), in particular in every order the pool can yield;
* the block layout award, timer transaction, pool: replayable when no pool transaction has an edge into the timer
  transaction (`block_with_timer_replayable`); the unrestricted statement is false of the code as it is (the timer
  transaction is generated on the live state and may cite a pending writer that stands after it);
* the graph of the code before repair `eb76c54` admits the order (W, R), which no replica can replay.
-/
namespace XV.C13
open XV.Chain XV.Pool

-- ================================================================ 1. TopSortDFS

/-- **every order `TopSortDFS` can return** — for ALL graphs (sources of edges are keys of the map, as in a Go map of
adjacency lists) and ALL iteration orders `keyOrder` of `range g` — lists each node exactly once and puts `u` before
`v` for every edge `u → v`. (No acyclicity hypothesis: whenever an order is returned, it is a topological order.) -/
theorem order_respects_deps (g : Graph) (keyOrder order : List Nat)
    (hsrc : ∀ e ∈ g.edges, e.1 ∈ g.nodes)
    (hko : ∀ x, x ∈ keyOrder ↔ x ∈ g.allNodes)
    (h : (topSortDFS g keyOrder).order = some order) :
    order.Nodup ∧ (∀ x, x ∈ order ↔ x ∈ g.allNodes) ∧ ∀ e ∈ g.edges, Before order e.1 e.2 := by
  unfold topSortDFS topSortWith at h
  simp only at h
  generalize hroots : (components g (fuelOf g) keyOrder []).flatten = roots at h
  generalize hs : visitList g (fuelOf g) roots {} = s at h
  have hsrc' : ∀ e ∈ g.edges, e.1 ∈ g.allNodes := fun e he => (mem_allNodes g e.1).mpr (Or.inl (hsrc e he))
  have hrsub : ∀ x ∈ roots, x ∈ g.allNodes := by
    rw [← hroots]
    exact components_sub g (fuelOf g) hsrc' keyOrder [] (fun x hx => (hko x).mp hx)
  have hrcov : ∀ x ∈ g.allNodes, x ∈ roots := by
    intro x hx
    rw [← hroots]
    rcases components_cover g g.allNodes.length keyOrder [] x ((hko x).mpr hx) with h | h
    · simp at h
    · exact h
  have hc : s.cyc = false := by
    cases hcc : s.cyc with
    | false => rfl
    | true => simp [hcc] at h
  simp only [hc, Bool.false_eq_true, ↓reduceIte, Option.some.injEq] at h
  obtain ⟨⟨inv, _, _, _⟩, hall⟩ := visitList_spec g (fuelOf g) (visit_spec g (fuelOf g)) roots {} (inv_init g) hrsub
    (by rw [hs]; exact hc)
  rw [hs] at inv hall
  subst h
  refine ⟨inv.nodup, ?_, ?_⟩
  · intro x
    constructor
    · intro hx; exact inv.sub x ((inv.same x).mp hx)
    · intro hx; exact (inv.same x).mpr (hall x (hrcov x hx))
  · intro e he
    have hu : e.1 ∈ s.perm := hall e.1 (hrcov e.1 (hsrc' e he))
    exact inv.closed e.1 hu e.2 ((mem_children g e.1 e.2).mpr he)

/-- **acyclic graphs are sorted**: for an acyclic graph `TopSortDFS` returns an order under every iteration order —
the cycle flag is never raised falsely, and the recursion depth of the model (`fuelOf g`) is sufficient -/
theorem acyclic_is_sorted (g : Graph) (keyOrder : List Nat)
    (hsrc : ∀ e ∈ g.edges, e.1 ∈ g.nodes)
    (hko : ∀ x, x ∈ keyOrder ↔ x ∈ g.allNodes)
    (hac : Acyclic g) :
    ∃ order, (topSortDFS g keyOrder).order = some order := by
  obtain ⟨rank, hr⟩ := hac
  unfold topSortDFS topSortWith
  simp only
  have hsrc' : ∀ e ∈ g.edges, e.1 ∈ g.allNodes := fun e he => (mem_allNodes g e.1).mpr (Or.inl (hsrc e he))
  have hrsub : ∀ x ∈ (components g (fuelOf g) keyOrder []).flatten, x ∈ g.allNodes :=
    components_sub g (fuelOf g) hsrc' keyOrder [] (fun x hx => (hko x).mp hx)
  obtain ⟨hc, _⟩ := visitList_nocycle g rank (fuelOf g) (visit_nocycle g rank hr (fuelOf g))
    (components g (fuelOf g) keyOrder []).flatten {} rfl List.nodup_nil (by simp) hrsub (by simp)
    (by simp [fuelOf])
  simp only [hc, Bool.false_eq_true, ↓reduceIte]
  exact ⟨_, rfl⟩

/-- **cyclic graphs are refused**: a returned order witnesses acyclicity (its positions are a rank that increases along
every edge), so for a graph with a cycle `TopSortDFS` reports the cycle under every iteration order -/
theorem cyclic_is_refused (g : Graph) (keyOrder order : List Nat)
    (hsrc : ∀ e ∈ g.edges, e.1 ∈ g.nodes)
    (hko : ∀ x, x ∈ keyOrder ↔ x ∈ g.allNodes)
    (h : (topSortDFS g keyOrder).order = some order) : Acyclic g := by
  obtain ⟨hnd, _, hb⟩ := order_respects_deps g keyOrder order hsrc hko h
  exact ⟨pos order, fun e he => pos_lt_of_before order e.1 e.2 hnd (hb e he)⟩

-- ================================================================ 2. the graph of SortUnconfirmedTx

/-- the graph has the producer → consumer edges of token inputs and of key inputs -/
theorem graph_has_dep_edges (pool : List Tx) (u v : Tx) (hu : u ∈ pool) (hv : v ∈ pool)
    (h : tokDep u v = true ∨ keyDep u v = true) : (u.id, v.id) ∈ (sortUnconfirmed pool).edges := by
  unfold sortUnconfirmed
  simp only [List.mem_append]
  left
  rw [mem_depEdges]
  refine ⟨v, hv, rfl, (inPool_iff pool u.id).mpr ⟨u, hu, rfl⟩, ?_⟩
  rcases h with h | h
  · unfold tokDep at h
    simp only [List.any_eq_true, beq_iff_eq] at h
    exact Or.inl h
  · unfold keyDep at h
    simp only [List.any_eq_true] at h
    obtain ⟨ki, hki, hm⟩ := h
    cases hver : ki.ver with
    | none => simp [hver] at hm
    | some w =>
      simp only [hver, beq_iff_eq] at hm
      exact Or.inr ⟨ki, hki, w, hver, hm⟩

/-- no two pool transactions overwrite the same key version (true of every admitted pool: the second would be stale) -/
def UniqueWriters (pool : List Tx) : Prop :=
  ∀ t1 ∈ pool, ∀ t2 ∈ pool, ∀ vk, overwrites t1 vk → overwrites t2 vk → t1.id = t2.id

/-- **the graph has the reader → overwriter edges**: for pool transactions `R` (reads `K@v`, does not write `K`) and
`W` (reads `K@v` and writes `K`) the edge `R → W` is in the graph (`W` being the pool's only overwriter of `K@v`, as
in every admitted pool; the Go code keeps one writer per version) -/
theorem graph_has_antidep_edges (pool : List Tx) (R W : Tx) (hR : R ∈ pool) (hW : W ∈ pool) (hne : R.id ≠ W.id)
    (kR kW : KIn) (hkR : kR ∈ R.kin) (hnw : writesKey R kR.key = false)
    (hkW : kW ∈ W.kin) (hkey : kW.key = kR.key) (hver : kW.ver = kR.ver) (hw : writesKey W kW.key = true)
    (huniq : ∀ t ∈ pool, overwrites t (kR.key, kR.ver) → t.id = W.id) :
    (R.id, W.id) ∈ (sortUnconfirmed pool).edges := by
  unfold sortUnconfirmed
  simp only [List.mem_append]
  right
  rw [mem_antiEdges]
  have how : overwrites W (kR.key, kR.ver) := ⟨kW, hkW, by rw [hkey, hver], hw⟩
  refine ⟨(kR.key, kR.ver), writers_complete pool _ W.id huniq ⟨W, hW, how⟩, ?_, hne⟩
  rw [mem_readers]
  exact ⟨R, hR, rfl, kR, hkR, rfl, hnw⟩

/-- every `edge` between two pool transactions is in the graph -/
theorem graph_edges_complete (pool : List Tx) (hu : UniqueWriters pool) (u v : Tx) (hu' : u ∈ pool) (hv : v ∈ pool)
    (he : edge u v = true) : (u.id, v.id) ∈ (sortUnconfirmed pool).edges := by
  unfold edge at he
  simp only [Bool.or_eq_true] at he
  rcases he with (h | h) | h
  · exact graph_has_dep_edges pool u v hu' hv (Or.inl h)
  · exact graph_has_dep_edges pool u v hu' hv (Or.inr h)
  · unfold antiDep at h
    simp only [Bool.and_eq_true, bne_iff_ne, ne_eq, List.any_eq_true, Bool.not_eq_true', beq_iff_eq] at h
    obtain ⟨hne, pk, hpk, hnw, ck, hck, ⟨hk, hvv⟩, hw⟩ := h
    refine graph_has_antidep_edges pool u v hu' hv hne pk ck hpk hnw hck hk hvv hw ?_
    intro t ht ho
    exact hu t ht v hv _ ho ⟨ck, hck, by rw [hk, hvv], hw⟩

/-- the graph has no other edges: every edge joins two pool transactions related by `edge` -/
theorem graph_edges_sound (pool : List Tx) (a b : Nat) (h : (a, b) ∈ (sortUnconfirmed pool).edges) :
    ∃ u ∈ pool, ∃ v ∈ pool, u.id = a ∧ v.id = b ∧ edge u v = true := by
  unfold sortUnconfirmed at h
  simp only [List.mem_append] at h
  rcases h with h | h
  · rw [mem_depEdges] at h
    obtain ⟨v, hv, rfl, hp, hd⟩ := h
    obtain ⟨u, hu, rfl⟩ := (inPool_iff pool a).mp hp
    refine ⟨u, hu, v, hv, rfl, rfl, ?_⟩
    unfold edge
    rcases hd with ⟨r, hr, hx⟩ | ⟨ki, hki, w, hver, hx⟩
    · have : tokDep u v = true := by
        unfold tokDep
        simp only [List.any_eq_true, beq_iff_eq]
        exact ⟨r, hr, hx⟩
      simp [this]
    · have : keyDep u v = true := by
        unfold keyDep
        simp only [List.any_eq_true]
        exact ⟨ki, hki, by simp [hver, hx]⟩
      simp [this]
  · rw [mem_antiEdges] at h
    obtain ⟨vk, hw, hr, hne⟩ := h
    obtain ⟨W, hW, hWid, ck, hck, hcv, hcw⟩ := mem_writers pool _ hw
    obtain ⟨R, hR, hRid, pk, hpk, hpv, hpw⟩ := (mem_readers pool vk a).mp hr
    simp only at hWid hcv
    refine ⟨R, hR, W, hW, hRid, hWid, ?_⟩
    have hkv : (ck.key, ck.ver) = (pk.key, pk.ver) := hcv.trans hpv.symm
    simp only [Prod.mk.injEq] at hkv
    have : antiDep R W = true := by
      unfold antiDep
      simp only [Bool.and_eq_true, bne_iff_ne, ne_eq, List.any_eq_true, Bool.not_eq_true', beq_iff_eq]
      exact ⟨by rw [hRid, hWid]; exact hne, pk, hpk, hpw, ck, hck, ⟨hkv.1, hkv.2⟩, hcw⟩
    unfold edge
    simp [this]

/-- the graph of a pool is a Go map over the pool: sources and targets of edges are pool transactions -/
theorem graph_nodes (pool : List Tx) :
    (∀ e ∈ (sortUnconfirmed pool).edges, e.1 ∈ (sortUnconfirmed pool).nodes) ∧
    (∀ x, x ∈ (sortUnconfirmed pool).allNodes ↔ x ∈ ids pool) := by
  have hn : (sortUnconfirmed pool).nodes = ids pool := rfl
  constructor
  · intro e he
    obtain ⟨u, hu, _, _, hua, _, _⟩ := graph_edges_sound pool e.1 e.2 he
    rw [hn, ← hua]; exact mem_ids hu
  · intro x
    rw [mem_allNodes, hn]
    constructor
    · rintro (h | ⟨a, ha⟩)
      · exact h
      · obtain ⟨_, _, v, hv, _, hvb, _⟩ := graph_edges_sound pool a x ha
        rw [← hvb]; exact mem_ids hv
    · intro h; exact Or.inl h

-- ================================================================ 3. replay

/-- **two adjacent independent admissions commute**: if `b` was admitted right after `a`, spends no output of `a`
(nor `a` of `b`), read no key version written by `a`, and `a` is not a read-only reader of a version `b` overwrites,
then `b` is admissible first, `a` after it, and both orders end in the same tables (every U / ZU / ZD lookup, total) -/
theorem swap_independent (s : St) (lh : Int) (a b : Tx) (hi : Indep a b)
    (ha : admitTx s lh a = .ok) (hb : admitTx (applyTx s a) lh b = .ok) :
    admitTx s lh b = .ok ∧ admitTx (applyTx s b) lh a = .ok ∧
    Equiv (applyTx (applyTx s a) b) (applyTx (applyTx s b) a) :=
  swap_core s lh a b hi ha hb

/-- **replayable** (headline): a pool whose transactions were admitted one by one in some order `adm` (each `admitTx`
ok on the evolving state; ids pairwise distinct and fresh, as hashes are) is admissible one by one from the same start
state in ANY order `ord` that keeps `u` before `v` whenever `edge u v` (output consumed, key version consumed, or
read-only reader before overwriter) — and ends in the same tables (all U / ZU / ZD lookups and the total) -/
theorem replayable (s sA : St) (lh : Int) (adm ord : List Tx)
    (hperm : adm.Perm ord) (hids : (ids adm).Nodup) (hfresh : FreshU s (ids adm))
    (hadm : admitAll s lh adm = some sA)
    (hord : ∀ u ∈ adm, ∀ v ∈ adm, edge u v = true → Before (ids ord) u.id v.id) :
    ∃ sB, admitAll s lh ord = some sB ∧ Equiv sA sB :=
  reorder lh ord adm s sA hperm hids hfresh hadm hord

/-- the size limit packs a prefix of the order: every prefix of an admissible sequence is admissible -/
theorem prefix_admissible (s r : St) (lh : Int) (l1 l2 : List Tx) (h : admitAll s lh (l1 ++ l2) = some r) :
    ∃ m, admitAll s lh l1 = some m :=
  let ⟨m, hm, _⟩ := admitAll_append lh l1 l2 s r h
  ⟨m, hm⟩

/-- **the admission order respects every edge**: in a pool admitted one by one (fresh, distinct ids) a transaction is
admitted after everything it consumes and before any overwriter of a version it only read -/
theorem admitted_order_respects_edges (s sA : St) (lh : Int) (adm : List Tx)
    (hids : (ids adm).Nodup) (hfu : FreshU s (ids adm)) (hfv : FreshV s (ids adm))
    (hadm : admitAll s lh adm = some sA) :
    ∀ u ∈ adm, ∀ v ∈ adm, edge u v = true → Before (ids adm) u.id v.id :=
  admitted_respects_edges lh s sA adm hadm hids hfu hfv

/-- **an admitted pool has one overwriter per key version** (the second one would cite a stale version): the `writers`
map of `SortUnconfirmedTx` loses nothing -/
theorem admitted_pool_unique_writers (s sA : St) (lh : Int) (adm : List Tx)
    (hids : (ids adm).Nodup) (hfu : FreshU s (ids adm)) (hfv : FreshV s (ids adm))
    (hadm : admitAll s lh adm = some sA) : UniqueWriters adm :=
  admitted_unique_writers lh s sA adm hadm hids hfu hfv

/-- **the graph of an admitted pool is acyclic, so the pool always yields an order** (`GetUnconfirmedTx` never fails
with "transaction conflicted" on a consistent pool): for the pool in any map iteration order `it` and any iteration
order `keyOrder` of the graph, `TopSortDFS` returns an order -/
theorem admitted_pool_is_sorted (s sA : St) (lh : Int) (adm it : List Tx) (keyOrder : List Nat)
    (hids : (ids adm).Nodup) (hfu : FreshU s (ids adm)) (hfv : FreshV s (ids adm))
    (hadm : admitAll s lh adm = some sA) (hit : it.Perm adm)
    (hko : ∀ x, x ∈ keyOrder ↔ x ∈ (sortUnconfirmed it).allNodes) :
    ∃ order, (topSortDFS (sortUnconfirmed it) keyOrder).order = some order := by
  refine acyclic_is_sorted _ keyOrder (graph_nodes it).1 hko ⟨pos (ids adm), ?_⟩
  intro e he
  obtain ⟨u, hu, v, hv, hua, hvb, hedge⟩ := graph_edges_sound it e.1 e.2 he
  have hb := admitted_respects_edges lh s sA adm hadm hids hfu hfv u (hit.mem_iff.mp hu) v (hit.mem_iff.mp hv) hedge
  rw [hua, hvb] at hb
  exact pos_lt_of_before (ids adm) e.1 e.2 hids hb

/-- **every order the pool can yield is replayable** (model of `GetUnconfirmedTx` end to end): the pool was admitted one
by one in the order `adm` (ids distinct and fresh, as hashes are); `it` is the pool in any map iteration order; if
`TopSortDFS` over `SortUnconfirmedTx`'s graph, under any iteration order `keyOrder`, returns the transactions `ord`,
then a replica admits `ord` one by one from the start state and reaches the producer's tables -/
theorem pool_order_replayable (s sA : St) (lh : Int) (adm it ord : List Tx) (keyOrder : List Nat)
    (hids : (ids adm).Nodup) (hfresh : FreshU s (ids adm)) (hfv : FreshV s (ids adm))
    (hadm : admitAll s lh adm = some sA) (hit : it.Perm adm)
    (hko : ∀ x, x ∈ keyOrder ↔ x ∈ (sortUnconfirmed it).allNodes)
    (hsort : (topSortDFS (sortUnconfirmed it) keyOrder).order = some (ids ord))
    (hsub : ∀ t ∈ ord, t ∈ adm) :
    ∃ sB, admitAll s lh ord = some sB ∧ Equiv sA sB := by
  have huw : UniqueWriters adm := admitted_pool_unique_writers s sA lh adm hids hfresh hfv hadm
  obtain ⟨hsrc, hall⟩ := graph_nodes it
  obtain ⟨hnd, hmem, hbef⟩ := order_respects_deps _ keyOrder (ids ord) hsrc hko hsort
  have hitmem : ∀ t, t ∈ it ↔ t ∈ adm := fun t => hit.mem_iff
  have hidsit : ∀ x, x ∈ ids it ↔ x ∈ ids adm := by
    intro x
    unfold ids
    exact (hit.map _).mem_iff
  -- ord is a permutation of adm
  have hperm : adm.Perm ord := by
    apply (List.perm_ext_iff_of_nodup (nodup_of_ids adm hids) (nodup_of_ids ord hnd)).mpr
    intro t
    constructor
    · intro ht
      have : t.id ∈ ids ord := (hmem t.id).mpr ((hall t.id).mpr ((hidsit t.id).mpr (mem_ids ht)))
      obtain ⟨t', ht', hid⟩ := List.mem_map.mp this
      have := id_inj_of_nodup adm hids t' (hsub t' ht') t ht hid
      exact this ▸ ht'
    · exact hsub t
  have huw' : UniqueWriters it := by
    intro t1 h1 t2 h2 vk o1 o2
    exact huw t1 ((hitmem t1).mp h1) t2 ((hitmem t2).mp h2) vk o1 o2
  refine replayable s sA lh adm ord hperm hids hfresh hadm ?_
  intro u hu v hv he
  exact hbef (u.id, v.id) (graph_edges_complete it huw' u v ((hitmem u).mpr hu) ((hitmem v).mpr hv) he)

/-- nothing has to precede an award: a transaction without inputs and key accesses has no incoming edge -/
theorem no_edge_into_award (u aw : Tx) (hi : aw.ins = []) (hk : aw.kin = []) : edge u aw = false := by
  unfold edge tokDep keyDep antiDep
  simp [hi, hk]

/-- **the block layout is replayable** (award first, then the pool in any order that respects the edges): the producer
applied the pool in admission order and applies the award last (`PlayForMiner`); a replica that applies the award
first and then the transactions in the block's order reaches the same tables. (Fee outputs — `payFee` — are not part
of this statement; they are covered by the harness oracle only.) -/
theorem block_replayable (s sP : St) (lh : Int) (adm ord : List Tx) (aw : Tx)
    (hi : aw.ins = []) (hk : aw.kin = [])
    (hperm : adm.Perm ord) (hids : (ids (adm ++ [aw])).Nodup) (hfresh : FreshU s (ids (adm ++ [aw])))
    (hadm : admitAll s lh (adm ++ [aw]) = some sP)
    (hord : ∀ u ∈ adm, ∀ v ∈ adm, edge u v = true → Before (ids ord) u.id v.id) :
    ∃ sR, admitAll s lh (aw :: ord) = some sR ∧ Equiv sP sR := by
  have hp : (adm ++ [aw]).Perm (aw :: ord) := List.perm_append_comm.trans (hperm.cons aw)
  refine replayable s sP lh (adm ++ [aw]) (aw :: ord) hp hids hfresh hadm ?_
  intro u hu v hv he
  rcases List.mem_append.mp hv with hv1 | hv1
  · rcases List.mem_append.mp hu with hu1 | hu1
    · simp only [ids_cons]
      exact (hord u hu1 v hv1 he).cons aw.id
    · have hua : u = aw := by simpa using hu1
      rw [hua]
      simp only [ids_cons]
      exact Before.head _ (mem_ids (hperm.mem_iff.mp hv1))
  · have hva : v = aw := by simpa using hv1
    rw [hva, no_edge_into_award u aw hi hk] at he
    simp at he

/-- **the block layout with a timer transaction** (award, timer transaction, then the pool in any order that respects
the edges): the producer applied the pool in admission order and applies the award and the timer transaction last
(`PlayForMiner`; the timer transaction was generated on the producer's live state, i.e. after the pool). A replica that
applies award, timer transaction and then the pool reaches the same tables — PROVIDED no pool transaction has an edge
into the timer transaction: it read no key version a pending transaction wrote, and it overwrites no key version a
pending transaction only read. (Edges from the timer transaction to pool transactions need no hypothesis: it stands
first.) -/
theorem block_with_timer_replayable (s sP : St) (lh : Int) (adm ord : List Tx) (aw tm : Tx)
    (hi : aw.ins = []) (hk : aw.kin = [])
    (hperm : adm.Perm ord) (hids : (ids (adm ++ [aw, tm])).Nodup) (hfresh : FreshU s (ids (adm ++ [aw, tm])))
    (hadm : admitAll s lh (adm ++ [aw, tm]) = some sP)
    (hord : ∀ u ∈ adm, ∀ v ∈ adm, edge u v = true → Before (ids ord) u.id v.id)
    (hfree : ∀ u ∈ adm ++ [tm], edge u tm = false) :
    ∃ sR, admitAll s lh (aw :: tm :: ord) = some sR ∧ Equiv sP sR := by
  have hp : (adm ++ [aw, tm]).Perm (aw :: tm :: ord) :=
    List.perm_append_comm.trans ((hperm.cons tm).cons aw)
  refine replayable s sP lh (adm ++ [aw, tm]) (aw :: tm :: ord) hp hids hfresh hadm ?_
  intro u hu v hv he
  have hcase : ∀ x, x ∈ adm ++ [aw, tm] → x ∈ adm ∨ x = aw ∨ x = tm := by
    intro x hx
    rcases List.mem_append.mp hx with h | h
    · exact Or.inl h
    · simp only [List.mem_cons, List.not_mem_nil, or_false] at h
      exact Or.inr h
  simp only [ids_cons]
  rcases hcase v hv with hv1 | hv1 | hv1
  · -- v is a pool transaction: pool before pool by `hord`; the award and the timer transaction stand in front
    rcases hcase u hu with hu1 | hu1 | hu1
    · exact ((hord u hu1 v hv1 he).cons tm.id).cons aw.id
    · rw [hu1]
      exact Before.head _ (List.mem_cons_of_mem _ (mem_ids (hperm.mem_iff.mp hv1)))
    · rw [hu1]
      exact (Before.head _ (mem_ids (hperm.mem_iff.mp hv1))).cons aw.id
  · -- nothing precedes the award
    rw [hv1, no_edge_into_award u aw hi hk] at he
    simp at he
  · -- v is the timer transaction: only the award may have an edge into it
    rcases hcase u hu with hu1 | hu1 | hu1
    · rw [hv1, hfree u (List.mem_append_left _ hu1)] at he
      simp at he
    · rw [hu1, hv1]
      exact Before.head _ (List.mem_cons_self ..)
    · rw [hu1, hv1, hfree tm (List.mem_append_right _ (List.mem_singleton.mpr rfl))] at he
      simp at he

-- ================================================================ 4. before the repair; non-vacuity

/-- start state with key `k0` at version (1,0) and one unspent output -/
def s0 : St := { U := [((0, 0), ⟨"u0", 5, 0⟩)], ZU := [("k0", (1, 0))] }
/-- `R` only reads `k0@(1,0)`; `W` reads it and overwrites `k0`; `X` spends the output; `Y` spends `X`'s output and
reads the version `W` wrote -/
def txR : Tx := ⟨5, false, [], [], [⟨"k0", some (1, 0)⟩], []⟩
def txW : Tx := ⟨6, false, [], [], [⟨"k0", some (1, 0)⟩], [⟨"k0", "v", false⟩]⟩
def txX : Tx := ⟨7, false, [⟨0, 0, "u0", 5, 0, false⟩], [⟨"u1", 5, 0⟩], [], []⟩
def txY : Tx := ⟨8, false, [⟨7, 0, "u1", 5, 0, false⟩], [⟨"u2", 5, 0⟩], [⟨"k0", some (6, 0)⟩], []⟩

/-- the full statement for the graph before repair `eb76c54` (dependency edges only): every order it allows is replayable -/
def replayable_prefix_statement : Prop :=
  ∀ (s : St) (adm : List Tx) (keyOrder order : List Nat),
    (admitAll s 0 adm).isSome →
    (topSortDFS (sortUnconfirmedPreFix adm) keyOrder).order = some order →
    ∀ ord : List Tx, ids ord = order → (∀ t ∈ ord, t ∈ adm) → (admitAll s 0 ord).isSome

/-- **before the repair** the graph (without reader → overwriter edges) admits the order (W, R) for the pool admitted as
(R, W) — and (W, R) is not admissible: a replica refuses R as stale -/
theorem prefix_counterexample : ¬ replayable_prefix_statement := by
  intro h
  have := h s0 [txR, txW] [5, 6] [6, 5] (by decide) (by decide) [txW, txR] (by decide) (by decide)
  revert this
  decide

/-- with the repaired graph the same pool yields (R, W) under both iteration orders -/
theorem repaired_example :
    (topSortDFS (sortUnconfirmed [txR, txW]) [5, 6]).order = some [5, 6] ∧
    (topSortDFS (sortUnconfirmed [txW, txR]) [6, 5]).order = some [5, 6] ∧
    (sortUnconfirmed [txR, txW]).edges = [(5, 6)] := by decide

-- non-vacuity: the hypotheses of `replayable` / `pool_order_replayable` hold for a pool with all three kinds of edge,
-- and two different orders are possible
example :
    (admitAll s0 0 [txR, txW, txX, txY]).isSome ∧ (ids [txR, txW, txX, txY]).Nodup ∧
    (sortUnconfirmed [txR, txW, txX, txY]).edges = [(7, 8), (6, 8), (5, 6)] ∧
    (topSortDFS (sortUnconfirmed [txR, txW, txX, txY]) [5, 6, 7, 8]).order = some [5, 6, 7, 8] ∧
    (topSortDFS (sortUnconfirmed [txR, txW, txX, txY]) [7, 8, 6, 5]).order = some [7, 5, 6, 8] ∧
    (admitAll s0 0 [txX, txR, txW, txY]).isSome := by decide

example : FreshU s0 (ids [txR, txW, txX, txY]) := by
  intro k hk
  simp only [ids, List.map, txR, txW, txX, txY, List.mem_cons, List.not_mem_nil, or_false] at hk
  unfold s0
  simp only [lookup]
  split
  · rename_i h; rw [← h] at hk; simp at hk
  · rfl

example : FreshV s0 (ids [txR, txW, txX, txY]) := by
  intro K v hv
  by_cases hK : "k0" = K
  · subst hK
    have h1 : curVer s0 "k0" = some (1, 0) := by decide
    rw [h1] at hv
    simp only [Option.some.injEq] at hv
    subst hv
    decide
  · have h1 : curVer s0 K = none := by
      unfold Chain.curVer s0
      simp [lookup, hK]
    rw [h1] at hv
    simp at hv

example : UniqueWriters [txR, txW, txX, txY] := by
  intro t1 h1 t2 h2 vk o1 o2
  have hw : ∀ t ∈ [txR, txW, txX, txY], ∀ vk, overwrites t vk → t = txW := by
    intro t ht vk ⟨k, hk, _, hwk⟩
    simp only [List.mem_cons, List.not_mem_nil, or_false] at ht
    rcases ht with rfl | rfl | rfl | rfl
    · simp [txR, writesKey] at hwk
    · rfl
    · simp [txX] at hk
    · simp [txY, writesKey] at hwk
  rw [hw t1 h1 vk o1, hw t2 h2 vk o2]

-- `swap_independent`: the reader of k0 and the spender of the output are independent
example : Indep txR txX :=
  ⟨by decide, by decide, by decide, by intro ki hki; simp [txX] at hki, by decide⟩

-- `block_replayable`: an award (coinbase, no inputs) applied last by the producer and first by the replica
def txA : Tx := ⟨9, true, [], [⟨"m0", 50, 0⟩], [], []⟩
example :
    (admitAll s0 0 ([txR, txW, txX, txY] ++ [txA])).isSome ∧ (admitAll s0 0 (txA :: [txX, txR, txW, txY])).isSome ∧
    (ids ([txR, txW, txX, txY] ++ [txA])).Nodup ∧ txA.ins = [] ∧ txA.kin = [] := by decide

/-- the full statement for blocks with a timer transaction, without the hypothesis of `block_with_timer_replayable`:
whatever the producer applied as pool, award, timer transaction is admissible as award, timer transaction, pool -/
def timer_block_statement : Prop :=
  ∀ (s : St) (adm : List Tx) (aw tm : Tx), aw.ins = [] → aw.kin = [] → tm.ins = [] → tm.outs = [] →
    (admitAll s 0 (adm ++ [aw, tm])).isSome → (admitAll s 0 (aw :: tm :: adm)).isSome

/-- the timer transaction generated on the live state after the pending writer `W` of `k0`: it reads `k0` at the version
`W` wrote -/
def txT : Tx := ⟨10, false, [], [], [⟨"k0", some (6, 0)⟩, ⟨"z0", none⟩], [⟨"z0", "x", false⟩]⟩

/-- **false of the code as it is** (`GetTimerTx` runs on the producer's live state, `packBlock` puts the timer
transaction in front of the pool): the timer transaction cites a key version whose writer stands after it in the
block, and no replica admits it (known finding `timer-tx-cites-later-transaction`) -/
theorem timer_block_counterexample : ¬ timer_block_statement := by
  intro h
  have := h s0 [txW] txA txT (by decide) (by decide) (by decide) (by decide) (by decide)
  revert this
  decide

-- `block_with_timer_replayable`: a timer transaction that touches only its own key has no edge from the pool
def txT' : Tx := ⟨10, false, [], [], [⟨"z0", none⟩], [⟨"z0", "x", false⟩]⟩
example :
    (admitAll s0 0 ([txR, txW, txX, txY] ++ [txA, txT'])).isSome ∧
    (admitAll s0 0 (txA :: txT' :: [txX, txR, txW, txY])).isSome ∧
    (ids ([txR, txW, txX, txY] ++ [txA, txT'])).Nodup ∧
    (∀ u ∈ [txR, txW, txX, txY] ++ [txT'], edge u txT' = false) ∧ edge txW txT = true := by decide

-- an acyclic and a cyclic raw graph: sorted / refused under every listed iteration order
example : Acyclic { nodes := [1, 2, 3], edges := [(1, 2), (2, 3), (1, 3)] } :=
  ⟨fun n => n, by decide⟩
example :
    (topSortDFS { nodes := [1, 2, 3], edges := [(1, 2), (2, 3), (1, 3)] } [3, 2, 1]).order = some [1, 2, 3] ∧
    (topSortDFS { nodes := [1, 2, 3], edges := [(1, 2), (2, 3), (3, 1)] } [1, 2, 3]).order = none ∧
    (topSortDFS { nodes := [1, 2, 3, 4], edges := [(1, 2), (4, 3)] } [2, 3, 1, 4]).dagSizes = [2, 2] := by decide

end XV.C13
