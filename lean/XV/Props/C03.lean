import XV.Lemmas.Assoc
import XV.Lemmas.ChainFrame
import XV.Lemmas.InvTable
import XV.Lemmas.InvBlock
import XV.Lemmas.InvKeys
import XV.Lemmas.InvList
/-!
C03 — no double spend of outputs or key versions; admission iff inputs are current.
Theorems about the admission rule `admitTx` (= `CheckInputEqualOutput` + `XModel.verifyInputs/verifyOutputs`)
and the application `applyTx` of the L1 chain model.
-/
namespace XV.C03
open XV.Chain

/-- what "current" means for a token input -/
def inputCurrent (s : St) (lh : Int) (r : InRef) : Prop :=
  ∃ u, lookup s.U (r.tx, r.off) = some u ∧ u.addr = r.addr ∧ u.amt = r.amt ∧ r.raw = false ∧
       ¬ (u.frozen > lh) ∧ u.frozen ≠ -1

private theorem checkInputs_sound (s : St) (lh : Int) (ins : List InRef) (seen : List Ver) (acc n : Nat)
    (h : checkInputs s lh ins seen acc = .ok n) :
    (∀ r ∈ ins, inputCurrent s lh r ∧ (r.tx, r.off) ∉ seen) ∧
    (ins.map (fun r => (r.tx, r.off))).Nodup := by
  induction ins generalizing seen acc with
  | nil => simp
  | cons r rest ih =>
    unfold checkInputs at h
    split at h
    · simp at h
    · rename_i h1
      split at h
      · simp at h
      · rename_i u hu
        split at h
        · simp at h
        · rename_i h2
          split at h
          · simp at h
          · rename_i h3
            split at h
            · simp at h
            · rename_i h4
              obtain ⟨ih1, ih2⟩ := ih _ _ h
              have hraw : r.raw = false ∧ u.amt = r.amt := by
                simp only [Bool.or_eq_true, decide_eq_true_eq, not_or] at h3
                exact ⟨by simpa using h3.1, by simpa using h3.2⟩
              have hfr : ¬ (u.frozen > lh) ∧ u.frozen ≠ -1 := by
                simp only [Bool.or_eq_true, decide_eq_true_eq, beq_iff_eq, not_or] at h4
                exact h4
              have hns : (r.tx, r.off) ∉ seen := by simpa using h1
              constructor
              · intro x hx
                rcases List.mem_cons.mp hx with rfl | hx
                · exact ⟨⟨u, hu, by simpa using h2, hraw.2, hraw.1, hfr.1, hfr.2⟩, hns⟩
                · obtain ⟨c1, c2⟩ := ih1 x hx
                  exact ⟨c1, fun hm => c2 (List.mem_cons_of_mem _ hm)⟩
              · simp only [List.map_cons, List.nodup_cons]
                refine ⟨?_, ih2⟩
                intro hm
                obtain ⟨x, hx, hxe⟩ := List.mem_map.mp hm
                have := (ih1 x hx).2
                rw [hxe] at this
                exact this List.mem_cons_self

private theorem checkInputs_error_ne_ok (s : St) (lh : Int) (ins : List InRef) (seen : List Ver) (acc : Nat) :
    checkInputs s lh ins seen acc ≠ .error .ok := by
  induction ins generalizing seen acc with
  | nil => simp [checkInputs]
  | cons r rest ih =>
    unfold checkInputs
    split
    · simp
    · split
      · simp
      · split
        · simp
        · split
          · simp
          · split
            · simp
            · exact ih _ _

/-- what a successful `doTx` is -/
theorem doTx_ok (e : Env) (s : St) (lh : Int) (i : Nat) (h : (doTx e s lh i).2 = .ok) :
    i ∉ s.pool ∧ admitTx s lh (e.tx i) = .ok ∧
    (doTx e s lh i).1 = { applyTx s (e.tx i) with pool := s.pool ++ [i] } := by
  unfold doTx at h ⊢
  by_cases hp : i ∈ s.pool
  · simp [hp] at h
  · simp only [List.contains_eq_mem, hp, decide_false] at h ⊢
    cases hadm : admitTx s lh (e.tx i) <;> simp_all

/-- **admission is sound**: an admitted transaction spends only currently unspent, unfrozen outputs with the
cited owner and amount, pairwise distinct, and every key it read is at the version it cites; written keys were read. -/
theorem admit_sound (s : St) (lh : Int) (t : Tx) (h : admitTx s lh t = .ok) :
    (∀ r ∈ t.ins, inputCurrent s lh r) ∧ (t.ins.map (fun r => (r.tx, r.off))).Nodup ∧
    (∀ ki ∈ t.kin, curVer s ki.key = ki.ver) ∧ (∀ ko ∈ t.kout, ∃ ki ∈ t.kin, ki.key = ko.key) := by
  unfold admitTx checkInputEqualOutput at h
  cases hc : checkInputs s lh t.ins [] 0 with
  | error r =>
    have := checkInputs_error_ne_ok s lh t.ins [] 0
    simp only [hc] at h; cases r <;> simp_all
  | ok n =>
    obtain ⟨c1, c2⟩ := checkInputs_sound s lh t.ins [] 0 n hc
    simp only [hc] at h
    have hv : verifyRW s t = true := by
      cases hvv : verifyRW s t with
      | true => rfl
      | false =>
        simp only [hvv] at h
        split at h <;> simp_all
    unfold verifyRW at hv
    simp only [Bool.and_eq_true, List.all_eq_true, List.any_eq_true, beq_iff_eq] at hv
    refine ⟨fun r hr => (c1 r hr).1, c2, fun ki hki => hv.1 ki hki, ?_⟩
    intro ko hko
    obtain ⟨ki, hki, hk⟩ := hv.2 ko hko
    exact ⟨ki, hki, hk⟩

/-- no admitted non-coinbase transaction has inputs and outputs (fee included) of different sums -/
theorem admitted_balanced (s : St) (lh : Int) (t : Tx) (h : admitTx s lh t = .ok) (hc : t.coinbase = false) :
    ∃ n, checkInputs s lh t.ins [] 0 = .ok n ∧ n = outSum t.outs := by
  unfold admitTx checkInputEqualOutput at h
  cases hci : checkInputs s lh t.ins [] 0 with
  | error r =>
    have := checkInputs_error_ne_ok s lh t.ins [] 0
    simp only [hci] at h; cases r <;> simp_all
  | ok n =>
    refine ⟨n, rfl, ?_⟩
    simp only [hci, hc] at h
    by_cases hne : n = outSum t.outs
    · exact hne
    · simp [hne] at h

private theorem foldl_del_lookup (ins : List InRef) (u : List (Ver × UItem)) (k : Ver) :
    lookup (ins.foldl (fun u r => del u (r.tx, r.off)) u) k =
      if k ∈ ins.map (fun r => (r.tx, r.off)) then none else lookup u k := by
  induction ins generalizing u with
  | nil => simp
  | cons r rest ih =>
    simp only [List.foldl_cons, List.map_cons, List.mem_cons]
    rw [ih, lookup_del]
    by_cases h1 : k ∈ rest.map (fun r => (r.tx, r.off))
    · simp [h1]
    · by_cases h2 : (r.tx, r.off) = k
      · simp [h1, h2]
      · have : ¬ k = (r.tx, r.off) := fun e => h2 e.symm
        simp [h1, h2, this]

private theorem applyOuts_lookup_other (t : Tx) (l : List Out) (off : Nat) (s : St) (k : Ver) (hk : k.1 ≠ t.id) :
    lookup (applyOuts t l off s).U k = lookup s.U k := by
  induction l generalizing off s with
  | nil => simp [applyOuts]
  | cons o rest ih =>
    unfold applyOuts
    rw [ih]
    split
    · rfl
    · simp only
      rw [lookup_put]
      have : ¬ (t.id, off) = k := fun e => hk (by rw [← e])
      simp [this]

/-- **inputs are consumed**: after an admitted transaction is applied none of its token inputs is unspent any more
(transaction ids are hashes: an input never cites the transaction itself) -/
theorem consume (s : St) (t : Tx) (hself : ∀ r ∈ t.ins, r.tx ≠ t.id) :
    ∀ r ∈ t.ins, lookup (applyTx s t).U (r.tx, r.off) = none := by
  intro r hr
  unfold applyTx
  rw [applyOuts_lookup_other _ _ _ _ _ (by simpa using hself r hr)]
  simp only
  rw [foldl_del_lookup]
  have : (r.tx, r.off) ∈ t.ins.map (fun r => (r.tx, r.off)) := List.mem_map.mpr ⟨r, hr, rfl⟩
  simp [this]

/-- a spent output stays spent under every later transaction that is not the one that created it -/
theorem spent_stays_spent (s : St) (t : Tx) (k : Ver) (hk : k.1 ≠ t.id) (h : lookup s.U k = none) :
    lookup (applyTx s t).U k = none := by
  unfold applyTx
  rw [applyOuts_lookup_other _ _ _ _ _ hk]
  simp only
  rw [foldl_del_lookup, (applyKOut_frame t t.kout 0 s).1, h]
  split <;> rfl

/-- **no double spend in the pool**: two transactions admitted one after the other never share a token input -/
theorem no_double_spend_step (e : Env) (s : St) (lh : Int) (i j : Nat)
    (hself : ∀ r ∈ (e.tx i).ins, r.tx ≠ (e.tx i).id)
    (hi : (doTx e s lh i).2 = .ok) (hj : (doTx e (doTx e s lh i).1 lh j).2 = .ok) (hne : j ≠ i) :
    ∀ r ∈ (e.tx i).ins, ∀ r' ∈ (e.tx j).ins, (r.tx, r.off) ≠ (r'.tx, r'.off) := by
  intro r hr r' hr' heq
  obtain ⟨_, _, hs1⟩ := doTx_ok e s lh i hi
  obtain ⟨_, hadmj, _⟩ := doTx_ok e _ lh j hj
  have hgone := consume s (e.tx i) hself r hr
  obtain ⟨u, hu, _⟩ := (admit_sound _ lh _ hadmj).1 r' hr'
  rw [hs1] at hu
  simp only at hu
  rw [← heq, hgone] at hu
  exact absurd hu (by simp)

/-- a block that spends one output twice is refused by `Play` and by `Walk` -/
theorem block_double_spend_refused (e : Env) (s : St) (lh : Int) (b : Block) (hd : blockHasDupInput e b.txs = true) :
    (play e s lh b).2 ≠ .ok ∧ todoBlock e s lh b = none := by
  constructor
  · unfold play
    by_cases h1 : b.pre ≠ some s.pointer
    · simp [h1]
    · simp [h1, hd]
  · unfold todoBlock; simp [hd]

/-- a transaction that is already pending is not admitted a second time -/
theorem no_readmission (e : Env) (s : St) (lh : Int) (i : Nat) (h : i ∈ s.pool) : (doTx e s lh i).2 = .inpool := by
  unfold doTx; simp [h]

private theorem checkInputs_complete (s : St) (lh : Int) (ins : List InRef) (seen : List Ver) (acc : Nat)
    (hcur : ∀ r ∈ ins, inputCurrent s lh r)
    (hnd : (ins.map (fun r => (r.tx, r.off))).Nodup)
    (hseen : ∀ r ∈ ins, (r.tx, r.off) ∉ seen) :
    ∃ n, checkInputs s lh ins seen acc = .ok n := by
  induction ins generalizing seen acc with
  | nil => exact ⟨acc, rfl⟩
  | cons r rest ih =>
    obtain ⟨u, hu, ha, hamt, hraw, hf1, hf2⟩ := hcur r List.mem_cons_self
    unfold checkInputs
    have h1 : ¬ seen.contains (r.tx, r.off) = true := by simpa using hseen r List.mem_cons_self
    simp only [h1, hu, ha]
    have h3 : ¬ (r.raw || decide (u.amt ≠ r.amt)) = true := by simp [hraw, hamt]
    have h4 : ¬ (decide (u.frozen > lh) || u.frozen == -1) = true := by simp [hf1, hf2]
    simp only [ne_eq, not_true_eq_false, ↓reduceIte, h3, h4]
    simp only [List.map_cons, List.nodup_cons] at hnd
    apply ih
    · exact fun x hx => hcur x (List.mem_cons_of_mem _ hx)
    · exact hnd.2
    · intro x hx hm
      rcases List.mem_cons.mp hm with h | h
      · exact hnd.1 (List.mem_map.mpr ⟨x, hx, h⟩)
      · exact hseen x (List.mem_cons_of_mem _ hx) h

/-- **admission is complete** (the converse): a transaction all of whose token inputs are current and distinct, whose
read versions are current and whose written keys were read is never refused as not-found / stale / frozen / mismatched —
the only remaining refusal is an unbalanced sum -/
theorem admit_complete (s : St) (lh : Int) (t : Tx)
    (hcur : ∀ r ∈ t.ins, inputCurrent s lh r)
    (hnd : (t.ins.map (fun r => (r.tx, r.off))).Nodup)
    (hk : ∀ ki ∈ t.kin, curVer s ki.key = ki.ver)
    (hw : ∀ ko ∈ t.kout, ∃ ki ∈ t.kin, ki.key = ko.key) :
    admitTx s lh t = .ok ∨ admitTx s lh t = .balance := by
  obtain ⟨n, hn⟩ := checkInputs_complete s lh t.ins [] 0 hcur hnd (by simp)
  have hv : verifyRW s t = true := by
    unfold verifyRW
    simp only [Bool.and_eq_true, List.all_eq_true, List.any_eq_true, beq_iff_eq]
    exact ⟨hk, fun ko hko => by obtain ⟨ki, h1, h2⟩ := hw ko hko; exact ⟨ki, h1, h2⟩⟩
  unfold admitTx checkInputEqualOutput
  simp only [hn]
  by_cases h1 : n = outSum t.outs
  · left; simp [h1, hv]
  · by_cases h2 : n = 0 ∧ t.coinbase = true
    · left; simp [h1, h2, hv]
    · right; simp [h1, h2]

-- non-vacuity: a concrete admitted transfer, and the same transfer refused once its input is spent
example :
    let e : Env := { txs := [(1, ⟨1, false, [⟨0, 0, "u0", 5, 0, false⟩], [⟨"u1", 5, 0⟩], [], []⟩),
                             (2, ⟨2, false, [⟨0, 0, "u0", 5, 0, false⟩], [⟨"u2", 5, 0⟩], [], []⟩)] }
    let s : St := { U := [((0, 0), ⟨"u0", 5, 0⟩)] }
    (doTx e s 0 1).2 = .ok ∧ (doTx e (doTx e s 0 1).1 0 2).2 = .utxo := by decide

-- ================================================================ history level: no double spend in the pool

/-- `t` supersedes version `v` of key `k`: it writes `k` having read it at `v` (`none` = never written) -/
def supersedes (t : Tx) (k : String) (v : Option Ver) : Prop :=
  (∃ ko ∈ t.kout, ko.key = k) ∧ (∃ ki ∈ t.kin, ki.key = k ∧ ki.ver = v)

/-- hash-causality of a submitted transaction (ids are hashes of the content, so a transaction can only cite what
existed before it): its id is cited by no pending transaction — neither as the source of a token input nor as the writer
of a key version read — and it does not cite itself -/
structure Causal (e : Env) (s : St) (i : Nat) : Prop where
  notCited : ∀ j ∈ s.pool, ∀ r ∈ (e.tx j).ins, r.tx ≠ (e.tx i).id
  notCitedVer : ∀ j ∈ s.pool, ∀ ki ∈ (e.tx j).kin, ki.ver.map (·.1) ≠ some (e.tx i).id
  noSelf : ∀ r ∈ (e.tx i).ins, r.tx ≠ (e.tx i).id
  noSelfVer : ∀ ki ∈ (e.tx i).kin, ki.ver.map (·.1) ≠ some (e.tx i).id

/-- the token half of `Causal` -/
def CausalIns (e : Env) (s : St) (i : Nat) : Prop :=
  (∀ j ∈ s.pool, ∀ r ∈ (e.tx j).ins, r.tx ≠ (e.tx i).id) ∧ (∀ r ∈ (e.tx i).ins, r.tx ≠ (e.tx i).id)

theorem Causal.toIns {e : Env} {s : St} {i : Nat} (h : Causal e s i) : CausalIns e s i := ⟨h.notCited, h.noSelf⟩

/-- token part of the no-double-spend invariant, relative to a set `old` of transactions whose mutual disjointness is
not claimed (`old = []`: all pairs): every input of a pending transaction is spent, and two distinct pending
transactions not both in `old` share no token input -/
structure InsDisjoint (e : Env) (old : List Nat) (s : St) : Prop where
  insSpent : ∀ i ∈ s.pool, ∀ r ∈ (e.tx i).ins, lookup s.U (r.tx, r.off) = none
  disjoint : ∀ i ∈ s.pool, ∀ j ∈ s.pool, i ≠ j → ¬ (i ∈ old ∧ j ∈ old) →
    ∀ r ∈ (e.tx i).ins, ∀ r' ∈ (e.tx j).ins, (r.tx, r.off) ≠ (r'.tx, r'.off)

/-- key part: the versions superseded by pending transactions are not current, and two distinct pending transactions
not both in `old` supersede no common key version -/
structure VersDisjoint (e : Env) (old : List Nat) (s : St) : Prop where
  versGone : ∀ i ∈ s.pool, ∀ k v, supersedes (e.tx i) k v → curVer s k ≠ v
  disjoint : ∀ i ∈ s.pool, ∀ j ∈ s.pool, i ≠ j → ¬ (i ∈ old ∧ j ∈ old) →
    ∀ k v, supersedes (e.tx i) k v → ¬ supersedes (e.tx j) k v

theorem InsDisjoint_init (e : Env) (s : St)
    (h : ∀ i ∈ s.pool, ∀ r ∈ (e.tx i).ins, lookup s.U (r.tx, r.off) = none) : InsDisjoint e s.pool s :=
  ⟨h, fun _ hi _ hj _ hno => absurd ⟨hi, hj⟩ hno⟩

theorem VersDisjoint_init (e : Env) (s : St)
    (h : ∀ i ∈ s.pool, ∀ k v, supersedes (e.tx i) k v → curVer s k ≠ v) : VersDisjoint e s.pool s :=
  ⟨h, fun _ hi _ hj _ hno => absurd ⟨hi, hj⟩ hno⟩

theorem InsDisjoint_empty (e : Env) (old : List Nat) (s : St) (h : s.pool = []) : InsDisjoint e old s :=
  ⟨(by rw [h]; intro i hi; cases hi), (by rw [h]; intro i hi; cases hi)⟩

theorem VersDisjoint_empty (e : Env) (old : List Nat) (s : St) (h : s.pool = []) : VersDisjoint e old s :=
  ⟨(by rw [h]; intro i hi; cases hi), (by rw [h]; intro i hi; cases hi)⟩

/-- one admission keeps the token invariant: the new transaction's inputs were unspent, those of every pending
transaction were spent — so they differ — and afterwards all of them are spent -/
theorem doTx_InsDisjoint (e : Env) (old : List Nat) (s : St) (lh : Int) (i : Nat) (hinv : InsDisjoint e old s)
    (hc : (doTx e s lh i).2 = .ok → CausalIns e s i) : InsDisjoint e old (doTx e s lh i).1 := by
  by_cases hok : (doTx e s lh i).2 = .ok
  · obtain ⟨hnp, hadm, hs'⟩ := doTx_ok e s lh i hok
    have hca := hc hok
    obtain ⟨hcur, _, _, _⟩ := admit_sound s lh (e.tx i) hadm
    rw [hs']
    have hnew : ∀ a ∈ s.pool, ∀ r ∈ (e.tx a).ins, ∀ r' ∈ (e.tx i).ins, (r.tx, r.off) ≠ (r'.tx, r'.off) := by
      intro a ha r hr r' hr' heq
      obtain ⟨u, hu, _⟩ := hcur r' hr'
      rw [← heq, hinv.insSpent a ha r hr] at hu
      cases hu
    constructor
    · intro j hj r hr
      simp only at hj ⊢
      rcases List.mem_append.mp hj with hj | hj
      · exact spent_stays_spent s (e.tx i) (r.tx, r.off) (hca.1 j hj r hr) (hinv.insSpent j hj r hr)
      · simp only [List.mem_cons, List.not_mem_nil, or_false] at hj; subst hj
        exact consume s (e.tx j) hca.2 r hr
    · intro a ha0 b hb0 hab hold r hr r' hr'
      have ha := List.mem_append.mp ha0
      have hb := List.mem_append.mp hb0
      clear ha0 hb0
      simp only [List.mem_cons, List.not_mem_nil, or_false] at ha hb
      rcases ha with ha | ha
      · rcases hb with hb | hb
        · exact hinv.disjoint a ha b hb hab hold r hr r' hr'
        · rw [hb] at hr'
          exact hnew a ha r hr r' hr'
      · rcases hb with hb | hb
        · rw [ha] at hr
          exact fun heq => hnew b hb r' hr' r hr heq.symm
        · exact absurd (ha.trans hb.symm) hab
  · have : (doTx e s lh i).1 = s := by
      unfold doTx at hok ⊢
      by_cases hp : i ∈ s.pool
      · simp [hp]
      · simp only [List.contains_eq_mem, hp, decide_false] at hok ⊢
        cases hadm : admitTx s lh (e.tx i) <;> simp_all
    rw [this]; exact hinv

/-- one admission keeps the key invariant: the versions the new transaction read were current, those superseded by
pending transactions were not; afterwards every key it wrote is at a version of its own -/
theorem doTx_VersDisjoint (e : Env) (old : List Nat) (s : St) (lh : Int) (i : Nat) (hinv : VersDisjoint e old s)
    (hc : (doTx e s lh i).2 = .ok → Causal e s i) : VersDisjoint e old (doTx e s lh i).1 := by
  by_cases hok : (doTx e s lh i).2 = .ok
  · obtain ⟨hnp, hadm, hs'⟩ := doTx_ok e s lh i hok
    have hca := hc hok
    obtain ⟨_, _, hkin, _⟩ := admit_sound s lh (e.tx i) hadm
    rw [hs']
    have hnew : ∀ a ∈ s.pool, ∀ k v, supersedes (e.tx a) k v → ¬ supersedes (e.tx i) k v := by
      intro a ha k v hsa hsi
      obtain ⟨_, ki, hki, hkk, hkv⟩ := hsi
      have := hkin ki hki
      rw [hkk, hkv] at this
      exact hinv.versGone a ha k v hsa this
    constructor
    · intro j hj k v hsup
      show curVer (applyTx s (e.tx i)) k ≠ v
      simp only at hj
      by_cases hw : ∃ ko ∈ (e.tx i).kout, ko.key = k
      · obtain ⟨o, ho⟩ := applyTx_curVer_written s (e.tx i) k hw
        rw [ho]
        intro hv
        obtain ⟨_, ki, hki, _, hkv⟩ := hsup
        rcases List.mem_append.mp hj with hj | hj
        · exact hca.notCitedVer j hj ki hki (by rw [hkv.trans hv.symm]; rfl)
        · simp only [List.mem_cons, List.not_mem_nil, or_false] at hj; subst hj
          exact hca.noSelfVer ki hki (by rw [hkv.trans hv.symm]; rfl)
      · rw [applyTx_curVer_other s (e.tx i) k (fun ko hko he => hw ⟨ko, hko, he⟩)]
        rcases List.mem_append.mp hj with hj | hj
        · exact hinv.versGone j hj k v hsup
        · simp only [List.mem_cons, List.not_mem_nil, or_false] at hj; subst hj
          exact absurd hsup.1 hw
    · intro a ha0 b hb0 hab hold k v hsa hsb
      have ha := List.mem_append.mp ha0
      have hb := List.mem_append.mp hb0
      clear ha0 hb0
      simp only [List.mem_cons, List.not_mem_nil, or_false] at ha hb
      rcases ha with ha | ha
      · rcases hb with hb | hb
        · exact hinv.disjoint a ha b hb hab hold k v hsa hsb
        · rw [hb] at hsb
          exact hnew a ha k v hsa hsb
      · rcases hb with hb | hb
        · rw [ha] at hsa
          exact hnew b hb k v hsb hsa
        · exact absurd (ha.trans hb.symm) hab
  · have : (doTx e s lh i).1 = s := by
      unfold doTx at hok ⊢
      by_cases hp : i ∈ s.pool
      · simp [hp]
      · simp only [List.contains_eq_mem, hp, decide_false] at hok ⊢
        cases hadm : admitTx s lh (e.tx i) <;> simp_all
    rw [this]; exact hinv

/-- a history of pool submissions -/
def submitAll (e : Env) (lh : Int) : List Nat → St → St
  | [], s => s
  | i :: rest, s => submitAll e lh rest (doTx e s lh i).1

/-- every admitted submission of the history is hash-causal at the moment it is admitted -/
def CausalRun (e : Env) (lh : Int) : List Nat → St → Prop
  | [], _ => True
  | i :: rest, s => ((doTx e s lh i).2 = .ok → Causal e s i) ∧ CausalRun e lh rest (doTx e s lh i).1

/-- the token half of `CausalRun` -/
def CausalInsRun (e : Env) (lh : Int) : List Nat → St → Prop
  | [], _ => True
  | i :: rest, s => ((doTx e s lh i).2 = .ok → CausalIns e s i) ∧ CausalInsRun e lh rest (doTx e s lh i).1

theorem CausalRun.toIns {e : Env} {lh : Int} {subs : List Nat} {s : St} (h : CausalRun e lh subs s) :
    CausalInsRun e lh subs s := by
  induction subs generalizing s with
  | nil => trivial
  | cons i rest ih => exact ⟨fun hok => (h.1 hok).toIns, ih h.2⟩

theorem submitAll_InsDisjoint (e : Env) (old : List Nat) (lh : Int) (subs : List Nat) (s : St)
    (hinv : InsDisjoint e old s) (hc : CausalInsRun e lh subs s) : InsDisjoint e old (submitAll e lh subs s) := by
  induction subs generalizing s with
  | nil => exact hinv
  | cons i rest ih => exact ih _ (doTx_InsDisjoint e old s lh i hinv hc.1) hc.2

/-- **no double spend of token outputs over whole histories** (token half of `no_double_spend_pool`, needing only the
token half of the causality hypotheses) -/
theorem no_double_spend_pool_tokens (e : Env) (lh : Int) (subs : List Nat) (s : St)
    (hins : ∀ i ∈ s.pool, ∀ r ∈ (e.tx i).ins, lookup s.U (r.tx, r.off) = none)
    (hc : CausalInsRun e lh subs s) :
    (∀ i ∈ (submitAll e lh subs s).pool, ∀ r ∈ (e.tx i).ins, lookup (submitAll e lh subs s).U (r.tx, r.off) = none) ∧
    ∀ i ∈ (submitAll e lh subs s).pool, ∀ j ∈ (submitAll e lh subs s).pool, i ≠ j → ¬ (i ∈ s.pool ∧ j ∈ s.pool) →
      ∀ r ∈ (e.tx i).ins, ∀ r' ∈ (e.tx j).ins, (r.tx, r.off) ≠ (r'.tx, r'.off) := by
  have h := submitAll_InsDisjoint e s.pool lh subs s (InsDisjoint_init e s hins) hc
  exact ⟨h.insSpent, h.disjoint⟩

theorem submitAll_VersDisjoint (e : Env) (old : List Nat) (lh : Int) (subs : List Nat) (s : St)
    (hinv : VersDisjoint e old s) (hc : CausalRun e lh subs s) : VersDisjoint e old (submitAll e lh subs s) := by
  induction subs generalizing s with
  | nil => exact hinv
  | cons i rest ih => exact ih _ (doTx_VersDisjoint e old s lh i hinv hc.1) hc.2

/-- **no double spend over whole histories** (submission histories; for histories with `play`, `playForMiner` and `walk`,
and without the causality hypotheses, see `XV.C02.LedgerK` / `XV.C02.no_double_supersede`): after any list of submissions (each admitted one hash-causal) from a state
whose pending transactions have all their inputs spent and all their superseded versions non-current, two distinct
pending transactions — at least one of them admitted during the history — share no token input and supersede no common
key version -/
theorem no_double_spend_pool (e : Env) (lh : Int) (subs : List Nat) (s : St)
    (hins : ∀ i ∈ s.pool, ∀ r ∈ (e.tx i).ins, lookup s.U (r.tx, r.off) = none)
    (hver : ∀ i ∈ s.pool, ∀ k v, supersedes (e.tx i) k v → curVer s k ≠ v)
    (hc : CausalRun e lh subs s) :
    ∀ i ∈ (submitAll e lh subs s).pool, ∀ j ∈ (submitAll e lh subs s).pool, i ≠ j → ¬ (i ∈ s.pool ∧ j ∈ s.pool) →
      (∀ r ∈ (e.tx i).ins, ∀ r' ∈ (e.tx j).ins, (r.tx, r.off) ≠ (r'.tx, r'.off)) ∧
      (∀ k v, supersedes (e.tx i) k v → ¬ supersedes (e.tx j) k v) := by
  intro i hi j hj hij hold
  exact ⟨(submitAll_InsDisjoint e s.pool lh subs s (InsDisjoint_init e s hins) hc.toIns).disjoint i hi j hj hij hold,
    (submitAll_VersDisjoint e s.pool lh subs s (VersDisjoint_init e s hver) hc).disjoint i hi j hj hij hold⟩

/-- the same from an empty pool: *any* two distinct pending transactions are disjoint, and all their inputs are spent -/
theorem no_double_spend_pool_empty (e : Env) (lh : Int) (subs : List Nat) (s : St) (hempty : s.pool = [])
    (hc : CausalRun e lh subs s) :
    (∀ i ∈ (submitAll e lh subs s).pool, ∀ r ∈ (e.tx i).ins, lookup (submitAll e lh subs s).U (r.tx, r.off) = none) ∧
    ∀ i ∈ (submitAll e lh subs s).pool, ∀ j ∈ (submitAll e lh subs s).pool, i ≠ j →
      (∀ r ∈ (e.tx i).ins, ∀ r' ∈ (e.tx j).ins, (r.tx, r.off) ≠ (r'.tx, r'.off)) ∧
      (∀ k v, supersedes (e.tx i) k v → ¬ supersedes (e.tx j) k v) := by
  have h1 := submitAll_InsDisjoint e [] lh subs s (InsDisjoint_empty e [] s hempty) hc.toIns
  have h2 := submitAll_VersDisjoint e [] lh subs s (VersDisjoint_empty e [] s hempty) hc
  exact ⟨h1.insSpent, fun i hi j hj hij =>
    ⟨h1.disjoint i hi j hj hij (by simp), h2.disjoint i hi j hj hij (by simp)⟩⟩

-- non-vacuity: history [1, 2, 3, 4] from an empty pool. 2 re-spends the input of 1 (refused), 4 re-reads the version of
-- "k" that 1 superseded (refused), 3 spends another output and supersedes the version written by 1. Final pool [1, 3].
example :
    let e : Env := { txs := [
      (1, ⟨1, false, [⟨0, 0, "u0", 5, 0, false⟩], [⟨"u1", 5, 0⟩], [⟨"k", none⟩], [⟨"k", "a", false⟩]⟩),
      (2, ⟨2, false, [⟨0, 0, "u0", 5, 0, false⟩], [⟨"u2", 5, 0⟩], [], []⟩),
      (3, ⟨3, false, [⟨0, 1, "u0", 7, 0, false⟩], [⟨"u3", 7, 0⟩], [⟨"k", some (1, 0)⟩], [⟨"k", "b", false⟩]⟩),
      (4, ⟨4, false, [⟨1, 0, "u1", 5, 0, false⟩], [⟨"u4", 5, 0⟩], [⟨"k", none⟩], [⟨"k", "c", false⟩]⟩)] }
    let s : St := { U := [((0, 0), ⟨"u0", 5, 0⟩), ((0, 1), ⟨"u0", 7, 0⟩)] }
    CausalRun e 0 [1, 2, 3, 4] s ∧ (submitAll e 0 [1, 2, 3, 4] s).pool = [1, 3] ∧
    supersedes (e.tx 1) "k" none ∧ supersedes (e.tx 3) "k" (some (1, 0)) := by
  intro e s
  refine ⟨⟨fun _ => ⟨by decide, by decide, by decide, by decide⟩, fun _ => ⟨by decide, by decide, by decide, by decide⟩,
    fun _ => ⟨by decide, by decide, by decide, by decide⟩, fun _ => ⟨by decide, by decide, by decide, by decide⟩,
    trivial⟩, by decide, ?_, ?_⟩
  · exact ⟨⟨_, List.mem_cons_self, rfl⟩, ⟨_, List.mem_cons_self, rfl, rfl⟩⟩
  · exact ⟨⟨_, List.mem_cons_self, rfl⟩, ⟨_, List.mem_cons_self, rfl, rfl⟩⟩

-- ================================================================ no double spend inside a block

theorem blockInputs_nodup (e : Env) (txs : List Nat) (h : blockHasDupInput e txs = false) :
    (txs.flatMap (fun b => (e.tx b).ins.map (fun r => (r.tx, r.off)))).Nodup := by
  unfold blockHasDupInput at h
  simp only [Bool.not_eq_eq_eq_not, Bool.not_false, beq_iff_eq] at h
  exact XV.InvList.nodup_of_eraseDups_length _ h

/-- a block that passes the duplicate-input test: no transaction cites one output twice, and no two transactions of the
block (at different positions) cite the same output -/
theorem block_inputs_disjoint (e : Env) (txs : List Nat) (h : blockHasDupInput e txs = false) :
    (∀ i ∈ txs, ((e.tx i).ins.map (fun r => (r.tx, r.off))).Nodup) ∧
    txs.Pairwise (fun i j => ∀ r ∈ (e.tx i).ins, ∀ r' ∈ (e.tx j).ins, (r.tx, r.off) ≠ (r'.tx, r'.off)) := by
  have hnd := blockInputs_nodup e txs h
  unfold List.Nodup at hnd
  obtain ⟨h1, h2⟩ := List.pairwise_flatMap.mp hnd
  refine ⟨h1, List.Pairwise.imp ?_ h2⟩
  intro i j hij r hr r' hr'
  exact hij _ (List.mem_map.mpr ⟨r, hr, rfl⟩) _ (List.mem_map.mpr ⟨r', hr', rfl⟩)

/-- **a block applied by `todoBlock` never contains two transactions spending the same output** — in particular none
spending an output already consumed by an earlier transaction of the same block — nor a transaction citing one output twice -/
theorem todoBlock_no_double_spend (e : Env) (s s' : St) (lh : Int) (b : Block) (h : todoBlock e s lh b = some s') :
    (∀ i ∈ b.txs, ((e.tx i).ins.map (fun r => (r.tx, r.off))).Nodup) ∧
    b.txs.Pairwise (fun i j => ∀ r ∈ (e.tx i).ins, ∀ r' ∈ (e.tx j).ins, (r.tx, r.off) ≠ (r'.tx, r'.off)) := by
  apply block_inputs_disjoint
  cases hd : blockHasDupInput e b.txs
  · rfl
  · rw [(block_double_spend_refused e s lh b hd).2] at h; cases h

/-- the same for a block accepted by `play` -/
theorem play_no_double_spend (e : Env) (s : St) (lh : Int) (b : Block) (h : (play e s lh b).2 = .ok) :
    (∀ i ∈ b.txs, ((e.tx i).ins.map (fun r => (r.tx, r.off))).Nodup) ∧
    b.txs.Pairwise (fun i j => ∀ r ∈ (e.tx i).ins, ∀ r' ∈ (e.tx j).ins, (r.tx, r.off) ≠ (r'.tx, r'.off)) := by
  apply block_inputs_disjoint
  cases hd : blockHasDupInput e b.txs
  · rfl
  · exact absurd h (block_double_spend_refused e s lh b hd).1

/-- **every output consumed in a block is spent after the block**: the new transactions of the block (ids distinct, no
transaction cites itself or a later transaction of the block — ids are hashes) leave none of their inputs in the table;
each of them was admitted against the state in which the inputs of all earlier ones were already gone -/
theorem blockRun_inputs_spent (e : Env) (lh : Int) (prop : String) (isPool : Nat → Bool) (txs : List Nat) (s s2 : St)
    (h : blockRun e lh prop isPool txs s s2) (hid : ∀ i ∈ txs, (e.tx i).id = i)
    (hself : ∀ i ∈ txs, ∀ r ∈ (e.tx i).ins, r.tx ≠ i)
    (hord : txs.Pairwise (fun i j => ∀ r ∈ (e.tx i).ins, r.tx ≠ j)) :
    ∀ i ∈ txs, isPool i = false → ∀ r ∈ (e.tx i).ins, lookup s2.U (r.tx, r.off) = none := by
  induction txs generalizing s with
  | nil => intro i hi; cases hi
  | cons a rest ih =>
    simp only [List.pairwise_cons] at hord
    have hid' : ∀ j ∈ rest, (e.tx j).id = j := fun j hj => hid j (List.mem_cons_of_mem _ hj)
    have hself' : ∀ j ∈ rest, ∀ r ∈ (e.tx j).ins, r.tx ≠ j := fun j hj => hself j (List.mem_cons_of_mem _ hj)
    have hida := hid a List.mem_cons_self
    unfold blockRun at h
    intro i hi hp r hr
    rcases List.mem_cons.mp hi with hia | hir
    · subst hia
      simp only [hp, Bool.false_eq_true, ↓reduceIte] at h
      apply blockRun_lookup_none _ _ _ _ _ _ _ h.2 hid' (r.tx, r.off)
      · intro hm; exact absurd rfl (hord.1 r.tx hm r hr)
      · have hne : ((r.tx, r.off) : Ver).1 ≠ (e.tx i).id := by rw [hida]; exact hself i List.mem_cons_self r hr
        rw [payFee_lookup_otherid _ _ _ _ _ _ hne]
        exact consume s (e.tx i) (by rw [hida]; exact hself i List.mem_cons_self) r hr
    · split at h
      · exact ih _ h hid' hself' hord.2 i hir hp r hr
      · exact ih _ h.2 hid' hself' hord.2 i hir hp r hr

theorem todoBlock_inputs_spent (e : Env) (s s' : St) (lh : Int) (b : Block) (h : todoBlock e s lh b = some s')
    (hid : ∀ i ∈ b.txs, (e.tx i).id = i) (hself : ∀ i ∈ b.txs, ∀ r ∈ (e.tx i).ins, r.tx ≠ i)
    (hord : b.txs.Pairwise (fun i j => ∀ r ∈ (e.tx i).ins, r.tx ≠ j)) :
    ∀ i ∈ b.txs, ∀ r ∈ (e.tx i).ins, lookup s'.U (r.tx, r.off) = none := by
  unfold todoBlock at h
  split at h
  · cases h
  · split at h
    · rename_i s2 happ
      simp only [Option.some.injEq] at h
      subst h
      have hrun := applyBlockTxs_run e lh b.prop [] b.txs s s2 happ
      intro i hi r hr
      exact blockRun_inputs_spent e lh b.prop _ b.txs s s2 hrun hid hself hord i hi (by simp) r hr
    · cases h

-- non-vacuity: a block whose second transaction spends the output the first consumed is refused; spending the output
-- the first *created* is accepted, and both inputs are gone afterwards
example :
    let e : Env := { txs := [(1, ⟨1, false, [⟨0, 0, "u0", 5, 0, false⟩], [⟨"u1", 5, 0⟩], [], []⟩),
                             (2, ⟨2, false, [⟨0, 0, "u0", 5, 0, false⟩], [⟨"u2", 5, 0⟩], [], []⟩),
                             (3, ⟨3, false, [⟨1, 0, "u1", 5, 0, false⟩], [⟨"u3", 5, 0⟩], [], []⟩)] }
    let s : St := { U := [((0, 0), ⟨"u0", 5, 0⟩)] }
    todoBlock e s 0 ⟨20, some 0, 1, [1, 2], "m"⟩ = none ∧
    (todoBlock e s 0 ⟨21, some 0, 1, [1, 3], "m"⟩).map (·.U) = some [((3, 0), ⟨"u3", 5, 0⟩)] := by decide

end XV.C03
