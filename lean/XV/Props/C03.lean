import XV.Lemmas.Assoc
import XV.Lemmas.ChainFrame
/-!
C03 — no double spend of outputs or key versions; admission iff inputs are current.
Theorems about the admission rule `admitTx` (= `CheckInputEqualOutput` + `XModel.verifyInputs/verifyOutputs`)
and the application `applyTx` of the L1 chain model.
-/
namespace XV.C03
open XV.Chain

/-- what "current" means for a token input -/
def inputCurrent (s : St) (lh : Int) (r : InRef) : Prop :=
  ∃ u, lookup s.U (r.tx, r.off) = some u ∧ u.addr = r.addr ∧ u.amt = r.amt ∧ r.raw = false ∧
       ¬ (u.frozen > lh) ∧ u.frozen ≠ -1

private theorem checkInputs_sound (s : St) (lh : Int) (ins : List InRef) (seen : List Ver) (acc n : Nat)
    (h : checkInputs s lh ins seen acc = .ok n) :
    (∀ r ∈ ins, inputCurrent s lh r ∧ (r.tx, r.off) ∉ seen) ∧
    (ins.map (fun r => (r.tx, r.off))).Nodup := by
  induction ins generalizing seen acc with
  | nil => simp
  | cons r rest ih =>
    unfold checkInputs at h
    split at h
    · simp at h
    · rename_i h1
      split at h
      · simp at h
      · rename_i u hu
        split at h
        · simp at h
        · rename_i h2
          split at h
          · simp at h
          · rename_i h3
            split at h
            · simp at h
            · rename_i h4
              obtain ⟨ih1, ih2⟩ := ih _ _ h
              have hraw : r.raw = false ∧ u.amt = r.amt := by
                simp only [Bool.or_eq_true, decide_eq_true_eq, not_or] at h3
                exact ⟨by simpa using h3.1, by simpa using h3.2⟩
              have hfr : ¬ (u.frozen > lh) ∧ u.frozen ≠ -1 := by
                simp only [Bool.or_eq_true, decide_eq_true_eq, beq_iff_eq, not_or] at h4
                exact h4
              have hns : (r.tx, r.off) ∉ seen := by simpa using h1
              constructor
              · intro x hx
                rcases List.mem_cons.mp hx with rfl | hx
                · exact ⟨⟨u, hu, by simpa using h2, hraw.2, hraw.1, hfr.1, hfr.2⟩, hns⟩
                · obtain ⟨c1, c2⟩ := ih1 x hx
                  exact ⟨c1, fun hm => c2 (List.mem_cons_of_mem _ hm)⟩
              · simp only [List.map_cons, List.nodup_cons]
                refine ⟨?_, ih2⟩
                intro hm
                obtain ⟨x, hx, hxe⟩ := List.mem_map.mp hm
                have := (ih1 x hx).2
                rw [hxe] at this
                exact this List.mem_cons_self

private theorem checkInputs_error_ne_ok (s : St) (lh : Int) (ins : List InRef) (seen : List Ver) (acc : Nat) :
    checkInputs s lh ins seen acc ≠ .error .ok := by
  induction ins generalizing seen acc with
  | nil => simp [checkInputs]
  | cons r rest ih =>
    unfold checkInputs
    split
    · simp
    · split
      · simp
      · split
        · simp
        · split
          · simp
          · split
            · simp
            · exact ih _ _

/-- what a successful `doTx` is -/
theorem doTx_ok (e : Env) (s : St) (lh : Int) (i : Nat) (h : (doTx e s lh i).2 = .ok) :
    i ∉ s.pool ∧ admitTx s lh (e.tx i) = .ok ∧
    (doTx e s lh i).1 = { applyTx s (e.tx i) with pool := s.pool ++ [i] } := by
  unfold doTx at h ⊢
  by_cases hp : i ∈ s.pool
  · simp [hp] at h
  · simp only [List.contains_eq_mem, hp, decide_false] at h ⊢
    cases hadm : admitTx s lh (e.tx i) <;> simp_all

/-- **admission is sound**: an admitted transaction spends only currently unspent, unfrozen outputs with the
cited owner and amount, pairwise distinct, and every key it read is at the version it cites; written keys were read. -/
theorem admit_sound (s : St) (lh : Int) (t : Tx) (h : admitTx s lh t = .ok) :
    (∀ r ∈ t.ins, inputCurrent s lh r) ∧ (t.ins.map (fun r => (r.tx, r.off))).Nodup ∧
    (∀ ki ∈ t.kin, curVer s ki.key = ki.ver) ∧ (∀ ko ∈ t.kout, ∃ ki ∈ t.kin, ki.key = ko.key) := by
  unfold admitTx checkInputEqualOutput at h
  cases hc : checkInputs s lh t.ins [] 0 with
  | error r =>
    have := checkInputs_error_ne_ok s lh t.ins [] 0
    simp only [hc] at h; cases r <;> simp_all
  | ok n =>
    obtain ⟨c1, c2⟩ := checkInputs_sound s lh t.ins [] 0 n hc
    simp only [hc] at h
    have hv : verifyRW s t = true := by
      cases hvv : verifyRW s t with
      | true => rfl
      | false =>
        simp only [hvv] at h
        split at h <;> simp_all
    unfold verifyRW at hv
    simp only [Bool.and_eq_true, List.all_eq_true, List.any_eq_true, beq_iff_eq] at hv
    refine ⟨fun r hr => (c1 r hr).1, c2, fun ki hki => hv.1 ki hki, ?_⟩
    intro ko hko
    obtain ⟨ki, hki, hk⟩ := hv.2 ko hko
    exact ⟨ki, hki, hk⟩

/-- no admitted non-coinbase transaction has inputs and outputs (fee included) of different sums -/
theorem admitted_balanced (s : St) (lh : Int) (t : Tx) (h : admitTx s lh t = .ok) (hc : t.coinbase = false) :
    ∃ n, checkInputs s lh t.ins [] 0 = .ok n ∧ n = outSum t.outs := by
  unfold admitTx checkInputEqualOutput at h
  cases hci : checkInputs s lh t.ins [] 0 with
  | error r =>
    have := checkInputs_error_ne_ok s lh t.ins [] 0
    simp only [hci] at h; cases r <;> simp_all
  | ok n =>
    refine ⟨n, rfl, ?_⟩
    simp only [hci, hc] at h
    by_cases hne : n = outSum t.outs
    · exact hne
    · simp [hne] at h

private theorem foldl_del_lookup (ins : List InRef) (u : List (Ver × UItem)) (k : Ver) :
    lookup (ins.foldl (fun u r => del u (r.tx, r.off)) u) k =
      if k ∈ ins.map (fun r => (r.tx, r.off)) then none else lookup u k := by
  induction ins generalizing u with
  | nil => simp
  | cons r rest ih =>
    simp only [List.foldl_cons, List.map_cons, List.mem_cons]
    rw [ih, lookup_del]
    by_cases h1 : k ∈ rest.map (fun r => (r.tx, r.off))
    · simp [h1]
    · by_cases h2 : (r.tx, r.off) = k
      · simp [h1, h2]
      · have : ¬ k = (r.tx, r.off) := fun e => h2 e.symm
        simp [h1, h2, this]

private theorem applyOuts_lookup_other (t : Tx) (l : List Out) (off : Nat) (s : St) (k : Ver) (hk : k.1 ≠ t.id) :
    lookup (applyOuts t l off s).U k = lookup s.U k := by
  induction l generalizing off s with
  | nil => simp [applyOuts]
  | cons o rest ih =>
    unfold applyOuts
    rw [ih]
    split
    · rfl
    · simp only
      rw [lookup_put]
      have : ¬ (t.id, off) = k := fun e => hk (by rw [← e])
      simp [this]

/-- **inputs are consumed**: after an admitted transaction is applied none of its token inputs is unspent any more
(transaction ids are hashes: an input never cites the transaction itself) -/
theorem consume (s : St) (t : Tx) (hself : ∀ r ∈ t.ins, r.tx ≠ t.id) :
    ∀ r ∈ t.ins, lookup (applyTx s t).U (r.tx, r.off) = none := by
  intro r hr
  unfold applyTx
  rw [applyOuts_lookup_other _ _ _ _ _ (by simpa using hself r hr)]
  simp only
  rw [foldl_del_lookup]
  have : (r.tx, r.off) ∈ t.ins.map (fun r => (r.tx, r.off)) := List.mem_map.mpr ⟨r, hr, rfl⟩
  simp [this]

/-- a spent output stays spent under every later transaction that is not the one that created it -/
theorem spent_stays_spent (s : St) (t : Tx) (k : Ver) (hk : k.1 ≠ t.id) (h : lookup s.U k = none) :
    lookup (applyTx s t).U k = none := by
  unfold applyTx
  rw [applyOuts_lookup_other _ _ _ _ _ hk]
  simp only
  rw [foldl_del_lookup, (applyKOut_frame t t.kout 0 s).1, h]
  split <;> rfl

/-- **no double spend in the pool**: two transactions admitted one after the other never share a token input -/
theorem no_double_spend_step (e : Env) (s : St) (lh : Int) (i j : Nat)
    (hself : ∀ r ∈ (e.tx i).ins, r.tx ≠ (e.tx i).id)
    (hi : (doTx e s lh i).2 = .ok) (hj : (doTx e (doTx e s lh i).1 lh j).2 = .ok) (hne : j ≠ i) :
    ∀ r ∈ (e.tx i).ins, ∀ r' ∈ (e.tx j).ins, (r.tx, r.off) ≠ (r'.tx, r'.off) := by
  intro r hr r' hr' heq
  obtain ⟨_, _, hs1⟩ := doTx_ok e s lh i hi
  obtain ⟨_, hadmj, _⟩ := doTx_ok e _ lh j hj
  have hgone := consume s (e.tx i) hself r hr
  obtain ⟨u, hu, _⟩ := (admit_sound _ lh _ hadmj).1 r' hr'
  rw [hs1] at hu
  simp only at hu
  rw [← heq, hgone] at hu
  exact absurd hu (by simp)

/-- a block that spends one output twice is refused by `Play` and by `Walk` -/
theorem block_double_spend_refused (e : Env) (s : St) (lh : Int) (b : Block) (hd : blockHasDupInput e b.txs = true) :
    (play e s lh b).2 ≠ .ok ∧ todoBlock e s lh b = none := by
  constructor
  · unfold play
    by_cases h1 : b.pre ≠ some s.pointer
    · simp [h1]
    · simp [h1, hd]
  · unfold todoBlock; simp [hd]

/-- a transaction that is already pending is not admitted a second time -/
theorem no_readmission (e : Env) (s : St) (lh : Int) (i : Nat) (h : i ∈ s.pool) : (doTx e s lh i).2 = .inpool := by
  unfold doTx; simp [h]

private theorem checkInputs_complete (s : St) (lh : Int) (ins : List InRef) (seen : List Ver) (acc : Nat)
    (hcur : ∀ r ∈ ins, inputCurrent s lh r)
    (hnd : (ins.map (fun r => (r.tx, r.off))).Nodup)
    (hseen : ∀ r ∈ ins, (r.tx, r.off) ∉ seen) :
    ∃ n, checkInputs s lh ins seen acc = .ok n := by
  induction ins generalizing seen acc with
  | nil => exact ⟨acc, rfl⟩
  | cons r rest ih =>
    obtain ⟨u, hu, ha, hamt, hraw, hf1, hf2⟩ := hcur r List.mem_cons_self
    unfold checkInputs
    have h1 : ¬ seen.contains (r.tx, r.off) = true := by simpa using hseen r List.mem_cons_self
    simp only [h1, hu, ha]
    have h3 : ¬ (r.raw || decide (u.amt ≠ r.amt)) = true := by simp [hraw, hamt]
    have h4 : ¬ (decide (u.frozen > lh) || u.frozen == -1) = true := by simp [hf1, hf2]
    simp only [ne_eq, not_true_eq_false, ↓reduceIte, h3, h4]
    simp only [List.map_cons, List.nodup_cons] at hnd
    apply ih
    · exact fun x hx => hcur x (List.mem_cons_of_mem _ hx)
    · exact hnd.2
    · intro x hx hm
      rcases List.mem_cons.mp hm with h | h
      · exact hnd.1 (List.mem_map.mpr ⟨x, hx, h⟩)
      · exact hseen x (List.mem_cons_of_mem _ hx) h

/-- **admission is complete** (the converse): a transaction all of whose token inputs are current and distinct, whose
read versions are current and whose written keys were read is never refused as not-found / stale / frozen / mismatched —
the only remaining refusal is an unbalanced sum -/
theorem admit_complete (s : St) (lh : Int) (t : Tx)
    (hcur : ∀ r ∈ t.ins, inputCurrent s lh r)
    (hnd : (t.ins.map (fun r => (r.tx, r.off))).Nodup)
    (hk : ∀ ki ∈ t.kin, curVer s ki.key = ki.ver)
    (hw : ∀ ko ∈ t.kout, ∃ ki ∈ t.kin, ki.key = ko.key) :
    admitTx s lh t = .ok ∨ admitTx s lh t = .balance := by
  obtain ⟨n, hn⟩ := checkInputs_complete s lh t.ins [] 0 hcur hnd (by simp)
  have hv : verifyRW s t = true := by
    unfold verifyRW
    simp only [Bool.and_eq_true, List.all_eq_true, List.any_eq_true, beq_iff_eq]
    exact ⟨hk, fun ko hko => by obtain ⟨ki, h1, h2⟩ := hw ko hko; exact ⟨ki, h1, h2⟩⟩
  unfold admitTx checkInputEqualOutput
  simp only [hn]
  by_cases h1 : n = outSum t.outs
  · left; simp [h1, hv]
  · by_cases h2 : n = 0 ∧ t.coinbase = true
    · left; simp [h1, h2, hv]
    · right; simp [h1, h2]

-- non-vacuity: a concrete admitted transfer, and the same transfer refused once its input is spent
example :
    let e : Env := { txs := [(1, ⟨1, false, [⟨0, 0, "u0", 5, 0, false⟩], [⟨"u1", 5, 0⟩], [], []⟩),
                             (2, ⟨2, false, [⟨0, 0, "u0", 5, 0, false⟩], [⟨"u2", 5, 0⟩], [], []⟩)] }
    let s : St := { U := [((0, 0), ⟨"u0", 5, 0⟩)] }
    (doTx e s 0 1).2 = .ok ∧ (doTx e (doTx e s 0 1).1 0 2).2 = .utxo := by decide

end XV.C03
