import XV.Model.QcTree
/-!
C15 — the pending-proposal tree stays a tree; certified and committed markers only advance.

Everything is about `XV.QcTree` (the model of the repaired code).  `W` is the world
(content of every proposal id); the only assumption on it is that parent ids are
acyclic (`Acyclic W`: ids are hashes that cover the parent id).
-/
namespace XV.C15
open XV.QcTree

/-! ### descendants in the flat `sons` map -/

/-- `x` is in the subtree of `a` -/
inductive Desc (sons : Nat → List Nat) : Nat → Nat → Prop
  | refl (a : Nat) : Desc sons a a
  | step {a c x : Nat} : c ∈ sons a → Desc sons c x → Desc sons a x

theorem Desc.trans {sons a b c} (h1 : Desc sons a b) (h2 : Desc sons b c) : Desc sons a c := by
  induction h1 with
  | refl => exact h2
  | step hc _ ih => exact Desc.step hc (ih h2)

theorem Desc.tail {sons a b c} (h1 : Desc sons a b) (hc : c ∈ sons b) : Desc sons a c :=
  h1.trans (Desc.step hc (Desc.refl c))

/-- a set that contains `a` and is closed under the edges contains every descendant of `a` -/
theorem Desc.closed {sons : Nat → List Nat} {S : Nat → Prop} (hS : ∀ b c, S b → c ∈ sons b → S c)
    {a x} (h : Desc sons a x) (ha : S a) : S x := by
  induction h with
  | refl => exact ha
  | step hc _ ih => exact ih (hS _ _ ha hc)

/-- induction from the tail end -/
theorem Desc.tail_induction {sons : Nat → List Nat} {a : Nat} {P : Nat → Prop} (h0 : P a)
    (hs : ∀ b c, Desc sons a b → P b → c ∈ sons b → P c) {x} (h : Desc sons a x) : P x := by
  have : Desc sons a x ∧ P x := by
    refine Desc.closed (S := fun y => Desc sons a y ∧ P y) ?_ h ⟨Desc.refl a, h0⟩
    intro b c ⟨hb, hp⟩ hc
    exact ⟨hb.tail hc, hs b c hb hp hc⟩
  exact this.2

/-- either trivial or ends with an edge -/
theorem Desc.cases_tail {sons a x} (h : Desc sons a x) : x = a ∨ ∃ b, Desc sons a b ∧ x ∈ sons b := by
  refine Desc.tail_induction (P := fun x => x = a ∨ ∃ b, Desc sons a b ∧ x ∈ sons b) (Or.inl rfl) ?_ h
  intro b c hb _ hc
  exact Or.inr ⟨b, hb, hc⟩

/-- paths that use only edges present in `sons'` -/
theorem Desc.mono {sons sons' : Nat → List Nat} {S : Nat → Prop}
    (hS : ∀ b c, S b → c ∈ sons b → S c) (hsub : ∀ b c, S b → c ∈ sons b → c ∈ sons' b)
    {a x} (h : Desc sons a x) (ha : S a) : Desc sons' a x := by
  induction h with
  | refl => exact Desc.refl _
  | step hc _ ih => exact Desc.step (hsub _ _ ha hc) (ih (hS _ _ ha hc))

/-! ### the fuelled search against `Desc` -/

theorem dfs_sound {sons : Nat → List Nat} : ∀ {f n t}, dfs sons f n t = true → Desc sons n t := by
  intro f
  induction f with
  | zero => intro n t h; simp [dfs] at h
  | succ f ih =>
    intro n t h
    unfold dfs at h
    split at h
    · rename_i e; subst e; exact Desc.refl _
    · rw [List.any_eq_true] at h
      obtain ⟨c, hc, hd⟩ := h
      exact Desc.step hc (ih hd)

/-- explicit paths: the list of the nodes after the start, ending in the target -/
inductive Path (sons : Nat → List Nat) : Nat → List Nat → Nat → Prop
  | nil (a : Nat) : Path sons a [] a
  | cons {a c x : Nat} {l : List Nat} : c ∈ sons a → Path sons c l x → Path sons a (c :: l) x

theorem Path.of_desc {sons a x} (h : Desc sons a x) : ∃ l, Path sons a l x := by
  induction h with
  | refl => exact ⟨[], Path.nil _⟩
  | step hc _ ih => obtain ⟨l, hl⟩ := ih; exact ⟨_ :: l, Path.cons hc hl⟩

theorem Path.desc {sons a l x} (h : Path sons a l x) : Desc sons a x := by
  induction h with
  | nil => exact Desc.refl _
  | cons hc _ ih => exact Desc.step hc ih

theorem Path.mem_desc {sons a l x} (h : Path sons a l x) : ∀ y ∈ l, Desc sons a y := by
  induction h with
  | nil => intro y hy; simp at hy
  | cons hc _ ih =>
    intro y hy
    rcases List.mem_cons.mp hy with e | hy
    · subst e; exact Desc.step hc (Desc.refl _)
    · exact Desc.step hc (ih y hy)

theorem dfs_of_path {sons : Nat → List Nat} {a l x} (h : Path sons a l x) :
    ∀ f, l.length < f → dfs sons f a x = true := by
  induction h with
  | nil a => intro f hf; cases f with
    | zero => omega
    | succ f => simp [dfs]
  | cons hc _ ih =>
    intro f hf
    cases f with
    | zero => omega
    | succ f =>
      unfold dfs
      split
      · rfl
      · rw [List.any_eq_true]
        exact ⟨_, hc, ih f (by simp at hf; omega)⟩

/-! ### acyclic parent ids bound the depth of every path by the number of placed ids -/

/-- parent ids are acyclic (an id is a hash that covers its parent id) -/
def Acyclic (W : World) : Prop := ∃ rk : Nat → Nat, ∀ x p, (W x).parent = some p → rk p < rk x

/-- every edge of the `sons` map agrees with the `ParentId` of the son -/
def EdgeOK (W : World) (sons : Nat → List Nat) : Prop := ∀ a c, c ∈ sons a → (W c).parent = some a

section rank
variable {W : World} {rk : Nat → Nat} (hrk : ∀ x p, (W x).parent = some p → rk p < rk x)
include hrk

theorem desc_rank {sons a x} (he : EdgeOK W sons) (h : Desc sons a x) : x = a ∨ rk a < rk x := by
  induction h with
  | refl => exact Or.inl rfl
  | step hc _ ih =>
    have h1 := hrk _ _ (he _ _ hc)
    rcases ih with e | h2
    · subst e; exact Or.inr h1
    · exact Or.inr (Nat.lt_trans h1 h2)

theorem desc_rank_le {sons a x} (he : EdgeOK W sons) (h : Desc sons a x) : rk a ≤ rk x := by
  rcases desc_rank hrk he h with e | h
  · subst e; exact Nat.le_refl _
  · exact Nat.le_of_lt h

theorem path_nodup {sons a l x} (he : EdgeOK W sons) (h : Path sons a l x) : (a :: l).Nodup := by
  induction h with
  | nil => simp
  | @cons a c x l hc hp ih =>
    refine List.nodup_cons.mpr ⟨?_, ih⟩
    intro hmem
    have hd : Desc sons c a := by
      rcases List.mem_cons.mp hmem with e | hm
      · subst e; exact Desc.refl _
      · exact hp.mem_desc a hm
    have h1 := hrk _ _ (he _ _ hc)
    have h2 := desc_rank_le hrk he hd
    omega

theorem dfs_complete {sons a x} {tbl : List Nat} (he : EdgeOK W sons)
    (hT : ∀ y, Desc sons a y → y ∈ tbl) (h : Desc sons a x) : dfs sons tbl.length a x = true := by
  obtain ⟨l, hl⟩ := Path.of_desc h
  apply dfs_of_path hl
  have hnd := path_nodup hrk he hl
  have hsub : (a :: l) ⊆ tbl := by
    intro y hy
    rcases List.mem_cons.mp hy with e | hy
    · subst e; exact hT _ (Desc.refl _)
    · exact hT _ (hl.mem_desc y hy)
  have := List.Nodup.length_le_of_subset hnd hsub
  simp at this
  omega

end rank

/-! ### the invariant -/

def InMain (s : St) (x : Nat) : Prop := Desc s.sons s.root x
def InOrph (s : St) (x : Nat) : Prop := ∃ r, r ∈ s.orphans ∧ Desc s.sons r x
/-- `x` is stored: in the tree below Root or in the orphan forest -/
def Stored (s : St) (x : Nat) : Prop := InMain s x ∨ InOrph s x

structure Inv (W : World) (s : St) : Prop where
  edge : EdgeOK W s.sons
  sonsNodup : ∀ a, (s.sons a).Nodup
  orphNodup : s.orphans.Nodup
  top : ∀ a c, Stored s a → c ∈ s.sons a → c ≠ s.root ∧ c ∉ s.orphans
  rootNotOrph : s.root ∉ s.orphans
  orphParent : ∀ r, r ∈ s.orphans → ∀ p, (W r).parent = some p → ¬ Stored s p
  omap : ∀ x, InOrph s x → x ∈ s.omap
  tbl : ∀ x, Stored s x → x ∈ s.tbl

theorem Stored.son {s : St} {a c} (h : Stored s a) (hc : c ∈ s.sons a) : Stored s c := by
  rcases h with h | ⟨r, hr, h⟩
  · exact Or.inl (Desc.tail h hc)
  · exact Or.inr ⟨r, hr, Desc.tail h hc⟩

theorem Stored.desc {s : St} {a x} (h : Stored s a) (hx : Desc s.sons a x) : Stored s x := by
  rcases h with h | ⟨r, hr, h⟩
  · exact Or.inl (Desc.trans h hx)
  · exact Or.inr ⟨r, hr, Desc.trans h hx⟩

theorem Inv.of_eq {W : World} {s s' : St} (h : Inv W s) (h1 : s'.sons = s.sons) (h2 : s'.root = s.root)
    (h3 : s'.orphans = s.orphans) (h4 : s'.omap = s.omap) (h5 : s'.tbl = s.tbl) : Inv W s' := by
  have hm : ∀ x, InMain s' x ↔ InMain s x := by intro x; unfold InMain; rw [h1, h2]
  have ho : ∀ x, InOrph s' x ↔ InOrph s x := by intro x; unfold InOrph; rw [h1, h3]
  have hs : ∀ x, Stored s' x ↔ Stored s x := by intro x; unfold Stored; rw [hm, ho]
  constructor
  · rw [h1]; exact h.edge
  · rw [h1]; exact h.sonsNodup
  · rw [h3]; exact h.orphNodup
  · intro a c ha hc; rw [h2, h3]; rw [h1] at hc; exact h.top a c ((hs a).mp ha) hc
  · rw [h2, h3]; exact h.rootNotOrph
  · intro r hr p hp hst; rw [h3] at hr; exact h.orphParent r hr p hp ((hs p).mp hst)
  · intro x hx; rw [h4]; exact h.omap x ((ho x).mp hx)
  · intro x hx; rw [h5]; exact h.tbl x ((hs x).mp hx)

/-- no id is both in the tree and in the orphan forest, and no id is in two orphan trees -/
theorem Inv.top_unique {W : World} {s : St} (h : Inv W s) {t1 t2 x : Nat}
    (ht1 : t1 = s.root ∨ t1 ∈ s.orphans) (ht2 : t2 = s.root ∨ t2 ∈ s.orphans)
    (h1 : Desc s.sons t1 x) (h2 : Desc s.sons t2 x) : t1 = t2 := by
  have st1 : Stored s t1 := by
    rcases ht1 with e | e
    · exact Or.inl (e ▸ Desc.refl _)
    · exact Or.inr ⟨t1, e, Desc.refl _⟩
  have st2 : Stored s t2 := by
    rcases ht2 with e | e
    · exact Or.inl (e ▸ Desc.refl _)
    · exact Or.inr ⟨t2, e, Desc.refl _⟩
  have notson : ∀ t, (t = s.root ∨ t ∈ s.orphans) → ∀ b, Stored s b → t ∈ s.sons b → False := by
    intro t ht b hb hc
    have := h.top b t hb hc
    rcases ht with e | e
    · exact this.1 e
    · exact this.2 e
  revert h2
  refine Desc.tail_induction (P := fun x => Desc s.sons t2 x → t1 = t2) ?_ ?_ h1
  · intro h2
    rcases h2.cases_tail with e | ⟨b, hb, hc⟩
    · exact e
    · exact (notson t1 ht1 b (st2.desc hb) hc).elim
  · intro b c hb ih hc h2
    rcases h2.cases_tail with e | ⟨b', hb', hc'⟩
    · subst e; exact (notson c ht2 b (st1.desc hb) hc).elim
    · have e1 := h.edge _ _ hc
      have e2 := h.edge _ _ hc'
      have : b = b' := by rw [e1] at e2; exact Option.some.inj e2
      subst this
      exact ih hb'

section rank2
variable {W : World} {rk : Nat → Nat} (hrk : ∀ x p, (W x).parent = some p → rk p < rk x)
include hrk

theorem inMain_iff {s : St} (h : Inv W s) (x : Nat) : inMain s x = true ↔ InMain s x := by
  constructor
  · exact dfs_sound
  · intro hx
    exact dfs_complete hrk h.edge (fun y hy => h.tbl y (Or.inl hy)) hx

theorem inTree_iff {s : St} (h : Inv W s) {r : Nat} (hr : r ∈ s.orphans) (x : Nat) :
    inTree s r x = true ↔ Desc s.sons r x := by
  constructor
  · exact dfs_sound
  · intro hx
    exact dfs_complete hrk h.edge (fun y hy => h.tbl y (Or.inr ⟨r, hr, hy⟩)) hx

end rank2

/-! ### placing a new node (the common shape of `insert` into the tree / under an orphan / as a new orphan root) -/

def place (s : St) (node p : Nat) (kids rest : List Nat) (attach : Bool) (om : List Nat) : St :=
  { s with sons := if attach then upd (upd s.sons node kids) p (s.sons p ++ [node]) else upd s.sons node kids,
           orphans := if attach then rest else rest ++ [node], omap := om, tbl := addTbl s.tbl node }

theorem mem_addTbl {tbl : List Nat} {x y : Nat} : y ∈ addTbl tbl x ↔ y ∈ tbl ∨ y = x := by
  unfold addTbl
  split
  · constructor
    · exact Or.inl
    · rintro (h | h)
      · exact h
      · subst h; assumption
  · simp [List.mem_cons, or_comm]

structure PlaceHyp (W : World) (s : St) (node p : Nat) (kids rest : List Nat) (attach : Bool) (om : List Nat) : Prop where
  inv : Inv W s
  par : (W node).parent = some p
  ne : p ≠ node
  fresh : ¬ Stored s node
  kidsSub : ∀ k, k ∈ kids → k ∈ s.orphans ∧ (W k).parent = some node
  restSub : ∀ r, r ∈ rest → r ∈ s.orphans ∧ (W r).parent ≠ some node
  kidsNodup : kids.Nodup
  restNodup : rest.Nodup
  kidsNotAbove : ∀ k, k ∈ kids → ¬ Desc s.sons k p
  omSub : ∀ x, x ∈ s.omap → x ∈ om
  cases : (attach = true ∧ InMain s p) ∨
          (attach = true ∧ (∃ r, r ∈ rest ∧ Desc s.sons r p) ∧ node ∈ om) ∨
          (attach = false ∧ ¬ InMain s p ∧ (∀ r, r ∈ rest → ¬ Desc s.sons r p) ∧ node ∈ om)

section place
variable {W : World} {s : St} {node p : Nat} {kids rest : List Nat} {attach : Bool} {om : List Nat}

theorem PlaceHyp.storedP (h : PlaceHyp W s node p kids rest attach om) (ha : attach = true) : Stored s p := by
  rcases h.cases with ⟨_, h1⟩ | ⟨_, ⟨r, hr, hd⟩, _⟩ | ⟨hf, _⟩
  · exact Or.inl h1
  · exact Or.inr ⟨r, (h.restSub r hr).1, hd⟩
  · rw [ha] at hf; cases hf

/-- the edges of the new `sons` map -/
theorem place_sons_sub (hne : p ≠ node) {b c : Nat}
    (hc : c ∈ (place s node p kids rest attach om).sons b) :
    (b = node ∧ c ∈ kids) ∨ (attach = true ∧ b = p ∧ c = node) ∨ (b ≠ node ∧ c ∈ s.sons b) := by
  unfold place at hc
  simp only at hc
  cases attach with
  | true =>
    simp only [if_true, upd] at hc
    by_cases hb : b = p
    · subst hb
      simp only [if_true] at hc
      rcases List.mem_append.mp hc with h | h
      · exact Or.inr (Or.inr ⟨hne, h⟩)
      · simp at h; exact Or.inr (Or.inl ⟨rfl, rfl, h⟩)
    · simp only [hb, if_false] at hc
      by_cases hn : b = node
      · simp only [hn, if_true] at hc; exact Or.inl ⟨hn, hc⟩
      · simp only [hn, if_false] at hc; exact Or.inr (Or.inr ⟨hn, hc⟩)
  | false =>
    simp only [upd, Bool.false_eq_true, if_false] at hc
    by_cases hn : b = node
    · simp only [hn, if_true] at hc; exact Or.inl ⟨hn, hc⟩
    · simp only [hn, if_false] at hc; exact Or.inr (Or.inr ⟨hn, hc⟩)

theorem place_sons_old (hne : p ≠ node) {b c : Nat} (hb : b ≠ node) (hc : c ∈ s.sons b) :
    c ∈ (place s node p kids rest attach om).sons b := by
  unfold place
  simp only
  cases attach with
  | true =>
    simp only [if_true, upd]
    by_cases hbp : b = p
    · subst hbp; simp only [if_true]; exact List.mem_append.mpr (Or.inl hc)
    · simp only [hbp, hb, if_false]; exact hc
  | false =>
    simp only [upd, Bool.false_eq_true, if_false, hb]; exact hc

theorem place_sons_kid (hne : p ≠ node) {k : Nat} (hk : k ∈ kids) :
    k ∈ (place s node p kids rest attach om).sons node := by
  unfold place
  simp only
  cases attach with
  | true => simp only [if_true, upd, Ne.symm hne, if_false]; exact hk
  | false => simp only [upd, Bool.false_eq_true, if_false, if_true]; exact hk

theorem place_sons_node {kids rest om} : node ∈ (place s node p kids rest true om).sons p := by
  unfold place
  simp [upd]

/-- what can be stored after the placement -/
def Q (s : St) (node : Nat) (kids rest : List Nat) (x : Nat) : Prop :=
  InMain s x ∨ (∃ r, r ∈ rest ∧ Desc s.sons r x) ∨ x = node ∨ (∃ k, k ∈ kids ∧ Desc s.sons k x)

theorem Q_closed (hne : p ≠ node) {b c : Nat} (hb : Q s node kids rest b)
    (hc : c ∈ (place s node p kids rest attach om).sons b) : Q s node kids rest c := by
  rcases place_sons_sub hne hc with ⟨_, hk⟩ | ⟨_, _, e⟩ | ⟨hbn, hcs⟩
  · exact Or.inr (Or.inr (Or.inr ⟨c, hk, Desc.refl _⟩))
  · exact Or.inr (Or.inr (Or.inl e))
  · rcases hb with h | ⟨r, hr, h⟩ | h | ⟨k, hk, h⟩
    · exact Or.inl (Desc.tail h hcs)
    · exact Or.inr (Or.inl ⟨r, hr, Desc.tail h hcs⟩)
    · exact (hbn h).elim
    · exact Or.inr (Or.inr (Or.inr ⟨k, hk, Desc.tail h hcs⟩))

theorem place_orphans_mem {r : Nat} (hr : r ∈ (place s node p kids rest attach om).orphans) :
    r ∈ rest ∨ (attach = false ∧ r = node) := by
  unfold place at hr
  simp only at hr
  cases attach with
  | true => simp only [if_true] at hr; exact Or.inl hr
  | false =>
    simp only [Bool.false_eq_true, if_false] at hr
    rcases List.mem_append.mp hr with h | h
    · exact Or.inl h
    · simp at h; exact Or.inr ⟨rfl, h⟩

theorem place_stored_Q (hne : p ≠ node) {x : Nat}
    (hx : Stored (place s node p kids rest attach om) x) : Q s node kids rest x := by
  rcases hx with h | ⟨r, hr, h⟩
  · refine Desc.closed (S := Q s node kids rest) (fun b c hb hc => Q_closed hne hb hc) h ?_
    exact Or.inl (Desc.refl _)
  · refine Desc.closed (S := Q s node kids rest) (fun b c hb hc => Q_closed hne hb hc) h ?_
    rcases place_orphans_mem hr with h | ⟨_, e⟩
    · exact Or.inr (Or.inl ⟨r, h, Desc.refl _⟩)
    · exact Or.inr (Or.inr (Or.inl e))

theorem PlaceHyp.Q_stored (h : PlaceHyp W s node p kids rest attach om) {x : Nat}
    (hx : Q s node kids rest x) : Stored s x ∨ x = node := by
  rcases hx with h1 | ⟨r, hr, h1⟩ | h1 | ⟨k, hk, h1⟩
  · exact Or.inl (Or.inl h1)
  · exact Or.inl (Or.inr ⟨r, (h.restSub r hr).1, h1⟩)
  · exact Or.inr h1
  · exact Or.inl (Or.inr ⟨k, (h.kidsSub k hk).1, h1⟩)

/-- old paths from stored nodes survive (they never pass through the fresh `node`) -/
theorem PlaceHyp.desc_old (h : PlaceHyp W s node p kids rest attach om) {a x : Nat} (ha : Stored s a)
    (hx : Desc s.sons a x) : Desc (place s node p kids rest attach om).sons a x := by
  refine Desc.mono (S := Stored s) (fun b c hb hc => hb.son hc) ?_ hx ha
  intro b c hb hc
  refine place_sons_old h.ne ?_ hc
  intro e; subst e; exact h.fresh hb

theorem PlaceHyp.node_not_rest (h : PlaceHyp W s node p kids rest attach om) : node ∉ rest := by
  intro hm
  exact h.fresh (Or.inr ⟨node, (h.restSub node hm).1, Desc.refl _⟩)

theorem PlaceHyp.root_ne (h : PlaceHyp W s node p kids rest attach om) : s.root ≠ node := by
  intro e
  exact h.fresh (Or.inl (e ▸ Desc.refl _))

theorem place_inv (h : PlaceHyp W s node p kids rest attach om) :
    Inv W (place s node p kids rest attach om) := by
  have hI := h.inv
  have hne := h.ne
  constructor
  · -- edge
    intro b c hc
    rcases place_sons_sub hne hc with ⟨e, hk⟩ | ⟨_, e1, e2⟩ | ⟨_, hcs⟩
    · subst e; exact (h.kidsSub c hk).2
    · subst e1; subst e2; exact h.par
    · exact hI.edge b c hcs
  · -- sonsNodup
    intro b
    unfold place
    simp only
    cases hat : attach with
    | true =>
      simp only [if_true, upd]
      by_cases hb : b = p
      · subst hb
        simp only [if_true]
        refine List.nodup_append.mpr ⟨hI.sonsNodup b, by simp, ?_⟩
        intro x hx y hy
        simp at hy; subst hy
        intro e; subst e
        exact h.fresh ((h.storedP hat).son hx)
      · simp only [hb, if_false]
        by_cases hn : b = node
        · simp only [hn, if_true]; exact h.kidsNodup
        · simp only [hn, if_false]; exact hI.sonsNodup b
    | false =>
      simp only [upd, Bool.false_eq_true, if_false]
      by_cases hn : b = node
      · simp only [hn, if_true]; exact h.kidsNodup
      · simp only [hn, if_false]; exact hI.sonsNodup b
  · -- orphNodup
    unfold place
    simp only
    cases attach with
    | true => simp only [if_true]; exact h.restNodup
    | false =>
      simp only [Bool.false_eq_true, if_false]
      refine List.nodup_append.mpr ⟨h.restNodup, by simp, ?_⟩
      intro x hx y hy
      simp at hy; subst hy
      intro e; subst e
      exact h.node_not_rest hx
  · -- top
    intro a c ha hc
    have hQ := place_stored_Q hne ha
    have notin : c ≠ node → c ∉ rest → c ∉ (place s node p kids rest attach om).orphans := by
      intro h1 h2 hm
      rcases place_orphans_mem hm with h3 | ⟨_, h3⟩
      · exact h2 h3
      · exact h1 h3
    change c ≠ s.root ∧ _
    rcases place_sons_sub hne hc with ⟨_, hk⟩ | ⟨hat, _, e2⟩ | ⟨han, hcs⟩
    · have hk' := h.kidsSub c hk
      refine ⟨?_, notin ?_ ?_⟩
      · intro e; rw [e] at hk'; exact hI.rootNotOrph hk'.1
      · intro e; subst e; exact h.fresh (Or.inr ⟨c, hk'.1, Desc.refl _⟩)
      · intro hr; exact (h.restSub c hr).2 hk'.2
    · subst e2
      refine ⟨fun e => h.root_ne e.symm, ?_⟩
      intro hm
      rcases place_orphans_mem hm with h3 | ⟨h3, _⟩
      · exact h.node_not_rest h3
      · rw [hat] at h3; cases h3
    · have hsa : Stored s a := by
        rcases h.Q_stored hQ with h1 | h1
        · exact h1
        · exact (han h1).elim
      have := hI.top a c hsa hcs
      refine ⟨this.1, notin ?_ ?_⟩
      · intro e; subst e; exact h.fresh (hsa.son hcs)
      · intro hr; exact this.2 (h.restSub c hr).1
  · -- rootNotOrph
    intro hm
    change s.root ∈ _ at hm
    rcases place_orphans_mem hm with h3 | ⟨_, h3⟩
    · exact hI.rootNotOrph (h.restSub _ h3).1
    · exact h.root_ne h3
  · -- orphParent
    intro r hr q hq hst
    have hQ := place_stored_Q hne hst
    rcases place_orphans_mem hr with h3 | ⟨hat, e⟩
    · have h4 := h.restSub r h3
      rcases h.Q_stored hQ with h5 | h5
      · exact hI.orphParent r h4.1 q hq h5
      · subst h5; exact h4.2 hq
    · subst e
      have : q = p := by have := h.par; rw [hq] at this; exact Option.some.inj this
      subst this
      rcases h.cases with ⟨hf, _⟩ | ⟨hf, _⟩ | ⟨_, hnm, hnr, _⟩
      · rw [hat] at hf; cases hf
      · rw [hat] at hf; cases hf
      · rcases hQ with h1 | ⟨r', hr', h1⟩ | h1 | ⟨k, hk, h1⟩
        · exact hnm h1
        · exact hnr r' hr' h1
        · exact hne h1
        · exact h.kidsNotAbove k hk h1
  · -- omap
    intro x hx
    change x ∈ om
    obtain ⟨r, hr, hd⟩ := hx
    rcases h.cases with ⟨hat, hmain⟩ | hrest
    · -- attached below the tree: the orphan forest only shrinks
      subst hat
      have hr' : r ∈ rest := by
        rcases place_orphans_mem hr with h3 | ⟨h3, _⟩
        · exact h3
        · cases h3
      have : ∃ r', r' ∈ rest ∧ Desc s.sons r' x := by
        refine Desc.closed (S := fun y => ∃ r', r' ∈ rest ∧ Desc s.sons r' y) ?_ hd ⟨r, hr', Desc.refl _⟩
        intro b c ⟨r', hr', hb⟩ hc
        have hsb : Stored s b := Or.inr ⟨r', (h.restSub r' hr').1, hb⟩
        rcases place_sons_sub hne hc with ⟨e, _⟩ | ⟨_, e1, _⟩ | ⟨_, hcs⟩
        · subst e; exact (h.fresh hsb).elim
        · subst e1
          have := hI.top_unique (Or.inl rfl) (Or.inr (h.restSub r' hr').1) hmain hb
          rw [← this] at hr'
          exact (hI.rootNotOrph (h.restSub _ hr').1).elim
        · exact ⟨r', hr', Desc.tail hb hcs⟩
      obtain ⟨r', hr', hd'⟩ := this
      exact h.omSub x (hI.omap x ⟨r', (h.restSub r' hr').1, hd'⟩)
    · have hnom : node ∈ om := by
        rcases hrest with ⟨_, _, h1⟩ | ⟨_, _, _, h1⟩
        · exact h1
        · exact h1
      have hQ : (∃ r', r' ∈ rest ∧ Desc s.sons r' x) ∨ x = node ∨ (∃ k, k ∈ kids ∧ Desc s.sons k x) := by
        refine Desc.closed (S := fun y => (∃ r', r' ∈ rest ∧ Desc s.sons r' y) ∨ y = node ∨
          (∃ k, k ∈ kids ∧ Desc s.sons k y)) ?_ hd ?_
        · intro b c hb hc
          rcases place_sons_sub hne hc with ⟨_, hk⟩ | ⟨_, _, e⟩ | ⟨hbn, hcs⟩
          · exact Or.inr (Or.inr ⟨c, hk, Desc.refl _⟩)
          · exact Or.inr (Or.inl e)
          · rcases hb with ⟨r', hr', h1⟩ | h1 | ⟨k, hk, h1⟩
            · exact Or.inl ⟨r', hr', Desc.tail h1 hcs⟩
            · exact (hbn h1).elim
            · exact Or.inr (Or.inr ⟨k, hk, Desc.tail h1 hcs⟩)
        · rcases place_orphans_mem hr with h3 | ⟨_, e⟩
          · exact Or.inl ⟨r, h3, Desc.refl _⟩
          · exact Or.inr (Or.inl e)
      rcases hQ with ⟨r', hr', h1⟩ | h1 | ⟨k, hk, h1⟩
      · exact h.omSub x (hI.omap x ⟨r', (h.restSub r' hr').1, h1⟩)
      · subst h1; exact hnom
      · exact h.omSub x (hI.omap x ⟨k, (h.kidsSub k hk).1, h1⟩)
  · -- tbl
    intro x hx
    change x ∈ addTbl s.tbl node
    rw [mem_addTbl]
    rcases h.Q_stored (place_stored_Q hne hx) with h1 | h1
    · exact Or.inl (hI.tbl x h1)
    · exact Or.inr h1

end place

/-! ### every operation preserves the invariant -/

theorem isKid_iff {W : World} {node r : Nat} : isKid W node r = true ↔ (W r).parent = some node := by
  unfold isKid; exact beq_iff_eq

theorem derive_tree (W : World) (s : St) (id : Nat) :
    (derive W s id).sons = s.sons ∧ (derive W s id).root = s.root ∧ (derive W s id).orphans = s.orphans ∧
    (derive W s id).omap = s.omap ∧ (derive W s id).tbl = s.tbl ∧ (derive W s id).pm = s.pm ∧
    (derive W s id).genesis = s.genesis := by
  simp [derive]

theorem updateHighQC_tree (W : World) (s : St) (id : Nat) :
    (updateHighQC W s id).sons = s.sons ∧ (updateHighQC W s id).root = s.root ∧
    (updateHighQC W s id).orphans = s.orphans ∧ (updateHighQC W s id).omap = s.omap ∧
    (updateHighQC W s id).tbl = s.tbl ∧ (updateHighQC W s id).pm = s.pm ∧
    (updateHighQC W s id).genesis = s.genesis := by
  unfold updateHighQC
  split
  · simp
  · split
    · simp
    · exact derive_tree W s id

theorem updateHighQC_inv {W : World} {s : St} (h : Inv W s) (id : Nat) : Inv W (updateHighQC W s id) := by
  obtain ⟨h1, h2, h3, h4, h5, _⟩ := updateHighQC_tree W s id
  exact h.of_eq h1 h2 h3 h4 h5

theorem enforce_inv {W : World} {s : St} (h : Inv W s) (id : Nat) : Inv W (enforceUpdateHighQC W s id).1 := by
  unfold enforceUpdateHighQC
  split
  · exact h
  · obtain ⟨h1, h2, h3, h4, h5, _⟩ := derive_tree W s id
    exact h.of_eq h1 h2 h3 h4 h5

theorem advanceView_inv {W : World} {s : St} (h : Inv W s) (r : Int) : Inv W (advanceView s r) :=
  h.of_eq rfl rfl rfl rfl rfl

section ops
variable {W : World} {rk : Nat → Nat} (hrk : ∀ x p, (W x).parent = some p → rk p < rk x)
include hrk

theorem insertMain_hyp {s : St} (h : Inv W s) {node p : Nat} (hp : (W node).parent = some p)
    (hn : inMain s node = false) (hpm : inMain s p = true) :
    PlaceHyp W s node p (s.orphans.filter (isKid W node)) (s.orphans.filter (fun r => !isKid W node r)) true s.omap := by
  have hpM : InMain s p := (inMain_iff hrk h p).mp hpm
  have hnM : ¬ InMain s node := by
    intro hx; rw [(inMain_iff hrk h node).mpr hx] at hn; cases hn
  have hlt := hrk _ _ hp
  refine
    { inv := h, par := hp, ne := (by intro e; rw [e] at hlt; omega), fresh := ?_, kidsSub := ?_, restSub := ?_,
      kidsNodup := h.orphNodup.filter _, restNodup := h.orphNodup.filter _, kidsNotAbove := ?_,
      omSub := fun _ hx => hx, cases := Or.inl ⟨rfl, hpM⟩ }
  · rintro (hx | ⟨r, hr, hx⟩)
    · exact hnM hx
    · rcases hx.cases_tail with e | ⟨b, hb, hc⟩
      · subst e; exact h.orphParent node hr p hp (Or.inl hpM)
      · have e1 := h.edge _ _ hc
        have : b = p := by rw [hp] at e1; exact (Option.some.inj e1).symm
        subst this
        have := h.top_unique (Or.inl rfl) (Or.inr hr) hpM hb
        rw [← this] at hr
        exact h.rootNotOrph hr
  · intro k hk
    rw [List.mem_filter] at hk
    exact ⟨hk.1, isKid_iff.mp hk.2⟩
  · intro r hr
    rw [List.mem_filter] at hr
    refine ⟨hr.1, ?_⟩
    intro e
    have := isKid_iff.mpr e
    simp [this] at hr
  · intro k hk hd
    rw [List.mem_filter] at hk
    have h1 := hrk _ _ (isKid_iff.mp hk.2)
    have h2 := desc_rank_le hrk h.edge hd
    omega

theorem insertMain_inv {s : St} (h : Inv W s) {node p : Nat} (hp : (W node).parent = some p)
    (hn : inMain s node = false) (hpm : inMain s p = true) : Inv W (insertMain W s node p) :=
  place_inv (insertMain_hyp hrk h hp hn hpm)

/-- the three outcomes of `insertOrphan` -/
theorem insertOrphan_cases {s : St} (h : Inv W s) {node p : Nat} (hp : (W node).parent = some p)
    (hn : inMain s node = false) (hpm : inMain s p = false) :
    insertOrphan W s node p = s ∧ node ∈ s.omap ∨
    ∃ kids rest attach, insertOrphan W s node p = place s node p kids rest attach (node :: s.omap) ∧
      PlaceHyp W s node p kids rest attach (node :: s.omap) ∧ node ∉ s.omap ∧
      (∀ r, r ∈ rest ↔ (r ∈ s.orphans ∧ expired W s r = false ∧ (W r).parent ≠ some node)) ∧
      (∀ k, k ∈ kids ↔ (k ∈ s.orphans ∧ expired W s k = false ∧ (W k).parent = some node)) := by
  by_cases hom : node ∈ s.omap
  · left; unfold insertOrphan; simp [hom]
  · right
    have hpM : ¬ InMain s p := by
      intro hx; rw [(inMain_iff hrk h p).mpr hx] at hpm; cases hpm
    have hnM : ¬ InMain s node := by
      intro hx; rw [(inMain_iff hrk h node).mpr hx] at hn; cases hn
    have hlt := hrk _ _ hp
    let live := s.orphans.filter (fun r => !expired W s r)
    let kids := live.filter (isKid W node)
    let rest := live.filter (fun r => !isKid W node r)
    have hrest : ∀ r, r ∈ rest ↔ (r ∈ s.orphans ∧ expired W s r = false ∧ (W r).parent ≠ some node) := by
      intro r
      simp only [rest, live, List.mem_filter, Bool.not_eq_true', and_assoc]
      constructor
      · rintro ⟨h1, h2, h3⟩
        refine ⟨h1, h2, ?_⟩
        intro e; rw [isKid_iff.mpr e] at h3; cases h3
      · rintro ⟨h1, h2, h3⟩
        refine ⟨h1, h2, ?_⟩
        cases hk : isKid W node r with
        | false => rfl
        | true => exact (h3 (isKid_iff.mp hk)).elim
    have hkids : ∀ k, k ∈ kids ↔ (k ∈ s.orphans ∧ expired W s k = false ∧ (W k).parent = some node) := by
      intro k
      simp only [kids, live, List.mem_filter, Bool.not_eq_true', and_assoc, isKid_iff]
    have hyp : ∀ attach, ((attach = true ∧ (∃ r, r ∈ rest ∧ Desc s.sons r p)) ∨
        (attach = false ∧ (∀ r, r ∈ rest → ¬ Desc s.sons r p))) →
        PlaceHyp W s node p kids rest attach (node :: s.omap) := by
      intro attach hc
      refine
        { inv := h, par := hp, ne := (by intro e; rw [e] at hlt; omega), fresh := ?_, kidsSub := ?_, restSub := ?_,
          kidsNodup := (h.orphNodup.filter _).filter _, restNodup := (h.orphNodup.filter _).filter _,
          kidsNotAbove := ?_, omSub := fun _ hx => List.mem_cons_of_mem _ hx, cases := ?_ }
      · rintro (hx | hx)
        · exact hnM hx
        · exact hom (h.omap node hx)
      · intro k hk
        have := (hkids k).mp hk
        exact ⟨this.1, this.2.2⟩
      · intro r hr
        have := (hrest r).mp hr
        exact ⟨this.1, this.2.2⟩
      · intro k hk hd
        have h1 := hrk _ _ ((hkids k).mp hk).2.2
        have h2 := desc_rank_le hrk h.edge hd
        omega
      · rcases hc with ⟨ha, hex⟩ | ⟨ha, hall⟩
        · exact Or.inr (Or.inl ⟨ha, hex, List.mem_cons_self⟩)
        · exact Or.inr (Or.inr ⟨ha, hpM, hall, List.mem_cons_self⟩)
    by_cases hany : rest.any (fun r => inTree s r p) = true
    · refine ⟨kids, rest, true, ?_, hyp true (Or.inl ⟨rfl, ?_⟩), hom, hrest, hkids⟩
      · unfold insertOrphan
        simp only [hom, if_false]
        rw [if_pos hany]
        rfl
      · rw [List.any_eq_true] at hany
        obtain ⟨r, hr, hd⟩ := hany
        exact ⟨r, hr, dfs_sound hd⟩
    · refine ⟨kids, rest, false, ?_, hyp false (Or.inr ⟨rfl, ?_⟩), hom, hrest, hkids⟩
      · unfold insertOrphan
        simp only [hom, if_false]
        rw [if_neg hany]
        rfl
      · intro r hr hd
        apply hany
        rw [List.any_eq_true]
        exact ⟨r, hr, (inTree_iff hrk h ((hrest r).mp hr).1 p).mpr hd⟩

theorem insertOrphan_inv {s : St} (h : Inv W s) {node p : Nat} (hp : (W node).parent = some p)
    (hn : inMain s node = false) (hpm : inMain s p = false) : Inv W (insertOrphan W s node p) := by
  rcases insertOrphan_cases hrk h hp hn hpm with ⟨e, _⟩ | ⟨kids, rest, attach, e, hyp, _⟩
  · rw [e]; exact h
  · rw [e]; exact place_inv hyp

theorem insert_inv {s s' : St} (h : Inv W s) {node : Nat} (hn : inMain s node = false)
    (hi : QcTree.insert W s node = some s') : Inv W s' := by
  unfold QcTree.insert at hi
  split at hi
  · cases hi
  · rename_i p hp
    split at hi
    · rename_i hpm
      cases hi
      exact insertMain_inv hrk h hp hn hpm
    · rename_i hpm
      cases hi
      exact insertOrphan_inv hrk h hp hn (by simpa using hpm)

theorem updateQcStatus_inv {s : St} (h : Inv W s) (node : Nat) : Inv W (updateQcStatus W s node).1 := by
  unfold updateQcStatus
  split
  · exact h
  · rename_i hn
    split
    · exact h
    · rename_i s' hi
      have hs' := insert_inv hrk h (by simpa using hn) hi
      split
      · exact hs'
      · exact updateHighQC_inv hs' _

end ops

theorem anc_some {W : World} {s : St} {x p : Nat} (h : anc W s x = some p) :
    (W x).parent = some p ∧ inMain s p = true := by
  unfold anc at h
  split at h
  · cases h
  · rename_i q hq
    split at h
    · cases h; exact ⟨hq, by assumption⟩
    · cases h

/-- what `updateCommit` does when it does anything -/
theorem updateCommit_cases (W : World) (s : St) (id : Nat) :
    updateCommit W s id = s ∨
    ∃ ppp pppp, updateCommit W s id = { s with sons := upd s.sons pppp [], root := ppp } ∧
      inMain s ppp = true ∧ (W ppp).parent = some pppp ∧ inMain s pppp = true := by
  unfold updateCommit
  split
  · exact Or.inl rfl
  · dsimp only
    cases h3 : ((anc W s id).bind (anc W s)).bind (anc W s) with
    | none => exact Or.inl rfl
    | some ppp =>
      have hin : inMain s ppp = true := by
        obtain ⟨pp, _, hpp⟩ := Option.bind_eq_some_iff.mp h3
        exact (anc_some hpp).2
      cases h4 : anc W s ppp with
      | none => left; simp [h4]
      | some pppp =>
        right
        refine ⟨ppp, pppp, ?_, hin, (anc_some h4).1, (anc_some h4).2⟩
        simp [h4]

theorem updateCommit_inv {W : World} {s : St} (h : Inv W s) (id : Nat) : Inv W (updateCommit W s id) := by
  rcases updateCommit_cases W s id with e | ⟨ppp, pppp, e, h1, h2, _⟩
  · rw [e]; exact h
  · rw [e]
    have hppp : InMain s ppp := dfs_sound h1
    have hsub : ∀ b c, c ∈ upd s.sons pppp [] b → c ∈ s.sons b := by
      intro b c hc
      unfold upd at hc
      split at hc
      · simp at hc
      · exact hc
    have hdesc : ∀ a x, Desc (upd s.sons pppp []) a x → Desc s.sons a x := by
      intro a x hd
      exact Desc.mono (S := fun _ => True) (fun _ _ _ _ => trivial) (fun b c _ hc => hsub b c hc) hd trivial
    have hst : ∀ x, Stored { s with sons := upd s.sons pppp [], root := ppp } x → Stored s x := by
      rintro x (hx | ⟨r, hr, hx⟩)
      · exact Or.inl (Desc.trans hppp (hdesc _ _ hx))
      · exact Or.inr ⟨r, hr, hdesc _ _ hx⟩
    have hpppNotOrph : ppp ∉ s.orphans := by
      intro hm
      have := h.top_unique (Or.inl rfl) (Or.inr hm) hppp (Desc.refl _)
      rw [← this] at hm
      exact h.rootNotOrph hm
    constructor
    · intro b c hc; exact h.edge b c (hsub b c hc)
    · intro b
      show (upd s.sons pppp [] b).Nodup
      unfold upd
      split
      · simp
      · exact h.sonsNodup b
    · exact h.orphNodup
    · intro a c ha hc
      have hc' : c ∈ upd s.sons pppp [] a := hc
      have hcs := hsub a c hc'
      have := h.top a c (hst a ha) hcs
      refine ⟨?_, this.2⟩
      show c ≠ ppp
      intro e; subst e
      have e1 := h.edge _ _ hcs
      rw [h2] at e1
      have : a = pppp := (Option.some.inj e1).symm
      subst this
      unfold upd at hc'
      simp at hc'
    · exact hpppNotOrph
    · intro r hr q hq hsq
      exact h.orphParent r hr q hq (hst q hsq)
    · rintro x ⟨r, hr, hx⟩
      exact h.omap x ⟨r, hr, hdesc _ _ hx⟩
    · intro x hx
      exact h.tbl x (hst x hx)

theorem init_inv (W : World) (g : Nat) : Inv W (init g) := by
  have hd : ∀ a x, Desc (init g).sons a x → x = a := by
    intro a x h
    cases h with
    | refl => rfl
    | step hc _ => simp [init] at hc
  constructor
  · intro a c hc; simp [init] at hc
  · intro a; simp [init]
  · simp [init]
  · intro a c _ hc; simp [init] at hc
  · simp [init]
  · intro r hr; simp [init] at hr
  · rintro x ⟨r, hr, _⟩; simp [init] at hr
  · rintro x (hx | ⟨r, hr, _⟩)
    · have := hd _ _ hx
      subst this
      simp [init]
    · simp [init] at hr

section reach
variable {W : World} {rk : Nat → Nat} (hrk : ∀ x p, (W x).parent = some p → rk p < rk x)
include hrk

theorem stepOp_inv {s : St} (h : Inv W s) (o : Op) : Inv W (stepOp W s o).1 := by
  cases o with
  | ins id => exact updateQcStatus_inv hrk h id
  | high id => exact updateHighQC_inv h id
  | enforce id => exact enforce_inv h id
  | commit id => exact updateCommit_inv h id
  | prop id pview c =>
    simp only [stepOp]
    split
    · exact h
    · apply updateQcStatus_inv hrk
      split
      · exact updateCommit_inv (advanceView_inv h _) _
      · exact advanceView_inv h _
  | vote id =>
    simp only [stepOp]
    split
    · exact h
    · exact updateHighQC_inv (advanceView_inv h _) _
  | pm v => exact advanceView_inv h v

theorem run_inv {s : St} (h : Inv W s) (ops : List Op) : Inv W (run W s ops) := by
  induction ops generalizing s with
  | nil => exact h
  | cons o ops ih => exact ih (stepOp_inv hrk h o)

end reach

end XV.C15
