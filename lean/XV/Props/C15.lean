import XV.Model.QcTree
namespace XV.C15
open XV.QcTree

end XV.C15
