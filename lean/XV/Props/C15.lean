import XV.Model.QcTree
/-!
C15 — the pending-proposal tree stays a tree; certified and committed markers only advance.

Everything is about `XV.QcTree` (the model of the repaired code).  `W` is the world
(content of every proposal id); the only assumption on it is that parent ids are
acyclic (`Acyclic W`: ids are hashes that cover the parent id).
-/
namespace XV.C15
open XV.QcTree

/-! ### descendants in the flat `sons` map -/

/-- `x` is in the subtree of `a` -/
inductive Desc (sons : Nat → List Nat) : Nat → Nat → Prop
  | refl (a : Nat) : Desc sons a a
  | step {a c x : Nat} : c ∈ sons a → Desc sons c x → Desc sons a x

theorem Desc.trans {sons a b c} (h1 : Desc sons a b) (h2 : Desc sons b c) : Desc sons a c := by
  induction h1 with
  | refl => exact h2
  | step hc _ ih => exact Desc.step hc (ih h2)

theorem Desc.tail {sons a b c} (h1 : Desc sons a b) (hc : c ∈ sons b) : Desc sons a c :=
  h1.trans (Desc.step hc (Desc.refl c))

/-- a set that contains `a` and is closed under the edges contains every descendant of `a` -/
theorem Desc.closed {sons : Nat → List Nat} {S : Nat → Prop} (hS : ∀ b c, S b → c ∈ sons b → S c)
    {a x} (h : Desc sons a x) (ha : S a) : S x := by
  induction h with
  | refl => exact ha
  | step hc _ ih => exact ih (hS _ _ ha hc)

/-- induction from the tail end -/
theorem Desc.tail_induction {sons : Nat → List Nat} {a : Nat} {P : Nat → Prop} (h0 : P a)
    (hs : ∀ b c, Desc sons a b → P b → c ∈ sons b → P c) {x} (h : Desc sons a x) : P x := by
  have : Desc sons a x ∧ P x := by
    refine Desc.closed (S := fun y => Desc sons a y ∧ P y) ?_ h ⟨Desc.refl a, h0⟩
    intro b c ⟨hb, hp⟩ hc
    exact ⟨hb.tail hc, hs b c hb hp hc⟩
  exact this.2

/-- either trivial or ends with an edge -/
theorem Desc.cases_tail {sons a x} (h : Desc sons a x) : x = a ∨ ∃ b, Desc sons a b ∧ x ∈ sons b := by
  refine Desc.tail_induction (P := fun x => x = a ∨ ∃ b, Desc sons a b ∧ x ∈ sons b) (Or.inl rfl) ?_ h
  intro b c hb _ hc
  exact Or.inr ⟨b, hb, hc⟩

/-- paths that use only edges present in `sons'` -/
theorem Desc.mono {sons sons' : Nat → List Nat} {S : Nat → Prop}
    (hS : ∀ b c, S b → c ∈ sons b → S c) (hsub : ∀ b c, S b → c ∈ sons b → c ∈ sons' b)
    {a x} (h : Desc sons a x) (ha : S a) : Desc sons' a x := by
  induction h with
  | refl => exact Desc.refl _
  | step hc _ ih => exact Desc.step (hsub _ _ ha hc) (ih (hS _ _ ha hc))

/-! ### the fuelled search against `Desc` -/

theorem dfs_sound {sons : Nat → List Nat} : ∀ {f n t}, dfs sons f n t = true → Desc sons n t := by
  intro f
  induction f with
  | zero => intro n t h; simp [dfs] at h
  | succ f ih =>
    intro n t h
    unfold dfs at h
    split at h
    · rename_i e; subst e; exact Desc.refl _
    · rw [List.any_eq_true] at h
      obtain ⟨c, hc, hd⟩ := h
      exact Desc.step hc (ih hd)

/-- explicit paths: the list of the nodes after the start, ending in the target -/
inductive Path (sons : Nat → List Nat) : Nat → List Nat → Nat → Prop
  | nil (a : Nat) : Path sons a [] a
  | cons {a c x : Nat} {l : List Nat} : c ∈ sons a → Path sons c l x → Path sons a (c :: l) x

theorem Path.of_desc {sons a x} (h : Desc sons a x) : ∃ l, Path sons a l x := by
  induction h with
  | refl => exact ⟨[], Path.nil _⟩
  | step hc _ ih => obtain ⟨l, hl⟩ := ih; exact ⟨_ :: l, Path.cons hc hl⟩

theorem Path.desc {sons a l x} (h : Path sons a l x) : Desc sons a x := by
  induction h with
  | nil => exact Desc.refl _
  | cons hc _ ih => exact Desc.step hc ih

theorem Path.mem_desc {sons a l x} (h : Path sons a l x) : ∀ y ∈ l, Desc sons a y := by
  induction h with
  | nil => intro y hy; simp at hy
  | cons hc _ ih =>
    intro y hy
    rcases List.mem_cons.mp hy with e | hy
    · subst e; exact Desc.step hc (Desc.refl _)
    · exact Desc.step hc (ih y hy)

theorem dfs_of_path {sons : Nat → List Nat} {a l x} (h : Path sons a l x) :
    ∀ f, l.length < f → dfs sons f a x = true := by
  induction h with
  | nil a => intro f hf; cases f with
    | zero => omega
    | succ f => simp [dfs]
  | cons hc _ ih =>
    intro f hf
    cases f with
    | zero => omega
    | succ f =>
      unfold dfs
      split
      · rfl
      · rw [List.any_eq_true]
        exact ⟨_, hc, ih f (by simp at hf; omega)⟩

/-! ### acyclic parent ids bound the depth of every path by the number of placed ids -/

/-- parent ids are acyclic (an id is a hash that covers its parent id) -/
def Acyclic (W : World) : Prop := ∃ rk : Nat → Nat, ∀ x p, (W x).parent = some p → rk p < rk x

/-- every edge of the `sons` map agrees with the `ParentId` of the son -/
def EdgeOK (W : World) (sons : Nat → List Nat) : Prop := ∀ a c, c ∈ sons a → (W c).parent = some a

section rank
variable {W : World} {rk : Nat → Nat} (hrk : ∀ x p, (W x).parent = some p → rk p < rk x)
include hrk

theorem desc_rank {sons a x} (he : EdgeOK W sons) (h : Desc sons a x) : x = a ∨ rk a < rk x := by
  induction h with
  | refl => exact Or.inl rfl
  | step hc _ ih =>
    have h1 := hrk _ _ (he _ _ hc)
    rcases ih with e | h2
    · subst e; exact Or.inr h1
    · exact Or.inr (Nat.lt_trans h1 h2)

theorem desc_rank_le {sons a x} (he : EdgeOK W sons) (h : Desc sons a x) : rk a ≤ rk x := by
  rcases desc_rank hrk he h with e | h
  · subst e; exact Nat.le_refl _
  · exact Nat.le_of_lt h

theorem path_nodup {sons a l x} (he : EdgeOK W sons) (h : Path sons a l x) : (a :: l).Nodup := by
  induction h with
  | nil => simp
  | @cons a c x l hc hp ih =>
    refine List.nodup_cons.mpr ⟨?_, ih⟩
    intro hmem
    have hd : Desc sons c a := by
      rcases List.mem_cons.mp hmem with e | hm
      · subst e; exact Desc.refl _
      · exact hp.mem_desc a hm
    have h1 := hrk _ _ (he _ _ hc)
    have h2 := desc_rank_le hrk he hd
    omega

theorem dfs_complete {sons a x} {tbl : List Nat} (he : EdgeOK W sons)
    (hT : ∀ y, Desc sons a y → y ∈ tbl) (h : Desc sons a x) : dfs sons tbl.length a x = true := by
  obtain ⟨l, hl⟩ := Path.of_desc h
  apply dfs_of_path hl
  have hnd := path_nodup hrk he hl
  have hsub : (a :: l) ⊆ tbl := by
    intro y hy
    rcases List.mem_cons.mp hy with e | hy
    · subst e; exact hT _ (Desc.refl _)
    · exact hT _ (hl.mem_desc y hy)
  have := List.Nodup.length_le_of_subset hnd hsub
  simp at this
  omega

end rank

/-! ### the invariant -/

def InMain (s : St) (x : Nat) : Prop := Desc s.sons s.root x
def InOrph (s : St) (x : Nat) : Prop := ∃ r, r ∈ s.orphans ∧ Desc s.sons r x
/-- `x` is stored: in the tree below Root or in the orphan forest -/
def Stored (s : St) (x : Nat) : Prop := InMain s x ∨ InOrph s x

structure Inv (W : World) (s : St) : Prop where
  edge : EdgeOK W s.sons
  sonsNodup : ∀ a, (s.sons a).Nodup
  orphNodup : s.orphans.Nodup
  top : ∀ a c, Stored s a → c ∈ s.sons a → c ≠ s.root ∧ c ∉ s.orphans
  rootNotOrph : s.root ∉ s.orphans
  orphParent : ∀ r, r ∈ s.orphans → ∀ p, (W r).parent = some p → ¬ Stored s p
  omap : ∀ x, InOrph s x → x ∈ s.omap
  tbl : ∀ x, Stored s x → x ∈ s.tbl

theorem Stored.son {s : St} {a c} (h : Stored s a) (hc : c ∈ s.sons a) : Stored s c := by
  rcases h with h | ⟨r, hr, h⟩
  · exact Or.inl (Desc.tail h hc)
  · exact Or.inr ⟨r, hr, Desc.tail h hc⟩

theorem Stored.desc {s : St} {a x} (h : Stored s a) (hx : Desc s.sons a x) : Stored s x := by
  rcases h with h | ⟨r, hr, h⟩
  · exact Or.inl (Desc.trans h hx)
  · exact Or.inr ⟨r, hr, Desc.trans h hx⟩

theorem Inv.of_eq {W : World} {s s' : St} (h : Inv W s) (h1 : s'.sons = s.sons) (h2 : s'.root = s.root)
    (h3 : s'.orphans = s.orphans) (h4 : s'.omap = s.omap) (h5 : s'.tbl = s.tbl) : Inv W s' := by
  have hm : ∀ x, InMain s' x ↔ InMain s x := by intro x; unfold InMain; rw [h1, h2]
  have ho : ∀ x, InOrph s' x ↔ InOrph s x := by intro x; unfold InOrph; rw [h1, h3]
  have hs : ∀ x, Stored s' x ↔ Stored s x := by intro x; unfold Stored; rw [hm, ho]
  constructor
  · rw [h1]; exact h.edge
  · rw [h1]; exact h.sonsNodup
  · rw [h3]; exact h.orphNodup
  · intro a c ha hc; rw [h2, h3]; rw [h1] at hc; exact h.top a c ((hs a).mp ha) hc
  · rw [h2, h3]; exact h.rootNotOrph
  · intro r hr p hp hst; rw [h3] at hr; exact h.orphParent r hr p hp ((hs p).mp hst)
  · intro x hx; rw [h4]; exact h.omap x ((ho x).mp hx)
  · intro x hx; rw [h5]; exact h.tbl x ((hs x).mp hx)

/-- no id is both in the tree and in the orphan forest, and no id is in two orphan trees -/
theorem Inv.top_unique {W : World} {s : St} (h : Inv W s) {t1 t2 x : Nat}
    (ht1 : t1 = s.root ∨ t1 ∈ s.orphans) (ht2 : t2 = s.root ∨ t2 ∈ s.orphans)
    (h1 : Desc s.sons t1 x) (h2 : Desc s.sons t2 x) : t1 = t2 := by
  have st1 : Stored s t1 := by
    rcases ht1 with e | e
    · exact Or.inl (e ▸ Desc.refl _)
    · exact Or.inr ⟨t1, e, Desc.refl _⟩
  have st2 : Stored s t2 := by
    rcases ht2 with e | e
    · exact Or.inl (e ▸ Desc.refl _)
    · exact Or.inr ⟨t2, e, Desc.refl _⟩
  have notson : ∀ t, (t = s.root ∨ t ∈ s.orphans) → ∀ b, Stored s b → t ∈ s.sons b → False := by
    intro t ht b hb hc
    have := h.top b t hb hc
    rcases ht with e | e
    · exact this.1 e
    · exact this.2 e
  revert h2
  refine Desc.tail_induction (P := fun x => Desc s.sons t2 x → t1 = t2) ?_ ?_ h1
  · intro h2
    rcases h2.cases_tail with e | ⟨b, hb, hc⟩
    · exact e
    · exact (notson t1 ht1 b (st2.desc hb) hc).elim
  · intro b c hb ih hc h2
    rcases h2.cases_tail with e | ⟨b', hb', hc'⟩
    · subst e; exact (notson c ht2 b (st1.desc hb) hc).elim
    · have e1 := h.edge _ _ hc
      have e2 := h.edge _ _ hc'
      have : b = b' := by rw [e1] at e2; exact Option.some.inj e2
      subst this
      exact ih hb'

section rank2
variable {W : World} {rk : Nat → Nat} (hrk : ∀ x p, (W x).parent = some p → rk p < rk x)
include hrk

theorem inMain_iff {s : St} (h : Inv W s) (x : Nat) : inMain s x = true ↔ InMain s x := by
  constructor
  · exact dfs_sound
  · intro hx
    exact dfs_complete hrk h.edge (fun y hy => h.tbl y (Or.inl hy)) hx

theorem inTree_iff {s : St} (h : Inv W s) {r : Nat} (hr : r ∈ s.orphans) (x : Nat) :
    inTree s r x = true ↔ Desc s.sons r x := by
  constructor
  · exact dfs_sound
  · intro hx
    exact dfs_complete hrk h.edge (fun y hy => h.tbl y (Or.inr ⟨r, hr, hy⟩)) hx

end rank2

/-! ### placing a new node (the common shape of `insert` into the tree / under an orphan / as a new orphan root) -/

def place (s : St) (node p : Nat) (kids rest : List Nat) (attach : Bool) (om : List Nat) : St :=
  { s with sons := if attach then upd (upd s.sons node kids) p (s.sons p ++ [node]) else upd s.sons node kids,
           orphans := if attach then rest else rest ++ [node], omap := om, tbl := addTbl s.tbl node }

theorem mem_addTbl {tbl : List Nat} {x y : Nat} : y ∈ addTbl tbl x ↔ y ∈ tbl ∨ y = x := by
  unfold addTbl
  split
  · constructor
    · exact Or.inl
    · rintro (h | h)
      · exact h
      · subst h; assumption
  · simp [List.mem_cons, or_comm]

structure PlaceHyp (W : World) (s : St) (node p : Nat) (kids rest : List Nat) (attach : Bool) (om : List Nat) : Prop where
  inv : Inv W s
  par : (W node).parent = some p
  ne : p ≠ node
  fresh : ¬ Stored s node
  kidsSub : ∀ k, k ∈ kids → k ∈ s.orphans ∧ (W k).parent = some node
  restSub : ∀ r, r ∈ rest → r ∈ s.orphans ∧ (W r).parent ≠ some node
  kidsNodup : kids.Nodup
  restNodup : rest.Nodup
  kidsNotAbove : ∀ k, k ∈ kids → ¬ Desc s.sons k p
  omSub : ∀ x, x ∈ s.omap → x ∈ om
  cases : (attach = true ∧ InMain s p) ∨
          (attach = true ∧ (∃ r, r ∈ rest ∧ Desc s.sons r p) ∧ node ∈ om) ∨
          (attach = false ∧ ¬ InMain s p ∧ (∀ r, r ∈ rest → ¬ Desc s.sons r p) ∧ node ∈ om)

section place
variable {W : World} {s : St} {node p : Nat} {kids rest : List Nat} {attach : Bool} {om : List Nat}

theorem PlaceHyp.storedP (h : PlaceHyp W s node p kids rest attach om) (ha : attach = true) : Stored s p := by
  rcases h.cases with ⟨_, h1⟩ | ⟨_, ⟨r, hr, hd⟩, _⟩ | ⟨hf, _⟩
  · exact Or.inl h1
  · exact Or.inr ⟨r, (h.restSub r hr).1, hd⟩
  · rw [ha] at hf; cases hf

/-- the edges of the new `sons` map -/
theorem place_sons_sub (hne : p ≠ node) {b c : Nat}
    (hc : c ∈ (place s node p kids rest attach om).sons b) :
    (b = node ∧ c ∈ kids) ∨ (attach = true ∧ b = p ∧ c = node) ∨ (b ≠ node ∧ c ∈ s.sons b) := by
  unfold place at hc
  simp only at hc
  cases attach with
  | true =>
    simp only [if_true, upd] at hc
    by_cases hb : b = p
    · subst hb
      simp only [if_true] at hc
      rcases List.mem_append.mp hc with h | h
      · exact Or.inr (Or.inr ⟨hne, h⟩)
      · simp at h; exact Or.inr (Or.inl ⟨rfl, rfl, h⟩)
    · simp only [hb, if_false] at hc
      by_cases hn : b = node
      · simp only [hn, if_true] at hc; exact Or.inl ⟨hn, hc⟩
      · simp only [hn, if_false] at hc; exact Or.inr (Or.inr ⟨hn, hc⟩)
  | false =>
    simp only [upd, Bool.false_eq_true, if_false] at hc
    by_cases hn : b = node
    · simp only [hn, if_true] at hc; exact Or.inl ⟨hn, hc⟩
    · simp only [hn, if_false] at hc; exact Or.inr (Or.inr ⟨hn, hc⟩)

theorem place_sons_old (hne : p ≠ node) {b c : Nat} (hb : b ≠ node) (hc : c ∈ s.sons b) :
    c ∈ (place s node p kids rest attach om).sons b := by
  unfold place
  simp only
  cases attach with
  | true =>
    simp only [if_true, upd]
    by_cases hbp : b = p
    · subst hbp; simp only [if_true]; exact List.mem_append.mpr (Or.inl hc)
    · simp only [hbp, hb, if_false]; exact hc
  | false =>
    simp only [upd, Bool.false_eq_true, if_false, hb]; exact hc

theorem place_sons_kid (hne : p ≠ node) {k : Nat} (hk : k ∈ kids) :
    k ∈ (place s node p kids rest attach om).sons node := by
  unfold place
  simp only
  cases attach with
  | true => simp only [if_true, upd, Ne.symm hne, if_false]; exact hk
  | false => simp only [upd, Bool.false_eq_true, if_false, if_true]; exact hk

theorem place_sons_node {kids rest om} : node ∈ (place s node p kids rest true om).sons p := by
  unfold place
  simp [upd]

/-- what can be stored after the placement -/
def Q (s : St) (node : Nat) (kids rest : List Nat) (x : Nat) : Prop :=
  InMain s x ∨ (∃ r, r ∈ rest ∧ Desc s.sons r x) ∨ x = node ∨ (∃ k, k ∈ kids ∧ Desc s.sons k x)

theorem Q_closed (hne : p ≠ node) {b c : Nat} (hb : Q s node kids rest b)
    (hc : c ∈ (place s node p kids rest attach om).sons b) : Q s node kids rest c := by
  rcases place_sons_sub hne hc with ⟨_, hk⟩ | ⟨_, _, e⟩ | ⟨hbn, hcs⟩
  · exact Or.inr (Or.inr (Or.inr ⟨c, hk, Desc.refl _⟩))
  · exact Or.inr (Or.inr (Or.inl e))
  · rcases hb with h | ⟨r, hr, h⟩ | h | ⟨k, hk, h⟩
    · exact Or.inl (Desc.tail h hcs)
    · exact Or.inr (Or.inl ⟨r, hr, Desc.tail h hcs⟩)
    · exact (hbn h).elim
    · exact Or.inr (Or.inr (Or.inr ⟨k, hk, Desc.tail h hcs⟩))

theorem place_orphans_mem {r : Nat} (hr : r ∈ (place s node p kids rest attach om).orphans) :
    r ∈ rest ∨ (attach = false ∧ r = node) := by
  unfold place at hr
  simp only at hr
  cases attach with
  | true => simp only [if_true] at hr; exact Or.inl hr
  | false =>
    simp only [Bool.false_eq_true, if_false] at hr
    rcases List.mem_append.mp hr with h | h
    · exact Or.inl h
    · simp at h; exact Or.inr ⟨rfl, h⟩

theorem place_stored_Q (hne : p ≠ node) {x : Nat}
    (hx : Stored (place s node p kids rest attach om) x) : Q s node kids rest x := by
  rcases hx with h | ⟨r, hr, h⟩
  · refine Desc.closed (S := Q s node kids rest) (fun b c hb hc => Q_closed hne hb hc) h ?_
    exact Or.inl (Desc.refl _)
  · refine Desc.closed (S := Q s node kids rest) (fun b c hb hc => Q_closed hne hb hc) h ?_
    rcases place_orphans_mem hr with h | ⟨_, e⟩
    · exact Or.inr (Or.inl ⟨r, h, Desc.refl _⟩)
    · exact Or.inr (Or.inr (Or.inl e))

theorem PlaceHyp.Q_stored (h : PlaceHyp W s node p kids rest attach om) {x : Nat}
    (hx : Q s node kids rest x) : Stored s x ∨ x = node := by
  rcases hx with h1 | ⟨r, hr, h1⟩ | h1 | ⟨k, hk, h1⟩
  · exact Or.inl (Or.inl h1)
  · exact Or.inl (Or.inr ⟨r, (h.restSub r hr).1, h1⟩)
  · exact Or.inr h1
  · exact Or.inl (Or.inr ⟨k, (h.kidsSub k hk).1, h1⟩)

/-- old paths from stored nodes survive (they never pass through the fresh `node`) -/
theorem PlaceHyp.desc_old (h : PlaceHyp W s node p kids rest attach om) {a x : Nat} (ha : Stored s a)
    (hx : Desc s.sons a x) : Desc (place s node p kids rest attach om).sons a x := by
  refine Desc.mono (S := Stored s) (fun b c hb hc => hb.son hc) ?_ hx ha
  intro b c hb hc
  refine place_sons_old h.ne ?_ hc
  intro e; subst e; exact h.fresh hb

theorem PlaceHyp.node_not_rest (h : PlaceHyp W s node p kids rest attach om) : node ∉ rest := by
  intro hm
  exact h.fresh (Or.inr ⟨node, (h.restSub node hm).1, Desc.refl _⟩)

theorem PlaceHyp.root_ne (h : PlaceHyp W s node p kids rest attach om) : s.root ≠ node := by
  intro e
  exact h.fresh (Or.inl (e ▸ Desc.refl _))

theorem place_inv (h : PlaceHyp W s node p kids rest attach om) :
    Inv W (place s node p kids rest attach om) := by
  have hI := h.inv
  have hne := h.ne
  constructor
  · -- edge
    intro b c hc
    rcases place_sons_sub hne hc with ⟨e, hk⟩ | ⟨_, e1, e2⟩ | ⟨_, hcs⟩
    · subst e; exact (h.kidsSub c hk).2
    · subst e1; subst e2; exact h.par
    · exact hI.edge b c hcs
  · -- sonsNodup
    intro b
    unfold place
    simp only
    cases hat : attach with
    | true =>
      simp only [if_true, upd]
      by_cases hb : b = p
      · subst hb
        simp only [if_true]
        refine List.nodup_append.mpr ⟨hI.sonsNodup b, by simp, ?_⟩
        intro x hx y hy
        simp at hy; subst hy
        intro e; subst e
        exact h.fresh ((h.storedP hat).son hx)
      · simp only [hb, if_false]
        by_cases hn : b = node
        · simp only [hn, if_true]; exact h.kidsNodup
        · simp only [hn, if_false]; exact hI.sonsNodup b
    | false =>
      simp only [upd, Bool.false_eq_true, if_false]
      by_cases hn : b = node
      · simp only [hn, if_true]; exact h.kidsNodup
      · simp only [hn, if_false]; exact hI.sonsNodup b
  · -- orphNodup
    unfold place
    simp only
    cases attach with
    | true => simp only [if_true]; exact h.restNodup
    | false =>
      simp only [Bool.false_eq_true, if_false]
      refine List.nodup_append.mpr ⟨h.restNodup, by simp, ?_⟩
      intro x hx y hy
      simp at hy; subst hy
      intro e; subst e
      exact h.node_not_rest hx
  · -- top
    intro a c ha hc
    have hQ := place_stored_Q hne ha
    have notin : c ≠ node → c ∉ rest → c ∉ (place s node p kids rest attach om).orphans := by
      intro h1 h2 hm
      rcases place_orphans_mem hm with h3 | ⟨_, h3⟩
      · exact h2 h3
      · exact h1 h3
    change c ≠ s.root ∧ _
    rcases place_sons_sub hne hc with ⟨_, hk⟩ | ⟨hat, _, e2⟩ | ⟨han, hcs⟩
    · have hk' := h.kidsSub c hk
      refine ⟨?_, notin ?_ ?_⟩
      · intro e; rw [e] at hk'; exact hI.rootNotOrph hk'.1
      · intro e; subst e; exact h.fresh (Or.inr ⟨c, hk'.1, Desc.refl _⟩)
      · intro hr; exact (h.restSub c hr).2 hk'.2
    · subst e2
      refine ⟨fun e => h.root_ne e.symm, ?_⟩
      intro hm
      rcases place_orphans_mem hm with h3 | ⟨h3, _⟩
      · exact h.node_not_rest h3
      · rw [hat] at h3; cases h3
    · have hsa : Stored s a := by
        rcases h.Q_stored hQ with h1 | h1
        · exact h1
        · exact (han h1).elim
      have := hI.top a c hsa hcs
      refine ⟨this.1, notin ?_ ?_⟩
      · intro e; subst e; exact h.fresh (hsa.son hcs)
      · intro hr; exact this.2 (h.restSub c hr).1
  · -- rootNotOrph
    intro hm
    change s.root ∈ _ at hm
    rcases place_orphans_mem hm with h3 | ⟨_, h3⟩
    · exact hI.rootNotOrph (h.restSub _ h3).1
    · exact h.root_ne h3
  · -- orphParent
    intro r hr q hq hst
    have hQ := place_stored_Q hne hst
    rcases place_orphans_mem hr with h3 | ⟨hat, e⟩
    · have h4 := h.restSub r h3
      rcases h.Q_stored hQ with h5 | h5
      · exact hI.orphParent r h4.1 q hq h5
      · subst h5; exact h4.2 hq
    · subst e
      have : q = p := by have := h.par; rw [hq] at this; exact Option.some.inj this
      subst this
      rcases h.cases with ⟨hf, _⟩ | ⟨hf, _⟩ | ⟨_, hnm, hnr, _⟩
      · rw [hat] at hf; cases hf
      · rw [hat] at hf; cases hf
      · rcases hQ with h1 | ⟨r', hr', h1⟩ | h1 | ⟨k, hk, h1⟩
        · exact hnm h1
        · exact hnr r' hr' h1
        · exact hne h1
        · exact h.kidsNotAbove k hk h1
  · -- omap
    intro x hx
    change x ∈ om
    obtain ⟨r, hr, hd⟩ := hx
    rcases h.cases with ⟨hat, hmain⟩ | hrest
    · -- attached below the tree: the orphan forest only shrinks
      subst hat
      have hr' : r ∈ rest := by
        rcases place_orphans_mem hr with h3 | ⟨h3, _⟩
        · exact h3
        · cases h3
      have : ∃ r', r' ∈ rest ∧ Desc s.sons r' x := by
        refine Desc.closed (S := fun y => ∃ r', r' ∈ rest ∧ Desc s.sons r' y) ?_ hd ⟨r, hr', Desc.refl _⟩
        intro b c ⟨r', hr', hb⟩ hc
        have hsb : Stored s b := Or.inr ⟨r', (h.restSub r' hr').1, hb⟩
        rcases place_sons_sub hne hc with ⟨e, _⟩ | ⟨_, e1, _⟩ | ⟨_, hcs⟩
        · subst e; exact (h.fresh hsb).elim
        · subst e1
          have := hI.top_unique (Or.inl rfl) (Or.inr (h.restSub r' hr').1) hmain hb
          rw [← this] at hr'
          exact (hI.rootNotOrph (h.restSub _ hr').1).elim
        · exact ⟨r', hr', Desc.tail hb hcs⟩
      obtain ⟨r', hr', hd'⟩ := this
      exact h.omSub x (hI.omap x ⟨r', (h.restSub r' hr').1, hd'⟩)
    · have hnom : node ∈ om := by
        rcases hrest with ⟨_, _, h1⟩ | ⟨_, _, _, h1⟩
        · exact h1
        · exact h1
      have hQ : (∃ r', r' ∈ rest ∧ Desc s.sons r' x) ∨ x = node ∨ (∃ k, k ∈ kids ∧ Desc s.sons k x) := by
        refine Desc.closed (S := fun y => (∃ r', r' ∈ rest ∧ Desc s.sons r' y) ∨ y = node ∨
          (∃ k, k ∈ kids ∧ Desc s.sons k y)) ?_ hd ?_
        · intro b c hb hc
          rcases place_sons_sub hne hc with ⟨_, hk⟩ | ⟨_, _, e⟩ | ⟨hbn, hcs⟩
          · exact Or.inr (Or.inr ⟨c, hk, Desc.refl _⟩)
          · exact Or.inr (Or.inl e)
          · rcases hb with ⟨r', hr', h1⟩ | h1 | ⟨k, hk, h1⟩
            · exact Or.inl ⟨r', hr', Desc.tail h1 hcs⟩
            · exact (hbn h1).elim
            · exact Or.inr (Or.inr ⟨k, hk, Desc.tail h1 hcs⟩)
        · rcases place_orphans_mem hr with h3 | ⟨_, e⟩
          · exact Or.inl ⟨r, h3, Desc.refl _⟩
          · exact Or.inr (Or.inl e)
      rcases hQ with ⟨r', hr', h1⟩ | h1 | ⟨k, hk, h1⟩
      · exact h.omSub x (hI.omap x ⟨r', (h.restSub r' hr').1, h1⟩)
      · subst h1; exact hnom
      · exact h.omSub x (hI.omap x ⟨k, (h.kidsSub k hk).1, h1⟩)
  · -- tbl
    intro x hx
    change x ∈ addTbl s.tbl node
    rw [mem_addTbl]
    rcases h.Q_stored (place_stored_Q hne hx) with h1 | h1
    · exact Or.inl (hI.tbl x h1)
    · exact Or.inr h1

end place

/-! ### every operation preserves the invariant -/

theorem isKid_iff {W : World} {node r : Nat} : isKid W node r = true ↔ (W r).parent = some node := by
  unfold isKid; exact beq_iff_eq

theorem derive_tree (W : World) (s : St) (id : Nat) :
    (derive W s id).sons = s.sons ∧ (derive W s id).root = s.root ∧ (derive W s id).orphans = s.orphans ∧
    (derive W s id).omap = s.omap ∧ (derive W s id).tbl = s.tbl ∧ (derive W s id).pm = s.pm ∧
    (derive W s id).genesis = s.genesis := by
  simp [derive]

theorem updateHighQC_tree (W : World) (s : St) (id : Nat) :
    (updateHighQC W s id).sons = s.sons ∧ (updateHighQC W s id).root = s.root ∧
    (updateHighQC W s id).orphans = s.orphans ∧ (updateHighQC W s id).omap = s.omap ∧
    (updateHighQC W s id).tbl = s.tbl ∧ (updateHighQC W s id).pm = s.pm ∧
    (updateHighQC W s id).genesis = s.genesis := by
  unfold updateHighQC
  split
  · simp
  · split
    · simp
    · exact derive_tree W s id

theorem updateHighQC_inv {W : World} {s : St} (h : Inv W s) (id : Nat) : Inv W (updateHighQC W s id) := by
  obtain ⟨h1, h2, h3, h4, h5, _⟩ := updateHighQC_tree W s id
  exact h.of_eq h1 h2 h3 h4 h5

theorem enforce_inv {W : World} {s : St} (h : Inv W s) (id : Nat) : Inv W (enforceUpdateHighQC W s id).1 := by
  unfold enforceUpdateHighQC
  split
  · exact h
  · obtain ⟨h1, h2, h3, h4, h5, _⟩ := derive_tree W s id
    exact h.of_eq h1 h2 h3 h4 h5

theorem advanceView_inv {W : World} {s : St} (h : Inv W s) (r : Int) : Inv W (advanceView s r) :=
  h.of_eq rfl rfl rfl rfl rfl

section ops
variable {W : World} {rk : Nat → Nat} (hrk : ∀ x p, (W x).parent = some p → rk p < rk x)
include hrk

theorem insertMain_hyp {s : St} (h : Inv W s) {node p : Nat} (hp : (W node).parent = some p)
    (hn : inMain s node = false) (hpm : inMain s p = true) :
    PlaceHyp W s node p (s.orphans.filter (isKid W node)) (s.orphans.filter (fun r => !isKid W node r)) true s.omap := by
  have hpM : InMain s p := (inMain_iff hrk h p).mp hpm
  have hnM : ¬ InMain s node := by
    intro hx; rw [(inMain_iff hrk h node).mpr hx] at hn; cases hn
  have hlt := hrk _ _ hp
  refine
    { inv := h, par := hp, ne := (by intro e; rw [e] at hlt; omega), fresh := ?_, kidsSub := ?_, restSub := ?_,
      kidsNodup := h.orphNodup.filter _, restNodup := h.orphNodup.filter _, kidsNotAbove := ?_,
      omSub := fun _ hx => hx, cases := Or.inl ⟨rfl, hpM⟩ }
  · rintro (hx | ⟨r, hr, hx⟩)
    · exact hnM hx
    · rcases hx.cases_tail with e | ⟨b, hb, hc⟩
      · subst e; exact h.orphParent node hr p hp (Or.inl hpM)
      · have e1 := h.edge _ _ hc
        have : b = p := by rw [hp] at e1; exact (Option.some.inj e1).symm
        subst this
        have := h.top_unique (Or.inl rfl) (Or.inr hr) hpM hb
        rw [← this] at hr
        exact h.rootNotOrph hr
  · intro k hk
    rw [List.mem_filter] at hk
    exact ⟨hk.1, isKid_iff.mp hk.2⟩
  · intro r hr
    rw [List.mem_filter] at hr
    refine ⟨hr.1, ?_⟩
    intro e
    have := isKid_iff.mpr e
    simp [this] at hr
  · intro k hk hd
    rw [List.mem_filter] at hk
    have h1 := hrk _ _ (isKid_iff.mp hk.2)
    have h2 := desc_rank_le hrk h.edge hd
    omega

theorem insertMain_inv {s : St} (h : Inv W s) {node p : Nat} (hp : (W node).parent = some p)
    (hn : inMain s node = false) (hpm : inMain s p = true) : Inv W (insertMain W s node p) :=
  place_inv (insertMain_hyp hrk h hp hn hpm)

/-- the three outcomes of `insertOrphan` -/
theorem insertOrphan_cases {s : St} (h : Inv W s) {node p : Nat} (hp : (W node).parent = some p)
    (hn : inMain s node = false) (hpm : inMain s p = false) :
    insertOrphan W s node p = s ∧ node ∈ s.omap ∨
    ∃ kids rest attach, insertOrphan W s node p = place s node p kids rest attach (node :: s.omap) ∧
      PlaceHyp W s node p kids rest attach (node :: s.omap) ∧ node ∉ s.omap ∧
      (∀ r, r ∈ rest ↔ (r ∈ s.orphans ∧ expired W s r = false ∧ (W r).parent ≠ some node)) ∧
      (∀ k, k ∈ kids ↔ (k ∈ s.orphans ∧ expired W s k = false ∧ (W k).parent = some node)) := by
  by_cases hom : node ∈ s.omap
  · left; unfold insertOrphan; simp [hom]
  · right
    have hpM : ¬ InMain s p := by
      intro hx; rw [(inMain_iff hrk h p).mpr hx] at hpm; cases hpm
    have hnM : ¬ InMain s node := by
      intro hx; rw [(inMain_iff hrk h node).mpr hx] at hn; cases hn
    have hlt := hrk _ _ hp
    let live := s.orphans.filter (fun r => !expired W s r)
    let kids := live.filter (isKid W node)
    let rest := live.filter (fun r => !isKid W node r)
    have hrest : ∀ r, r ∈ rest ↔ (r ∈ s.orphans ∧ expired W s r = false ∧ (W r).parent ≠ some node) := by
      intro r
      simp only [rest, live, List.mem_filter, Bool.not_eq_true', and_assoc]
      constructor
      · rintro ⟨h1, h2, h3⟩
        refine ⟨h1, h2, ?_⟩
        intro e; rw [isKid_iff.mpr e] at h3; cases h3
      · rintro ⟨h1, h2, h3⟩
        refine ⟨h1, h2, ?_⟩
        cases hk : isKid W node r with
        | false => rfl
        | true => exact (h3 (isKid_iff.mp hk)).elim
    have hkids : ∀ k, k ∈ kids ↔ (k ∈ s.orphans ∧ expired W s k = false ∧ (W k).parent = some node) := by
      intro k
      simp only [kids, live, List.mem_filter, Bool.not_eq_true', and_assoc, isKid_iff]
    have hyp : ∀ attach, ((attach = true ∧ (∃ r, r ∈ rest ∧ Desc s.sons r p)) ∨
        (attach = false ∧ (∀ r, r ∈ rest → ¬ Desc s.sons r p))) →
        PlaceHyp W s node p kids rest attach (node :: s.omap) := by
      intro attach hc
      refine
        { inv := h, par := hp, ne := (by intro e; rw [e] at hlt; omega), fresh := ?_, kidsSub := ?_, restSub := ?_,
          kidsNodup := (h.orphNodup.filter _).filter _, restNodup := (h.orphNodup.filter _).filter _,
          kidsNotAbove := ?_, omSub := fun _ hx => List.mem_cons_of_mem _ hx, cases := ?_ }
      · rintro (hx | hx)
        · exact hnM hx
        · exact hom (h.omap node hx)
      · intro k hk
        have := (hkids k).mp hk
        exact ⟨this.1, this.2.2⟩
      · intro r hr
        have := (hrest r).mp hr
        exact ⟨this.1, this.2.2⟩
      · intro k hk hd
        have h1 := hrk _ _ ((hkids k).mp hk).2.2
        have h2 := desc_rank_le hrk h.edge hd
        omega
      · rcases hc with ⟨ha, hex⟩ | ⟨ha, hall⟩
        · exact Or.inr (Or.inl ⟨ha, hex, List.mem_cons_self⟩)
        · exact Or.inr (Or.inr ⟨ha, hpM, hall, List.mem_cons_self⟩)
    by_cases hany : rest.any (fun r => inTree s r p) = true
    · refine ⟨kids, rest, true, ?_, hyp true (Or.inl ⟨rfl, ?_⟩), hom, hrest, hkids⟩
      · unfold insertOrphan
        simp only [hom, if_false]
        rw [if_pos hany]
        rfl
      · rw [List.any_eq_true] at hany
        obtain ⟨r, hr, hd⟩ := hany
        exact ⟨r, hr, dfs_sound hd⟩
    · refine ⟨kids, rest, false, ?_, hyp false (Or.inr ⟨rfl, ?_⟩), hom, hrest, hkids⟩
      · unfold insertOrphan
        simp only [hom, if_false]
        rw [if_neg hany]
        rfl
      · intro r hr hd
        apply hany
        rw [List.any_eq_true]
        exact ⟨r, hr, (inTree_iff hrk h ((hrest r).mp hr).1 p).mpr hd⟩

theorem insertOrphan_inv {s : St} (h : Inv W s) {node p : Nat} (hp : (W node).parent = some p)
    (hn : inMain s node = false) (hpm : inMain s p = false) : Inv W (insertOrphan W s node p) := by
  rcases insertOrphan_cases hrk h hp hn hpm with ⟨e, _⟩ | ⟨kids, rest, attach, e, hyp, _⟩
  · rw [e]; exact h
  · rw [e]; exact place_inv hyp

theorem insert_inv {s s' : St} (h : Inv W s) {node : Nat} (hn : inMain s node = false)
    (hi : QcTree.insert W s node = some s') : Inv W s' := by
  unfold QcTree.insert at hi
  split at hi
  · cases hi
  · rename_i p hp
    split at hi
    · rename_i hpm
      cases hi
      exact insertMain_inv hrk h hp hn hpm
    · rename_i hpm
      cases hi
      exact insertOrphan_inv hrk h hp hn (by simpa using hpm)

theorem updateQcStatus_inv {s : St} (h : Inv W s) (node : Nat) : Inv W (updateQcStatus W s node).1 := by
  unfold updateQcStatus
  split
  · exact h
  · rename_i hn
    split
    · exact h
    · rename_i s' hi
      have hs' := insert_inv hrk h (by simpa using hn) hi
      split
      · exact hs'
      · exact updateHighQC_inv hs' _

end ops

theorem anc_some {W : World} {s : St} {x p : Nat} (h : anc W s x = some p) :
    (W x).parent = some p ∧ inMain s p = true := by
  unfold anc at h
  split at h
  · cases h
  · rename_i q hq
    split at h
    · cases h; exact ⟨hq, by assumption⟩
    · cases h

/-- what `updateCommit` does when it does anything -/
theorem updateCommit_cases (W : World) (s : St) (id : Nat) :
    updateCommit W s id = s ∨
    ∃ ppp pppp, updateCommit W s id = { s with sons := upd s.sons pppp [], root := ppp } ∧
      inMain s ppp = true ∧ (W ppp).parent = some pppp ∧ inMain s pppp = true := by
  unfold updateCommit
  split
  · exact Or.inl rfl
  · dsimp only
    cases h3 : ((anc W s id).bind (anc W s)).bind (anc W s) with
    | none => exact Or.inl rfl
    | some ppp =>
      have hin : inMain s ppp = true := by
        obtain ⟨pp, _, hpp⟩ := Option.bind_eq_some_iff.mp h3
        exact (anc_some hpp).2
      cases h4 : anc W s ppp with
      | none => left; simp [h4]
      | some pppp =>
        right
        refine ⟨ppp, pppp, ?_, hin, (anc_some h4).1, (anc_some h4).2⟩
        simp [h4]

theorem updateCommit_inv {W : World} {s : St} (h : Inv W s) (id : Nat) : Inv W (updateCommit W s id) := by
  rcases updateCommit_cases W s id with e | ⟨ppp, pppp, e, h1, h2, _⟩
  · rw [e]; exact h
  · rw [e]
    have hppp : InMain s ppp := dfs_sound h1
    have hsub : ∀ b c, c ∈ upd s.sons pppp [] b → c ∈ s.sons b := by
      intro b c hc
      unfold upd at hc
      split at hc
      · simp at hc
      · exact hc
    have hdesc : ∀ a x, Desc (upd s.sons pppp []) a x → Desc s.sons a x := by
      intro a x hd
      exact Desc.mono (S := fun _ => True) (fun _ _ _ _ => trivial) (fun b c _ hc => hsub b c hc) hd trivial
    have hst : ∀ x, Stored { s with sons := upd s.sons pppp [], root := ppp } x → Stored s x := by
      rintro x (hx | ⟨r, hr, hx⟩)
      · exact Or.inl (Desc.trans hppp (hdesc _ _ hx))
      · exact Or.inr ⟨r, hr, hdesc _ _ hx⟩
    have hpppNotOrph : ppp ∉ s.orphans := by
      intro hm
      have := h.top_unique (Or.inl rfl) (Or.inr hm) hppp (Desc.refl _)
      rw [← this] at hm
      exact h.rootNotOrph hm
    constructor
    · intro b c hc; exact h.edge b c (hsub b c hc)
    · intro b
      show (upd s.sons pppp [] b).Nodup
      unfold upd
      split
      · simp
      · exact h.sonsNodup b
    · exact h.orphNodup
    · intro a c ha hc
      have hc' : c ∈ upd s.sons pppp [] a := hc
      have hcs := hsub a c hc'
      have := h.top a c (hst a ha) hcs
      refine ⟨?_, this.2⟩
      show c ≠ ppp
      intro e; subst e
      have e1 := h.edge _ _ hcs
      rw [h2] at e1
      have : a = pppp := (Option.some.inj e1).symm
      subst this
      unfold upd at hc'
      simp at hc'
    · exact hpppNotOrph
    · intro r hr q hq hsq
      exact h.orphParent r hr q hq (hst q hsq)
    · rintro x ⟨r, hr, hx⟩
      exact h.omap x ⟨r, hr, hdesc _ _ hx⟩
    · intro x hx
      exact h.tbl x (hst x hx)

theorem init_inv (W : World) (g : Nat) : Inv W (init g) := by
  have hd : ∀ a x, Desc (init g).sons a x → x = a := by
    intro a x h
    cases h with
    | refl => rfl
    | step hc _ => simp [init] at hc
  constructor
  · intro a c hc; simp [init] at hc
  · intro a; simp [init]
  · simp [init]
  · intro a c _ hc; simp [init] at hc
  · simp [init]
  · intro r hr; simp [init] at hr
  · rintro x ⟨r, hr, _⟩; simp [init] at hr
  · rintro x (hx | ⟨r, hr, _⟩)
    · have := hd _ _ hx
      subst this
      simp [init]
    · simp [init] at hr

section reach
variable {W : World} {rk : Nat → Nat} (hrk : ∀ x p, (W x).parent = some p → rk p < rk x)
include hrk

theorem stepOp_inv {s : St} (h : Inv W s) (o : Op) : Inv W (stepOp W s o).1 := by
  cases o with
  | ins id => exact updateQcStatus_inv hrk h id
  | high id => exact updateHighQC_inv h id
  | enforce id => exact enforce_inv h id
  | commit id => exact updateCommit_inv h id
  | prop id pview c =>
    simp only [stepOp]
    split
    · exact h
    · apply updateQcStatus_inv hrk
      split
      · exact updateCommit_inv (advanceView_inv h _) _
      · exact advanceView_inv h _
  | vote id =>
    simp only [stepOp]
    split
    · exact h
    · exact updateHighQC_inv (advanceView_inv h _) _
  | pm v => exact advanceView_inv h v

theorem run_inv {s : St} (h : Inv W s) (ops : List Op) : Inv W (run W s ops) := by
  induction ops generalizing s with
  | nil => exact h
  | cons o ops ih => exact ih (stepOp_inv hrk h o)

end reach

/-! ### frame lemmas: which fields an operation leaves alone -/

/-- `s'` has the markers and genesis of `s` -/
def SameMarkers (s s' : St) : Prop :=
  s'.high = s.high ∧ s'.generic = s.generic ∧ s'.locked = s.locked ∧ s'.commit = s.commit ∧
  s'.genesis = s.genesis

theorem SameMarkers.same (s : St) : SameMarkers s s := ⟨rfl, rfl, rfl, rfl, rfl⟩

theorem insertOrphan_frame (W : World) (s : St) (node p : Nat) :
    SameMarkers s (insertOrphan W s node p) ∧ (insertOrphan W s node p).root = s.root ∧
    (insertOrphan W s node p).pm = s.pm := by
  unfold insertOrphan
  split
  · exact ⟨SameMarkers.same s, rfl, rfl⟩
  · dsimp only
    split <;> exact ⟨⟨rfl, rfl, rfl, rfl, rfl⟩, rfl, rfl⟩

theorem insert_frame {W : World} {s s' : St} {node : Nat} (h : QcTree.insert W s node = some s') :
    SameMarkers s s' ∧ s'.root = s.root ∧ s'.pm = s.pm := by
  unfold QcTree.insert at h
  split at h
  · cases h
  · split at h
    · cases h; exact ⟨⟨rfl, rfl, rfl, rfl, rfl⟩, rfl, rfl⟩
    · cases h; exact insertOrphan_frame W s node _

theorem updateCommit_frame (W : World) (s : St) (id : Nat) : SameMarkers s (updateCommit W s id) := by
  rcases updateCommit_cases W s id with e | ⟨ppp, pppp, e, _⟩
  · rw [e]; exact SameMarkers.same s
  · rw [e]; exact ⟨rfl, rfl, rfl, rfl, rfl⟩

theorem highQcKeeps_false {a b : Int} (h : ¬ XV.Gen.highQcKeeps a b = true) : b ≤ a := by
  unfold XV.Gen.highQcKeeps at h
  simp at h
  exact h

/-! ### the pacemaker at the full `int64` range

Views are Go `int64`s.  The model keeps them as `Int`, and every arithmetic result of the translated guard
`XV.Gen.pmAdvance` is reduced by `XV.Gen.wrap64` (two's complement), so the statements below are about the
code at the FULL range: a certificate of view `MaxInt64` makes `r + 1` wrap to `MinInt64`.  The comparisons of the
tree (`highQcKeeps`, `orphanExpired`) contain no arithmetic and are exact on `Int`. -/

def minI64 : Int := -9223372036854775808
def maxI64 : Int := 9223372036854775807

/-- a value a Go `int64` can hold -/
def I64 (x : Int) : Prop := minI64 ≤ x ∧ x ≤ maxI64

theorem wrap64_range (x : Int) : I64 (XV.Gen.wrap64 x) := by
  unfold XV.Gen.wrap64 I64 minI64 maxI64; omega

theorem wrap64_id {x : Int} (h : I64 x) : XV.Gen.wrap64 x = x := by
  unfold I64 minI64 maxI64 at h; unfold XV.Gen.wrap64; omega

theorem wrap64_succ_max : XV.Gen.wrap64 (maxI64 + 1) = minI64 := by
  unfold XV.Gen.wrap64 maxI64 minI64; omega

/-- the view never decreases: for EVERY current view and EVERY certificate view (no range hypothesis: the
guard compares the wrapped sum itself with the current view, so a wrapped sum is never taken) -/
theorem pmAdvance_mono (cur r : Int) : cur ≤ XV.Gen.pmAdvance cur r := by
  unfold XV.Gen.pmAdvance
  split
  · rename_i h; simp at h; omega
  · exact Int.le_refl _

/-- the view stays a Go `int64` -/
theorem pmAdvance_range {cur : Int} (r : Int) (h : I64 cur) : I64 (XV.Gen.pmAdvance cur r) := by
  unfold XV.Gen.pmAdvance
  split
  · exact wrap64_range _
  · exact h

/-- below the top of the range the view passes the certificate's view -/
theorem pmAdvance_ge (cur r : Int) (hr : I64 r) (hmax : r < maxI64) :
    cur ≤ XV.Gen.pmAdvance cur r ∧ r + 1 ≤ XV.Gen.pmAdvance cur r := by
  refine ⟨pmAdvance_mono cur r, ?_⟩
  have hw : XV.Gen.wrap64 (r + 1) = r + 1 := wrap64_id (by unfold I64 minI64 maxI64 at *; omega)
  unfold XV.Gen.pmAdvance
  rw [hw]
  split
  · exact Int.le_refl _
  · rename_i h; simp at h; omega

/-- at the top of the range nothing can follow: a certificate of view `MaxInt64` leaves the view where it is
(`r + 1` wraps to `MinInt64`, which is not above any `int64`).  The view does NOT go down. -/
theorem pmAdvance_at_max {cur : Int} (h : I64 cur) : XV.Gen.pmAdvance cur maxI64 = cur := by
  unfold XV.Gen.pmAdvance
  rw [wrap64_succ_max]
  unfold I64 at h
  split
  · rename_i hc; simp at hc; omega
  · rfl

/-- the neighbouring guard `r ≥ cur` (equivalent to `r + 1 > cur` for every `r < MaxInt64`) is NOT monotone at the
full range: the certificate of view `MaxInt64` takes the view from 10 to `MinInt64`.  This is why the guard above
has to be checked with wrap-around semantics and why the harness presents the boundary views. -/
def pmAdvanceGeGuard (cur r : Int) : Int := if r ≥ cur then XV.Gen.wrap64 (r + 1) else cur

theorem pmAdvanceGeGuard_same_below_max (cur r : Int) (hr : I64 r) (hmax : r < maxI64) :
    pmAdvanceGeGuard cur r = XV.Gen.pmAdvance cur r := by
  have hw : XV.Gen.wrap64 (r + 1) = r + 1 := wrap64_id (by unfold I64 minI64 maxI64 at *; omega)
  unfold pmAdvanceGeGuard XV.Gen.pmAdvance
  rw [hw]
  split <;> split <;> rename_i h1 h2 <;> simp at h2 <;> omega

theorem pmAdvanceGeGuard_decreases : pmAdvanceGeGuard 10 maxI64 = minI64 ∧ minI64 < 10 := by
  refine ⟨?_, by unfold minI64; omega⟩
  unfold pmAdvanceGeGuard
  rw [if_pos (by unfold maxI64; omega), wrap64_succ_max]

/-- `updateHighQC` either changes nothing or re-derives all four markers from a node whose view is
not below the old HighQC's -/
theorem updateHighQC_cases (W : World) (s : St) (id : Nat) :
    updateHighQC W s id = s ∨
    (updateHighQC W s id = derive W s id ∧ (W s.high).view ≤ (W id).view ∧ inMain s id = true) := by
  unfold updateHighQC
  split
  · exact Or.inl rfl
  · rename_i hin
    split
    · exact Or.inl rfl
    · rename_i hk
      exact Or.inr ⟨rfl, highQcKeeps_false hk, by simpa using hin⟩

/-! ### the markers -/

/-- GenericQC / LockedQC / CommitQC are the successive ancestors (by `ParentId`) of HighQC whenever
they are set.  The one exception is the placeholder of the initial state (`InitQCTree` sets
CommitQC = Genesis): it survives only while HighQC is still Genesis and nothing else is set. -/
structure MarkersOK (W : World) (s : St) : Prop where
  generic : ∀ g, s.generic = some g → (W s.high).parent = some g
  locked : ∀ l, s.locked = some l → ∃ g, s.generic = some g ∧ (W g).parent = some l
  commit : ∀ c, s.commit = some c → (∃ l, s.locked = some l ∧ (W l).parent = some c) ∨
    (c = s.genesis ∧ s.high = s.genesis ∧ s.generic = none ∧ s.locked = none)

theorem MarkersOK.of_same {W : World} {s s' : St} (h : MarkersOK W s) (hs : SameMarkers s s') : MarkersOK W s' := by
  obtain ⟨h1, h2, h3, h4, h5⟩ := hs
  constructor
  · rw [h1, h2]; exact h.generic
  · rw [h2, h3]; exact h.locked
  · rw [h1, h2, h3, h4, h5]; exact h.commit

theorem derive_markers (W : World) (s : St) (id : Nat) : MarkersOK W (derive W s id) := by
  constructor
  · intro g hg
    exact (anc_some (s := s) hg).1
  · intro l hl
    obtain ⟨g, hg, hgl⟩ := Option.bind_eq_some_iff.mp hl
    exact ⟨g, hg, (anc_some hgl).1⟩
  · intro c hc
    obtain ⟨l, hl, hlc⟩ := Option.bind_eq_some_iff.mp hc
    exact Or.inl ⟨l, hl, (anc_some hlc).1⟩

/-- the markers set by `derive` are nodes of the tree -/
theorem derive_in_tree (W : World) (s : St) (id : Nat) :
    (∀ g, (derive W s id).generic = some g → inMain s g = true) ∧
    (∀ l, (derive W s id).locked = some l → inMain s l = true) ∧
    (∀ c, (derive W s id).commit = some c → inMain s c = true) := by
  refine ⟨?_, ?_, ?_⟩
  · intro g hg; exact (anc_some (s := s) hg).2
  · intro l hl
    obtain ⟨g, _, hgl⟩ := Option.bind_eq_some_iff.mp hl
    exact (anc_some hgl).2
  · intro c hc
    obtain ⟨l, _, hlc⟩ := Option.bind_eq_some_iff.mp hc
    exact (anc_some hlc).2

theorem updateHighQC_markers {W : World} {s : St} (h : MarkersOK W s) (id : Nat) :
    MarkersOK W (updateHighQC W s id) := by
  rcases updateHighQC_cases W s id with e | ⟨e, _⟩
  · rw [e]; exact h
  · rw [e]; exact derive_markers W s id

theorem updateQcStatus_markers {W : World} {s : St} (h : MarkersOK W s) (id : Nat) :
    MarkersOK W (updateQcStatus W s id).1 := by
  unfold updateQcStatus
  split
  · exact h
  · split
    · exact h
    · rename_i s' hi
      have hs' := h.of_same (insert_frame hi).1
      split
      · exact hs'
      · exact updateHighQC_markers hs' _

theorem stepOp_markers {W : World} {s : St} (h : MarkersOK W s) (o : Op) : MarkersOK W (stepOp W s o).1 := by
  cases o with
  | ins id => exact updateQcStatus_markers h id
  | high id => exact updateHighQC_markers h id
  | enforce id =>
    simp only [stepOp, enforceUpdateHighQC]
    split
    · exact h
    · exact derive_markers W s id
  | commit id => exact h.of_same (updateCommit_frame W s id)
  | prop id pview c =>
    simp only [stepOp]
    split
    · exact h
    · apply updateQcStatus_markers
      have h1 : MarkersOK W (advanceView s pview) := h.of_same ⟨rfl, rfl, rfl, rfl, rfl⟩
      split
      · exact h1.of_same (updateCommit_frame W _ _)
      · exact h1
  | vote id =>
    simp only [stepOp]
    split
    · exact h
    · exact updateHighQC_markers (s := advanceView s (W id).view) (h.of_same ⟨rfl, rfl, rfl, rfl, rfl⟩) id
  | pm v => exact h.of_same ⟨rfl, rfl, rfl, rfl, rfl⟩

/-! ### HighQC view, root, pacemaker: one step -/

theorem updateHighQC_view (W : World) (s : St) (id : Nat) :
    (W s.high).view ≤ (W (updateHighQC W s id).high).view := by
  rcases updateHighQC_cases W s id with e | ⟨e, hv, _⟩
  · rw [e]; exact Int.le_refl _
  · rw [e]; exact hv

theorem updateQcStatus_view (W : World) (s : St) (id : Nat) :
    (W s.high).view ≤ (W (updateQcStatus W s id).1.high).view := by
  unfold updateQcStatus
  split
  · exact Int.le_refl _
  · split
    · exact Int.le_refl _
    · rename_i s' hi
      have hh : s'.high = s.high := (insert_frame hi).1.1
      split
      · rw [hh]; exact Int.le_refl _
      · rw [← hh]; exact updateHighQC_view W s' _

theorem updateQcStatus_root (W : World) (s : St) (id : Nat) : (updateQcStatus W s id).1.root = s.root := by
  unfold updateQcStatus
  split
  · rfl
  · split
    · rfl
    · rename_i s' hi
      have hr : s'.root = s.root := (insert_frame hi).2.1
      split
      · exact hr
      · rw [(updateHighQC_tree W s' _).2.1]; exact hr

theorem updateQcStatus_pm (W : World) (s : St) (id : Nat) : (updateQcStatus W s id).1.pm = s.pm := by
  unfold updateQcStatus
  split
  · rfl
  · split
    · rfl
    · rename_i s' hi
      have hr : s'.pm = s.pm := (insert_frame hi).2.2
      split
      · exact hr
      · rw [(updateHighQC_tree W s' _).2.2.2.2.2.1]; exact hr

theorem updateCommit_root (W : World) (s : St) (id : Nat) : Desc s.sons s.root (updateCommit W s id).root := by
  rcases updateCommit_cases W s id with e | ⟨ppp, pppp, e, h1, _⟩
  · rw [e]; exact Desc.refl _
  · rw [e]; exact dfs_sound h1

/-! ## The property theorems -/

/-- The pending structure is a forest: Root's tree plus the orphan trees. -/
structure Forest (W : World) (s : St) : Prop where
  /-- every non-root node hangs under the node its `ParentId` names -/
  edges : ∀ a c, Stored s a → c ∈ s.sons a → (W c).parent = some a
  /-- no father lists a son twice -/
  sonsNodup : ∀ a, Stored s a → (s.sons a).Nodup
  /-- Root and the orphan roots are pairwise distinct -/
  topsNodup : (s.root :: s.orphans).Nodup
  /-- Root and the orphan roots are nobody's sons -/
  topsNoFather : ∀ a c, Stored s a → c ∈ s.sons a → c ∉ s.root :: s.orphans
  /-- every id occurs at most once: there is only one way to reach it from Root / the orphan roots -/
  once : ∀ t1 t2 l1 l2 x, t1 ∈ s.root :: s.orphans → t2 ∈ s.root :: s.orphans →
    Path s.sons t1 l1 x → Path s.sons t2 l2 x → t1 = t2 ∧ l1 = l2

theorem Path.cases_tail {sons a l x} (h : Path sons a l x) :
    (l = [] ∧ x = a) ∨ ∃ l' b, l = l' ++ [x] ∧ Path sons a l' b ∧ x ∈ sons b := by
  induction h with
  | nil => exact Or.inl ⟨rfl, rfl⟩
  | @cons a c x l hc hp ih =>
    right
    rcases ih with ⟨e1, e2⟩ | ⟨l', b, e, hp', hx⟩
    · subst e1; subst e2
      exact ⟨[], a, rfl, Path.nil a, hc⟩
    · subst e
      exact ⟨c :: l', b, rfl, Path.cons hc hp', hx⟩

theorem Inv.path_unique {W : World} {s : St} (h : Inv W s) :
    ∀ n l1, l1.length = n → ∀ t1 t2 l2 x, t1 ∈ s.root :: s.orphans → t2 ∈ s.root :: s.orphans →
      Path s.sons t1 l1 x → Path s.sons t2 l2 x → t1 = t2 ∧ l1 = l2 := by
  have top_st : ∀ t, t ∈ s.root :: s.orphans → Stored s t := by
    intro t ht
    rcases List.mem_cons.mp ht with e | e
    · exact Or.inl (e ▸ Desc.refl _)
    · exact Or.inr ⟨t, e, Desc.refl _⟩
  have notson : ∀ t, t ∈ s.root :: s.orphans → ∀ b, Stored s b → t ∈ s.sons b → False := by
    intro t ht b hb hc
    have := h.top b t hb hc
    rcases List.mem_cons.mp ht with e | e
    · exact this.1 e
    · exact this.2 e
  intro n
  induction n with
  | zero =>
    intro l1 hl t1 t2 l2 x ht1 ht2 h1 h2
    have : l1 = [] := List.length_eq_zero_iff.mp hl
    subst this
    cases h1
    rcases h2.cases_tail with ⟨e1, e2⟩ | ⟨l', b, _, hp', hx⟩
    · exact ⟨e2, e1.symm⟩
    · exact (notson _ ht1 b ((top_st t2 ht2).desc hp'.desc) hx).elim
  | succ n ih =>
    intro l1 hl t1 t2 l2 x ht1 ht2 h1 h2
    rcases h1.cases_tail with ⟨e1, _⟩ | ⟨l1', b1, e1, hp1, hx1⟩
    · subst e1; simp at hl
    · rcases h2.cases_tail with ⟨_, e2⟩ | ⟨l2', b2, e2, hp2, hx2⟩
      · subst e2
        exact (notson _ ht2 b1 ((top_st t1 ht1).desc hp1.desc) hx1).elim
      · have e3 := h.edge _ _ hx1
        have e4 := h.edge _ _ hx2
        have : b1 = b2 := by rw [e3] at e4; exact Option.some.inj e4
        subst this
        have hlen : l1'.length = n := by subst e1; simp at hl; exact hl
        obtain ⟨r1, r2⟩ := ih l1' hlen t1 t2 l2' b1 ht1 ht2 hp1 hp2
        subst r2
        exact ⟨r1, by rw [e1, e2]⟩

theorem Inv.forest {W : World} {s : St} (h : Inv W s) : Forest W s := by
  constructor
  · intro a c _ hc; exact h.edge a c hc
  · intro a _; exact h.sonsNodup a
  · exact List.nodup_cons.mpr ⟨h.rootNotOrph, h.orphNodup⟩
  · intro a c ha hc hm
    have := h.top a c ha hc
    rcases List.mem_cons.mp hm with e | e
    · exact this.1 e
    · exact this.2 e
  · intro t1 t2 l1 l2 x ht1 ht2 h1 h2
    exact h.path_unique l1.length l1 rfl t1 t2 l2 x ht1 ht2 h1 h2

/-- **tree_inv.** After every sequence of operations (proposal arrivals in any order, duplicates,
certifications, rollbacks, commits, SMR proposal/vote steps, pacemaker advances), starting from the
initial tree, Root's tree together with the orphan forest is a forest, every id occurs in it at most
once, and every non-root node hangs under the node its `ParentId` names. -/
theorem tree_inv (W : World) (hW : Acyclic W) (g : Nat) (ops : List Op) :
    Forest W (run W (init g) ops) := by
  obtain ⟨rk, hrk⟩ := hW
  exact (run_inv hrk (init_inv W g) ops).forest

/-- `tree_inv` from any state that satisfies the invariant (used for the trees `InitQCTree` builds
from a ledger, Props/C15Init.lean) -/
theorem tree_inv_from (W : World) (hW : Acyclic W) {s : St} (h : Inv W s) (ops : List Op) :
    Forest W (run W s ops) := by
  obtain ⟨rk, hrk⟩ := hW
  exact (run_inv hrk h ops).forest

theorem Stored.congr {s s' : St} (h1 : s'.sons = s.sons) (h2 : s'.root = s.root) (h3 : s'.orphans = s.orphans)
    {x : Nat} (h : Stored s x) : Stored s' x := by
  unfold Stored InMain InOrph at *
  rw [h1, h2, h3]; exact h

theorem place_stored_node {W : World} {s : St} {node p : Nat} {kids rest : List Nat} {attach : Bool}
    {om : List Nat} (h : PlaceHyp W s node p kids rest attach om) :
    Stored (place s node p kids rest attach om) node := by
  rcases h.cases with ⟨ha, hm⟩ | ⟨ha, ⟨r, hr, hd⟩, _⟩ | ⟨ha, _⟩
  · subst ha
    left
    exact Desc.tail (h.desc_old (Or.inl (Desc.refl _)) hm) place_sons_node
  · subst ha
    right
    have hro := (h.restSub r hr).1
    exact ⟨r, hr, Desc.tail (h.desc_old (Or.inr ⟨r, hro, Desc.refl _⟩) hd) place_sons_node⟩
  · subst ha
    right
    exact ⟨node, by simp [place], Desc.refl _⟩

/-- **stored_once.** A proposal with a parent id that is handed to `updateQcStatus` in any reachable
state is accepted and afterwards stored (by `tree_inv`: exactly once) — in the tree or in the orphan
forest — unless it had already gone through the orphan list before (`OrphanMap`) and has since been
dropped by orphan expiry or commit pruning. -/
theorem stored_once_inv (W : World) (hW : Acyclic W) {s : St} (h : Inv W s) (id p : Nat)
    (hp : (W id).parent = some p) :
    (updateQcStatus W s id).2 = true ∧
    (Stored (updateQcStatus W s id).1 id ∨ (id ∈ s.omap ∧ ¬ Stored s id)) := by
  obtain ⟨rk, hrk⟩ := hW
  unfold updateQcStatus
  by_cases hin : inMain s id = true
  · simp only [hin, if_true]
    exact ⟨by simp, Or.inl (Or.inl (dfs_sound hin))⟩
  · have hin' : inMain s id = false := by simpa using hin
    simp only [hin', Bool.false_eq_true, if_false]
    have key : ∀ s', QcTree.insert W s id = some s' → Stored s' id ∨ (id ∈ s.omap ∧ ¬ Stored s id) := by
      intro s' hi
      unfold QcTree.insert at hi
      rw [hp] at hi
      simp only at hi
      split at hi
      · rename_i hpm
        cases hi
        exact Or.inl (place_stored_node (insertMain_hyp hrk h hp hin' hpm))
      · rename_i hpm
        cases hi
        rcases insertOrphan_cases hrk h hp hin' (by simpa using hpm) with ⟨e, hom⟩ | ⟨kids, rest, attach, e, hyp, _⟩
        · rw [e]
          by_cases hst : Stored s id
          · exact Or.inl hst
          · exact Or.inr ⟨hom, hst⟩
        · rw [e]; exact Or.inl (place_stored_node hyp)
    cases hi : QcTree.insert W s id with
    | none => unfold QcTree.insert at hi; rw [hp] at hi; simp only at hi; split at hi <;> cases hi
    | some s' =>
      simp only [hp]
      refine ⟨by simp, ?_⟩
      rcases key s' hi with h1 | h1
      · left
        obtain ⟨e1, e2, e3, _⟩ := updateHighQC_tree W s' p
        exact h1.congr e1 e2 e3
      · exact Or.inr h1

theorem stored_once (W : World) (hW : Acyclic W) (g : Nat) (ops : List Op) (id p : Nat)
    (hp : (W id).parent = some p) :
    (updateQcStatus W (run W (init g) ops) id).2 = true ∧
    (Stored (updateQcStatus W (run W (init g) ops) id).1 id ∨
      (id ∈ (run W (init g) ops).omap ∧ ¬ Stored (run W (init g) ops) id)) := by
  have hW' := hW
  obtain ⟨rk, hrk⟩ := hW'
  exact stored_once_inv W hW (run_inv hrk (init_inv W g) ops) id p hp

/-- **adopted_on_parent_arrival.** In every reachable state — in particular right after the arrival
of `p` — every stored proposal `c` (other than Root) whose parent `p` is stored hangs directly under
`p` and is not an orphan root: no orphan waits beside its parent. -/
theorem adopted_inv {W : World} {s : St} (h : Inv W s) (c p : Nat)
    (hc : Stored s c) (hroot : c ≠ s.root) (hpar : (W c).parent = some p) (hp : Stored s p) :
    c ∈ s.sons p ∧ c ∉ s.orphans := by
  have fromEdge : ∀ b, Stored s b → c ∈ s.sons b → c ∈ s.sons p ∧ c ∉ s.orphans := by
    intro b hb hcb
    have e := h.edge _ _ hcb
    have : b = p := by rw [hpar] at e; exact (Option.some.inj e).symm
    subst this
    exact ⟨hcb, (h.top b c hb hcb).2⟩
  rcases hc with hm | ⟨r, hr, hd⟩
  · rcases hm.cases_tail with e | ⟨b, hb, hcb⟩
    · exact (hroot e).elim
    · exact fromEdge b (Or.inl hb) hcb
  · rcases hd.cases_tail with e | ⟨b, hb, hcb⟩
    · subst e; exact (h.orphParent c hr p hpar hp).elim
    · exact fromEdge b (Or.inr ⟨r, hr, hb⟩) hcb

theorem adopted_on_parent_arrival (W : World) (hW : Acyclic W) (g : Nat) (ops : List Op) (c p : Nat)
    (hc : Stored (run W (init g) ops) c) (hroot : c ≠ (run W (init g) ops).root)
    (hpar : (W c).parent = some p) (hp : Stored (run W (init g) ops) p) :
    c ∈ (run W (init g) ops).sons p ∧ c ∉ (run W (init g) ops).orphans := by
  obtain ⟨rk, hrk⟩ := hW
  exact adopted_inv (run_inv hrk (init_inv W g) ops) c p hc hroot hpar hp

/-- an operation other than the explicit rollback -/
def notEnforce : Op → Prop
  | .enforce _ => False
  | _ => True

/-- **highqc_monotone** (one step, any state): the view of HighQC never decreases except by
`enforceUpdateHighQC`. -/
theorem highqc_monotone_step (W : World) (s : St) (o : Op) (ho : notEnforce o) :
    (W s.high).view ≤ (W (stepOp W s o).1.high).view := by
  cases o with
  | ins id => exact updateQcStatus_view W s id
  | high id => exact updateHighQC_view W s id
  | enforce id => exact ho.elim
  | commit id =>
    simp only [stepOp]
    rw [(updateCommit_frame W s id).1]; exact Int.le_refl _
  | prop id pview c =>
    simp only [stepOp]
    split
    · exact Int.le_refl _
    · refine Int.le_trans ?_ (updateQcStatus_view W _ id)
      split
      · rw [(updateCommit_frame W _ _).1]; exact Int.le_refl _
      · exact Int.le_refl _
  | vote id =>
    simp only [stepOp]
    split
    · exact Int.le_refl _
    · exact updateHighQC_view W (advanceView s (W id).view) id
  | pm v => exact Int.le_refl _

/-- **highqc_monotone**: over any history without explicit rollback the view of HighQC is
non-decreasing (from any state, reachable or not). -/
theorem highqc_monotone (W : World) (s : St) (ops : List Op) (ho : ∀ o, o ∈ ops → notEnforce o) :
    (W s.high).view ≤ (W (run W s ops).high).view := by
  induction ops generalizing s with
  | nil => exact Int.le_refl _
  | cons o ops ih =>
    refine Int.le_trans (highqc_monotone_step W s o (ho o List.mem_cons_self)) ?_
    exact ih (stepOp W s o).1 (fun o' ho' => ho o' (List.mem_cons_of_mem _ ho'))

theorem init_markers (W : World) (g : Nat) : MarkersOK W (init g) := by
  constructor
  · intro x hx; simp [init] at hx
  · intro x hx; simp [init] at hx
  · intro c hc
    simp [init] at hc
    subst hc
    exact Or.inr ⟨rfl, rfl, rfl, rfl⟩

/-- **markers_are_ancestors.** In every reachable state GenericQC, LockedQC, CommitQC are — whenever
set — the parent, grandparent and great-grandparent (by `ParentId`) of HighQC; a later marker is set
only if the earlier ones are.  (Exception spelled out in `MarkersOK.commit`: the initial
CommitQC = Genesis placeholder, which lasts only while HighQC = Genesis and nothing else is set.) -/
theorem markers_are_ancestors (W : World) (g : Nat) (ops : List Op) : MarkersOK W (run W (init g) ops) := by
  have : ∀ s, MarkersOK W s → MarkersOK W (run W s ops) := by
    induction ops with
    | nil => intro s h; exact h
    | cons o ops ih => intro s h; exact ih _ (stepOp_markers h o)
  exact this _ (init_markers W g)

/-- `markers_are_ancestors` from any state whose markers are in order -/
theorem markers_run {W : World} {s : St} (h : MarkersOK W s) (ops : List Op) : MarkersOK W (run W s ops) := by
  induction ops generalizing s with
  | nil => exact h
  | cons o ops ih => exact ih (stepOp_markers h o)

/-- **root_moves_down** (one step, any state): the new Root is a node of the old tree (a descendant of
the old Root); only `commit` / `prop` move it. -/
theorem root_moves_down (W : World) (s : St) (o : Op) : Desc s.sons s.root (stepOp W s o).1.root := by
  cases o with
  | ins id => simp only [stepOp]; rw [updateQcStatus_root]; exact Desc.refl _
  | high id => simp only [stepOp]; rw [(updateHighQC_tree W s id).2.1]; exact Desc.refl _
  | enforce id =>
    simp only [stepOp, enforceUpdateHighQC]
    split
    · exact Desc.refl _
    · exact Desc.refl _
  | commit id => exact updateCommit_root W s id
  | prop id pview c =>
    simp only [stepOp]
    split
    · exact Desc.refl _
    · rw [updateQcStatus_root]
      split
      · exact updateCommit_root W (advanceView s pview) _
      · exact Desc.refl _
  | vote id =>
    simp only [stepOp]
    split
    · exact Desc.refl _
    · rw [(updateHighQC_tree W _ id).2.1]; exact Desc.refl _
  | pm v => exact Desc.refl _

/-- `a` is an ancestor-or-self of `x` along `ParentId`s -/
inductive AncW (W : World) (a : Nat) : Nat → Prop
  | refl : AncW W a a
  | step {x p : Nat} : (W x).parent = some p → AncW W a p → AncW W a x

theorem AncW.trans {W : World} {a b c : Nat} (h1 : AncW W a b) (h2 : AncW W b c) : AncW W a c := by
  induction h2 with
  | refl => exact h1
  | step hp _ ih => exact AncW.step hp ih

theorem Desc.ancW {W : World} {sons : Nat → List Nat} (he : EdgeOK W sons) {a x : Nat} (h : Desc sons a x) :
    AncW W a x := by
  refine Desc.tail_induction (P := AncW W a) AncW.refl ?_ h
  intro b c _ hb hc
  exact AncW.step (he _ _ hc) hb

/-- **root_moves_down** over histories: from a reachable state on, whatever happens, the Root stays
on the descendant side of the earlier Root (the earlier Root is its ancestor-or-self by `ParentId`). -/
theorem root_only_descends_inv (W : World) (hW : Acyclic W) {s : St} (h : Inv W s) (more : List Op) :
    AncW W s.root (run W s more).root := by
  obtain ⟨rk, hrk⟩ := hW
  induction more generalizing s with
  | nil => exact AncW.refl
  | cons o more ih =>
    have h1 : AncW W s.root (stepOp W s o).1.root := (root_moves_down W s o).ancW h.edge
    exact h1.trans (ih (stepOp_inv hrk h o))

theorem root_only_descends (W : World) (hW : Acyclic W) (g : Nat) (ops more : List Op) :
    AncW W (run W (init g) ops).root (run W (run W (init g) ops) more).root := by
  have hW' := hW
  obtain ⟨rk, hrk⟩ := hW'
  exact root_only_descends_inv W hW (run_inv hrk (init_inv W g) ops) more

/-- **pacemaker_monotone** (one step, any state): the pacemaker view never decreases, and after it is
advanced by a certificate of view `v` it is at least `v + 1`. -/
theorem pacemaker_monotone_step (W : World) (s : St) (o : Op) : s.pm ≤ (stepOp W s o).1.pm := by
  cases o with
  | ins id => simp only [stepOp]; rw [updateQcStatus_pm]; exact Int.le_refl _
  | high id => simp only [stepOp]; rw [(updateHighQC_tree W s id).2.2.2.2.2.1]; exact Int.le_refl _
  | enforce id =>
    simp only [stepOp, enforceUpdateHighQC]
    split
    · exact Int.le_refl _
    · exact Int.le_refl _
  | commit id =>
    simp only [stepOp]
    rcases updateCommit_cases W s id with e | ⟨_, _, e, _⟩ <;> rw [e] <;> exact Int.le_refl _
  | prop id pview c =>
    simp only [stepOp]
    split
    · exact Int.le_refl _
    · rw [updateQcStatus_pm]
      have h1 : s.pm ≤ (advanceView s pview).pm := pmAdvance_mono s.pm pview
      split
      · rcases updateCommit_cases W (advanceView s pview) ‹Nat› with e | ⟨_, _, e, _⟩ <;> rw [e] <;> exact h1
      · exact h1
  | vote id =>
    simp only [stepOp]
    split
    · exact Int.le_refl _
    · rw [(updateHighQC_tree W _ id).2.2.2.2.2.1]; exact pmAdvance_mono s.pm _
  | pm v => exact pmAdvance_mono s.pm v

theorem pacemaker_monotone (W : World) (s : St) (ops : List Op) : s.pm ≤ (run W s ops).pm := by
  induction ops generalizing s with
  | nil => exact Int.le_refl _
  | cons o ops ih => exact Int.le_trans (pacemaker_monotone_step W s o) (ih _)

theorem pacemaker_advances (W : World) (s : St) (v : Int) (hv : I64 v) (hmax : v < maxI64) :
    v + 1 ≤ (stepOp W s (.pm v)).1.pm :=
  (pmAdvance_ge s.pm v hv hmax).2

/-- the pacemaker view stays a Go `int64` under every operation -/
theorem pacemaker_range_step (W : World) (s : St) (o : Op) (h : I64 s.pm) : I64 (stepOp W s o).1.pm := by
  cases o with
  | ins id => simp only [stepOp]; rw [updateQcStatus_pm]; exact h
  | high id => simp only [stepOp]; rw [(updateHighQC_tree W s id).2.2.2.2.2.1]; exact h
  | enforce id =>
    simp only [stepOp, enforceUpdateHighQC]
    split
    · exact h
    · exact h
  | commit id =>
    simp only [stepOp]
    rcases updateCommit_cases W s id with e | ⟨_, _, e, _⟩ <;> rw [e] <;> exact h
  | prop id pview c =>
    simp only [stepOp]
    split
    · exact h
    · rw [updateQcStatus_pm]
      have h1 : I64 (advanceView s pview).pm := pmAdvance_range pview h
      split
      · rcases updateCommit_cases W (advanceView s pview) ‹Nat› with e | ⟨_, _, e, _⟩ <;> rw [e] <;> exact h1
      · exact h1
  | vote id =>
    simp only [stepOp]
    split
    · exact h
    · rw [(updateHighQC_tree W _ id).2.2.2.2.2.1]; exact pmAdvance_range _ h
  | pm v => exact pmAdvance_range v h

theorem pacemaker_range (W : World) (s : St) (ops : List Op) (h : I64 s.pm) : I64 (run W s ops).pm := by
  induction ops generalizing s with
  | nil => exact h
  | cons o ops ih => exact ih _ (pacemaker_range_step W s o h)

/-- a certificate of view `MaxInt64` (one unauthenticated proposal can carry it) does not move the view -/
theorem pacemaker_at_max (W : World) (s : St) (h : I64 s.pm) : (stepOp W s (.pm maxI64)).1.pm = s.pm :=
  pmAdvance_at_max h

/-! ### independent trees of one process

Property C15 is about every node's tree.  In one process there may be several (parallel chains; the replicas of an
in-process net): the model of that is a family of states stepped one at a time in ANY interleaving (`runSched`).  Tree
`i` ends exactly where its own operations alone take it, so every theorem of this file holds for every tree of the
family.  The harness op `conc` checks this of the real code (threads interleaved at every id read of a lookup): state
shared between instances (scratch space, caches, pooled nodes) would break it. -/

theorem interleaved_eq_sequential (Ws : Nat → World) (sts : Nat → St) (sched : List (Nat × Op)) (i : Nat) :
    runSched Ws sts sched i = run (Ws i) (sts i) ((sched.filter (fun io => io.1 = i)).map (fun io => io.2)) := by
  induction sched generalizing sts with
  | nil => rfl
  | cons io rest ih =>
    show runSched Ws (stepAt Ws sts io) rest i = _
    rw [ih]
    by_cases h : io.1 = i
    · have e : stepAt Ws sts io i = (stepOp (Ws i) (sts i) io.2).1 := by
        unfold stepAt; rw [if_pos h.symm]
      rw [e, List.filter_cons_of_pos (by simpa using h)]
      rfl
    · have e : stepAt Ws sts io i = sts i := by
        unfold stepAt; rw [if_neg (fun c => h c.symm)]
      rw [e, List.filter_cons_of_neg (by simpa using h)]

/-- the invariant of every tree of the family survives every interleaving -/
theorem inv_interleaved {rk : Nat → Nat} (Ws : Nat → World) (sts : Nat → St) (sched : List (Nat × Op)) (i : Nat)
    (hrk : ∀ x p, ((Ws i) x).parent = some p → rk p < rk x) (h : Inv (Ws i) (sts i)) :
    Inv (Ws i) (runSched Ws sts sched i) := by
  rw [interleaved_eq_sequential]
  exact run_inv hrk h _

/-! ### non-vacuity: concrete reachable states -/

/-- proposals 1 ← 2 ← {31, 32} below the genesis proposal 0 (the arrival order 31, 32, 2, 1 is the
replay of the repaired defect, corpus/C15/orphan-siblings.ops) and a chain 0 ← 1 ← … for the rest -/
def W1 : World := fun x =>
  if x = 0 then ⟨0, none⟩ else if x = 31 ∨ x = 32 then ⟨3, some 2⟩
  else if x = 40 then ⟨1, some 39⟩ else ⟨x, some (x - 1)⟩

theorem W1_acyclic : Acyclic W1 := by
  refine ⟨fun x => x, ?_⟩
  intro x p h
  show p < x
  unfold W1 at h
  split at h
  · cases h
  · split at h
    · simp at h; omega
    · split at h
      · simp at h; omega
      · simp at h; omega

/-- children first: 31 and 32 wait as orphans, 2 collects *both* of them … -/
example : (run W1 (init 0) [.ins 31, .ins 32, .ins 2]).orphans = [2] ∧
    (run W1 (init 0) [.ins 31, .ins 32, .ins 2]).sons 2 = [31, 32] := by decide

/-- … and when 1 arrives the whole orphan tree is adopted: nothing is left beside its parent
(`adopted_on_parent_arrival` with non-trivial hypotheses) -/
example : (run W1 (init 0) [.ins 31, .ins 32, .ins 2, .ins 1]).orphans = [] ∧
    mainNodes (run W1 (init 0) [.ins 31, .ins 32, .ins 2, .ins 1]) = [0, 1, 2, 31, 32] := by decide

example : Stored (run W1 (init 0) [.ins 31, .ins 32, .ins 2, .ins 1]) 32 :=
  Or.inl (dfs_sound (f := 5) (by decide))

/-- a chain of five certified proposals: the markers are the three ancestors of HighQC, and the commit
moves Root three generations below the certified node (`markers_are_ancestors`, `root_moves_down`,
`highqc_monotone` are about states like this one) -/
example : let s := run W1 (init 0) [.ins 1, .ins 2, .ins 3, .ins 4, .ins 5, .high 5]
    s.high = 5 ∧ s.generic = some 4 ∧ s.locked = some 3 ∧ s.commit = some 2 ∧
    (stepOp W1 s (.commit 5)).1.root = 2 ∧ mainNodes (stepOp W1 s (.commit 5)).1 = [2, 3, 4, 5] := by decide

/-- the exception in `stored_once` is real: the orphan 40 (view 1) expires once Root has view 3 (it is
dropped when the next orphan arrives), and its re-delivery is ignored because `OrphanMap` remembers it -/
example : let s := run W1 (init 0) [.ins 40, .ins 1, .ins 2, .ins 3, .ins 4, .ins 5, .ins 6, .commit 6, .ins 9, .ins 40]
    s.root = 3 ∧ s.orphans = [9] ∧ 40 ∈ s.omap ∧ 40 ∉ mainNodes s ++ orphanNodes s ∧
    (stepOp W1 s (.ins 40)).2 = true := by decide

/-- the pacemaker only moves forward -/
example : (run W1 (init 0) [.pm 4, .pm 2, .vote 0]).pm = 5 := by decide

/-- … also at the top of the `int64` range: after the certificate of view `MaxInt64 - 1` the view is `MaxInt64`
and the certificates of the views `MaxInt64`, `MinInt64`, `-1` leave it there -/
example : (run W1 (init 0) [.pm 4, .pm (maxI64 - 1)]).pm = maxI64 ∧
    (run W1 (init 0) [.pm 4, .pm (maxI64 - 1), .pm maxI64, .pm minI64, .pm (-1)]).pm = maxI64 := by decide

end XV.C15
