import XV.Model.Miner
/-!
C13 — "any block a node assembles from its own pool — award, timer transaction, then pending transactions — passes
block, award and transaction validation": the part of the property that depends on the HEIGHT the miner computes the
block for (`Miner.mining`: the consensus may ask to cut blocks off before packing).

Theorems about `XV.Miner` (model of `Miner.mining` / `packBlock` / `GenesisBlock.CalcAward`):

* the award schedule: closed form of the decay loop, constant on each period, the configured award without decay,
  never increasing when the ratio is at most 1;
* the round: the new block stands one above the truncate target, carries the award of ITS height (for every award
  configuration, trunk and truncation depth), and is acceptable to every other node whenever no task registered by a
  still-pending transaction is due at that height; the unrestricted statement is false of the code as it is
  (`GetTimerTx` runs on the live state) — counterexample; a miner that reads the height before the truncation builds
  blocks no other node accepts (`stale_height_refused`);
* histories: after any sequence of rounds (any truncation depths) every block of the trunk is acceptable on top of the
  blocks below it.
-/
namespace XV.C13Miner
open XV.Miner

-- ================================================================ 1. the award schedule

theorem decayLoop_closed (num den p : Nat) (a d : Nat) :
    decayLoop num den p (a, d) = (a * num ^ p, d * den ^ p) := by
  induction p generalizing a d with
  | zero => simp [decayLoop]
  | succ p ih =>
    simp only [decayLoop, ih, Nat.pow_succ, Prod.mk.injEq]
    constructor <;> ac_rfl

/-- **closed form of `CalcAward`**: the configured award times `ratio ^ (height / gap)`, rounded half up -/
theorem calcAward_closed_form (c : AwardCfg) (h : Nat) :
    calcAward c h = if c.gap = 0 then c.award
      else roundDiv (c.award * c.num ^ (h / c.gap)) (c.den ^ (h / c.gap)) := by
  unfold calcAward
  split
  · rfl
  · simp [decayLoop_closed]

/-- heights of the same period get the same award -/
theorem calcAward_period (c : AwardCfg) (h1 h2 : Nat) (h : h1 / c.gap = h2 / c.gap) :
    calcAward c h1 = calcAward c h2 := by
  rw [calcAward_closed_form, calcAward_closed_form, h]

theorem roundDiv_self_mul (a d : Nat) (hd : 0 < d) : roundDiv (a * d) d = a := by
  unfold roundDiv
  have h2 : 0 < 2 * d := by omega
  have : 2 * (a * d) + d = d + 2 * d * a := by
    rw [Nat.mul_comm a d, ← Nat.mul_assoc]; omega
  rw [this, Nat.add_mul_div_left _ _ h2]
  have : d / (2 * d) = 0 := Nat.div_eq_of_lt (by omega)
  omega

/-- without decay (`height_gap = 0`, or ratio 1) every block gets the configured award -/
theorem calcAward_no_decay (c : AwardCfg) (h : Nat) (hc : c.gap = 0 ∨ (c.num = c.den ∧ 0 < c.den)) :
    calcAward c h = c.award := by
  rw [calcAward_closed_form]
  rcases hc with hg | ⟨hn, hd⟩
  · simp [hg]
  · split
    · rfl
    · rw [hn]
      exact roundDiv_self_mul _ _ (Nat.pow_pos hd)

theorem roundDiv_mono (a1 a2 b : Nat) (h : a1 ≤ a2) : roundDiv a1 b ≤ roundDiv a2 b := by
  unfold roundDiv
  exact Nat.div_le_div_right (by omega)

/-- one more decay step does not raise the rounded value when the ratio is at most 1 -/
theorem roundDiv_step (a d num den : Nat) (hd : 0 < d) (hden : 0 < den) (hle : num ≤ den) :
    roundDiv (a * num) (d * den) ≤ roundDiv a d := by
  unfold roundDiv
  apply Nat.le_of_lt_succ
  have hpos : 0 < 2 * (d * den) := by
    have := Nat.mul_pos hd hden
    omega
  rw [Nat.div_lt_iff_lt_mul hpos]
  have h1 : 2 * a + d < 2 * d * ((2 * a + d) / (2 * d) + 1) := Nat.lt_mul_div_succ (2 * a + d) (by omega)
  generalize (2 * a + d) / (2 * d) = q at *
  have h2 : 2 * (a * num) + d * den ≤ den * (2 * a + d) := by
    have : a * num ≤ a * den := Nat.mul_le_mul_left a hle
    rw [Nat.mul_add, Nat.mul_comm den d]
    have : den * (2 * a) = 2 * (a * den) := by rw [Nat.mul_comm den, Nat.mul_assoc]
    omega
  have h3 : den * (2 * a + d) < den * (2 * d * (q + 1)) := Nat.mul_lt_mul_of_pos_left h1 hden
  have h4 : den * (2 * d * (q + 1)) = (q + 1) * (2 * (d * den)) := by
    rw [Nat.mul_comm (q+1)]
    simp only [Nat.mul_assoc, Nat.mul_comm, Nat.mul_left_comm]
  rw [h4] at h3
  exact Nat.lt_of_le_of_lt h2 h3

theorem decay_antitone (a num den : Nat) (hden : 0 < den) (hle : num ≤ den) (p k : Nat) :
    roundDiv (a * num ^ (p + k)) (den ^ (p + k)) ≤ roundDiv (a * num ^ p) (den ^ p) := by
  induction k with
  | zero => exact Nat.le_refl _
  | succ k ih =>
    have h := roundDiv_step (a * num ^ (p + k)) (den ^ (p + k)) num den (Nat.pow_pos hden) hden hle
    rw [← Nat.add_assoc, Nat.pow_succ, Nat.pow_succ, ← Nat.mul_assoc]
    exact Nat.le_trans h ih

/-- **the award never increases with the height** when the decay ratio is at most 1 -/
theorem calcAward_antitone (c : AwardCfg) (hden : 0 < c.den) (hle : c.num ≤ c.den) (h1 h2 : Nat) (h : h1 ≤ h2) :
    calcAward c h2 ≤ calcAward c h1 := by
  rw [calcAward_closed_form, calcAward_closed_form]
  split
  · exact Nat.le_refl _
  · have hp : h1 / c.gap ≤ h2 / c.gap := Nat.div_le_div_right h
    obtain ⟨k, hk⟩ := Nat.exists_eq_add_of_le hp
    rw [hk]
    exact decay_antitone c.award c.num c.den hden hle (h1 / c.gap) k

-- ================================================================ 2. one round

/-- **the new block stands one above the truncate target**: after cutting `k` blocks of a trunk of height `h` the
block has height `h - k + 1` -/
theorem mined_height (c : AwardCfg) (n : Node) (k : Nat) :
    (mineRound c n k).1.height = n.height - k + 1 := by
  simp [mineRound, Node.height, List.length_drop]

/-- **the award is the award of the block's own height** — every award configuration, trunk, truncation depth -/
theorem mined_award_valid (c : AwardCfg) (n : Node) (k : Nat) :
    (mineRound c n k).1.award = calcAward c (mineRound c n k).1.height := by
  simp [mineRound]

theorem due_append (a b : List Task) (h : Nat) : due (a ++ b) h = due a h ++ due b h := by
  simp [due, List.filter_append]

/-- the full statement: every block the miner produces is acceptable on top of the truncate target -/
def mined_block_accepted_statement : Prop :=
  ∀ (c : AwardCfg) (n : Node) (k : Nat), acceptable c (n.trunk.drop k) (mineRound c n k).1

/-- **false of the code as it is**: `GetTimerTx` runs on the live state; a task whose registration is still pending
and that is due at the very next height is run by the producer's timer transaction, while every other node, which
generates the timer transaction on the confirmed state, finds no task due (known finding
`timer-tx-cites-later-transaction`) -/
theorem mined_block_accepted_counterexample : ¬ mined_block_accepted_statement := by
  intro h
  have := h {} { trunk := [], pendingAdds := [⟨1, 1⟩] } 0
  revert this
  decide

/-- **partial**: the block is acceptable — right height, the award of that height, the timer transaction every other
node generates — whenever no task registered by a still-pending transaction is due at the block's height -/
theorem mined_block_accepted_partial (c : AwardCfg) (n : Node) (k : Nat)
    (hp : due n.pendingAdds ((n.trunk.drop k).length + 1) = []) :
    acceptable c (n.trunk.drop k) (mineRound c n k).1 := by
  refine ⟨rfl, rfl, ?_⟩
  simp only [mineRound, due_append, hp, List.append_nil]

/-- a miner that reads the height before the truncation: whenever blocks are really cut (`0 < k ≤ height`) the block it
builds stands at the wrong height and is refused -/
theorem stale_height_refused (c : AwardCfg) (n : Node) (k : Nat) (hk : 0 < k) (hle : k ≤ n.height) :
    ¬ acceptable c (n.trunk.drop k) (mineRoundStale c n k).1 := by
  intro ⟨hh, _, _⟩
  simp only [mineRoundStale, List.length_drop, Node.height] at hh hle
  omega

/-- ... and where the award decays between the two heights it also carries the wrong award: the award of the stale
height differs from the award the block's place in the chain demands -/
theorem stale_award_example :
    let c : AwardCfg := { award := 1000, gap := 3, num := 1, den := 2 }
    let b1 : Blk := ⟨1, 1000, [], []⟩
    let b2 : Blk := ⟨2, 1000, [], []⟩
    (mineRoundStale c { trunk := [b2, b1] } 1).1.award = 500 ∧ (mineRound c { trunk := [b2, b1] } 1).1.award = 1000 ∧
    calcAward c 2 = 1000 := by decide

-- ================================================================ 3. histories

theorem validTrunk_drop (c : AwardCfg) (t : List Blk) (k : Nat) (h : validTrunk c t) : validTrunk c (t.drop k) := by
  induction k generalizing t with
  | zero => simpa using h
  | succ k ih =>
    cases t with
    | nil => simp [validTrunk]
    | cons b rest => simp only [List.drop_succ_cons]; exact ih rest h.2

/-- every round of the history packs no task that is due while its registration is pending -/
def roundsClean (c : AwardCfg) : Node → List (Nat × List Task) → Prop
  | _, [] => True
  | n, (k, adds) :: rest =>
    due adds ((n.trunk.drop k).length + 1) = [] ∧ roundsClean c (mineRound c { n with pendingAdds := adds } k).2 rest

instance instRoundsClean (c : AwardCfg) : (n : Node) → (r : List (Nat × List Task)) → Decidable (roundsClean c n r)
  | _, [] => isTrue trivial
  | n, (k, adds) :: rest =>
    @instDecidableAnd _ _ _ (instRoundsClean c (mineRound c { n with pendingAdds := adds } k).2 rest)

/-- **every block of the trunk is acceptable on top of the blocks below it, after ANY sequence of rounds** (any
truncation depths, any registrations that are not due while pending) -/
theorem rounds_keep_trunk_valid (c : AwardCfg) (n : Node) (rounds : List (Nat × List Task))
    (hv : validTrunk c n.trunk) (hc : roundsClean c n rounds) :
    validTrunk c (runRounds c n rounds).trunk := by
  induction rounds generalizing n with
  | nil => exact hv
  | cons r rest ih =>
    obtain ⟨k, adds⟩ := r
    obtain ⟨hd, hrest⟩ := hc
    apply ih _ _ hrest
    exact ⟨mined_block_accepted_partial c { n with pendingAdds := adds } k hd, validTrunk_drop c n.trunk k hv⟩

/-- in a valid trunk the block `i` positions below the tip stands at height `length - i` and carries the award of
that height -/
theorem validTrunk_heights (c : AwardCfg) (t : List Blk) (hv : validTrunk c t) (i : Nat) (b : Blk)
    (hb : t[i]? = some b) : b.height = t.length - i ∧ b.award = calcAward c (t.length - i) := by
  induction t generalizing i with
  | nil => simp at hb
  | cons x rest ih =>
    cases i with
    | zero =>
      simp only [List.getElem?_cons_zero, Option.some.injEq] at hb
      subst hb
      obtain ⟨⟨hh, ha, _⟩, _⟩ := hv
      simp only [List.length_cons, Nat.sub_zero]
      exact ⟨hh, hh ▸ ha⟩
    | succ i =>
      simp only [List.getElem?_cons_succ] at hb
      have := ih hv.2 i hb
      simpa using this

-- non-vacuity: a history with a decaying award, two truncations and a timer task that is registered, confirmed and
-- then due; the hypotheses hold and the result is the expected trunk
example :
    let c : AwardCfg := { award := 1000, gap := 2, num := 3, den := 4 }
    let rounds : List (Nat × List Task) := [(0, [⟨3, 1⟩]), (0, []), (1, []), (0, []), (2, []), (0, [])]
    roundsClean c {} rounds ∧ validTrunk c (runRounds c {} rounds).trunk ∧
    (runRounds c {} rounds).trunk.map (fun b => (b.height, b.award, b.timer)) =
      [(3, 750, [1]), (2, 750, []), (1, 1000, [])] := by decide

example : (List.range 7).map (calcAward { award := 50, gap := 1, num := 1, den := 2 }) = [50, 25, 13, 6, 3, 2, 1] := by decide

-- ================================================================ 4. rounds that fail on a storage write, and the recovery

/-! "replaying the block on a node that never saw the transactions yields the producer's state", total supply: whatever
write of a round fails (`Ledger.ConfirmBlock`'s batch, the batch of `State.PlayForMiner`) and however many such rounds a
history contains, the total the producer's state reports is the genesis amount plus the awards of exactly the blocks its
state has applied — what a replica that replays those blocks reports. The variant that keeps the in-memory award of a
`PlayForMiner` whose batch was not written (seeded change C13-13) counts that award twice after the recovery walk. -/

theorem newestAwards_zero (t : List Blk) : newestAwards t 0 = 0 := by simp [newestAwards]

theorem newestAwards_cons (b : Blk) (t : List Blk) (n : Nat) :
    newestAwards (b :: t) (n + 1) = b.award + newestAwards t n := by
  simp [newestAwards, List.take_succ_cons, List.sum_cons]

/-- the recovery walk at the start of a round brings the state to the ledger tip and keeps the supply invariant -/
theorem walkToTip_supply (g : Nat) (s : NodeS) (h : supplyOK g s) :
    supplyOK g (walkToTip s) ∧ (walkToTip s).played = s.node.trunk.length ∧
    (walkToTip s).total = g + newestAwards s.node.trunk s.node.trunk.length := by
  obtain ⟨_, h2⟩ := h
  refine ⟨⟨Nat.le_refl _, ?_⟩, rfl, ?_⟩
  · show s.total + newestAwards s.node.trunk (s.node.trunk.length - s.played) +
      newestAwards s.node.trunk (s.node.trunk.length - s.node.trunk.length) =
      g + newestAwards s.node.trunk s.node.trunk.length
    rw [Nat.sub_self, newestAwards_zero]; omega
  · show s.total + newestAwards s.node.trunk (s.node.trunk.length - s.played) = _
    exact h2

/-- one round — clean, or failing on either write — keeps the supply invariant -/
theorem roundS_supply (c : AwardCfg) (g : Nat) (s : NodeS) (f : Option Fault) (h : supplyOK g s) :
    supplyOK g (roundS c false s f) := by
  obtain ⟨hw, hp, ht⟩ := walkToTip_supply g s h
  have htr : (walkToTip s).node.trunk = s.node.trunk := rfl
  have hm : (mineRound c (walkToTip s).node 0).2.trunk = (mineRound c (walkToTip s).node 0).1 :: s.node.trunk := by
    simp [mineRound, htr]
  cases f with
  | none =>
    refine ⟨Nat.le_refl _, ?_⟩
    show (walkToTip s).total + (mineRound c (walkToTip s).node 0).1.award +
      newestAwards (mineRound c (walkToTip s).node 0).2.trunk
        ((mineRound c (walkToTip s).node 0).2.trunk.length - (mineRound c (walkToTip s).node 0).2.trunk.length) =
      g + newestAwards (mineRound c (walkToTip s).node 0).2.trunk (mineRound c (walkToTip s).node 0).2.trunk.length
    rw [Nat.sub_self, newestAwards_zero, hm, List.length_cons, newestAwards_cons, ht]; omega
  | some f =>
    cases f with
    | ledger => exact hw
    | state =>
      refine ⟨?_, ?_⟩
      · show (walkToTip s).played ≤ (mineRound c (walkToTip s).node 0).2.trunk.length
        rw [hm, hp, List.length_cons]; omega
      · show (walkToTip s).total + newestAwards (mineRound c (walkToTip s).node 0).2.trunk
          ((mineRound c (walkToTip s).node 0).2.trunk.length - (walkToTip s).played) =
          g + newestAwards (mineRound c (walkToTip s).node 0).2.trunk (mineRound c (walkToTip s).node 0).2.trunk.length
        rw [hm, hp, List.length_cons, Nat.add_sub_cancel_left, newestAwards_cons, newestAwards_cons,
          newestAwards_zero, ht]; omega

/-- histories: any sequence of rounds, any of them failing on either write -/
theorem runRoundsS_supply (c : AwardCfg) (g : Nat) (rounds : List (List Task × Option Fault)) (s : NodeS)
    (h : supplyOK g s) : supplyOK g (runRoundsS c false s rounds) := by
  induction rounds generalizing s with
  | nil => exact h
  | cons r rest ih =>
    obtain ⟨adds, f⟩ := r
    exact ih _ (roundS_supply c g _ f h)

/-- after a failed `PlayForMiner` write and the recovery (the walk at the start of the next round), the producer reports
the genesis amount plus the awards of its whole trunk: the figure of a node that replayed the blocks -/
theorem recovered_total_is_replayed_total (c : AwardCfg) (g : Nat) (s : NodeS) (h : supplyOK g s) :
    let s' := walkToTip (roundS c false s (some .state))
    s'.played = s'.node.trunk.length ∧ s'.total = g + newestAwards s'.node.trunk s'.node.trunk.length := by
  have := walkToTip_supply g _ (roundS_supply c g s (some .state) h)
  exact ⟨this.2.1, this.2.2⟩

/-- the variant that does not roll the in-memory award back: one failed state write, then a clean round — the award of
the unplayed block is counted twice (total 250 where a replica reports 200) -/
theorem kept_award_counted_twice :
    let c : AwardCfg := { award := 50 }
    let s0 : NodeS := { total := 100 }
    supplyOK 100 s0 ∧ ¬ supplyOK 100 (runRoundsS c true s0 [([], some .state), ([], none)]) ∧
    (runRoundsS c true s0 [([], some .state), ([], none)]).total = 250 ∧
    (runRoundsS c false s0 [([], some .state), ([], none)]).total = 200 := by decide

-- non-vacuity: a history with both kinds of failing rounds, a decaying award and a timer registration
example :
    let c : AwardCfg := { award := 1000, gap := 2, num := 1, den := 2 }
    let rs : List (List Task × Option Fault) := [([], none), ([⟨4, 1⟩], some .state), ([], some .ledger), ([], some .state), ([], none)]
    let s := runRoundsS c false { total := 7 } rs
    supplyOK 7 s ∧ s.node.trunk.map (·.award) = [250, 500, 500, 1000] ∧ s.total = 2257 ∧ s.played = 4 := by decide

end XV.C13Miner
