import XV.Model.Pow
import XV.Props.C16Pow
/-!
C16, proof of work on a ledger with side branches: "a header hash not above the target that the chain's
OWN history prescribes".  The model of the plugin on a block tree (`refreshDifficultyT`,
`checkMinerMatchT`: parents are reached through pre-hashes only) is shown to be the single-chain model
run on the candidate's own line of ancestors.  Hence blocks of other branches - in particular the main
chain, when the candidate sits on a side branch - have no influence on the prescribed target, and
everything proved for single chains (`pow_accept_sound`, `refresh_retarget`, ...) holds on every branch.
-/
namespace XV.C16
open XV.Pow

/-- the own history of block `i`: its ancestors, oldest first, ending with the block itself -/
def ancestors (t : Array TBlk) (i : Nat) : List Blk :=
  match t[i]? with
  | none => []
  | some b =>
    match b.par with
    | none => [b.blk]
    | some p => if _h : p < i then ancestors t p ++ [b.blk] else [b.blk]
termination_by i

theorem ancestors_of_parent (t : Array TBlk) (i p : Nat) (b : TBlk) (hb : t[i]? = some b)
    (hp : parentOf t i = some p) : ancestors t i = ancestors t p ++ [b.blk] := by
  rw [ancestors]
  simp only [parentOf, hb] at hp
  simp only [hb]
  cases hpar : b.par with
  | none => simp [hpar] at hp
  | some q =>
    simp only [hpar] at hp ⊢
    by_cases hq : q < i
    · simp only [hq, if_true, Option.some.injEq] at hp
      subst hp
      simp [hq]
    · simp [hq] at hp

theorem ancestors_of_root (t : Array TBlk) (i : Nat) (b : TBlk) (hb : t[i]? = some b)
    (hp : parentOf t i = none) : ancestors t i = [b.blk] := by
  rw [ancestors]
  simp only [parentOf, hb] at hp
  simp only [hb]
  cases hpar : b.par with
  | none => rfl
  | some q =>
    simp only [hpar] at hp ⊢
    by_cases hq : q < i
    · simp [hq] at hp
    · simp [hq]

theorem parentOf_lt (t : Array TBlk) (i p : Nat) (hp : parentOf t i = some p) : p < i ∧ i < t.size := by
  unfold parentOf at hp
  cases hb : t[i]? with
  | none => simp [hb] at hp
  | some b =>
    have hi : i < t.size := by
      rcases Array.getElem?_eq_some_iff.mp hb with ⟨h, _⟩
      exact h
    simp only [hb] at hp
    cases hpar : b.par with
    | none => simp [hpar] at hp
    | some q =>
      simp only [hpar] at hp
      by_cases hq : q < i
      · simp only [hq, if_true, Option.some.injEq] at hp
        omega
      · simp [hq] at hp

/-- the block `k` parents above block `i` is the `k`-th entry from the end of `i`'s own history -/
theorem blockUp_eq (t : Array TBlk) : ∀ (k i : Nat), i < t.size →
    blockUp t i k =
      if k < (ancestors t i).length then (ancestors t i)[(ancestors t i).length - 1 - k]? else none := by
  intro k
  induction k with
  | zero =>
    intro i hi
    have hb : t[i]? = some t[i] := Array.getElem?_eq_getElem hi
    cases hp : parentOf t i with
    | none =>
      rw [ancestors_of_root t i _ hb hp]
      simp [blockUp, walkUp, hb]
    | some p =>
      rw [ancestors_of_parent t i p _ hb hp]
      simp [blockUp, walkUp, hb]
  | succ k ih =>
    intro i hi
    have hb : t[i]? = some t[i] := Array.getElem?_eq_getElem hi
    cases hp : parentOf t i with
    | none =>
      rw [ancestors_of_root t i _ hb hp]
      simp [blockUp, walkUp, hp]
    | some p =>
      have hlt := parentOf_lt t i p hp
      have ihp := ih p (by omega)
      rw [ancestors_of_parent t i p _ hb hp]
      have hstep : blockUp t i (k + 1) = blockUp t p k := by simp [blockUp, walkUp, hp]
      rw [hstep, ihp]
      by_cases hk : k < (ancestors t p).length
      · have h1 : k + 1 < (ancestors t p ++ [t[i].blk]).length := by simp; omega
        have h2 : (ancestors t p ++ [t[i].blk]).length - 1 - (k + 1) = (ancestors t p).length - 1 - k := by
          simp; omega
        rw [if_pos hk, if_pos h1, h2, List.getElem?_append_left (by omega)]
      · have h1 : ¬ k + 1 < (ancestors t p ++ [t[i].blk]).length := by simp; omega
        rw [if_neg hk, if_neg h1]

theorem ancestors_length_pos (t : Array TBlk) (i : Nat) (hi : i < t.size) : 0 < (ancestors t i).length := by
  have hb : t[i]? = some t[i] := Array.getElem?_eq_getElem hi
  cases hp : parentOf t i with
  | none => rw [ancestors_of_root t i _ hb hp]; simp
  | some p => rw [ancestors_of_parent t i p _ hb hp]; simp

/-- the last entry of the own history is the block itself -/
theorem ancestors_last (t : Array TBlk) (i : Nat) (hi : i < t.size) :
    (ancestors t i)[(ancestors t i).length - 1]? = some t[i].blk := by
  have h := blockUp_eq t 0 i hi
  have hb : t[i]? = some t[i] := Array.getElem?_eq_getElem hi
  rw [if_pos (ancestors_length_pos t i hi)] at h
  simp only [blockUp, walkUp, Option.bind_some, hb, Option.map_some, Nat.sub_zero] at h
  exact h.symm

/-- `refreshDifficulty` of the single-chain model in terms of what its two look-ups find -/
theorem refreshDifficulty_eq_with (c : Cfg) (chain : Array Blk) (ti : Nat) (h : Int) (tipB : Blk)
    (htip : chain[ti]? = some tipB) :
    refreshDifficulty c chain (some ti) h =
      refreshWith c h ((walkBack ti 1).bind (fun pi => chain[pi]?))
        ((walkBack ti 1).bind (fun pi => (walkBack pi (c.gap - 1).toNat).bind (fun fi => chain[fi]?))) := by
  unfold refreshDifficulty refreshWith
  by_cases hg : c.gap = 0
  · simp [hg]
  · by_cases hh : h ≤ c.gap
    · simp [hg, hh]
    · simp only [hg, hh, if_false, Option.bind_some, htip, Option.map_some]
      cases hw : walkBack ti 1 with
      | none => simp
      | some pi =>
        simp only [Option.bind_some]
        cases hpre : chain[pi]? with
        | none => simp
        | some pre =>
          simp only
          cases hbits : pre.bits with
          | none => simp
          | some prevBits =>
            simp only
            by_cases hm : Int.tmod h c.gap = 0
            · simp only [hm, ne_eq, not_true_eq_false, if_false]
              cases hw2 : walkBack pi (c.gap - 1).toNat with
              | none => simp
              | some fi =>
                simp only [Option.bind_some]
                cases hfar : chain[fi]? with
                | none => simp
                | some far => simp only [retarget]
            · simp [hm]

/-- **The target is prescribed by the candidate's own history.**  On a ledger with branches,
`refreshDifficulty` for a block whose pre-hash names block `i` is the single-chain rule evaluated on the
line of ancestors of `i` - no other block of the ledger is consulted. -/
theorem refresh_own_history (c : Cfg) (t : Array TBlk) (i : Nat) (h : Int) (hi : i < t.size) :
    refreshDifficultyT c t (some i) h =
      refreshDifficulty c (ancestors t i).toArray (some ((ancestors t i).length - 1)) h := by
  have hpos := ancestors_length_pos t i hi
  have hlast := ancestors_last t i hi
  have hb : t[i]? = some t[i] := Array.getElem?_eq_getElem hi
  rw [refreshDifficulty_eq_with c _ _ h t[i].blk (by simpa using hlast)]
  unfold refreshDifficultyT
  simp only [Option.bind_some, hb, Option.map_some]
  rw [blockUp_eq t 1 i hi, blockUp_eq t _ i hi]
  generalize (c.gap - 1).toNat = g
  generalize hn : (ancestors t i).length = n at hpos
  congr 1
  · unfold walkBack
    by_cases h1 : 1 < n
    · have h1' : 1 ≤ n - 1 := by omega
      simp only [if_pos h1, if_pos h1', Option.bind_some, List.getElem?_toArray]
    · have h1' : ¬ 1 ≤ n - 1 := by omega
      simp only [if_neg h1, if_neg h1', Option.bind_none]
  · unfold walkBack
    by_cases h1 : 1 < n
    · have h1' : 1 ≤ n - 1 := by omega
      by_cases h2 : 1 + g < n
      · have h2' : g ≤ n - 1 - 1 := by omega
        have h3 : n - 1 - (1 + g) = n - 1 - 1 - g := by omega
        simp only [if_pos h1', if_pos h2, if_pos h2', Option.bind_some, h3, List.getElem?_toArray]
      · have h2' : ¬ g ≤ n - 1 - 1 := by omega
        simp only [if_pos h1', if_neg h2, if_neg h2', Option.bind_some, Option.bind_none]
    · have h1' : ¬ 1 ≤ n - 1 := by omega
      have h2 : ¬ 1 + g < n := by omega
      simp only [if_neg h1', if_neg h2, Option.bind_none]

/-- the candidate as the single-chain model sees it on its own line of ancestors -/
def onOwnChain (t : Array TBlk) (i : Nat) (b : Cand) : Cand :=
  { b with parent := some ((ancestors t i).length - 1) }

/-- **`CheckMinerMatch` on a ledger with branches is `CheckMinerMatch` on the candidate's own chain.** -/
theorem check_own_history (c : Cfg) (t : Array TBlk) (b : Cand) (i : Nat) (hp : b.parent = some i)
    (hi : i < t.size) :
    checkMinerMatchT c t b = checkMinerMatch c (ancestors t i).toArray (onOwnChain t i b) := by
  have hlast := ancestors_last t i hi
  have hb : t[i]? = some t[i] := Array.getElem?_eq_getElem hi
  unfold checkMinerMatchT checkMinerMatch onOwnChain
  simp only [hp, refresh_own_history c t i b.height hi, Option.bind_some, hb]
  have hl : (ancestors t i).toArray[(ancestors t i).length - 1]? = some t[i].blk := by simpa using hlast
  simp only [hl]
  rfl

/-- **Other branches do not matter**: two ledgers in which the candidate's parent has the same line of
ancestors give the same verdict, whatever else they contain (longer or heavier competing branches, a
different main chain). -/
theorem pow_branch_independent (c : Cfg) (t₁ t₂ : Array TBlk) (b₁ b₂ : Cand) (i₁ i₂ : Nat)
    (h₁ : b₁.parent = some i₁) (h₂ : b₂.parent = some i₂) (hi₁ : i₁ < t₁.size) (hi₂ : i₂ < t₂.size)
    (hanc : ancestors t₁ i₁ = ancestors t₂ i₂)
    (hrest : ({ b₁ with parent := none } : Cand) = { b₂ with parent := none }) :
    checkMinerMatchT c t₁ b₁ = checkMinerMatchT c t₂ b₂ := by
  rw [check_own_history c t₁ b₁ i₁ h₁ hi₁, check_own_history c t₂ b₂ i₂ h₂ hi₂, hanc]
  congr 1
  unfold onOwnChain
  rw [hanc]
  cases b₁; cases b₂
  simp only [Cand.mk.injEq] at hrest ⊢
  simp [hrest]

/-- **pow on any branch: what an accepted block satisfies.**  The stored target bits are the ones the
retarget rule prescribes from the block's OWN ancestors (`ancestors t i`, wherever the main chain runs),
the id passes `IsProofed` for them, the parent is not younger than the block, the id recomputes and the
proposer's signature verifies. -/
theorem pow_fork_accept_sound (c : Cfg) (t : Array TBlk) (b : Cand) (i : Nat) (hp : b.parent = some i)
    (hi : i < t.size) (h : checkMinerMatchT c t b = .accept) :
    ∃ bits, b.bits = some bits ∧
      refreshDifficulty c (ancestors t i).toArray (some ((ancestors t i).length - 1)) b.height = .ok bits ∧
      isProofed c.bitcoin c.maxDiff b.hash bits = true ∧
      t[i].ts ≤ b.ts ∧ b.idOk = true ∧ b.keyOk = true ∧ b.sigOk = true := by
  rw [check_own_history c t b i hp hi] at h
  obtain ⟨bits, pre, h1, h2, h3, h4, h5, h6, h7, h8⟩ := pow_accept_sound c _ _ h
  have hlast := ancestors_last t i hi
  have hpre : pre = t[i].blk := by
    simp only [onOwnChain, Option.bind_some] at h4
    have hl : (ancestors t i).toArray[(ancestors t i).length - 1]? = some t[i].blk := by simpa using hlast
    rw [hl] at h4
    exact (Option.some.inj h4).symm
  subst hpre
  exact ⟨bits, h1, h2, h3, h5, h6, h7, h8⟩

/-- a block whose pre-hash the ledger does not know is never accepted -/
theorem pow_fork_unknown_parent (c : Cfg) (t : Array TBlk) (b : Cand)
    (hp : b.parent.bind (fun i => t[i]?) = none) : checkMinerMatchT c t b ≠ .accept := by
  unfold checkMinerMatchT
  repeat' split
  all_goals simp_all

/-! non-vacuity: blocks 0-1-2-3-4-5 are the main chain (40 s per block from block 3 on), 6-7-8-9 a side
branch forking at block 1 (10 s per block); gap 3, expected span 20 s.  A candidate of height 6 on top of
block 9 retargets from blocks 8 (pre) and 6 (far), the side branch's own span; on top of block 5 it
retargets from blocks 4 and 2.  Block 2 - what the MAIN chain has at the height of `far` - plays no role for
the side branch. -/
private def cfgEx : Cfg := ⟨0x1e00ffff, 3, 10, 0x1d00ffff⟩
private def sec (s : Int) : Int := s * 1000000000
private def treeEx : Array TBlk := #[
  ⟨some 0x1e00ffff, sec 0, none⟩, ⟨some 0x1e00ffff, sec 10, some 0⟩, ⟨some 0x1e00ffff, sec 20, some 1⟩,
  -- main branch: 40 s per block
  ⟨some 0x1e00ffff, sec 60, some 2⟩, ⟨some 0x1e00ffff, sec 100, some 3⟩, ⟨some 0x1e00ffff, sec 140, some 4⟩,
  -- side branch from block 1: 10 s per block
  ⟨some 0x1e00ffff, sec 21, some 1⟩, ⟨some 0x1e00ffff, sec 31, some 6⟩, ⟨some 0x1e00ffff, sec 41, some 7⟩,
  ⟨some 0x1e00ffff, sec 51, some 8⟩]

example : ancestors treeEx 9 = [⟨some 0x1e00ffff, sec 0⟩, ⟨some 0x1e00ffff, sec 10⟩, ⟨some 0x1e00ffff, sec 21⟩,
    ⟨some 0x1e00ffff, sec 31⟩, ⟨some 0x1e00ffff, sec 41⟩, ⟨some 0x1e00ffff, sec 51⟩] := by
  simp [ancestors, treeEx, TBlk.blk]
/-- height 6 on the side branch: span = ts(block 8) - ts(block 6) = 20 s = expected, target unchanged -/
example : refreshDifficultyT cfgEx treeEx (some 9) 6 = .ok 0x1e00ffff := by decide
/-- height 6 on the main branch (parent block 5): span = ts(4) - ts(2) = 80 s = 4 x expected, target x4 -/
example : refreshDifficultyT cfgEx treeEx (some 5) 6 = .ok 0x1e03fffc := by decide

end XV.C16
