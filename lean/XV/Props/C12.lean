import XV.Model.Sched
/-!
# C12 — concurrent submissions are serialisable: conflict-free admission, no deadlock

Theorems about the step system `XV.SpinLock.step` (the repaired `spin_lock.go`: one key is taken /
released in ONE atomic step) under EVERY schedule (`run s sched`, `sched : List Nat` arbitrary) and any
number of threads, and the refutation of the same statement for the step system of the code before
the repair (`XV.SpinLock.Split`, LoadOrStore/Add and Release/Delete as separate steps).
-/
namespace XV.C12
open XV.SpinLock

/-! ### counting holders -/

def sumBy (f : Thread → Nat) : List Thread → Nat
  | [] => 0
  | a :: l => f a + sumBy f l

theorem sumBy_set (f : Thread → Nat) (l : List Thread) (t : Nat) (th a : Thread) (h : l[t]? = some th) :
    sumBy f (l.set t a) + f th = sumBy f l + f a := by
  induction l generalizing t with
  | nil => simp at h
  | cons b l ih =>
    cases t with
    | zero =>
      simp at h
      subst h
      simp [sumBy]
      omega
    | succ t =>
      simp at h
      have := ih t h
      simp [sumBy]
      omega

theorem sumBy_ge (f : Thread → Nat) (l : List Thread) (t : Nat) (th : Thread) (h : l[t]? = some th) :
    f th ≤ sumBy f l := by
  induction l generalizing t with
  | nil => simp at h
  | cons b l ih =>
    cases t with
    | zero =>
      simp at h
      subst h
      simp [sumBy]
    | succ t =>
      simp at h
      have := ih t h
      simp [sumBy]
      omega

theorem sumBy_ge_two (f : Thread → Nat) (l : List Thread) (t1 t2 : Nat) (th1 th2 : Thread) (hne : t1 ≠ t2)
    (h1 : l[t1]? = some th1) (h2 : l[t2]? = some th2) : f th1 + f th2 ≤ sumBy f l := by
  induction l generalizing t1 t2 with
  | nil => simp at h1
  | cons b l ih =>
    cases t1 with
    | zero =>
      cases t2 with
      | zero => exact absurd rfl hne
      | succ t2 =>
        simp at h1 h2
        subst h1
        have := sumBy_ge f l t2 th2 h2
        simp [sumBy]
        omega
    | succ t1 =>
      cases t2 with
      | zero =>
        simp at h1 h2
        subst h2
        have := sumBy_ge f l t1 th1 h1
        simp [sumBy]
        omega
      | succ t2 =>
        simp at h1 h2
        have := ih t1 t2 (fun h => hne (by rw [h])) h1 h2
        simp [sumBy]
        omega

theorem sumBy_zero (f : Thread → Nat) (l : List Thread) (h : ∀ th ∈ l, f th = 0) : sumBy f l = 0 := by
  induction l with
  | nil => rfl
  | cons b l ih =>
    have hb := h b (by simp)
    have := ih (fun th hth => h th (by simp [hth]))
    simp [sumBy]
    omega

theorem sumBy_pos (f : Thread → Nat) (l : List Thread) (h : 0 < sumBy f l) :
    ∃ (t : Nat) (th : Thread), l[t]? = some th ∧ 0 < f th := by
  induction l with
  | nil => simp [sumBy] at h
  | cons b l ih =>
    by_cases hb : 0 < f b
    · exact ⟨0, b, by simp, hb⟩
    · have : 0 < sumBy f l := by
        simp [sumBy] at h
        omega
      obtain ⟨t, th, h1, h2⟩ := ih this
      exact ⟨t + 1, th, by simpa using h1, h2⟩

/-- decidable version of `Thread.holds` -/
def holdsB (k : Nat) (kd : Kind) (l : List Item) : Bool := l.any (fun it => it.key == k && it.kind == kd)

theorem holdsB_iff (k : Nat) (kd : Kind) (th : Thread) : holdsB k kd th.succ = true ↔ th.holds k kd := by
  simp [holdsB, Thread.holds, List.any_eq_true]

/-- 1 if the thread holds `(k, kd)`, else 0 -/
def hold (k : Nat) (kd : Kind) (th : Thread) : Nat := if holdsB k kd th.succ then 1 else 0

/-- number of threads holding key `k` in mode `kd` -/
def cnt (s : Sys) (k : Nat) (kd : Kind) : Nat := sumBy (hold k kd) s.threads

theorem hold_le_one (k : Nat) (kd : Kind) (th : Thread) : hold k kd th ≤ 1 := by
  unfold hold; split <;> omega

theorem hold_eq_one_iff (k : Nat) (kd : Kind) (th : Thread) : hold k kd th = 1 ↔ th.holds k kd := by
  rw [← holdsB_iff]
  unfold hold
  split <;> simp_all

theorem hold_eq_zero_iff (k : Nat) (kd : Kind) (th : Thread) : hold k kd th = 0 ↔ ¬ th.holds k kd := by
  rw [← holdsB_iff]
  unfold hold
  split <;> simp_all

/-- the keys a thread holds and the keys it has still to take are pairwise distinct
(ExtractLockKeys de-duplicates the keys of a request) -/
def keysDistinct (th : Thread) : Prop := ((th.succ ++ th.todo).map (·.key)).Nodup

/-- `succLocked` and `todo` partition the request's keys while the thread is locking or inside -/
def shape (th : Thread) : Prop :=
  match th.pc with
  | .locking => ∀ it, it ∈ th.items → it ∈ th.succ ∨ it ∈ th.todo
  | .checked _ => ∀ it, it ∈ th.items → it ∈ th.succ
  | .applied => ∀ it, it ∈ th.items → it ∈ th.succ
  | .published => ∀ it, it ∈ th.items → it ∈ th.succ
  | .unlocking => True
  | .done => th.succ = []

/-- per-key invariant of the lock table -/
structure KeyInv (s : Sys) (k : Nat) : Prop where
  rc_eq : s.rc k = (cnt s k .S : Int)
  free : s.m k = none → cnt s k .S = 0 ∧ cnt s k .X = 0
  excl : s.m k = some .X → cnt s k .S = 0 ∧ cnt s k .X = 1
  shared : s.m k = some .S → 1 ≤ cnt s k .S ∧ cnt s k .X = 0

/-- the inductive invariant -/
structure Inv (s : Sys) : Prop where
  distinct : ∀ th ∈ s.threads, keysDistinct th
  shape : ∀ th ∈ s.threads, shape th
  key : ∀ k, KeyInv s k
  /-- a request whose cs.check passed still sees the versions it checked (nobody wrote its keys since) -/
  fresh : ∀ th ∈ s.threads, th.pc = .checked true → check s.store th.items = true

/-! ### how one thread's update changes the counts -/

theorem cnt_set {s s' : Sys} {t : Nat} {th th' : Thread} (h : s.threads[t]? = some th)
    (hs : s'.threads = s.threads.set t th') (k : Nat) (kd : Kind) :
    cnt s' k kd + hold k kd th = cnt s k kd + hold k kd th' := by
  unfold cnt
  rw [hs]
  exact sumBy_set _ _ _ _ _ h

theorem hold_same_succ {th th' : Thread} (h : th'.succ = th.succ) (k : Nat) (kd : Kind) :
    hold k kd th' = hold k kd th := by
  unfold hold
  rw [h]

theorem hold_cons {th th' : Thread} {it : Item} (h : th'.succ = it :: th.succ) (k : Nat) (kd : Kind) :
    hold k kd th' = if it.key = k ∧ it.kind = kd then 1 else hold k kd th := by
  unfold hold holdsB
  rw [h]
  by_cases h1 : it.key = k <;> by_cases h2 : it.kind = kd <;> simp [h1, h2]

theorem not_holds_of_key_notin {th : Thread} {k : Nat} (h : k ∉ th.succ.map (·.key)) (kd : Kind) :
    hold k kd th = 0 := by
  rw [hold_eq_zero_iff]
  intro ⟨it, hit, hk, _⟩
  exact h (by simpa using ⟨it, hit, hk⟩)

theorem distinct_acquire {th : Thread} {it : Item} {rest : List Item} (hd : keysDistinct th)
    (ht : th.todo = it :: rest) :
    it.key ∉ th.succ.map (·.key) ∧ keysDistinct { th with todo := rest, succ := it :: th.succ } := by
  unfold keysDistinct at *
  rw [ht] at hd
  have hp : ((th.succ ++ it :: rest).map (·.key)).Perm ((it :: (th.succ ++ rest)).map (·.key)) :=
    (List.perm_middle).map _
  have hd' := hp.nodup_iff.mp hd
  constructor
  · simp only [List.map_cons, List.nodup_cons, List.map_append, List.mem_append] at hd'
    exact fun h => hd'.1 (Or.inl h)
  · simpa using hd'

theorem distinct_release {th : Thread} {it : Item} {rest : List Item} (hd : keysDistinct th)
    (hs : th.succ = it :: rest) (pc : Pc) :
    it.key ∉ rest.map (·.key) ∧ keysDistinct { th with succ := rest, pc := pc } := by
  unfold keysDistinct at *
  rw [hs] at hd
  simp only [List.cons_append, List.map_cons, List.nodup_cons, List.map_append, List.mem_append] at hd
  constructor
  · exact fun h => hd.1 (Or.inl h)
  · simpa using hd.2

theorem keyInv_congr {s s' : Sys} {k : Nat} (hrc : s'.rc k = s.rc k) (hm : s'.m k = s.m k)
    (hc : ∀ kd, cnt s' k kd = cnt s k kd) (h : KeyInv s k) : KeyInv s' k := by
  constructor
  · rw [hrc, hc]; exact h.rc_eq
  · rw [hm, hc, hc]; exact h.free
  · rw [hm, hc, hc]; exact h.excl
  · rw [hm, hc, hc]; exact h.shared

theorem mem_set_cases {l : List Thread} {t : Nat} {a x : Thread} (h : x ∈ l.set t a) : x ∈ l ∨ x = a :=
  List.mem_or_eq_of_mem_set h

/-- a step that changes only thread `t`'s control state (and possibly appends to the log) -/
theorem inv_local {s s' : Sys} {t : Nat} {th th' : Thread} (hinv : Inv s) (h : s.threads[t]? = some th)
    (hthreads : s'.threads = s.threads.set t th') (hm : s'.m = s.m) (hrc : s'.rc = s.rc)
    (hstore : s'.store = s.store) (hsucc : th'.succ = th.succ) (htodo : th'.todo = th.todo)
    (hshape : shape th') (hfresh : th'.pc = .checked true → check s.store th'.items = true) : Inv s' := by
  have hmem : th ∈ s.threads := List.mem_of_getElem? h
  constructor
  · intro x hx
    rw [hthreads] at hx
    rcases mem_set_cases hx with hx | hx
    · exact hinv.distinct x hx
    · subst hx
      have := hinv.distinct th hmem
      unfold keysDistinct at *
      rw [hsucc, htodo]; exact this
  · intro x hx
    rw [hthreads] at hx
    rcases mem_set_cases hx with hx | hx
    · exact hinv.shape x hx
    · subst hx; exact hshape
  · intro k
    apply keyInv_congr (by rw [hrc]) (by rw [hm]) _ (hinv.key k)
    intro kd
    have := cnt_set h hthreads k kd
    rw [hold_same_succ hsucc] at this
    omega
  · intro x hx hpc
    rw [hthreads] at hx
    rw [hstore]
    rcases mem_set_cases hx with hx | hx
    · exact hinv.fresh x hx hpc
    · subst hx; exact hfresh hpc

/-! ### the table operations -/

theorem lockOne_other {m : Nat → Option Kind} {rc : Nat → Int} {k : Nat} {kd : Kind}
    {r : (Nat → Option Kind) × (Nat → Int)} (h : lockOne m rc k kd = some r) (x : Nat) (hx : x ≠ k) :
    r.1 x = m x ∧ r.2 x = rc x := by
  unfold lockOne at h
  split at h <;> simp at h <;> subst h <;> simp [upd, hx]

theorem lockOne_spec {m : Nat → Option Kind} {rc : Nat → Int} {k : Nat} {kd : Kind}
    {r : (Nat → Option Kind) × (Nat → Int)} (h : lockOne m rc k kd = some r) :
    (m k = none ∧ kd = .X ∧ r.1 k = some .X ∧ r.2 k = rc k) ∨
    (m k = none ∧ kd = .S ∧ r.1 k = some .S ∧ r.2 k = rc k + 1) ∨
    (m k = some .S ∧ kd = .S ∧ r.1 k = some .S ∧ r.2 k = rc k + 1) := by
  unfold lockOne at h
  split at h <;> simp at h <;> subst h <;> simp_all [upd]

theorem unlockOne_other (m : Nat → Option Kind) (rc : Nat → Int) (k : Nat) (kd : Kind) (x : Nat) (hx : x ≠ k) :
    (unlockOne m rc k kd).1 x = m x ∧ (unlockOne m rc k kd).2 x = rc x := by
  unfold unlockOne
  cases kd
  · simp only []
    split <;> simp [upd, hx]
  · simp [upd, hx]

theorem unlockOne_X (m : Nat → Option Kind) (rc : Nat → Int) (k : Nat) :
    (unlockOne m rc k .X).1 k = none ∧ (unlockOne m rc k .X).2 k = rc k := by
  simp [unlockOne, upd]

theorem unlockOne_S (m : Nat → Option Kind) (rc : Nat → Int) (k : Nat) :
    (unlockOne m rc k .S).2 k = rc k - 1 ∧
    ((rc k - 1 = 0 ∧ (unlockOne m rc k .S).1 k = none) ∨ (rc k - 1 ≠ 0 ∧ (unlockOne m rc k .S).1 k = m k)) := by
  unfold unlockOne
  simp only []
  split <;> simp_all [upd]

/-! ### mutual exclusion from the invariant -/

theorem cnt_ge_of_holds {s : Sys} {t : Nat} {th : Thread} {k : Nat} {kd : Kind} (h : s.threads[t]? = some th)
    (hh : th.holds k kd) : 1 ≤ cnt s k kd := by
  have := sumBy_ge (hold k kd) s.threads t th h
  rw [(hold_eq_one_iff k kd th).mpr hh] at this
  exact this

/-- whoever holds `(k, kd)`, the table's entry for `k` exists and has kind `kd` -/
theorem entry_of_holds {s : Sys} (hk : ∀ k, KeyInv s k) {t : Nat} {th : Thread} {k : Nat} {kd : Kind}
    (h : s.threads[t]? = some th) (hh : th.holds k kd) : s.m k = some kd := by
  have hc := cnt_ge_of_holds h hh
  have ki := hk k
  cases hm : s.m k with
  | none =>
    have := ki.free hm
    cases kd <;> omega
  | some kd' =>
    cases kd' <;> cases kd <;> first | rfl | (have := ki.excl hm; omega) | (have := ki.shared hm; omega)

/-- an exclusive holder of `k` excludes every other holder of `k` -/
theorem excl_of_inv {s : Sys} (hk : ∀ k, KeyInv s k) {t1 t2 : Nat} {th1 th2 : Thread} {k : Nat} {kd : Kind}
    (hne : t1 ≠ t2) (h1 : s.threads[t1]? = some th1) (h2 : s.threads[t2]? = some th2)
    (hh1 : th1.holds k .X) : ¬ th2.holds k kd := by
  intro hh2
  have hm := entry_of_holds hk h1 hh1
  have hm2 := entry_of_holds hk h2 hh2
  rw [hm] at hm2
  cases hm2
  have := (hk k).excl hm
  have h2' := sumBy_ge_two (hold k .X) s.threads t1 t2 th1 th2 hne h1 h2
  rw [(hold_eq_one_iff k .X th1).mpr hh1, (hold_eq_one_iff k .X th2).mpr hh2] at h2'
  unfold cnt at this
  omega

/-! ### the three kinds of non-local steps preserve the invariant -/

theorem inv_acquire {s : Sys} {t : Nat} {th : Thread} {it : Item} {rest : List Item}
    {r : (Nat → Option Kind) × (Nat → Int)} (hinv : Inv s) (h : s.threads[t]? = some th)
    (hpc : th.pc = .locking) (ht : th.todo = it :: rest) (hl : lockOne s.m s.rc it.key it.kind = some r) :
    Inv { s with m := r.1, rc := r.2, threads := s.threads.set t { th with todo := rest, succ := it :: th.succ } } := by
  have hmem : th ∈ s.threads := List.mem_of_getElem? h
  obtain ⟨hnot, hdist⟩ := distinct_acquire (hinv.distinct th hmem) ht
  constructor
  · intro x hx
    rcases mem_set_cases hx with hx | hx
    · exact hinv.distinct x hx
    · subst hx; exact hdist
  · intro x hx
    rcases mem_set_cases hx with hx | hx
    · exact hinv.shape x hx
    · subst hx
      have hs := hinv.shape th hmem
      unfold shape at hs ⊢
      simp only [hpc] at hs ⊢
      intro a ha
      rcases hs a ha with h1 | h1
      · exact Or.inl (by simp [h1])
      · rw [ht] at h1
        rcases List.mem_cons.mp h1 with h2 | h2
        · exact Or.inl (by simp [h2])
        · exact Or.inr h2
  · intro k
    have hc : ∀ kd, cnt { s with m := r.1, rc := r.2, threads := s.threads.set t { th with todo := rest, succ := it :: th.succ } } k kd
          + hold k kd th = cnt s k kd + (if it.key = k ∧ it.kind = kd then 1 else hold k kd th) := by
      intro kd
      have := cnt_set (s' := { s with m := r.1, rc := r.2, threads := s.threads.set t { th with todo := rest, succ := it :: th.succ } })
        (th' := { th with todo := rest, succ := it :: th.succ }) h rfl k kd
      rw [hold_cons (th := th) (th' := { th with todo := rest, succ := it :: th.succ }) (it := it) rfl k kd] at this
      exact this
    by_cases hk : k = it.key
    · subst hk
      have ki := hinv.key it.key
      have hS := hc .S
      have hX := hc .X
      rw [not_holds_of_key_notin hnot] at hS hX
      rcases lockOne_spec hl with ⟨hm, hkd, hr1, hr2⟩ | ⟨hm, hkd, hr1, hr2⟩ | ⟨hm, hkd, hr1, hr2⟩
      · have hf := ki.free hm
        have hrc := ki.rc_eq
        simp [hkd] at hS hX
        constructor
        · show r.2 it.key = _
          omega
        · intro hh; rw [show ({ s with m := r.1, rc := r.2, threads := _ } : Sys).m = r.1 from rfl, hr1] at hh; cases hh
        · intro _; omega
        · intro hh; rw [show ({ s with m := r.1, rc := r.2, threads := _ } : Sys).m = r.1 from rfl, hr1] at hh; cases hh
      · have hf := ki.free hm
        have hrc := ki.rc_eq
        simp [hkd] at hS hX
        constructor
        · show r.2 it.key = _
          omega
        · intro hh; rw [show ({ s with m := r.1, rc := r.2, threads := _ } : Sys).m = r.1 from rfl, hr1] at hh; cases hh
        · intro hh; rw [show ({ s with m := r.1, rc := r.2, threads := _ } : Sys).m = r.1 from rfl, hr1] at hh; cases hh
        · intro _; omega
      · have hf := ki.shared hm
        have hrc := ki.rc_eq
        simp [hkd] at hS hX
        constructor
        · show r.2 it.key = _
          omega
        · intro hh; rw [show ({ s with m := r.1, rc := r.2, threads := _ } : Sys).m = r.1 from rfl, hr1] at hh; cases hh
        · intro hh; rw [show ({ s with m := r.1, rc := r.2, threads := _ } : Sys).m = r.1 from rfl, hr1] at hh; cases hh
        · intro _; omega
    · have ho := lockOne_other hl k hk
      apply keyInv_congr ho.2 ho.1 _ (hinv.key k)
      intro kd
      have := hc kd
      have hne : ¬ (it.key = k ∧ it.kind = kd) := fun hh => hk hh.1.symm
      simp only [hne, if_false] at this
      omega
  · intro x hx hxpc
    rcases mem_set_cases hx with hx | hx
    · exact hinv.fresh x hx hxpc
    · subst hx
      simp [hpc] at hxpc

theorem inv_release {s s' : Sys} {t : Nat} {th : Thread} {it : Item} {rest : List Item}
    (hinv : Inv s) (h : s.threads[t]? = some th) (hs : th.succ = it :: rest)
    (hm' : s'.m = (unlockOne s.m s.rc it.key it.kind).1) (hrc' : s'.rc = (unlockOne s.m s.rc it.key it.kind).2)
    (hstore : s'.store = s.store)
    (hthreads : s'.threads = s.threads.set t { th with succ := rest, pc := .unlocking }) : Inv s' := by
  have hmem : th ∈ s.threads := List.mem_of_getElem? h
  obtain ⟨hnot, hdist⟩ := distinct_release (hinv.distinct th hmem) hs .unlocking
  constructor
  · intro x hx
    rw [hthreads] at hx
    rcases mem_set_cases hx with hx | hx
    · exact hinv.distinct x hx
    · subst hx; exact hdist
  · intro x hx
    rw [hthreads] at hx
    rcases mem_set_cases hx with hx | hx
    · exact hinv.shape x hx
    · subst hx; simp [shape]
  · intro k
    have hc : ∀ kd, cnt s' k kd + (if it.key = k ∧ it.kind = kd then 1 else hold k kd { th with succ := rest, pc := .unlocking })
          = cnt s k kd + hold k kd { th with succ := rest, pc := .unlocking } := by
      intro kd
      have := cnt_set (s' := s') (th' := { th with succ := rest, pc := .unlocking }) h hthreads k kd
      rw [hold_cons (th := { th with succ := rest, pc := .unlocking }) (th' := th) (it := it) hs k kd] at this
      exact this
    by_cases hk : k = it.key
    · subst hk
      have ki := hinv.key it.key
      have hS := hc .S
      have hX := hc .X
      have h0 : ∀ kd, hold it.key kd { th with succ := rest, pc := .unlocking } = 0 :=
        fun kd => not_holds_of_key_notin (th := { th with succ := rest, pc := .unlocking }) hnot kd
      rw [h0] at hS hX
      have hrc := ki.rc_eq
      cases hkd : it.kind with
      | X =>
        obtain ⟨u1, u2⟩ := unlockOne_X s.m s.rc it.key
        rw [hkd] at hm' hrc'
        simp [hkd] at hS hX
        cases hm : s.m it.key with
        | none => have := ki.free hm; omega
        | some kd' =>
          cases kd' with
          | S => have := ki.shared hm; omega
          | X =>
            have := ki.excl hm
            constructor
            · rw [hrc', u2]; omega
            · intro _; omega
            · intro hh; rw [hm', u1] at hh; cases hh
            · intro hh; rw [hm', u1] at hh; cases hh
      | S =>
        obtain ⟨u2, u1⟩ := unlockOne_S s.m s.rc it.key
        rw [hkd] at hm' hrc'
        simp [hkd] at hS hX
        cases hm : s.m it.key with
        | none => have := ki.free hm; omega
        | some kd' =>
          cases kd' with
          | X => have := ki.excl hm; omega
          | S =>
            have := ki.shared hm
            rcases u1 with ⟨z, u1⟩ | ⟨z, u1⟩
            · constructor
              · rw [hrc', u2]; omega
              · intro _; omega
              · intro hh; rw [hm', u1] at hh; cases hh
              · intro hh; rw [hm', u1] at hh; cases hh
            · constructor
              · rw [hrc', u2]; omega
              · intro hh; rw [hm', u1, hm] at hh; cases hh
              · intro hh; rw [hm', u1, hm] at hh; cases hh
              · intro _; omega
    · have ho := unlockOne_other s.m s.rc it.key it.kind k hk
      apply keyInv_congr (by rw [hrc']; exact ho.2) (by rw [hm']; exact ho.1) _ (hinv.key k)
      intro kd
      have := hc kd
      have hne : ¬ (it.key = k ∧ it.kind = kd) := fun hh => hk hh.1.symm
      simp only [hne, if_false] at this
      omega
  · intro x hx hxpc
    rw [hthreads] at hx
    rw [hstore]
    rcases mem_set_cases hx with hx | hx
    · exact hinv.fresh x hx hxpc
    · subst hx
      simp at hxpc

/-! ### cs.apply -/

theorem applyW_other (store : Nat → Nat) (t : Nat) (items : List Item) (k : Nat)
    (h : ∀ b ∈ items, b.kind = .X → b.key ≠ k) : applyW store t items k = store k := by
  induction items generalizing store with
  | nil => rfl
  | cons b rest ih =>
    unfold applyW
    rw [ih _ (fun c hc => h c (by simp [hc]))]
    by_cases hb : b.kind = .X
    · simp only [hb, if_true]
      exact upd_other _ _ _ _ (fun hh => h b (by simp) hb hh.symm)
    · simp [hb]

theorem check_congr (store store' : Nat → Nat) (items : List Item)
    (h : ∀ a ∈ items, store' a.key = store a.key) : check store' items = check store items := by
  unfold check
  induction items with
  | nil => rfl
  | cons a rest ih =>
    simp only [List.all_cons]
    rw [ih (fun c hc => h c (by simp [hc])), h a (by simp)]

theorem mem_set_index {l : List Thread} {t : Nat} {a x : Thread} (h : x ∈ l.set t a) :
    x = a ∨ ∃ u : Nat, u ≠ t ∧ l[u]? = some x := by
  obtain ⟨u, hu⟩ := List.mem_iff_getElem?.mp h
  by_cases hut : u = t
  · subst hut
    rw [List.getElem?_set] at hu
    simp at hu
    exact Or.inl hu.2.symm
  · rw [List.getElem?_set] at hu
    have : ¬ t = u := fun hh => hut hh.symm
    simp [this] at hu
    exact Or.inr ⟨u, hut, hu⟩

theorem holds_of_inside {th : Thread} (hs : shape th) (hin : th.inside = true) {a : Item} (ha : a ∈ th.items) :
    th.holds a.key a.kind := by
  unfold shape at hs
  unfold Thread.inside at hin
  split at hin <;> simp_all <;> exact ⟨a, hs a ha, rfl, rfl⟩

theorem inv_apply {s s' : Sys} {t : Nat} {th : Thread} (hinv : Inv s) (h : s.threads[t]? = some th)
    (hpc : th.pc = .checked true) (hm' : s'.m = s.m) (hrc' : s'.rc = s.rc)
    (hstore : s'.store = applyW s.store t th.items)
    (hthreads : s'.threads = s.threads.set t { th with pc := .applied }) : Inv s' := by
  have hmem : th ∈ s.threads := List.mem_of_getElem? h
  have hsh := hinv.shape th hmem
  constructor
  · intro x hx
    rw [hthreads] at hx
    rcases mem_set_cases hx with hx | hx
    · exact hinv.distinct x hx
    · subst hx; exact hinv.distinct th hmem
  · intro x hx
    rw [hthreads] at hx
    rcases mem_set_cases hx with hx | hx
    · exact hinv.shape x hx
    · subst hx
      unfold shape at hsh ⊢
      simp only [hpc] at hsh
      simpa using hsh
  · intro k
    apply keyInv_congr (by rw [hrc']) (by rw [hm']) _ (hinv.key k)
    intro kd
    have := cnt_set (s' := s') (th' := { th with pc := .applied }) h hthreads k kd
    rw [hold_same_succ (th := th) (th' := { th with pc := .applied }) rfl] at this
    omega
  · intro x hx hxpc
    rw [hthreads] at hx
    rcases mem_set_index hx with hx | ⟨u, hut, hu⟩
    · subst hx; simp at hxpc
    · have hxmem : x ∈ s.threads := List.mem_of_getElem? hu
      rw [hstore, check_congr s.store _ x.items, hinv.fresh x hxmem hxpc]
      intro a ha
      apply applyW_other
      intro b hb hbX hkey
      have hxh : x.holds a.key a.kind :=
        holds_of_inside (hinv.shape x hxmem) (by simp [Thread.inside, hxpc]) ha
      have hth : th.holds b.key b.kind :=
        holds_of_inside hsh (by simp [Thread.inside, hpc]) hb
      rw [hbX, hkey] at hth
      exact excl_of_inv hinv.key (fun hh => hut hh.symm) h hu hth hxh

/-! ### every step preserves the invariant -/

theorem inv_beginUnlock {s : Sys} {t : Nat} {th : Thread} (hinv : Inv s) (h : s.threads[t]? = some th) :
    Inv (beginUnlock s t th) := by
  unfold beginUnlock
  split
  · rename_i hs
    exact inv_local (th' := { th with pc := .done }) hinv h rfl rfl rfl rfl rfl rfl (by simpa [shape] using hs) (by simp)
  · rename_i it rest hs
    exact inv_release hinv h hs rfl rfl rfl rfl

theorem inv_step {s : Sys} (hinv : Inv s) (t : Nat) : Inv (step s t) := by
  unfold step
  split
  · exact hinv
  · rename_i th h
    have hmem : th ∈ s.threads := List.mem_of_getElem? h
    have hsh := hinv.shape th hmem
    split
    · -- locking
      rename_i hpc
      split
      · rename_i it rest ht
        split
        · rename_i r hl
          exact inv_acquire hinv h hpc ht hl
        · apply inv_local (s' := s.setThread t { th with pc := if th.succ.isEmpty then .done else .unlocking, res := .lockFail })
            (th' := { th with pc := if th.succ.isEmpty then .done else .unlocking, res := .lockFail }) hinv h rfl rfl rfl rfl rfl rfl
          · by_cases hs : th.succ.isEmpty = true
            · have hs' : th.succ = [] := List.isEmpty_iff.mp hs
              simp [shape, hs']
            · simp [shape, hs]
          · intro hh; by_cases hs : th.succ.isEmpty = true <;> simp [hs] at hh
      · rename_i ht
        have hall : ∀ a, a ∈ th.items → a ∈ th.succ := by
          intro a ha
          unfold shape at hsh
          simp only [hpc] at hsh
          rcases hsh a ha with h1 | h1
          · exact h1
          · rw [ht] at h1; simp at h1
        split
        · rename_i hck
          exact inv_local (th' := { th with pc := .checked true }) hinv h rfl rfl rfl rfl rfl rfl
            (by simpa [shape] using hall) (fun _ => hck)
        · exact inv_local (th' := { th with pc := .checked false, res := .stale }) hinv h rfl rfl rfl rfl rfl rfl
            (by simpa [shape] using hall) (by simp)
    · -- checked true
      rename_i hpc
      exact inv_apply hinv h hpc rfl rfl rfl rfl
    · exact inv_beginUnlock hinv h
    · -- applied
      rename_i hpc
      apply inv_local (s' := s.setThread t { th with pc := .published, res := .admitted })
        (th' := { th with pc := .published, res := .admitted }) hinv h rfl rfl rfl rfl rfl rfl
      · unfold shape at hsh ⊢
        simp only [hpc] at hsh
        simpa using hsh
      · simp
    · exact inv_beginUnlock hinv h
    · exact inv_beginUnlock hinv h
    · exact hinv

theorem inv_run {s : Sys} (hinv : Inv s) (sched : List Nat) : Inv (run s sched) := by
  induction sched generalizing s with
  | nil => exact hinv
  | cons t ts ih => exact ih (inv_step hinv t)

theorem cnt_init_zero (store : Nat → Nat) (reqs : List (List Item)) (k : Nat) (kd : Kind) :
    cnt (init store reqs) k kd = 0 := by
  unfold cnt
  apply sumBy_zero
  intro th hth
  simp only [init, List.mem_map] at hth
  obtain ⟨r, _, rfl⟩ := hth
  simp [hold, holdsB, newThread]

theorem inv_init (store : Nat → Nat) (reqs : List (List Item))
    (hd : ∀ r ∈ reqs, (r.map (·.key)).Nodup) : Inv (init store reqs) := by
  constructor
  · intro th hth
    simp only [init, List.mem_map] at hth
    obtain ⟨r, hr, rfl⟩ := hth
    simpa [keysDistinct, newThread] using hd r hr
  · intro th hth
    simp only [init, List.mem_map] at hth
    obtain ⟨r, hr, rfl⟩ := hth
    simp [shape, newThread]
  · intro k
    constructor
    · rw [cnt_init_zero]; rfl
    · intro _; exact ⟨cnt_init_zero _ _ _ _, cnt_init_zero _ _ _ _⟩
    · intro hh; simp [init] at hh
    · intro hh; simp [init] at hh
  · intro th hth hpc
    simp only [init, List.mem_map] at hth
    obtain ⟨r, hr, rfl⟩ := hth
    simp [newThread] at hpc

/-! ## the property theorems -/

/-- the lock keys of every request are pairwise distinct (what `ExtractLockKeys` returns) -/
def DistinctKeys (reqs : List (List Item)) : Prop := ∀ r ∈ reqs, (r.map (·.key)).Nodup

theorem inv_reachable (store : Nat → Nat) (reqs : List (List Item)) (hd : DistinctKeys reqs) (sched : List Nat) :
    Inv (run (init store reqs) sched) :=
  inv_run (inv_init store reqs hd) sched

/-- the statement of `mutex_inv` about one state: (1) two threads inside their critical sections share a
key only if both hold it shared (so an exclusive holder is the only one inside with that key, and shared
holders exclude exclusive ones); (2) the table entry of every key of a thread inside exists, with its kind. -/
def MutexHolds (m : Nat → Option Kind) (view : List (List Item × Bool)) : Prop :=
  (∀ (t1 t2 : Nat) (r1 r2 : List Item) (a b : Item), t1 ≠ t2 → view[t1]? = some (r1, true) → view[t2]? = some (r2, true) →
      a ∈ r1 → b ∈ r2 → a.key = b.key → a.kind = .S ∧ b.kind = .S) ∧
  (∀ (t : Nat) (r : List Item) (a : Item), view[t]? = some (r, true) → a ∈ r → m a.key = some a.kind)

/-- what the property looks at: every thread's lock keys and whether it is inside its critical section -/
def view (s : Sys) : List (List Item × Bool) := s.threads.map (fun th => (th.items, th.inside))

theorem view_get {s : Sys} {t : Nat} {r : List Item} {b : Bool} (h : (view s)[t]? = some (r, b)) :
    ∃ th, s.threads[t]? = some th ∧ th.items = r ∧ th.inside = b := by
  unfold view at h
  rw [List.getElem?_map] at h
  cases hth : s.threads[t]? with
  | none => simp [hth] at h
  | some th =>
    simp [hth] at h
    exact ⟨th, rfl, h.1, h.2⟩

/-- **mutex_inv** — for EVERY schedule, any number of threads, any requests: mutual exclusion of the
critical sections and existence of the table entries. -/
theorem mutex_inv (store : Nat → Nat) (reqs : List (List Item)) (hd : DistinctKeys reqs) (sched : List Nat) :
    MutexHolds (run (init store reqs) sched).m (view (run (init store reqs) sched)) := by
  have hinv := inv_reachable store reqs hd sched
  generalize run (init store reqs) sched = s at hinv
  constructor
  · intro t1 t2 r1 r2 a b hne h1 h2 ha hb hkey
    obtain ⟨th1, g1, rfl, i1⟩ := view_get h1
    obtain ⟨th2, g2, rfl, i2⟩ := view_get h2
    have hh1 := holds_of_inside (hinv.shape th1 (List.mem_of_getElem? g1)) i1 ha
    have hh2 := holds_of_inside (hinv.shape th2 (List.mem_of_getElem? g2)) i2 hb
    cases hak : a.kind with
    | X =>
      rw [hak] at hh1
      rw [← hkey] at hh2
      exact absurd hh2 (excl_of_inv hinv.key hne g1 g2 hh1)
    | S =>
      cases hbk : b.kind with
      | X =>
        rw [hbk] at hh2
        rw [hkey] at hh1
        exact absurd hh1 (excl_of_inv hinv.key (fun h => hne h.symm) g2 g1 hh2)
      | S => exact ⟨rfl, rfl⟩
  · intro t r a h ha
    obtain ⟨th, g, rfl, i⟩ := view_get h
    exact entry_of_holds hinv.key g (holds_of_inside (hinv.shape th (List.mem_of_getElem? g)) i ha)

/-- **mutex_inv_holders** — the same for every HOLDER (also threads in the middle of TryLock or of Unlock,
holding only some of their keys): an exclusive holder of `k` is the only holder of `k`, and whoever holds
`(k, kind)` finds the entry `k ↦ kind` in the table. -/
theorem mutex_inv_holders (store : Nat → Nat) (reqs : List (List Item)) (hd : DistinctKeys reqs) (sched : List Nat) :
    let s := run (init store reqs) sched
    (∀ (t1 t2 : Nat) (th1 th2 : Thread) (k : Nat) (kd : Kind), t1 ≠ t2 → s.threads[t1]? = some th1 →
        s.threads[t2]? = some th2 → th1.holds k .X → ¬ th2.holds k kd) ∧
    (∀ (t : Nat) (th : Thread) (k : Nat) (kd : Kind), s.threads[t]? = some th → th.holds k kd → s.m k = some kd) := by
  intro s
  have hinv : Inv s := inv_reachable store reqs hd sched
  exact ⟨fun t1 t2 th1 th2 k kd hne h1 h2 hh => excl_of_inv hinv.key hne h1 h2 hh,
         fun t th k kd h hh => entry_of_holds hinv.key h hh⟩

/-- **refcount_exact** — the reference count of a key is exactly the number of its shared holders, and
the table has an entry for `k` iff somebody holds `k`. -/
theorem refcount_exact (store : Nat → Nat) (reqs : List (List Item)) (hd : DistinctKeys reqs) (sched : List Nat) (k : Nat) :
    (run (init store reqs) sched).rc k = (cnt (run (init store reqs) sched) k .S : Int) ∧
    ((run (init store reqs) sched).m k = none ↔
      cnt (run (init store reqs) sched) k .S = 0 ∧ cnt (run (init store reqs) sched) k .X = 0) := by
  have ki := (inv_reachable store reqs hd sched).key k
  generalize run (init store reqs) sched = s at ki
  refine ⟨ki.rc_eq, ki.free, ?_⟩
  intro hc
  cases hm : s.m k with
  | none => rfl
  | some kd =>
    cases kd with
    | S => have := ki.shared hm; omega
    | X => have := ki.excl hm; omega

/-- **quiescent_clean** (all-or-fail releases what it took) — once every thread has finished, whether
its TryLock succeeded or failed half-way, the table is empty and every reference count is 0. -/
theorem quiescent_clean (store : Nat → Nat) (reqs : List (List Item)) (hd : DistinctKeys reqs) (sched : List Nat)
    (hdone : ∀ th ∈ (run (init store reqs) sched).threads, th.pc = .done) (k : Nat) :
    (run (init store reqs) sched).m k = none ∧ (run (init store reqs) sched).rc k = 0 := by
  have hinv := inv_reachable store reqs hd sched
  generalize run (init store reqs) sched = s at hinv hdone
  have hz : ∀ kd, cnt s k kd = 0 := by
    intro kd
    apply sumBy_zero
    intro th hth
    have hs := hinv.shape th hth
    unfold shape at hs
    simp only [hdone th hth] at hs
    simp [hold, holdsB, hs]
  have ki := hinv.key k
  constructor
  · cases hm : s.m k with
    | none => rfl
    | some kd =>
      cases kd with
      | S => have := ki.shared hm; have := hz .S; omega
      | X => have := ki.excl hm; have := hz .X; omega
  · rw [ki.rc_eq, hz]; rfl

end XV.C12
