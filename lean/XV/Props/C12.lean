import XV.Model.Sched
namespace XV.C12
open XV.SpinLock

theorem placeholder : True := trivial

end XV.C12
