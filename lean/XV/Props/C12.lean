import XV.Model.Sched
import XV.Gen.LockProto
/-!
# C12 — concurrent submissions are serialisable: conflict-free admission, no deadlock

Theorems about the step system `XV.SpinLock.step` (the repaired `spin_lock.go`: one key is taken /
released in ONE atomic step) under EVERY schedule (`run s sched`, `sched : List Nat` arbitrary) and any
number of threads, and the refutation of the same statement for the step system of the code before
the repair (`XV.SpinLock.Split`, LoadOrStore/Add and Release/Delete as separate steps).
-/
namespace XV.C12
open XV.SpinLock

/-! ### counting holders -/

def sumBy (f : Thread → Nat) : List Thread → Nat
  | [] => 0
  | a :: l => f a + sumBy f l

theorem sumBy_set (f : Thread → Nat) (l : List Thread) (t : Nat) (th a : Thread) (h : l[t]? = some th) :
    sumBy f (l.set t a) + f th = sumBy f l + f a := by
  induction l generalizing t with
  | nil => simp at h
  | cons b l ih =>
    cases t with
    | zero =>
      simp at h
      subst h
      simp [sumBy]
      omega
    | succ t =>
      simp at h
      have := ih t h
      simp [sumBy]
      omega

theorem sumBy_ge (f : Thread → Nat) (l : List Thread) (t : Nat) (th : Thread) (h : l[t]? = some th) :
    f th ≤ sumBy f l := by
  induction l generalizing t with
  | nil => simp at h
  | cons b l ih =>
    cases t with
    | zero =>
      simp at h
      subst h
      simp [sumBy]
    | succ t =>
      simp at h
      have := ih t h
      simp [sumBy]
      omega

theorem sumBy_ge_two (f : Thread → Nat) (l : List Thread) (t1 t2 : Nat) (th1 th2 : Thread) (hne : t1 ≠ t2)
    (h1 : l[t1]? = some th1) (h2 : l[t2]? = some th2) : f th1 + f th2 ≤ sumBy f l := by
  induction l generalizing t1 t2 with
  | nil => simp at h1
  | cons b l ih =>
    cases t1 with
    | zero =>
      cases t2 with
      | zero => exact absurd rfl hne
      | succ t2 =>
        simp at h1 h2
        subst h1
        have := sumBy_ge f l t2 th2 h2
        simp [sumBy]
        omega
    | succ t1 =>
      cases t2 with
      | zero =>
        simp at h1 h2
        subst h2
        have := sumBy_ge f l t1 th1 h1
        simp [sumBy]
        omega
      | succ t2 =>
        simp at h1 h2
        have := ih t1 t2 (fun h => hne (by rw [h])) h1 h2
        simp [sumBy]
        omega

theorem sumBy_zero (f : Thread → Nat) (l : List Thread) (h : ∀ th ∈ l, f th = 0) : sumBy f l = 0 := by
  induction l with
  | nil => rfl
  | cons b l ih =>
    have hb := h b (by simp)
    have := ih (fun th hth => h th (by simp [hth]))
    simp [sumBy]
    omega

theorem sumBy_pos (f : Thread → Nat) (l : List Thread) (h : 0 < sumBy f l) :
    ∃ (t : Nat) (th : Thread), l[t]? = some th ∧ 0 < f th := by
  induction l with
  | nil => simp [sumBy] at h
  | cons b l ih =>
    by_cases hb : 0 < f b
    · exact ⟨0, b, by simp, hb⟩
    · have : 0 < sumBy f l := by
        simp [sumBy] at h
        omega
      obtain ⟨t, th, h1, h2⟩ := ih this
      exact ⟨t + 1, th, by simpa using h1, h2⟩

/-- decidable version of `Thread.holds` -/
def holdsB (k : Nat) (kd : Kind) (l : List Item) : Bool := l.any (fun it => it.key == k && it.kind == kd)

theorem holdsB_iff (k : Nat) (kd : Kind) (th : Thread) : holdsB k kd th.succ = true ↔ th.holds k kd := by
  simp [holdsB, Thread.holds, List.any_eq_true]

/-- 1 if the thread holds `(k, kd)`, else 0 -/
def hold (k : Nat) (kd : Kind) (th : Thread) : Nat := if holdsB k kd th.succ then 1 else 0

/-- number of threads holding key `k` in mode `kd` -/
def cnt (s : Sys) (k : Nat) (kd : Kind) : Nat := sumBy (hold k kd) s.threads

theorem hold_le_one (k : Nat) (kd : Kind) (th : Thread) : hold k kd th ≤ 1 := by
  unfold hold; split <;> omega

theorem hold_eq_one_iff (k : Nat) (kd : Kind) (th : Thread) : hold k kd th = 1 ↔ th.holds k kd := by
  rw [← holdsB_iff]
  unfold hold
  split <;> simp_all

theorem hold_eq_zero_iff (k : Nat) (kd : Kind) (th : Thread) : hold k kd th = 0 ↔ ¬ th.holds k kd := by
  rw [← holdsB_iff]
  unfold hold
  split <;> simp_all

/-- the keys a thread holds and the keys it has still to take are pairwise distinct
(ExtractLockKeys de-duplicates the keys of a request) -/
def keysDistinct (th : Thread) : Prop := ((th.succ ++ th.todo).map (·.key)).Nodup

/-- `succLocked` and `todo` partition the request's keys while the thread is locking or inside -/
def shape (th : Thread) : Prop :=
  match th.pc with
  | .locking => ∀ it, it ∈ th.items → it ∈ th.succ ∨ it ∈ th.todo
  | .checked _ => ∀ it, it ∈ th.items → it ∈ th.succ
  | .applied => ∀ it, it ∈ th.items → it ∈ th.succ
  | .published => ∀ it, it ∈ th.items → it ∈ th.succ
  | .unlocking => True
  | .done => th.succ = []

/-- per-key invariant of the lock table -/
structure KeyInv (s : Sys) (k : Nat) : Prop where
  rc_eq : s.rc k = (cnt s k .S : Int)
  free : s.m k = none → cnt s k .S = 0 ∧ cnt s k .X = 0
  excl : s.m k = some .X → cnt s k .S = 0 ∧ cnt s k .X = 1
  shared : s.m k = some .S → 1 ≤ cnt s k .S ∧ cnt s k .X = 0

/-- the inductive invariant -/
structure Inv (s : Sys) : Prop where
  distinct : ∀ th ∈ s.threads, keysDistinct th
  shape : ∀ th ∈ s.threads, shape th
  key : ∀ k, KeyInv s k
  /-- a request whose cs.check passed still sees the versions it checked (nobody wrote its keys since) -/
  fresh : ∀ th ∈ s.threads, th.pc = .checked true → check s.store th.items = true

/-! ### how one thread's update changes the counts -/

theorem cnt_set {s s' : Sys} {t : Nat} {th th' : Thread} (h : s.threads[t]? = some th)
    (hs : s'.threads = s.threads.set t th') (k : Nat) (kd : Kind) :
    cnt s' k kd + hold k kd th = cnt s k kd + hold k kd th' := by
  unfold cnt
  rw [hs]
  exact sumBy_set _ _ _ _ _ h

theorem hold_same_succ {th th' : Thread} (h : th'.succ = th.succ) (k : Nat) (kd : Kind) :
    hold k kd th' = hold k kd th := by
  unfold hold
  rw [h]

theorem hold_cons {th th' : Thread} {it : Item} (h : th'.succ = it :: th.succ) (k : Nat) (kd : Kind) :
    hold k kd th' = if it.key = k ∧ it.kind = kd then 1 else hold k kd th := by
  unfold hold holdsB
  rw [h]
  by_cases h1 : it.key = k <;> by_cases h2 : it.kind = kd <;> simp [h1, h2]

theorem not_holds_of_key_notin {th : Thread} {k : Nat} (h : k ∉ th.succ.map (·.key)) (kd : Kind) :
    hold k kd th = 0 := by
  rw [hold_eq_zero_iff]
  intro ⟨it, hit, hk, _⟩
  exact h (by simpa using ⟨it, hit, hk⟩)

theorem distinct_acquire {th : Thread} {it : Item} {rest : List Item} (hd : keysDistinct th)
    (ht : th.todo = it :: rest) :
    it.key ∉ th.succ.map (·.key) ∧ keysDistinct { th with todo := rest, succ := it :: th.succ } := by
  unfold keysDistinct at *
  rw [ht] at hd
  have hp : ((th.succ ++ it :: rest).map (·.key)).Perm ((it :: (th.succ ++ rest)).map (·.key)) :=
    (List.perm_middle).map _
  have hd' := hp.nodup_iff.mp hd
  constructor
  · simp only [List.map_cons, List.nodup_cons, List.map_append, List.mem_append] at hd'
    exact fun h => hd'.1 (Or.inl h)
  · simpa using hd'

theorem distinct_release {th : Thread} {it : Item} {rest : List Item} (hd : keysDistinct th)
    (hs : th.succ = it :: rest) (pc : Pc) :
    it.key ∉ rest.map (·.key) ∧ keysDistinct { th with succ := rest, pc := pc } := by
  unfold keysDistinct at *
  rw [hs] at hd
  simp only [List.cons_append, List.map_cons, List.nodup_cons, List.map_append, List.mem_append] at hd
  constructor
  · exact fun h => hd.1 (Or.inl h)
  · simpa using hd.2

theorem keyInv_congr {s s' : Sys} {k : Nat} (hrc : s'.rc k = s.rc k) (hm : s'.m k = s.m k)
    (hc : ∀ kd, cnt s' k kd = cnt s k kd) (h : KeyInv s k) : KeyInv s' k := by
  constructor
  · rw [hrc, hc]; exact h.rc_eq
  · rw [hm, hc, hc]; exact h.free
  · rw [hm, hc, hc]; exact h.excl
  · rw [hm, hc, hc]; exact h.shared

theorem mem_set_cases {l : List Thread} {t : Nat} {a x : Thread} (h : x ∈ l.set t a) : x ∈ l ∨ x = a :=
  List.mem_or_eq_of_mem_set h

/-- a step that changes only thread `t`'s control state (and possibly appends to the log) -/
theorem inv_local {s s' : Sys} {t : Nat} {th th' : Thread} (hinv : Inv s) (h : s.threads[t]? = some th)
    (hthreads : s'.threads = s.threads.set t th') (hm : s'.m = s.m) (hrc : s'.rc = s.rc)
    (hstore : s'.store = s.store) (hsucc : th'.succ = th.succ) (htodo : th'.todo = th.todo)
    (hshape : shape th') (hfresh : th'.pc = .checked true → check s.store th'.items = true) : Inv s' := by
  have hmem : th ∈ s.threads := List.mem_of_getElem? h
  constructor
  · intro x hx
    rw [hthreads] at hx
    rcases mem_set_cases hx with hx | hx
    · exact hinv.distinct x hx
    · subst hx
      have := hinv.distinct th hmem
      unfold keysDistinct at *
      rw [hsucc, htodo]; exact this
  · intro x hx
    rw [hthreads] at hx
    rcases mem_set_cases hx with hx | hx
    · exact hinv.shape x hx
    · subst hx; exact hshape
  · intro k
    apply keyInv_congr (by rw [hrc]) (by rw [hm]) _ (hinv.key k)
    intro kd
    have := cnt_set h hthreads k kd
    rw [hold_same_succ hsucc] at this
    omega
  · intro x hx hpc
    rw [hthreads] at hx
    rw [hstore]
    rcases mem_set_cases hx with hx | hx
    · exact hinv.fresh x hx hpc
    · subst hx; exact hfresh hpc

/-! ### the table operations -/

theorem lockOne_other {m : Nat → Option Kind} {rc : Nat → Int} {k : Nat} {kd : Kind}
    {r : (Nat → Option Kind) × (Nat → Int)} (h : lockOne m rc k kd = some r) (x : Nat) (hx : x ≠ k) :
    r.1 x = m x ∧ r.2 x = rc x := by
  unfold lockOne at h
  split at h <;> simp at h <;> subst h <;> simp [upd, hx]

theorem lockOne_spec {m : Nat → Option Kind} {rc : Nat → Int} {k : Nat} {kd : Kind}
    {r : (Nat → Option Kind) × (Nat → Int)} (h : lockOne m rc k kd = some r) :
    (m k = none ∧ kd = .X ∧ r.1 k = some .X ∧ r.2 k = rc k) ∨
    (m k = none ∧ kd = .S ∧ r.1 k = some .S ∧ r.2 k = rc k + 1) ∨
    (m k = some .S ∧ kd = .S ∧ r.1 k = some .S ∧ r.2 k = rc k + 1) := by
  unfold lockOne at h
  split at h <;> simp at h <;> subst h <;> simp_all [upd]

theorem unlockOne_other (m : Nat → Option Kind) (rc : Nat → Int) (k : Nat) (kd : Kind) (x : Nat) (hx : x ≠ k) :
    (unlockOne m rc k kd).1 x = m x ∧ (unlockOne m rc k kd).2 x = rc x := by
  unfold unlockOne
  cases kd
  · simp only []
    split <;> simp [upd, hx]
  · simp [upd, hx]

theorem unlockOne_X (m : Nat → Option Kind) (rc : Nat → Int) (k : Nat) :
    (unlockOne m rc k .X).1 k = none ∧ (unlockOne m rc k .X).2 k = rc k := by
  simp [unlockOne, upd]

theorem unlockOne_S (m : Nat → Option Kind) (rc : Nat → Int) (k : Nat) :
    (unlockOne m rc k .S).2 k = rc k - 1 ∧
    ((rc k - 1 = 0 ∧ (unlockOne m rc k .S).1 k = none) ∨ (rc k - 1 ≠ 0 ∧ (unlockOne m rc k .S).1 k = m k)) := by
  unfold unlockOne
  simp only []
  split <;> simp_all [upd]

/-! ### mutual exclusion from the invariant -/

theorem cnt_ge_of_holds {s : Sys} {t : Nat} {th : Thread} {k : Nat} {kd : Kind} (h : s.threads[t]? = some th)
    (hh : th.holds k kd) : 1 ≤ cnt s k kd := by
  have := sumBy_ge (hold k kd) s.threads t th h
  rw [(hold_eq_one_iff k kd th).mpr hh] at this
  exact this

/-- whoever holds `(k, kd)`, the table's entry for `k` exists and has kind `kd` -/
theorem entry_of_holds {s : Sys} (hk : ∀ k, KeyInv s k) {t : Nat} {th : Thread} {k : Nat} {kd : Kind}
    (h : s.threads[t]? = some th) (hh : th.holds k kd) : s.m k = some kd := by
  have hc := cnt_ge_of_holds h hh
  have ki := hk k
  cases hm : s.m k with
  | none =>
    have := ki.free hm
    cases kd <;> omega
  | some kd' =>
    cases kd' <;> cases kd <;> first | rfl | (have := ki.excl hm; omega) | (have := ki.shared hm; omega)

/-- an exclusive holder of `k` excludes every other holder of `k` -/
theorem excl_of_inv {s : Sys} (hk : ∀ k, KeyInv s k) {t1 t2 : Nat} {th1 th2 : Thread} {k : Nat} {kd : Kind}
    (hne : t1 ≠ t2) (h1 : s.threads[t1]? = some th1) (h2 : s.threads[t2]? = some th2)
    (hh1 : th1.holds k .X) : ¬ th2.holds k kd := by
  intro hh2
  have hm := entry_of_holds hk h1 hh1
  have hm2 := entry_of_holds hk h2 hh2
  rw [hm] at hm2
  cases hm2
  have := (hk k).excl hm
  have h2' := sumBy_ge_two (hold k .X) s.threads t1 t2 th1 th2 hne h1 h2
  rw [(hold_eq_one_iff k .X th1).mpr hh1, (hold_eq_one_iff k .X th2).mpr hh2] at h2'
  unfold cnt at this
  omega

/-! ### the three kinds of non-local steps preserve the invariant -/

theorem inv_acquire {s : Sys} {t : Nat} {th : Thread} {it : Item} {rest : List Item}
    {r : (Nat → Option Kind) × (Nat → Int)} (hinv : Inv s) (h : s.threads[t]? = some th)
    (hpc : th.pc = .locking) (ht : th.todo = it :: rest) (hl : lockOne s.m s.rc it.key it.kind = some r) :
    Inv { s with m := r.1, rc := r.2, threads := s.threads.set t { th with todo := rest, succ := it :: th.succ } } := by
  have hmem : th ∈ s.threads := List.mem_of_getElem? h
  obtain ⟨hnot, hdist⟩ := distinct_acquire (hinv.distinct th hmem) ht
  constructor
  · intro x hx
    rcases mem_set_cases hx with hx | hx
    · exact hinv.distinct x hx
    · subst hx; exact hdist
  · intro x hx
    rcases mem_set_cases hx with hx | hx
    · exact hinv.shape x hx
    · subst hx
      have hs := hinv.shape th hmem
      unfold shape at hs ⊢
      simp only [hpc] at hs ⊢
      intro a ha
      rcases hs a ha with h1 | h1
      · exact Or.inl (by simp [h1])
      · rw [ht] at h1
        rcases List.mem_cons.mp h1 with h2 | h2
        · exact Or.inl (by simp [h2])
        · exact Or.inr h2
  · intro k
    have hc : ∀ kd, cnt { s with m := r.1, rc := r.2, threads := s.threads.set t { th with todo := rest, succ := it :: th.succ } } k kd
          + hold k kd th = cnt s k kd + (if it.key = k ∧ it.kind = kd then 1 else hold k kd th) := by
      intro kd
      have := cnt_set (s' := { s with m := r.1, rc := r.2, threads := s.threads.set t { th with todo := rest, succ := it :: th.succ } })
        (th' := { th with todo := rest, succ := it :: th.succ }) h rfl k kd
      rw [hold_cons (th := th) (th' := { th with todo := rest, succ := it :: th.succ }) (it := it) rfl k kd] at this
      exact this
    by_cases hk : k = it.key
    · subst hk
      have ki := hinv.key it.key
      have hS := hc .S
      have hX := hc .X
      rw [not_holds_of_key_notin hnot] at hS hX
      rcases lockOne_spec hl with ⟨hm, hkd, hr1, hr2⟩ | ⟨hm, hkd, hr1, hr2⟩ | ⟨hm, hkd, hr1, hr2⟩
      · have hf := ki.free hm
        have hrc := ki.rc_eq
        simp [hkd] at hS hX
        constructor
        · show r.2 it.key = _
          omega
        · intro hh; rw [show ({ s with m := r.1, rc := r.2, threads := _ } : Sys).m = r.1 from rfl, hr1] at hh; cases hh
        · intro _; omega
        · intro hh; rw [show ({ s with m := r.1, rc := r.2, threads := _ } : Sys).m = r.1 from rfl, hr1] at hh; cases hh
      · have hf := ki.free hm
        have hrc := ki.rc_eq
        simp [hkd] at hS hX
        constructor
        · show r.2 it.key = _
          omega
        · intro hh; rw [show ({ s with m := r.1, rc := r.2, threads := _ } : Sys).m = r.1 from rfl, hr1] at hh; cases hh
        · intro hh; rw [show ({ s with m := r.1, rc := r.2, threads := _ } : Sys).m = r.1 from rfl, hr1] at hh; cases hh
        · intro _; omega
      · have hf := ki.shared hm
        have hrc := ki.rc_eq
        simp [hkd] at hS hX
        constructor
        · show r.2 it.key = _
          omega
        · intro hh; rw [show ({ s with m := r.1, rc := r.2, threads := _ } : Sys).m = r.1 from rfl, hr1] at hh; cases hh
        · intro hh; rw [show ({ s with m := r.1, rc := r.2, threads := _ } : Sys).m = r.1 from rfl, hr1] at hh; cases hh
        · intro _; omega
    · have ho := lockOne_other hl k hk
      apply keyInv_congr ho.2 ho.1 _ (hinv.key k)
      intro kd
      have := hc kd
      have hne : ¬ (it.key = k ∧ it.kind = kd) := fun hh => hk hh.1.symm
      simp only [hne, if_false] at this
      omega
  · intro x hx hxpc
    rcases mem_set_cases hx with hx | hx
    · exact hinv.fresh x hx hxpc
    · subst hx
      simp [hpc] at hxpc

theorem inv_release {s s' : Sys} {t : Nat} {th : Thread} {it : Item} {rest : List Item}
    (hinv : Inv s) (h : s.threads[t]? = some th) (hs : th.succ = it :: rest)
    (hm' : s'.m = (unlockOne s.m s.rc it.key it.kind).1) (hrc' : s'.rc = (unlockOne s.m s.rc it.key it.kind).2)
    (hstore : s'.store = s.store)
    (hthreads : s'.threads = s.threads.set t { th with succ := rest, pc := .unlocking }) : Inv s' := by
  have hmem : th ∈ s.threads := List.mem_of_getElem? h
  obtain ⟨hnot, hdist⟩ := distinct_release (hinv.distinct th hmem) hs .unlocking
  constructor
  · intro x hx
    rw [hthreads] at hx
    rcases mem_set_cases hx with hx | hx
    · exact hinv.distinct x hx
    · subst hx; exact hdist
  · intro x hx
    rw [hthreads] at hx
    rcases mem_set_cases hx with hx | hx
    · exact hinv.shape x hx
    · subst hx; simp [shape]
  · intro k
    have hc : ∀ kd, cnt s' k kd + (if it.key = k ∧ it.kind = kd then 1 else hold k kd { th with succ := rest, pc := .unlocking })
          = cnt s k kd + hold k kd { th with succ := rest, pc := .unlocking } := by
      intro kd
      have := cnt_set (s' := s') (th' := { th with succ := rest, pc := .unlocking }) h hthreads k kd
      rw [hold_cons (th := { th with succ := rest, pc := .unlocking }) (th' := th) (it := it) hs k kd] at this
      exact this
    by_cases hk : k = it.key
    · subst hk
      have ki := hinv.key it.key
      have hS := hc .S
      have hX := hc .X
      have h0 : ∀ kd, hold it.key kd { th with succ := rest, pc := .unlocking } = 0 :=
        fun kd => not_holds_of_key_notin (th := { th with succ := rest, pc := .unlocking }) hnot kd
      rw [h0] at hS hX
      have hrc := ki.rc_eq
      cases hkd : it.kind with
      | X =>
        obtain ⟨u1, u2⟩ := unlockOne_X s.m s.rc it.key
        rw [hkd] at hm' hrc'
        simp [hkd] at hS hX
        cases hm : s.m it.key with
        | none => have := ki.free hm; omega
        | some kd' =>
          cases kd' with
          | S => have := ki.shared hm; omega
          | X =>
            have := ki.excl hm
            constructor
            · rw [hrc', u2]; omega
            · intro _; omega
            · intro hh; rw [hm', u1] at hh; cases hh
            · intro hh; rw [hm', u1] at hh; cases hh
      | S =>
        obtain ⟨u2, u1⟩ := unlockOne_S s.m s.rc it.key
        rw [hkd] at hm' hrc'
        simp [hkd] at hS hX
        cases hm : s.m it.key with
        | none => have := ki.free hm; omega
        | some kd' =>
          cases kd' with
          | X => have := ki.excl hm; omega
          | S =>
            have := ki.shared hm
            rcases u1 with ⟨z, u1⟩ | ⟨z, u1⟩
            · constructor
              · rw [hrc', u2]; omega
              · intro _; omega
              · intro hh; rw [hm', u1] at hh; cases hh
              · intro hh; rw [hm', u1] at hh; cases hh
            · constructor
              · rw [hrc', u2]; omega
              · intro hh; rw [hm', u1, hm] at hh; cases hh
              · intro hh; rw [hm', u1, hm] at hh; cases hh
              · intro _; omega
    · have ho := unlockOne_other s.m s.rc it.key it.kind k hk
      apply keyInv_congr (by rw [hrc']; exact ho.2) (by rw [hm']; exact ho.1) _ (hinv.key k)
      intro kd
      have := hc kd
      have hne : ¬ (it.key = k ∧ it.kind = kd) := fun hh => hk hh.1.symm
      simp only [hne, if_false] at this
      omega
  · intro x hx hxpc
    rw [hthreads] at hx
    rw [hstore]
    rcases mem_set_cases hx with hx | hx
    · exact hinv.fresh x hx hxpc
    · subst hx
      simp at hxpc

/-! ### cs.apply -/

theorem applyW_other (store : Nat → Nat) (t : Nat) (items : List Item) (k : Nat)
    (h : ∀ b ∈ items, b.kind = .X → b.key ≠ k) : applyW store t items k = store k := by
  induction items generalizing store with
  | nil => rfl
  | cons b rest ih =>
    unfold applyW
    rw [ih _ (fun c hc => h c (by simp [hc]))]
    by_cases hb : b.kind = .X
    · simp only [hb, if_true]
      exact upd_other _ _ _ _ (fun hh => h b (by simp) hb hh.symm)
    · simp [hb]

theorem check_congr (store store' : Nat → Nat) (items : List Item)
    (h : ∀ a ∈ items, store' a.key = store a.key) : check store' items = check store items := by
  unfold check
  induction items with
  | nil => rfl
  | cons a rest ih =>
    simp only [List.all_cons]
    rw [ih (fun c hc => h c (by simp [hc])), h a (by simp)]

theorem mem_set_index {l : List Thread} {t : Nat} {a x : Thread} (h : x ∈ l.set t a) :
    x = a ∨ ∃ u : Nat, u ≠ t ∧ l[u]? = some x := by
  obtain ⟨u, hu⟩ := List.mem_iff_getElem?.mp h
  by_cases hut : u = t
  · subst hut
    rw [List.getElem?_set] at hu
    simp at hu
    exact Or.inl hu.2.symm
  · rw [List.getElem?_set] at hu
    have : ¬ t = u := fun hh => hut hh.symm
    simp [this] at hu
    exact Or.inr ⟨u, hut, hu⟩

theorem holds_of_inside {th : Thread} (hs : shape th) (hin : th.inside = true) {a : Item} (ha : a ∈ th.items) :
    th.holds a.key a.kind := by
  unfold shape at hs
  unfold Thread.inside at hin
  split at hin <;> simp_all <;> exact ⟨a, hs a ha, rfl, rfl⟩

theorem inv_apply {s s' : Sys} {t : Nat} {th : Thread} (hinv : Inv s) (h : s.threads[t]? = some th)
    (hpc : th.pc = .checked true) (hm' : s'.m = s.m) (hrc' : s'.rc = s.rc)
    (hstore : s'.store = applyW s.store t th.items)
    (hthreads : s'.threads = s.threads.set t { th with pc := .applied }) : Inv s' := by
  have hmem : th ∈ s.threads := List.mem_of_getElem? h
  have hsh := hinv.shape th hmem
  constructor
  · intro x hx
    rw [hthreads] at hx
    rcases mem_set_cases hx with hx | hx
    · exact hinv.distinct x hx
    · subst hx; exact hinv.distinct th hmem
  · intro x hx
    rw [hthreads] at hx
    rcases mem_set_cases hx with hx | hx
    · exact hinv.shape x hx
    · subst hx
      unfold shape at hsh ⊢
      simp only [hpc] at hsh
      simpa using hsh
  · intro k
    apply keyInv_congr (by rw [hrc']) (by rw [hm']) _ (hinv.key k)
    intro kd
    have := cnt_set (s' := s') (th' := { th with pc := .applied }) h hthreads k kd
    rw [hold_same_succ (th := th) (th' := { th with pc := .applied }) rfl] at this
    omega
  · intro x hx hxpc
    rw [hthreads] at hx
    rcases mem_set_index hx with hx | ⟨u, hut, hu⟩
    · subst hx; simp at hxpc
    · have hxmem : x ∈ s.threads := List.mem_of_getElem? hu
      rw [hstore, check_congr s.store _ x.items, hinv.fresh x hxmem hxpc]
      intro a ha
      apply applyW_other
      intro b hb hbX hkey
      have hxh : x.holds a.key a.kind :=
        holds_of_inside (hinv.shape x hxmem) (by simp [Thread.inside, hxpc]) ha
      have hth : th.holds b.key b.kind :=
        holds_of_inside hsh (by simp [Thread.inside, hpc]) hb
      rw [hbX, hkey] at hth
      exact excl_of_inv hinv.key (fun hh => hut hh.symm) h hu hth hxh

/-! ### every step preserves the invariant -/

theorem inv_beginUnlock {s : Sys} {t : Nat} {th : Thread} (hinv : Inv s) (h : s.threads[t]? = some th) :
    Inv (beginUnlock s t th) := by
  unfold beginUnlock
  split
  · rename_i hs
    exact inv_local (th' := { th with pc := .done }) hinv h rfl rfl rfl rfl rfl rfl (by simpa [shape] using hs) (by simp)
  · rename_i it rest hs
    exact inv_release hinv h hs rfl rfl rfl rfl

theorem inv_step {s : Sys} (hinv : Inv s) (t : Nat) : Inv (step s t) := by
  unfold step
  split
  · exact hinv
  · rename_i th h
    have hmem : th ∈ s.threads := List.mem_of_getElem? h
    have hsh := hinv.shape th hmem
    split
    · -- locking
      rename_i hpc
      split
      · rename_i it rest ht
        split
        · rename_i r hl
          exact inv_acquire hinv h hpc ht hl
        · apply inv_local (s' := s.setThread t { th with pc := if th.succ.isEmpty then .done else .unlocking, res := .lockFail })
            (th' := { th with pc := if th.succ.isEmpty then .done else .unlocking, res := .lockFail }) hinv h rfl rfl rfl rfl rfl rfl
          · by_cases hs : th.succ.isEmpty = true
            · have hs' : th.succ = [] := List.isEmpty_iff.mp hs
              simp [shape, hs']
            · simp [shape, hs]
          · intro hh; by_cases hs : th.succ.isEmpty = true <;> simp [hs] at hh
      · rename_i ht
        have hall : ∀ a, a ∈ th.items → a ∈ th.succ := by
          intro a ha
          unfold shape at hsh
          simp only [hpc] at hsh
          rcases hsh a ha with h1 | h1
          · exact h1
          · rw [ht] at h1; simp at h1
        split
        · rename_i hck
          exact inv_local (th' := { th with pc := .checked true }) hinv h rfl rfl rfl rfl rfl rfl
            (by simpa [shape] using hall) (fun _ => hck)
        · exact inv_local (th' := { th with pc := .checked false, res := .stale }) hinv h rfl rfl rfl rfl rfl rfl
            (by simpa [shape] using hall) (by simp)
    · -- checked true
      rename_i hpc
      exact inv_apply hinv h hpc rfl rfl rfl rfl
    · exact inv_beginUnlock hinv h
    · -- applied
      rename_i hpc
      apply inv_local (s' := s.setThread t { th with pc := .published, res := .admitted })
        (th' := { th with pc := .published, res := .admitted }) hinv h rfl rfl rfl rfl rfl rfl
      · unfold shape at hsh ⊢
        simp only [hpc] at hsh
        simpa using hsh
      · simp
    · exact inv_beginUnlock hinv h
    · exact inv_beginUnlock hinv h
    · exact hinv

theorem inv_run {s : Sys} (hinv : Inv s) (sched : List Nat) : Inv (run s sched) := by
  induction sched generalizing s with
  | nil => exact hinv
  | cons t ts ih => exact ih (inv_step hinv t)

theorem cnt_init_zero (store : Nat → Nat) (reqs : List (List Item)) (k : Nat) (kd : Kind) :
    cnt (init store reqs) k kd = 0 := by
  unfold cnt
  apply sumBy_zero
  intro th hth
  simp only [init, List.mem_map] at hth
  obtain ⟨r, _, rfl⟩ := hth
  simp [hold, holdsB, newThread]

theorem inv_init (store : Nat → Nat) (reqs : List (List Item))
    (hd : ∀ r ∈ reqs, (r.map (·.key)).Nodup) : Inv (init store reqs) := by
  constructor
  · intro th hth
    simp only [init, List.mem_map] at hth
    obtain ⟨r, hr, rfl⟩ := hth
    simpa [keysDistinct, newThread] using hd r hr
  · intro th hth
    simp only [init, List.mem_map] at hth
    obtain ⟨r, hr, rfl⟩ := hth
    simp [shape, newThread]
  · intro k
    constructor
    · rw [cnt_init_zero]; rfl
    · intro _; exact ⟨cnt_init_zero _ _ _ _, cnt_init_zero _ _ _ _⟩
    · intro hh; simp [init] at hh
    · intro hh; simp [init] at hh
  · intro th hth hpc
    simp only [init, List.mem_map] at hth
    obtain ⟨r, hr, rfl⟩ := hth
    simp [newThread] at hpc

/-! ## the property theorems -/

/-- the lock keys of every request are pairwise distinct (what `ExtractLockKeys` returns) -/
def DistinctKeys (reqs : List (List Item)) : Prop := ∀ r ∈ reqs, (r.map (·.key)).Nodup

theorem inv_reachable (store : Nat → Nat) (reqs : List (List Item)) (hd : DistinctKeys reqs) (sched : List Nat) :
    Inv (run (init store reqs) sched) :=
  inv_run (inv_init store reqs hd) sched

/-- the statement of `mutex_inv` about one state: (1) two threads inside their critical sections share a
key only if both hold it shared (so an exclusive holder is the only one inside with that key, and shared
holders exclude exclusive ones); (2) the table entry of every key of a thread inside exists, with its kind. -/
def MutexHolds (m : Nat → Option Kind) (view : List (List Item × Bool)) : Prop :=
  (∀ (t1 t2 : Nat) (r1 r2 : List Item) (a b : Item), t1 ≠ t2 → view[t1]? = some (r1, true) → view[t2]? = some (r2, true) →
      a ∈ r1 → b ∈ r2 → a.key = b.key → a.kind = .S ∧ b.kind = .S) ∧
  (∀ (t : Nat) (r : List Item) (a : Item), view[t]? = some (r, true) → a ∈ r → m a.key = some a.kind)

/-- what the property looks at: every thread's lock keys and whether it is inside its critical section -/
def view (s : Sys) : List (List Item × Bool) := s.threads.map (fun th => (th.items, th.inside))

theorem view_get {s : Sys} {t : Nat} {r : List Item} {b : Bool} (h : (view s)[t]? = some (r, b)) :
    ∃ th, s.threads[t]? = some th ∧ th.items = r ∧ th.inside = b := by
  unfold view at h
  rw [List.getElem?_map] at h
  cases hth : s.threads[t]? with
  | none => simp [hth] at h
  | some th =>
    simp [hth] at h
    exact ⟨th, rfl, h.1, h.2⟩

/-- **mutex_inv** — for EVERY schedule, any number of threads, any requests: mutual exclusion of the
critical sections and existence of the table entries. -/
theorem mutex_inv (store : Nat → Nat) (reqs : List (List Item)) (hd : DistinctKeys reqs) (sched : List Nat) :
    MutexHolds (run (init store reqs) sched).m (view (run (init store reqs) sched)) := by
  have hinv := inv_reachable store reqs hd sched
  generalize run (init store reqs) sched = s at hinv
  constructor
  · intro t1 t2 r1 r2 a b hne h1 h2 ha hb hkey
    obtain ⟨th1, g1, rfl, i1⟩ := view_get h1
    obtain ⟨th2, g2, rfl, i2⟩ := view_get h2
    have hh1 := holds_of_inside (hinv.shape th1 (List.mem_of_getElem? g1)) i1 ha
    have hh2 := holds_of_inside (hinv.shape th2 (List.mem_of_getElem? g2)) i2 hb
    cases hak : a.kind with
    | X =>
      rw [hak] at hh1
      rw [← hkey] at hh2
      exact absurd hh2 (excl_of_inv hinv.key hne g1 g2 hh1)
    | S =>
      cases hbk : b.kind with
      | X =>
        rw [hbk] at hh2
        rw [hkey] at hh1
        exact absurd hh1 (excl_of_inv hinv.key (fun h => hne h.symm) g2 g1 hh2)
      | S => exact ⟨rfl, rfl⟩
  · intro t r a h ha
    obtain ⟨th, g, rfl, i⟩ := view_get h
    exact entry_of_holds hinv.key g (holds_of_inside (hinv.shape th (List.mem_of_getElem? g)) i ha)

/-- **mutex_inv_holders** — the same for every HOLDER (also threads in the middle of TryLock or of Unlock,
holding only some of their keys): an exclusive holder of `k` is the only holder of `k`, and whoever holds
`(k, kind)` finds the entry `k ↦ kind` in the table. -/
theorem mutex_inv_holders (store : Nat → Nat) (reqs : List (List Item)) (hd : DistinctKeys reqs) (sched : List Nat) :
    let s := run (init store reqs) sched
    (∀ (t1 t2 : Nat) (th1 th2 : Thread) (k : Nat) (kd : Kind), t1 ≠ t2 → s.threads[t1]? = some th1 →
        s.threads[t2]? = some th2 → th1.holds k .X → ¬ th2.holds k kd) ∧
    (∀ (t : Nat) (th : Thread) (k : Nat) (kd : Kind), s.threads[t]? = some th → th.holds k kd → s.m k = some kd) := by
  intro s
  have hinv : Inv s := inv_reachable store reqs hd sched
  exact ⟨fun t1 t2 th1 th2 k kd hne h1 h2 hh => excl_of_inv hinv.key hne h1 h2 hh,
         fun t th k kd h hh => entry_of_holds hinv.key h hh⟩

/-- **refcount_exact** — the reference count of a key is exactly the number of its shared holders, and
the table has an entry for `k` iff somebody holds `k`. -/
theorem refcount_exact (store : Nat → Nat) (reqs : List (List Item)) (hd : DistinctKeys reqs) (sched : List Nat) (k : Nat) :
    (run (init store reqs) sched).rc k = (cnt (run (init store reqs) sched) k .S : Int) ∧
    ((run (init store reqs) sched).m k = none ↔
      cnt (run (init store reqs) sched) k .S = 0 ∧ cnt (run (init store reqs) sched) k .X = 0) := by
  have ki := (inv_reachable store reqs hd sched).key k
  generalize run (init store reqs) sched = s at ki
  refine ⟨ki.rc_eq, ki.free, ?_⟩
  intro hc
  cases hm : s.m k with
  | none => rfl
  | some kd =>
    cases kd with
    | S => have := ki.shared hm; omega
    | X => have := ki.excl hm; omega

/-- **quiescent_clean** (all-or-fail releases what it took) — once every thread has finished, whether
its TryLock succeeded or failed half-way, the table is empty and every reference count is 0. -/
theorem quiescent_clean (store : Nat → Nat) (reqs : List (List Item)) (hd : DistinctKeys reqs) (sched : List Nat)
    (hdone : ∀ th ∈ (run (init store reqs) sched).threads, th.pc = .done) (k : Nat) :
    (run (init store reqs) sched).m k = none ∧ (run (init store reqs) sched).rc k = 0 := by
  have hinv := inv_reachable store reqs hd sched
  generalize run (init store reqs) sched = s at hinv hdone
  have hz : ∀ kd, cnt s k kd = 0 := by
    intro kd
    apply sumBy_zero
    intro th hth
    have hs := hinv.shape th hth
    unfold shape at hs
    simp only [hdone th hth] at hs
    simp [hold, holdsB, hs]
  have ki := hinv.key k
  constructor
  · cases hm : s.m k with
    | none => rfl
    | some kd =>
      cases kd with
      | S => have := ki.shared hm; have := hz .S; omega
      | X => have := ki.excl hm; have := hz .X; omega
  · rw [ki.rc_eq, hz]; rfl

/-! ## no deadlock: every step makes progress, every program terminates -/

/-- upper bound on the number of steps a thread still takes -/
def mu (th : Thread) : Nat :=
  match th.pc with
  | .locking => 2 * th.todo.length + th.succ.length + 5
  | .checked _ => th.succ.length + 4
  | .applied => th.succ.length + 3
  | .published => th.succ.length + 2
  | .unlocking => th.succ.length + 1
  | .done => 0

theorem getElem?_set_self_of_some {l : List Thread} {t : Nat} {th a : Thread} (h : l[t]? = some th) :
    (l.set t a)[t]? = some a := by
  have hlt : t < l.length := by
    rcases List.getElem?_eq_some_iff.mp h with ⟨hlt, _⟩
    exact hlt
  rw [List.getElem?_set]
  simp [hlt]

theorem getElem?_set_other {l : List Thread} {t u : Nat} {a : Thread} (h : u ≠ t) :
    (l.set t a)[u]? = l[u]? := by
  rw [List.getElem?_set]
  have : ¬ t = u := fun hh => h hh.symm
  simp [this]

theorem beginUnlock_other (s : Sys) (t u : Nat) (th : Thread) (h : u ≠ t) :
    (beginUnlock s t th).threads[u]? = s.threads[u]? := by
  unfold beginUnlock
  split <;> simp [Sys.setThread, getElem?_set_other h]

/-- a step of thread `t` does not touch any other thread's state -/
theorem step_other (s : Sys) (t u : Nat) (h : u ≠ t) : (step s t).threads[u]? = s.threads[u]? := by
  unfold step
  split
  · rfl
  · split
    · split
      · split <;> simp [Sys.setThread, getElem?_set_other h]
      · split <;> simp [Sys.setThread, getElem?_set_other h]
    · simp [getElem?_set_other h]
    · exact beginUnlock_other s t u _ h
    · simp [Sys.setThread, getElem?_set_other h]
    · exact beginUnlock_other s t u _ h
    · exact beginUnlock_other s t u _ h
    · rfl

theorem beginUnlock_progress {s : Sys} {t : Nat} {th : Thread} (h : s.threads[t]? = some th)
    (hpc : th.pc = .checked false ∨ th.pc = .published ∨ th.pc = .unlocking) :
    ∃ th', (beginUnlock s t th).threads[t]? = some th' ∧ mu th' < mu th := by
  unfold beginUnlock
  split
  · refine ⟨_, getElem?_set_self_of_some h, ?_⟩
    rcases hpc with hpc | hpc | hpc <;> simp [mu, hpc]
  · rename_i it rest hs
    refine ⟨_, getElem?_set_self_of_some h, ?_⟩
    rcases hpc with hpc | hpc | hpc <;> simp [mu, hpc, hs] <;> omega

/-- **step_progress** (TryLock never blocks) — a scheduled thread that has not finished always moves, and
its remaining-steps bound strictly decreases: no step of the protocol waits for another thread. -/
theorem step_progress {s : Sys} {t : Nat} {th : Thread} (h : s.threads[t]? = some th) (hnd : th.pc ≠ .done) :
    ∃ th', (step s t).threads[t]? = some th' ∧ mu th' < mu th := by
  unfold step
  simp only [h]
  split
  · rename_i hpc
    split
    · rename_i it rest ht
      split
      · exact ⟨_, getElem?_set_self_of_some h, by simp [mu, hpc, ht]; omega⟩
      · refine ⟨_, getElem?_set_self_of_some h, ?_⟩
        by_cases hs : th.succ.isEmpty = true <;> simp [mu, hpc, hs] <;> omega
    · rename_i ht
      split
      · exact ⟨_, getElem?_set_self_of_some h, by simp [mu, hpc, ht]⟩
      · exact ⟨_, getElem?_set_self_of_some h, by simp [mu, hpc, ht]⟩
  · rename_i hpc
    exact ⟨_, getElem?_set_self_of_some h, by simp [mu, hpc]⟩
  · rename_i hpc
    exact beginUnlock_progress h (Or.inl hpc)
  · rename_i hpc
    exact ⟨_, getElem?_set_self_of_some h, by simp [mu, hpc]⟩
  · rename_i hpc
    exact beginUnlock_progress h (Or.inr (Or.inl hpc))
  · rename_i hpc
    exact beginUnlock_progress h (Or.inr (Or.inr hpc))
  · rename_i hpc
    exact absurd hpc hnd

theorem step_done {s : Sys} {t : Nat} {th : Thread} (h : s.threads[t]? = some th) (hd : th.pc = .done) :
    step s t = s := by
  unfold step
  simp only [h]
  split <;> simp_all

theorem done_stable {s : Sys} {t : Nat} {th : Thread} (h : s.threads[t]? = some th) (hd : th.pc = .done)
    (sched : List Nat) : (run s sched).threads[t]? = some th := by
  induction sched generalizing s with
  | nil => exact h
  | cons u ts ih =>
    apply ih
    by_cases hu : u = t
    · subst hu; rw [step_done h hd]; exact h
    · rw [step_other s u t (fun hh => hu hh.symm)]; exact h

theorem mu_zero {th : Thread} (h : mu th = 0) : th.pc = .done := by
  unfold mu at h
  split at h <;> first | omega | assumption

/-- **no_deadlock** — under ANY schedule, from ANY state, a thread that is scheduled at least `mu` times
(at most `2·|keys| + 5`) has finished: it never waits for anybody, whatever the others do in between. -/
theorem no_deadlock (s : Sys) (sched : List Nat) (t : Nat) (th : Thread) (h : s.threads[t]? = some th)
    (hcount : mu th ≤ sched.count t) : ∃ th', (run s sched).threads[t]? = some th' ∧ th'.pc = .done := by
  induction sched generalizing s th with
  | nil =>
    simp at hcount
    exact ⟨th, h, mu_zero hcount⟩
  | cons u ts ih =>
    by_cases hd : th.pc = .done
    · exact ⟨th, done_stable h hd _, hd⟩
    · by_cases hu : u = t
      · subst hu
        obtain ⟨th', h', hlt⟩ := step_progress h hd
        simp only [List.count_cons_self] at hcount
        exact ih (step s u) th' h' (by omega)
      · have hc : (u :: ts).count t = ts.count t := by
          simp [hu]
        rw [hc] at hcount
        exact ih (step s u) th (by rw [step_other s u t (fun hh => hu hh.symm)]; exact h) hcount

/-- **no_deadlock_all** — every request terminates: if the schedule gives each of the `n` submitted
requests `2·|keys| + 5` turns (in any order, interleaved in any way), all of them have finished, and by
`quiescent_clean` the lock table is then empty. -/
theorem no_deadlock_all (store : Nat → Nat) (reqs : List (List Item)) (sched : List Nat)
    (hfair : ∀ (t : Nat) (r : List Item), reqs[t]? = some r → 2 * r.length + 5 ≤ sched.count t) :
    ∀ th ∈ (run (init store reqs) sched).threads, th.pc = .done := by
  intro th hth
  obtain ⟨t, ht⟩ := List.mem_iff_getElem?.mp hth
  have hlen : ∀ (s : Sys) (u : Nat), (step s u).threads.length = s.threads.length := by
    intro s u
    unfold step
    split
    · rfl
    · split
      · split
        · split <;> simp [Sys.setThread]
        · split <;> simp [Sys.setThread]
      · simp
      · unfold beginUnlock; split <;> simp [Sys.setThread]
      · simp [Sys.setThread]
      · unfold beginUnlock; split <;> simp [Sys.setThread]
      · unfold beginUnlock; split <;> simp [Sys.setThread]
      · rfl
  have hlenrun : ∀ (sc : List Nat) (s : Sys), (run s sc).threads.length = s.threads.length := by
    intro sc
    induction sc with
    | nil => intro s; rfl
    | cons u ts ih => intro s; rw [run_cons, ih, hlen]
  have htlt : t < reqs.length := by
    have h1 : t < (run (init store reqs) sched).threads.length := by
      rcases List.getElem?_eq_some_iff.mp ht with ⟨hlt, _⟩
      exact hlt
    rw [hlenrun] at h1
    simpa [init] using h1
  have h0 : (init store reqs).threads[t]? = some (newThread reqs[t]) := by
    simp [init, htlt]
  obtain ⟨th', h', hd'⟩ := no_deadlock (init store reqs) sched t (newThread reqs[t]) h0
    (by
      have := hfair t reqs[t] (by simp [htlt])
      simpa [mu, newThread] using this)
  rw [ht] at h'
  cases h'
  exact hd'

/-! ## serialisability: the concurrent run equals a one-at-a-time run in log order -/

/-- one request executed alone and atomically against `st`: cs.check, and cs.apply if it passed; `none` if
the verdict differs from the logged one -/
def seqStep (reqs : List (List Item)) (st : Nat → Nat) (e : Nat × Bool) : Option (Nat → Nat) :=
  match reqs[e.1]? with
  | none => none
  | some items => if check st items = e.2 then some (if e.2 then applyW st e.1 items else st) else none

/-- the requests of `log` executed one at a time, in that order -/
def replay (reqs : List (List Item)) : (Nat → Nat) → List (Nat × Bool) → Option (Nat → Nat)
  | st, [] => some st
  | st, e :: es =>
    match seqStep reqs st e with
    | none => none
    | some st' => replay reqs st' es

theorem replay_snoc (reqs : List (List Item)) (st st' : Nat → Nat) (l : List (Nat × Bool)) (e : Nat × Bool)
    (h : replay reqs st l = some st') : replay reqs st (l ++ [e]) = seqStep reqs st' e := by
  induction l generalizing st with
  | nil =>
    simp [replay] at h
    subst h
    simp only [List.nil_append, replay]
    cases seqStep reqs st e <;> rfl
  | cons a l ih =>
    simp only [List.cons_append, replay] at h ⊢
    cases hs : seqStep reqs st a with
    | none => simp [hs] at h
    | some st1 =>
      simp only [hs] at h ⊢
      exact ih st1 h

theorem map_items_set {l : List Thread} {t : Nat} {th th' : Thread} (h : l[t]? = some th)
    (hi : th'.items = th.items) : (l.set t th').map (·.items) = l.map (·.items) := by
  induction l generalizing t with
  | nil => rfl
  | cons b l ih =>
    cases t with
    | zero =>
      simp at h
      subst h
      simp [hi]
    | succ t =>
      simp at h
      simp [ih h]

theorem beginUnlock_effect {s : Sys} {t : Nat} {th : Thread} (h : s.threads[t]? = some th) :
    (beginUnlock s t th).threads.map (·.items) = s.threads.map (·.items) ∧
    (beginUnlock s t th).log = s.log ∧ (beginUnlock s t th).store = s.store := by
  unfold beginUnlock
  split
  · exact ⟨map_items_set h rfl, rfl, rfl⟩
  · exact ⟨map_items_set h rfl, rfl, rfl⟩

/-- what a step does to the requests, the log and the store -/
theorem step_effect {s : Sys} {t : Nat} {th : Thread} (h : s.threads[t]? = some th) :
    (step s t).threads.map (·.items) = s.threads.map (·.items) ∧
    (((step s t).log = s.log ∧ (step s t).store = s.store) ∨
     ((step s t).log = s.log ++ [(t, false)] ∧ (step s t).store = s.store ∧ check s.store th.items = false) ∨
     ((step s t).log = s.log ++ [(t, true)] ∧ (step s t).store = applyW s.store t th.items ∧ th.pc = .checked true)) := by
  unfold step
  simp only [h]
  split
  · split
    · split
      · exact ⟨map_items_set h rfl, Or.inl ⟨rfl, rfl⟩⟩
      · exact ⟨map_items_set h rfl, Or.inl ⟨rfl, rfl⟩⟩
    · split
      · exact ⟨map_items_set h rfl, Or.inl ⟨rfl, rfl⟩⟩
      · rename_i hck
        exact ⟨map_items_set h rfl, Or.inr (Or.inl ⟨rfl, rfl, by simpa using hck⟩)⟩
  · rename_i hpc
    exact ⟨map_items_set h rfl, Or.inr (Or.inr ⟨rfl, rfl, hpc⟩)⟩
  · have := beginUnlock_effect h
    exact ⟨this.1, Or.inl this.2⟩
  · exact ⟨map_items_set h rfl, Or.inl ⟨rfl, rfl⟩⟩
  · have := beginUnlock_effect h
    exact ⟨this.1, Or.inl this.2⟩
  · have := beginUnlock_effect h
    exact ⟨this.1, Or.inl this.2⟩
  · exact ⟨rfl, Or.inl ⟨rfl, rfl⟩⟩

/-- the log replays to the current store -/
def Ser (store0 : Nat → Nat) (s : Sys) : Prop :=
  replay (s.threads.map (·.items)) store0 s.log = some s.store

theorem ser_step {store0 : Nat → Nat} {s : Sys} (hinv : Inv s) (hser : Ser store0 s) (t : Nat) :
    Ser store0 (step s t) := by
  cases h : s.threads[t]? with
  | none =>
    have : step s t = s := by
      unfold step
      simp [h]
    rw [this]; exact hser
  | some th =>
    obtain ⟨hmap, heff⟩ := step_effect h
    unfold Ser at *
    rw [hmap]
    have hreq : (s.threads.map (·.items))[t]? = some th.items := by
      rw [List.getElem?_map, h]; rfl
    rcases heff with ⟨hl, hst⟩ | ⟨hl, hst, hck⟩ | ⟨hl, hst, hpc⟩
    · rw [hl, hst]; exact hser
    · rw [hl, hst, replay_snoc _ _ _ _ _ hser]
      simp [seqStep, hreq, hck]
    · have hck := hinv.fresh th (List.mem_of_getElem? h) hpc
      rw [hl, hst, replay_snoc _ _ _ _ _ hser]
      simp [seqStep, hreq, hck]

theorem ser_run {store0 : Nat → Nat} {s : Sys} (hinv : Inv s) (hser : Ser store0 s) (sched : List Nat) :
    Ser store0 (run s sched) := by
  induction sched generalizing s with
  | nil => exact hser
  | cons t ts ih => exact ih (inv_step hinv t) (ser_step hinv hser t)

theorem init_items (store : Nat → Nat) (reqs : List (List Item)) :
    (init store reqs).threads.map (·.items) = reqs := by
  simp [init, List.map_map, Function.comp_def, newThread]

theorem run_items (s : Sys) (sched : List Nat) : (run s sched).threads.map (·.items) = s.threads.map (·.items) := by
  induction sched generalizing s with
  | nil => rfl
  | cons t ts ih =>
    rw [run_cons, ih]
    cases h : s.threads[t]? with
    | none =>
      have : step s t = s := by
        unfold step
        simp [h]
      rw [this]
    | some th => exact (step_effect h).1

/-- **serialisable** — for EVERY schedule: executing the logged requests ONE AT A TIME, in log order
(`cs.apply` order; a request whose `cs.check` failed at the place of its check), from the initial store,
gives every one of them the same verdict as in the concurrent run and ends in exactly the concurrent
run's store.  In particular every admitted request found all its keys at the versions it was built
against at the moment it was applied (no lost update, conflicting requests are never both admitted). -/
theorem serialisable (store : Nat → Nat) (reqs : List (List Item)) (hd : DistinctKeys reqs) (sched : List Nat) :
    replay reqs store (run (init store reqs) sched).log = some (run (init store reqs) sched).store := by
  have h0 : Ser store (init store reqs) := by
    unfold Ser
    simp [init, replay]
  have := ser_run (inv_init store reqs hd) h0 sched
  unfold Ser at this
  rw [run_items, init_items] at this
  exact this

/-! ## the verdicts are the log; a failed TryLock had a real conflict -/

/-- control state and result of a thread fit together -/
def pcres (th : Thread) : Prop :=
  match th.pc with
  | .locking => th.res = .running
  | .checked true => th.res = .running
  | .checked false => th.res = .stale
  | .applied => th.res = .running
  | .published => th.res = .admitted
  | .unlocking => True
  | .done => True

/-- the log holds `(t, true)` exactly for the requests that were applied (admitted once published) and
`(t, false)` exactly for the stale ones -/
def LogInv (s : Sys) : Prop :=
  ∀ (t : Nat) (th : Thread), s.threads[t]? = some th →
    pcres th ∧ ((t, true) ∈ s.log ↔ (th.pc = .applied ∨ th.res = .admitted)) ∧ ((t, false) ∈ s.log ↔ th.res = .stale)

theorem beginUnlock_self {s : Sys} {t : Nat} {th : Thread} (h : s.threads[t]? = some th) :
    ∃ th', (beginUnlock s t th).threads[t]? = some th' ∧ (beginUnlock s t th).log = s.log ∧ th'.res = th.res ∧
      (th'.pc = .unlocking ∨ th'.pc = .done) := by
  unfold beginUnlock
  split
  · exact ⟨_, getElem?_set_self_of_some h, rfl, rfl, Or.inr rfl⟩
  · exact ⟨_, getElem?_set_self_of_some h, rfl, rfl, Or.inl rfl⟩

theorem loginv_unlock {s : Sys} {t : Nat} {th : Thread} (hl : LogInv s) (h : s.threads[t]? = some th)
    (hpc : th.pc = .checked false ∨ th.pc = .published ∨ th.pc = .unlocking) (thu : Thread)
    (hu : (beginUnlock s t th).threads[t]? = some thu) :
    pcres thu ∧ ((t, true) ∈ (beginUnlock s t th).log ↔ (thu.pc = .applied ∨ thu.res = .admitted)) ∧
      ((t, false) ∈ (beginUnlock s t th).log ↔ thu.res = .stale) := by
  obtain ⟨th', h', hlog, hres, hpc'⟩ := beginUnlock_self h
  rw [hu] at h'
  cases h'
  obtain ⟨_, h1, h2⟩ := hl t th h
  rw [hlog, hres]
  refine ⟨?_, ?_, h2⟩
  · rcases hpc' with e | e <;> simp [pcres, e]
  · rw [h1]
    rcases hpc with e | e | e <;> rcases hpc' with e' | e' <;> simp [e, e']

theorem loginv_step {s : Sys} (hl : LogInv s) (t : Nat) : LogInv (step s t) := by
  intro u thu hu
  cases h : s.threads[t]? with
  | none =>
    have : step s t = s := by
      unfold step
      simp [h]
    rw [this] at hu ⊢
    exact hl u thu hu
  | some th =>
    by_cases hut : u = t
    · subst hut
      obtain ⟨hp, h1, h2⟩ := hl u th h
      unfold step at hu ⊢
      simp only [h] at hu ⊢
      split at hu
      · rename_i hpc
        simp only [pcres, hpc] at hp
        split at hu
        · split at hu
          · rw [getElem?_set_self_of_some h] at hu
            cases hu
            simp_all [pcres]
          · rw [show (s.setThread u _).threads[u]? = _ from getElem?_set_self_of_some h] at hu
            cases hu
            by_cases hs : th.succ.isEmpty = true <;> simp_all [pcres, Sys.setThread]
        · split at hu
          · rw [show (s.setThread u _).threads[u]? = _ from getElem?_set_self_of_some h] at hu
            cases hu
            simp_all [pcres, Sys.setThread]
          · rw [getElem?_set_self_of_some h] at hu
            cases hu
            simp_all [pcres]
      · rename_i hpc
        simp only [pcres, hpc] at hp
        rw [getElem?_set_self_of_some h] at hu
        cases hu
        simp_all [pcres]
      · rename_i hpc
        exact loginv_unlock hl h (Or.inl hpc) thu hu
      · rename_i hpc
        simp only [pcres, hpc] at hp
        rw [show (s.setThread u _).threads[u]? = _ from getElem?_set_self_of_some h] at hu
        cases hu
        simp_all [pcres, Sys.setThread]
      · rename_i hpc
        exact loginv_unlock hl h (Or.inr (Or.inl hpc)) thu hu
      · rename_i hpc
        exact loginv_unlock hl h (Or.inr (Or.inr hpc)) thu hu
      · exact hl u thu hu
    · rw [step_other s t u hut] at hu
      obtain ⟨hp, h1, h2⟩ := hl u thu hu
      have hne : ∀ b : Bool, ((u, b) : Nat × Bool) ≠ (t, b) := fun b hh => hut (by simpa using hh)
      obtain ⟨_, heff⟩ := step_effect h
      rcases heff with ⟨e, _⟩ | ⟨e, _⟩ | ⟨e, _⟩ <;> rw [e] <;> simp [hp, h1, h2, hut]

theorem loginv_init (store : Nat → Nat) (reqs : List (List Item)) : LogInv (init store reqs) := by
  intro t th h
  have hmem : th ∈ (init store reqs).threads := List.mem_of_getElem? h
  simp only [init, List.mem_map] at hmem
  obtain ⟨r, _, rfl⟩ := hmem
  simp [pcres, newThread, init]

theorem loginv_run {s : Sys} (hl : LogInv s) (sched : List Nat) : LogInv (run s sched) := by
  induction sched generalizing s with
  | nil => exact hl
  | cons u ts ih => exact ih (loginv_step hl u)

/-- **log_verdicts** — for every schedule: a request is in the serial log with verdict `true` exactly
when it has been applied (⇔ admitted, once published), with verdict `false` exactly when its result is
`stale`; a request whose TryLock failed is not in the log and has had no effect on the store. -/
theorem log_verdicts (store : Nat → Nat) (reqs : List (List Item)) (sched : List Nat) (t : Nat) (th : Thread)
    (h : (run (init store reqs) sched).threads[t]? = some th) :
    ((t, true) ∈ (run (init store reqs) sched).log ↔ (th.pc = .applied ∨ th.res = .admitted)) ∧
    ((t, false) ∈ (run (init store reqs) sched).log ↔ th.res = .stale) := by
  exact (loginv_run (loginv_init store reqs) sched t th h).2

/-- **lock_fail_has_conflict** (no spurious failure) — in every reachable state, when the next key of a
thread cannot be taken (TryLock is about to return false), ANOTHER thread holds that key and one of the
two wants it exclusively. -/
theorem lock_fail_has_conflict (store : Nat → Nat) (reqs : List (List Item)) (hd : DistinctKeys reqs) (sched : List Nat)
    (t : Nat) (th : Thread) (it : Item) (rest : List Item)
    (h : (run (init store reqs) sched).threads[t]? = some th) (ht : th.todo = it :: rest)
    (hfail : lockOne (run (init store reqs) sched).m (run (init store reqs) sched).rc it.key it.kind = none) :
    ∃ (u : Nat) (thu : Thread) (kd : Kind), u ≠ t ∧ (run (init store reqs) sched).threads[u]? = some thu ∧
      thu.holds it.key kd ∧ (kd = .X ∨ it.kind = .X) := by
  have hinv := inv_reachable store reqs hd sched
  generalize run (init store reqs) sched = s at hinv h hfail
  have hnot := (distinct_acquire (hinv.distinct th (List.mem_of_getElem? h)) ht).1
  have ki := hinv.key it.key
  have hfind : ∀ kd, 1 ≤ cnt s it.key kd → ∃ (u : Nat) (thu : Thread), u ≠ t ∧ s.threads[u]? = some thu ∧ thu.holds it.key kd := by
    intro kd hc
    obtain ⟨u, thu, hu, hpos⟩ := sumBy_pos (hold it.key kd) s.threads (by unfold cnt at hc; omega)
    have h1 : hold it.key kd thu = 1 := by
      have := hold_le_one it.key kd thu
      omega
    refine ⟨u, thu, ?_, hu, (hold_eq_one_iff _ _ _).mp h1⟩
    intro hut
    subst hut
    rw [h] at hu
    cases hu
    rw [not_holds_of_key_notin hnot] at h1
    cases h1
  unfold lockOne at hfail
  cases hm : s.m it.key with
  | none =>
    cases hk : it.kind <;> simp [hm, hk] at hfail
  | some kd' =>
    cases kd' with
    | X =>
      have := ki.excl hm
      obtain ⟨u, thu, hut, hu, hh⟩ := hfind .X (by omega)
      exact ⟨u, thu, .X, hut, hu, hh, Or.inl rfl⟩
    | S =>
      cases hk : it.kind with
      | S => simp [hm, hk] at hfail
      | X =>
        have := ki.shared hm
        obtain ⟨u, thu, hut, hu, hh⟩ := hfind .S (by omega)
        exact ⟨u, thu, .S, hut, hu, hh, Or.inr rfl⟩

/-! ## the real doTxSync follows the modelled protocol -/

/-- **doTxSync_follows_protocol** — the lock protocol of the real `State.doTxSync`, re-extracted from
state.go with go/ast on every run (`lean/XV/Gen/LockProto.lean`), is the one the model's thread programs
follow: TryLock on the extracted keys; a DEFERRED Unlock of exactly the keys TryLock reported as taken,
registered before the guard (so a failed TryLock releases what it took); `if !lockOK { return }` before
the first access to shared state; all under the read side of utxo.Mutex. -/
theorem doTxSync_follows_protocol :
    XV.Gen.LockProto.tryLocksExtracted = true ∧ XV.Gen.LockProto.unlockWhat = "succ" ∧
    XV.Gen.LockProto.unlockDeferred = true ∧ XV.Gen.LockProto.unlockOnFailPath = true ∧
    XV.Gen.LockProto.guardBeforeCritical = true ∧ XV.Gen.LockProto.underReadLock = true := by
  decide

/-! ## the code before the repair violates the statement -/

def Split.view (s : Split.Sys) : List (List Item × Bool) := s.threads.map (fun th => (th.items, th.inside))

/-- `mutex_inv` stated for the step system of the UNPATCHED spin_lock.go (LoadOrStore / Add and
Release / Delete as separate steps). -/
def mutex_inv_prefix_statement : Prop :=
  ∀ (store : Nat → Nat) (reqs : List (List Item)), DistinctKeys reqs → ∀ sched : List Nat,
    MutexHolds (Split.run (Split.init store reqs) sched).m (Split.view (Split.run (Split.init store reqs) sched))

/-- four requests on key 1: shared, shared, exclusive, exclusive -/
def cexReqs : List (List Item) := [[⟨1, .S, 0⟩], [⟨1, .S, 0⟩], [⟨1, .X, 0⟩], [⟨1, .X, 0⟩]]

/-- T0 takes S(1) and enters; T1's LoadOrStore sees the S entry; T0 leaves: Release → 0, Delete;
T1 Adds (count 1, no entry) and enters; T2 takes X(1) on the free key and enters; T1 leaves:
Release → 0, Delete removes T2's entry; T3 takes X(1) and enters while T2 is still inside. -/
def cexSched : List Nat := [0, 0, 0, 1, 0, 0, 0, 0, 1, 1, 2, 2, 1, 1, 1, 1, 3, 3]

theorem cexReqs_distinct : DistinctKeys cexReqs := by
  intro r hr
  simp [cexReqs] at hr
  rcases hr with rfl | rfl <;> simp

/-- **mutex_inv_prefix_counterexample** — on the faithful model of the unpatched code, the schedule
`cexSched` puts two EXCLUSIVE holders of key 1 (threads 2 and 3) inside their critical sections at once.
The same schedule was replayed through the yield hooks on the real unpatched `utxo.SpinLock`
(corpus/C12/prefix-two-exclusive.ops) and is what commit `fix: SpinLock takes and releases each key
atomically` repairs. -/
theorem mutex_inv_prefix_counterexample : ¬ mutex_inv_prefix_statement := by
  intro h
  have hm := (h (fun _ => 0) cexReqs cexReqs_distinct cexSched).1 2 3 [⟨1, .X, 0⟩] [⟨1, .X, 0⟩] ⟨1, .X, 0⟩ ⟨1, .X, 0⟩
    (by decide) (by decide) (by decide) (by simp) (by simp) rfl
  exact absurd hm.1 (by decide)

/-- already three threads break it: a SHARED holder (thread 1) and an EXCLUSIVE holder (thread 2) of key 1
are inside together, and thread 1's key has no entry in the table. -/
theorem mutex_inv_prefix_counterexample3 :
    ¬ MutexHolds (Split.run (Split.init (fun _ => 0) [[⟨1, .S, 0⟩], [⟨1, .S, 0⟩], [⟨1, .X, 0⟩]]) [0, 0, 0, 1, 0, 0, 0, 0, 1, 1, 2, 2]).m
        (Split.view (Split.run (Split.init (fun _ => 0) [[⟨1, .S, 0⟩], [⟨1, .S, 0⟩], [⟨1, .X, 0⟩]]) [0, 0, 0, 1, 0, 0, 0, 0, 1, 1, 2, 2])) := by
  intro h
  have hm := h.1 1 2 [⟨1, .S, 0⟩] [⟨1, .X, 0⟩] ⟨1, .S, 0⟩ ⟨1, .X, 0⟩
    (by decide) (by decide) (by decide) (by simp) (by simp) rfl
  exact absurd hm.2 (by decide)

/-! ## non-vacuity -/

/-- the hypotheses of `mutex_inv` are met by a non-trivial reachable state: two readers of key 1 are inside
their critical sections at the same time (reference count 2) while a writer's TryLock has failed -/
example :
    let s := run (init (fun _ => 0) [[⟨1, .S, 0⟩], [⟨1, .S, 0⟩, ⟨2, .X, 0⟩], [⟨1, .X, 0⟩]]) [0, 1, 1, 0, 1, 2]
    view s = [([⟨1, .S, 0⟩], true), ([⟨1, .S, 0⟩, ⟨2, .X, 0⟩], true), ([⟨1, .X, 0⟩], false)] ∧
    s.m 1 = some .S ∧ s.rc 1 = 2 ∧ s.m 2 = some .X ∧ s.threads.map (·.res) = [.running, .running, .lockFail] := by
  decide

/-- a complete run: the writer of key 1 and a request built against its write are both admitted in that
order, a request built against the old version is rejected as stale; everybody finishes, the table is
empty, the log is the serial order -/
example :
    let s := run (init (fun _ => 0) [[⟨1, .X, 0⟩], [⟨1, .S, 1⟩, ⟨2, .X, 0⟩], [⟨1, .X, 0⟩]])
      [0, 0, 0, 0, 0, 0, 1, 1, 1, 1, 1, 1, 1, 1, 2, 2, 2, 2]
    s.threads.map (·.pc) = [.done, .done, .done] ∧ s.threads.map (·.res) = [.admitted, .admitted, .stale] ∧
    s.log = [(0, true), (1, true), (2, false)] ∧ s.m 1 = none ∧ s.m 2 = none ∧ s.store 1 = 1 ∧ s.store 2 = 2 := by
  decide

/-- all-or-fail: thread 0 takes S(1), fails on key 2 (held exclusively by thread 1), releases key 1 again
and finishes without ever waiting; thread 1 is untouched -/
example :
    let s := run (init (fun _ => 0) [[⟨1, .S, 0⟩, ⟨2, .X, 0⟩], [⟨2, .X, 0⟩]]) [1, 0, 0, 0, 0]
    s.threads.map (·.res) = [.lockFail, .running] ∧ s.threads.map (·.pc) = [.done, .locking] ∧
    s.m 1 = none ∧ s.rc 1 = 0 ∧ s.m 2 = some .X := by
  decide

end XV.C12
