import XV.Lemmas.ChainFrame
import XV.Model.Ledger
/-!
C05 — failed operations leave no trace; a running node answers like a reopened one.

The L1 models (`XV.Chain`, `XV.Ledger`) have no volatile part: a state is exactly the persistent tables.
"Running == reopened" is therefore the *correspondence* between the implementation (with its caches) and
these models, checked on every run by the harness after every operation, after failing operations and on
copies of the data. The theorems below document what the single-batch design gives at table level: every
operation that reports failure returns the tables unchanged. `Walk` is a sequence of batches (pool
roll-back, one per undone block, one per applied block); its failing *step* changes nothing, the completed
steps before it stay (as the property states it: "a failed ... walk step").
-/
namespace XV.C05
open XV.Chain

theorem doTx_fail_noop (e : Env) (s : St) (lh : Int) (i : Nat) (h : (doTx e s lh i).2 ≠ .ok) :
    (doTx e s lh i).1 = s := by
  unfold doTx at h ⊢
  by_cases hp : i ∈ s.pool
  · simp [hp]
  · simp only [List.contains_eq_mem, hp, decide_false] at h ⊢
    cases hadm : admitTx s lh (e.tx i) <;> simp_all

theorem play_fail_noop (e : Env) (s : St) (lh : Int) (b : Block) (h : (play e s lh b).2 ≠ .ok) :
    (play e s lh b).1 = s := by
  unfold play at h ⊢
  by_cases h1 : b.pre ≠ some s.pointer
  · simp [h1]
  · simp only [h1] at h ⊢
    by_cases h2 : blockHasDupInput e b.txs = true
    · simp [h2]
    · simp only [h2] at h ⊢
      by_cases h3 : parentMissing e s.pool [] b.txs = true
      · simp [h3]
      · simp only [h3] at h ⊢
        by_cases h4 : staleMember e s.pool [] b.txs = true
        · simp [h4]
        · simp only [h4] at h ⊢
          revert h
          generalize applyBlockTxs e lh b.prop _ b.txs _ = res
          rcases res with _ | ⟨s2, r⟩
          · simp
          · cases r <;> simp

theorem playForMiner_fail_noop (e : Env) (s : St) (lh : Int) (b : Block) (h : (playForMiner e s lh b).2 ≠ .ok) :
    (playForMiner e s lh b).1 = s := by
  unfold playForMiner at h ⊢
  by_cases h1 : b.pre ≠ some s.pointer
  · simp [h1]
  · simp only [h1] at h ⊢
    revert h
    generalize playForMiner.go e lh b b.txs s = res
    rcases res with _ | s2 <;> simp

/-- a walk step that cannot apply its block returns no new state at all (the block batch is never written) -/
theorem todoBlock_all_or_nothing (e : Env) (s : St) (lh : Int) (b : Block) :
    todoBlock e s lh b = none ∨ ∃ s', todoBlock e s lh b = some s' ∧ s'.pointer = b.id := by
  unfold todoBlock
  split
  · left; rfl
  · split
    · right; exact ⟨_, rfl, rfl⟩
    · left; rfl

/-- the undo loop of a walk stops *before* the refused block: what it returns on refusal is the state after the
blocks already undone, never a half-undone block -/
theorem undo_refusal_is_block_boundary (e : Env) (prune : Bool) (l : List Nat) (s : St)
    (h : (walk.undoAll e prune l s).2 = false) :
    ∃ pre rest, l = pre ++ rest ∧ rest ≠ [] ∧
      (walk.undoAll e prune l s).1 = pre.foldl (fun st bi => undoBlock e st (e.block bi) prune) s := by
  induction l generalizing s with
  | nil => simp [walk.undoAll] at h
  | cons bi rest ih =>
    unfold walk.undoAll at h ⊢
    simp only at h ⊢
    split
    · exact ⟨[], bi :: rest, by simp, by simp, rfl⟩
    · rename_i hc
      simp only [hc] at h
      obtain ⟨pre, r2, hl, hne, hs⟩ := ih _ (by simpa using h)
      exact ⟨bi :: pre, r2, by simp [hl], hne, by simpa using hs⟩

open XV.Ledger in
theorem confirm_fail_noop (l : L) (id pre : Nat) (txs : List (Nat × Bool))
    (h : (confirm l id pre txs).2 = .fail) : (confirm l id pre txs).1 = l := by
  unfold confirm at h ⊢
  by_cases h1 : (lookup l.B id).isSome = true
  · simp [h1]
  · simp only [h1] at h ⊢
    cases hp : lookup l.B pre with
    | none => simp
    | some pb =>
      simp only [hp] at h ⊢
      by_cases h2 : pre = l.tip
      · simp only [h2, ↓reduceIte] at h ⊢
        revert h
        generalize confirmTxs l id true l.trunkHeight txs 0 _ = res
        rcases res with _ | l4 <;> simp
      · simp only [h2, ↓reduceIte] at h ⊢
        by_cases h3 : pb.height + 1 > l.trunkHeight
        · simp only [h3, ↓reduceIte] at h ⊢
          revert h
          generalize handleFork l (l.trunkHeight + 2) l.tip pre (some id) l = hf
          rcases hf with _ | ⟨l1, sh⟩
          · simp
          · simp only
            generalize confirmTxs l id true sh txs 0 _ = res
            rcases res with _ | l4 <;> simp
        · simp only [h3, ↓reduceIte] at h ⊢
          revert h
          generalize confirmTxs l id false l.trunkHeight txs 0 _ = res
          rcases res with _ | l4 <;> simp

open XV.Ledger in
theorem truncate_fail_noop (l : L) (target : Nat) (h : (truncate l target).2 = false) :
    (truncate l target).1 = l := by
  unfold truncate at h ⊢
  cases ht : lookup l.B target with
  | none => simp
  | some th => simp [ht] at h

-- non-vacuity: a refused transaction (unknown output) on a concrete state
example : (doTx { txs := [(1, ⟨1, false, [⟨9, 0, "u0", 5, 0, false⟩], [⟨"u1", 5, 0⟩], [], []⟩)] } {} 0 1).2 = .utxo := by decide

end XV.C05
