import XV.Model.Safety
/-!
C14 — quorum certificates need a quorum of distinct, valid validator signatures.
Property theorems only (helper lemmas are `private`/in this namespace but never
weaken a property statement).
-/
namespace XV.C14
open XV.Safety

/-- The regenerated threshold function decides `k + 1 ≥ n - ⌊(n-1)/3⌋` for every
non-empty validator set (the special-cased f = 0 branch included). -/
theorem threshold_value (k n : Nat) (hn : 1 ≤ n) :
    XV.Gen.calVotesThreshold (k : Int) (n : Int) = true ↔ n - (n - 1) / 3 ≤ k + 1 := by
  unfold XV.Gen.calVotesThreshold
  have h0 : (0 : Int) ≤ (n : Int) - 1 := by omega
  simp only [Int.tdiv_eq_ediv_of_nonneg h0]
  by_cases hf : ((n : Int) - 1) / 3 = 0
  · simp [hf]; omega
  · have : ¬ (((n : Int) - 1) / 3 < 0) := by omega
    simp [hf, this]; omega

private theorem countLoop_inv (vals : List Nat) (es : List Entry) (seen out : List Nat)
    (hnd : seen.Nodup) (h : countLoop vals es seen = some out) :
    out.Nodup ∧ ∀ a ∈ out, a ∈ seen ∨ (vals.contains a = true ∧ ∃ e ∈ es, e.addr = a ∧ e.valid = true) := by
  induction es generalizing seen with
  | nil =>
    simp [countLoop] at h; subst h
    exact ⟨hnd, fun a ha => Or.inl ha⟩
  | cons e es ih =>
    unfold countLoop at h
    split at h
    · obtain ⟨h1, h2⟩ := ih seen hnd h
      refine ⟨h1, fun a ha => ?_⟩
      rcases h2 a ha with h | ⟨hv, e', he', hx⟩
      · exact Or.inl h
      · exact Or.inr ⟨hv, e', List.mem_cons_of_mem _ he', hx⟩
    · split at h
      · exact absurd h (by simp)
      · split at h
        · obtain ⟨h1, h2⟩ := ih seen hnd h
          refine ⟨h1, fun a ha => ?_⟩
          rcases h2 a ha with h | ⟨hv, e', he', hx⟩
          · exact Or.inl h
          · exact Or.inr ⟨hv, e', List.mem_cons_of_mem _ he', hx⟩
        · rename_i hmem hval hseen
          have hnd' : (e.addr :: seen).Nodup := by
            refine List.nodup_cons.mpr ⟨?_, hnd⟩
            simpa using hseen
          obtain ⟨h1, h2⟩ := ih (e.addr :: seen) hnd' h
          refine ⟨h1, fun a ha => ?_⟩
          rcases h2 a ha with h | ⟨hv, e', he', hx⟩
          · rcases List.mem_cons.mp h with h | h
            · subst h
              refine Or.inr ⟨by simpa using hmem, e, List.mem_cons_self, rfl, by simpa using hval⟩
            · exact Or.inl h
          · exact Or.inr ⟨hv, e', List.mem_cons_of_mem _ he', hx⟩

/-- What the certificate check counts is bounded by the number of *distinct
members with a valid signature over the certified id*: repeated entries,
non-members, invalid signatures and signatures over another id never add to it. -/
theorem counted_le_validMembers (vals : List Nat) (es : List Entry) (out : List Nat)
    (h : countLoop vals es [] = some out) : out.length ≤ (validMembers vals es).length := by
  obtain ⟨hnd, hsub⟩ := countLoop_inv vals es [] out (List.nodup_nil) h
  apply List.Nodup.length_le_of_subset hnd
  intro a ha
  rcases hsub a ha with h | ⟨hv, e, he, hx, hval⟩
  · simp at h
  · unfold validMembers
    rw [List.mem_eraseDups]
    simp only [List.mem_map, List.mem_filter]
    have hv' : a ∈ vals := by simpa using hv
    exact ⟨e, ⟨he, by simp [hx, hv', hval]⟩, hx⟩

/-- Acceptance implies a quorum of distinct valid members (collector included in
the count — the code cannot tell who the collector is; see
`qc_needs_quorum_statement` for the property at full strength). -/
theorem qc_needs_quorum_partial (vals : List Nat) (es : List Entry) (hn : 1 ≤ vals.length)
    (h : checkProposal vals es = .accept) :
    vals.length - (vals.length - 1) / 3 ≤ (validMembers vals es).length + 1 := by
  unfold checkProposal at h
  split at h
  · exact absurd h (by simp)
  · rename_i seen hseen
    split at h
    · rename_i hthr
      have := (threshold_value seen.length vals.length hn).mp hthr
      have := counted_le_validMembers vals es seen hseen
      omega
    · exact absurd h (by simp)

/-- Full-strength statement of the property: the quorum must be reached by
members *other than the collector*. -/
def qc_needs_quorum_statement : Prop :=
  ∀ (collector : Nat) (vals : List Nat) (es : List Entry), 1 ≤ vals.length → collector ∈ vals →
    checkProposal vals es = .accept →
    quorum vals.length ≤ (validMembersBut collector vals es).length

/-- The full statement is false of the faithful model (and of the code: known
finding `collector-counted`): n = 4, collector 0 certifies with its own
signature plus one other member's. -/
theorem qc_needs_quorum_counterexample : ¬ qc_needs_quorum_statement := by
  intro h
  have := h 0 [0, 1, 2, 3] [⟨0, true⟩, ⟨1, true⟩] (by decide) (by decide) (by decide)
  revert this
  decide

/-- With the collector's own entry absent (what an honest collector sends: it
ignores its own vote, smr.go) the full quorum of *other* members is implied. -/
theorem qc_needs_quorum_no_collector_entry (collector : Nat) (vals : List Nat) (es : List Entry)
    (hn : 1 ≤ vals.length) (hc : ∀ e ∈ es, e.addr ≠ collector)
    (h : checkProposal vals es = .accept) :
    quorum vals.length ≤ (validMembersBut collector vals es).length := by
  have h1 := qc_needs_quorum_partial vals es hn h
  have : validMembersBut collector vals es = validMembers vals es := by
    unfold validMembersBut
    apply List.filter_eq_self.mpr
    intro a ha
    unfold validMembers at ha
    rw [List.mem_eraseDups] at ha
    simp only [List.mem_map, List.mem_filter] at ha
    obtain ⟨e, ⟨he, _⟩, hx⟩ := ha
    have := hc e he
    simp [← hx, this]
  rw [this]; unfold quorum; omega

/-- Junk never helps: adding non-member entries does not change the verdict. -/
theorem nonmember_irrelevant (vals : List Nat) (es₁ es₂ : List Entry) (x : Entry)
    (hx : vals.contains x.addr = false) :
    checkProposal vals (es₁ ++ x :: es₂) = checkProposal vals (es₁ ++ es₂) := by
  have hx' : x.addr ∉ vals := by simpa using hx
  have key : ∀ seen, countLoop vals (es₁ ++ x :: es₂) seen = countLoop vals (es₁ ++ es₂) seen := by
    induction es₁ with
    | nil => intro seen; simp [countLoop, hx']
    | cons e es ih =>
      intro seen
      simp only [List.cons_append]
      unfold countLoop
      simp only [ih]
  unfold checkProposal
  rw [key]

/-- A repeated entry of an already counted member does not change the verdict. -/
theorem repeat_irrelevant (vals : List Nat) (e : Entry) (es : List Entry) :
    checkProposal vals (e :: e :: es) = checkProposal vals (e :: es) := by
  unfold checkProposal
  have : countLoop vals (e :: e :: es) [] = countLoop vals (e :: es) [] := by
    by_cases hm : e.addr ∈ vals
    · by_cases hv : e.valid = true
      · simp [countLoop, hm, hv]
      · simp [countLoop, hm, hv]
    · simp [countLoop, hm]
  rw [this]

/-- An invalid signature claiming a member's address never yields acceptance. -/
theorem invalid_member_sig_rejects (vals : List Nat) (es₁ es₂ : List Entry) (x : Entry)
    (hm : vals.contains x.addr = true) (hv : x.valid = false) :
    checkProposal vals (es₁ ++ x :: es₂) ≠ .accept := by
  have hm' : x.addr ∈ vals := by simpa using hm
  have key : ∀ seen, countLoop vals (es₁ ++ x :: es₂) seen = none := by
    induction es₁ with
    | nil => intro seen; simp [countLoop, hm', hv]
    | cons e es ih =>
      intro seen
      simp only [List.cons_append]
      unfold countLoop
      simp only [ih]
      split <;> (try split) <;> (try split) <;> rfl
  unfold checkProposal
  rw [key]; simp

-- non-vacuity: a concrete accepted certificate meeting the hypotheses (n = 4, three distinct members)
example : checkProposal [0, 1, 2, 3] [⟨1, true⟩, ⟨2, true⟩, ⟨9, true⟩, ⟨2, true⟩] = .accept ∧
    (∀ e ∈ [(⟨1, true⟩ : Entry), ⟨2, true⟩, ⟨9, true⟩, ⟨2, true⟩], e.addr ≠ 0) := by decide
-- and a rejected one: the repeated signature does not reach the quorum of 4 - 1 - 1 = 2 others
example : checkProposal [0, 1, 2, 3] [⟨2, true⟩, ⟨2, true⟩, ⟨2, true⟩] = .notEnough := by decide

end XV.C14
