import XV.Model.Acl
import XV.Model.AclTx
import XV.Lemmas.Acl
import XV.Lemmas.AclTx
/-!
# C11 — access-control evaluation is sound, monotone and counts each signer once

Theorems about `XV.Acl`, the model of `IdentifyAccount` / `CheckContractMethodPerm` /
`verifyRWSetPermission` after the repair of the non-terminal-key defect (helper lemmas: `XV/Lemmas/Acl.lean`).

Hypotheses used: `EnvWF env` — the member names of every threshold rule are pairwise distinct (`AksWeight` is a
Go map); `EnvNonNeg env` — all weights are non-negative (only for monotonicity).  `d` is any bound on the
nesting depth with `maxLen us ≤ d` (the real code has no bound; `nodeStatus_fuel` shows the bound is immaterial).
-/
namespace XV.C11
open XV.Acl

/-! ## C11, first sentence: the evaluation accepts exactly when the rule is satisfied by the verified signers -/

/-- `IdentifyAccount` accepts iff the account's rule is satisfied (`Sat`: the weights of the members that
are verified reach the threshold, or some listed non-empty key set consists of verified names) by the
names verified at the top level of the URIs that start with the account — for every rule environment,
every URI list and every sufficient nesting bound. -/
theorem eval_eq_spec (env : Env) (hwf : EnvWF env) (root : Name) (us : List URI) (d : Nat) (hd : maxLen us ≤ d) :
    identifyAccount env root us = true ↔ SpecAccount env d root us := by
  rw [identifyAccount_eq_D env root us d hd]
  exact identifyAccountD_iff_spec env hwf d root us

/-- the same for a contract-method rule (`CheckContractMethodPerm`) -/
theorem eval_eq_spec_method (env : Env) (hwf : EnvWF env) (rule : Option Rule) (hr : RuleWF rule)
    (us : List URI) (d : Nat) (hd : maxLen us ≤ d) :
    checkMethodPerm env rule us = true ↔ SpecMethod env d rule us := by
  rw [checkMethodPerm_eq_D env rule us d hd]
  exact checkMethodPermD_iff_spec env hwf d rule hr us

/-- the nesting bound of the specification is immaterial once it covers the longest URI -/
theorem spec_bound_irrelevant (env : Env) (hwf : EnvWF env) (root : Name) (us : List URI) (d d' : Nat)
    (h : maxLen us ≤ d) (h' : maxLen us ≤ d') : SpecAccount env d root us ↔ SpecAccount env d' root us := by
  rw [← eval_eq_spec env hwf root us d h, ← eval_eq_spec env hwf root us d' h']

/-- The headline statement for a plain threshold rule over keys: the account accepts exactly when the
weights of the listed keys `m` for which a URI `account/m` was presented (i.e. `m` signed) reach the
threshold — each member once, whatever else is in the URI list. -/
theorem eval_flat_threshold (env : Env) (hwf : EnvWF env) (a : Nat) (ms : List (Name × Int)) (theta : Int)
    (h : env (.acct a) = some (.thr ms theta)) (hk : ∀ m ∈ ms.map Prod.fst, ∃ k, m = .key k) (us : List URI) :
    identifyAccount env (.acct a) us = true ↔
      theta ≤ memberSum ms (fun m => decide ([Name.acct a, m] ∈ us)) := by
  rw [eval_eq_spec env hwf _ us _ (Nat.le_refl _)]
  simp only [SpecAccount, h, Sat]
  rw [memberSum_congr ms _ (fun m => decide ([Name.acct a, m] ∈ us))]
  intro m hm
  obtain ⟨k, rfl⟩ := hk m hm
  rw [verified_key]
  simp [mem_belowRoot]

/-- The headline statement for a key-set rule over keys: the account accepts exactly when some listed
non-empty set has all its keys among the signers presented as `account/key`. -/
theorem eval_flat_sets (env : Env) (hwf : EnvWF env) (a : Nat) (ss : List (List Name))
    (h : env (.acct a) = some (.sets ss)) (hk : ∀ set ∈ ss, ∀ m ∈ set, ∃ k, m = .key k) (us : List URI) :
    identifyAccount env (.acct a) us = true ↔
      ∃ set ∈ ss, set ≠ [] ∧ ∀ m ∈ set, [Name.acct a, m] ∈ us := by
  rw [eval_eq_spec env hwf _ us _ (Nat.le_refl _)]
  simp only [SpecAccount, h, Sat]
  constructor
  · rintro ⟨set, h1, h2, h3⟩
    refine ⟨set, h1, h2, fun m hm => ?_⟩
    obtain ⟨k, rfl⟩ := hk set h1 m hm
    have := h3 _ hm
    rw [verified_key] at this
    simpa [mem_belowRoot] using this
  · rintro ⟨set, h1, h2, h3⟩
    refine ⟨set, h1, h2, fun m hm => ?_⟩
    obtain ⟨k, rfl⟩ := hk set h1 m hm
    rw [verified_key]
    simpa [mem_belowRoot] using h3 _ hm

/-! ## C11: monotone, each signer once, outsiders and unverified names contribute nothing -/

/-- Adding signer URIs never turns acceptance into rejection when all weights are non-negative. -/
theorem eval_monotone (env : Env) (hwf : EnvWF env) (hnn : EnvNonNeg env) (root : Name) (us us' : List URI)
    (hsub : ∀ u, u ∈ us → u ∈ us') :
    identifyAccount env root us = true → identifyAccount env root us' = true := by
  have h1 := maxLen_le_max_left (maxLen us) (maxLen us')
  have h2 := maxLen_le_max_right (maxLen us) (maxLen us')
  rw [eval_eq_spec env hwf root us _ h1, eval_eq_spec env hwf root us' _ h2]
  cases root with
  | key k => simp [SpecAccount]
  | acct a =>
    simp only [SpecAccount]
    exact Sat_mono _ (hnn _) _ _ (verified_mono env hnn _ _ _ (belowRoot_subset _ us us' hsub))

theorem eval_monotone_method (env : Env) (hwf : EnvWF env) (hnn : EnvNonNeg env) (rule : Option Rule)
    (hr : RuleWF rule) (hrn : NonNeg rule) (us us' : List URI) (hsub : ∀ u, u ∈ us → u ∈ us') :
    checkMethodPerm env rule us = true → checkMethodPerm env rule us' = true := by
  have h1 := maxLen_le_max_left (maxLen us) (maxLen us')
  have h2 := maxLen_le_max_right (maxLen us) (maxLen us')
  rw [eval_eq_spec_method env hwf rule hr us _ h1, eval_eq_spec_method env hwf rule hr us' _ h2]
  exact Sat_mono _ hrn _ _ (verified_mono env hnn _ _ _ hsub)

/-- The evaluation depends only on the set of signer URIs: repeated entries and order are irrelevant
(multiset → set). -/
theorem dup_irrelevant (env : Env) (hwf : EnvWF env) (root : Name) (us us' : List URI)
    (hset : ∀ u, u ∈ us ↔ u ∈ us') : identifyAccount env root us = identifyAccount env root us' := by
  have h1 := maxLen_le_max_left (maxLen us) (maxLen us')
  have h2 := maxLen_le_max_right (maxLen us) (maxLen us')
  rw [Bool.eq_iff_iff, eval_eq_spec env hwf root us _ h1, eval_eq_spec env hwf root us' _ h2]
  cases root with
  | key k => simp [SpecAccount]
  | acct a =>
    simp only [SpecAccount]
    have : ∀ t, t ∈ belowRoot (.acct a) us ↔ t ∈ belowRoot (.acct a) us' := by
      intro t; rw [mem_belowRoot, mem_belowRoot, hset]
    rw [verified_congr env _ _ _ this]

theorem dup_irrelevant_method (env : Env) (hwf : EnvWF env) (rule : Option Rule) (hr : RuleWF rule)
    (us us' : List URI) (hset : ∀ u, u ∈ us ↔ u ∈ us') :
    checkMethodPerm env rule us = checkMethodPerm env rule us' := by
  have h1 := maxLen_le_max_left (maxLen us) (maxLen us')
  have h2 := maxLen_le_max_right (maxLen us) (maxLen us')
  rw [Bool.eq_iff_iff, eval_eq_spec_method env hwf rule hr us _ h1, eval_eq_spec_method env hwf rule hr us' _ h2]
  simp only [SpecMethod]
  rw [verified_congr env _ _ _ hset]

/-- a signer presented twice counts once -/
theorem repeated_uri_irrelevant (env : Env) (hwf : EnvWF env) (root : Name) (u : URI) (us : List URI)
    (hu : u ∈ us) : identifyAccount env root (u :: us) = identifyAccount env root us := by
  apply dup_irrelevant env hwf
  intro v
  simp only [List.mem_cons]
  constructor
  · rintro (e | e)
    · exact e ▸ hu
    · exact e
  · exact Or.inr

/-- Signers of other accounts contribute nothing: URIs that do not start with the account (or have a
single component) can be added or removed freely. -/
theorem outsiders_irrelevant (env : Env) (hwf : EnvWF env) (root : Name) (us others : List URI)
    (ho : ∀ u ∈ others, u.head? ≠ some root ∨ u.length < 2) :
    identifyAccount env root (us ++ others) = identifyAccount env root us := by
  have h1 := maxLen_le_max_left (maxLen (us ++ others)) (maxLen us)
  have h2 := maxLen_le_max_right (maxLen (us ++ others)) (maxLen us)
  rw [Bool.eq_iff_iff, eval_eq_spec env hwf root _ _ h1, eval_eq_spec env hwf root us _ h2]
  cases root with
  | key k => simp [SpecAccount]
  | acct a =>
    simp only [SpecAccount]
    have : ∀ t, t ∈ belowRoot (.acct a) (us ++ others) ↔ t ∈ belowRoot (.acct a) us := by
      intro t
      rw [mem_belowRoot, mem_belowRoot, List.mem_append]
      constructor
      · rintro ⟨hne, h | h⟩
        · exact ⟨hne, h⟩
        · exfalso
          rcases ho _ h with h' | h'
          · simp at h'
          · cases t with
            | nil => exact hne rfl
            | cons _ _ => simp at h'; omega
      · rintro ⟨hne, h⟩
        exact ⟨hne, Or.inl h⟩
    rw [verified_congr env _ _ _ this]

/-- A signer that the account's rule does not mention contributes nothing, whatever it is and whatever
hangs below it. -/
theorem nonmember_irrelevant (env : Env) (hwf : EnvWF env) (a : Nat) (x : Name) (rest : URI) (us : List URI)
    (hx : x ∉ membersOf (env (.acct a))) :
    identifyAccount env (.acct a) ((.acct a :: x :: rest) :: us) = identifyAccount env (.acct a) us := by
  have h1 := maxLen_le_max_left (maxLen ((Name.acct a :: x :: rest) :: us)) (maxLen us)
  have h2 := maxLen_le_max_right (maxLen ((Name.acct a :: x :: rest) :: us)) (maxLen us)
  rw [Bool.eq_iff_iff, eval_eq_spec env hwf _ _ _ h1, eval_eq_spec env hwf _ us _ h2]
  simp only [SpecAccount]
  apply Sat_congr
  intro m hm
  have hmx : m ≠ x := fun e => hx (e ▸ hm)
  have hb : belowRoot (.acct a) ((Name.acct a :: x :: rest) :: us) = (x :: rest) :: belowRoot (.acct a) us := by
    simp [belowRoot]
  rw [hb]
  generalize belowRoot (Name.acct a) us = ps
  generalize max (maxLen ((Name.acct a :: x :: rest) :: us)) (maxLen us) = d
  have hxm : ¬ x = m := fun e => hmx e.symm
  cases d with
  | zero =>
    cases m with
    | key k =>
      simp only [verified, List.mem_cons]
      have : ¬ ([Name.key k] = x :: rest) := by
        intro e; injection e with e1 _; exact hmx e1
      simp [this]
    | acct b => simp [verified]
  | succ d =>
    cases m with
    | key k =>
      simp only [verified, List.mem_cons]
      have : ¬ ([Name.key k] = x :: rest) := by
        intro e; injection e with e1 _; exact hmx e1
      simp [this]
    | acct b =>
      have : under (.acct b) ((x :: rest) :: ps) = under (.acct b) ps := by
        simp [under, hxm]
      simp only [verified, this]

/-- Unverified names contribute nothing: a URI in which a KEY stands before the last component (only the
last component was checked against a signature) can be added or removed freely.  This is the statement
the code violated before the repair (`v0_counts_nonterminal_key`). -/
theorem nonterminal_key_irrelevant (env : Env) (hwf : EnvWF env) (root : Name) (k : Nat) (y : Name) (rest : URI)
    (us : List URI) :
    identifyAccount env root ((root :: .key k :: y :: rest) :: us) = identifyAccount env root us := by
  have h1 := maxLen_le_max_left (maxLen ((root :: .key k :: y :: rest) :: us)) (maxLen us)
  have h2 := maxLen_le_max_right (maxLen ((root :: .key k :: y :: rest) :: us)) (maxLen us)
  rw [Bool.eq_iff_iff, eval_eq_spec env hwf _ _ _ h1, eval_eq_spec env hwf _ us _ h2]
  cases root with
  | key r => simp [SpecAccount]
  | acct a =>
    simp only [SpecAccount]
    have hb : belowRoot (.acct a) ((Name.acct a :: .key k :: y :: rest) :: us)
        = (.key k :: y :: rest) :: belowRoot (.acct a) us := by
      simp [belowRoot]
    rw [hb]
    generalize belowRoot (Name.acct a) us = ps
    generalize max (maxLen ((Name.acct a :: .key k :: y :: rest) :: us)) (maxLen us) = d
    have : verified env d ((.key k :: y :: rest) :: ps) = verified env d ps := by
      funext m
      cases d with
      | zero =>
        cases m with
        | key j => simp [verified]
        | acct b => simp [verified]
      | succ d =>
        cases m with
        | key j => simp [verified]
        | acct b =>
          have : under (.acct b) ((.key k :: y :: rest) :: ps) = under (.acct b) ps := by
            simp [under]
          simp only [verified, this]
    rw [this]

/-! ## C11, last sentence: changing a rule needs the owner's rule currently in force -/

/-- A transaction (with contract requests) that writes the ACL of account `A`, a method ACL of contract
`c`, or the owner entry of a contract passes `verifyRWSetPermission` only if the rule of the owning account
that is in force at the confirmed tip is satisfied (`Sat`) by the verified signers of its AuthRequire.
`ver` is `verifiedID`: names already identified with the same AuthRequire. -/
theorem acl_change_needs_owner (ch : Chain) (hwf : EnvWF ch.env) (auth : List URI) (ws : List Write)
    (ver : List Name) (hver : ∀ a ∈ ver, identifyAccount ch.env a auth = true)
    (hacc : verifyRWSetPermission ch true auth ws ver = true) :
    (∀ a, Write.account a ∈ ws → SpecAccount ch.env (maxLen auth) a auth) ∧
    (∀ c, Write.method c ∈ ws → ∃ o, ch.owner c = some o ∧ SpecAccount ch.env (maxLen auth) o auth) ∧
    (∀ a, Write.c2a (some a) ∈ ws → SpecAccount ch.env (maxLen auth) a auth) ∧
    Write.methodBadKey ∉ ws ∧ Write.c2a none ∉ ws := by
  have hs := verifyWrites_sound ch auth ws ver hver (by simpa [verifyRWSetPermission] using hacc)
  refine ⟨?_, ?_, ?_, ?_, ?_⟩
  · intro a ha
    exact (eval_eq_spec ch.env hwf a auth _ (Nat.le_refl _)).1 (hs _ ha)
  · intro c hc
    obtain ⟨o, ho, hid⟩ := hs _ hc
    exact ⟨o, ho, (eval_eq_spec ch.env hwf o auth _ (Nat.le_refl _)).1 hid⟩
  · intro a ha
    exact (eval_eq_spec ch.env hwf a auth _ (Nat.le_refl _)).1 (hs _ ha)
  · intro h; exact hs _ h
  · intro h; exact hs _ h

/-! ## the defect that was repaired, and non-vacuity -/

/-- rule of account 0: key 0 alone reaches the threshold (weight 1 = 4/4, threshold 1) -/
def envVictim : Env := fun n => if n = .acct 0 then some (.thr [(.key 0, 4)] 4) else none

/-- the code BEFORE the repair accepted `acc/VictimAK/AttackerAK` although only AttackerAK (the last
component) was verified and the rule lists only VictimAK -/
theorem v0_counts_nonterminal_key :
    identifyAccountV0 envVictim (.acct 0) [[.acct 0, .key 0, .key 1]] = true := by decide

/-- ... which the specification does not allow ... -/
theorem v0_violates_spec : ¬ SpecAccount envVictim 3 (.acct 0) [[.acct 0, .key 0, .key 1]] := by decide

/-- ... and the repaired code rejects, while the victim's own signature is still accepted -/
theorem repaired_rejects_nonterminal_key :
    identifyAccount envVictim (.acct 0) [[.acct 0, .key 0, .key 1]] = false ∧
    identifyAccount envVictim (.acct 0) [[.acct 0, .key 0]] = true ∧
    identifyAccount envVictim (.acct 0) [[.acct 0, .key 0, .key 1], [.acct 0, .key 0]] = true := by decide

/-- account 0: threshold 1 with key 0 ↦ 1/2, nested account 1 ↦ 1/2; account 1: key sets {1,2} or {0} -/
def envNested : Env := fun n =>
  if n = .acct 0 then some (.thr [(.key 0, 2), (.acct 1, 2)] 4)
  else if n = .acct 1 then some (.sets [[.key 1, .key 2], [.key 0]])
  else none

theorem envNested_wf : EnvWF envNested := by
  intro n ms theta h
  unfold envNested at h
  split at h
  · injection h with h; injection h with h1 _; subst h1; decide
  · split at h
    · injection h with h; injection h
    · exact absurd h (by simp)

theorem envNested_nonneg : EnvNonNeg envNested := by
  intro n ms theta h
  unfold envNested at h
  split at h
  · injection h with h; injection h with h1 _; subst h1; decide
  · split at h
    · injection h with h; injection h
    · exact absurd h (by simp)

/-- the hypotheses of the theorems are satisfiable by a non-trivial nested configuration, on which the
evaluation both accepts and rejects -/
example : EnvWF envNested ∧ EnvNonNeg envNested ∧
    identifyAccount envNested (.acct 0) [[.acct 0, .key 0], [.acct 0, .acct 1, .key 1], [.acct 0, .acct 1, .key 2]] = true ∧
    identifyAccount envNested (.acct 0) [[.acct 0, .key 0], [.acct 0, .acct 1, .key 1]] = false ∧
    identifyAccount envNested (.acct 0) [[.acct 0, .key 0], [.acct 1, .key 0]] = false :=
  ⟨envNested_wf, envNested_nonneg, by decide, by decide, by decide⟩

/-- key 1 carries a negative weight -/
def envNeg : Env := fun n => if n = .acct 0 then some (.thr [(.key 0, 4), (.key 1, -4)] 4) else none

/-- monotonicity needs the non-negativity hypothesis: with a negative weight an extra signer revokes -/
theorem eval_monotone_needs_nonneg :
    ∃ (env : Env) (us us' : List URI), EnvWF env ∧ (∀ u, u ∈ us → u ∈ us') ∧
      identifyAccount env (.acct 0) us = true ∧ identifyAccount env (.acct 0) us' = false := by
  refine ⟨envNeg,
    [[.acct 0, .key 0]], [[.acct 0, .key 0], [.acct 0, .key 1]], ?_, ?_, by decide, by decide⟩
  · intro n ms theta h
    unfold envNeg at h
    split at h
    · injection h with h; injection h with h1 _; subst h1; decide
    · exact absurd h (by simp)
  · intro u hu
    simp at hu
    simp [hu]

/-- `acl_change_needs_owner` is not vacuous: a transaction signed by key 0 may rewrite account 0's ACL and
a method ACL of contract 7 (owned by account 0); one signed by key 1 may not -/
example :
    verifyRWSetPermission ⟨envVictim, fun c => if c = 7 then some (.acct 0) else none⟩ true
      [[.acct 0, .key 0]] [.account (.acct 0), .method 7, .other] [] = true ∧
    verifyRWSetPermission ⟨envVictim, fun c => if c = 7 then some (.acct 0) else none⟩ true
      [[.acct 0, .key 1]] [.other, .method 7] [] = false ∧
    verifyRWSetPermission ⟨envVictim, fun c => if c = 7 then some (.acct 0) else none⟩ true
      [[.acct 0, .key 0]] [.method 8] [] = false := by decide

/-! ## C11 end to end: `State.VerifyTx` (model `XV.Acl.verifyTx`), token inputs, read faults -/

/-- A rule that cannot be read is never taken for "no rule": if `IdentifyAccount` accepts while the lookups of the
names in `bad` answer an error, then none of the names it looks up is among them, and the account's rule is satisfied
in EVERY environment that agrees with the readable part — whatever the unreadable rules really are. -/
theorem fault_never_grants (bad : Name → Bool) (env : Env) (root : Name) (us : List URI)
    (h : identifyAccountF bad env root us = true) :
    (∀ n ∈ lookupsAcc root us, bad n = false) ∧
    ∀ env' : Env, (∀ n, bad n = false → env' n = env n) → identifyAccount env' root us = true := by
  obtain ⟨hb, _⟩ := (identifyAccountF_iff bad env root us).1 h
  refine ⟨hb, fun env' hag => ?_⟩
  have := identifyAccountF_transfer bad env env' hag root us h
  rwa [identifyAccountF_clean] at this

/-- the same for a contract-method rule; an unreadable method rule rejects -/
theorem fault_never_grants_method (bad : Name → Bool) (badRule : Bool) (env : Env) (rule : Option Rule) (us : List URI)
    (h : checkMethodPermF bad badRule env rule us = true) :
    badRule = false ∧ (∀ n ∈ lookupsMeth us, bad n = false) ∧
    ∀ env' : Env, (∀ n, bad n = false → env' n = env n) → checkMethodPerm env' rule us = true := by
  obtain ⟨h1, h2, h3⟩ := (checkMethodPermF_iff bad badRule env rule us).1 h
  refine ⟨h1, h2, fun env' hag => ?_⟩
  rw [← h3]
  exact checkMethodPerm_congr env' env rule us (fun n hn => hag n (h2 n hn))

/-- an unreadable root, or an unreadable name anywhere in a uri that starts with the root, rejects -/
theorem unreadable_rejects (bad : Name → Bool) (env : Env) (root : Name) (us : List URI) (n : Name)
    (hn : n ∈ lookupsAcc root us) (hb : bad n = true) : identifyAccountF bad env root us = false := by
  cases h : identifyAccountF bad env root us with
  | false => rfl
  | true =>
    have := (fault_never_grants bad env root us h).1 n hn
    rw [hb] at this; cases this

/-- without unreadable names the fault-aware evaluation is `IdentifyAccount` itself -/
theorem no_fault_same (env : Env) (root : Name) (us : List URI) :
    identifyAccountF (fun _ => false) env root us = identifyAccount env root us := identifyAccountF_clean env root us

/-- `verifyUTXOPermission` passes exactly when EVERY token input — wherever it stands in the list — has an owner that
is already verified (a key that signed) or is an account whose stored rule can be read, exists, and is satisfied by
AuthRequire. -/
theorem utxo_perm_iff (ch : TxChain) (auth : List URI) (ins ver : List Name) :
    (verifyUtxo ch auth ins ver).isSome = true ↔ ∀ o ∈ ins, InputAuthorised ch auth ver o :=
  verifyUtxo_isSome_iff ch auth ins ver

/-- no input is skipped: the order of the inputs and repetitions are irrelevant to the verdict -/
theorem utxo_perm_order_irrelevant (ch : TxChain) (auth : List URI) (ins ins' ver : List Name)
    (hset : ∀ o, o ∈ ins ↔ o ∈ ins') :
    (verifyUtxo ch auth ins ver).isSome = (verifyUtxo ch auth ins' ver).isSome := by
  rw [Bool.eq_iff_iff, utxo_perm_iff, utxo_perm_iff]
  constructor
  · intro h o ho; exact h o ((hset o).2 ho)
  · intro h o ho; exact h o ((hset o).1 ho)

/-- an input behind any number of other inputs is checked like the first one (the statement the seeded change
`continue -> break` violates) -/
theorem utxo_perm_checks_every_position (ch : TxChain) (auth : List URI) (pre post ver : List Name) (o : Name)
    (h : (verifyUtxo ch auth (pre ++ o :: post) ver).isSome = true) : InputAuthorised ch auth ver o :=
  (utxo_perm_iff ch auth _ ver).1 h o (by simp)

/-- spending from an account needs the account's rule in force: stated with the specification `SpecAccount` -/
theorem utxo_account_input_needs_rule (ch : TxChain) (hwf : EnvWF ch.env) (auth : List URI) (ins ver : List Name)
    (h : (verifyUtxo ch auth ins ver).isSome = true) (a : Nat) (ha : Name.acct a ∈ ins) (hv : Name.acct a ∉ ver) :
    ch.env (.acct a) ≠ none ∧ SpecAccount ch.env (maxLen auth) (.acct a) auth := by
  rcases (utxo_perm_iff ch auth ins ver).1 h _ ha with h1 | ⟨_, _, hne, hid⟩
  · exact absurd h1 hv
  · refine ⟨hne, ?_⟩
    have := ((identifyAccountF_iff _ _ _ _).1 hid).2
    exact (eval_eq_spec ch.env hwf _ auth _ (Nat.le_refl _)).1 this

/-- an address that did not sign cannot be spent from -/
theorem utxo_key_input_needs_signature (ch : TxChain) (auth : List URI) (ins ver : List Name)
    (h : (verifyUtxo ch auth ins ver).isSome = true) (k : Nat) (hk : Name.key k ∈ ins) : Name.key k ∈ ver := by
  rcases (utxo_perm_iff ch auth ins ver).1 h _ hk with h1 | ⟨⟨a, ha⟩, _⟩
  · exact h1
  · cases ha

/-- Unverified names contribute nothing, end to end: when `verifySignatures` passes, every AuthRequire uri ends in a
verified name, and the verified names are keys each of which either signed as initiator or has its OWN valid signature
attached to a uri that ends with it. -/
theorem sigs_verified_are_signers (ch : TxChain) (tx : Tx) (ver : List Name) (h : verifySigs ch tx = some ver) :
    (∀ u ∈ tx.auth, ∃ n, u.getLast? = some n ∧ n ∈ ver) ∧
    (∀ n ∈ ver, (∃ k, n = .key k) ∧
      (some n ∈ tx.isig ∨ ∃ p ∈ tx.auth.zip tx.usig, p.1.getLast? = some n ∧ p.2 = some n)) := by
  unfold verifySigs at h
  by_cases hlen : tx.auth.length = tx.usig.length
  · simp only [hlen, ne_eq, not_true_eq_false, if_false] at h
    have hcover : ∀ (v0 : List Name), sigAuth (tx.auth.zip tx.usig) v0 = some ver →
        (∀ n ∈ v0, (∃ k, n = .key k) ∧ some n ∈ tx.isig) →
        (∀ u ∈ tx.auth, ∃ n, u.getLast? = some n ∧ n ∈ ver) ∧
        (∀ n ∈ ver, (∃ k, n = .key k) ∧
          (some n ∈ tx.isig ∨ ∃ p ∈ tx.auth.zip tx.usig, p.1.getLast? = some n ∧ p.2 = some n)) := by
      intro v0 hs h0
      obtain ⟨_, h2, h3⟩ := sigAuth_sound _ v0 ver hs
      constructor
      · intro u hu
        obtain ⟨i, hi, rfl⟩ := List.getElem_of_mem hu
        have hi' : i < (tx.auth.zip tx.usig).length := by simp [List.length_zip, ← hlen, hi]
        have := h2 ((tx.auth.zip tx.usig)[i]) (List.getElem_mem hi')
        simpa [List.getElem_zip] using this
      · intro n hn
        rcases h3 n hn with h4 | ⟨p, hp, hl, hsg⟩
        · exact ⟨(h0 n h4).1, Or.inl (h0 n h4).2⟩
        · obtain ⟨hk, hs'⟩ := lastSigned_key p.1 p.2 n hl hsg
          exact ⟨hk, Or.inr ⟨p, hp, hl, hs'⟩⟩
    cases hini : tx.init with
    | key k =>
      simp only [hini] at h
      cases hsig : tx.isig with
      | nil => simp [hsig] at h
      | cons x xs =>
        simp only [hsig] at h
        cases x with
        | none => simp at h
        | some j =>
          cases j with
          | acct b => simp at h
          | key j =>
            simp only at h
            by_cases hjk : j = k
            · subst hjk
              simp only [if_true] at h
              have := hcover [.key j] h (by
                intro n hn
                simp only [List.mem_singleton] at hn
                subst hn
                exact ⟨⟨j, rfl⟩, by simp [hsig]⟩)
              simpa [hsig] using this
            · simp [hjk] at h
    | acct a =>
      simp only [hini] at h
      cases hsig : tx.isig with
      | nil => simp [hsig] at h
      | cons x xs =>
        cases hall : allSigned (x :: xs) with
        | none => simp [hsig, hall] at h
        | some ks =>
          simp only [hsig, hall] at h
          by_cases hid : identifyAccountF ch.bad ch.env (.acct a) (ks.map (fun k => [Name.acct a, k])) = true
          · simp only [hid, if_true] at h
            obtain ⟨hmap, hkeys⟩ := allSigned_keys _ ks hall
            have := hcover ks h (by
              intro n hn
              refine ⟨hkeys n hn, ?_⟩
              rw [hsig, hmap]
              exact List.mem_map.2 ⟨n, hn, rfl⟩)
            simpa [hsig] using this
          · simp [hid] at h
  · simp [hlen] at h

/-- The access-control content of an accepted transaction.  If `verifyTx` accepts (possibly under read faults) then
(1) the signatures passed with some verified set `ver` (see `sigs_verified_are_signers`); (2) EVERY token input is owned
by a verified key or by an account with a stored, readable rule that AuthRequire satisfies (`SpecAccount`); (3) for
EVERY contract request the rule of the called method is satisfied by the initiator address and AuthRequire
(`SpecMethod`); (4) every write to an ACL bucket, of whichever request, is authorised by the rule in force of the owning
account, and a method rule can only be written when the contract's owner entry is confirmed and has no unconfirmed
overwrite. -/
theorem verifyTx_sound (ch : TxChain) (hwf : EnvWF ch.env) (hmr : RuleWF ch.mrule) (tx : Tx)
    (h : verifyTx ch tx = true) :
    ∃ ver, verifySigs ch tx = some ver ∧
      (∀ k, Name.key k ∈ tx.inputs → Name.key k ∈ ver) ∧
      (∀ a, Name.acct a ∈ tx.inputs →
        ch.env (.acct a) ≠ none ∧ SpecAccount ch.env (maxLen tx.auth) (.acct a) tx.auth) ∧
      (∀ act ∈ tx.acts,
        SpecMethod ch.env (maxLen (authUsers tx.init tx.auth)) (methodRuleOf ch act) (authUsers tx.init tx.auth)) ∧
      (∀ a, (Act.setAcl a ∈ tx.acts ∨ Act.newAcc a ∈ tx.acts) → SpecAccount ch.env (maxLen tx.auth) a tx.auth) ∧
      (∀ c, Act.setMethod c ∈ tx.acts → ch.pendOwner c = false ∧
        ∃ o, ch.owner c = some o ∧ SpecAccount ch.env (maxLen tx.auth) o tx.auth) := by
  unfold verifyTx at h
  cases hs : verifySigs ch tx with
  | none => simp [hs] at h
  | some ver =>
    simp only [hs] at h
    cases hu : verifyUtxo ch tx.auth tx.inputs ver with
    | none => simp [hu] at h
    | some ver' =>
      simp only [hu, Bool.and_eq_true] at h
      obtain ⟨hcp, hrw⟩ := h
      have hsome : (verifyUtxo ch tx.auth tx.inputs ver).isSome = true := by simp [hu]
      obtain ⟨_, hsig2⟩ := sigs_verified_are_signers ch tx ver hs
      -- every name in ver' is identified (keys trivially: `IdentifyAccount` on an address evaluates nothing)
      have hver' : ∀ n ∈ ver', identifyAccount ch.env n tx.auth = true := by
        intro n hn
        rcases (verifyUtxo_ver ch tx.auth tx.inputs ver ver' hu).2 n hn with h1 | ⟨_, h2⟩
        · obtain ⟨⟨k, rfl⟩, _⟩ := hsig2 n h1
          simp [identifyAccount, identifyAccountD]
        · exact ((identifyAccountF_iff _ _ _ _).1 h2).2
      have hwr := verifyWritesG_sound (fun a => identifyAccountF ch.bad ch.env a tx.auth) (ownerInForce ch)
        (fun a => identifyAccount ch.env a tx.auth = true)
        (fun a ha => ((identifyAccountF_iff _ _ _ _).1 ha).2) (tx.acts.flatMap writesOf) ver' hver' hrw
      refine ⟨ver, rfl, ?_, ?_, ?_, ?_, ?_⟩
      · intro k hk
        exact utxo_key_input_needs_signature ch tx.auth tx.inputs ver hsome k hk
      · intro a ha
        by_cases hv : Name.acct a ∈ ver
        · obtain ⟨⟨k, hk⟩, _⟩ := hsig2 _ hv
          cases hk
        · exact utxo_account_input_needs_rule ch hwf tx.auth tx.inputs ver hsome a ha hv
      · intro act hact
        unfold verifyContractPerm at hcp
        have hperm := List.all_eq_true.1 hcp act hact
        have hcm := ((checkMethodPermF_iff _ _ _ _ _).1 hperm).2.2
        have hrwf : RuleWF (methodRuleOf ch act) := by
          cases act with
          | call => simpa [methodRuleOf] using hmr
          | setAcl a => intro ms theta hh; simp [methodRuleOf] at hh
          | newAcc a => intro ms theta hh; simp [methodRuleOf] at hh
          | setMethod c => intro ms theta hh; simp [methodRuleOf] at hh
        exact (eval_eq_spec_method ch.env hwf _ hrwf _ _ (Nat.le_refl _)).1 hcm
      · intro a ha
        have : Write.account a ∈ tx.acts.flatMap writesOf := by
          rcases ha with e | e
          · exact List.mem_flatMap.2 ⟨_, e, by simp [writesOf]⟩
          · exact List.mem_flatMap.2 ⟨_, e, by simp [writesOf]⟩
        exact (eval_eq_spec ch.env hwf a tx.auth _ (Nat.le_refl _)).1 (hwr _ this)
      · intro c hc
        have : Write.method c ∈ tx.acts.flatMap writesOf := List.mem_flatMap.2 ⟨_, hc, by simp [writesOf]⟩
        obtain ⟨o, ho, hid⟩ := hwr _ this
        unfold ownerInForce at ho
        by_cases hp : ch.pendOwner c = true
        · simp [hp] at ho
        · have hp' : ch.pendOwner c = false := by simpa using hp
          simp only [hp', Bool.false_eq_true, if_false] at ho
          exact ⟨hp', o, ho, (eval_eq_spec ch.env hwf o tx.auth _ (Nat.le_refl _)).1 hid⟩

/-- Read faults never grant, end to end: a transaction accepted while some rules cannot be read is also accepted by
the fault-free evaluation on EVERY chain that agrees with the readable part — whatever the unreadable rules really
are.  (The seeded change that maps a "... not found" read error to "no rule stored" violates this.) -/
theorem verifyTx_fault_never_grants (ch : TxChain) (tx : Tx) (h : verifyTx ch tx = true) (env' : Env)
    (hag : ∀ n, ch.bad n = false → env' n = ch.env n) :
    verifyTx { ch.clean with env := env' } tx = true := by
  let ch' : TxChain := { ch.clean with env := env' }
  have hbad' : ∀ n, ch'.bad n = false := fun _ => rfl
  have hag' : ∀ n, ch.bad n = false → ch'.env n = ch.env n := hag
  have hidt : ∀ root us, identifyAccountF ch.bad ch.env root us = true →
      identifyAccountF ch'.bad ch'.env root us = true := by
    intro root us hh
    exact identifyAccountF_transfer ch.bad ch.env env' hag root us hh
  -- signatures
  have hsigs : ∀ ver, verifySigs ch tx = some ver → verifySigs ch' tx = some ver := by
    intro ver hs
    unfold verifySigs at hs ⊢
    by_cases hlen : tx.auth.length = tx.usig.length
    · simp only [hlen, ne_eq, not_true_eq_false, if_false] at hs ⊢
      cases hini : tx.init with
      | key k => simpa [hini] using hs
      | acct a =>
        simp only [hini] at hs ⊢
        cases hsig : tx.isig with
        | nil => simp [hsig] at hs
        | cons x xs =>
          cases hall : allSigned (x :: xs) with
          | none => simp [hsig, hall] at hs
          | some ks =>
            simp only [hsig, hall] at hs ⊢
            by_cases hid : identifyAccountF ch.bad ch.env (.acct a) (ks.map (fun k => [Name.acct a, k])) = true
            · simp only [hid, if_true] at hs
              simp only [hidt _ _ hid, if_true]
              exact hs
            · simp [hid] at hs
    · simp [hlen] at hs
  unfold verifyTx at h ⊢
  cases hs : verifySigs ch tx with
  | none => simp [hs] at h
  | some ver =>
    simp only [hs] at h
    cases hu : verifyUtxo ch tx.auth tx.inputs ver with
    | none => simp [hu] at h
    | some ver' =>
      simp only [hu, Bool.and_eq_true] at h
      obtain ⟨hcp, hrw⟩ := h
      have hs' := hsigs ver hs
      have hu' := verifyUtxo_transfer ch ch' hag' hbad' tx.auth tx.inputs ver ver' hu
      simp only [ch'] at hs' hu'
      simp only [hs', hu', Bool.and_eq_true]
      constructor
      · unfold verifyContractPerm at hcp ⊢
        rw [List.all_eq_true] at hcp ⊢
        intro act hact
        obtain ⟨_, h2, h3⟩ := fault_never_grants_method _ _ _ _ _ (hcp act hact)
        rw [checkMethodPermF_iff]
        refine ⟨rfl, fun _ _ => rfl, ?_⟩
        have : methodRuleOf { ch.clean with env := env' } act = methodRuleOf ch act := by cases act <;> rfl
        rw [this]
        exact h3 env' hag
      · unfold verifyRW at hrw ⊢
        have : ownerInForce ch' = ownerInForce ch := rfl
        exact verifyWritesG_mono _ _ _ (fun a ha => hidt a tx.auth ha) _ _ hrw

/-- `verifyRWSetPermission` as modelled before (`verifyWrites`, the subject of `acl_change_needs_owner`) is the
fault-free instance of the loop used by `verifyTx` -/
theorem verifyWrites_is_instance (ch : Chain) (auth : List URI) (ws : List Write) (ver : List Name) :
    verifyWrites ch auth ws ver = verifyWritesG (fun a => identifyAccountF (fun _ => false) ch.env a auth) ch.owner ws ver := by
  rw [verifyWrites_eq_G]
  congr 1
  funext a
  exact (identifyAccountF_clean ch.env a auth).symm

/-! ### non-vacuity of the end-to-end statements -/

/-- account 0: key 1 alone; contract 0 is owned by account 0; the called method needs key 2 -/
def chainDemo : TxChain := {
  env := fun n => if n = .acct 0 then some (.thr [(.key 1, 4)] 4) else none,
  owner := fun c => if c = 0 then some (.acct 0) else none,
  pendOwner := fun _ => false,
  mrule := some (.thr [(.key 2, 4)] 4),
  bad := fun _ => false,
  badM := fun _ => false }

/-- key 0 pays with an own output first and an output of account 0 second -/
def txSteal : Tx :=
  { init := .key 0, isig := [some (.key 0)], auth := [[.key 0]], usig := [some (.key 0)],
    inputs := [.key 0, .acct 0], acts := [] }

/-- the same with key 1, the member of the account's rule, signing for the account -/
def txGood : Tx :=
  { init := .key 0, isig := [some (.key 0)], auth := [[.acct 0, .key 1]], usig := [some (.key 1)],
    inputs := [.key 0, .acct 0, .key 0, .acct 0], acts := [] }

/-- key 0 tries to rewrite the rule of account 0 -/
def txTakeover : Tx :=
  { init := .key 0, isig := [some (.key 0)], auth := [[.acct 0, .key 0]], usig := [some (.key 0)],
    inputs := [], acts := [.setAcl (.acct 0)] }

example : verifyTx chainDemo txSteal = false ∧ verifyTx chainDemo txGood = true ∧
    verifyTx chainDemo txTakeover = false ∧
    verifyTx chainDemo { txTakeover with auth := [[.acct 0, .key 1]], usig := [some (.key 1)] } = true ∧
    -- a signature that is not the last component's own does not verify the uri
    verifyTx chainDemo { txGood with usig := [some (.key 0)] } = false ∧
    -- the method rule (key 2) and the owner of contract 0 (account 0, i.e. key 1)
    verifyTx chainDemo { txGood with inputs := [], acts := [.call] } = false ∧
    verifyTx chainDemo { txGood with inputs := [], acts := [.call], auth := [[.key 2]], usig := [some (.key 2)] } = true ∧
    verifyTx chainDemo { txGood with inputs := [], acts := [.setMethod 0] } = true ∧
    -- every request counts: the second one names a contract without owner entry, the third needs key 2
    verifyTx chainDemo { txGood with inputs := [], acts := [.setMethod 0, .setMethod 1] } = false ∧
    verifyTx chainDemo { txGood with inputs := [], acts := [.setMethod 0, .setAcl (.acct 0), .call] } = false ∧
    verifyTx chainDemo { txGood with inputs := [], acts := [.setMethod 0, .setAcl (.acct 0), .newAcc (.acct 2)] } = true ∧
    verifyTx chainDemo { txGood with inputs := [], acts := [.setMethod 1] } = false ∧
    verifyTx { chainDemo with pendOwner := fun c => c == 0 } { txGood with inputs := [], acts := [.setMethod 0] } = false := by
  decide

/-- with the rule of account 0 unreadable nothing that needs it is accepted — neither the takeover (which would pass
if "unreadable" were taken for "no rule") nor the legitimate owner's transaction -/
example : verifyTx { chainDemo with bad := fun n => n == .acct 0 } txTakeover = false ∧
    verifyTx { chainDemo with bad := fun n => n == .acct 0 } txGood = false ∧
    verifyTx { chainDemo with bad := fun n => n == .acct 0, env := fun _ => none } txTakeover = false ∧
    -- "no rule stored" itself is open (documented behaviour of the code), which is why the distinction matters
    verifyTx { chainDemo with env := fun _ => none } txTakeover = true ∧
    -- a fault on a name the transaction does not meet changes nothing
    verifyTx { chainDemo with bad := fun n => n == .acct 3 } txGood = true := by
  decide

/-! ### the unit of the weights is immaterial (wave 6: rules in units `2^-e`, huge and tiny values)

The harness writes a threshold rule as integers in a unit `2^-e` and hands the code the float64 values
`w * 2^-e` (exact, and exact in every sum the code can form, for `|theta| + Σ|w| < 2^53`).  The rule means the same in
every unit: multiplying threshold and weights by the same positive number changes no evaluation, so the model over
integers speaks for every unit; what the comparison must NOT depend on is the magnitude (fixed point, float32, an
epsilon) - that is what the correspondence on the wide universe checks. -/

def scaleMembers (k : Int) (ms : List (Name × Int)) : List (Name × Int) := ms.map (fun m => (m.1, k * m.2))

theorem weightOf_scale (k : Int) (ms : List (Name × Int)) (n : Name) :
    weightOf (scaleMembers k ms) n = k * weightOf ms n := by
  induction ms with
  | nil => simp [scaleMembers, weightOf]
  | cons m ms ih =>
    obtain ⟨a, w⟩ := m
    simp only [scaleMembers, List.map_cons, weightOf] at ih ⊢
    split
    · rfl
    · exact ih

theorem sumW_scale (k : Int) (ms : List (Name × Int)) (cs : List Name) :
    sumW (scaleMembers k ms) cs = k * sumW ms cs := by
  induction cs with
  | nil => simp [sumW]
  | cons c cs ih => simp [sumW, ih, weightOf_scale, Int.mul_add]

/-- `ThresholdValidator` answers the same whatever unit threshold and weights are written in -/
theorem threshold_unit_irrelevant (k : Int) (hk : 0 < k) (ms : List (Name × Int)) (theta : Int)
    (kids : List (Name × Bool)) :
    thresholdOk (scaleMembers k ms) (k * theta) kids = thresholdOk ms theta kids := by
  unfold thresholdOk
  rw [sumW_scale]
  by_cases h : theta ≤ sumW ms (okNames kids)
  · have : k * theta ≤ k * sumW ms (okNames kids) := Int.mul_le_mul_of_nonneg_left h (Int.le_of_lt hk)
    simp [h, this]
  · have h' : sumW ms (okNames kids) < theta := Int.lt_of_not_ge h
    have : ¬ k * theta ≤ k * sumW ms (okNames kids) := Int.not_le.mpr (Int.mul_lt_mul_of_pos_left h' hk)
    simp [h, this]

/-- and so does the specification -/
theorem memberSum_scale (k : Int) (ms : List (Name × Int)) (S : Name → Bool) :
    memberSum (scaleMembers k ms) S = k * memberSum ms S := by
  induction ms with
  | nil => simp [scaleMembers, memberSum]
  | cons m ms ih =>
    obtain ⟨a, w⟩ := m
    simp only [scaleMembers, List.map_cons, memberSum] at ih ⊢
    rw [ih]
    split <;> simp [Int.mul_add]

/-- a frozen rule (threshold above the sum of the positive weights... here: above every reachable sum) and a
master key behave as the property says at every magnitude: closed examples at 10^15 and at one unit from the boundary -/
example : thresholdOk [(.key 0, 1), (.key 1, 1)] 1000000000000000 [(.key 0, true), (.key 1, true)] = false ∧
    thresholdOk [(.key 0, 1000000000000000), (.key 1, 1)] 1 [(.key 0, true)] = true ∧
    thresholdOk [(.key 0, 2251799813685248)] 2251799813685249 [(.key 0, true)] = false ∧
    thresholdOk [(.key 0, 2251799813685248), (.key 1, 1)] 2251799813685249 [(.key 0, true), (.key 1, true)] = true := by
  decide

end XV.C11
