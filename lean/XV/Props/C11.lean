import XV.Model.Acl
namespace XV.C11
open XV.Acl

/-- the defect of the code before the repair, on the model of that code -/
theorem v0_counts_nonterminal_key :
    identifyAccountV0 (fun n => if n = .acct 0 then some (.thr [(.key 0, 4)] 4) else none) (.acct 0)
      [[.acct 0, .key 0, .key 1]] = true := by decide

theorem repaired_rejects_nonterminal_key :
    identifyAccount (fun n => if n = .acct 0 then some (.thr [(.key 0, 4)] 4) else none) (.acct 0)
      [[.acct 0, .key 0, .key 1]] = false := by decide

end XV.C11
