import XV.Model.Acl
/-!
# C11 — access-control evaluation is sound, monotone and counts each signer once

Theorems about `XV.Acl` (the model of `IdentifyAccount` / `CheckContractMethodPerm` /
`verifyRWSetPermission` after the repair of the non-terminal-key defect).
-/
namespace XV.C11
open XV.Acl

/-! ## lists -/

theorem mem_dedup (x : Name) (l : List Name) : x ∈ dedup l ↔ x ∈ l := by
  induction l with
  | nil => simp [dedup]
  | cons y ys ih =>
    simp only [dedup, List.mem_cons, List.mem_filter, ih, decide_eq_true_eq]
    by_cases h : x = y
    · simp [h]
    · simp [h]

theorem nodup_dedup (l : List Name) : (dedup l).Nodup := by
  induction l with
  | nil => simp [dedup]
  | cons y ys ih =>
    simp only [dedup, List.nodup_cons, List.mem_filter, decide_eq_true_eq]
    exact ⟨fun h => h.2 rfl, ih.sublist List.filter_sublist⟩

theorem mem_childNames (c : Name) (below : List URI) : c ∈ childNames below ↔ ∃ t, c :: t ∈ below := by
  unfold childNames
  rw [mem_dedup, List.mem_filterMap]
  constructor
  · rintro ⟨p, hp, hh⟩
    cases p with
    | nil => simp at hh
    | cons h t =>
      simp at hh
      exact ⟨t, hh ▸ hp⟩
  · rintro ⟨t, ht⟩
    exact ⟨c :: t, ht, rfl⟩

theorem nodup_childNames (below : List URI) : (childNames below).Nodup := nodup_dedup _

theorem mem_under (c : Name) (t : URI) (below : List URI) : t ∈ under c below ↔ c :: t ∈ below := by
  unfold under
  rw [List.mem_filterMap]
  constructor
  · rintro ⟨p, hp, hh⟩
    cases p with
    | nil => simp at hh
    | cons h t' =>
      by_cases e : h = c
      · simp [e] at hh
        subst e; subst hh; exact hp
      · simp [e] at hh
  · intro h
    exact ⟨c :: t, h, by simp⟩

theorem under_ne_nil (c : Name) (below : List URI) : under c below ≠ [] ↔ c ∈ childNames below := by
  rw [mem_childNames]
  constructor
  · intro h
    obtain ⟨t, ht⟩ := List.exists_mem_of_ne_nil _ h
    exact ⟨t, (mem_under c t below).1 ht⟩
  · rintro ⟨t, ht⟩
    exact List.ne_nil_of_mem ((mem_under c t below).2 ht)

theorem mem_belowRoot (root : Name) (t : URI) (us : List URI) :
    t ∈ belowRoot root us ↔ t ≠ [] ∧ root :: t ∈ us := by
  unfold belowRoot
  rw [List.mem_filterMap]
  constructor
  · rintro ⟨p, hp, hh⟩
    cases p with
    | nil => simp at hh
    | cons h t' =>
      by_cases e : h = root ∧ t' ≠ []
      · simp [e] at hh
        obtain ⟨e1, e2⟩ := e
        subst e1; subst hh; exact ⟨e2, hp⟩
      · simp [e] at hh
  · rintro ⟨h1, h2⟩
    exact ⟨root :: t, h2, by simp [h1]⟩

/-! ## the validators on a child list of the form `l.map (c ↦ (c, f c))` -/

theorem okNames_map (l : List Name) (f : Name → Bool) :
    okNames (l.map (fun c => (c, f c))) = l.filter f := by
  induction l with
  | nil => rfl
  | cons x xs ih =>
    unfold okNames at ih ⊢
    by_cases h : f x = true
    · simp [h, ih]
    · simp [h, ih]

theorem findKid_map (n : Name) (l : List Name) (f : Name → Bool) :
    findKid n (l.map (fun c => (c, f c))) = if n ∈ l then some (f n) else none := by
  induction l with
  | nil => simp [findKid]
  | cons x xs ih =>
    simp only [List.map_cons, findKid, List.mem_cons]
    by_cases h : x = n
    · simp [h]
    · have h' : ¬ n = x := fun e => h e.symm
      simp [h, h', ih]

theorem sumW_nil (cs : List Name) : sumW [] cs = 0 := by
  induction cs with
  | nil => rfl
  | cons c cs ih => simp [sumW, weightOf, ih]

theorem weightOf_not_mem (ms : List (Name × Int)) (m : Name) (h : m ∉ ms.map Prod.fst) : weightOf ms m = 0 := by
  induction ms with
  | nil => rfl
  | cons p ps ih =>
    obtain ⟨m', w⟩ := p
    simp only [List.map_cons, List.mem_cons, not_or] at h
    simp [weightOf, h.1, ih h.2]

theorem sumW_cons (ms : List (Name × Int)) (m : Name) (w : Int) (h0 : weightOf ms m = 0) (cs : List Name)
    (hcs : cs.Nodup) :
    sumW ((m, w) :: ms) cs = (if m ∈ cs then w else 0) + sumW ms cs := by
  induction cs with
  | nil => simp [sumW]
  | cons c cs ih =>
    rw [List.nodup_cons] at hcs
    have ih' := ih hcs.2
    simp only [sumW, weightOf, List.mem_cons]
    rw [ih']
    by_cases e : c = m
    · subst e
      have : c ∉ cs := hcs.1
      simp [this, h0]
    · have e' : ¬ m = c := fun x => e x.symm
      simp only [e, e', if_false, false_or]
      by_cases hm : m ∈ cs
      · simp only [hm, if_true]; omega
      · simp only [hm, if_false]; omega

/-- the sum of the code (over the distinct successful children) is the sum of the property (over the members) -/
theorem sumW_eq_memberSum (ms : List (Name × Int)) (cs : List Name) (hcs : cs.Nodup)
    (hms : (ms.map Prod.fst).Nodup) : sumW ms cs = memberSum ms (fun m => decide (m ∈ cs)) := by
  induction ms with
  | nil => simp [sumW_nil, memberSum]
  | cons p ps ih =>
    obtain ⟨m, w⟩ := p
    simp only [List.map_cons, List.nodup_cons] at hms
    rw [sumW_cons ps m w (weightOf_not_mem ps m hms.1) cs hcs, ih hms.2]
    simp [memberSum]

/-- member names of a rule are pairwise distinct (`AksWeight` is a Go map) -/
def RuleWF (r : Option Rule) : Prop := ∀ ms theta, r = some (.thr ms theta) → (ms.map Prod.fst).Nodup

def EnvWF (env : Env) : Prop := ∀ n, RuleWF (env n)

theorem ruleOk_iff_Sat (r : Option Rule) (l : List Name) (f : Name → Bool) (hl : l.Nodup) (hr : RuleWF r) :
    ruleOk r (l.map (fun c => (c, f c))) = true ↔ Sat r (fun m => decide (m ∈ l) && f m) := by
  cases r with
  | none => simp [ruleOk, Sat]
  | some r =>
    cases r with
    | thr ms theta =>
      have hnd : (l.filter f).Nodup := hl.sublist List.filter_sublist
      have hfun : (fun m => decide (m ∈ l.filter f)) = (fun m => decide (m ∈ l) && f m) := by
        funext m
        simp [List.mem_filter]
      simp only [ruleOk, thresholdOk, Sat, okNames_map, decide_eq_true_eq]
      rw [sumW_eq_memberSum ms _ hnd (hr ms theta rfl), hfun]
    | sets ss =>
      simp only [ruleOk, setsOk, Sat, List.any_eq_true]
      constructor
      · rintro ⟨set, hset, hok⟩
        refine ⟨set, hset, ?_, ?_⟩
        · intro e; simp [setOk, e] at hok
        · intro k hk
          simp only [setOk, Bool.and_eq_true, List.all_eq_true] at hok
          have := hok.2 k hk
          rw [findKid_map] at this
          by_cases hkl : k ∈ l
          · simp [hkl] at this; simp [hkl, this]
          · simp [hkl] at this
      · rintro ⟨set, hset, hne, hall⟩
        refine ⟨set, hset, ?_⟩
        simp only [setOk, Bool.and_eq_true, List.all_eq_true]
        have hall' : ∀ k ∈ set, k ∈ l ∧ f k = true := by
          intro k hk
          have := hall k hk
          simpa using this
        refine ⟨⟨?_, ?_⟩, ?_⟩
        · cases set with
          | nil => exact absurd rfl hne
          | cons _ _ => rfl
        · cases set with
          | nil => exact absurd rfl hne
          | cons k _ =>
            have := (hall' k (List.mem_cons_self)).1
            cases l with
            | nil => simp at this
            | cons _ _ => rfl
        · intro k hk
          rw [findKid_map]
          simp [(hall' k hk).1, (hall' k hk).2]

/-! ## the evaluation equals the specification -/

theorem kids_eq (env : Env) (d : Nat) (below : List URI) :
    kids env d below = (childNames below).map (fun c => (c, nodeStatus env d c (under c below))) := rfl

/-- a child counts for its parent iff the specification says its name is verified at that level -/
theorem child_counts_iff (env : Env) (hwf : EnvWF env) :
    ∀ (d : Nat) (below : List URI) (c : Name),
      (decide (c ∈ childNames below) && nodeStatus env d c (under c below)) = verified env d below c := by
  intro d
  induction d with
  | zero =>
    intro below c
    cases c with
    | key k =>
      rw [Bool.eq_iff_iff]
      simp only [nodeStatus, verified, Bool.and_eq_true, decide_eq_true_eq, mem_under, mem_childNames]
      constructor
      · rintro ⟨_, h⟩; exact h
      · intro h; exact ⟨⟨[], h⟩, h⟩
    | acct a => simp [nodeStatus, verified]
  | succ d ih =>
    intro below c
    cases c with
    | key k =>
      rw [Bool.eq_iff_iff]
      simp only [nodeStatus, verified, Bool.and_eq_true, decide_eq_true_eq, mem_under, mem_childNames]
      constructor
      · rintro ⟨_, h⟩; exact h
      · intro h; exact ⟨⟨[], h⟩, h⟩
    | acct a =>
      have hfun : (fun m => decide (m ∈ childNames (under (.acct a) below))
            && nodeStatus env d m (under m (under (.acct a) below)))
          = verified env d (under (.acct a) below) := by
        funext m
        exact ih (under (.acct a) below) m
      rw [Bool.eq_iff_iff]
      simp only [nodeStatus, verified, Bool.and_eq_true, decide_eq_true_eq]
      rw [ruleOk_iff_Sat _ _ _ (nodup_childNames _) (hwf _), hfun, under_ne_nil]

/-- `eval_eq_spec` for an explicit nesting bound -/
theorem identifyAccountD_iff_spec (env : Env) (hwf : EnvWF env) (d : Nat) (root : Name) (us : List URI) :
    identifyAccountD env d root us = true ↔ SpecAccount env d root us := by
  cases root with
  | key k => simp [identifyAccountD, SpecAccount]
  | acct a =>
    have hfun : (fun m => decide (m ∈ childNames (belowRoot (.acct a) us))
          && nodeStatus env d m (under m (belowRoot (.acct a) us)))
        = verified env d (belowRoot (.acct a) us) := by
      funext m
      exact child_counts_iff env hwf d _ m
    simp only [identifyAccountD, SpecAccount, kids_eq]
    rw [ruleOk_iff_Sat _ _ _ (nodup_childNames _) (hwf _), hfun]

theorem checkMethodPermD_iff_spec (env : Env) (hwf : EnvWF env) (d : Nat) (rule : Option Rule)
    (hr : RuleWF rule) (us : List URI) :
    checkMethodPermD env d rule us = true ↔ SpecMethod env d rule us := by
  have hfun : (fun m => decide (m ∈ childNames us) && nodeStatus env d m (under m us))
      = verified env d us := by
    funext m
    exact child_counts_iff env hwf d _ m
  simp only [checkMethodPermD, SpecMethod, kids_eq]
  rw [ruleOk_iff_Sat _ _ _ (nodup_childNames _) hr, hfun]

/-! ## the nesting bound `fuelFor` is sufficient -/

theorem length_le_maxLen (u : URI) (us : List URI) (h : u ∈ us) : u.length ≤ maxLen us := by
  induction us with
  | nil => simp at h
  | cons v vs ih =>
    simp only [maxLen]
    rcases List.mem_cons.1 h with e | e
    · subst e; omega
    · have := ih e; omega

theorem maxLen_lt (us : List URI) (n : Nat) (hn : 0 < n) (h : ∀ u ∈ us, u.length < n) : maxLen us < n := by
  induction us with
  | nil => simpa [maxLen] using hn
  | cons v vs ih =>
    simp only [maxLen]
    have h1 := h v (List.mem_cons_self)
    have h2 := ih (fun u hu => h u (List.mem_cons_of_mem _ hu))
    omega

theorem maxLen_under_lt (c : Name) (below : List URI) (hc : c ∈ childNames below) :
    maxLen (under c below) < maxLen below := by
  obtain ⟨t, ht⟩ := (mem_childNames c below).1 hc
  have h0 : 0 < maxLen below := by
    have := length_le_maxLen _ _ ht
    simp at this; omega
  apply maxLen_lt _ _ h0
  intro u hu
  have := length_le_maxLen _ _ ((mem_under c u below).1 hu)
  simp at this; omega

theorem maxLen_belowRoot_le (root : Name) (us : List URI) : maxLen (belowRoot root us) ≤ maxLen us := by
  by_cases h0 : 0 < maxLen us
  · have : maxLen (belowRoot root us) < maxLen us := by
      apply maxLen_lt _ _ h0
      intro u hu
      have := length_le_maxLen _ _ ((mem_belowRoot root u us).1 hu).2
      simp at this; omega
    omega
  · have : belowRoot root us = [] := by
      apply List.eq_nil_iff_forall_not_mem.2
      intro u hu
      have := length_le_maxLen _ _ ((mem_belowRoot root u us).1 hu).2
      simp at this; omega
    simp [this, maxLen]

theorem map_congr_mem {α β : Type} (l : List α) (f g : α → β) (h : ∀ x ∈ l, f x = g x) : l.map f = l.map g :=
  List.map_congr_left h

/-- the status of a node does not depend on the bound once it exceeds the longest suffix below it -/
theorem nodeStatus_fuel (env : Env) :
    ∀ (d d' : Nat) (c : Name) (below : List URI), maxLen below < d → maxLen below < d' →
      nodeStatus env d c below = nodeStatus env d' c below := by
  intro d
  induction d with
  | zero => intro d' c below h; omega
  | succ d ih =>
    intro d' c below h h'
    cases d' with
    | zero => omega
    | succ d' =>
      cases c with
      | key k => simp [nodeStatus]
      | acct a =>
        simp only [nodeStatus]
        congr 1
        apply map_congr_mem
        intro x hx
        have := maxLen_under_lt x below hx
        rw [ih d' x (under x below) (by omega) (by omega)]

theorem kids_fuel (env : Env) (d d' : Nat) (below : List URI) (h : maxLen below ≤ d) (h' : maxLen below ≤ d') :
    kids env d below = kids env d' below := by
  simp only [kids_eq]
  apply map_congr_mem
  intro x hx
  have := maxLen_under_lt x below hx
  rw [nodeStatus_fuel env d d' x (under x below) (by omega) (by omega)]

theorem identifyAccount_eq_D (env : Env) (root : Name) (us : List URI) (d : Nat) (h : maxLen us ≤ d) :
    identifyAccount env root us = identifyAccountD env d root us := by
  unfold identifyAccount identifyAccountD fuelFor
  cases root with
  | key k => rfl
  | acct a =>
    have := maxLen_belowRoot_le (.acct a) us
    simp only
    rw [kids_fuel env (maxLen us) d _ (by omega) (by omega)]

theorem checkMethodPerm_eq_D (env : Env) (rule : Option Rule) (us : List URI) (d : Nat) (h : maxLen us ≤ d) :
    checkMethodPerm env rule us = checkMethodPermD env d rule us := by
  unfold checkMethodPerm checkMethodPermD fuelFor
  rw [kids_fuel env (maxLen us) d _ (by omega) (by omega)]

/-! ## C11, first sentence: the evaluation accepts exactly when the rule is satisfied by the verified signers -/

/-- `IdentifyAccount` accepts iff the account's rule is satisfied (`Sat`: the weights of the members that
are verified reach the threshold, or some listed non-empty key set consists of verified names) by the
names verified at the top level of the URIs that start with the account — for every rule environment,
every URI list and every sufficient nesting bound. -/
theorem eval_eq_spec (env : Env) (hwf : EnvWF env) (root : Name) (us : List URI) (d : Nat) (hd : maxLen us ≤ d) :
    identifyAccount env root us = true ↔ SpecAccount env d root us := by
  rw [identifyAccount_eq_D env root us d hd]
  exact identifyAccountD_iff_spec env hwf d root us

/-- the same for a contract-method rule (`CheckContractMethodPerm`) -/
theorem eval_eq_spec_method (env : Env) (hwf : EnvWF env) (rule : Option Rule) (hr : RuleWF rule)
    (us : List URI) (d : Nat) (hd : maxLen us ≤ d) :
    checkMethodPerm env rule us = true ↔ SpecMethod env d rule us := by
  rw [checkMethodPerm_eq_D env rule us d hd]
  exact checkMethodPermD_iff_spec env hwf d rule hr us

/-! ## properties of the specification -/

theorem memberSum_mono (ms : List (Name × Int)) (S S' : Name → Bool) (hw : ∀ p ∈ ms, 0 ≤ p.2)
    (h : ∀ m, S m = true → S' m = true) : memberSum ms S ≤ memberSum ms S' := by
  induction ms with
  | nil => simp [memberSum]
  | cons p ps ih =>
    obtain ⟨m, w⟩ := p
    have hw0 : 0 ≤ w := hw (m, w) (List.mem_cons_self)
    have ih' := ih (fun q hq => hw q (List.mem_cons_of_mem _ hq))
    simp only [memberSum]
    cases hs : S m with
    | false =>
      cases hs' : S' m with
      | false => simp; exact ih'
      | true => simp; omega
    | true =>
      have := h m hs
      simp [this]; exact ih'

/-- all weights of a rule are non-negative -/
def NonNeg (r : Option Rule) : Prop := ∀ ms theta, r = some (.thr ms theta) → ∀ p ∈ ms, 0 ≤ p.2

def EnvNonNeg (env : Env) : Prop := ∀ n, NonNeg (env n)

theorem Sat_mono (r : Option Rule) (hr : NonNeg r) (S S' : Name → Bool) (h : ∀ m, S m = true → S' m = true) :
    Sat r S → Sat r S' := by
  cases r with
  | none => simp [Sat]
  | some r =>
    cases r with
    | thr ms theta =>
      simp only [Sat]
      intro hs
      have := memberSum_mono ms S S' (hr ms theta rfl) h
      omega
    | sets ss =>
      simp only [Sat]
      rintro ⟨set, h1, h2, h3⟩
      exact ⟨set, h1, h2, fun k hk => h k (h3 k hk)⟩

/-- the names a rule mentions -/
def membersOf : Option Rule → List Name
  | none => []
  | some (.thr ms _) => ms.map Prod.fst
  | some (.sets ss) => ss.flatten

theorem memberSum_congr (ms : List (Name × Int)) (S S' : Name → Bool)
    (h : ∀ m ∈ ms.map Prod.fst, S m = S' m) : memberSum ms S = memberSum ms S' := by
  induction ms with
  | nil => rfl
  | cons p ps ih =>
    obtain ⟨m, w⟩ := p
    simp only [memberSum]
    rw [h m (by simp), ih (fun q hq => h q (by simp [List.mem_map] at hq ⊢; exact Or.inr hq))]

/-- `Sat` looks at `S` only on the names the rule mentions: everybody else contributes nothing -/
theorem Sat_congr (r : Option Rule) (S S' : Name → Bool) (h : ∀ m ∈ membersOf r, S m = S' m) :
    Sat r S ↔ Sat r S' := by
  cases r with
  | none => simp [Sat]
  | some r =>
    cases r with
    | thr ms theta =>
      simp only [Sat]
      rw [memberSum_congr ms S S' h]
    | sets ss =>
      simp only [Sat]
      constructor
      · rintro ⟨set, h1, h2, h3⟩
        refine ⟨set, h1, h2, fun k hk => ?_⟩
        rw [← h k (List.mem_flatten.2 ⟨set, h1, hk⟩)]
        exact h3 k hk
      · rintro ⟨set, h1, h2, h3⟩
        refine ⟨set, h1, h2, fun k hk => ?_⟩
        rw [h k (List.mem_flatten.2 ⟨set, h1, hk⟩)]
        exact h3 k hk

theorem under_subset (c : Name) (ps ps' : List URI) (h : ∀ u, u ∈ ps → u ∈ ps') :
    ∀ t, t ∈ under c ps → t ∈ under c ps' := by
  intro t ht
  exact (mem_under c t ps').2 (h _ ((mem_under c t ps).1 ht))

theorem belowRoot_subset (root : Name) (us us' : List URI) (h : ∀ u, u ∈ us → u ∈ us') :
    ∀ t, t ∈ belowRoot root us → t ∈ belowRoot root us' := by
  intro t ht
  have := (mem_belowRoot root t us).1 ht
  exact (mem_belowRoot root t us').2 ⟨this.1, h _ this.2⟩

/-- more URIs never remove a verified name (non-negative weights) -/
theorem verified_mono (env : Env) (hnn : EnvNonNeg env) :
    ∀ (d : Nat) (ps ps' : List URI), (∀ u, u ∈ ps → u ∈ ps') →
      ∀ c, verified env d ps c = true → verified env d ps' c = true := by
  intro d
  induction d with
  | zero =>
    intro ps ps' h c
    cases c with
    | key k => simp only [verified, decide_eq_true_eq]; exact h _
    | acct a => simp [verified]
  | succ d ih =>
    intro ps ps' h c
    cases c with
    | key k => simp only [verified, decide_eq_true_eq]; exact h _
    | acct a =>
      simp only [verified, Bool.and_eq_true, decide_eq_true_eq]
      rintro ⟨h1, h2⟩
      have hsub := under_subset (.acct a) ps ps' h
      refine ⟨?_, ?_⟩
      · obtain ⟨t, ht⟩ := List.exists_mem_of_ne_nil _ h1
        exact List.ne_nil_of_mem (hsub t ht)
      · exact Sat_mono _ (hnn _) _ _ (ih _ _ hsub) h2

/-- the verified names depend only on the SET of URIs (not on order or repetitions) -/
theorem verified_congr (env : Env) :
    ∀ (d : Nat) (ps ps' : List URI), (∀ u, u ∈ ps ↔ u ∈ ps') → verified env d ps = verified env d ps' := by
  intro d
  induction d with
  | zero =>
    intro ps ps' h
    funext c
    cases c with
    | key k => simp [verified, h]
    | acct a => simp [verified]
  | succ d ih =>
    intro ps ps' h
    funext c
    cases c with
    | key k => simp [verified, h]
    | acct a =>
      have hu : ∀ t, t ∈ under (.acct a) ps ↔ t ∈ under (.acct a) ps' := by
        intro t; rw [mem_under, mem_under]; exact h _
      have hne : under (.acct a) ps ≠ [] ↔ under (.acct a) ps' ≠ [] := by
        constructor
        · intro h1
          obtain ⟨t, ht⟩ := List.exists_mem_of_ne_nil _ h1
          exact List.ne_nil_of_mem ((hu t).1 ht)
        · intro h1
          obtain ⟨t, ht⟩ := List.exists_mem_of_ne_nil _ h1
          exact List.ne_nil_of_mem ((hu t).2 ht)
      simp only [verified]
      rw [ih _ _ hu]
      simp only [hne]

theorem maxLen_le_max_left (a b : Nat) : a ≤ max a b := by omega
theorem maxLen_le_max_right (a b : Nat) : b ≤ max a b := by omega

/-! ## C11: monotone, each signer once, outsiders and unverified names contribute nothing -/

/-- Adding signer URIs never turns acceptance into rejection when all weights are non-negative. -/
theorem eval_monotone (env : Env) (hwf : EnvWF env) (hnn : EnvNonNeg env) (root : Name) (us us' : List URI)
    (hsub : ∀ u, u ∈ us → u ∈ us') :
    identifyAccount env root us = true → identifyAccount env root us' = true := by
  have h1 := maxLen_le_max_left (maxLen us) (maxLen us')
  have h2 := maxLen_le_max_right (maxLen us) (maxLen us')
  rw [eval_eq_spec env hwf root us _ h1, eval_eq_spec env hwf root us' _ h2]
  cases root with
  | key k => simp [SpecAccount]
  | acct a =>
    simp only [SpecAccount]
    exact Sat_mono _ (hnn _) _ _ (verified_mono env hnn _ _ _ (belowRoot_subset _ us us' hsub))

theorem eval_monotone_method (env : Env) (hwf : EnvWF env) (hnn : EnvNonNeg env) (rule : Option Rule)
    (hr : RuleWF rule) (hrn : NonNeg rule) (us us' : List URI) (hsub : ∀ u, u ∈ us → u ∈ us') :
    checkMethodPerm env rule us = true → checkMethodPerm env rule us' = true := by
  have h1 := maxLen_le_max_left (maxLen us) (maxLen us')
  have h2 := maxLen_le_max_right (maxLen us) (maxLen us')
  rw [eval_eq_spec_method env hwf rule hr us _ h1, eval_eq_spec_method env hwf rule hr us' _ h2]
  exact Sat_mono _ hrn _ _ (verified_mono env hnn _ _ _ hsub)

/-- The evaluation depends only on the set of signer URIs: repeated entries and order are irrelevant
(multiset → set). -/
theorem dup_irrelevant (env : Env) (hwf : EnvWF env) (root : Name) (us us' : List URI)
    (hset : ∀ u, u ∈ us ↔ u ∈ us') : identifyAccount env root us = identifyAccount env root us' := by
  have h1 := maxLen_le_max_left (maxLen us) (maxLen us')
  have h2 := maxLen_le_max_right (maxLen us) (maxLen us')
  rw [Bool.eq_iff_iff, eval_eq_spec env hwf root us _ h1, eval_eq_spec env hwf root us' _ h2]
  cases root with
  | key k => simp [SpecAccount]
  | acct a =>
    simp only [SpecAccount]
    have : ∀ t, t ∈ belowRoot (.acct a) us ↔ t ∈ belowRoot (.acct a) us' := by
      intro t; rw [mem_belowRoot, mem_belowRoot, hset]
    rw [verified_congr env _ _ _ this]

theorem dup_irrelevant_method (env : Env) (hwf : EnvWF env) (rule : Option Rule) (hr : RuleWF rule)
    (us us' : List URI) (hset : ∀ u, u ∈ us ↔ u ∈ us') :
    checkMethodPerm env rule us = checkMethodPerm env rule us' := by
  have h1 := maxLen_le_max_left (maxLen us) (maxLen us')
  have h2 := maxLen_le_max_right (maxLen us) (maxLen us')
  rw [Bool.eq_iff_iff, eval_eq_spec_method env hwf rule hr us _ h1, eval_eq_spec_method env hwf rule hr us' _ h2]
  simp only [SpecMethod]
  rw [verified_congr env _ _ _ hset]

/-- a signer presented twice counts once -/
theorem repeated_uri_irrelevant (env : Env) (hwf : EnvWF env) (root : Name) (u : URI) (us : List URI)
    (hu : u ∈ us) : identifyAccount env root (u :: us) = identifyAccount env root us := by
  apply dup_irrelevant env hwf
  intro v
  simp only [List.mem_cons]
  constructor
  · rintro (e | e)
    · exact e ▸ hu
    · exact e
  · exact Or.inr

/-- Signers of other accounts contribute nothing: URIs that do not start with the account (or have a
single component) can be added or removed freely. -/
theorem outsiders_irrelevant (env : Env) (hwf : EnvWF env) (root : Name) (us others : List URI)
    (ho : ∀ u ∈ others, u.head? ≠ some root ∨ u.length < 2) :
    identifyAccount env root (us ++ others) = identifyAccount env root us := by
  have h1 := maxLen_le_max_left (maxLen (us ++ others)) (maxLen us)
  have h2 := maxLen_le_max_right (maxLen (us ++ others)) (maxLen us)
  rw [Bool.eq_iff_iff, eval_eq_spec env hwf root _ _ h1, eval_eq_spec env hwf root us _ h2]
  cases root with
  | key k => simp [SpecAccount]
  | acct a =>
    simp only [SpecAccount]
    have : ∀ t, t ∈ belowRoot (.acct a) (us ++ others) ↔ t ∈ belowRoot (.acct a) us := by
      intro t
      rw [mem_belowRoot, mem_belowRoot, List.mem_append]
      constructor
      · rintro ⟨hne, h | h⟩
        · exact ⟨hne, h⟩
        · exfalso
          rcases ho _ h with h' | h'
          · simp at h'
          · cases t with
            | nil => exact hne rfl
            | cons _ _ => simp at h'; omega
      · rintro ⟨hne, h⟩
        exact ⟨hne, Or.inl h⟩
    rw [verified_congr env _ _ _ this]

/-- A signer that the account's rule does not mention contributes nothing, whatever it is and whatever
hangs below it. -/
theorem nonmember_irrelevant (env : Env) (hwf : EnvWF env) (a : Nat) (x : Name) (rest : URI) (us : List URI)
    (hx : x ∉ membersOf (env (.acct a))) :
    identifyAccount env (.acct a) ((.acct a :: x :: rest) :: us) = identifyAccount env (.acct a) us := by
  have h1 := maxLen_le_max_left (maxLen ((Name.acct a :: x :: rest) :: us)) (maxLen us)
  have h2 := maxLen_le_max_right (maxLen ((Name.acct a :: x :: rest) :: us)) (maxLen us)
  rw [Bool.eq_iff_iff, eval_eq_spec env hwf _ _ _ h1, eval_eq_spec env hwf _ us _ h2]
  simp only [SpecAccount]
  apply Sat_congr
  intro m hm
  have hmx : m ≠ x := fun e => hx (e ▸ hm)
  have hb : belowRoot (.acct a) ((Name.acct a :: x :: rest) :: us) = (x :: rest) :: belowRoot (.acct a) us := by
    simp [belowRoot]
  rw [hb]
  generalize belowRoot (Name.acct a) us = ps
  generalize max (maxLen ((Name.acct a :: x :: rest) :: us)) (maxLen us) = d
  have hxm : ¬ x = m := fun e => hmx e.symm
  cases d with
  | zero =>
    cases m with
    | key k =>
      simp only [verified, List.mem_cons]
      have : ¬ ([Name.key k] = x :: rest) := by
        intro e; injection e with e1 _; exact hmx e1
      simp [this]
    | acct b => simp [verified]
  | succ d =>
    cases m with
    | key k =>
      simp only [verified, List.mem_cons]
      have : ¬ ([Name.key k] = x :: rest) := by
        intro e; injection e with e1 _; exact hmx e1
      simp [this]
    | acct b =>
      have : under (.acct b) ((x :: rest) :: ps) = under (.acct b) ps := by
        simp [under, hxm]
      simp only [verified, this]

/-- Unverified names contribute nothing: a URI in which a KEY stands before the last component (only the
last component was checked against a signature) can be added or removed freely.  This is the statement
the code violated before the repair (`v0_counts_nonterminal_key`). -/
theorem nonterminal_key_irrelevant (env : Env) (hwf : EnvWF env) (root : Name) (k : Nat) (y : Name) (rest : URI)
    (us : List URI) :
    identifyAccount env root ((root :: .key k :: y :: rest) :: us) = identifyAccount env root us := by
  have h1 := maxLen_le_max_left (maxLen ((root :: .key k :: y :: rest) :: us)) (maxLen us)
  have h2 := maxLen_le_max_right (maxLen ((root :: .key k :: y :: rest) :: us)) (maxLen us)
  rw [Bool.eq_iff_iff, eval_eq_spec env hwf _ _ _ h1, eval_eq_spec env hwf _ us _ h2]
  cases root with
  | key r => simp [SpecAccount]
  | acct a =>
    simp only [SpecAccount]
    have hb : belowRoot (.acct a) ((Name.acct a :: .key k :: y :: rest) :: us)
        = (.key k :: y :: rest) :: belowRoot (.acct a) us := by
      simp [belowRoot]
    rw [hb]
    generalize belowRoot (Name.acct a) us = ps
    generalize max (maxLen ((Name.acct a :: .key k :: y :: rest) :: us)) (maxLen us) = d
    have : verified env d ((.key k :: y :: rest) :: ps) = verified env d ps := by
      funext m
      cases d with
      | zero =>
        cases m with
        | key j => simp [verified]
        | acct b => simp [verified]
      | succ d =>
        cases m with
        | key j => simp [verified]
        | acct b =>
          have : under (.acct b) ((.key k :: y :: rest) :: ps) = under (.acct b) ps := by
            simp [under]
          simp only [verified, this]
    rw [this]

/-! ## C11, last sentence: changing a rule needs the owner's rule currently in force -/

/-- what `verifyRWSetPermission` must have established for one element of the write set -/
def WriteAuthorised (ch : Chain) (auth : List URI) : Write → Prop
  | .account a => identifyAccount ch.env a auth = true
  | .method c => ∃ o, ch.owner c = some o ∧ identifyAccount ch.env o auth = true
  | .methodBadKey => False
  | .c2a none => False
  | .c2a (some a) => identifyAccount ch.env a auth = true
  | .other => True

theorem verifyWrites_sound (ch : Chain) (auth : List URI) :
    ∀ (ws : List Write) (ver : List Name), (∀ a ∈ ver, identifyAccount ch.env a auth = true) →
      verifyWrites ch auth ws ver = true → ∀ w ∈ ws, WriteAuthorised ch auth w := by
  intro ws
  induction ws with
  | nil => intro ver _ _ w hw; simp at hw
  | cons x xs ih =>
    intro ver hver hacc w hw
    have step : ∀ (a : Name),
        (if a ∈ ver then verifyWrites ch auth xs ver
          else if identifyAccount ch.env a auth then verifyWrites ch auth xs (a :: ver) else false) = true →
        identifyAccount ch.env a auth = true ∧ ∀ w ∈ xs, WriteAuthorised ch auth w := by
      intro a h
      by_cases hin : a ∈ ver
      · simp only [hin, if_true] at h
        exact ⟨hver a hin, ih ver hver h⟩
      · simp only [hin, if_false] at h
        by_cases hid : identifyAccount ch.env a auth = true
        · simp only [hid, if_true] at h
          refine ⟨hid, ih (a :: ver) ?_ h⟩
          intro b hb
          rcases List.mem_cons.1 hb with e | e
          · exact e ▸ hid
          · exact hver b e
        · simp [hid] at h
    rcases List.mem_cons.1 hw with e | e
    · subst e
      cases w with
      | account a => exact (step a (by simpa [verifyWrites] using hacc)).1
      | method c =>
        simp only [verifyWrites] at hacc
        cases ho : ch.owner c with
        | none => simp [ho] at hacc
        | some o =>
          simp only [ho] at hacc
          exact ⟨o, ho, (step o hacc).1⟩
      | methodBadKey => simp [verifyWrites] at hacc
      | c2a a =>
        cases a with
        | none => simp [verifyWrites] at hacc
        | some a => exact (step a (by simpa [verifyWrites] using hacc)).1
      | other => trivial
    · cases x with
      | account a => exact (step a (by simpa [verifyWrites] using hacc)).2 w e
      | method c =>
        simp only [verifyWrites] at hacc
        cases ho : ch.owner c with
        | none => simp [ho] at hacc
        | some o =>
          simp only [ho] at hacc
          exact (step o hacc).2 w e
      | methodBadKey => simp [verifyWrites] at hacc
      | c2a a =>
        cases a with
        | none => simp [verifyWrites] at hacc
        | some a => exact (step a (by simpa [verifyWrites] using hacc)).2 w e
      | other => exact ih ver hver (by simpa [verifyWrites] using hacc) w e

/-- A transaction (with contract requests) that writes the ACL of account `A`, a method ACL of contract
`c`, or the owner entry of a contract passes `verifyRWSetPermission` only if the rule of the owning account
that is in force at the confirmed tip is satisfied (`Sat`) by the verified signers of its AuthRequire.
`ver` is `verifiedID`: names already identified with the same AuthRequire. -/
theorem acl_change_needs_owner (ch : Chain) (hwf : EnvWF ch.env) (auth : List URI) (ws : List Write)
    (ver : List Name) (hver : ∀ a ∈ ver, identifyAccount ch.env a auth = true)
    (hacc : verifyRWSetPermission ch true auth ws ver = true) :
    (∀ a, Write.account a ∈ ws → SpecAccount ch.env (maxLen auth) a auth) ∧
    (∀ c, Write.method c ∈ ws → ∃ o, ch.owner c = some o ∧ SpecAccount ch.env (maxLen auth) o auth) ∧
    (∀ a, Write.c2a (some a) ∈ ws → SpecAccount ch.env (maxLen auth) a auth) ∧
    Write.methodBadKey ∉ ws ∧ Write.c2a none ∉ ws := by
  have hs := verifyWrites_sound ch auth ws ver hver (by simpa [verifyRWSetPermission] using hacc)
  refine ⟨?_, ?_, ?_, ?_, ?_⟩
  · intro a ha
    exact (eval_eq_spec ch.env hwf a auth _ (Nat.le_refl _)).1 (hs _ ha)
  · intro c hc
    obtain ⟨o, ho, hid⟩ := hs _ hc
    exact ⟨o, ho, (eval_eq_spec ch.env hwf o auth _ (Nat.le_refl _)).1 hid⟩
  · intro a ha
    exact (eval_eq_spec ch.env hwf a auth _ (Nat.le_refl _)).1 (hs _ ha)
  · intro h; exact hs _ h
  · intro h; exact hs _ h

/-! ## the defect that was repaired, and non-vacuity -/

/-- rule of account 0: key 0 alone reaches the threshold (weight 1 = 4/4, threshold 1) -/
def envVictim : Env := fun n => if n = .acct 0 then some (.thr [(.key 0, 4)] 4) else none

/-- the code BEFORE the repair accepted `acc/VictimAK/AttackerAK` although only AttackerAK (the last
component) was verified and the rule lists only VictimAK -/
theorem v0_counts_nonterminal_key :
    identifyAccountV0 envVictim (.acct 0) [[.acct 0, .key 0, .key 1]] = true := by decide

/-- ... which the specification does not allow ... -/
theorem v0_violates_spec : ¬ SpecAccount envVictim 3 (.acct 0) [[.acct 0, .key 0, .key 1]] := by decide

/-- ... and the repaired code rejects, while the victim's own signature is still accepted -/
theorem repaired_rejects_nonterminal_key :
    identifyAccount envVictim (.acct 0) [[.acct 0, .key 0, .key 1]] = false ∧
    identifyAccount envVictim (.acct 0) [[.acct 0, .key 0]] = true ∧
    identifyAccount envVictim (.acct 0) [[.acct 0, .key 0, .key 1], [.acct 0, .key 0]] = true := by decide

/-- account 0: threshold 1 with key 0 ↦ 1/2, nested account 1 ↦ 1/2; account 1: key sets {1,2} or {0} -/
def envNested : Env := fun n =>
  if n = .acct 0 then some (.thr [(.key 0, 2), (.acct 1, 2)] 4)
  else if n = .acct 1 then some (.sets [[.key 1, .key 2], [.key 0]])
  else none

theorem envNested_wf : EnvWF envNested := by
  intro n ms theta h
  unfold envNested at h
  split at h
  · injection h with h; injection h with h1 _; subst h1; decide
  · split at h
    · injection h with h; injection h
    · exact absurd h (by simp)

theorem envNested_nonneg : EnvNonNeg envNested := by
  intro n ms theta h
  unfold envNested at h
  split at h
  · injection h with h; injection h with h1 _; subst h1; decide
  · split at h
    · injection h with h; injection h
    · exact absurd h (by simp)

/-- the hypotheses of the theorems are satisfiable by a non-trivial nested configuration, on which the
evaluation both accepts and rejects -/
example : EnvWF envNested ∧ EnvNonNeg envNested ∧
    identifyAccount envNested (.acct 0) [[.acct 0, .key 0], [.acct 0, .acct 1, .key 1], [.acct 0, .acct 1, .key 2]] = true ∧
    identifyAccount envNested (.acct 0) [[.acct 0, .key 0], [.acct 0, .acct 1, .key 1]] = false ∧
    identifyAccount envNested (.acct 0) [[.acct 0, .key 0], [.acct 1, .key 0]] = false :=
  ⟨envNested_wf, envNested_nonneg, by decide, by decide, by decide⟩

/-- key 1 carries a negative weight -/
def envNeg : Env := fun n => if n = .acct 0 then some (.thr [(.key 0, 4), (.key 1, -4)] 4) else none

/-- monotonicity needs the non-negativity hypothesis: with a negative weight an extra signer revokes -/
theorem eval_monotone_needs_nonneg :
    ∃ (env : Env) (us us' : List URI), EnvWF env ∧ (∀ u, u ∈ us → u ∈ us') ∧
      identifyAccount env (.acct 0) us = true ∧ identifyAccount env (.acct 0) us' = false := by
  refine ⟨envNeg,
    [[.acct 0, .key 0]], [[.acct 0, .key 0], [.acct 0, .key 1]], ?_, ?_, by decide, by decide⟩
  · intro n ms theta h
    unfold envNeg at h
    split at h
    · injection h with h; injection h with h1 _; subst h1; decide
    · exact absurd h (by simp)
  · intro u hu
    simp at hu
    simp [hu]

/-- `acl_change_needs_owner` is not vacuous: a transaction signed by key 0 may rewrite account 0's ACL and
a method ACL of contract 7 (owned by account 0); one signed by key 1 may not -/
example :
    verifyRWSetPermission ⟨envVictim, fun c => if c = 7 then some (.acct 0) else none⟩ true
      [[.acct 0, .key 0]] [.account (.acct 0), .method 7, .other] [] = true ∧
    verifyRWSetPermission ⟨envVictim, fun c => if c = 7 then some (.acct 0) else none⟩ true
      [[.acct 0, .key 1]] [.other, .method 7] [] = false ∧
    verifyRWSetPermission ⟨envVictim, fun c => if c = 7 then some (.acct 0) else none⟩ true
      [[.acct 0, .key 0]] [.method 8] [] = false := by decide

end XV.C11
