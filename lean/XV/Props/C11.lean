import XV.Model.Acl
import XV.Lemmas.Acl
/-!
# C11 — access-control evaluation is sound, monotone and counts each signer once

Theorems about `XV.Acl`, the model of `IdentifyAccount` / `CheckContractMethodPerm` /
`verifyRWSetPermission` after the repair of the non-terminal-key defect (helper lemmas: `XV/Lemmas/Acl.lean`).

Hypotheses used: `EnvWF env` — the member names of every threshold rule are pairwise distinct (`AksWeight` is a
Go map); `EnvNonNeg env` — all weights are non-negative (only for monotonicity).  `d` is any bound on the
nesting depth with `maxLen us ≤ d` (the real code has no bound; `nodeStatus_fuel` shows the bound is immaterial).
-/
namespace XV.C11
open XV.Acl

/-! ## C11, first sentence: the evaluation accepts exactly when the rule is satisfied by the verified signers -/

/-- `IdentifyAccount` accepts iff the account's rule is satisfied (`Sat`: the weights of the members that
are verified reach the threshold, or some listed non-empty key set consists of verified names) by the
names verified at the top level of the URIs that start with the account — for every rule environment,
every URI list and every sufficient nesting bound. -/
theorem eval_eq_spec (env : Env) (hwf : EnvWF env) (root : Name) (us : List URI) (d : Nat) (hd : maxLen us ≤ d) :
    identifyAccount env root us = true ↔ SpecAccount env d root us := by
  rw [identifyAccount_eq_D env root us d hd]
  exact identifyAccountD_iff_spec env hwf d root us

/-- the same for a contract-method rule (`CheckContractMethodPerm`) -/
theorem eval_eq_spec_method (env : Env) (hwf : EnvWF env) (rule : Option Rule) (hr : RuleWF rule)
    (us : List URI) (d : Nat) (hd : maxLen us ≤ d) :
    checkMethodPerm env rule us = true ↔ SpecMethod env d rule us := by
  rw [checkMethodPerm_eq_D env rule us d hd]
  exact checkMethodPermD_iff_spec env hwf d rule hr us

/-- the nesting bound of the specification is immaterial once it covers the longest URI -/
theorem spec_bound_irrelevant (env : Env) (hwf : EnvWF env) (root : Name) (us : List URI) (d d' : Nat)
    (h : maxLen us ≤ d) (h' : maxLen us ≤ d') : SpecAccount env d root us ↔ SpecAccount env d' root us := by
  rw [← eval_eq_spec env hwf root us d h, ← eval_eq_spec env hwf root us d' h']

/-- The headline statement for a plain threshold rule over keys: the account accepts exactly when the
weights of the listed keys `m` for which a URI `account/m` was presented (i.e. `m` signed) reach the
threshold — each member once, whatever else is in the URI list. -/
theorem eval_flat_threshold (env : Env) (hwf : EnvWF env) (a : Nat) (ms : List (Name × Int)) (theta : Int)
    (h : env (.acct a) = some (.thr ms theta)) (hk : ∀ m ∈ ms.map Prod.fst, ∃ k, m = .key k) (us : List URI) :
    identifyAccount env (.acct a) us = true ↔
      theta ≤ memberSum ms (fun m => decide ([Name.acct a, m] ∈ us)) := by
  rw [eval_eq_spec env hwf _ us _ (Nat.le_refl _)]
  simp only [SpecAccount, h, Sat]
  rw [memberSum_congr ms _ (fun m => decide ([Name.acct a, m] ∈ us))]
  intro m hm
  obtain ⟨k, rfl⟩ := hk m hm
  rw [verified_key]
  simp [mem_belowRoot]

/-- The headline statement for a key-set rule over keys: the account accepts exactly when some listed
non-empty set has all its keys among the signers presented as `account/key`. -/
theorem eval_flat_sets (env : Env) (hwf : EnvWF env) (a : Nat) (ss : List (List Name))
    (h : env (.acct a) = some (.sets ss)) (hk : ∀ set ∈ ss, ∀ m ∈ set, ∃ k, m = .key k) (us : List URI) :
    identifyAccount env (.acct a) us = true ↔
      ∃ set ∈ ss, set ≠ [] ∧ ∀ m ∈ set, [Name.acct a, m] ∈ us := by
  rw [eval_eq_spec env hwf _ us _ (Nat.le_refl _)]
  simp only [SpecAccount, h, Sat]
  constructor
  · rintro ⟨set, h1, h2, h3⟩
    refine ⟨set, h1, h2, fun m hm => ?_⟩
    obtain ⟨k, rfl⟩ := hk set h1 m hm
    have := h3 _ hm
    rw [verified_key] at this
    simpa [mem_belowRoot] using this
  · rintro ⟨set, h1, h2, h3⟩
    refine ⟨set, h1, h2, fun m hm => ?_⟩
    obtain ⟨k, rfl⟩ := hk set h1 m hm
    rw [verified_key]
    simpa [mem_belowRoot] using h3 _ hm

/-! ## C11: monotone, each signer once, outsiders and unverified names contribute nothing -/

/-- Adding signer URIs never turns acceptance into rejection when all weights are non-negative. -/
theorem eval_monotone (env : Env) (hwf : EnvWF env) (hnn : EnvNonNeg env) (root : Name) (us us' : List URI)
    (hsub : ∀ u, u ∈ us → u ∈ us') :
    identifyAccount env root us = true → identifyAccount env root us' = true := by
  have h1 := maxLen_le_max_left (maxLen us) (maxLen us')
  have h2 := maxLen_le_max_right (maxLen us) (maxLen us')
  rw [eval_eq_spec env hwf root us _ h1, eval_eq_spec env hwf root us' _ h2]
  cases root with
  | key k => simp [SpecAccount]
  | acct a =>
    simp only [SpecAccount]
    exact Sat_mono _ (hnn _) _ _ (verified_mono env hnn _ _ _ (belowRoot_subset _ us us' hsub))

theorem eval_monotone_method (env : Env) (hwf : EnvWF env) (hnn : EnvNonNeg env) (rule : Option Rule)
    (hr : RuleWF rule) (hrn : NonNeg rule) (us us' : List URI) (hsub : ∀ u, u ∈ us → u ∈ us') :
    checkMethodPerm env rule us = true → checkMethodPerm env rule us' = true := by
  have h1 := maxLen_le_max_left (maxLen us) (maxLen us')
  have h2 := maxLen_le_max_right (maxLen us) (maxLen us')
  rw [eval_eq_spec_method env hwf rule hr us _ h1, eval_eq_spec_method env hwf rule hr us' _ h2]
  exact Sat_mono _ hrn _ _ (verified_mono env hnn _ _ _ hsub)

/-- The evaluation depends only on the set of signer URIs: repeated entries and order are irrelevant
(multiset → set). -/
theorem dup_irrelevant (env : Env) (hwf : EnvWF env) (root : Name) (us us' : List URI)
    (hset : ∀ u, u ∈ us ↔ u ∈ us') : identifyAccount env root us = identifyAccount env root us' := by
  have h1 := maxLen_le_max_left (maxLen us) (maxLen us')
  have h2 := maxLen_le_max_right (maxLen us) (maxLen us')
  rw [Bool.eq_iff_iff, eval_eq_spec env hwf root us _ h1, eval_eq_spec env hwf root us' _ h2]
  cases root with
  | key k => simp [SpecAccount]
  | acct a =>
    simp only [SpecAccount]
    have : ∀ t, t ∈ belowRoot (.acct a) us ↔ t ∈ belowRoot (.acct a) us' := by
      intro t; rw [mem_belowRoot, mem_belowRoot, hset]
    rw [verified_congr env _ _ _ this]

theorem dup_irrelevant_method (env : Env) (hwf : EnvWF env) (rule : Option Rule) (hr : RuleWF rule)
    (us us' : List URI) (hset : ∀ u, u ∈ us ↔ u ∈ us') :
    checkMethodPerm env rule us = checkMethodPerm env rule us' := by
  have h1 := maxLen_le_max_left (maxLen us) (maxLen us')
  have h2 := maxLen_le_max_right (maxLen us) (maxLen us')
  rw [Bool.eq_iff_iff, eval_eq_spec_method env hwf rule hr us _ h1, eval_eq_spec_method env hwf rule hr us' _ h2]
  simp only [SpecMethod]
  rw [verified_congr env _ _ _ hset]

/-- a signer presented twice counts once -/
theorem repeated_uri_irrelevant (env : Env) (hwf : EnvWF env) (root : Name) (u : URI) (us : List URI)
    (hu : u ∈ us) : identifyAccount env root (u :: us) = identifyAccount env root us := by
  apply dup_irrelevant env hwf
  intro v
  simp only [List.mem_cons]
  constructor
  · rintro (e | e)
    · exact e ▸ hu
    · exact e
  · exact Or.inr

/-- Signers of other accounts contribute nothing: URIs that do not start with the account (or have a
single component) can be added or removed freely. -/
theorem outsiders_irrelevant (env : Env) (hwf : EnvWF env) (root : Name) (us others : List URI)
    (ho : ∀ u ∈ others, u.head? ≠ some root ∨ u.length < 2) :
    identifyAccount env root (us ++ others) = identifyAccount env root us := by
  have h1 := maxLen_le_max_left (maxLen (us ++ others)) (maxLen us)
  have h2 := maxLen_le_max_right (maxLen (us ++ others)) (maxLen us)
  rw [Bool.eq_iff_iff, eval_eq_spec env hwf root _ _ h1, eval_eq_spec env hwf root us _ h2]
  cases root with
  | key k => simp [SpecAccount]
  | acct a =>
    simp only [SpecAccount]
    have : ∀ t, t ∈ belowRoot (.acct a) (us ++ others) ↔ t ∈ belowRoot (.acct a) us := by
      intro t
      rw [mem_belowRoot, mem_belowRoot, List.mem_append]
      constructor
      · rintro ⟨hne, h | h⟩
        · exact ⟨hne, h⟩
        · exfalso
          rcases ho _ h with h' | h'
          · simp at h'
          · cases t with
            | nil => exact hne rfl
            | cons _ _ => simp at h'; omega
      · rintro ⟨hne, h⟩
        exact ⟨hne, Or.inl h⟩
    rw [verified_congr env _ _ _ this]

/-- A signer that the account's rule does not mention contributes nothing, whatever it is and whatever
hangs below it. -/
theorem nonmember_irrelevant (env : Env) (hwf : EnvWF env) (a : Nat) (x : Name) (rest : URI) (us : List URI)
    (hx : x ∉ membersOf (env (.acct a))) :
    identifyAccount env (.acct a) ((.acct a :: x :: rest) :: us) = identifyAccount env (.acct a) us := by
  have h1 := maxLen_le_max_left (maxLen ((Name.acct a :: x :: rest) :: us)) (maxLen us)
  have h2 := maxLen_le_max_right (maxLen ((Name.acct a :: x :: rest) :: us)) (maxLen us)
  rw [Bool.eq_iff_iff, eval_eq_spec env hwf _ _ _ h1, eval_eq_spec env hwf _ us _ h2]
  simp only [SpecAccount]
  apply Sat_congr
  intro m hm
  have hmx : m ≠ x := fun e => hx (e ▸ hm)
  have hb : belowRoot (.acct a) ((Name.acct a :: x :: rest) :: us) = (x :: rest) :: belowRoot (.acct a) us := by
    simp [belowRoot]
  rw [hb]
  generalize belowRoot (Name.acct a) us = ps
  generalize max (maxLen ((Name.acct a :: x :: rest) :: us)) (maxLen us) = d
  have hxm : ¬ x = m := fun e => hmx e.symm
  cases d with
  | zero =>
    cases m with
    | key k =>
      simp only [verified, List.mem_cons]
      have : ¬ ([Name.key k] = x :: rest) := by
        intro e; injection e with e1 _; exact hmx e1
      simp [this]
    | acct b => simp [verified]
  | succ d =>
    cases m with
    | key k =>
      simp only [verified, List.mem_cons]
      have : ¬ ([Name.key k] = x :: rest) := by
        intro e; injection e with e1 _; exact hmx e1
      simp [this]
    | acct b =>
      have : under (.acct b) ((x :: rest) :: ps) = under (.acct b) ps := by
        simp [under, hxm]
      simp only [verified, this]

/-- Unverified names contribute nothing: a URI in which a KEY stands before the last component (only the
last component was checked against a signature) can be added or removed freely.  This is the statement
the code violated before the repair (`v0_counts_nonterminal_key`). -/
theorem nonterminal_key_irrelevant (env : Env) (hwf : EnvWF env) (root : Name) (k : Nat) (y : Name) (rest : URI)
    (us : List URI) :
    identifyAccount env root ((root :: .key k :: y :: rest) :: us) = identifyAccount env root us := by
  have h1 := maxLen_le_max_left (maxLen ((root :: .key k :: y :: rest) :: us)) (maxLen us)
  have h2 := maxLen_le_max_right (maxLen ((root :: .key k :: y :: rest) :: us)) (maxLen us)
  rw [Bool.eq_iff_iff, eval_eq_spec env hwf _ _ _ h1, eval_eq_spec env hwf _ us _ h2]
  cases root with
  | key r => simp [SpecAccount]
  | acct a =>
    simp only [SpecAccount]
    have hb : belowRoot (.acct a) ((Name.acct a :: .key k :: y :: rest) :: us)
        = (.key k :: y :: rest) :: belowRoot (.acct a) us := by
      simp [belowRoot]
    rw [hb]
    generalize belowRoot (Name.acct a) us = ps
    generalize max (maxLen ((Name.acct a :: .key k :: y :: rest) :: us)) (maxLen us) = d
    have : verified env d ((.key k :: y :: rest) :: ps) = verified env d ps := by
      funext m
      cases d with
      | zero =>
        cases m with
        | key j => simp [verified]
        | acct b => simp [verified]
      | succ d =>
        cases m with
        | key j => simp [verified]
        | acct b =>
          have : under (.acct b) ((.key k :: y :: rest) :: ps) = under (.acct b) ps := by
            simp [under]
          simp only [verified, this]
    rw [this]

/-! ## C11, last sentence: changing a rule needs the owner's rule currently in force -/

/-- A transaction (with contract requests) that writes the ACL of account `A`, a method ACL of contract
`c`, or the owner entry of a contract passes `verifyRWSetPermission` only if the rule of the owning account
that is in force at the confirmed tip is satisfied (`Sat`) by the verified signers of its AuthRequire.
`ver` is `verifiedID`: names already identified with the same AuthRequire. -/
theorem acl_change_needs_owner (ch : Chain) (hwf : EnvWF ch.env) (auth : List URI) (ws : List Write)
    (ver : List Name) (hver : ∀ a ∈ ver, identifyAccount ch.env a auth = true)
    (hacc : verifyRWSetPermission ch true auth ws ver = true) :
    (∀ a, Write.account a ∈ ws → SpecAccount ch.env (maxLen auth) a auth) ∧
    (∀ c, Write.method c ∈ ws → ∃ o, ch.owner c = some o ∧ SpecAccount ch.env (maxLen auth) o auth) ∧
    (∀ a, Write.c2a (some a) ∈ ws → SpecAccount ch.env (maxLen auth) a auth) ∧
    Write.methodBadKey ∉ ws ∧ Write.c2a none ∉ ws := by
  have hs := verifyWrites_sound ch auth ws ver hver (by simpa [verifyRWSetPermission] using hacc)
  refine ⟨?_, ?_, ?_, ?_, ?_⟩
  · intro a ha
    exact (eval_eq_spec ch.env hwf a auth _ (Nat.le_refl _)).1 (hs _ ha)
  · intro c hc
    obtain ⟨o, ho, hid⟩ := hs _ hc
    exact ⟨o, ho, (eval_eq_spec ch.env hwf o auth _ (Nat.le_refl _)).1 hid⟩
  · intro a ha
    exact (eval_eq_spec ch.env hwf a auth _ (Nat.le_refl _)).1 (hs _ ha)
  · intro h; exact hs _ h
  · intro h; exact hs _ h

/-! ## the defect that was repaired, and non-vacuity -/

/-- rule of account 0: key 0 alone reaches the threshold (weight 1 = 4/4, threshold 1) -/
def envVictim : Env := fun n => if n = .acct 0 then some (.thr [(.key 0, 4)] 4) else none

/-- the code BEFORE the repair accepted `acc/VictimAK/AttackerAK` although only AttackerAK (the last
component) was verified and the rule lists only VictimAK -/
theorem v0_counts_nonterminal_key :
    identifyAccountV0 envVictim (.acct 0) [[.acct 0, .key 0, .key 1]] = true := by decide

/-- ... which the specification does not allow ... -/
theorem v0_violates_spec : ¬ SpecAccount envVictim 3 (.acct 0) [[.acct 0, .key 0, .key 1]] := by decide

/-- ... and the repaired code rejects, while the victim's own signature is still accepted -/
theorem repaired_rejects_nonterminal_key :
    identifyAccount envVictim (.acct 0) [[.acct 0, .key 0, .key 1]] = false ∧
    identifyAccount envVictim (.acct 0) [[.acct 0, .key 0]] = true ∧
    identifyAccount envVictim (.acct 0) [[.acct 0, .key 0, .key 1], [.acct 0, .key 0]] = true := by decide

/-- account 0: threshold 1 with key 0 ↦ 1/2, nested account 1 ↦ 1/2; account 1: key sets {1,2} or {0} -/
def envNested : Env := fun n =>
  if n = .acct 0 then some (.thr [(.key 0, 2), (.acct 1, 2)] 4)
  else if n = .acct 1 then some (.sets [[.key 1, .key 2], [.key 0]])
  else none

theorem envNested_wf : EnvWF envNested := by
  intro n ms theta h
  unfold envNested at h
  split at h
  · injection h with h; injection h with h1 _; subst h1; decide
  · split at h
    · injection h with h; injection h
    · exact absurd h (by simp)

theorem envNested_nonneg : EnvNonNeg envNested := by
  intro n ms theta h
  unfold envNested at h
  split at h
  · injection h with h; injection h with h1 _; subst h1; decide
  · split at h
    · injection h with h; injection h
    · exact absurd h (by simp)

/-- the hypotheses of the theorems are satisfiable by a non-trivial nested configuration, on which the
evaluation both accepts and rejects -/
example : EnvWF envNested ∧ EnvNonNeg envNested ∧
    identifyAccount envNested (.acct 0) [[.acct 0, .key 0], [.acct 0, .acct 1, .key 1], [.acct 0, .acct 1, .key 2]] = true ∧
    identifyAccount envNested (.acct 0) [[.acct 0, .key 0], [.acct 0, .acct 1, .key 1]] = false ∧
    identifyAccount envNested (.acct 0) [[.acct 0, .key 0], [.acct 1, .key 0]] = false :=
  ⟨envNested_wf, envNested_nonneg, by decide, by decide, by decide⟩

/-- key 1 carries a negative weight -/
def envNeg : Env := fun n => if n = .acct 0 then some (.thr [(.key 0, 4), (.key 1, -4)] 4) else none

/-- monotonicity needs the non-negativity hypothesis: with a negative weight an extra signer revokes -/
theorem eval_monotone_needs_nonneg :
    ∃ (env : Env) (us us' : List URI), EnvWF env ∧ (∀ u, u ∈ us → u ∈ us') ∧
      identifyAccount env (.acct 0) us = true ∧ identifyAccount env (.acct 0) us' = false := by
  refine ⟨envNeg,
    [[.acct 0, .key 0]], [[.acct 0, .key 0], [.acct 0, .key 1]], ?_, ?_, by decide, by decide⟩
  · intro n ms theta h
    unfold envNeg at h
    split at h
    · injection h with h; injection h with h1 _; subst h1; decide
    · exact absurd h (by simp)
  · intro u hu
    simp at hu
    simp [hu]

/-- `acl_change_needs_owner` is not vacuous: a transaction signed by key 0 may rewrite account 0's ACL and
a method ACL of contract 7 (owned by account 0); one signed by key 1 may not -/
example :
    verifyRWSetPermission ⟨envVictim, fun c => if c = 7 then some (.acct 0) else none⟩ true
      [[.acct 0, .key 0]] [.account (.acct 0), .method 7, .other] [] = true ∧
    verifyRWSetPermission ⟨envVictim, fun c => if c = 7 then some (.acct 0) else none⟩ true
      [[.acct 0, .key 1]] [.other, .method 7] [] = false ∧
    verifyRWSetPermission ⟨envVictim, fun c => if c = 7 then some (.acct 0) else none⟩ true
      [[.acct 0, .key 0]] [.method 8] [] = false := by decide

end XV.C11
