import XV.Lemmas.Contract
import XV.Lemmas.ContractRaw
import XV.Props.C05
/-!
C09 — contract effects: what was pre-executed is what is verified and committed.

Property theorems only (helper lemmas live in `XV/Lemmas/Contract.lean`, the sandbox facts in
`XV/Lemmas/Sandbox.lean`).  Every theorem quantifies over ALL contract programs `p : Prog` — any
deterministic function from the results of the calls made so far to the next action (Get / Put / Del /
range scan with bounds and early stop in any bucket of `bks`, i.e. nested calls included, token transfer
from any address to any address, event, resource use, fail, error), every step bound `fuel`, every gas price,
every committed state `db` with the table invariant `DB.WF` (kept by every commit: `commit_wf`) and every
first-run utxo reader `R` meeting the `SelectUtxos` contract (`UReader.Lawful`, C10) in any state `st`.
Token selection and change are part of the model: the pre-execution records the inputs the reader hands
out and the outputs (payment + change) of every transfer, the verification re-executes over
`replayReader` of the DECLARED inputs and compares the transient entries `Flush` writes, and
`isContractUtxoEffective` ties the declared inputs / outputs to the real ones.  The model is the code after the
repairs e466658 and e01144a; the nested-call resource accounting of kernel contracts is modelled as it is
(known finding `preexec-not-accepted:nested-call-resources`), hence `preexec_verifies_partial`.
-/
namespace XV.C09
open XV.Sandbox XV.Contract

/-! ### the state invariant is kept -/

theorem commit_wf (db : DB) (h : db.WF) (t : Tx) : (commit db t).WF :=
  applyKOut_wf t.id t.kout _ db h

theorem submit_wf (bks : List Bucket) (price fuel : Nat) (db : DB) (h : db.WF) (t : Tx) :
    (submit bks price fuel db t).1.WF := by
  unfold submit
  split
  · exact commit_wf db h t
  · exact h

/-- every state reached from the empty one by any sequence of submissions satisfies the invariant, so the
theorems below apply along every history -/
theorem reachable_wf (bks : List Bucket) (price fuel : Nat) (txs : List Tx) :
    (txs.foldl (fun db t => (submit bks price fuel db t).1) DB.empty).WF := by
  suffices h : ∀ (l : List Tx) (db : DB), db.WF → (l.foldl (fun db t => (submit bks price fuel db t).1) db).WF from
    h txs DB.empty DB.empty_wf
  intro l
  induction l with
  | nil => intro db h; exact h
  | cons t rest ih => intro db h; exact ih _ (submit_wf bks price fuel db h t)

/-! ### re-execution over the declared reads reproduces the pre-execution -/

/-- Re-running the request over the reader built from ANY declared read set that contains the returned one
(`XMReaderFromRWSet` of what `GenRWSetFromTx` fetches for the declared keys) and over the replay reader of
the returned contract inputs followed by ANY further inputs `T` ends with the same outcome, recorded token
inputs and outputs (payments and change), events, resource use and write set, and leaves exactly `T`
unconsumed; and every returned read cites the current version. -/
theorem reexec_over_superset (bks : List Bucket) (fuel : Nat) (db : DB) (hdb : db.WF) {σ : Type} (R : UReader σ)
    (hR : R.Lawful) (st : σ) (p : Prog) (pre : Pre)
    (h : preexec bks fuel db R st p = some pre) (kin' : List REntry) (hsup : ∀ e ∈ pre.kin, e ∈ kin')
    (T : List TxIn) :
    readsCurrent db pre.kin = true ∧
    ∃ y, exec bks (memReader (rsOf db kin')) replayReader p fuel (Ctx.init (pre.cin ++ T)) = (y, pre.outcome) ∧
      y.tok.uin = pre.cin ∧ y.tok.uout = pre.cx ∧ y.tok.rd = T ∧
      y.m.ev = pre.ev ∧ y.m.used = pre.used ∧ y.m.peak = pre.peak ∧
      wsetOf bks y.sb = pre.kout ∧ pre.used ≤ pre.peak := by
  obtain ⟨cap, hspec⟩ := hR
  obtain ⟨x, hx, hne, hkin, hkout, hcin, hcx, hev, hused, hpeak⟩ := preexec_eq h
  have hr := reader_wf hdb
  have hinv : Inv db.reader x.sb := by
    have := exec_inv bks hr R p fuel (Ctx.init st) (Inv.init _)
    rw [hx] at this; exact this
  have hconf : ∀ b, b ∉ bks → x.sb.inputs b = [] := by
    have := exec_confined bks db.reader R p fuel (Ctx.init st) (fun _ _ => rfl)
    rw [hx] at this; exact this
  have hcur : ∀ b k d, (k, d) ∈ x.sb.inputs b → d = db.cur b k := by
    intro b k d hm
    have h1 := hinv.faithful b k d (mem_find_of_sorted (hinv.sortedIn b) hm)
    rw [reader_get] at h1
    exact (Option.some.inj h1).symm
  refine ⟨?_, ?_⟩
  · rw [hkin]
    simp only [readsCurrent, List.all_eq_true, beq_iff_eq]
    rintro ⟨b, k, v⟩ he
    obtain ⟨_, d, hm, hv⟩ := mem_rsetOf.mp he
    simp only
    rw [← hcur b k d hm, hv]
  · have hsub : ∀ b k d, (exec bks db.reader R p fuel (Ctx.init st)).1.sb.inputs.get b k = some d →
        find k (rsOf db kin' b) = some d := by
      intro b k d hd
      rw [hx] at hd
      have hm : (k, d) ∈ x.sb.inputs b := find_some_mem hd
      have hb : b ∈ bks := by
        apply Classical.byContradiction
        intro hn
        rw [hconf b hn] at hm
        simp at hm
      rw [rsOf_mem db kin' b k ⟨d.ver, hsup _ (by rw [hkin]; exact mem_rsetOf.mpr ⟨hb, d, hm, rfl⟩)⟩,
        hcur b k d hm]
    have hfaith : ∀ b k d, find k (rsOf db kin' b) = some d → db.reader.get b k = some d := by
      intro b k d hd
      rw [reader_get, rsOf_faith db kin' b k d hd]
    obtain ⟨e1, e2, e3, e4, e5, e6⟩ := exec_replay bks hr (rsOf db kin') (rsOf_sorted db kin') hfaith hspec p T fuel
      (Ctx.init st) (Ctx.init (pre.cin ++ T)) (Inv.init _) (Inv.init _) rfl rfl rfl rfl
      (by rw [hx]; exact hne) hsub (by rw [hx]; simp [Ctx.init, hcin])
    rw [hx] at e1 e2 e3 e4 e5
    generalize exec bks (memReader (rsOf db kin')) replayReader p fuel (Ctx.init (pre.cin ++ T)) = res at e1 e2 e3 e4 e5 e6
    obtain ⟨y, o⟩ := res
    simp only at e1 e2 e3 e4 e5 e6
    subst e1
    refine ⟨y, rfl, by rw [e4, hcin], by rw [e5, hcx], e6, by rw [e2, hev], by rw [e2, hused], by rw [e2, hpeak], ?_, ?_⟩
    · rw [hkout]; simp only [wsetOf, e3]
    · rw [hused, hpeak]
      have := exec_used_le_peak bks db.reader R p fuel (Ctx.init st) (Nat.le_refl _)
      rw [hx] at this; exact this

/-- the special case of exactly the returned read set and exactly the returned contract inputs -/
theorem reexec_of_preexec (bks : List Bucket) (fuel : Nat) (db : DB) (hdb : db.WF) {σ : Type} (R : UReader σ)
    (hR : R.Lawful) (st : σ) (p : Prog) (pre : Pre)
    (h : preexec bks fuel db R st p = some pre) :
    readsCurrent db pre.kin = true ∧
    ∃ y, exec bks (memReader (rsOf db pre.kin)) replayReader p fuel (Ctx.init pre.cin) = (y, pre.outcome) ∧
      y.tok.uin = pre.cin ∧ y.tok.uout = pre.cx ∧ y.tok.rd = [] ∧
      y.m.ev = pre.ev ∧ y.m.used = pre.used ∧ y.m.peak = pre.peak ∧
      wsetOf bks y.sb = pre.kout ∧ pre.used ≤ pre.peak := by
  have := reexec_over_superset bks fuel db hdb R hR st p pre h pre.kin (fun _ he => he) []
  simpa using this

/-- outside the transient bucket every returned write is on a key of the returned read set -/
theorem preexec_writes_read (bks : List Bucket) (hb : transient ∉ bks) (fuel : Nat) (db : DB) (hdb : db.WF)
    {σ : Type} (R : UReader σ) (st : σ) (p : Prog) (pre : Pre) (h : preexec bks fuel db R st p = some pre) :
    ∀ w ∈ pre.kout, ∃ r ∈ pre.kin, r.1 = w.1 ∧ r.2.1 = w.2.1 := by
  obtain ⟨x, hx, _, hkin, hkout, _⟩ := preexec_eq h
  have hr := reader_wf hdb
  have hinv : Inv db.reader x.sb := by
    have := exec_inv bks hr R p fuel (Ctx.init st) (Inv.init _)
    rw [hx] at this; exact this
  have hwr : WR x.sb := by
    have := exec_wr bks hr (reader_total db) R p fuel (Ctx.init st) (Inv.init _) WR.init
    rw [hx] at this; exact this
  rintro ⟨b, k, v⟩ hw
  rw [hkout] at hw
  obtain ⟨hbk, d, hm, _⟩ := mem_wsetOf.mp hw
  have hne : b ≠ transient := fun e => hb (e ▸ hbk)
  have hout : x.sb.outputs.get b k ≠ none := by
    have := mem_find_of_sorted (hinv.sortedOut b) hm
    simp only [Store.get]; rw [this]; simp
  have hin := hwr b k hne hout
  cases hd : x.sb.inputs.get b k with
  | none => exact absurd hd hin
  | some d' =>
    refine ⟨(b, k, d'.ver), ?_, rfl, rfl⟩
    rw [hkin]
    exact mem_rsetOf.mpr ⟨hbk, d', find_some_mem hd, rfl⟩

/-! ### pre-executed ⇒ verified -/

/-- the assembled transaction's declared contract inputs and outputs are its real inputs and outputs -/
theorem assemble_effective (price id : Nat) (p : Prog) (pre : Pre) : effective (assemble price id p pre) = true := by
  simp only [effective, assemble, Bool.and_eq_true, decide_eq_true_eq, List.length_map, List.all_eq_true,
    List.contains_iff_mem]
  exact ⟨⟨⟨by simp, by simp⟩, fun u hu => List.mem_map.mpr ⟨u, hu, rfl⟩⟩, subMulti_refl _⟩

/-- The transaction assembled from a successful pre-execution passes the whole verification against the
same state — whatever the contract transferred and however the first-run reader covered it (one input,
several inputs, exactly or with change, any number of transfers) — provided no nested call needs more
resources than the contract's own use leaves (`pre.peak ≤ pre.used`; always true without resource-using
nested calls). -/
theorem preexec_verifies_partial (bks : List Bucket) (hb : transient ∉ bks) (price fuel id : Nat) (db : DB)
    (hdb : db.WF) {σ : Type} (R : UReader σ) (hR : R.Lawful) (st : σ) (p : Prog) (pre : Pre)
    (h : preexec bks fuel db R st p = some pre) (hok : pre.outcome = .ok)
    (hpeak : pre.peak ≤ pre.used) :
    verify bks price fuel db (assemble price id p pre) = true := by
  obtain ⟨hcur, y, hy, hui, huo, _, hev, _, hpk, hw, _⟩ := reexec_of_preexec bks fuel db hdb R hR st p pre h
  have hwr := preexec_writes_read bks hb fuel db hdb R st p pre h
  have heff := assemble_effective price id p pre
  simp only [verify, Bool.and_eq_true]
  refine ⟨⟨⟨⟨hcur, by simp [assemble]⟩, heff⟩, ?_⟩, ?_⟩
  · simp only [reexecOK, assemble, hy, hok]
    simp only [Bool.and_eq_true, beq_iff_eq]
    exact ⟨⟨by rw [hpk]; exact decide_eq_true hpeak, by rw [hw]; exact sameSet_refl _⟩, by rw [hui, huo, hev]⟩
  · simp only [writesRead, assemble, List.all_eq_true, List.any_eq_true, Bool.and_eq_true, beq_iff_eq]
    intro w hwm
    obtain ⟨r, hr, h1, h2⟩ := hwr w hwm
    exact ⟨r, hr, h1, h2⟩

/-- consequently it is committed by `SubmitTx` -/
theorem preexec_submits_partial (bks : List Bucket) (hb : transient ∉ bks) (price fuel id : Nat) (db : DB)
    (hdb : db.WF) {σ : Type} (R : UReader σ) (hR : R.Lawful) (st : σ) (p : Prog) (pre : Pre)
    (h : preexec bks fuel db R st p = some pre) (hok : pre.outcome = .ok)
    (hpeak : pre.peak ≤ pre.used) :
    submit bks price fuel db (assemble price id p pre) = (commit db (assemble price id p pre), true) := by
  unfold submit
  rw [preexec_verifies_partial bks hb price fuel id db hdb R hR st p pre h hok hpeak]
  rfl

/-- Declaring additional reads that cite current versions is harmless (the property does not ask for their
rejection): the transaction still verifies — the re-execution never looks at a key the first run did not. -/
theorem extra_current_reads_accepted (bks : List Bucket) (hb : transient ∉ bks) (price fuel id : Nat) (db : DB)
    (hdb : db.WF) {σ : Type} (R : UReader σ) (hR : R.Lawful) (st : σ) (p : Prog) (pre : Pre)
    (h : preexec bks fuel db R st p = some pre) (hok : pre.outcome = .ok)
    (hpeak : pre.peak ≤ pre.used) (extra : List REntry) (hx : readsCurrent db extra = true) :
    verify bks price fuel db { assemble price id p pre with kin := pre.kin ++ extra } = true := by
  obtain ⟨hcur, y, hy, hui, huo, _, hev, _, hpk, hw, _⟩ :=
    reexec_over_superset bks fuel db hdb R hR st p pre h (pre.kin ++ extra) (fun _ he => List.mem_append_left _ he) []
  rw [List.append_nil] at hy
  have hwr := preexec_writes_read bks hb fuel db hdb R st p pre h
  have heff := assemble_effective price id p pre
  simp only [verify, Bool.and_eq_true]
  refine ⟨⟨⟨⟨?_, by simp [assemble]⟩, heff⟩, ?_⟩, ?_⟩
  · simp only [readsCurrent, List.all_append, Bool.and_eq_true] at hcur hx ⊢
    exact ⟨hcur, hx⟩
  · simp only [reexecOK, assemble, hy, hok]
    simp only [Bool.and_eq_true, beq_iff_eq]
    exact ⟨⟨by rw [hpk]; exact decide_eq_true hpeak, by rw [hw]; exact sameSet_refl _⟩, by rw [hui, huo, hev]⟩
  · simp only [writesRead, assemble, List.all_eq_true, List.any_eq_true, Bool.and_eq_true, beq_iff_eq]
    intro w hwm
    obtain ⟨r, hr, h1, h2⟩ := hwr w hwm
    exact ⟨r, List.mem_append_left _ hr, h1, h2⟩

/-- Declaring the returned write set in another order is accepted too (`xmodel.Equal` sorts both sides);
the versions the commit assigns then follow the declared order (`commit_exact`). -/
theorem permuted_writes_accepted (bks : List Bucket) (hb : transient ∉ bks) (price fuel id : Nat) (db : DB)
    (hdb : db.WF) {σ : Type} (R : UReader σ) (hR : R.Lawful) (st : σ) (p : Prog) (pre : Pre)
    (h : preexec bks fuel db R st p = some pre) (hok : pre.outcome = .ok)
    (hpeak : pre.peak ≤ pre.used) (kout' : List WEntry) (hlen : kout'.length = pre.kout.length)
    (h1 : ∀ w ∈ pre.kout, w ∈ kout') (h2 : ∀ w ∈ kout', w ∈ pre.kout) :
    verify bks price fuel db { assemble price id p pre with kout := kout' } = true := by
  obtain ⟨hcur, y, hy, hui, huo, _, hev, _, hpk, hw, _⟩ := reexec_of_preexec bks fuel db hdb R hR st p pre h
  have hwr := preexec_writes_read bks hb fuel db hdb R st p pre h
  have heff := assemble_effective price id p pre
  simp only [verify, Bool.and_eq_true]
  refine ⟨⟨⟨⟨hcur, by simp [assemble]⟩, heff⟩, ?_⟩, ?_⟩
  · simp only [reexecOK, assemble, hy, hok]
    simp only [Bool.and_eq_true, beq_iff_eq]
    refine ⟨⟨by rw [hpk]; exact decide_eq_true hpeak, ?_⟩, by rw [hui, huo, hev]⟩
    rw [hw]
    simp only [sameSet, Bool.and_eq_true, beq_iff_eq, List.all_eq_true]
    exact ⟨hlen, fun w hwm => by simpa using h1 w hwm⟩
  · simp only [writesRead, assemble, List.all_eq_true, List.any_eq_true, Bool.and_eq_true, beq_iff_eq]
    intro w hwm
    obtain ⟨r, hr, e1, e2⟩ := hwr w (h2 w hwm)
    exact ⟨r, hr, e1, e2⟩

/-- the statement without the resource hypothesis -/
def preexec_verifies_statement : Prop :=
  ∀ (bks : List Bucket), transient ∉ bks → ∀ (price fuel id : Nat) (db : DB), db.WF →
    ∀ (st : List TxIn) (p : Prog) (pre : Pre),
    preexec bks fuel db listReader st p = some pre → pre.outcome = .ok →
    verify bks price fuel db (assemble price id p pre) = true

/-- a contract whose only action is a nested call that uses one unit of resources -/
def nestedUser : Prog := fun res => if res.isEmpty then some (.subuse 1) else none

/-- It is false of the code: a kernel contract's reported resource use leaves out what its callees used
(`bridge.Context.ResourceUsed`), the client declares that as the limit, and on re-execution the callee runs
under `limit - used` and is refused ("resource exceeds"): corpus/C09/nested-call-resources.ops. -/
theorem preexec_verifies_counterexample : ¬ preexec_verifies_statement := by
  intro h
  have := h [1] (by decide) 0 5 1 DB.empty DB.empty_wf [] nestedUser
    ⟨.ok, [], [], [], [], [], 0, 1, [.done]⟩ (by decide) rfl
  revert this
  decide

/-! ### committed = declared write set, exactly -/

/-- After the commit every key holds what the LAST entry of the declared write set for it says — the
declared value (`0` = delete mark) with version `(txid, offset in TxOutputsExt)` — and every key without
an entry holds exactly what it held before (value and version). -/
theorem commit_exact (db : DB) (t : Tx) (b : Bucket) (k : Key) :
    (commit db t).cur b k =
      match lastW b k t.kout (nTransient t.cin t.cx t.ev) with
      | some (off, v) => ⟨mkVer t.id off, v⟩
      | none => db.cur b k :=
  applyKOut_cur t.id b k t.kout _ db

/-- The same for the live table that range scans iterate: a key is live afterwards iff its last entry is
not a delete; keys without an entry are live iff they were. -/
theorem commit_exact_live (db : DB) (t : Tx) (b : Bucket) (k : Key) :
    find k ((commit db t).live b) =
      match lastW b k t.kout (nTransient t.cin t.cx t.ev) with
      | some (off, v) => if v = 0 then none else some ⟨mkVer t.id off, v⟩
      | none => find k (db.live b) :=
  applyKOut_live t.id b k t.kout _ db

/-- a key the write set does not mention keeps its value and its version -/
theorem commit_untouched (db : DB) (t : Tx) (b : Bucket) (k : Key)
    (h : ∀ w ∈ t.kout, ¬ (w.1 = b ∧ w.2.1 = k)) : (commit db t).cur b k = db.cur b k := by
  rw [commit_exact, lastW_none b k t.kout _ h]

/-- a key the write set mentions gets a version of this transaction -/
theorem commit_written (db : DB) (t : Tx) (b : Bucket) (k : Key)
    (h : ∃ w ∈ t.kout, w.1 = b ∧ w.2.1 = k) :
    ∃ off v, (commit db t).cur b k = ⟨mkVer t.id off, v⟩ ∧ (∃ w ∈ t.kout, w = (b, k, v)) := by
  obtain ⟨o, v, e, _⟩ := lastW_some b k t.kout (nTransient t.cin t.cx t.ev) h
  refine ⟨o, v, by rw [commit_exact, e], ?_⟩
  -- the entry `lastW` found is an entry of the list
  have hmem : ∀ (l : List WEntry) (off o v : Nat), lastW b k l off = some (o, v) → (b, k, v) ∈ l := by
    intro l
    induction l with
    | nil => intro off o v hl; simp [lastW] at hl
    | cons e' rest ih =>
      intro off o v hl
      simp only [lastW] at hl
      cases hr : lastW b k rest (off + 1) with
      | some x =>
        rw [hr] at hl
        obtain ⟨o', v'⟩ := x
        simp only [Option.some.injEq, Prod.mk.injEq] at hl
        obtain ⟨rfl, rfl⟩ := hl
        exact List.mem_cons_of_mem _ (ih _ _ _ hr)
      | none =>
        rw [hr] at hl
        by_cases hc : e'.1 = b ∧ e'.2.1 = k
        · simp only [hc, and_self, if_true, Option.some.injEq, Prod.mk.injEq] at hl
          obtain ⟨rfl, rfl⟩ := hc
          rw [← hl.2]
          exact List.mem_cons_self ..
        · simp [hc] at hl
  exact ⟨(b, k, v), hmem _ _ _ _ e, rfl⟩

/-! ### tampered declarations are rejected -/

/-- a declared read that does not cite the current version -/
theorem tamper_read_version_rejected (bks : List Bucket) (price fuel : Nat) (db : DB) (t : Tx) (e : REntry)
    (he : e ∈ t.kin) (hv : (db.cur e.1 e.2.1).ver ≠ e.2.2) : verify bks price fuel db t = false := by
  have : readsCurrent db t.kin = false := by
    simp only [readsCurrent, List.all_eq_false, beq_iff_eq]
    exact ⟨e, he, hv⟩
  simp [verify, this]

/-- A transaction that keeps the request, the read set and the contract inputs of a pre-execution but
declares another write set (a value changed, a write dropped, a write added — anything that is not a
permutation of the returned write set) is refused: the re-execution reproduces the returned write set. -/
theorem tamper_write_rejected (bks : List Bucket) (price fuel : Nat) (db : DB) (hdb : db.WF) {σ : Type}
    (R : UReader σ) (hR : R.Lawful) (st : σ) (p : Prog)
    (pre : Pre) (h : preexec bks fuel db R st p = some pre) (t : Tx) (hp : t.prog = p) (hk : t.kin = pre.kin)
    (hi : t.cin = pre.cin) (hw : sameSet t.kout pre.kout = false) : verify bks price fuel db t = false := by
  obtain ⟨_, y, hy, _, _, _, _, _, _, hws, _⟩ := reexec_of_preexec bks fuel db hdb R hR st p pre h
  have : reexecOK bks fuel db t = false := by
    simp only [reexecOK, hp, hk, hi, hy]
    cases pre.outcome <;> simp [hws, hw]
  simp [verify, this]

/-- the declared contract outputs (transient `ContractUtxo.Outputs`: payments and change) differ from what
the contract does -/
theorem tamper_transfer_rejected (bks : List Bucket) (price fuel : Nat) (db : DB) (hdb : db.WF) {σ : Type}
    (R : UReader σ) (hR : R.Lawful) (st : σ) (p : Prog)
    (pre : Pre) (h : preexec bks fuel db R st p = some pre) (t : Tx) (hp : t.prog = p) (hk : t.kin = pre.kin)
    (hi : t.cin = pre.cin) (hc : t.cx ≠ pre.cx) : verify bks price fuel db t = false := by
  obtain ⟨_, y, hy, hui, huo, _, _, _, _, _, _⟩ := reexec_of_preexec bks fuel db hdb R hR st p pre h
  have : reexecOK bks fuel db t = false := by
    simp only [reexecOK, hp, hk, hi, hy]
    cases pre.outcome <;> simp
    intro _ _ he
    exact hc ((transientOf_inj.mp he).2.1.trans huo)
  simp [verify, this]

/-- Further contract inputs declared behind the returned ones (token outputs of anybody: a declared
contract input is exempt from the owner's signature) are refused: the re-execution does not consume them,
so the inputs `Flush` records differ from the declared ones. -/
theorem extra_contract_input_rejected (bks : List Bucket) (price fuel : Nat) (db : DB) (hdb : db.WF) {σ : Type}
    (R : UReader σ) (hR : R.Lawful) (st : σ) (p : Prog)
    (pre : Pre) (h : preexec bks fuel db R st p = some pre) (t : Tx) (hp : t.prog = p) (hk : t.kin = pre.kin)
    (extra : List TxIn) (hx : extra ≠ []) (hi : t.cin = pre.cin ++ extra) : verify bks price fuel db t = false := by
  obtain ⟨_, y, hy, hui, _, _, _, _, _, _, _⟩ :=
    reexec_over_superset bks fuel db hdb R hR st p pre h pre.kin (fun _ he => he) extra
  have : reexecOK bks fuel db t = false := by
    simp only [reexecOK, hp, hk, hi, hy]
    cases pre.outcome <;> simp
    intro _ _ he
    have := (transientOf_inj.mp he).1
    rw [hui] at this
    exact hx (List.append_cancel_left (as := pre.cin) (by simpa using this))
  simp [verify, this]

/-- the declared events differ from what the contract emits -/
theorem tamper_event_rejected (bks : List Bucket) (price fuel : Nat) (db : DB) (hdb : db.WF) {σ : Type}
    (R : UReader σ) (hR : R.Lawful) (st : σ) (p : Prog)
    (pre : Pre) (h : preexec bks fuel db R st p = some pre) (t : Tx) (hp : t.prog = p) (hk : t.kin = pre.kin)
    (hi : t.cin = pre.cin) (he : t.ev ≠ pre.ev) : verify bks price fuel db t = false := by
  obtain ⟨_, y, hy, _, _, _, hev, _, _, _, _⟩ := reexec_of_preexec bks fuel db hdb R hR st p pre h
  have : reexecOK bks fuel db t = false := by
    simp only [reexecOK, hp, hk, hi, hy]
    cases pre.outcome <;> simp
    intro _ _ hte
    exact he ((transientOf_inj.mp hte).2.2.trans hev)
  simp [verify, this]

/-- the real outputs do not contain the declared contract outputs (an output re-routed or lowered) -/
theorem reroute_rejected (bks : List Bucket) (price fuel : Nat) (db : DB) (t : Tx)
    (h : subMulti t.cx t.outs = false) : verify bks price fuel db t = false := by
  simp [verify, effective, h]

/-- An accepted transaction really pays every contract output as often as the contract made it: an output
(receiver, amount) the contract produced `n` times occurs at least `n` times among the real outputs
(`isSubOutputs` counts; one real output cannot stand for two identical contract outputs). -/
theorem accepted_pays_each_output (bks : List Bucket) (price fuel : Nat) (db : DB) (t : Tx)
    (h : verify bks price fuel db t = true) (o : TxOut) : t.cx.count o ≤ t.outs.count o := by
  simp only [verify, effective, Bool.and_eq_true] at h
  exact (subMulti_iff_count _ _).mp h.1.1.2.2 o

/-- Redirecting ONE of the contract's outputs — also one of several identical ones — is refused: the real
outputs are the declared ones with output `i` given to another receiver or another amount, plus any outputs
`extra` that do not restore it. -/
theorem redirect_one_output_rejected (bks : List Bucket) (price fuel : Nat) (db : DB) (t : Tx) (i : Nat)
    (hi : i < t.cx.length) (o' : TxOut) (hne : o' ≠ t.cx[i]) (extra : List TxOut) (hx : t.cx[i] ∉ extra)
    (ho : t.outs = t.cx.set i o' ++ extra) : verify bks price fuel db t = false := by
  apply reroute_rejected
  cases hs : subMulti t.cx t.outs with
  | false => rfl
  | true =>
    have h1 := (subMulti_iff_count _ _).mp hs t.cx[i]
    rw [ho, List.count_append, List.count_eq_zero_of_not_mem hx] at h1
    have h2 := count_set_ne t.cx i hi o' hne
    omega

/-- the declared contract inputs are not all inputs of the transaction -/
theorem input_not_spent_rejected (bks : List Bucket) (price fuel : Nat) (db : DB) (t : Tx) (u : TxIn)
    (hu : u ∈ t.cin) (hn : u.ref ∉ t.ins) : verify bks price fuel db t = false := by
  have : effective t = false := by
    have : t.cin.all (fun u => t.ins.contains u.ref) = false := by
      simp only [List.all_eq_false, List.contains_iff_mem]
      exact ⟨u, hu, hn⟩
    simp only [effective, this, Bool.and_false, Bool.false_and]
  simp [verify, this]

/-- a write to a key that is not among the declared reads (an extra write to an unread key; a read of a
written key dropped) -/
theorem write_unread_rejected (bks : List Bucket) (price fuel : Nat) (db : DB) (t : Tx) (w : WEntry)
    (hw : w ∈ t.kout) (hr : ∀ r ∈ t.kin, ¬ (r.1 = w.1 ∧ r.2.1 = w.2.1)) : verify bks price fuel db t = false := by
  have : writesRead t = false := by
    simp only [writesRead, List.all_eq_false, List.any_eq_true, Bool.and_eq_true, beq_iff_eq, not_exists, not_and]
    exact ⟨w, hw, fun r hrm h1 h2 => hr r hrm ⟨h1, h2⟩⟩
  simp [verify, this]

/-- Whatever request a transaction carries (changed arguments, method, contract) and whatever contract
inputs it declares: if it is accepted, then re-executing THAT request over the declared reads and the
declared contract inputs succeeds within the declared limit, consumes exactly the declared inputs in their
order and produces exactly the declared writes, contract outputs and events; all declared reads are
current; the fee covers the declared limit; the declared contract inputs are inputs and the declared
contract outputs are outputs of the transaction; written keys are declared reads. -/
theorem verify_sound (bks : List Bucket) (price fuel : Nat) (db : DB) (t : Tx)
    (h : verify bks price fuel db t = true) :
    readsCurrent db t.kin = true ∧ price * t.limit ≤ t.fee ∧ effective t = true ∧ writesRead t = true ∧
    ∃ y, exec bks (memReader (rsOf db t.kin)) replayReader t.prog fuel (Ctx.init t.cin) = (y, .ok) ∧
      y.m.peak ≤ t.limit ∧ sameSet t.kout (wsetOf bks y.sb) = true ∧
      t.cin = y.tok.uin ∧ t.cx = y.tok.uout ∧ t.ev = y.m.ev := by
  simp only [verify, Bool.and_eq_true, decide_eq_true_eq] at h
  obtain ⟨⟨⟨⟨h1, h2⟩, h3⟩, h4⟩, h5⟩ := h
  refine ⟨h1, h2, h3, h5, ?_⟩
  unfold reexecOK at h4
  generalize exec bks (memReader (rsOf db t.kin)) replayReader t.prog fuel (Ctx.init t.cin) = res at h4
  obtain ⟨y, o⟩ := res
  cases o with
  | ok =>
    simp only [Bool.and_eq_true, decide_eq_true_eq, beq_iff_eq] at h4
    obtain ⟨e1, e2, e3⟩ := transientOf_inj.mp h4.2
    exact ⟨y, rfl, h4.1.1, h4.1.2, e1, e2, e3⟩
  | failed => simp at h4
  | error => simp at h4

/-! ### stale reads -/

/-- A transaction pre-executed before another one committed a write to a key of its read set is refused
afterwards (the other transaction's versions are new: transaction ids are hashes of distinct transactions). -/
theorem stale_read_rejected (bks : List Bucket) (price fuel : Nat) (db : DB) (t t2 : Tx) (e : REntry)
    (he : e ∈ t.kin) (hw : ∃ w ∈ t2.kout, w.1 = e.1 ∧ w.2.1 = e.2.1)
    (hfresh : ∀ off, mkVer t2.id off ≠ e.2.2) :
    verify bks price fuel (commit db t2) t = false := by
  apply tamper_read_version_rejected bks price fuel (commit db t2) t e he
  obtain ⟨off, v, hc, _⟩ := commit_written db t2 e.1 e.2.1 hw
  rw [hc]
  exact hfresh off

/-! ### paying for the execution -/

/-- the `$` output pays less than the gas of the declared limit -/
theorem underpaid_rejected (bks : List Bucket) (price fuel : Nat) (db : DB) (t : Tx)
    (h : t.fee < price * t.limit) : verify bks price fuel db t = false := by
  have : decide (price * t.limit ≤ t.fee) = false := by simp; omega
  simp [verify, this]

/-- the declared limit is below what the execution uses -/
theorem limit_below_use_rejected (bks : List Bucket) (price fuel : Nat) (db : DB) (hdb : db.WF) {σ : Type}
    (R : UReader σ) (hR : R.Lawful) (st : σ) (p : Prog)
    (pre : Pre) (h : preexec bks fuel db R st p = some pre) (t : Tx) (hp : t.prog = p) (hk : t.kin = pre.kin)
    (hi : t.cin = pre.cin) (hl : t.limit < pre.used) : verify bks price fuel db t = false := by
  obtain ⟨_, y, hy, _, _, _, _, _, hpk, _, hle⟩ := reexec_of_preexec bks fuel db hdb R hR st p pre h
  have : reexecOK bks fuel db t = false := by
    simp only [reexecOK, hp, hk, hi, hy]
    cases pre.outcome <;> simp
    intro hc
    rw [hpk] at hc
    omega
  simp [verify, this]

/-! ### failed calls change nothing -/

/-- a call that aborts with an error yields no response to assemble -/
theorem error_call_no_response (bks : List Bucket) (fuel : Nat) (db : DB) {σ : Type} (R : UReader σ) (st : σ)
    (p : Prog) (h : (exec bks db.reader R p fuel (Ctx.init st)).2 = .error) : preexec bks fuel db R st p = none := by
  unfold preexec
  generalize exec bks db.reader R p fuel (Ctx.init st) = res at h
  obtain ⟨x, o⟩ := res
  simp only at h
  subst h
  rfl

/-- a call that fails (response status >= 400) is refused if a client assembles and submits it anyway,
whatever write set, transfers, events, limit and fee it declares -/
theorem failed_call_rejected (bks : List Bucket) (price fuel : Nat) (db : DB) (hdb : db.WF) {σ : Type}
    (R : UReader σ) (hR : R.Lawful) (st : σ) (p : Prog)
    (pre : Pre) (h : preexec bks fuel db R st p = some pre) (hf : pre.outcome ≠ .ok) (t : Tx) (hp : t.prog = p)
    (hk : t.kin = pre.kin) (hi : t.cin = pre.cin) : verify bks price fuel db t = false := by
  obtain ⟨_, y, hy, _⟩ := reexec_of_preexec bks fuel db hdb R hR st p pre h
  have : reexecOK bks fuel db t = false := by
    simp only [reexecOK, hp, hk, hi, hy]
    cases ho : pre.outcome with
    | ok => exact absurd ho hf
    | failed => rfl
    | error => rfl
  simp [verify, this]

/-- a refused submission leaves the committed state as it was -/
theorem rejected_noop (bks : List Bucket) (price fuel : Nat) (db : DB) (t : Tx)
    (h : (submit bks price fuel db t).2 = false) : (submit bks price fuel db t).1 = db := by
  unfold submit at h ⊢
  split
  · rename_i hv; simp [hv] at h
  · rfl

/-- hence a failed call changes nothing -/
theorem failed_call_noop (bks : List Bucket) (price fuel : Nat) (db : DB) (hdb : db.WF) {σ : Type}
    (R : UReader σ) (hR : R.Lawful) (st : σ) (p : Prog)
    (pre : Pre) (h : preexec bks fuel db R st p = some pre) (hf : pre.outcome ≠ .ok) (t : Tx) (hp : t.prog = p)
    (hk : t.kin = pre.kin) (hi : t.cin = pre.cin) : submit bks price fuel db t = (db, false) := by
  unfold submit
  rw [failed_call_rejected bks price fuel db hdb R hR st p pre h hf t hp hk hi]
  rfl

/-- at the level of the state machine model of C05 (all tables, the pool): a transaction `doTx` refuses —
for instance because `verifyRW` fails — leaves every table unchanged (`XV.C05.doTx_fail_noop`) -/
theorem refused_dotx_noop (e : XV.Chain.Env) (s : XV.Chain.St) (lh : Int) (i : Nat)
    (h : (XV.Chain.doTx e s lh i).2 ≠ .ok) : (XV.Chain.doTx e s lh i).1 = s :=
  XV.C05.doTx_fail_noop e s lh i h

/-! ### non-vacuity: a state with live, deleted and never-written keys, a program with a scan, data flow,
a nested call, two transfers (the first covered exactly by two inputs, the second with change), an event
and resource use -/

/-- bucket 1: key 0 live (value 5), key 1 deleted, key 3 live (value 7); bucket 2: key 0 live -/
def demoDB : DB :=
  commit (commit DB.empty
    { id := 1, prog := fun _ => none, limit := 0, fee := 0, kin := [], cin := [], cx := [], ev := [], ins := [],
      outs := [], kout := [(1, 0, 5), (1, 1, 4), (1, 3, 7), (2, 0, 9)] })
    { id := 2, prog := fun _ => none, limit := 0, fee := 0, kin := [], cin := [], cx := [], ev := [], ins := [],
      outs := [], kout := [(1, 1, 0)] }

theorem demoDB_wf : demoDB.WF := commit_wf _ (commit_wf _ DB.empty_wf _) _

/-- the unspent outputs the first-run reader selects from: address 3 (the paying account) owns four
outputs worth 5, address 7 one in between -/
def demoUtxo : List TxIn := [⟨0, 3, 5⟩, ⟨1, 3, 5⟩, ⟨2, 7, 9⟩, ⟨3, 3, 5⟩, ⟨4, 3, 5⟩]

/-- get k0; put k2 := what was read; scan [0, 9) two items; delete k3; (nested) put 2/k0; pay 10 to address 1
(two inputs, no change); pay 3 to address 2 (one input, change 2); event; burn 3 -/
def demoProg : Prog := fun res =>
  match res with
  | [] => some (.op (.get 1 0))
  | [.got (.val v)] => some (.op (.put 1 2 v))
  | [_, _] => some (.op (.sel 1 0 (some 9) 2))
  | [_, _, _] => some (.op (.del 1 3))
  | [_, _, _, _] => some (.op (.put 2 0 8))
  | [_, _, _, _, _] => some (.transfer 3 1 10)
  | [_, _, _, _, _, _] => some (.transfer 3 2 3)
  | [_, _, _, _, _, _, _] => some (.event 3)
  | [_, _, _, _, _, _, _, _] => some (.burn 3)
  | _ => none

def demoPre : Pre :=
  ⟨.ok, [(1, 0, mkVer 1 0), (1, 2, 0), (1, 3, mkVer 1 2), (2, 0, mkVer 1 3)], [(1, 2, 5), (1, 3, 0), (2, 0, 8)],
   [⟨0, 3, 5⟩, ⟨1, 3, 5⟩, ⟨3, 3, 5⟩], [⟨1, 10⟩, ⟨2, 3⟩, ⟨3, 2⟩], [3], 3, 3,
   [.got (.val 5), .done, .items (some [(0, 5), (2, 5)]), .done, .done, .done, .done, .done, .done]⟩

example : preexec [1, 2] 20 demoDB listReader demoUtxo demoProg = some demoPre := by decide
-- what the pre-execution handed out stays locked in the first-run reader
example : preexecRd [1, 2] 20 demoDB listReader demoUtxo demoProg = [⟨2, 7, 9⟩, ⟨4, 3, 5⟩] := by decide
-- the hypotheses of `preexec_verifies_partial` hold, and so does its conclusion
example : demoPre.outcome = .ok ∧ demoPre.peak ≤ demoPre.used := by decide
example : verify [1, 2] 1 20 demoDB (assemble 1 7 demoProg demoPre) = true := by decide
-- the commit: key 2 created, key 3 deleted (version of this transaction, 3 transient entries first), key 0 untouched
example : (commit demoDB (assemble 1 7 demoProg demoPre)).cur 1 2 = ⟨mkVer 7 3, 5⟩ ∧
    (commit demoDB (assemble 1 7 demoProg demoPre)).cur 1 3 = ⟨mkVer 7 4, 0⟩ ∧
    (commit demoDB (assemble 1 7 demoProg demoPre)).cur 1 0 = ⟨mkVer 1 0, 5⟩ ∧
    find 3 ((commit demoDB (assemble 1 7 demoProg demoPre)).live 1) = none := by decide
-- mutants: write value changed, re-routed output, fee lowered, limit lowered, stale version
example : verify [1, 2] 1 20 demoDB { assemble 1 7 demoProg demoPre with kout := [(1, 2, 6), (1, 3, 0), (2, 0, 8)] } = false := by decide
example : verify [1, 2] 1 20 demoDB { assemble 1 7 demoProg demoPre with outs := [⟨0, 10⟩, ⟨2, 3⟩, ⟨3, 2⟩] } = false := by decide
example : verify [1, 2] 1 20 demoDB { assemble 1 7 demoProg demoPre with fee := 2 } = false := by decide
example : verify [1, 2] 1 20 demoDB { assemble 1 7 demoProg demoPre with limit := 2 } = false := by decide
example : verify [1, 2] 1 20 (commit demoDB (assemble 1 7 demoProg demoPre)) (assemble 1 8 demoProg demoPre) = false := by decide
-- token side: a contract input dropped from the declaration, an extra one declared (somebody else's output,
-- spent as a real input too), the change output declared for another receiver (declared and real alike),
-- a declared contract input that is not an input of the transaction
example : verify [1, 2] 1 20 demoDB { assemble 1 7 demoProg demoPre with cin := [⟨0, 3, 5⟩, ⟨1, 3, 5⟩] } = false := by decide
example : verify [1, 2] 1 20 demoDB { assemble 1 7 demoProg demoPre with
    cin := demoPre.cin ++ [⟨2, 7, 9⟩], ins := [0, 1, 3, 2], outs := demoPre.cx ++ [⟨0, 9⟩] } = false := by decide
example : verify [1, 2] 1 20 demoDB { assemble 1 7 demoProg demoPre with
    cx := [⟨1, 10⟩, ⟨2, 3⟩, ⟨0, 2⟩], outs := [⟨1, 10⟩, ⟨2, 3⟩, ⟨0, 2⟩] } = false := by decide
example : verify [1, 2] 1 20 demoDB { assemble 1 7 demoProg demoPre with ins := [0, 1, 8] } = false := by decide
-- two declared contract inputs of equal worth swapped: the re-execution consumes them in the declared order
-- and records them in that order, the transaction is accepted (the property does not ask for its rejection)
example : verify [1, 2] 1 20 demoDB { assemble 1 7 demoProg demoPre with cin := [⟨1, 3, 5⟩, ⟨0, 3, 5⟩, ⟨3, 3, 5⟩] } = true := by decide
-- a permuted write set and an extra current read are accepted (the property does not ask for their rejection)
example : verify [1, 2] 1 20 demoDB { assemble 1 7 demoProg demoPre with kout := [(2, 0, 8), (1, 3, 0), (1, 2, 5)] } = true := by decide
example : verify [1, 2] 1 20 demoDB { assemble 1 7 demoProg demoPre with kin := demoPre.kin ++ [(1, 1, mkVer 2 0)] } = true := by decide
-- a failing call: pre-execution answers `failed` with a write set, the assembled transaction is refused
example : (preexec [1] 9 demoDB listReader demoUtxo
    (fun res => if res.isEmpty then some (.op (.put 1 0 2)) else some .fail)).map (·.outcome) = some .failed := by decide
-- a transfer the paying account cannot cover: the call errors, there is no response
example : preexec [1] 9 demoDB listReader demoUtxo (fun res => if res.isEmpty then some (.transfer 3 1 21) else none) = none := by decide

/-! ### the declared write set as it stands in the transaction (`RawTx`): equal to the re-executed one, entry by entry

`verifyTxRWSets` hands the whole list `TxOutputsExt` - transient entries and stored writes, in whatever order and
however often an entry occurs - to `xmodel.Equal`, which sorts it and the re-executed write set and compares them
pairwise.  The theorems above speak about the decoded view (`Tx`); here the list itself is the object. -/

/-- decoding the canonical encoding gives the transaction back -/
theorem raw_view (t : Tx) : t.raw.view = t := by
  obtain ⟨id, prog, limit, fee, kin, kout, cin, cx, ev, ins, outs⟩ := t
  simp only [Tx.raw, RawTx.view, kvOf_encodeW, trOf_encodeW, Tx.mk.injEq, true_and, and_true]
  exact ⟨parseIn_of_perm (List.Perm.refl _), parseOut_of_perm (List.Perm.refl _), parseEv_of_perm (List.Perm.refl _)⟩

/-- the canonical encoding commits exactly as the decoded transaction does -/
theorem commitRaw_raw (db : DB) (t : Tx) : commitRaw db t.raw = commit db t := by
  simp only [commitRaw, commit, Tx.raw, encodeW, nTransient]
  rw [applyW_encode]
  simp

/-- A transaction accepted as it stands is accepted in its decoded view: every rejection theorem above
(`tamper_*_rejected`, `reroute_rejected`, `stale_read_rejected`, `underpaid_rejected`, `failed_call_rejected` ...)
therefore holds for the transaction as it stands, whatever the shape of its `TxOutputsExt`. -/
theorem verifyRaw_view (bks : List Bucket) (price fuel : Nat) (db : DB) (t : RawTx)
    (h : verifyRaw bks price fuel db t = true) : verify bks price fuel db t.view = true := by
  simp only [verifyRaw, Bool.and_eq_true] at h
  obtain ⟨⟨⟨⟨h1, h2⟩, h3⟩, h4⟩, h5⟩ := h
  simp only [verify, Bool.and_eq_true]
  refine ⟨⟨⟨⟨h1, h2⟩, h3⟩, ?_⟩, h5⟩
  unfold reexecRaw at h4
  unfold reexecOK
  have e1 : t.view.kin = t.kin := rfl
  have e2 : t.view.prog = t.prog := rfl
  have e3 : t.view.limit = t.limit := rfl
  rw [e1, e2, e3]
  generalize exec bks (memReader (rsOf db t.kin)) replayReader t.prog fuel (Ctx.init t.view.cin) = res at h4 ⊢
  obtain ⟨y, o⟩ := res
  cases o with
  | ok =>
    simp only [Bool.and_eq_true] at h4 ⊢
    have hp : t.wext.Perm (fullW bks y) := List.isPerm_iff.mp h4.2
    have hk : (kvOf t.wext).Perm (wsetOf bks y.sb) := by
      have := perm_kvOf hp
      rwa [fullW, kvOf_encodeW] at this
    have ht : (trOf t.wext).Perm (transientOf y.tok.uin y.tok.uout y.m.ev) := by
      have := perm_trOf hp
      rwa [fullW, trOf_encodeW] at this
    refine ⟨⟨h4.1, ?_⟩, ?_⟩
    · simp only [sameSet, RawTx.view, Bool.and_eq_true, beq_iff_eq, List.all_eq_true, List.contains_iff_mem]
      exact ⟨hk.length_eq, fun e he => hk.mem_iff.mpr he⟩
    · simp only [RawTx.view, beq_iff_eq]
      rw [parseIn_of_perm ht, parseOut_of_perm ht, parseEv_of_perm ht]
  | failed => simp at h4
  | error => simp at h4

/-- DECLARED WRITES = RE-EXECUTED WRITES, AS LISTS.  If a transaction is accepted, re-executing its request over
its declared reads and its declared contract inputs succeeds, and the list `TxOutputsExt` is a permutation of the
list `RWSet().WSet` of that re-execution after `Flush` (transient entries included): every entry - (bucket, key,
value), or transient entry with its whole content - stands in the declared list exactly as often as the
re-execution produced it.  Inclusion in either direction is not enough. -/
theorem accepted_writes_reexecuted (bks : List Bucket) (price fuel : Nat) (db : DB) (t : RawTx)
    (h : verifyRaw bks price fuel db t = true) :
    ∃ y, exec bks (memReader (rsOf db t.kin)) replayReader t.prog fuel (Ctx.init t.view.cin) = (y, .ok) ∧
      t.wext.Perm (fullW bks y) ∧ (∀ e, t.wext.count e = (fullW bks y).count e) ∧
      t.wext.length = (fullW bks y).length := by
  simp only [verifyRaw, Bool.and_eq_true] at h
  have h4 := h.1.2
  unfold reexecRaw at h4
  generalize exec bks (memReader (rsOf db t.kin)) replayReader t.prog fuel (Ctx.init t.view.cin) = res at h4 ⊢
  obtain ⟨y, o⟩ := res
  cases o with
  | ok =>
    simp only [Bool.and_eq_true] at h4
    have hp : t.wext.Perm (fullW bks y) := List.isPerm_iff.mp h4.2
    exact ⟨y, rfl, hp, fun e => hp.count_eq e, hp.length_eq⟩
  | failed => simp at h4
  | error => simp at h4

/-- the write set of any re-execution lists no entry twice (no transient entry, no (bucket, key)) -/
theorem reexec_writes_nodup (bks : List Bucket) (hb : bks.Nodup) (fuel : Nat) (db : DB) (kin : List REntry)
    (p : Prog) (cin : List TxIn) :
    (fullW bks (exec bks (memReader (rsOf db kin)) replayReader p fuel (Ctx.init cin)).1).Nodup := by
  have hinv := exec_inv bks (memReader_wf _ (rsOf_sorted db kin)) replayReader p fuel (Ctx.init cin) (Inv.init _)
  exact encodeW_nodup (wsetOf_nodup hb hinv.sortedOut)

/-- A declared write set in which some entry stands twice is refused - whatever the request, the reads, the
contract inputs and the other entries are: no execution writes an entry twice.  (With `xmodel.Equal` weakened to
"same length and every declared entry occurs in the re-executed set" such a list passes as soon as the copy
stands in for another entry.) -/
theorem repeated_write_rejected (bks : List Bucket) (hb : bks.Nodup) (price fuel : Nat) (db : DB) (t : RawTx)
    (h : ¬ t.wext.Nodup) : verifyRaw bks price fuel db t = false := by
  cases hv : verifyRaw bks price fuel db t with
  | false => rfl
  | true =>
    obtain ⟨y, hy, hp, _, _⟩ := accepted_writes_reexecuted bks price fuel db t hv
    have hn := reexec_writes_nodup bks hb fuel db t.kin t.prog t.view.cin
    rw [hy] at hn
    exact absurd (hp.nodup_iff.mpr hn) h

/-- the mutant "entry `i` replaced by a copy of entry `j`" (same length) of ANY list `w`, in particular of the
write set a pre-execution returned: refused -/
theorem dup_write_rejected (bks : List Bucket) (hb : bks.Nodup) (price fuel : Nat) (db : DB) (t : RawTx)
    (w : List WX) (i j : Nat) (hi : i < w.length) (hj : j < w.length) (hne : i ≠ j) (ht : t.wext = w.set i w[j]) :
    verifyRaw bks price fuel db t = false :=
  repeated_write_rejected bks hb price fuel db t (by rw [ht]; exact set_copy_not_nodup w i j hi hj hne)

/-- the mutant "entry `i` dropped, a copy of entry `j` appended" (same length): refused -/
theorem dropdup_write_rejected (bks : List Bucket) (hb : bks.Nodup) (price fuel : Nat) (db : DB) (t : RawTx)
    (w : List WX) (i j : Nat) (hj : j < w.length) (hne : i ≠ j) (ht : t.wext = w.eraseIdx i ++ [w[j]]) :
    verifyRaw bks price fuel db t = false :=
  repeated_write_rejected bks hb price fuel db t (by rw [ht]; exact drop_copy_not_nodup w i j hj hne)

/-- the mutant "a copy of entry `j` appended" (one entry more): refused -/
theorem copied_write_rejected (bks : List Bucket) (hb : bks.Nodup) (price fuel : Nat) (db : DB) (t : RawTx)
    (w : List WX) (j : Nat) (hj : j < w.length) (ht : t.wext = w ++ [w[j]]) :
    verifyRaw bks price fuel db t = false :=
  repeated_write_rejected bks hb price fuel db t (by rw [ht]; exact append_copy_not_nodup w j hj)

/-- Declaring the same entries in another order (two entries swapped, transient entries moved behind stored
ones ...) changes nothing: accepted iff the original is.  The versions the commit assigns follow the declared
order (`commitRaw_exact`). -/
theorem permuted_raw_accepted (bks : List Bucket) (price fuel : Nat) (db : DB) (t : RawTx)
    (h : verifyRaw bks price fuel db t = true) (w' : List WX) (hp : w'.Perm t.wext) :
    verifyRaw bks price fuel db { t with wext := w' } = true := by
  obtain ⟨y, hy, hpy, _, _⟩ := accepted_writes_reexecuted bks price fuel db t h
  have ht : (trOf t.wext).Perm (transientOf y.tok.uin y.tok.uout y.m.ev) := by
    have := perm_trOf hpy
    rwa [fullW, trOf_encodeW] at this
  have ht' : (trOf w').Perm (transientOf y.tok.uin y.tok.uout y.m.ev) := (perm_trOf hp).trans ht
  have ei : parseIn (trOf w') = parseIn (trOf t.wext) := by rw [parseIn_of_perm ht, parseIn_of_perm ht']
  have eo : parseOut (trOf w') = parseOut (trOf t.wext) := by rw [parseOut_of_perm ht, parseOut_of_perm ht']
  simp only [verifyRaw, Bool.and_eq_true] at h ⊢
  obtain ⟨⟨⟨⟨h1, h2⟩, h3⟩, h4⟩, h5⟩ := h
  refine ⟨⟨⟨⟨h1, h2⟩, ?_⟩, ?_⟩, ?_⟩
  · simp only [effective, RawTx.view, ei, eo] at h3 ⊢
    exact h3
  · unfold reexecRaw
    simp only [RawTx.view, ei]
    have hy' : exec bks (memReader (rsOf db t.kin)) replayReader t.prog fuel (Ctx.init (parseIn (trOf t.wext))) = (y, .ok) := hy
    rw [hy']
    unfold reexecRaw at h4
    rw [hy] at h4
    simp only [Bool.and_eq_true] at h4 ⊢
    exact ⟨h4.1, List.isPerm_iff.mpr (hp.trans hpy)⟩
  · simp only [writesRead, RawTx.view, List.all_eq_true] at h5 ⊢
    intro w hw
    exact h5 w ((perm_kvOf hp).mem_iff.mp hw)

/-- pre-executed ⇒ verified, for the transaction as it stands (same hypothesis as `preexec_verifies_partial`) -/
theorem preexec_verifies_raw_partial (bks : List Bucket) (hb : transient ∉ bks) (price fuel id : Nat) (db : DB)
    (hdb : db.WF) {σ : Type} (R : UReader σ) (hR : R.Lawful) (st : σ) (p : Prog) (pre : Pre)
    (h : preexec bks fuel db R st p = some pre) (hok : pre.outcome = .ok)
    (hpeak : pre.peak ≤ pre.used) :
    verifyRaw bks price fuel db (assemble price id p pre).raw = true := by
  have hv := preexec_verifies_partial bks hb price fuel id db hdb R hR st p pre h hok hpeak
  obtain ⟨_, y, hy, hui, huo, _, hev, _, hpk, hw, _⟩ := reexec_of_preexec bks fuel db hdb R hR st p pre h
  simp only [verify, Bool.and_eq_true] at hv
  obtain ⟨⟨⟨⟨h1, h2⟩, h3⟩, _⟩, h5⟩ := hv
  simp only [verifyRaw, Bool.and_eq_true, raw_view]
  refine ⟨⟨⟨⟨h1, h2⟩, h3⟩, ?_⟩, h5⟩
  unfold reexecRaw
  rw [raw_view]
  have e1 : (assemble price id p pre).raw.kin = pre.kin := rfl
  have e2 : (assemble price id p pre).raw.prog = p := rfl
  have e3 : (assemble price id p pre).cin = pre.cin := rfl
  rw [e1, e2, e3, hy, hok]
  simp only [Bool.and_eq_true, decide_eq_true_eq]
  refine ⟨by rw [hpk]; exact hpeak, List.isPerm_iff.mpr ?_⟩
  simp only [Tx.raw, assemble, fullW, hui, huo, hev, hw]
  exact List.Perm.refl _

/-- consequently it is committed by `SubmitTx`, and the commit is the one of the decoded transaction -/
theorem preexec_submits_raw_partial (bks : List Bucket) (hb : transient ∉ bks) (price fuel id : Nat) (db : DB)
    (hdb : db.WF) {σ : Type} (R : UReader σ) (hR : R.Lawful) (st : σ) (p : Prog) (pre : Pre)
    (h : preexec bks fuel db R st p = some pre) (hok : pre.outcome = .ok)
    (hpeak : pre.peak ≤ pre.used) :
    submitRaw bks price fuel db (assemble price id p pre).raw = (commit db (assemble price id p pre), true) := by
  unfold submitRaw
  rw [preexec_verifies_raw_partial bks hb price fuel id db hdb R hR st p pre h hok hpeak, commitRaw_raw]
  rfl

/-- After the commit of a transaction as it stands every key holds what the LAST stored entry of `TxOutputsExt`
for it says, with version (txid, position of that entry in the whole list - transient entries counted), and
every key without an entry holds what it held before. -/
theorem commitRaw_exact (db : DB) (t : RawTx) (b : Bucket) (k : Key) :
    (commitRaw db t).cur b k =
      match lastWX b k t.wext 0 with
      | some (off, v) => ⟨mkVer t.id off, v⟩
      | none => db.cur b k :=
  applyW_cur t.id b k t.wext 0 db

theorem commitRaw_exact_live (db : DB) (t : RawTx) (b : Bucket) (k : Key) :
    find k ((commitRaw db t).live b) =
      match lastWX b k t.wext 0 with
      | some (off, v) => if v = 0 then none else some ⟨mkVer t.id off, v⟩
      | none => find k (db.live b) :=
  applyW_live t.id b k t.wext 0 db

theorem commitRaw_untouched (db : DB) (t : RawTx) (b : Bucket) (k : Key)
    (h : ∀ w ∈ kvOf t.wext, ¬ (w.1 = b ∧ w.2.1 = k)) : (commitRaw db t).cur b k = db.cur b k := by
  rw [commitRaw_exact, lastWX_none b k t.wext 0 h]

theorem commitRaw_wf (db : DB) (h : db.WF) (t : RawTx) : (commitRaw db t).WF := applyW_wf t.id t.wext 0 db h

theorem submitRaw_wf (bks : List Bucket) (price fuel : Nat) (db : DB) (h : db.WF) (t : RawTx) :
    (submitRaw bks price fuel db t).1.WF := by
  unfold submitRaw
  split
  · exact commitRaw_wf db h t
  · exact h

/-- a refused submission of a transaction as it stands leaves the committed state as it was -/
theorem rejected_raw_noop (bks : List Bucket) (price fuel : Nat) (db : DB) (t : RawTx)
    (h : (submitRaw bks price fuel db t).2 = false) : (submitRaw bks price fuel db t).1 = db := by
  unfold submitRaw at h ⊢
  split
  · rename_i hv; simp [hv] at h
  · rfl

/-! ### copies inside the transient entries, and the read set as a set -/

/-- declared contract output `i` replaced by a copy of a different declared contract output `j` (whether or not the
real outputs are changed alike): refused -/
theorem dup_transfer_rejected (bks : List Bucket) (price fuel : Nat) (db : DB) (hdb : db.WF) {σ : Type}
    (R : UReader σ) (hR : R.Lawful) (st : σ) (p : Prog)
    (pre : Pre) (h : preexec bks fuel db R st p = some pre) (t : Tx) (hp : t.prog = p) (hk : t.kin = pre.kin)
    (hi : t.cin = pre.cin) (i j : Nat) (hli : i < pre.cx.length) (hlj : j < pre.cx.length)
    (hne : pre.cx[i] ≠ pre.cx[j]) (hc : t.cx = pre.cx.set i pre.cx[j]) : verify bks price fuel db t = false :=
  tamper_transfer_rejected bks price fuel db hdb R hR st p pre h t hp hk hi
    (by rw [hc]; exact set_copy_ne pre.cx i j hli hlj hne)

/-- a declared event replaced by a copy of a different one, or two different declared events swapped: refused -/
theorem dup_event_rejected (bks : List Bucket) (price fuel : Nat) (db : DB) (hdb : db.WF) {σ : Type}
    (R : UReader σ) (hR : R.Lawful) (st : σ) (p : Prog)
    (pre : Pre) (h : preexec bks fuel db R st p = some pre) (t : Tx) (hp : t.prog = p) (hk : t.kin = pre.kin)
    (hi : t.cin = pre.cin) (i j : Nat) (hli : i < pre.ev.length) (hlj : j < pre.ev.length)
    (hne : pre.ev[i] ≠ pre.ev[j])
    (hc : t.ev = pre.ev.set i pre.ev[j] ∨ t.ev = (pre.ev.set i pre.ev[j]).set j pre.ev[i]) :
    verify bks price fuel db t = false := by
  apply tamper_event_rejected bks price fuel db hdb R hR st p pre h t hp hk hi
  rcases hc with hc | hc
  · rw [hc]; exact set_copy_ne pre.ev i j hli hlj hne
  · rw [hc]; exact set_swap_ne pre.ev i j hli hlj hne

/-- The declared read set counts as a SET of (bucket, key, version) entries: order and repetitions change nothing
(two reads swapped, a copy of a read appended: same verdict), and a read replaced by a copy of another one is the
transaction with that read dropped. -/
theorem reads_as_set (bks : List Bucket) (price fuel : Nat) (db : DB) (t : RawTx) (kin' : List REntry)
    (h : ∀ e, e ∈ kin' ↔ e ∈ t.kin) :
    verifyRaw bks price fuel db { t with kin := kin' } = verifyRaw bks price fuel db t := by
  have hrs : rsOf db kin' = rsOf db t.kin := by
    apply rsOf_congr
    intro b k
    constructor
    · rintro ⟨v, hv⟩; exact ⟨v, (h _).mp hv⟩
    · rintro ⟨v, hv⟩; exact ⟨v, (h _).mpr hv⟩
  have hcur : readsCurrent db kin' = readsCurrent db t.kin := by
    rw [Bool.eq_iff_iff]
    simp only [readsCurrent, List.all_eq_true]
    exact ⟨fun hh e he => hh e ((h e).mpr he), fun hh e he => hh e ((h e).mp he)⟩
  have hwr : writesRead ({ t with kin := kin' } : RawTx).view = writesRead t.view := by
    rw [Bool.eq_iff_iff]
    simp only [writesRead, RawTx.view, List.all_eq_true, List.any_eq_true]
    constructor
    · intro hh w hw
      obtain ⟨r, hr, hc⟩ := hh w hw
      exact ⟨r, (h r).mp hr, hc⟩
    · intro hh w hw
      obtain ⟨r, hr, hc⟩ := hh w hw
      exact ⟨r, (h r).mpr hr, hc⟩
  have heff : effective ({ t with kin := kin' } : RawTx).view = effective t.view := rfl
  have hre : reexecRaw bks fuel db { t with kin := kin' } = reexecRaw bks fuel db t := by
    simp only [reexecRaw, RawTx.view, hrs]
  simp only [verifyRaw, hcur, hwr, heff, hre]

/-! non-vacuity on the demonstration transaction: its `TxOutputsExt` holds 3 transient entries and 3 stored writes -/

def demoRaw : RawTx := (assemble 1 7 demoProg demoPre).raw

example : demoRaw.wext =
    [.tr (.inputs [⟨0, 3, 5⟩, ⟨1, 3, 5⟩, ⟨3, 3, 5⟩]), .tr (.outputs [⟨1, 10⟩, ⟨2, 3⟩, ⟨3, 2⟩]), .tr (.events [⟨3, 3⟩]),
     .kv (1, 2, 5), .kv (1, 3, 0), .kv (2, 0, 8)] := by decide
example : verifyRaw [1, 2] 1 20 demoDB demoRaw = true := by decide
-- the stored write of key 3 replaced by a second copy of the write of key 2 (the declared list keeps its length and
-- every declared entry occurs in the re-executed set): refused; likewise drop + append, and an appended copy
example : verifyRaw [1, 2] 1 20 demoDB { demoRaw with wext := demoRaw.wext.set 4 demoRaw.wext[3] } = false := by decide
example : verifyRaw [1, 2] 1 20 demoDB { demoRaw with wext := demoRaw.wext.eraseIdx 4 ++ [demoRaw.wext[3]] } = false := by decide
example : verifyRaw [1, 2] 1 20 demoDB { demoRaw with wext := demoRaw.wext ++ [demoRaw.wext[5]] } = false := by decide
-- ... although every declared entry of the first mutant is a re-executed one and the lengths agree
example : (demoRaw.wext.set 4 demoRaw.wext[3]).all (fun e => demoRaw.wext.contains e) = true ∧
    (demoRaw.wext.set 4 demoRaw.wext[3]).length = demoRaw.wext.length := by decide
-- the token side: the entry of the declared contract outputs replaced by a copy of the entry of the declared inputs,
-- a stored write replaced by a copy of a transient entry, a transient entry replaced by a copy of a stored write
example : verifyRaw [1, 2] 1 20 demoDB { demoRaw with wext := demoRaw.wext.set 1 demoRaw.wext[0] } = false := by decide
example : verifyRaw [1, 2] 1 20 demoDB { demoRaw with wext := demoRaw.wext.set 5 demoRaw.wext[1] } = false := by decide
example : verifyRaw [1, 2] 1 20 demoDB { demoRaw with wext := demoRaw.wext.set 2 demoRaw.wext[3] } = false := by decide
-- two entries swapped (a transient one with a stored one): accepted, and the commit numbers versions by position
example : verifyRaw [1, 2] 1 20 demoDB { demoRaw with wext := [demoRaw.wext[3], demoRaw.wext[1], demoRaw.wext[2],
    demoRaw.wext[0], demoRaw.wext[4], demoRaw.wext[5]] } = true := by decide
example : (commitRaw demoDB { demoRaw with wext := [demoRaw.wext[3], demoRaw.wext[1], demoRaw.wext[2],
    demoRaw.wext[0], demoRaw.wext[4], demoRaw.wext[5]] }).cur 1 2 = ⟨mkVer 7 0, 5⟩ := by decide
-- the hypotheses of `dup_write_rejected` are satisfiable (positions 4 and 3 of the demonstration list)
example : (4 : Nat) < demoRaw.wext.length ∧ (3 : Nat) < demoRaw.wext.length ∧ (4 : Nat) ≠ 3 ∧ ([1, 2] : List Nat).Nodup := by decide

/-! ### the same payment made twice: counting matters -/

/-- the contract pays 5 to address 1 twice (each covered exactly by one input) -/
def twiceProg : Prog := fun res =>
  match res with
  | [] => some (.transfer 3 1 5)
  | [_] => some (.transfer 3 1 5)
  | _ => none

def twicePre : Pre := ⟨.ok, [], [], [⟨0, 3, 5⟩, ⟨1, 3, 5⟩], [⟨1, 5⟩, ⟨1, 5⟩], [], 0, 0, [.done, .done]⟩

example : preexec [1] 9 DB.empty listReader demoUtxo twiceProg = some twicePre := by decide
example : verify [1] 0 9 DB.empty (assemble 0 7 twiceProg twicePre) = true := by decide
/-- one of the two identical outputs is given to address 9: every declared output still occurs among the
real outputs (set inclusion holds), but not as often as declared — refused -/
example : verify [1] 0 9 DB.empty { assemble 0 7 twiceProg twicePre with outs := [⟨1, 5⟩, ⟨9, 5⟩] } = false := by decide
example : ([⟨1, 5⟩, ⟨1, 5⟩] : List TxOut).all (fun o => ([⟨1, 5⟩, ⟨9, 5⟩] : List TxOut).contains o) = true := by decide
-- the hypotheses of `redirect_one_output_rejected` are satisfiable (index 1, no further outputs)
example : (⟨9, 5⟩ : TxOut) ≠ twicePre.cx[1] ∧ ([⟨1, 5⟩, ⟨9, 5⟩] : List TxOut) = twicePre.cx.set 1 ⟨9, 5⟩ ++ [] := by decide

/-! ### the stopping rule of the replay reader matters -/

/-- `UTXOReader.SelectUtxo` leaving its loop only when the sum EXCEEDS the amount -/
def replayLoopStrict (a : Addr) (need : Nat) : List TxIn → Nat → Nat → Option (Nat × Nat)
  | [], n, sum => some (n, sum)
  | u :: rest, n, sum =>
    if u.owner ≠ a then none
    else if need < sum + u.amt then some (n + 1, sum + u.amt)
    else replayLoopStrict a need rest (n + 1) (sum + u.amt)

def replayReaderStrict : UReader (List TxIn) where
  select st a need :=
    match replayLoopStrict a need st 0 0 with
    | none => (none, st)
    | some (n, sum) => if sum < need then (none, st) else (some (st.take n, sum), st.drop n)

/-- with that rule the re-execution of `demoProg` over the inputs its own pre-execution returned takes a
third input for the exactly covered first payment and invents a change output (the rule `≤` of
`replayReader` reproduces the pre-execution: `reexec_of_preexec`) -/
example : (transfer replayReaderStrict ⟨demoPre.cin, [], []⟩ 3 1 10).1.uout = [⟨1, 10⟩, ⟨3, 5⟩] ∧
    (transfer replayReader ⟨demoPre.cin, [], []⟩ 3 1 10).1.uout = [⟨1, 10⟩] := by decide

/-! ### two submissions in flight (the harness op `race`) -/

/-- Whichever of two transactions the node takes first: once it is accepted, the other one - pre-executed over the
same earlier state, declaring a read of a key the first one overwrites - is refused.  (The versions of the first
transaction are new: ids are hashes of distinct transactions, as in `stale_read_rejected`.) -/
theorem second_of_conflicting_pair_refused (bks : List Bucket) (price fuel : Nat) (db : DB) (a b : Tx) (e : REntry)
    (he : e ∈ b.kin) (hw : ∃ w ∈ a.kout, w.1 = e.1 ∧ w.2.1 = e.2.1) (hfresh : ∀ off, mkVer a.id off ≠ e.2.2)
    (ha : (submit bks price fuel db a).2 = true) :
    (submit bks price fuel (submit bks price fuel db a).1 b).2 = false := by
  have hv : verify bks price fuel db a = true := by
    by_cases h : verify bks price fuel db a = true
    · exact h
    · simp [submit, h] at ha
  have hs : submit bks price fuel db a = (commit db a, true) := by simp [submit, hv]
  rw [hs]
  have hb := stale_read_rejected bks price fuel db b a e he hw hfresh
  simp [submit, hb]

/-- Two transactions each of which overwrites a key the other declares as read are never both accepted, in either
order: every serial order of the two refuses the later one.  An execution that accepts both (seeded change C09-14:
the key locks dropped before the batch is written) is therefore not an execution of `submit` in any order - the
impl-side oracle of the `race` op (key `conflicting-submissions-both-...:key-version`) states exactly this. -/
theorem conflicting_pair_at_most_one (bks : List Bucket) (price fuel : Nat) (db : DB) (a b : Tx) (ea eb : REntry)
    (hea : ea ∈ a.kin) (hwb : ∃ w ∈ b.kout, w.1 = ea.1 ∧ w.2.1 = ea.2.1) (hfb : ∀ off, mkVer b.id off ≠ ea.2.2)
    (heb : eb ∈ b.kin) (hwa : ∃ w ∈ a.kout, w.1 = eb.1 ∧ w.2.1 = eb.2.1) (hfa : ∀ off, mkVer a.id off ≠ eb.2.2) :
    ((submit bks price fuel db a).2 = true → (submit bks price fuel (submit bks price fuel db a).1 b).2 = false) ∧
    ((submit bks price fuel db b).2 = true → (submit bks price fuel (submit bks price fuel db b).1 a).2 = false) :=
  ⟨second_of_conflicting_pair_refused bks price fuel db a b eb heb hwa hfa,
   second_of_conflicting_pair_refused bks price fuel db b a ea hea hwb hfb⟩

/-- a transaction that only READS a key the other overwrites does not make the pair unserialisable: taken first, it
leaves the other one's reads current (the order the `race` oracle accepts) -/
theorem reader_first_keeps_reads_current (db : DB) (a : Tx) (kin : List REntry)
    (hdisj : ∀ e ∈ kin, ∀ w ∈ a.kout, ¬ (w.1 = e.1 ∧ w.2.1 = e.2.1))
    (hcur : readsCurrent db kin = true) : readsCurrent (commit db a) kin = true := by
  simp only [readsCurrent, List.all_eq_true, beq_iff_eq] at hcur ⊢
  intro e he
  rw [commit_untouched db a e.1 e.2.1 (fun w hw h => hdisj e he w hw h)]
  exact hcur e he

end XV.C09
